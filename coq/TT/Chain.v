(* TT cores stored as nested lists dat[a][i][b]; element access by chaining. *)
From Coq Require Import List Arith Lia Ring PeanoNat ZArith.
From TV Require Import Num.Ops Lin.Tab Lin.BigSum.
Import ListNotations.

Record core (T : Type) := mk_core { cr1 : nat; cn : nat; cr2 : nat; dat : list (list (list T)) }.
Arguments mk_core {T}. Arguments cr1 {T}. Arguments cn {T}. Arguments cr2 {T}. Arguments dat {T}.

Section Chain.
Context {T : Type} (K : ops T).
Notation "0" := (o0 K). Notation "1" := (o1 K).
Infix "+" := (oadd K). Infix "*" := (omul K). Infix "-" := (osub K).

Definition cget (G : core T) (a i b : nat) : T := nth b (nth i (nth a (dat G) []) []) 0.
Definition mkcore (r1 n r2 : nat) (f : nat -> nat -> nat -> T) : core T :=
  mk_core r1 n r2 (tab r1 (fun a => tab n (fun i => tab r2 (fun b => f a i b)))).
Lemma cget_mk r1 n r2 f a i b : a < r1 -> i < n -> b < r2 -> cget (mkcore r1 n r2 f) a i b = f a i b.
Proof. intros. unfold cget, mkcore; simpl. rewrite !nth_tab; auto. Qed.
Lemma cr1_mk r1 n r2 f : cr1 (mkcore r1 n r2 f) = r1. Proof. reflexivity. Qed.
Lemma cn_mk r1 n r2 f : cn (mkcore r1 n r2 f) = n. Proof. reflexivity. Qed.
Lemma cr2_mk r1 n r2 f : cr2 (mkcore r1 n r2 f) = r2. Proof. reflexivity. Qed.

(* storage well-formedness: the nested lists have the advertised lengths *)
Definition wfdat (G : core T) : Prop :=
  length (dat G) = cr1 G /\
  Forall (fun row => length row = cn G /\ Forall (fun v => length v = cr2 G) row) (dat G).
Lemma wfdat_mk r1 n r2 f : wfdat (mkcore r1 n r2 f).
Proof.
  split; simpl. - apply tab_length.
  - apply Forall_forall. intros row Hr. apply in_tab in Hr as (a & _ & ->). split. + apply tab_length.
    + apply Forall_forall. intros v Hv. apply in_tab in Hv as (i & _ & ->). apply tab_length.
Qed.

Definition shape (Y : list (core T)) : list nat := map cn Y.
Definition ranks (Y : list (core T)) : list nat := 1%nat :: map cr2 Y.

(* row vector times the i-th slice of a core *)
Definition vstep (v : list T) (G : core T) (i : nat) : list T :=
  tab (cr2 G) (fun b => bsum K (cr1 G) (fun a => nth a v 0 * cget G a i b)).
Fixpoint run (v : list T) (Y : list (core T)) (idx : list nat) : list T :=
  match Y, idx with
  | G :: Y', i :: idx' => run (vstep v G i) Y' idx'
  | _, _ => v
  end.
Definition get (Y : list (core T)) (idx : list nat) : T := nth O (run [1] Y idx) 0.
Definition get_many (Y : list (core T)) (I : list (list nat)) : list T := map (get Y) I.

(* a chain entered with left rank r, indexed by idx: ranks match, indices in range, last rank 1 *)
Fixpoint wf (r : nat) (Y : list (core T)) (idx : list nat) : Prop :=
  match Y, idx with
  | [], [] => r = 1%nat
  | G :: Y', i :: idx' => cr1 G = r /\ i < cn G /\ wf (cr2 G) Y' idx'
  | _, _ => False
  end.
(* open chain: same, but the last rank is rl *)
Fixpoint wfo (r : nat) (Y : list (core T)) (idx : list nat) (rl : nat) : Prop :=
  match Y, idx with
  | [], [] => r = rl
  | G :: Y', i :: idx' => cr1 G = r /\ i < cn G /\ wfo (cr2 G) Y' idx' rl
  | _, _ => False
  end.
Lemma wf_wfo r Y idx : wf r Y idx <-> wfo r Y idx 1.
Proof. revert r idx; induction Y as [|G Y IH]; intros r [|i idx]; simpl; try tauto. rewrite IH. tauto. Qed.
(* shape-only well-formedness *)
Fixpoint chain (r : nat) (Y : list (core T)) (rl : nat) : Prop :=
  match Y with [] => r = rl | G :: Y' => cr1 G = r /\ chain (cr2 G) Y' rl end.
Definition inb (ns idx : list nat) : Prop := Forall2 (fun i n => i < n) idx ns.
Lemma wfo_chain_inb r Y idx rl : wfo r Y idx rl <-> chain r Y rl /\ inb (shape Y) idx.
Proof.
  revert r idx; induction Y as [|G Y IH]; intros r [|i idx]; simpl.
  - split; [intros; split; [auto|constructor]|tauto].
  - split; [tauto|]. intros [_ H]. inversion H.
  - split; [tauto|]. intros [_ H]. inversion H.
  - rewrite IH. split.
    + intros (A & B & C & D). repeat split; auto. constructor; auto.
    + intros ((A & C) & D). inversion D; subst. tauto.
Qed.
Lemma wfo_length r Y idx rl : wfo r Y idx rl -> length idx = length Y.
Proof. revert r idx; induction Y as [|G Y IH]; intros r [|i idx]; simpl; try tauto. intros (_ & _ & H). f_equal. eauto. Qed.

Lemma vstep_length v G i : length (vstep v G i) = cr2 G.
Proof. apply tab_length. Qed.
Lemma nth_vstep v G i b : b < cr2 G ->
  nth b (vstep v G i) 0 = bsum K (cr1 G) (fun a => nth a v 0 * cget G a i b).
Proof. intros. unfold vstep. now rewrite nth_tab. Qed.
Lemma run_length v Y idx r rl : wfo r Y idx rl -> length v = r -> length (run v Y idx) = rl.
Proof.
  revert v idx r; induction Y as [|G Y IH]; intros v [|i idx] r; simpl; try tauto.
  - intros -> H; exact H.
  - intros (A & B & C) L. eapply IH; [exact C| apply vstep_length].
Qed.
Lemma run_app v Y1 Y2 idx1 idx2 : length idx1 = length Y1 ->
  run v (Y1 ++ Y2) (idx1 ++ idx2) = run (run v Y1 idx1) Y2 idx2.
Proof.
  revert v idx1; induction Y1 as [|G Y1 IH]; intros v [|i idx1]; simpl; intros L; try discriminate; auto.
Qed.

Hypothesis Rth : rng K.
Add Ring RrChain : Rth.

(* vstep only looks at the first cr1 G entries of v, through nth *)
Lemma vstep_ext v w G i : (forall a, a < cr1 G -> nth a v 0 = nth a w 0) -> vstep v G i = vstep w G i.
Proof. intros H. unfold vstep. apply tab_ext; intros b Hb. apply bsum_ext; intros a Ha. now rewrite H. Qed.

(* linearity of the chain in the entering vector *)
Definition vadd (v w : list T) : list T := tab (length v) (fun a => nth a v 0 + nth a w 0).
Definition vscale (c : T) (v : list T) : list T := map (fun x => c * x) v.
Lemma nth_vscale c v a : nth a (vscale c v) 0 = c * nth a v 0.
Proof.
  unfold vscale. destruct (Nat.lt_ge_cases a (length v)) as [H|H].
  - rewrite nth_indep with (d' := c * 0) by (now rewrite map_length). now rewrite map_nth.
  - rewrite !nth_overflow by (rewrite ?map_length; lia). ring.
Qed.
Lemma vstep_scale c v G i : vstep (vscale c v) G i = vscale c (vstep v G i).
Proof.
  apply (list_eq_nth 0). - unfold vscale. now rewrite map_length, !vstep_length.
  - rewrite vstep_length. intros b Hb. rewrite nth_vscale, !nth_vstep by auto.
    rewrite <- bsum_mul_l by auto. apply bsum_ext; intros a Ha. rewrite nth_vscale. ring.
Qed.
Lemma run_scale c v Y idx : run (vscale c v) Y idx = vscale c (run v Y idx).
Proof.
  revert v idx; induction Y as [|G Y IH]; intros v [|i idx]; simpl; auto.
  rewrite vstep_scale. apply IH.
Qed.
Lemma vstep_vadd v w G i : length v = cr1 G -> length w = cr1 G ->
  vstep (vadd v w) G i = vadd (vstep v G i) (vstep w G i).
Proof.
  intros Lv Lw. apply (list_eq_nth 0).
  - unfold vadd. now rewrite tab_length, !vstep_length.
  - rewrite vstep_length. intros b Hb. unfold vadd at 2. rewrite vstep_length, nth_tab by auto.
    rewrite !nth_vstep by auto. rewrite <- bsum_add by auto. apply bsum_ext; intros a Ha.
    unfold vadd. rewrite nth_tab by lia. ring.
Qed.
Lemma run_vadd v w Y idx r rl : wfo r Y idx rl -> length v = r -> length w = r ->
  run (vadd v w) Y idx = vadd (run v Y idx) (run w Y idx).
Proof.
  revert v w idx r; induction Y as [|G Y IH]; intros v w [|i idx] r; simpl; try tauto.
  intros (A & B & C) Lv Lw. rewrite vstep_vadd by congruence.
  apply (IH _ _ _ (cr2 G)); auto using vstep_length.
Qed.

(* the e_k basis vector and decomposition of a run over the entering vector *)
Definition evec (r k : nat) : list T := tab r (fun a => if Nat.eqb a k then 1 else 0).
Lemma nth_evec r k a : a < r -> nth a (evec r k) 0 = if Nat.eqb a k then 1 else 0.
Proof. intros. unfold evec. now rewrite nth_tab. Qed.
Lemma evec_length r k : length (evec r k) = r. Proof. apply tab_length. Qed.

(* open-chain entries: D Y idx a b = (prod of slices)[a, b] *)
Definition dget (Y : list (core T)) (idx : list nat) (r a b : nat) : T := nth b (run (evec r a) Y idx) 0.

Lemma vstep_decomp v G i : vstep v G i =
  tab (cr2 G) (fun b => bsum K (cr1 G) (fun a => nth a v 0 * nth b (vstep (evec (cr1 G) a) G i) 0)).
Proof.
  unfold vstep at 1. apply tab_ext; intros b Hb. apply bsum_ext; intros a Ha. f_equal.
  rewrite nth_vstep by auto. rewrite (bsum_single K Rth (cr1 G) a); auto.
  - rewrite nth_evec, Nat.eqb_refl by auto. ring.
  - intros a' Ha' Hne. rewrite nth_evec by auto. destruct (Nat.eqb_spec a' a); [contradiction|ring].
Qed.

Lemma run_decomp Y : forall v idx r rl, wfo r Y idx rl -> length v = r -> forall b, b < rl ->
  nth b (run v Y idx) 0 = bsum K r (fun a => nth a v 0 * dget Y idx r a b).
Proof.
  induction Y as [|G Y IH]; intros v [|i idx] r rl; simpl; try tauto.
  - intros -> L b Hb. unfold dget. simpl. rewrite (bsum_single K Rth rl b); auto.
    + rewrite nth_evec, Nat.eqb_refl by auto. ring.
    + intros a Ha Hne. rewrite nth_evec by auto. destruct (Nat.eqb_spec b a); [congruence|ring].
  - intros (A & B & C) L b Hb. unfold dget. simpl.
    rewrite (IH _ _ _ _ C (vstep_length _ _ _) b Hb).
    rewrite (bsum_ext K (cr2 G) _ (fun c => bsum K r (fun a => nth a v 0 * (cget G a i c * dget Y idx (cr2 G) c b)))).
    2:{ intros c Hc. rewrite nth_vstep by auto. rewrite A, <- bsum_mul_r by auto.
        apply bsum_ext; intros a Ha. ring. }
    rewrite bsum_swap by auto. apply bsum_ext; intros a Ha.
    rewrite (IH _ _ _ _ C (vstep_length _ _ _) b Hb).
    rewrite <- bsum_mul_l by auto. apply bsum_ext; intros c Hc. f_equal.
    rewrite nth_vstep by auto. rewrite A. rewrite (bsum_single K Rth r a); auto.
    + rewrite nth_evec, Nat.eqb_refl by auto. ring.
    + intros a' Ha' Hne. rewrite nth_evec by auto. destruct (Nat.eqb_spec a' a); [contradiction|ring].
Qed.

(* multi-index sums *)
Fixpoint msum (ns : list nat) (f : list nat -> T) : T :=
  match ns with
  | [] => f []
  | n :: ns' => bsum K n (fun i => msum ns' (fun idx => f (i :: idx)))
  end.
Lemma msum_ext ns f g : (forall idx, inb ns idx -> f idx = g idx) -> msum ns f = msum ns g.
Proof.
  revert f g; induction ns as [|n ns IH]; intros f g H; simpl.
  - apply H. constructor.
  - apply bsum_ext; intros i Hi. apply IH. intros idx Hidx. apply H. constructor; auto.
Qed.
Lemma msum_add ns f g : msum ns (fun idx => f idx + g idx) = msum ns f + msum ns g.
Proof.
  revert f g; induction ns as [|n ns IH]; intros f g; simpl; [reflexivity|].
  rewrite <- bsum_add by auto. apply bsum_ext; intros i Hi. apply IH.
Qed.
Lemma msum_mul_l ns c f : msum ns (fun idx => c * f idx) = c * msum ns f.
Proof.
  revert f; induction ns as [|n ns IH]; intros f; simpl; [reflexivity|].
  rewrite <- bsum_mul_l by auto. apply bsum_ext; intros i Hi. apply IH.
Qed.
Lemma msum_0 ns : msum ns (fun _ => 0) = 0.
Proof. induction ns as [|n ns IH]; simpl; [reflexivity|]. apply bsum_0'; auto. Qed.
Lemma msum_app ns1 ns2 f :
  msum (ns1 ++ ns2) f = msum ns1 (fun i1 => msum ns2 (fun i2 => f (i1 ++ i2))).
Proof.
  revert f; induction ns1 as [|n ns1 IH]; intros f; simpl; [reflexivity|].
  apply bsum_ext; intros i Hi. apply IH.
Qed.
End Chain.
