(* Dense linear systems over an [ops T]: dot products, matrix-vector product, list update, and an
   executable Gauss-Jordan elimination with partial pivoting (used to RUN the ridge solves of the ALS
   models exactly over Qc and in binary64; theorems treat the solver as an oracle with a contract). *)
From Coq Require Import List Arith Lia PeanoNat Bool.
From TV Require Import Num.Ops Lin.Tab Lin.BigSum.
Import ListNotations.

(* l[k] = x  (no-op when k is out of range, like the model never relies on it) *)
Fixpoint upd {A} (k : nat) (x : A) (l : list A) : list A :=
  match l, k with
  | [], _ => []
  | _ :: l', O => x :: l'
  | y :: l', S k' => y :: upd k' x l'
  end.

Section Solve.
Context {T : Type} (K : ops T).
Notation "0" := (o0 K). Notation "1" := (o1 K).
Infix "+" := (oadd K). Infix "*" := (omul K). Infix "-" := (osub K). Infix "/" := (odiv K).

Definition dot (p : nat) (x y : list T) : T := bsum K p (fun a => nth a x 0 * nth a y 0).
Definition mulmv (p : nat) (N : list (list T)) (x : list T) : list T :=
  tab p (fun a => dot p (nth a N []) x).

(* row index in [c, p) with the largest |M[r][c]| (first one on ties) *)
Definition pivot_row (p : nat) (M : list (list T)) (c : nat) : nat :=
  fold_left (fun best r => if oltb K (oabs K (nth c (nth best M []) 0)) (oabs K (nth c (nth r M []) 0))
                           then r else best)
            (seq (S c) (p - S c)) c.

Definition gj_step (p : nat) (M : list (list T)) (c : nat) : list (list T) :=
  let r := pivot_row p M c in
  let M1 := upd c (nth r M []) (upd r (nth c M []) M) in
  let prow := nth c M1 [] in
  let piv := nth c prow 0 in
  let prow' := map (fun x => x / piv) prow in
  tab p (fun i => if Nat.eqb i c then prow'
                  else let row := nth i M1 [] in
                       let f := nth c row 0 in
                       map (fun xy => fst xy - f * snd xy) (combine row prow')).

(* solution of N x = b for a square nonsingular N (rows of N), p = length b *)
Definition gauss_solve (N : list (list T)) (b : list T) : list T :=
  let p := length b in
  let M := tab p (fun i => firstn p (nth i N []) ++ [nth i b 0]) in
  let M' := fold_left (gj_step p) (seq 0 p) M in
  tab p (fun i => nth p (nth i M' []) 0).
End Solve.
