(* Tabulated lists: storage is lists, reasoning is through [nth_tab]. *)
From Coq Require Import List Arith Lia PeanoNat.
Import ListNotations.

Definition tab {A} (n : nat) (f : nat -> A) : list A := map f (seq 0 n).
Lemma tab_length {A} n (f : nat -> A) : length (tab n f) = n.
Proof. unfold tab. now rewrite map_length, seq_length. Qed.
Lemma nth_tab {A} n (f : nat -> A) d i : i < n -> nth i (tab n f) d = f i.
Proof.
  intros H. unfold tab.
  rewrite nth_indep with (d' := f O) by (rewrite map_length, seq_length; lia).
  rewrite map_nth. now rewrite seq_nth.
Qed.
Lemma tab_ext {A} n (f g : nat -> A) : (forall i, i < n -> f i = g i) -> tab n f = tab n g.
Proof. intros H. unfold tab. apply map_ext_in. intros a Ha. apply in_seq in Ha. apply H. lia. Qed.
Lemma tab_S {A} n (f : nat -> A) : tab (S n) f = tab n f ++ [f n].
Proof. unfold tab. rewrite seq_S, map_app. reflexivity. Qed.
Lemma tab_0 {A} (f : nat -> A) : tab 0 f = []. Proof. reflexivity. Qed.
Lemma tab_cons {A} n (f : nat -> A) : tab (S n) f = f O :: tab n (fun i => f (S i)).
Proof. unfold tab. simpl. f_equal. rewrite <- seq_shift, map_map. reflexivity. Qed.
Lemma in_tab {A} n (f : nat -> A) x : In x (tab n f) <-> exists i, i < n /\ x = f i.
Proof.
  unfold tab. rewrite in_map_iff. split.
  - intros (i & E & Hi). apply in_seq in Hi. exists i. split; [lia|auto].
  - intros (i & Hi & E). exists i. split; [auto|]. apply in_seq. lia.
Qed.
Lemma list_eq_nth {A} (d : A) (l1 l2 : list A) : length l1 = length l2 ->
  (forall k, k < length l1 -> nth k l1 d = nth k l2 d) -> l1 = l2.
Proof.
  revert l2; induction l1 as [|x l1 IH]; intros [|y l2] HL H; simpl in *; try discriminate; auto.
  f_equal. - apply (H O); lia. - apply IH; [lia|]. intros k Hk. apply (H (S k)); lia.
Qed.
Lemma tab_nth {A} (d : A) (l : list A) : tab (length l) (fun i => nth i l d) = l.
Proof.
  apply (list_eq_nth d). - apply tab_length.
  - rewrite tab_length. intros k Hk. now rewrite nth_tab.
Qed.
Lemma map_tab {A B} (g : A -> B) n (f : nat -> A) : map g (tab n f) = tab n (fun i => g (f i)).
Proof. unfold tab. now rewrite map_map. Qed.
