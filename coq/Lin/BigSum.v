(* Finite sums over an abstract commutative ring. *)
From Coq Require Import List Arith Lia Ring PeanoNat ZArith.
From TV Require Import Num.Ops.
Import ListNotations.

Section BigSum.
Context {T : Type} (K : ops T).
Notation "0" := (o0 K). Notation "1" := (o1 K).
Infix "+" := (oadd K). Infix "*" := (omul K). Infix "-" := (osub K).
Notation "- x" := (oopp K x).

Fixpoint bsum (n : nat) (f : nat -> T) : T :=
  match n with O => 0 | S k => bsum k f + f k end.

Hypothesis Rth : rng K.
Add Ring Rr : Rth.

Lemma bsum_ext n f g : (forall i, (i < n)%nat -> f i = g i) -> bsum n f = bsum n g.
Proof. induction n; simpl; intros H; auto. rewrite IHn, H; auto. Qed.
Lemma bsum_0 n : bsum n (fun _ => 0) = 0.
Proof. induction n; simpl; [reflexivity | rewrite IHn; ring]. Qed.
Lemma bsum_0' n f : (forall i, (i < n)%nat -> f i = 0) -> bsum n f = 0.
Proof. intros H. rewrite (bsum_ext n f (fun _ => 0)) by exact H. apply bsum_0. Qed.
Lemma bsum_add n f g : bsum n (fun i => f i + g i) = bsum n f + bsum n g.
Proof. induction n; simpl; [ring| rewrite IHn; ring]. Qed.
Lemma bsum_sub n f g : bsum n (fun i => f i - g i) = bsum n f - bsum n g.
Proof. induction n; simpl; [ring| rewrite IHn; ring]. Qed.
Lemma bsum_opp n f : bsum n (fun i => - f i) = - bsum n f.
Proof. induction n; simpl; [ring| rewrite IHn; ring]. Qed.
Lemma bsum_mul_l n c f : bsum n (fun i => c * f i) = c * bsum n f.
Proof. induction n; simpl; [ring| rewrite IHn; ring]. Qed.
Lemma bsum_mul_r n c f : bsum n (fun i => f i * c) = bsum n f * c.
Proof. induction n; simpl; [ring| rewrite IHn; ring]. Qed.
Lemma bsum_split a b f : bsum (a + b) f = bsum a f + bsum b (fun i => f (a + i)%nat).
Proof.
  induction b; simpl.
  - rewrite Nat.add_0_r; ring.
  - rewrite Nat.add_succ_r; simpl. rewrite IHb. ring.
Qed.
Lemma bsum_swap m n (f : nat -> nat -> T) :
  bsum m (fun i => bsum n (fun j => f i j)) = bsum n (fun j => bsum m (fun i => f i j)).
Proof.
  induction m; simpl.
  - now rewrite bsum_0.
  - rewrite IHm, <- bsum_add. reflexivity.
Qed.
(* a single non-zero term *)
Lemma bsum_single n k f : (k < n)%nat -> (forall i, (i < n)%nat -> i <> k -> f i = 0) -> bsum n f = f k.
Proof.
  induction n; intros Hk H; [lia|]. simpl.
  destruct (Nat.eq_dec k n) as [->|Hne].
  - rewrite bsum_0'. ring. intros i Hi. apply H; lia.
  - rewrite IHn; [|lia|intros i Hi Hik; apply H; lia]. rewrite (H n); [ring|lia|lia].
Qed.
(* sum over a product range, C order: index = i*q + j *)
Lemma bsum_prod p q (f : nat -> T) :
  bsum (p * q) f = bsum p (fun i => bsum q (fun j => f (i * q + j)%nat)).
Proof.
  induction p; simpl; [reflexivity|].
  rewrite Nat.add_comm, bsum_split, IHp. reflexivity.
Qed.
(* sum over a product range, Fortran order: index = i + p*j *)
Lemma bsum_prod_F p q (f : nat -> T) :
  bsum (p * q) f = bsum q (fun j => bsum p (fun i => f (i + p * j)%nat)).
Proof.
  rewrite Nat.mul_comm, bsum_prod. apply bsum_ext; intros j Hj. apply bsum_ext; intros i Hi.
  f_equal. lia.
Qed.
Lemma bsum_S_l n f : bsum (S n) f = f O + bsum n (fun i => f (S i)).
Proof.
  change (S n) with (1 + n)%nat. rewrite bsum_split. simpl. ring.
Qed.
Lemma bsum_const_nat n c : bsum n (fun _ => c) = bsum n (fun _ => 1) * c.
Proof. induction n; simpl; [ring| rewrite IHn; ring]. Qed.

(* list sums *)
Fixpoint lsum (l : list T) : T := match l with [] => 0 | x :: l' => x + lsum l' end.
Lemma lsum_app l1 l2 : lsum (l1 ++ l2) = lsum l1 + lsum l2.
Proof. induction l1; simpl; [ring| rewrite IHl1; ring]. Qed.
Lemma lsum_map_add {A} (l : list A) f g : lsum (map (fun x => f x + g x) l) = lsum (map f l) + lsum (map g l).
Proof. induction l; simpl; [ring| rewrite IHl; ring]. Qed.
Lemma lsum_map_mul_l {A} (l : list A) c f : lsum (map (fun x => c * f x) l) = c * lsum (map f l).
Proof. induction l; simpl; [ring| rewrite IHl; ring]. Qed.
Lemma bsum_lsum n f : bsum n f = lsum (map f (seq 0 n)).
Proof.
  induction n; [reflexivity|]. rewrite seq_S, map_app, lsum_app. simpl. rewrite IHn. ring.
Qed.
End BigSum.
