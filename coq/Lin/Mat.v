(* Matrices: list storage + function view.  Every operation is a comprehension
   [mkmat m n f]; every lemma is pointwise inside the bounds. *)
From Coq Require Import List Arith Lia Ring PeanoNat ZArith.
From TV Require Import Num.Ops Lin.Tab Lin.BigSum.
Import ListNotations.

Record mat (T : Type) := mk_mat { mr : nat; mc : nat; md : list (list T) }.
Arguments mk_mat {T}. Arguments mr {T}. Arguments mc {T}. Arguments md {T}.

Section Mat.
Context {T : Type} (K : ops T).
Notation "0" := (o0 K). Notation "1" := (o1 K).
Infix "+" := (oadd K). Infix "*" := (omul K). Infix "-" := (osub K).

Definition mget (A : mat T) (i j : nat) : T := nth j (nth i (md A) []) 0.
Definition mkmat (m n : nat) (f : nat -> nat -> T) : mat T :=
  mk_mat m n (tab m (fun i => tab n (fun j => f i j))).
Lemma mget_mk m n f i j : i < m -> j < n -> mget (mkmat m n f) i j = f i j.
Proof. intros. unfold mget, mkmat; simpl. rewrite !nth_tab; auto. Qed.
Lemma mr_mk m n f : mr (mkmat m n f) = m. Proof. reflexivity. Qed.
Lemma mc_mk m n f : mc (mkmat m n f) = n. Proof. reflexivity. Qed.

(* equality of matrices as functions inside the bounds *)
Definition meq (A B : mat T) : Prop :=
  mr A = mr B /\ mc A = mc B /\ forall i j, i < mr A -> j < mc A -> mget A i j = mget B i j.
Lemma meq_refl A : meq A A. Proof. repeat split; auto. Qed.
Lemma meq_sym A B : meq A B -> meq B A.
Proof. intros (H1 & H2 & H). repeat split; auto. intros. symmetry. apply H; congruence. Qed.
Lemma meq_trans A B C : meq A B -> meq B C -> meq A C.
Proof.
  intros (H1 & H2 & H) (H3 & H4 & H'). repeat split; try congruence.
  intros. rewrite H by auto. apply H'; congruence.
Qed.
Lemma mkmat_ext m n f g : (forall i j, i < m -> j < n -> f i j = g i j) -> mkmat m n f = mkmat m n g.
Proof. intros H. unfold mkmat. f_equal. apply tab_ext; intros i Hi. apply tab_ext; intros j Hj. auto. Qed.

Definition mmul (A B : mat T) : mat T :=
  mkmat (mr A) (mc B) (fun i j => bsum K (mc A) (fun k => mget A i k * mget B k j)).
Definition mtrans (A : mat T) : mat T := mkmat (mc A) (mr A) (fun i j => mget A j i).
Definition mid (n : nat) : mat T := mkmat n n (fun i j => if Nat.eqb i j then 1 else 0).
Definition madd (A B : mat T) : mat T := mkmat (mr A) (mc A) (fun i j => mget A i j + mget B i j).
Definition msub (A B : mat T) : mat T := mkmat (mr A) (mc A) (fun i j => mget A i j - mget B i j).
Definition mscale (c : T) (A : mat T) : mat T := mkmat (mr A) (mc A) (fun i j => c * mget A i j).
Definition mzero (m n : nat) : mat T := mkmat m n (fun _ _ => 0).
(* rows I of A;  columns J of A *)
Definition mrows (A : mat T) (I : list nat) : mat T :=
  mkmat (length I) (mc A) (fun i j => mget A (nth i I O) j).
Definition mcols (A : mat T) (J : list nat) : mat T :=
  mkmat (mr A) (length J) (fun i j => mget A i (nth j J O)).
(* first q columns / rows *)
Definition mtakec (A : mat T) (q : nat) : mat T := mkmat (mr A) q (fun i j => mget A i j).
Definition mtaker (A : mat T) (q : nat) : mat T := mkmat q (mc A) (fun i j => mget A i j).
(* vertical / horizontal concatenation *)
Definition mvcat (A B : mat T) : mat T :=
  mkmat (mr A + mr B) (mc A) (fun i j => if i <? mr A then mget A i j else mget B (i - mr A) j).
Definition mhcat (A B : mat T) : mat T :=
  mkmat (mr A) (mc A + mc B) (fun i j => if j <? mc A then mget A i j else mget B i (j - mc A)).
(* squared Frobenius norm, trace *)
Definition frob2 (A : mat T) : T := bsum K (mr A) (fun i => bsum K (mc A) (fun j => mget A i j * mget A i j)).
Definition mtrace (A : mat T) : T := bsum K (mr A) (fun i => mget A i i).

Hypothesis Rth : rng K.
Add Ring RrMat : Rth.

Lemma mget_mmul A B i j : i < mr A -> j < mc B ->
  mget (mmul A B) i j = bsum K (mc A) (fun k => mget A i k * mget B k j).
Proof. intros. unfold mmul. now rewrite mget_mk. Qed.
Lemma mget_mtrans A i j : i < mc A -> j < mr A -> mget (mtrans A) i j = mget A j i.
Proof. intros. unfold mtrans. now rewrite mget_mk. Qed.
Lemma mget_mid n i j : i < n -> j < n -> mget (mid n) i j = if Nat.eqb i j then 1 else 0.
Proof. intros. unfold mid. now rewrite mget_mk. Qed.

Lemma mmul_assoc A B C : mc A = mr B -> mc B = mr C -> meq (mmul (mmul A B) C) (mmul A (mmul B C)).
Proof.
  intros H1 H2. repeat split; auto. intros i j Hi Hj. simpl in Hi, Hj.
  rewrite !mget_mmul by (simpl; auto). simpl.
  rewrite (bsum_ext K (mc B) _ (fun k => bsum K (mc A) (fun l => mget A i l * mget B l k * mget C k j))).
  2:{ intros k Hk. rewrite mget_mmul by auto. now rewrite bsum_mul_r. }
  rewrite bsum_swap by auto. apply bsum_ext; intros l Hl.
  rewrite mget_mmul by (simpl; congruence). rewrite <- bsum_mul_l by auto.
  apply bsum_ext; intros k Hk. ring.
Qed.
Lemma mmul_id_r A : meq (mmul A (mid (mc A))) A.
Proof.
  repeat split; auto. intros i j Hi Hj. simpl in Hi, Hj. rewrite mget_mmul by (simpl; auto).
  rewrite (bsum_single K Rth (mc A) j); auto.
  - rewrite mget_mid, Nat.eqb_refl by auto. ring.
  - intros k Hk Hne. rewrite mget_mid by auto. destruct (Nat.eqb_spec k j); [contradiction|ring].
Qed.
Lemma mmul_id_l A : meq (mmul (mid (mr A)) A) A.
Proof.
  repeat split; auto. intros i j Hi Hj. simpl in Hi, Hj. rewrite mget_mmul by (simpl; auto). simpl.
  rewrite (bsum_single K Rth (mr A) i); auto.
  - rewrite mget_mid, Nat.eqb_refl by auto. ring.
  - intros k Hk Hne. rewrite mget_mid by auto. destruct (Nat.eqb_spec i k); [congruence|ring].
Qed.
Lemma mtrans_mmul A B : mc A = mr B -> meq (mtrans (mmul A B)) (mmul (mtrans B) (mtrans A)).
Proof.
  intros H. repeat split; auto. intros i j Hi Hj. simpl in Hi, Hj.
  rewrite mget_mtrans by (simpl; auto). rewrite !mget_mmul by (simpl; auto). simpl. rewrite H.
  apply bsum_ext; intros k Hk. rewrite !mget_mtrans by (auto; congruence). ring.
Qed.
Lemma mmul_ext A A' B B' : meq A A' -> meq B B' -> mc A = mr B -> meq (mmul A B) (mmul A' B').
Proof.
  intros (a1 & a2 & a3) (b1 & b2 & b3) H. repeat split; simpl; auto.
  intros i j Hi Hj. rewrite !mget_mmul by (auto; congruence). rewrite <- a2.
  apply bsum_ext; intros k Hk. rewrite a3, b3 by (auto; congruence). reflexivity.
Qed.
(* Frobenius norm of a product with a matrix having orthonormal rows:  |A Q|^2 = |A|^2 if Q Q^T = I *)
Lemma frob2_trace A : frob2 A = mtrace (mmul A (mtrans A)).
Proof.
  unfold frob2, mtrace. simpl. apply bsum_ext; intros i Hi. rewrite mget_mmul by (simpl; auto).
  apply bsum_ext; intros j Hj. now rewrite mget_mtrans by auto.
Qed.
End Mat.
