(* C10 -- results depend only on arguments and seed.  Only statements, each closed by [exact]. *)
From Coq Require Import String List Bool ZArith.
From TV Require Import Model.Effects Proofs.EffectsP Gen.SkelC10 Gen.SkelC10Ok.
Import ListNotations.

(* regenerated on every run: the checker accepts every context reachable from every exported function of the working tree *)
Theorem C10_api_deterministic : check_all universe api exemptions fuel_c10 = true.
Proof. exact api_deterministic. Qed.
