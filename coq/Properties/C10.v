(* C10 -- results depend only on arguments and seed.  Only statements, each closed by [exact] (Examples: by computation).

   Vocabulary (Model/Effects.v).  A WORLD (state G V) holds: the global NumPy stream [gs], OS entropy [ent], the clock [ck],
   the generator objects owned by the user [ext k], the contents of the default dictionaries [dd], the generators the call
   has created itself [lg] and the HISTORY [hist] = everything the computation has observed so far: every value drawn,
   every value read from a default dictionary, every branch / loop decision, every call of a user callback.  The numeric
   result of a function is an (uninterpreted) function of its arguments and of that history; [draw decide wval wany
   init ent_draw clock] are arbitrary, so the theorems hold for every generator algorithm and every numeric code.
   [exec .. n body frame world] runs a skeleton (fuel n bounds call depth + loop iterations; None = out of fuel).
   [check_all U api exempt fuel] is the boolean checker; [api] below is REGENERATED from the working tree on every run
   (Gen/SkelC10.v) and [api_deterministic] is the closed computation [check_all universe api exemptions fuel_c10 = true]. *)
From Coq Require Import String List Bool ZArith.
From TV Require Import Model.Effects Proofs.EffectsP Gen.SkelC10 Gen.SkelC10Ok.
Import ListNotations.
Open Scope string_scope.

Section AnyWorld.
  (* generator states, values, and the uninterpreted parts of the semantics: everything below holds for all of them *)
  Variables G V : Type.
  Variable draw : nat -> list (obs V) -> G -> V * G.
  Variable decide : nat -> list (obs V) -> bool.
  Variable wval : nat -> string -> list (obs V) -> option V.
  Variable wany : list (obs V) -> (string -> option V) -> string -> option V.
  Variable init : Z -> G.
  Variable ent_draw : G -> G * G.
  Variable clock : G -> V * G.

  Local Notation world := (state G V).
  Local Notation hist := (hist G V).
  Local Notation lg := (lg G V).
  Local Notation gs := (gs G V).
  Local Notation ent := (ent G V).
  Local Notation ext := (ext G V).
  Local Notation run U api := (exec G V draw decide wval wany init ent_draw clock U api).
  Local Notation run_api := (exec G V draw decide wval wany init ent_draw clock universe api).

  (* ---- the soundness theorem of the checker: every skeleton set [api0], every universe of dictionary keys --------- *)

  (* Two worlds w1 w2 that agree ONLY on what is handed to the call (same_inputs: observation prefix, generators
     already created by the call, state of the generator objects that occur in the frame) -- arbitrary and different
     global streams, entropy, clocks, other generator objects and dictionary contents (confined = a default dictionary
     holds only keys the library itself stores).  If the checker accepts, then for every entry context e of an exported
     function (integer seeds / generator objects x user / default callbacks, dictionaries left at their defaults), every
     frame fr instantiating it and every fuel: the run in w2 ends with the same flag and frame as the run in w1, with
     the SAME HISTORY; neither run touches the global stream, OS entropy, or any generator object not handed over
     (untouched_outside); the handed-over objects end in the same state; no dictionary entry on which the worlds agreed
     diverges. *)
  Theorem C10_noninterference :
    forall U api0 exempt fuel, check_all U api0 exempt fuel = true ->
    forall e g, In e (entries api0 exempt) -> find_fn api0 (cf e) = Some g ->
    forall fr, frame_matches e fr ->
    forall w1 w2 : world, same_inputs G V fr w1 w2 -> confined G V U w1 -> confined G V U w2 ->
    forall n f fr' w1', run U api0 n (fbody g) fr w1 = Some (f, fr', w1') ->
    exists w2', run U api0 n (fbody g) fr w2 = Some (f, fr', w2')
      /\ hist w1' = hist w2' /\ lg w1' = lg w2'
      /\ untouched_outside G V (passed fr) w1 w1' /\ untouched_outside G V (passed fr) w2 w2'
      /\ (forall k, passed fr k -> ext w1' k = ext w2' k)
      /\ no_new_difference G V w1 w2 w1' w2'.
  Proof. exact (noninterference G V draw decide wval wany init ent_draw clock). Qed.

  (* ---- the same for the functions of the working tree: premises discharged by the regenerated obligation ---------- *)

  (* same integer seed(s) z and arguments => same history (hence result) in any two worlds; global stream, OS entropy and
     EVERY generator object untouched; callbacks supplied by the user or left at their defaults (entry_cbs) *)
  Theorem C10_api_integer_seed :
    forall g, In g api -> fexported g = true -> fint_ok g = true ->
    forall (z : string -> Z) cbs, entry_cbs exemptions g cbs ->
    forall w1 w2 : world, hist w1 = hist w2 -> lg w1 = lg w2 -> confined G V universe w1 -> confined G V universe w2 ->
    forall n f fr' w1', run_api n (fbody g) (int_frame g z cbs) w1 = Some (f, fr', w1') ->
    exists w2', run_api n (fbody g) (int_frame g z cbs) w2 = Some (f, fr', w2')
      /\ hist w1' = hist w2'
      /\ (gs w1' = gs w1 /\ ent w1' = ent w1 /\ forall k, ext w1' k = ext w1 k)
      /\ (gs w2' = gs w2 /\ ent w2' = ent w2 /\ forall k, ext w2' k = ext w2 k).
  Proof.
    exact (api_integer_seed G V draw decide wval wany init ent_draw clock universe api exemptions fuel_c10
             api_deterministic api_names_unique).
  Qed.

  (* generator objects ks as seeds: only those objects advance; a second object in the same state reproduces the history
     and ends in the same state; global stream, OS entropy, all other generator objects untouched *)
  Theorem C10_api_generator_object :
    forall g, In g api -> fexported g = true -> fseeds g <> [] ->
    forall (ks : string -> nat) cbs, entry_cbs exemptions g cbs ->
    forall w1 w2 : world, hist w1 = hist w2 -> lg w1 = lg w2 ->
    (forall x, In x (fseeds g) -> ext w1 (ks x) = ext w2 (ks x)) ->
    confined G V universe w1 -> confined G V universe w2 ->
    forall n f fr' w1', run_api n (fbody g) (gen_frame g ks cbs) w1 = Some (f, fr', w1') ->
    exists w2', run_api n (fbody g) (gen_frame g ks cbs) w2 = Some (f, fr', w2')
      /\ hist w1' = hist w2'
      /\ (forall x, In x (fseeds g) -> ext w1' (ks x) = ext w2' (ks x))
      /\ (gs w1' = gs w1 /\ ent w1' = ent w1 /\ forall k, (forall x, In x (fseeds g) -> k <> ks x) -> ext w1' k = ext w1 k)
      /\ (gs w2' = gs w2 /\ ent w2' = ent w2 /\ forall k, (forall x, In x (fseeds g) -> k <> ks x) -> ext w2' k = ext w2 k).
  Proof.
    exact (api_generator_object G V draw decide wval wany init ent_draw clock universe api exemptions fuel_c10
             api_deterministic api_names_unique).
  Qed.

  (* functions without a seed parameter: no draw from any generator of the world (global stream, OS entropy, every
     generator object untouched) and a history that does not depend on the world: repeated calls give identical results,
     whatever the default dictionaries held before *)
  Theorem C10_api_unseeded :
    forall g, In g api -> fexported g = true -> fseeds g = [] ->
    forall cbs, entry_cbs exemptions g cbs ->
    forall w1 w2 : world, hist w1 = hist w2 -> lg w1 = lg w2 -> confined G V universe w1 -> confined G V universe w2 ->
    forall n f fr' w1', run_api n (fbody g) (noseed_frame g cbs) w1 = Some (f, fr', w1') ->
    exists w2', run_api n (fbody g) (noseed_frame g cbs) w2 = Some (f, fr', w2')
      /\ hist w1' = hist w2'
      /\ (gs w1' = gs w1 /\ ent w1' = ent w1 /\ forall k, ext w1' k = ext w1 k)
      /\ (gs w2' = gs w2 /\ ent w2' = ent w2 /\ forall k, ext w2' k = ext w2 k).
  Proof.
    exact (api_unseeded G V draw decide wval wany init ent_draw clock universe api exemptions fuel_c10
             api_deterministic api_names_unique).
  Qed.
End AnyWorld.

(* regenerated on every run: the checker accepts every context reachable from every exported function of the working tree *)
Theorem C10_api_deterministic : check_all universe api exemptions fuel_c10 = true.
Proof. exact api_deterministic. Qed.

Theorem C10_api_names_unique : names_unique api = true.
Proof. exact api_names_unique. Qed.

(* non-vacuity on the working tree itself: at least 5 exported seeded functions of the regenerated api have a model run
   (seed 7, the concrete world of Model/Effects.v section 5) that returns and draws from the generator made from the seed *)
Theorem C10_api_runs_and_draws : Nat.leb 5 (List.length (List.filter (runs_and_draws universe api) api)) = true.
Proof. exact api_runs_and_draws. Qed.

(* ---- non-vacuity ---------------------------------------------------------------------------------------------------- *)

(* the checker accepts: seed -> generator, info reset before it is read, generator and info handed to a helper *)
Example C10_ex_reset_then_read_accepted : check_all ex_U ex_api_ok [] 50 = true.
Proof. vm_compute. reflexivity. Qed.

(* ... and rejects: a global draw two levels down the call chain; a read of info before the reset; seed=None inside *)
Example C10_ex_global_draw_rejected : check_all ex_U ex_api_global [] 50 = false.
Proof. vm_compute. reflexivity. Qed.
Example C10_ex_read_without_reset_rejected : check_all ex_U ex_api_readfirst [] 50 = false.
Proof. vm_compute. reflexivity. Qed.
Example C10_ex_entropy_rejected : check_all ex_U [ex_f_none] [] 50 = false.
Proof. vm_compute. reflexivity. Qed.
(* ... and np.empty storage that some path reads before it is written (hidden allocator state) *)
Example C10_ex_uninit_rejected : check_all ex_U [ex_f_uninit] [] 50 = false.
Proof. vm_compute. reflexivity. Qed.

(* the hypotheses of the theorems are satisfiable and the conclusion is observable: the accepted skeleton, run with
   seed 7 in two worlds that differ in the global stream (5 / 99) and in the stale contents of the default info
   (None / Some 42), terminates with the same flag and the same non-trivial history, global streams untouched *)
Example C10_ex_two_worlds_same_history :
  ex_run ex_api_ok ex_f (int_frame ex_f (fun _ => 7%Z) (user_cbs ex_f)) (ex_world 5 None) =
    Some (FRet, [ODraw 7; OCall 2; ODraw 8; ORead (Some 0); OCall 4; ORead (Some 0)], 5) /\
  ex_run ex_api_ok ex_f (int_frame ex_f (fun _ => 7%Z) (user_cbs ex_f)) (ex_world 99 (Some 42)) =
    Some (FRet, [ODraw 7; OCall 2; ODraw 8; ORead (Some 0); OCall 4; ORead (Some 0)], 99).
Proof. vm_compute. split; reflexivity. Qed.

(* the semantics is not blind: the rejected skeletons DO behave differently in those two worlds *)
Example C10_ex_global_draw_observable :
  ex_run ex_api_global ex_f (int_frame ex_f (fun _ => 7%Z) (user_cbs ex_f)) (ex_world 5 None) =
    Some (FRet, [ODraw 7; OCall 2; ODraw 8; ORead (Some 0); OCall 4; ODraw 5; ORead (Some 0)], 6) /\
  ex_run ex_api_global ex_f (int_frame ex_f (fun _ => 7%Z) (user_cbs ex_f)) (ex_world 99 None) =
    Some (FRet, [ODraw 7; OCall 2; ODraw 8; ORead (Some 0); OCall 4; ODraw 99; ORead (Some 0)], 100).
Proof. vm_compute. split; reflexivity. Qed.
Example C10_ex_stale_info_observable :
  ex_run ex_api_readfirst ex_f_readfirst (int_frame ex_f_readfirst (fun _ => 7%Z) []) (ex_world 5 None) =
    Some (FRet, [ORead None], 5) /\
  ex_run ex_api_readfirst ex_f_readfirst (int_frame ex_f_readfirst (fun _ => 7%Z) []) (ex_world 5 (Some 42)) =
    Some (FRet, [ORead (Some 42)], 5).
Proof. vm_compute. split; reflexivity. Qed.
