(* C07 — TT-ALS.  Only statements, each closed by [exact]. *)
From Coq Require Import List Arith Lia PeanoNat Permutation.
From TV Require Import Num.Ops Lin.Tab Lin.BigSum Lin.Solve TT.Chain Model.Als Model.AlsFunc Proofs.AlsLin Proofs.AlsSim.
Import ListNotations.

(* shape and ranks of every core are those of the state the sweeps started from, for every number of sweeps *)
Theorem C07_sweeps_dims : forall T (K : ops T) solve lamb Sm (s : st) n,
  map dims (sY (Nat.iter n (sweep K solve lamb Sm) s)) = map dims (sY s).
Proof. exact @iter_sweep_dims. Qed.

(* a+b sweeps = a sweeps, restart from the cores, b sweeps *)
Theorem C07_sweeps_restart : forall T (K : ops T) solve lamb Sm (Y : list (core T)) a b,
  chain 1 Y 1 -> wfS (length Y) Sm ->
  sY (Nat.iter (a + b) (sweep K solve lamb Sm) (init_st K Sm Y))
  = sY (Nat.iter b (sweep K solve lamb Sm) (init_st K Sm (sY (Nat.iter a (sweep K solve lamb Sm) (init_st K Sm Y))))).
Proof. exact @sweeps_restart. Qed.
