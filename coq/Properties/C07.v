(* C07 — TT-ALS.  Only statements, each closed by [exact].
   Models: Model/Als.v (als, constant rank and rank-adaptive), Model/AlsFunc.v (als_func, n_max=None).
   [solve] is the oracle for scipy.linalg.lstsq(gelsy); theorems without a hypothesis on it hold for EVERY solver.
   [acc]/[accv] are the oracles for teneva.accuracy / accuracy_on_data, [cb] is the callback. *)
From Coq Require Import List Arith Lia PeanoNat Bool Permutation Reals.
From TV Require Import Num.Ops Lin.Tab Lin.BigSum Lin.Solve TT.Chain Model.Als Model.AlsFunc
  Proofs.AlsLin Proofs.AlsSim Proofs.AlsTop Proofs.AlsDesc Proofs.AlsWit Proofs.AlsFuncP Proofs.AlsAdaP Proofs.AlsFuncSim Proofs.AlsFuncDesc Proofs.AlsFuncPerm Proofs.AlsFuncCheb.
From TV Require Model.Func Model.GridPoi.
Import ListNotations.

(* ================================================================== index version, constant rank *)

(* shape and ranks: whatever als returns has the (r1, n, r2) of every core of the initial approximation *)
Theorem C07_als_shape : forall T (K : ops T) solve acc accv cb Sm (Y0 : list (core T)) nswp e evld lamb skip fuel Y inf,
  als K solve acc accv cb Sm Y0 nswp e evld lamb skip fuel = Ok (Y, inf) -> map dims Y = map dims Y0.
Proof. exact @als_wf. Qed.

(* info['nswp'] is the executed sweep count: the returned cores are those after exactly that many sweeps (>= 1) *)
Theorem C07_als_sweep_count : forall T (K : ops T) solve acc accv cb Sm (Y0 : list (core T)) nswp e evld lamb skip fuel Y inf,
  als K solve acc accv cb Sm Y0 nswp e evld lamb skip fuel = Ok (Y, inf) ->
  1 <= i_nswp inf /\ i_nswp inf <= fuel /\ Y = sY (Nat.iter (i_nswp inf) (sweep K solve lamb Sm) (init_st K Sm Y0)).
Proof. exact @als_spec. Qed.

(* info['stop'] is justified: 'nswp' => nswp <= executed sweeps; 'e' => 0 <= info['e'] <= e; 'e_vld' => the validation
   error after the last sweep or before the first one is in [0, e_vld]; 'cb' => the callback returned a true value after
   the last sweep.  (-1 >= 0 is false: the carrier orders -1 below 0.) *)
Theorem C07_als_stop_reason : forall T (K : ops T) solve acc accv cb, oleb K (o0 K) (oopp K (o1 K)) = false ->
  forall Sm (Y0 : list (core T)) nswp e evld lamb skip fuel Y inf,
  als K solve acc accv cb Sm Y0 nswp e evld lamb skip fuel = Ok (Y, inf) ->
  stop_justified K cb nswp e evld (accv O Y0) Y inf.
Proof. exact @als_stop. Qed.

(* only nswp given: max(1, nswp) sweeps, reported as such, stop reason 'nswp' (nswp = 0 executes one sweep) *)
Theorem C07_als_nswp : forall T (K : ops T) solve acc accv cb Sm (Y0 : list (core T)) n lamb skip fuel,
  cb = None -> negb skip && negb (check_slices Sm Y0) = false -> idx_ok Sm Y0 = true -> Nat.max 1 n <= fuel ->
  exists ec ev, als K solve acc accv cb Sm Y0 (Some n) None None lamb skip fuel
                = Ok (sY (Nat.iter (Nat.max 1 n) (sweep K solve lamb Sm) (init_st K Sm Y0)),
                      mk_info (Nat.max 1 n) SNswp ec ev).
Proof. exact @als_nswp. Qed.

(* a callback returning a true value after sweep t ([c t Y] is the truthiness of its answer) stops the run right after
   that sweep at the latest, whatever the options *)
Theorem C07_als_cb_stops : forall T (K : ops T) solve acc accv cb c Sm (Y0 : list (core T)) nswp e evld lamb skip fuel t,
  cb = Some c -> negb skip && negb (check_slices Sm Y0) = false -> idx_ok Sm Y0 = true -> 1 <= t -> t <= fuel ->
  c t (sY (Nat.iter t (sweep K solve lamb Sm) (init_st K Sm Y0))) = true ->
  exists Y inf, als K solve acc accv cb Sm Y0 nswp e evld lamb skip fuel = Ok (Y, inf) /\ i_nswp inf <= t.
Proof. exact @als_cb_stops. Qed.
(* ... and when it is the first reason to stop: exactly t sweeps, stop reason 'cb' *)
Theorem C07_als_cb_first : forall T (K : ops T) solve acc accv cb c Sm (Y0 : list (core T)) n lamb skip fuel t,
  cb = Some c -> negb skip && negb (check_slices Sm Y0) = false -> idx_ok Sm Y0 = true -> 1 <= t -> t <= fuel -> t <= n ->
  c t (sY (Nat.iter t (sweep K solve lamb Sm) (init_st K Sm Y0))) = true ->
  (forall t', 1 <= t' -> t' < t -> c t' (sY (Nat.iter t' (sweep K solve lamb Sm) (init_st K Sm Y0))) = false) ->
  exists ec ev, als K solve acc accv cb Sm Y0 (Some n) None None lamb skip fuel
                = Ok (sY (Nat.iter t (sweep K solve lamb Sm) (init_st K Sm Y0)), mk_info t SCb ec ev).
Proof. exact @als_cb_first. Qed.

(* missing slice data: rejected with ValueError unless allow_skip_cores; the validation fires exactly on uncovered slices *)
Theorem C07_als_missing_rejected : forall T (K : ops T) solve acc accv cb Sm (Y0 : list (core T)) nswp e evld lamb fuel,
  check_slices Sm Y0 = false -> als K solve acc accv cb Sm Y0 nswp e evld lamb false fuel = Err ValueError.
Proof. exact @als_missing_rejected. Qed.
Theorem C07_uncovered_slice_detected : forall T Sm (Y0 : list (core T)) k i,
  k < length Y0 -> i < cn (nth k Y0 dcore) ->
  (forall sm, In sm Sm -> nth k (sidx sm) O < cn (nth k Y0 dcore) /\ nth k (sidx sm) O <> i) ->
  check_slices Sm Y0 = false.
Proof. exact @check_slices_uncovered. Qed.
Theorem C07_covered_accepted : forall T Sm (Y0 : list (core T)),
  (forall k, k < length Y0 -> forall sm, In sm Sm -> nth k (sidx sm) O < cn (nth k Y0 dcore)) ->
  (forall k i, k < length Y0 -> i < cn (nth k Y0 dcore) -> exists sm, In sm Sm /\ nth k (sidx sm) O = i) ->
  check_slices Sm Y0 = true.
Proof. exact @check_slices_covered. Qed.

(* interface matrices: after every core update of a sweep the left / right interface matrices hold the true partial
   products of every sample w.r.t. the CURRENT cores, and the update is the one of the interface-free reference *)
Theorem C07_interfaces_init : forall T (K : ops T) Sm (Y : list (core T)),
  chain 1 Y 1 -> wfS (length Y) Sm -> Inv K Sm (length Y) (init_st K Sm Y) O.
Proof. exact @init_inv. Qed.
Theorem C07_interfaces_fwd : forall T (K : ops T) solve lamb Sm d (s : st) k,
  Inv K Sm d s k -> S k < d -> wfS d Sm ->
  sY (fwd_step K solve lamb Sm s k) = ref_step K solve lamb Sm (sY s) k /\ Inv K Sm d (fwd_step K solve lamb Sm s k) (S k).
Proof. exact @fwd_step_sim. Qed.
Theorem C07_interfaces_bwd : forall T (K : ops T) solve lamb Sm d (s : st) k,
  Inv K Sm d s k -> 1 <= k -> k < d -> wfS d Sm ->
  sY (bwd_step K solve lamb Sm s k) = ref_step K solve lamb Sm (sY s) k /\ Inv K Sm d (bwd_step K solve lamb Sm s k) (pred k).
Proof. exact @bwd_step_sim. Qed.

(* get is linear in one slice of one core, with exactly the row the code forms (commutative ring) *)
Theorem C07_get_linear_in_slice : forall T (K : ops T), rng K -> forall Y1 (X : core T) Y2 i1 i i2,
  length i1 = length Y1 -> wfo 1 Y1 i1 (cr1 X) -> i < cn X -> wfo (cr2 X) Y2 i2 1 ->
  get K (Y1 ++ X :: Y2) (i1 ++ i :: i2)
  = dot K (cr1 X * cr2 X) (kron_row K (cr1 X) (cr2 X) (run K [o1 K] Y1 i1) (rrun K Y2 i2)) (svec K X i).
Proof. exact @get_slice. Qed.

(* the objective as a function of core k alone = sum over its slices of the ridge objectives the code solves + a
   term that does not depend on core k (commutative ring) *)
Theorem C07_objective_splits : forall T (K : ops T), rng K -> forall lamb Sm (Y : list (core T)) k X,
  k < length Y -> dims X = dims (nth k Y dcore) -> Sok Sm Y ->
  Jobj K lamb Sm (upd k X Y) = oadd K (Jslices K lamb Sm Y k X) (Jrest K lamb Y k).
Proof. exact @J_decomp. Qed.

(* ridge identity (commutative ring): if x solves the normal equations the code forms, then for EVERY h
   J(x + h) = J(x) + sum_j w_j (a_j . h)^2 + lamb |h|^2 *)
Theorem C07_ridge_identity : forall T (K : ops T), rng K -> forall p lamb (rows : list lrow) (x h : list T),
  (forall a, a < p -> nth a (mulmv K p (normal_mat K p lamb rows) x) (o0 K) = nth a (normal_rhs K p rows) (o0 K)) ->
  Jrows K p lamb rows (vplus K p x h)
  = oadd K (Jrows K p lamb rows x)
      (oadd K (lsum K (map (fun row => omul K (rw row) (sq K (dot K p (ra row) h))) rows)) (omul K lamb (dot K p h h))).
Proof. exact @ridge_identity. Qed.

(* restart: nswp = a + b  equals  nswp = a followed by a fresh call on the result with nswp = b  (a, b >= 1) *)
Theorem C07_als_restart : forall T (K : ops T) solve acc accv cb Sm (Y0 : list (core T)) a b lamb skip fuel Ya ia,
  cb = None -> chain 1 Y0 1 -> 1 <= a -> 1 <= b -> a + b <= fuel ->
  als K solve acc accv cb Sm Y0 (Some a) None None lamb skip fuel = Ok (Ya, ia) ->
  exists Yab i1 i2, als K solve acc accv cb Sm Y0 (Some (a + b)) None None lamb skip fuel = Ok (Yab, i1) /\
                    als K solve acc accv cb Sm Ya (Some b) None None lamb skip fuel = Ok (Yab, i2) /\
                    i_nswp ia = a /\ i_nswp i1 = a + b /\ i_nswp i2 = b.
Proof. exact @als_restart. Qed.
Theorem C07_sweeps_restart : forall T (K : ops T) solve lamb Sm (Y : list (core T)) a b,
  chain 1 Y 1 -> wfS (length Y) Sm ->
  sY (Nat.iter (a + b) (sweep K solve lamb Sm) (init_st K Sm Y))
  = sY (Nat.iter b (sweep K solve lamb Sm) (init_st K Sm (sY (Nat.iter a (sweep K solve lamb Sm) (init_st K Sm Y))))).
Proof. exact @sweeps_restart. Qed.

(* sample order: the whole result (cores, sweep count, stop reason, error values) is invariant under permutations
   of the sample list, for every option set, every solver, every callback (commutative ring) *)
Theorem C07_als_sample_order : forall T (K : ops T) solve acc accv cb, rng K ->
  forall Sm Sm' (Y0 : list (core T)) nswp e evld lamb skip fuel,
  chain 1 Y0 1 -> Permutation Sm Sm' ->
  als K solve acc accv cb Sm Y0 nswp e evld lamb skip fuel = als K solve acc accv cb Sm' Y0 nswp e evld lamb skip fuel.
Proof. exact @als_perm. Qed.
(* the pinned code (`if not idx.any()`, before c571a78) did depend on the order: machine-checked witness over Qc *)
Theorem C07_pinned_order_dependent :
  exists (Sm Sm' : list (@sample Qcanon.Qc)) Y0, Permutation Sm Sm' /\ chain 1 Y0 1 /\
    als_pinned OQc (gauss_solve OQc) (qz 1%Z) Sm Y0 1 <> als_pinned OQc (gauss_solve OQc) (qz 1%Z) Sm' Y0 1.
Proof. exact pinned_order_dependent. Qed.

(* ------------------------------------------------------------------ order statements, at R
   solver contract [spd_solver]: on a symmetric positive definite system N the solver returns x with N x = g.
   lamb > 0, weights >= 0, every sample indexes the tensor properly (Sok). *)

(* the system the code forms IS symmetric positive definite, so the solver returns a solution of the normal equations *)
Theorem C07_normal_equations_solved : forall solve, spd_solver solve -> forall lamb, (0 < lamb)%R ->
  forall p (rows : list lrow), Wrows rows -> forall a, a < p ->
  nth a (mulmv ORa p (normal_mat ORa p lamb rows) (lstsq ORa solve p lamb rows)) 0%R = nth a (normal_rhs ORa p rows) 0%R.
Proof. exact lstsq_solves. Qed.

(* descent: every core update decreases the regularised weighted objective ... *)
Theorem C07_core_update_descends : forall solve, spd_solver solve -> forall lamb, (0 < lamb)%R ->
  forall Sm (Y : list (core R)) k, k < length Y -> Sok Sm Y -> Wok Sm ->
  (Jobj ORa lamb Sm (ref_step ORa solve lamb Sm Y k) <= Jobj ORa lamb Sm Y)%R.
Proof. exact ref_step_descent. Qed.
Theorem C07_code_fwd_update_descends : forall solve, spd_solver solve -> forall lamb, (0 < lamb)%R ->
  forall Sm d (s : st) k, Inv ORa Sm d s k -> S k < d -> Sok Sm (sY s) -> Wok Sm ->
  (Jobj ORa lamb Sm (sY (fwd_step ORa solve lamb Sm s k)) <= Jobj ORa lamb Sm (sY s))%R.
Proof. exact fwd_step_descent. Qed.
Theorem C07_code_bwd_update_descends : forall solve, spd_solver solve -> forall lamb, (0 < lamb)%R ->
  forall Sm d (s : st) k, Inv ORa Sm d s k -> 1 <= k -> k < d -> Sok Sm (sY s) -> Wok Sm ->
  (Jobj ORa lamb Sm (sY (bwd_step ORa solve lamb Sm s k)) <= Jobj ORa lamb Sm (sY s))%R.
Proof. exact bwd_step_descent. Qed.
(* ... hence the objective never increases from sweep to sweep of the code *)
Theorem C07_als_descends : forall solve, spd_solver solve -> forall lamb, (0 < lamb)%R ->
  forall Sm (Y0 : list (core R)) n, chain 1 Y0 1 -> Sok Sm Y0 -> Wok Sm ->
  (Jobj ORa lamb Sm (sY (Nat.iter (S n) (sweep ORa solve lamb Sm) (init_st ORa Sm Y0)))
   <= Jobj ORa lamb Sm (sY (Nat.iter n (sweep ORa solve lamb Sm) (init_st ORa Sm Y0))))%R.
Proof. exact als_descent. Qed.

(* per-core optimality: right after its update a core whose slices all have a sample minimises the objective over
   ALL cores X of that shape, the other cores being fixed ... *)
Theorem C07_core_update_optimal : forall solve, spd_solver solve -> forall lamb, (0 < lamb)%R ->
  forall Sm (Y : list (core R)) k X, k < length Y -> Sok Sm Y -> Wok Sm ->
  covered Sm k (cn (nth k Y dcore)) -> dims X = dims (nth k Y dcore) ->
  (Jobj ORa lamb Sm (ref_step ORa solve lamb Sm Y k) <= Jobj ORa lamb Sm (upd k X (ref_step ORa solve lamb Sm Y k)))%R.
Proof. exact ref_step_optimal. Qed.
(* ... in particular the core updated last (core 1) in what als returns after n+1 sweeps, d >= 2 *)
Theorem C07_als_last_core_optimal : forall solve, spd_solver solve -> forall lamb, (0 < lamb)%R ->
  forall Sm (Y0 : list (core R)) n X, chain 1 Y0 1 -> Sok Sm Y0 -> Wok Sm -> 2 <= length Y0 ->
  covered Sm 1 (cn (nth 1 Y0 dcore)) -> dims X = dims (nth 1 Y0 dcore) ->
  let Yn := sY (Nat.iter (S n) (sweep ORa solve lamb Sm) (init_st ORa Sm Y0)) in
  (Jobj ORa lamb Sm Yn <= Jobj ORa lamb Sm (upd 1 X Yn))%R.
Proof. exact als_last_core_optimal. Qed.

(* ================================================================== rank-adaptive mode (r given), d >= 3
   contracts: matrix_skeleton(A, e, r, rel=True) returns factors of inner size <= r; orthogonalize keeps mode sizes *)
Theorem C07_adaptive_ranks : forall T (K : ops T) solve orth skel,
  (forall c M rmax, cr2 (fst (skel c M rmax)) <= rmax) -> (forall Y : list (core T), map cn (orth Y) = map cn Y) ->
  forall lamb r radd Sm (Y0 : list (core T)) nswp Y, 3 <= length Y0 ->
  als_adaptive K solve orth skel Sm Y0 nswp r radd lamb = Ok Y ->
  map cn Y = map cn Y0 /\ forall j, S j < length Y -> cr2 (nth j Y dcore) <= r.
Proof. exact @als_adaptive_ranks. Qed.

(* ================================================================== functional version (als_func, n_max = None) *)
Theorem C07_als_func_shape : forall T (K : ops T) solve lamb acc accv H y (A0 : list (core T)) nswp e evld fuel Y inf,
  als_func K solve acc accv H y A0 nswp e evld lamb fuel = Ok (Y, inf) -> map dims Y = map dims A0.
Proof. exact @als_func_wf. Qed.
Theorem C07_als_func_sweep_count : forall T (K : ops T) solve lamb acc accv H y (A0 : list (core T)) nswp e evld fuel Y inf,
  als_func K solve acc accv H y A0 nswp e evld lamb fuel = Ok (Y, inf) ->
  1 <= i_nswp inf /\ i_nswp inf <= fuel /\ Y = fY (Nat.iter (i_nswp inf) (fsweep K solve lamb y H) (finit_st K H y A0)).
Proof. exact @als_func_spec. Qed.
Theorem C07_als_func_nswp : forall T (K : ops T) solve lamb acc accv H y (A0 : list (core T)) n fuel, Nat.max 1 n <= fuel ->
  exists ec ev, als_func K solve acc accv H y A0 (Some n) None None lamb fuel
                = Ok (fY (Nat.iter (Nat.max 1 n) (fsweep K solve lamb y H) (finit_st K H y A0)),
                      mk_info (Nat.max 1 n) SNswp ec ev).
Proof. exact @als_func_nswp. Qed.
Theorem C07_als_func_stop_reason : forall T (K : ops T) solve lamb acc accv, oleb K (o0 K) (oopp K (o1 K)) = false ->
  forall H y (A0 : list (core T)) nswp e evld fuel Y inf,
  als_func K solve acc accv H y A0 nswp e evld lamb fuel = Ok (Y, inf) ->
  stop_justified K None nswp e evld (accv O A0) Y inf.
Proof. exact @als_func_stop. Qed.

(* interface matrices of als_func hold the true partial products of the effective chains
   (sum_i H[k][s,i] * Y[k][:, i, :]) of every sample after every core update; the update is the reference one *)
Theorem C07_func_interfaces_init : forall T (K : ops T) H y (Y : list (core T)),
  chain 1 Y 1 -> Hwf H (length Y) (length y) -> FInv K H y (length Y) (finit_st K H y Y) O.
Proof. exact @finit_inv. Qed.
Theorem C07_func_interfaces_fwd : forall T (K : ops T) solve lamb H y d (s : fstate) k,
  FInv K H y d s k -> S k < d -> Hwf H d (length y) ->
  fY (ffwd_step K solve lamb y H s k) = ref_fstep K solve lamb y H (fY s) k /\ FInv K H y d (ffwd_step K solve lamb y H s k) (S k).
Proof. exact @ffwd_step_sim. Qed.
Theorem C07_func_interfaces_bwd : forall T (K : ops T) solve lamb H y d (s : fstate) k,
  FInv K H y d s k -> 1 <= k -> k < d -> Hwf H d (length y) ->
  fY (fbwd_step K solve lamb y H s k) = ref_fstep K solve lamb y H (fY s) k /\ FInv K H y d (fbwd_step K solve lamb y H s k) (pred k).
Proof. exact @fbwd_step_sim. Qed.

(* the functional TT is linear in one whole core, with exactly the row the code forms (commutative ring) *)
Theorem C07_func_linear_in_core : forall T (K : ops T), rng K -> forall (Y : list (core T)) hs k X,
  k < length Y -> chain 1 Y 1 -> length hs = length Y -> dims X = dims (nth k Y dcore) ->
  fget K (upd k X Y) hs
  = dot K (cr1 X * cn X * cr2 X) (frow K (cr1 X) (cn X) (cr2 X) (flvec K Y hs k) (nth k hs []) (frvec K Y hs k)) (cvec K X).
Proof. exact @fget_lin. Qed.
(* the objective as a function of core k alone is the ridge objective the code solves + a term without core k *)
Theorem C07_func_objective_splits : forall T (K : ops T), rng K -> forall lamb H y (Y : list (core T)) k X,
  k < length Y -> chain 1 Y 1 -> Hwf H (length Y) (length y) -> dims X = dims (nth k Y dcore) ->
  fJobj K lamb H y (upd k X Y)
  = oadd K (Jrows K (cr1 X * cn X * cr2 X) lamb (frows K (cr1 X) (cn X) (cr2 X) (fzref K H y Y k)) (cvec K X)) (Jrest K lamb Y k).
Proof. exact @fJ_decomp. Qed.

(* restart *)
Theorem C07_als_func_restart : forall T (K : ops T) solve lamb acc accv H y (A0 : list (core T)) a b fuel Ya ia,
  chain 1 A0 1 -> Hwf H (length A0) (length y) -> 1 <= a -> 1 <= b -> a + b <= fuel ->
  als_func K solve acc accv H y A0 (Some a) None None lamb fuel = Ok (Ya, ia) ->
  exists Yab i1 i2, als_func K solve acc accv H y A0 (Some (a + b)) None None lamb fuel = Ok (Yab, i1) /\
                    als_func K solve acc accv H y Ya (Some b) None None lamb fuel = Ok (Yab, i2) /\
                    i_nswp ia = a /\ i_nswp i1 = a + b /\ i_nswp i2 = b.
Proof. exact @als_func_restart. Qed.

(* sample order: re-listing the training set in the order sigma (y[sigma], H[k][sigma, :]) does not change the result
   of als_func (cores and info), for every option set and solver (commutative ring) *)
Theorem C07_als_func_sample_order : forall T (K : ops T) solve lamb, rng K ->
  forall sigma H y, Permutation sigma (seq 0 (length y)) ->
  forall acc accv (A0 : list (core T)) nswp e evld fuel, chain 1 A0 1 -> Hwf H (length A0) (length y) ->
  als_func K solve acc accv (reorder_H sigma H) (reorder_y K sigma y) A0 nswp e evld lamb fuel
  = als_func K solve acc accv H y A0 nswp e evld lamb fuel.
Proof. exact @als_func_perm. Qed.

(* at R, lamb > 0, solver contract: every core update descends and leaves that core at the exact minimiser over ALL
   cores of its shape (no coverage condition: the whole core is one ridge problem) *)
Theorem C07_func_core_update_optimal : forall solve, spd_solver solve -> forall lamb, (0 < lamb)%R ->
  forall y H (Y : list (core R)) k X, k < length Y -> chain 1 Y 1 -> Hwf H (length Y) (length y) ->
  dims X = dims (nth k Y dcore) ->
  (fJobj ORa lamb H y (ref_fstep ORa solve lamb y H Y k) <= fJobj ORa lamb H y (upd k X Y))%R.
Proof. exact ref_fstep_optimal. Qed.
Theorem C07_func_core_update_descends : forall solve, spd_solver solve -> forall lamb, (0 < lamb)%R ->
  forall y H (Y : list (core R)) k, k < length Y -> chain 1 Y 1 -> Hwf H (length Y) (length y) ->
  (fJobj ORa lamb H y (ref_fstep ORa solve lamb y H Y k) <= fJobj ORa lamb H y Y)%R.
Proof. exact ref_fstep_descent. Qed.
Theorem C07_als_func_descends : forall solve, spd_solver solve -> forall lamb, (0 < lamb)%R ->
  forall y H (A0 : list (core R)) n, chain 1 A0 1 -> Hwf H (length A0) (length y) ->
  (fJobj ORa lamb H y (fY (Nat.iter (S n) (fsweep ORa solve lamb y H) (finit_st ORa H y A0)))
   <= fJobj ORa lamb H y (fY (Nat.iter n (fsweep ORa solve lamb y H) (finit_st ORa H y A0))))%R.
Proof. exact als_func_descent. Qed.
Theorem C07_als_func_last_core_optimal : forall solve, spd_solver solve -> forall lamb, (0 < lamb)%R ->
  forall y H (A0 : list (core R)) n X, chain 1 A0 1 -> Hwf H (length A0) (length y) -> 2 <= length A0 ->
  dims X = dims (nth 1 A0 dcore) ->
  let Yn := fY (Nat.iter (S n) (fsweep ORa solve lamb y H) (finit_st ORa H y A0)) in
  (fJobj ORa lamb H y Yn <= fJobj ORa lamb H y (upd 1 X Yn))%R.
Proof. exact als_func_last_core_optimal. Qed.

(* default entry path of als_func (fh=None): X, a, b -> poi_scale(kind='cheb') -> func_basis.  The basis matrices
   are rectangular and hold T_i of the scaled, clipped points, for every box [a, b] and every point; so every theorem
   about als_func applies, with the objective measured in that true Chebyshev basis *)
Theorem C07_cheb_basis_wf : forall T (K : ops T) a b n d (X : list (list T)), Hwf (cheb_H K a b n d X) d (length X).
Proof. exact @cheb_H_wf. Qed.
Theorem C07_cheb_basis_entry : forall T (K : ops T) a b n d (X : list (list T)) k s i, k < d -> s < length X -> i < n ->
  nth i (nth s (nth k (cheb_H K a b n d X) []) []) (o0 K)
  = Func.chebT K (GridPoi.scale_cheb K a b (nth k (nth s X []) (o0 K))) i.
Proof. exact @cheb_H_entry. Qed.
Theorem C07_als_func_cheb_shape : forall T (K : ops T) solve acc accv X y (A0 : list (core T)) a b nswp e evld lamb fuel Y inf,
  als_func_cheb K solve acc accv X y A0 a b nswp e evld lamb fuel = Ok (Y, inf) -> map dims Y = map dims A0.
Proof. exact @als_func_cheb_shape. Qed.
Theorem C07_als_func_cheb_descends : forall solve, spd_solver solve -> forall lamb, (0 < lamb)%R ->
  forall X y (A0 : list (core R)) a b n, chain 1 A0 1 -> length y = length X ->
  let H := cheb_H ORa a b (cn (nth O A0 dcore)) (length A0) X in
  (fJobj ORa lamb H y (fY (Nat.iter (S n) (fsweep ORa solve lamb y H) (finit_st ORa H y A0)))
   <= fJobj ORa lamb H y (fY (Nat.iter n (fsweep ORa solve lamb y H) (finit_st ORa H y A0))))%R.
Proof. exact als_func_cheb_descent. Qed.
Theorem C07_als_func_cheb_last_core_optimal : forall solve, spd_solver solve -> forall lamb, (0 < lamb)%R ->
  forall X y (A0 : list (core R)) a b n Xc, chain 1 A0 1 -> length y = length X -> 2 <= length A0 ->
  dims Xc = dims (nth 1 A0 dcore) ->
  let H := cheb_H ORa a b (cn (nth O A0 dcore)) (length A0) X in
  let Yn := fY (Nat.iter (S n) (fsweep ORa solve lamb y H) (finit_st ORa H y A0)) in
  (fJobj ORa lamb H y Yn <= fJobj ORa lamb H y (upd 1 Xc Yn))%R.
Proof. exact als_func_cheb_last_core_optimal. Qed.

(* ================================================================== non-vacuity *)
Example C07_example_hypotheses :
  chain 1 exY 1 /\ Sok exS exY /\ Wok exS /\ covered exS 1 (cn (nth 1 exY dcore)) /\ 2 <= length exY /\
  Hwf exH (length exY) (length exy).
Proof. exact hyps_example. Qed.
Example C07_example_run :
  match als OQc (gauss_solve OQc) noacc noaccv None wS ones2 (Some 2) None None (qz 1%Z) false 10 with
  | Ok (Y, inf) => i_nswp inf = 2 /\ i_stop inf = SNswp /\ map (fun G => (cr1 G, cn G, cr2 G)) Y = [(1, 2, 1); (1, 2, 1)]
  | Err _ => False
  end.
Proof. exact als_run_example. Qed.
Example C07_example_missing :
  als OQc (gauss_solve OQc) noacc noaccv None (tl wS) ones2 (Some 1) None None (qz 1%Z) false 10 = Err ValueError /\
  match als OQc (gauss_solve OQc) noacc noaccv None (tl wS) ones2 (Some 1) None None (qz 1%Z) true 10 with
  | Ok (Y, inf) => i_nswp inf = 1 | Err _ => False end.
Proof. exact als_missing_example. Qed.
Example C07_example_solver_contract :
  let N := [[qz 3%Z; qz 1%Z]; [qz 1%Z; qz 2%Z]] in let g := [qz 1%Z; qz 4%Z] in
  map showQ (mulmv OQc 2 N (gauss_solve OQc N g)) = map showQ g.
Proof. exact solver_contract_example. Qed.
