(* C04 — orthogonalize / orthogonalize_left / orthogonalize_right.  Only statements, each closed by [exact];
   non-vacuity Examples.  Model: Model/Transformation.v (orth_left, orth_right, core_stab, orthogonalize) plus the
   integer-index entry points orth_left_z / orth_right_z of Proofs/OrthP2.v.
   Oracles: [qr j A] = np.linalg.qr(A, mode='reduced') at mode j (contract qr_ok: A = Q R, Q^T Q = I, Q is m x min(m,n)),
   [rq j A] = scipy.linalg.rq(A, mode='economic') (contract rq_ok: A = R Q, Q Q^T = I, Q is min(m,n) x n),
   [ilog2 j v] = int(floor(log2 v)) (contract ilog2k_ok lo: lo 2^p <= v < 2^(p+1); only needed for the magnitude clause).
   [lorth G]: the left unfolding of G has orthonormal columns; [rorth G]: the right unfolding has orthonormal rows.
   [get Y idx] is the entry of the dense tensor; [wf 1 Y idx] says idx is a valid multi-index of the well-formed Y;
   [chain 1 Y 1]: neighbouring ranks agree, boundary ranks are 1 (any rank profile, over-ranked and mode size 1 included).
   [tnorm2 Y] = sum over all multi-indices of get^2, [cfrob2 G] = sum of squares of the entries of a core. *)
From Coq Require Import List Arith Lia PeanoNat ZArith Reals QArith Qcanon.
From TV Require Import Num.Ops Lin.Tab Lin.BigSum Lin.Mat TT.Chain Model.Transformation
  Proofs.TransformationP Proofs.TransformationP2
  Proofs.OrthP Proofs.OrthP2 Proofs.OrthP3 Proofs.OrthP4 Proofs.OrthPR Proofs.OrthPQ.
Import ListNotations.
Local Open Scope nat_scope.

(* ------------------------------------------------------------------------------------------------
   orthogonalize(Y, k, use_stab): every carrier with exact powers of two (pow2_laws, Proofs/OrthP2.v: a commutative ring with pow2 (a+b) = pow2 a * pow2 b, pow2 0 = 1, (x / pow2 p) * pow2 p = x; e.g. the reals),
   every pair of routines meeting the QR / RQ contract, EVERY log2 routine, every d >= 1, every rank profile,
   every pivot 0 <= k <= d-1, both settings of use_stab [s].
   Returns (Z, p) with  2^p Z = Y  entrywise (p = 0 and Z = Y entrywise without stabilisation), same mode sizes,
   cores left of k with orthonormal columns, cores right of k with orthonormal rows, no rank larger than before,
   ranks cut to what the orthogonalised core can carry (r2 <= r1 n on the left, r1 <= n r2 on the right).
   ------------------------------------------------------------------------------------------------ *)
Theorem C04_orthogonalize_spec : forall T (K : ops T), pow2_laws K ->
  forall (qr rq : nat -> mat T -> mat T * mat T) (ilog2 : nat -> T -> Z),
  (forall j A, qr_ok K A (fst (qr j A)) (snd (qr j A))) -> (forall j A, rq_ok K A (fst (rq j A)) (snd (rq j A))) ->
  forall (s : bool) (Y : list (core T)) (k : nat), chain 1 Y 1 -> k < length Y ->
  exists Zs p, orthogonalize K qr rq ilog2 Y (Some (Z.of_nat k)) s = Ok (Zs, p) /\
    (forall idx, wf 1 Y idx -> omul K (opow2 K p) (get K Zs idx) = get K Y idx) /\
    (s = false -> p = 0%Z /\ forall idx, wf 1 Y idx -> get K Zs idx = get K Y idx) /\
    chain 1 Zs 1 /\ shape Zs = shape Y /\ length Zs = length Y /\
    (forall m, m < k -> lorth K (nth m Zs dcore)) /\
    (forall m, k < m -> m < length Y -> rorth K (nth m Zs dcore)) /\
    (forall m, m < length Y ->
       cr2 (nth m Zs dcore) <= cr2 (nth m Y dcore) /\ cr1 (nth m Zs dcore) <= cr1 (nth m Y dcore)) /\
    (forall m, m < k -> cr2 (nth m Zs dcore) <= cr1 (nth m Zs dcore) * cn (nth m Zs dcore)) /\
    (forall m, k < m -> m < length Y -> cr1 (nth m Zs dcore) <= cn (nth m Zs dcore) * cr2 (nth m Zs dcore)).
Proof. exact (@P_orthogonalize_spec). Qed.
(* k = None is the last mode *)
Theorem C04_orthogonalize_default_pivot : forall T (K : ops T) qr rq ilog2 (s : bool) (Y : list (core T)),
  orthogonalize K qr rq ilog2 Y None s = orthogonalize K qr rq ilog2 Y (Some (Z.of_nat (length Y) - 1)%Z) s.
Proof. exact (@P_orthogonalize_default). Qed.

(* the exact rank profile: left of the pivot r2' = min(r1' n, r2), right of it r1' = min(r1, n r2'); together with the
   chain condition of the result (r1'[0] = 1, r2'[d-1] = 1, r2'[m] = r1'[m+1]) this determines every rank *)
Theorem C04_ranks_exact : forall T (K : ops T), pow2_laws K ->
  forall (qr rq : nat -> mat T -> mat T * mat T) (ilog2 : nat -> T -> Z),
  (forall j A, qr_ok K A (fst (qr j A)) (snd (qr j A))) -> (forall j A, rq_ok K A (fst (rq j A)) (snd (rq j A))) ->
  forall (s : bool) (Y : list (core T)) (k : nat) Zs p, chain 1 Y 1 -> k < length Y ->
  orthogonalize K qr rq ilog2 Y (Some (Z.of_nat k)) s = Ok (Zs, p) ->
  chain 1 Zs 1 /\ length Zs = length Y /\
  (forall m, m < k ->
     cr2 (nth m Zs dcore) = Nat.min (cr1 (nth m Zs dcore) * cn (nth m Y dcore)) (cr2 (nth m Y dcore))) /\
  (forall m, k < m -> m < length Y ->
     cr1 (nth m Zs dcore) = Nat.min (cr1 (nth m Y dcore)) (cn (nth m Y dcore) * cr2 (nth m Zs dcore))).
Proof. exact (@P_orthogonalize_ranks_exact). Qed.

(* the pivot core alone carries the Frobenius norm:  ||Y||^2 = (2^p)^2 ||Z[k]||^2,  p = 0 without stabilisation *)
Theorem C04_pivot_carries_norm : forall T (K : ops T), pow2_laws K ->
  forall (qr rq : nat -> mat T -> mat T * mat T) (ilog2 : nat -> T -> Z),
  (forall j A, qr_ok K A (fst (qr j A)) (snd (qr j A))) -> (forall j A, rq_ok K A (fst (rq j A)) (snd (rq j A))) ->
  forall (s : bool) (Y : list (core T)) (k : nat) Zs p, chain 1 Y 1 -> k < length Y ->
  orthogonalize K qr rq ilog2 Y (Some (Z.of_nat k)) s = Ok (Zs, p) ->
  tnorm2 K Zs = cfrob2 K (nth k Zs dcore) /\
  tnorm2 K Y = omul K (omul K (opow2 K p) (opow2 K p)) (cfrob2 K (nth k Zs dcore)) /\
  (s = false -> tnorm2 K Y = cfrob2 K (nth k Zs dcore)).
Proof. exact (@P_orthogonalize_norm). Qed.
(* the underlying isometry statement for ANY TT-tensor with orthonormal cores around mode k (every commutative ring) *)
Theorem C04_orthonormal_cores_isometry : forall T (K : ops T), rng K -> forall (Y : list (core T)) k,
  chain 1 Y 1 -> k < length Y ->
  (forall m, m < k -> lorth K (nth m Y dcore)) -> (forall m, k < m -> m < length Y -> rorth K (nth m Y dcore)) ->
  tnorm2 K Y = cfrob2 K (nth k Y dcore).
Proof. exact (@orth_pivot_norm). Qed.

(* with stabilisation, at the reals, for every log2 routine with lo 2^p <= v < 2^(p+1), every d >= 2:
   Y = 2^p Z entrywise; every entry of every non-pivot core is at most 1 in modulus; every entry of the pivot core is
   below 2 and, unless the pivot core is zero, one of them is at least lo; hence all entries of Z are below 2 *)
Theorem C04_stab_magnitude : forall (lo : R) qr rq ilog2 (Y : list (core R)) k,
  (forall j A, qr_ok ORc A (fst (qr j A)) (snd (qr j A))) -> (forall j A, rq_ok ORc A (fst (rq j A)) (snd (rq j A))) ->
  ilog2k_ok lo ilog2 -> chain 1 Y 1 -> k < length Y -> 2 <= length Y ->
  exists Zs p, orthogonalize ORc qr rq ilog2 Y (Some (Z.of_nat k)) true = Ok (Zs, p) /\
    (forall idx, wf 1 Y idx -> (powerRZ 2 p * get ORc Zs idx = get ORc Y idx)%R) /\
    (forall m a i b, m < length Y -> m <> k -> a < cr1 (nth m Zs dcore) -> i < cn (nth m Zs dcore) ->
       b < cr2 (nth m Zs dcore) -> (Rabs (cget ORc (nth m Zs dcore) a i b) <= 1)%R) /\
    stabbed lo (nth k Zs dcore) /\
    (forall m a i b, m < length Y -> a < cr1 (nth m Zs dcore) -> i < cn (nth m Zs dcore) ->
       b < cr2 (nth m Zs dcore) -> (Rabs (cget ORc (nth m Zs dcore) a i b) < 2)%R).
Proof. exact orthogonalize_stab_magnitude. Qed.

(* ------------------------------------------------------------------------------------------------
   single steps orthogonalize_left(Y, i) / orthogonalize_right(Y, i) (the list operation; aliasing is C09):
   same tensor, same mode sizes, ONLY cores i and i+1 (resp. i-1 and i) change, core i becomes orthonormal,
   its new rank is min(r1 n, r2) (resp. min(r1, n r2)), the outer ranks of the pair are kept
   ------------------------------------------------------------------------------------------------ *)
Theorem C04_orthogonalize_left_step : forall T (K : ops T), rng K -> forall qr,
  (forall j A, qr_ok K A (fst (qr j A)) (snd (qr j A))) ->
  forall (Zs : list (core T)) (i : nat), chain 1 Zs 1 -> i + 1 < length Zs ->
  exists Zs', orth_left_z K qr Zs (Z.of_nat i) = Ok Zs' /\
    (forall idx, wf 1 Zs idx -> get K Zs' idx = get K Zs idx) /\
    chain 1 Zs' 1 /\ shape Zs' = shape Zs /\ length Zs' = length Zs /\
    (forall m, m <> i -> m <> S i -> nth m Zs' dcore = nth m Zs dcore) /\
    lorth K (nth i Zs' dcore) /\
    cr2 (nth i Zs' dcore) = Nat.min (cr1 (nth i Zs dcore) * cn (nth i Zs dcore)) (cr2 (nth i Zs dcore)) /\
    cr1 (nth i Zs' dcore) = cr1 (nth i Zs dcore) /\ cr2 (nth (S i) Zs' dcore) = cr2 (nth (S i) Zs dcore).
Proof. exact (@P_orth_left_step). Qed.
Theorem C04_orthogonalize_right_step : forall T (K : ops T), rng K -> forall rq,
  (forall j A, rq_ok K A (fst (rq j A)) (snd (rq j A))) ->
  forall (Zs : list (core T)) (i : nat), chain 1 Zs 1 -> 1 <= i -> i < length Zs ->
  exists Zs', orth_right_z K rq Zs (Z.of_nat i) = Ok Zs' /\
    (forall idx, wf 1 Zs idx -> get K Zs' idx = get K Zs idx) /\
    chain 1 Zs' 1 /\ shape Zs' = shape Zs /\ length Zs' = length Zs /\
    (forall m, m <> i - 1 -> m <> i -> nth m Zs' dcore = nth m Zs dcore) /\
    rorth K (nth i Zs' dcore) /\
    cr1 (nth i Zs' dcore) = Nat.min (cr1 (nth i Zs dcore)) (cn (nth i Zs dcore) * cr2 (nth i Zs dcore)) /\
    cr2 (nth i Zs' dcore) = cr2 (nth i Zs dcore) /\ cr1 (nth (i - 1) Zs' dcore) = cr1 (nth (i - 1) Zs dcore).
Proof. exact (@P_orth_right_step). Qed.

(* ------------------------------------------------------------------------------------------------
   rejection: an out-of-range pivot / mode number gives ValueError, for every oracle (no contract needed)
   ------------------------------------------------------------------------------------------------ *)
Theorem C04_bad_pivot : forall T (K : ops T) qr rq ilog2 (Y : list (core T)) (k : Z) (s : bool),
  (k < 0)%Z \/ (Z.of_nat (length Y) - 1 < k)%Z -> orthogonalize K qr rq ilog2 Y (Some k) s = Err ValueError.
Proof. exact (@orthogonalize_bad). Qed.
Theorem C04_bad_mode_left : forall T (K : ops T) qr (Zs : list (core T)) (i : Z),
  (i < 0)%Z \/ (Z.of_nat (length Zs) - 1 <= i)%Z -> orth_left_z K qr Zs i = Err ValueError.
Proof. exact (@orth_left_z_bad). Qed.
Theorem C04_bad_mode_right : forall T (K : ops T) rq (Zs : list (core T)) (i : Z),
  (i <= 0)%Z \/ (Z.of_nat (length Zs) - 1 < i)%Z -> orth_right_z K rq Zs i = Err ValueError.
Proof. exact (@orth_right_z_bad). Qed.

(* ------------------------------------------------------------------------------------------------
   non-vacuity
   ------------------------------------------------------------------------------------------------ *)
Example C04_laws_real : pow2_laws ORc.
Proof. exact ORc_laws. Qed.
Example C04_ilog2_exists : ilog2k_ok 1 (fun _ => ilog2Rc).
Proof. exact ilog2Rc_ok. Qed.
(* the two LAPACK contracts are met by TOTAL functions on real matrices (Gram-Schmidt with completion, Proofs/OrthPQ.v),
   so no theorem above is vacuous; with them the magnitude theorem holds without any hypothesis about oracles *)
Example C04_contracts_satisfiable :
  (forall (j : nat) A, qr_ok ORc A (fst (qrR A)) (snd (qrR A))) /\
  (forall (j : nat) A, rq_ok ORc A (fst (rqR A)) (snd (rqR A))).
Proof. exact contracts_satisfiable. Qed.
Example C04_real_instance : forall (Y : list (core R)) k, chain 1 Y 1 -> k < length Y -> 2 <= length Y ->
  exists Zs p, orthogonalize ORc (fun _ => qrR) (fun _ => rqR) (fun _ => ilog2Rc) Y (Some (Z.of_nat k)) true = Ok (Zs, p) /\
    (forall idx, wf 1 Y idx -> (powerRZ 2 p * get ORc Zs idx = get ORc Y idx)%R) /\
    (forall m a i b, m < length Y -> m <> k -> a < cr1 (nth m Zs dcore) -> i < cn (nth m Zs dcore) ->
       b < cr2 (nth m Zs dcore) -> (Rabs (cget ORc (nth m Zs dcore) a i b) <= 1)%R) /\
    stabbed 1 (nth k Zs dcore) /\
    (forall m a i b, m < length Y -> a < cr1 (nth m Zs dcore) -> i < cn (nth m Zs dcore) ->
       b < cr2 (nth m Zs dcore) -> (Rabs (cget ORc (nth m Zs dcore) a i b) < 2)%R).
Proof. exact real_instance. Qed.
(* concrete exact factorisations meeting the two contracts (3-4-5 rotation) *)
Example C04_qr_contract_example : qr_ok OQc A_ex Q_ex R_ex.
Proof. exact qr_ok_example. Qed.
Example C04_rq_contract_example : rq_ok OQc Ar_ex Rr_ex Qr_ex.
Proof. exact rq_ok_example. Qed.
(* the model run on a 2 x 2 tensor of rank 2 with that factorisation plugged in: entries kept, ranks, norm on the pivot *)
Example C04_model_example :
  chain 1 Y_ex 1 /\ wf 1 Y_ex [1; 1] /\
  match orthogonalize OQc qr_ex qr_ex (fun _ _ => 0%Z) Y_ex (Some 1%Z) false with
  | Ok (Zs, p) => p = 0%Z /\ ranks Zs = [1; 2; 1] /\
      get OQc Zs [0; 1] = get OQc Y_ex [0; 1] /\ get OQc Zs [1; 0] = get OQc Y_ex [1; 0] /\
      get OQc Zs [1; 1] = q 32 1 /\
      tnorm2 OQc Y_ex = q 1310 1 /\ cfrob2 OQc (nth 1 Zs dcore) = q 1310 1
  | Err _ => False
  end.
Proof. exact (conj (proj1 chain_example) (conj (proj2 chain_example) model_example)). Qed.
Example C04_bad_pivot_example :
  orthogonalize OQc qr_ex qr_ex (fun _ _ => 0%Z) Y_ex (Some 2%Z) false = Err ValueError /\
  orthogonalize OQc qr_ex qr_ex (fun _ _ => 0%Z) Y_ex (Some (-1)%Z) true = Err ValueError /\
  orth_left_z OQc qr_ex Y_ex 1%Z = Err ValueError /\ orth_left_z OQc qr_ex Y_ex (-1)%Z = Err ValueError /\
  orth_right_z OQc qr_ex Y_ex 0%Z = Err ValueError /\ orth_right_z OQc qr_ex Y_ex 2%Z = Err ValueError.
Proof. exact bad_pivot_example. Qed.
