(* C11 - degenerate but valid inputs give well-formed finite tensors.  Only statements, each closed by [exact].
   Vocabulary (Model/Wf.v):
     valid ns Y   Y is a non-empty list of 3-dimensional cores with consistent storage, first left rank 1, last right
                  rank 1, neighbouring ranks equal (exactly what vis.show accepts, theorems C11_show_accepts and C11_show_rejects), mode sizes ns,
                  every mode size and rank >= 1.  Mode size 1, rank 1, d = 1 or 2, over-ranked cores, zero or
                  rank-deficient data are all valid.
     qr_shape / rq_shape / svd_shape   the SHAPE half of the LAPACK contracts (inner dimension of the two factors
                  agrees and is >= 1 for a non-empty matrix); nothing is assumed about the returned VALUES.
     OG K         the guarded carrier over K: values carry a poison flag raised by x/0 and sqrt(x<0), propagated by
                  arithmetic, and making every comparison false; [clean] = flag down. *)
From Coq Require Import List Arith Lia PeanoNat ZArith Bool QArith Qcanon.
From TV Require Import Num.Ops Lin.Tab Lin.BigSum Lin.Mat TT.Chain Model.ActOne Model.Transformation Model.Svd Model.Stab
  Model.Anova Model.ActOneR Model.Wf Model.Qtt Model.Als Model.AlsFunc Model.Func Model.Cross Lin.Solve
  Proofs.WfP Proofs.WfPGuard Proofs.WfPMany Proofs.WfPQtt Proofs.WfPProj Proofs.WfPFit
  Proofs.AlsSim Proofs.CrossGeo Proofs.CrossP Proofs.CrossEx.
Import ListNotations.
Close Scope Qc_scope. Close Scope Q_scope.

(* ---- vis.show: the structural predicate ---- *)
Theorem C11_show_accepts : forall T (Y : list (core T)), Y <> [] -> chain 1 Y 1 -> show Y = Ok (shape Y, ranks Y).
Proof. exact (@show_accepts). Qed.
Theorem C11_show_rejects : forall T (Y : list (core T)), Y = [] \/ ~ chain 1 Y 1 -> show Y = Err ValueError.
Proof. exact (@show_rejects). Qed.
Theorem C11_valid_index_form : forall T ns (Y : list (core T)), wfI ns Y <-> valid ns Y.
Proof. exact (@wfI_iff). Qed.

(* ---- shape theorems: every input, every flag ---- *)
(* orthogonalize(Y, k, use_stab): any pivot 0 <= k <= d-1 or None, with and without stabilisation, d >= 1 *)
Theorem C11_orthogonalize_wf : forall T (K : ops T) qr rq ilog2 ns (Y : list (core T)) k use_stab,
  qr_shape qr -> rq_shape rq -> valid ns Y ->
  match k with None => True | Some kz => (0 <= kz < Z.of_nat (length Y))%Z end ->
  exists Zs p, orthogonalize K qr rq ilog2 Y k use_stab = Ok (Zs, p) /\ valid ns Zs.
Proof. intros T K qr rq ilog2 ns Y k us. exact (orthogonalize_valid K qr rq ilog2 ns Y k us). Qed.

(* truncate(Y, e, r, orth, use_stab, is_eigh): all 8 flag combinations, every threshold e and cap r (no hypothesis on
   them), every valid Y including the zero tensor; eigh and argsort are arbitrary functions *)
Theorem C11_truncate_wf : forall T (K : ops T) svdo eigh argsort qr rq ilog2 pow2frac ns (Y : list (core T)) e rcap
    orth use_stab is_eigh,
  svd_shape svdo -> qr_shape qr -> rq_shape rq -> valid ns Y ->
  exists Zs, truncate K svdo eigh argsort qr rq ilog2 pow2frac Y e rcap orth use_stab is_eigh = Ok Zs /\ valid ns Zs.
Proof.
  intros T K svdo eigh argsort qr rq ilog2 pow2frac ns Y e rcap o u i.
  exact (truncate_valid K svdo eigh argsort qr rq ilog2 pow2frac ns Y e rcap o u i).
Qed.

(* svd(Y_full, e, r): every non-empty shape with mode sizes >= 1, every data list, NO hypothesis on np.linalg.svd *)
Theorem C11_svd_wf : forall T (K : ops T) svdo ns data e rcap,
  ns <> [] -> Forall (fun n => 1 <= n) ns -> valid ns (svd K svdo ns data e rcap).
Proof. intros T K svdo. exact (svd_valid K svdo). Qed.

(* svd_matrix(Y_full, e, r) of a 2^q x 2^q matrix, q >= 1: q modes of size 4 *)
Theorem C11_svd_matrix_wf : forall T (K : ops T) svdo q A e rcap,
  1 <= q -> valid (repeat 4 q) (svd_matrix K svdo q A e rcap).
Proof. exact (@svd_matrix_valid). Qed.

(* the two truncated factorisations always return factors with a common inner dimension >= 1 (the rank floor) *)
Theorem C11_matrix_svd_inner : forall T (K : ops T) eigh argsort k A e rcap,
  mc (fst (matrix_svd K eigh argsort k A e rcap)) = mr (snd (matrix_svd K eigh argsort k A e rcap)) /\
  1 <= mc (fst (matrix_svd K eigh argsort k A e rcap)).
Proof. intros T K eigh argsort. exact (matrix_svd_shape K eigh argsort). Qed.
Theorem C11_matrix_skeleton_inner : forall T (K : ops T) svdo k A e rcap rel g,
  1 <= length (snd (fst (svdo k A))) ->
  mc (fst (matrix_skeleton K svdo k A e rcap rel g)) = mr (snd (matrix_skeleton K svdo k A e rcap rel g)) /\
  1 <= mc (fst (matrix_skeleton K svdo k A e rcap rel g)).
Proof. intros T K svdo. exact (matrix_skeleton_shape K svdo). Qed.

(* ---- ANOVA cores, sums ---- *)
(* order-1 ANOVA cores: any data (the values f0, f1 never matter: zero data, constant data, repeated samples), any
   noise, any r >= 1, d >= 2 *)
Theorem C11_anova_cores_1_wf : forall T (K : ops T) (M : anova T) r noise g,
  2 <= a_d M -> length (a_f1 M) = a_d M -> 1 <= r -> Forall (fun f => 1 <= length f) (a_f1 M) ->
  valid (map (@length T) (a_f1 M)) (cores_1 K M r noise g).
Proof. exact (@cores_1_valid). Qed.
(* the TT-tensor of one pair term of order-2 ANOVA, for any factorisation U V returned by matrix_skeleton whose outer
   sizes are the two mode sizes and whose inner size is >= 1 (C11_matrix_skeleton_inner) *)
Theorem C11_anova_pair_wf : forall T (K : ops T) (skel : mat T -> mat T * mat T) A i j shp,
  i < j < length shp -> Forall (fun n => 1 <= n) shp ->
  nth i shp 0 = mr (fst (skel A)) -> nth j shp 0 = mc (snd (skel A)) -> 1 <= mc (fst (skel A)) ->
  valid shp (second_order_2_tt K skel A i j shp).
Proof. exact (@pair_valid). Qed.
Theorem C11_add_wf : forall T (K : ops T) ns (Y1 Y2 : list (core T)),
  2 <= length ns -> valid ns Y1 -> valid ns Y2 -> valid ns (add K Y1 Y2).
Proof. exact (@add_valid). Qed.
(* add_many with its intermediate and final rounding (any routine that keeps validity, e.g. truncate by
   C11_truncate_wf), any number of summands *)
Theorem C11_add_many_wf : forall T (K : ops T) ns (trunc : nat -> list (core T) -> list (core T)),
  2 <= length ns -> (forall k Y, valid ns Y -> valid ns (trunc k Y)) ->
  forall Y0 rest, valid ns Y0 -> Forall (valid ns) rest -> valid ns (add_many K trunc (Y0 :: rest)).
Proof. exact (@add_many_valid). Qed.

(* ---- QTT conversions ---- *)
(* qtt_to_tt(Y, q): every valid QTT chain of d*q cores of mode size 2, q >= 1, d >= 1 *)
Theorem C11_qtt_to_tt_wf : forall T (K : ops T) (Y : list (core T)) q d, 1 <= q -> 1 <= d ->
  valid (repeat 2 (d * q)) Y -> exists Z, qtt_to_tt K Y q = Ok Z /\ valid (repeat (2 ^ q) d) Z.
Proof. exact (@qtt_to_tt_valid). Qed.
(* core_tt_to_qtt / tt_to_qtt for EVERY factorisation routine that meets only the shape half of its contract
   (fac_shape: U has the rows of A, V its columns, common inner size >= 1) - exactness A = U V is not assumed, so zero,
   rank-deficient and over-ranked cores, e = 0 and every rank cap are covered *)
Theorem C11_core_tt_to_qtt_wf : forall T (K : ops T) (msvd : nat -> mat T -> mat T * mat T),
  (forall c A, fac_shape A (fst (msvd c A)) (snd (msvd c A))) ->
  forall G k, cn G = 2 ^ S k -> 1 <= cr1 G -> 1 <= cr2 G ->
  exists Z, core_tt_to_qtt K msvd G = Ok Z /\ chain (cr1 G) Z (cr2 G) /\ Forall q2 Z /\ length Z = S k.
Proof. exact (@core_tt_to_qtt_shape). Qed.
Theorem C11_tt_to_qtt_wf : forall T (K : ops T) (msvd2 : nat -> nat -> mat T -> mat T * mat T),
  (forall k c A, fac_shape A (fst (msvd2 k c A)) (snd (msvd2 k c A))) ->
  forall q d (Y : list (core T)), 1 <= d -> valid (repeat (2 ^ S q) d) Y ->
  exists Z, tt_to_qtt K msvd2 Y = Ok Z /\ valid (repeat 2 (d * S q)) Z.
Proof. exact (@tt_to_qtt_valid). Qed.

(* ---- fitting routines and interpolation: [shaped] = [valid] without the storage clause (exactly what vis.show
   checks, plus mode sizes and positivity) ---- *)
(* als (index version): every sample list (repeated samples, any order), every lstsq solver, any stop arguments; the
   result has the (r1, n, r2) of every core of the initial approximation *)
Theorem C11_als_wf : forall T (K : ops T) solve acc accv cb Sm (Y0 : list (core T)) nswp e evld lamb skip fuel Y inf ns,
  als K solve acc accv cb Sm Y0 nswp e evld lamb skip fuel = Ok (Y, inf) -> shaped ns Y0 ->
  shaped ns Y /\ ranks Y = ranks Y0.
Proof. exact (@als_shaped). Qed.
Theorem C11_als_func_wf : forall T (K : ops T) solve lamb acc accv H y (A0 : list (core T)) nswp e evld fuel Y inf ns,
  als_func K solve acc accv H y A0 nswp e evld lamb fuel = Ok (Y, inf) -> shaped ns A0 ->
  shaped ns Y /\ ranks Y = ranks A0.
Proof. exact (@als_func_shaped). Qed.
(* cross: however and whenever the run ends, the returned tensor has the original mode sizes and chained ranks
   (re-export of the C06 invariant; Y0_ok = initial tensor well formed with sizes and ranks >= 1, pick_ok = maxvol contract) *)
Theorem C11_cross_wf : forall T (K : ops T) P isinf f cb (pones : P) pdotL pdotR pvals pick pcoreG pfacR erank accuracy
    accdata C fuel s,
  Y0_ok pones C -> pick_ok pick ->
  cross_m K isinf f cb pones pdotL pdotR pvals pick pcoreG pfacR erank accuracy accdata C fuel = Ok s ->
  CrossGeo.tt_wf pones C (sY s).
Proof. exact (@interrupted_wf). Qed.
(* func_int: DCT-I needs mode sizes >= 2 (a mode of size 1 is rejected with an exception, as scipy does); DST-I none *)
Theorem C11_func_int_wf : forall T (K : ops T) cs sn ns (Y : list (core T)) kind,
  valid ns Y -> (kind = Cheb -> Forall (fun n => 2 <= n) ns) ->
  exists A, func_int K cs sn Y kind = Ok A /\ valid ns A.
Proof. exact (@func_int_valid). Qed.
Theorem C11_func_int_rejects_size1 : forall T (K : ops T) cs sn (Y : list (core T)),
  ~ Forall (fun G => 2 <= cn G) Y -> func_int K cs sn Y Cheb = Err OtherError.
Proof. exact (@func_int_rejects_size1). Qed.
(* func_int_general: mode sizes = numbers of basis functions; lstsq only returns one row per basis function *)
Theorem C11_func_int_general_wf : forall T (K : ops T) (lstsq : nat -> mat T -> mat T -> mat T),
  (forall c H M, mr (lstsq c H M) = mc H) ->
  forall ns (Y : list (core T)) Hs, valid ns Y -> length Hs = length Y -> Forall (fun H => 1 <= mc H) Hs ->
  valid (map (@mc T) Hs) (func_int_general K lstsq Y Hs).
Proof. exact (@func_int_general_valid). Qed.

(* ---- the guarded instance IS the plain model plus flags (projection) ---- *)
(* matrix_svd at OG K on embedded inputs with lifted oracles returns exactly the embedding of the plain result: same
   values, every flag down - for every matrix, e, r, eigh, argsort *)
Theorem C11_matrix_svd_guarded_is_plain : forall T (K : ops T),
  (forall x, oltb K (o0 K) x = true -> oeqb K x (o0 K) = false) -> oltb K (o0 K) (o0 K) = false ->
  forall eigh argsort k (A : mat T) e rcap,
  matrix_svd (OG K) (lift_eigh eigh) (lift_argsort argsort) k (mat_map embed A) (embed e) rcap =
  (mat_map embed (fst (matrix_svd K eigh argsort k A e rcap)), mat_map embed (snd (matrix_svd K eigh argsort k A e rcap))).
Proof. exact (@matrix_svd_embed). Qed.
(* accuracy_of likewise, provided sqrt 2 is admissible and an exactly-zero reference norm is below the threshold *)
Theorem C11_accuracy_guarded_is_plain : forall T (K : ops T) (isinf : T -> bool),
  oltb K (oadd K (o1 K) (o1 K)) (o0 K) = false ->
  forall big tiny z1 h1 z2 h2, (oeqb K z2 (o0 K) = true -> oltb K (oabs K z2) tiny = true) ->
  accuracy_of (OG K) (fun x => isinf (fst x)) (embed big) (embed tiny) (embed z1) h1 (embed z2) h2 =
  embed (accuracy_of K isinf big tiny z1 h1 z2 h2).
Proof. exact (@accuracy_of_embed). Qed.

(* ---- no division by a non-positive singular value (repair 60d0cb4) ---- *)
(* for every number structure with 0 < x -> x <> 0 and not 0 < 0, every eigh / argsort, every matrix, e and r:
   the factors of matrix_svd computed over the guarded carrier are clean *)
Theorem C11_matrix_svd_no_zero_div : forall T (K : ops T) (eigh : nat -> mat T -> list T * mat T)
    (argsort : nat -> list T -> list nat),
  (forall x, oltb K (o0 K) x = true -> oeqb K x (o0 K) = false) -> oltb K (o0 K) (o0 K) = false ->
  forall k (A : mat T) e rcap,
  let UV := matrix_svd (OG K) (lift_eigh eigh) (lift_argsort argsort) k (mat_map embed A) e rcap in
  mclean K (fst UV) /\ mclean K (snd UV).
Proof. exact (@matrix_svd_no_zero_div). Qed.
(* the rule as it was before the repair IS poisoned on the 1 x 2 zero matrix (exact eigendecomposition supplied) *)
Theorem C11_matrix_svd_pinned_refuted :
  let UV := matrix_svd_pinned (OG OQc) (lift_eigh eigh0) (lift_argsort argsort0) O (mat_map embed Z12)
                              (embed (Q2Qc (Qmake 1 100))) 10%Z in
  snd (mget (OG OQc) (snd UV) 0 0) = true /\ snd (mget (OG OQc) (snd UV) 0 1) = true.
Proof. exact matrix_svd_pinned_refuted. Qed.

(* ---- matrix_skeleton(rel=True) on a zero matrix: s/s[0] is poisoned, no rank is cut, factors stay clean ---- *)
Theorem C11_skeleton_rel_zero_rank : forall T (K : ops T), oeqb K (o0 K) (o0 K) = true ->
  forall (s : list (T * bool)) e2 rcap, Forall (fun x => x = o0 (OG K)) s ->
  rank_select (OG K) (map (fun x => omul (OG K) x x) (map (fun x => odiv (OG K) x (nth O s (o0 (OG K)))) s)) e2 rcap =
  Z.to_nat (Z.max 1 (Z.min rcap (Z.of_nat (length s)))).
Proof. exact (@skeleton_rel_zero_rank). Qed.
Theorem C11_skeleton_clean : forall T (K : ops T) svdG k A e rcap rel g,
  let '(U, s, V) := svdG k A in
  mclean K U -> mclean K V -> Forall (fun x => clean x /\ oltb K (fst x) (o0 K) = false) s ->
  mclean K (fst (matrix_skeleton (OG K) svdG k A e rcap rel g)) /\
  mclean K (snd (matrix_skeleton (OG K) svdG k A e rcap rel g)).
Proof. exact (@skeleton_clean). Qed.

(* ---- accuracy: the documented sentinel ---- *)
(* accuracy_of = the code after the two stabilised norms (Model/Stab.v, with the zero-difference shortcut of 0f9009d) *)
Theorem C11_accuracy_cases : forall T (K : ops T) (isinf : T -> bool) big tiny z1 h1 z2 h2,
  let r := accuracy_of K isinf big tiny z1 h1 z2 h2 in
  r = o0 K \/ r = big \/ r = oopp K (o1 K) \/
  (oltb K (oabs K z2) tiny = false /\ isinf z2 = false /\ isinf z1 = false /\ isinf (pow2h K (h1 - h2)) = false /\
   r = odiv K (omul K (pow2h K (h1 - h2)) z1) z2).
Proof. exact (@accuracy_cases). Qed.
Theorem C11_accuracy_sentinel : forall T (K : ops T) (isinf : T -> bool) big tiny z1 h1 z2 h2,
  oeqb K z1 (o0 K) && oleb K tiny (oabs K z2) = false ->
  (-1000 <= h1 - h2 <= 1000)%Z ->
  isinf (pow2h K (h1 - h2)) || isinf z1 || isinf z2 || oltb K (oabs K z2) tiny = true ->
  accuracy_of K isinf big tiny z1 h1 z2 h2 = oopp K (o1 K).
Proof. exact (@accuracy_sentinel). Qed.
Theorem C11_accuracy_tiny_reference : forall T (K : ops T) (isinf : T -> bool) big tiny z1 h1 z2 h2,
  oltb K (oabs K z2) tiny = true -> oleb K tiny (oabs K z2) = false -> (-1000 <= h1 - h2 <= 1000)%Z ->
  accuracy_of K isinf big tiny z1 h1 z2 h2 = oopp K (o1 K).
Proof. exact (@accuracy_tiny_reference). Qed.
Theorem C11_accuracy_zero_reference_clean : forall T (K : ops T) (isinf : T * bool -> bool) big tiny z1 h1 h2,
  (-1000 <= h1 - h2 <= 1000)%Z -> oltb K (oabs K (o0 K)) tiny = true -> oleb K tiny (oabs K (o0 K)) = false ->
  accuracy_of (OG K) isinf big (embed tiny) z1 h1 (o0 (OG K)) h2 = (oopp K (o1 K), false).
Proof. exact (@accuracy_zero_reference_clean). Qed.
Theorem C11_accuracy_unguarded_poisoned : forall T (K : ops T) c z1, oeqb K (o0 K) (o0 K) = true ->
  snd (accuracy_unguarded (OG K) c z1 (o0 (OG K))) = true.
Proof. exact (@unguarded_poisoned). Qed.

(* ---- accuracy_on_data: the sentinel for an all-zero reference (repair 8aa69ea) ---- *)
(* any carrier: -1 when y_norm == 0 tested true, otherwise the quotient - formed only after the test was false *)
Theorem C11_accuracy_on_data_cases : forall T (K : ops T) Y I y,
  let yn := osqrt K (ActOneR.sumsq K y) in
  let r := ActOneR.accuracy_on_data K Y I y in
  (oeqb K yn (o0 K) = true /\ r = oopp K (o1 K)) \/
  (oeqb K yn (o0 K) = false /\
   r = odiv K (osqrt K (ActOneR.sumsq K (map (fun p => osub K (get K Y (fst p)) (snd p)) (combine I y)))) yn).
Proof. exact (@accuracy_on_data_cases). Qed.
(* guarded carrier, every tensor Y (zero or not), every index list, all reference values exactly 0: the clean value -1;
   the division whose denominator is 0 is not evaluated (it would be poisoned: C11_accuracy_on_data_unguarded) *)
Theorem C11_accuracy_on_data_zero_reference : forall T (K : ops T) Y I (y : list (T * bool)),
  oadd K (o0 K) (omul K (o0 K) (o0 K)) = o0 K -> osqrt K (o0 K) = o0 K ->
  oeqb K (o0 K) (o0 K) = true -> oltb K (o0 K) (o0 K) = false ->
  Forall (fun x => x = o0 (OG K)) y ->
  ActOneR.accuracy_on_data (OG K) Y I y = (oopp K (o1 K), false).
Proof. exact (@accuracy_on_data_zero_reference). Qed.
Theorem C11_accuracy_on_data_unguarded : forall T (K : ops T) (num : T * bool),
  oeqb K (o0 K) (o0 K) = true -> snd (odiv (OG K) num (o0 (OG K))) = true.
Proof. exact (@accuracy_on_data_unguarded_poisoned). Qed.
(* the four facts about 0 hold over Qc, and the model computes -1 on a concrete non-zero tensor with zero reference *)
Example C11_accuracy_on_data_example :
  oadd OQc (o0 OQc) (omul OQc (o0 OQc) (o0 OQc)) = o0 OQc /\ osqrt OQc (o0 OQc) = o0 OQc /\
  ActOneR.accuracy_on_data (OG OQc) [mkcore 1 2 1 (fun _ _ _ => (Q2Qc 3, false))] [[0]; [1]]
                           [(Q2Qc 0, false); (Q2Qc 0, false)] = (Q2Qc (-1), false).
Proof. repeat split; vm_compute; reflexivity. Qed.

(* ---- non-vacuity ---- *)
(* a valid degenerate tensor: d = 2, mode sizes 1 and 2, over-ranked (rank 3 > 1), all entries zero *)
Definition Zero12 : list (core Qc) :=
  [mkcore 1 1 3 (fun _ _ _ => Q2Qc 0); mkcore 3 2 1 (fun _ _ _ => Q2Qc 0)].
Example C11_valid_example : valid [1; 2] Zero12 /\ show Zero12 = Ok ([1; 2], [1; 3; 1]).
Proof.
  split; [|reflexivity]. apply wfI_iff. unfold wfI, Zero12.
  split; [reflexivity|]. split; [cbn; lia|]. split; [reflexivity|]. split; [reflexivity|]. split.
  - intros i Hi. cbn [length] in Hi. assert (i = O) by lia. subst i. reflexivity.
  - intros [|[|i]] Hi; cbn [nth length] in *; try lia;
      (split; [reflexivity|]; split; [apply wfdat_mk|]; cbn; lia).
Qed.
(* degenerate instances of the fitting theorems: d = 2, mode size 1, rank 1, repeated samples, zero data *)
Definition Y0deg : list (core Qc) := [mkcore 1 1 1 (fun _ _ _ => Q2Qc 1); mkcore 1 2 1 (fun _ _ _ => Q2Qc 1)].
Definition Sdeg : list (@sample Qc) :=
  [Smp [0; 0] (Q2Qc 0) (Q2Qc 1); Smp [0; 1] (Q2Qc 0) (Q2Qc 1); Smp [0; 1] (Q2Qc 0) (Q2Qc 1)].
Example C11_als_degenerate_example : shaped [1; 2] Y0deg /\
  exists Y inf, als OQc (gauss_solve OQc) (fun _ _ _ => Q2Qc 0) (fun _ _ => Q2Qc 0) None Sdeg Y0deg (Some 2) None None
                    (Q2Qc (Qmake 1 1000)) false 10 = Ok (Y, inf) /\ map dims Y = [(1, 1, 1); (1, 2, 1)].
Proof.
  split.
  - unfold shaped, Y0deg. split; [discriminate|]. split; [cbn; auto|]. split; [reflexivity|].
    split; repeat constructor.
  - eexists; eexists. split; vm_compute; reflexivity.
Qed.
Definition Ydeg : list (@mcore unit) := [mkc 1 1 1 tt; mkc 1 2 1 tt].
Definition cfgdeg : @cfg Z unit := mkcfg Ydeg (Some 10) None (Some 2) None false false 1 1 5 None.
Example C11_cross_degenerate_example : Y0_ok tt cfgdeg /\ pick_ok pick_ex /\
  exists s, cross_m OZ (P := unit) (fun _ => false) f_ex None tt (fun _ _ => tt) (fun _ _ => tt) (fun _ _ _ _ => tt)
              pick_ex (fun _ _ _ _ _ _ => tt) (fun _ _ _ _ _ _ => tt) (fun _ _ => 0%Z) (fun _ _ _ => 1%Z) (fun _ _ => 0%Z)
              cfgdeg 5 = Ok s.
Proof.
  split; [|split; [exact pick_ex_ok|eexists; vm_compute; reflexivity]].
  unfold Y0_ok, cfgdeg, Cross.d. cbn [c_Y0 Ydeg length].
  split; [lia|]. split; [|split; [reflexivity|split; [|reflexivity]]].
  - intros j Hj. destruct j as [|[|j']]; cbn; lia.
  - intros j Hj. destruct j as [|j']; cbn; try reflexivity; lia.
Qed.
(* a shape-respecting factorisation exists (A = A * I) *)
Example C11_fac_shape_satisfiable : forall (A : mat Qc), 1 <= mc A -> fac_shape A A (mid OQc (mc A)).
Proof. intros A H. unfold fac_shape. cbn [mid mkmat mr mc]. auto. Qed.
(* oracles meeting the shape contracts exist (exact QR / RQ / SVD of a 1 x 1 matrix, extended trivially) *)
Example C11_contracts_satisfiable :
  qr_shape (fun (_ : nat) (A : mat Qc) => (mkmat (mr A) 1 (fun _ _ => Q2Qc 0), mkmat 1 (mc A) (fun _ _ => Q2Qc 0))) /\
  rq_shape (fun (_ : nat) (A : mat Qc) => (mkmat (mr A) 1 (fun _ _ => Q2Qc 0), mkmat 1 (mc A) (fun _ _ => Q2Qc 0))) /\
  svd_shape (fun (_ : nat) (A : mat Qc) =>
               (mkmat (mr A) 1 (fun _ _ => Q2Qc 0), [Q2Qc 0], mkmat 1 (mc A) (fun _ _ => Q2Qc 0))).
Proof. split; [|split]; intros k A H1 H2; cbn [fst snd mkmat mr mc length]; lia. Qed.
(* the order laws used by the guards hold over Qc *)
Example C11_laws_Qc :
  (forall x, oltb OQc (o0 OQc) x = true -> oeqb OQc x (o0 OQc) = false) /\
  oltb OQc (o0 OQc) (o0 OQc) = false /\ oeqb OQc (o0 OQc) (o0 OQc) = true.
Proof. exact laws_Qc. Qed.
(* the repaired rule on the zero matrix: clean zero factors *)
Example C11_matrix_svd_zero_example :
  matrix_svd (OG OQc) (lift_eigh eigh0) (lift_argsort argsort0) O (mat_map embed Z12)
             (embed (Q2Qc (Qmake 1 100))) 10%Z
  = (mk_mat 1 1 [[(Q2Qc 0, false)]], mk_mat 1 2 [[(Q2Qc 0, false); (Q2Qc 0, false)]]).
Proof. exact matrix_svd_repaired_on_zero. Qed.
