(* C20 — incomplete TT-SVD (teneva.svd.svd_incomplete on the samples of teneva.sample.sample_tt).
   Only statements, each closed by [exact].  Spec predicates used below (all defined in Proofs/SvdIncP*.v):
     layout ns II idx idm PS    block k of II lists  prefix ++ value :: suffix  in the order (value, prefix, suffix),
                                PS k = (sampled prefixes, sampled suffixes) of mode k, idx = block offsets,
                                idm k = number of sampled suffixes
     blockmat K ns idx PS Y k   the (n_k * #prefixes) x #suffixes matrix svd_incomplete cuts out of the values Y
     lstsq_solves K lstsq       contract of np.linalg.lstsq: on a consistent system it returns a solution
     skel_exact_at ... c k      the skeleton factors of block k satisfy U V = B and U = B Z (no truncation loss)
     svd_exact_on K svdo c A e r  thin-SVD contract on A (A = U diag(s) V, V V^T = I) + the singular values cut off by
                                the rank rule vanish, sqrt exact on the kept ones
     HA_at / HC_at ... k        unfolding k of the target is interpolated by its sampled rows / sampled columns
     rank_hyp / tt_rank_hyp k   rank factorisation of unfolding k (of a TT-tensor) whose sampled interface matrices
                                have a left / right inverse *)
From Coq Require Import List Arith ZArith Reals QArith Qcanon.
From TV Require Import Num.Ops Lin.Tab Lin.BigSum Lin.Mat TT.Chain Model.Transformation Model.Sample Model.Svd Model.SvdInc
  Proofs.SvdIncP Proofs.SvdIncP2 Proofs.SvdIncP3 Proofs.SvdIncP4 Proofs.SvdIncP5 Proofs.SvdIncR Proofs.SvdIncEx Proofs.SvdIncEx2.
Import ListNotations.
Open Scope nat_scope.

(* ------------------------------------------------------------------------------------------------
   incomplete_layout (full): generator and consumer agree on the blocks
   ------------------------------------------------------------------------------------------------ *)
(* the generator produces the block layout, for every generator meeting the contract of choice / shuffle *)
Theorem C20_sample_tt_layout :
  forall (chnr : nat -> nat -> nat -> list nat) (shuf1 : nat -> list nat -> list nat),
  (forall c k s, Forall (fun x => x < k) (chnr c k s)) ->
  (forall c l (Q : nat -> Prop), Forall Q l -> Forall Q (shuf1 c l)) ->
  forall ns m, 2 <= length ns -> Forall (fun n => 0 < n) ns -> 0 < m ->
  layout ns (fst (fst (sample_tt chnr shuf1 ns m))) (snd (fst (sample_tt chnr shuf1 ns m)))
         (snd (sample_tt chnr shuf1 ns m)) (tt_PS chnr shuf1 0 [] ns m).
Proof. exact sample_tt_layout. Qed.

(* the consumer recovers the shape from the samples ... *)
Theorem C20_layout_shape :
  forall ns II idx idm PS, layout ns II idx idm PS -> 2 <= length ns -> Forall (fun n => 0 < n) ns ->
  colmax1 II = ns.
Proof. intros ns II idx idm PS H1 H2 H3. exact (colmax1_layout ns II idx idm PS H1 H2 H3 (map (fun _ => 0) II) (map_length _ II)). Qed.

(* ... and the matrix it cuts out for mode k holds the target at  prefix_i ++ v :: suffix_j  in row (v, i), column j *)
Theorem C20_layout_blocks :
  forall T (K : ops T) ns II idx idm PS, layout ns II idx idm PS -> 2 <= length ns -> Forall (fun n => 0 < n) ns ->
  forall (F : list nat -> T) k v i j, k < length ns -> v < nth k ns 0 ->
  i < length (fst (nth k PS dPS)) -> j < length (snd (nth k PS dPS)) ->
  mget K (blockmat K ns idx PS (map F II) k) (v * length (fst (nth k PS dPS)) + i) j =
  F (nth i (fst (nth k PS dPS)) [] ++ v :: nth j (snd (nth k PS dPS)) []).
Proof. exact @Bk_F. Qed.

(* one step of the loop: it succeeds, appends one core assembled from the lstsq results, and the systems it hands to
   lstsq are: A = left interface vectors of the sampled prefixes (the same for every slice v), b = rows (v, .) of the
   block (reduced by the skeleton decomposition when it has more columns than the cap) *)
Theorem C20_layout_step :
  forall T (K : ops T) svdo lstsq, (forall c A, mr (fst (fst (svdo c A))) = mr A) ->
  forall ns II idx idm PS, layout ns II idx idm PS -> 2 <= length ns -> Forall (fun n => 0 < n) ns ->
  forall (Y : list T), length Y = length II -> forall e rcap k (s : @st T),
  1 <= k -> k < length ns -> length (cores s) = k ->
  let P := fst (nth k PS dPS) in let n := nth k ns 0 in
  let r0 := cr2 (last (cores s) dcore) in
  let Y1 := step_Y1 K svdo ns idx PS Y e rcap (nsvd s) k in
  exists s' A b, inc_step K svdo lstsq II Y idx idm ns (length ns) e rcap k s = Ok s' /\
    cores s' = cores s ++ [mkcore r0 n (mc Y1) (fun a v c => mget K (lstsq (nlsq s + v) (A v) (b v)) a c)] /\
    trace s' = trace s ++ (if step_skel ns PS rcap k then [CSvd (blockmat K ns idx PS Y k)] else [])
                       ++ tab n (fun v => CLsq (A v) (b v)) /\
    (forall v, v < n ->
       mr (A v) = length P /\ mc (A v) = r0 /\ mr (b v) = length P /\ mc (b v) = mc Y1 /\
       (forall i a, i < length P -> a < r0 -> mget K (A v) i a = Phi K (cores s) (nth i P []) a) /\
       (forall i c, i < length P -> c < mc Y1 -> mget K (b v) i c = mget K Y1 (v * length P + i) c)).
Proof. exact @inc_step_ok. Qed.

(* ------------------------------------------------------------------------------------------------
   incomplete_wf (full): no exception, shape of the tensor, chain of ranks 1 .. 1, ranks <= cap;
   for arbitrary values, any svd whose left factor has the rows of its argument, ANY lstsq
   ------------------------------------------------------------------------------------------------ *)
Theorem C20_incomplete_wf :
  forall T (K : ops T) svdo lstsq,
  (forall c A, mr (fst (fst (svdo c A))) = mr A) ->
  forall ns II idx idm PS, layout ns II idx idm PS -> 2 <= length ns -> Forall (fun n => 0 < n) ns ->
  forall Y : list T, length Y = length II ->
  forall e rcap, (1 <= rcap)%Z ->
  exists Yres, svd_incomplete K svdo lstsq II Y idx idm e rcap = Ok Yres /\
    shape Yres = ns /\ chain 1 Yres 1 /\ Forall (fun G => (Z.of_nat (cr2 G) <= rcap)%Z) Yres.
Proof. exact @incomplete_wf. Qed.

(* ------------------------------------------------------------------------------------------------
   lstsq_exact (full, reals): a least-squares solution of a consistent system solves it exactly; with full
   column rank (a left inverse) it is the unique solution.  Hence a routine that minimises the residual meets
   the contract [lstsq_solves] used below.
   ------------------------------------------------------------------------------------------------ *)
Theorem C20_lstsq_exact :
  forall (A b : mat R) (X X0 : nat -> nat -> R), solves A b X0 -> minimiser A b X -> solves A b X.
Proof. exact lstsq_exact. Qed.
Theorem C20_lstsq_unique :
  forall (A b : mat R) (L X X0 : nat -> nat -> R),
  (forall a a', a < mc A -> a' < mc A ->
     bsum OR20 (mr A) (fun i => (L a i * mget OR20 A i a')%R) = if Nat.eqb a a' then 1%R else 0%R) ->
  solves A b X0 -> minimiser A b X -> forall a j, a < mc A -> j < mc b -> X a j = X0 a j.
Proof. exact lstsq_unique. Qed.
Theorem C20_lstsq_min_solves :
  forall lstsq : nat -> mat R -> mat R -> mat R,
  (forall c A b, mr A = mr b -> minimiser A b (fun a j => mget OR20 (lstsq c A b) a j)) ->
  lstsq_solves OR20 lstsq.
Proof. exact lstsq_min_solves. Qed.

(* ------------------------------------------------------------------------------------------------
   incomplete_exact (cond): exact recovery over any commutative ring, for every d >= 2, shape, number of samples
   and cap >= 1, under: contract of svd (rows), contract of lstsq, exact skeleton steps, interpolation hypotheses
   ------------------------------------------------------------------------------------------------ *)
(* most general form: the contract of lstsq is needed only for the systems of the run *)
Theorem C20_incomplete_exact_run :
  forall T (K : ops T), rng K -> forall svdo lstsq, (forall c A, mr (fst (fst (svdo c A))) = mr A) ->
  forall ns II idx idm PS, layout ns II idx idm PS -> 2 <= length ns -> Forall (fun n => 0 < n) ns ->
  forall (F : list nat -> T) e rcap (sfin : @st T),
  reach K svdo lstsq ns II idx idm (map F II) e rcap (length ns - 1) sfin ->
  (forall A b, In (CLsq A b) (trace sfin) -> forall c, lstsq_solves_at K lstsq c A b) ->
  (forall c k, k < length ns -> skel_used ns PS rcap k = true -> skel_exact_at K svdo ns II idx PS F e rcap c k) ->
  (forall k, 1 <= k -> k < length ns -> HA_at K ns PS F k) ->
  (forall k, 1 <= k -> k < length ns -> HC_at K ns PS F k) ->
  forall i, inb ns i -> get K (cores sfin) i = F i.
Proof. exact @incomplete_exact_run. Qed.
(* the final state exists and is the result of svd_incomplete *)
Theorem C20_incomplete_runs :
  forall T (K : ops T) svdo lstsq, (forall c A, mr (fst (fst (svdo c A))) = mr A) ->
  forall ns II idx idm PS, layout ns II idx idm PS -> 2 <= length ns -> Forall (fun n => 0 < n) ns ->
  forall Y : list T, length Y = length II -> forall e rcap,
  exists sfin, svd_incomplete_st K svdo lstsq II Y idx idm e rcap = Ok sfin /\
               reach K svdo lstsq ns II idx idm Y e rcap (length ns - 1) sfin.
Proof. exact @incomplete_runs. Qed.

(* target = any function of the multi-index with the interpolation property *)
Theorem C20_incomplete_recovers :
  forall T (K : ops T), rng K -> forall svdo lstsq, (forall c A, mr (fst (fst (svdo c A))) = mr A) ->
  lstsq_solves K lstsq ->
  forall ns II idx idm PS, layout ns II idx idm PS -> 2 <= length ns -> Forall (fun n => 0 < n) ns ->
  forall (F : list nat -> T) e rcap,
  (forall c k, k < length ns -> skel_used ns PS rcap k = true -> skel_exact_at K svdo ns II idx PS F e rcap c k) ->
  (forall k, 1 <= k -> k < length ns -> HA_at K ns PS F k) ->
  (forall k, 1 <= k -> k < length ns -> HC_at K ns PS F k) ->
  (1 <= rcap)%Z ->
  exists Yres, svd_incomplete K svdo lstsq II (map F II) idx idm e rcap = Ok Yres /\
    shape Yres = ns /\ chain 1 Yres 1 /\ Forall (fun G => (Z.of_nat (cr2 G) <= rcap)%Z) Yres /\
    forall i, inb ns i -> get K Yres i = F i.
Proof. exact @incomplete_recovers. Qed.

(* target with a rank factorisation at every unfolding whose sampled interface matrices have one-sided inverses *)
Theorem C20_incomplete_recovers_rank :
  forall T (K : ops T), rng K -> forall svdo lstsq, (forall c A, mr (fst (fst (svdo c A))) = mr A) ->
  lstsq_solves K lstsq ->
  forall ns II idx idm PS, layout ns II idx idm PS -> 2 <= length ns -> Forall (fun n => 0 < n) ns ->
  forall (F : list nat -> T) e rcap,
  (forall c k, k < length ns -> skel_used ns PS rcap k = true -> skel_exact_at K svdo ns II idx PS F e rcap c k) ->
  (forall k, 1 <= k -> k < length ns -> rank_hyp K ns PS F k) ->
  (1 <= rcap)%Z ->
  exists Yres, svd_incomplete K svdo lstsq II (map F II) idx idm e rcap = Ok Yres /\
    shape Yres = ns /\ chain 1 Yres 1 /\ Forall (fun G => (Z.of_nat (cr2 G) <= rcap)%Z) Yres /\
    forall i, inb ns i -> get K Yres i = F i.
Proof. exact @incomplete_recovers_rank. Qed.

(* "the sampled interface matrices have full rank", stated directly on the cores Tg of the target: at bond k (of rank
   rho) the rho-column matrix of left interface vectors  run [1] Tg[:k] prefix_i  of the prefixes sampled for mode k has
   a left inverse and the rho-row matrix of right interface vectors  dget Tg[k:] suffix_j  of the suffixes sampled for
   mode k-1 has a right inverse (over a field: full column / row rank).  That is [tt_rank_hyp]; it implies the rank
   hypothesis of C20_incomplete_recovers_rank for the function  get Tg ... *)
Theorem C20_tt_full_rank_implies_rank_hyp :
  forall T (K : ops T), rng K -> forall ns PS (Tg : list (core T)), shape Tg = ns ->
  forall k, k <= length ns -> tt_rank_hyp K PS Tg k -> rank_hyp K ns PS (get K Tg) k.
Proof. exact @tt_rank_hyp_rank. Qed.
(* ... where tt_rank_hyp unfolds to exactly that statement about the cores *)
Theorem C20_tt_rank_hyp_unfold :
  forall T (K : ops T) PS (Tg : list (core T)) k,
  tt_rank_hyp K PS Tg k <->
  exists (rho : nat) (L Ri : nat -> nat -> T),
    chain 1 (firstn k Tg) rho /\ chain rho (skipn k Tg) 1 /\
    (forall a a', a < rho -> a' < rho ->
       bsum K (length (fst (nth k PS dPS)))
         (fun i => omul K (L a i) (nth a' (run K [o1 K] (firstn k Tg) (nth i (fst (nth k PS dPS)) [])) (o0 K)))
       = delta K a a') /\
    (forall a a', a < rho -> a' < rho ->
       bsum K (length (snd (nth (k - 1) PS dPS)))
         (fun j => omul K (dget K (skipn k Tg) (nth j (snd (nth (k - 1) PS dPS)) []) rho a 0) (Ri j a'))
       = delta K a a').
Proof. intros; reflexivity. Qed.
(* ... hence recovery for a TT target on any samples with the block layout *)
Theorem C20_incomplete_recovers_tt :
  forall T (K : ops T), rng K -> forall svdo lstsq, (forall c A, mr (fst (fst (svdo c A))) = mr A) ->
  lstsq_solves K lstsq ->
  forall ns II idx idm PS, layout ns II idx idm PS -> 2 <= length ns -> Forall (fun n => 0 < n) ns ->
  forall Tg : list (core T), shape Tg = ns -> forall e rcap,
  (forall c k, k < length ns -> skel_used ns PS rcap k = true ->
     skel_exact_at K svdo ns II idx PS (get K Tg) e rcap c k) ->
  (forall k, 1 <= k -> k < length ns -> tt_rank_hyp K PS Tg k) ->
  (1 <= rcap)%Z ->
  exists Yres, svd_incomplete K svdo lstsq II (map (get K Tg) II) idx idm e rcap = Ok Yres /\
    shape Yres = ns /\ chain 1 Yres 1 /\ Forall (fun G => (Z.of_nat (cr2 G) <= rcap)%Z) Yres /\
    forall i, inb ns i -> get K Yres i = get K Tg i.
Proof. exact @incomplete_recovers_tt. Qed.

(* the statement of the property: samples generated by sample_tt for expected rank m, target a TT-tensor of the sampled
   shape whose sampled left / right interface matrices have one-sided inverses at every bond *)
Theorem C20_incomplete_recovers_sampled :
  forall T (K : ops T), rng K -> forall svdo lstsq, (forall c A, mr (fst (fst (svdo c A))) = mr A) ->
  lstsq_solves K lstsq ->
  forall (chnr : nat -> nat -> nat -> list nat) (shuf1 : nat -> list nat -> list nat),
  (forall c k s, Forall (fun x => x < k) (chnr c k s)) ->
  (forall c l (Q : nat -> Prop), Forall Q l -> Forall Q (shuf1 c l)) ->
  forall ns m, 2 <= length ns -> Forall (fun n => 0 < n) ns -> 0 < m ->
  forall Tg : list (core T), shape Tg = ns -> forall e rcap,
  (forall c k, k < length ns -> skel_used ns (tt_PS chnr shuf1 0 [] ns m) rcap k = true ->
     skel_exact_at K svdo ns (fst (fst (sample_tt chnr shuf1 ns m))) (snd (fst (sample_tt chnr shuf1 ns m)))
                   (tt_PS chnr shuf1 0 [] ns m) (get K Tg) e rcap c k) ->
  (forall k, 1 <= k -> k < length ns -> tt_rank_hyp K (tt_PS chnr shuf1 0 [] ns m) Tg k) ->
  (1 <= rcap)%Z ->
  exists Yres,
    svd_incomplete K svdo lstsq (fst (fst (sample_tt chnr shuf1 ns m)))
                   (map (get K Tg) (fst (fst (sample_tt chnr shuf1 ns m))))
                   (snd (fst (sample_tt chnr shuf1 ns m))) (snd (sample_tt chnr shuf1 ns m)) e rcap = Ok Yres /\
    shape Yres = ns /\ chain 1 Yres 1 /\ Forall (fun G => (Z.of_nat (cr2 G) <= rcap)%Z) Yres /\
    forall i, inb ns i -> get K Yres i = get K Tg i.
Proof. exact @incomplete_recovers_sampled. Qed.

(* the skeleton-exactness hypothesis follows from the usual thin-SVD contract when nothing is cut off ... *)
Theorem C20_skeleton_exact_from_svd :
  forall T (K : ops T), rng K -> forall svdo c (A : mat T) e rcap, svd_exact_on K svdo c A e rcap ->
  let U' := fst (matrix_skeleton K svdo c A e rcap false GiveM) in
  exists V' Z : nat -> nat -> T,
    (forall i j, i < mr A -> j < mc A -> mget K A i j = bsum K (mc U') (fun b => omul K (mget K U' i b) (V' b j))) /\
    (forall i b, i < mr A -> b < mc U' -> mget K U' i b = bsum K (mc A) (fun j => omul K (mget K A i j) (Z j b))).
Proof. exact @skeleton_exact_from_svd. Qed.
(* ... so recovery holds under: SVD contract on the sample blocks with vanishing cut-off singular values (cap >= rank,
   e negligible), lstsq contract, rank factorisations with one-sided inverses of the sampled interface matrices *)
Theorem C20_incomplete_recovers_svd :
  forall T (K : ops T), rng K -> forall svdo lstsq, (forall c A, mr (fst (fst (svdo c A))) = mr A) ->
  lstsq_solves K lstsq ->
  forall ns II idx idm PS, layout ns II idx idm PS -> 2 <= length ns -> Forall (fun n => 0 < n) ns ->
  forall (F : list nat -> T) e rcap,
  (forall c k, k < length ns -> skel_used ns PS rcap k = true ->
     svd_exact_on K svdo c (blockmat K ns idx PS (map F II) k) e (skel_r ns rcap k)) ->
  (forall k, 1 <= k -> k < length ns -> rank_hyp K ns PS F k) ->
  (1 <= rcap)%Z ->
  exists Yres, svd_incomplete K svdo lstsq II (map F II) idx idm e rcap = Ok Yres /\
    shape Yres = ns /\ chain 1 Yres 1 /\ Forall (fun G => (Z.of_nat (cr2 G) <= rcap)%Z) Yres /\
    forall i, inb ns i -> get K Yres i = F i.
Proof. exact @incomplete_recovers_svd. Qed.

(* ------------------------------------------------------------------------------------------------
   non-vacuity: a 2 x 2 x 2 target of TT-rank 2 over Qc (expected rank 2, cap 2) on which every hypothesis holds
   ------------------------------------------------------------------------------------------------ *)
Example C20_generator_contract_example :
  (forall c k s, Forall (fun x => x < k) (chnr_ex c k s)) /\
  (forall c l (Q : nat -> Prop), Forall Q l -> Forall Q (shuf_ex c l)).
Proof. exact (conj chnr_ex_ok shuf_ex_ok). Qed.
Example C20_layout_example : layout ns_ex II_ex idx_ex idm_ex PS_ex.
Proof. exact layout_ex. Qed.
Example C20_samples_example : length II_ex = 16 /\ idx_ex = [0; 4; 12; 16] /\ idm_ex = [2; 2; 1] /\
  PS_ex = [([[]], [[0; 0]; [1; 1]]); ([[0]; [1]], [[0]; [1]]); ([[0; 0]; [1; 1]], [[]])].
Proof. exact samples_ex. Qed.
Example C20_svd_contract_example : forall c A, mr (fst (fst (svd_ex c A))) = mr A.
Proof. exact svd_ex_rows. Qed.
Example C20_run_example : run_ex = Ok sfin_ex /\
  reach OQc svd_ex lsq_ex ns_ex II_ex idx_ex idm_ex (map F_ex II_ex) (q 0 1) 2%Z (length ns_ex - 1) sfin_ex.
Proof. exact (conj run_ex_ok reach_ex). Qed.
Example C20_lstsq_contract_example :
  forall A b, In (CLsq A b) (trace sfin_ex) -> forall c, lstsq_solves_at OQc lsq_ex c A b.
Proof. exact lsq_ex_ok. Qed.
Example C20_skeleton_exact_example : forall c k, k < length ns_ex -> skel_used ns_ex PS_ex 2%Z k = true ->
  skel_exact_at OQc svd_ex ns_ex II_ex idx_ex PS_ex F_ex (q 0 1) 2%Z c k.
Proof. exact skel_ex. Qed.
Example C20_svd_exact_example : forall c k, k < length ns_ex -> skel_used ns_ex PS_ex 2%Z k = true ->
  svd_exact_on OQc svd_ex c (blockmat OQc ns_ex idx_ex PS_ex (map F_ex II_ex) k) (q 0 1) (skel_r ns_ex 2%Z k).
Proof. exact svd_exact_ex. Qed.
Example C20_rank_hypotheses_example : forall k, 1 <= k -> k < length ns_ex -> tt_rank_hyp OQc PS_ex Tg_ex k.
Proof. exact tt_hyp_ex. Qed.
Example C20_recovery_example : forall i, inb ns_ex i -> get OQc (cores sfin_ex) i = F_ex i.
Proof. exact recover_ex. Qed.
Example C20_recovery_computed_example :
  ranks (cores sfin_ex) = [1; 2; 2; 1] /\
  get OQc (cores sfin_ex) [0; 0; 1] = q 1 1 /\ get OQc (cores sfin_ex) [1; 0; 1] = q 5 1 /\
  F_ex [0; 0; 1] = q 1 1 /\ F_ex [1; 0; 1] = q 5 1.
Proof. exact recover_ex_computed. Qed.

(* second instance ("generic"): 3 x 2 x 3, m = 3, cap 2, rank-2 target with generic integer cores, generator drawing
   the last indices and reversing, skeleton reduction used at mode 0 and at the inner mode 1, overdetermined lstsq *)
Example C20_generic_generator_example :
  (forall c k s, Forall (fun x => x < k) (chnr_g c k s)) /\
  (forall c l (Q : nat -> Prop), Forall Q l -> Forall Q (shuf_g c l)).
Proof. exact (conj chnr_g_ok shuf_g_ok). Qed.
Example C20_generic_samples_example : layout ns_g II_g idx_g idm_g PS_g /\
  length II_g = 36 /\ idx_g = [0; 9; 27; 36] /\ idm_g = [3; 3; 1] /\
  PS_g = [([[]], [[1; 2]; [1; 1]; [0; 0]]); ([[2]; [1]; [0]], [[2]; [1]; [0]]); ([[2; 1]; [1; 1]; [0; 0]], [[]])].
Proof. exact (conj layout_g samples_g). Qed.
Example C20_generic_oracles_example :
  (forall c A, mr (fst (fst (svd_g c A))) = mr A) /\
  (run_g = Ok sfin_g /\
   reach OQc svd_g lsq_g ns_g II_g idx_g idm_g (map F_g II_g) (q 0 1) 2%Z (length ns_g - 1) sfin_g) /\
  (forall A b, In (CLsq A b) (trace sfin_g) -> forall c, lstsq_solves_at OQc lsq_g c A b) /\
  (forall c k, k < length ns_g -> skel_used ns_g PS_g 2%Z k = true ->
     skel_exact_at OQc svd_g ns_g II_g idx_g PS_g F_g (q 0 1) 2%Z c k) /\
  skel_used ns_g PS_g 2%Z 1 = true.
Proof. exact (conj svd_g_rows (conj (conj run_g_ok reach_g) (conj lsq_g_ok (conj skel_g eq_refl)))). Qed.
Example C20_generic_rank_hypotheses_example : forall k, 1 <= k -> k < length ns_g -> tt_rank_hyp OQc PS_g Tg_g k.
Proof. exact tt_hyp_g. Qed.
Example C20_incomplete_exact_generic_example : forall i, inb ns_g i -> get OQc (cores sfin_g) i = F_g i.
Proof. exact recover_g. Qed.
Example C20_generic_recovery_computed_example :
  ranks (cores sfin_g) = [1; 2; 2; 1] /\ length (trace sfin_g) = 7 /\
  forallb (fun i => Qc_eqb (get OQc (cores sfin_g) i) (F_g i)) all_idx_g = true /\
  F_g [2; 1; 0] = q 10 1.
Proof. exact recover_g_computed. Qed.
