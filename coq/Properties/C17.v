(* C17 — QTT conversion and index maps.  Only statements, each closed by [exact]. *)
From Coq Require Import List Arith Lia PeanoNat.
From TV Require Import Num.Ops Model.GridInd Proofs.GridIndP.
Import ListNotations.

(* multi-index -> bits -> multi-index, every d = length idx, every q >= 1 *)
Theorem C17_ind_tt_qtt_tt : forall q idx, 1 <= q -> Forall (fun i => i < 2 ^ q) idx ->
  exists b, ind_tt_to_qtt1 (2 ^ q) idx = Ok b /\ length b = length idx * q /\
            Forall (fun x => x < 2) b /\ ind_qtt_to_tt1 q b = Ok idx.
Proof. exact tt_qtt_tt. Qed.

(* bits -> multi-index -> bits *)
Theorem C17_ind_qtt_tt_qtt : forall q d b, 1 <= q -> length b = d * q -> Forall (fun x => x < 2) b ->
  exists idx, ind_qtt_to_tt1 q b = Ok idx /\ length idx = d /\ Forall (fun i => i < 2 ^ q) idx /\
              ind_tt_to_qtt1 (2 ^ q) idx = Ok b.
Proof. exact qtt_tt_qtt. Qed.

(* non-power-of-two mode size is rejected with ValueError, whatever the index *)
Theorem C17_ind_rejects : forall n idx, (forall q, n <> 2 ^ q) -> ind_tt_to_qtt1 n idx = Err ValueError.
Proof. exact tt_to_qtt_rejects. Qed.

(* non-vacuity: a concrete instance of the hypotheses and the computed maps *)
Example C17_ind_example :
  ind_tt_to_qtt1 8 [5; 0; 6] = Ok [1; 0; 1; 0; 0; 0; 0; 1; 1] /\
  ind_qtt_to_tt1 3 [1; 0; 1; 0; 0; 0; 0; 1; 1] = Ok [5; 0; 6] /\
  ind_tt_to_qtt1 6 [1] = Err ValueError.
Proof. repeat split. Qed.

(* ------------------------------------------------------------------------------------------------------------
   Core / tensor conversions (Model/Qtt.v), over every commutative ring. *)
From Coq Require Import ZArith.
From TV Require Import Lin.Mat TT.Chain Model.Qtt Proofs.QttP Proofs.QttP2.

(* qtt_to_tt: for every d, every q >= 1, every QTT-tensor (d*q cores of mode size 2, matching ranks): the call succeeds,
   returns d cores, and the entry at a multi-index equals the QTT entry at its little-endian binary expansion *)
Theorem C17_qtt_to_tt_denote : forall T (K : ops T), rng K -> forall (Y : list (core T)) q d idx,
  1 <= q -> length Y = d * q -> chain 1 Y 1 -> Forall (fun G => cn G = 2) Y ->
  length idx = d -> Forall (fun i => i < 2 ^ q) idx ->
  exists Z, qtt_to_tt K Y q = Ok Z /\ length Z = d /\ get K Z idx = get K Y (flat_map (bits_le q) idx).
Proof. intros T K Rth Y q d idx. exact (qtt_to_tt_denote K Rth Y q d idx). Qed.

(* ... the result is a TT-tensor with mode sizes 2^q whose ranks are the QTT-ranks at the mode boundaries *)
Theorem C17_qtt_to_tt_shape : forall T (K : ops T), rng K -> forall q, 1 <= q -> forall d (Y : list (core T)) r rl,
  length Y = d * q -> chain r Y rl -> Forall (fun G => cn G = 2) Y ->
  chain r (map (merged K) (groups q d Y)) rl /\ Forall (fun G => cn G = 2 ^ q) (map (merged K) (groups q d Y)).
Proof. intros T K Rth q Hq d Y r rl. exact (groups_chain K q Hq d Y r rl). Qed.

(* tt_to_qtt when every truncated factorisation is exact (fac_ok: A = U V, i.e. nothing is cut): for every d, every
   q >= 1 (mode size 2^q), every rank profile: d*q cores of mode size 2, boundary ranks 1, and the entry at the
   binary expansion of a multi-index equals the entry of the original tensor *)
Theorem C17_tt_to_qtt_denote : forall T (K : ops T), rng K ->
  forall (msvd2 : nat -> nat -> mat T -> mat T * mat T),
  (forall k c A, fac_ok K A (fst (msvd2 k c A)) (snd (msvd2 k c A))) ->
  forall q (Y : list (core T)) idx, chain 1 Y 1 -> Forall (fun G => cn G = 2 ^ S q /\ 0 < cr1 G) Y ->
  length idx = length Y -> Forall (fun i => i < 2 ^ S q) idx ->
  exists Z, tt_to_qtt K msvd2 Y = Ok Z /\ length Z = length Y * S q /\ chain 1 Z 1 /\
    Forall (fun Q => cn Q = 2) Z /\ get K Z (flat_map (bits_le (S q)) idx) = get K Y idx.
Proof. intros T K Rth msvd2 H q Y idx. exact (tt_to_qtt_denote K Rth msvd2 H q Y idx). Qed.

(* bonds between modes keep the TT-ranks (each group of q cores is a chain from r_k to r_{k+1}); every bond created
   inside a mode is the inner size of a factorisation, hence <= the cap whenever the factorisations respect it *)
Theorem C17_tt_to_qtt_ranks : forall T (K : ops T), rng K ->
  forall (msvd2 : nat -> nat -> mat T -> mat T * mat T),
  (forall k c A, fac_ok K A (fst (msvd2 k c A)) (snd (msvd2 k c A))) ->
  forall q (Y : list (core T)) rmax, chain 1 Y 1 -> Forall (fun G => cn G = 2 ^ S q /\ 0 < cr1 G) Y ->
  (forall k c B, mc (fst (msvd2 k c B)) <= rmax) ->
  exists Zs, tt_to_qtt K msvd2 Y = Ok (concat Zs) /\
    Forall2 (fun G Zc => length Zc = S q /\ chain (cr1 G) Zc (cr2 G)) Y Zs /\
    Forall (fun Zc => Forall (fun Q => cr1 Q <= rmax) (tl Zc)) Zs.
Proof. intros T K Rth msvd2 H q Y rmax. exact (tt_to_qtt_ranks K Rth msvd2 H q Y rmax). Qed.

(* one core: the denotation step by step (any entering row vector) *)
Theorem C17_core_tt_to_qtt_spec : forall T (K : ops T), rng K -> forall msvd,
  (forall c A, fac_ok K A (fst (msvd c A)) (snd (msvd c A))) ->
  forall (G : core T) k, cn G = 2 ^ S k -> 0 < cr1 G ->
  exists Z, core_tt_to_qtt K msvd G = Ok Z /\ length Z = S k /\ chain (cr1 G) Z (cr2 G) /\
    Forall (fun Q => cn Q = 2) Z /\
    (forall rmax, (forall c0 B, mc (fst (msvd c0 B)) <= rmax) -> Forall (fun Q => cr1 Q <= rmax) (tl Z)) /\
    forall v i, length v = cr1 G -> i < 2 ^ S k -> vstep K v G i = run K v Z (bits_le (S k) i).
Proof. intros T K Rth msvd H G k. exact (core_tt_to_qtt_spec K Rth msvd H G k). Qed.

(* non-power-of-two mode size: ValueError before any factorisation *)
Theorem C17_core_tt_to_qtt_rejects : forall T (K : ops T) sv (G : core T),
  (forall q, cn G <> 2 ^ q) -> core_tt_to_qtt K sv G = Err ValueError.
Proof. intros T K sv G. exact (core_tt_to_qtt_rejects K sv G). Qed.

(* non-vacuity: the contract fac_ok is satisfiable in every ring (A = A * Id), and a concrete conversion over Z *)
Example C17_fac_ok_example : forall T (K : ops T), rng K -> forall A : mat T, fac_ok K A A (mid K (mc A)).
Proof. intros T K Rth A. exact (fac_ok_id K Rth A). Qed.
Example C17_qtt_example :
  let Y := [mk_core 1 2 2 [[[1; 2]; [3; 4]]]; mk_core 2 2 1 [[[5]; [6]]; [[7]; [8]]]]%Z in
  match qtt_to_tt OZ Y 2 with
  | Ok Z => map (fun i => get OZ Z [i]) [0; 1; 2; 3] = [19; 43; 22; 50]%Z /\
            map (fun b => get OZ Y b) [[0; 0]; [1; 0]; [0; 1]; [1; 1]] = [19; 43; 22; 50]%Z
  | Err _ => False
  end.
Proof. vm_compute. split; reflexivity. Qed.

(* ------------------------------------------------------------------------------------------------------------
   The factorisation oracle instantiated with the MODEL of teneva.matrix_svd (Model/Svd.v, property C02), at the
   reals, with e = 0: when nothing can be cut (non-empty matrix, cap above min(m, n)) matrix_svd IS an exact
   factorisation (for every symmetric-eigendecomposition / argsort routine meeting their contracts), so the
   conversion theorem holds with matrix_svd itself on those calls ([msvd_total] = matrix_svd under that guard,
   the trivial factorisation A = A Id elsewhere). *)
From Coq Require Import Reals.
From TV Require Import Model.Svd Proofs.StabRP Proofs.TruncP Proofs.TruncP4 Proofs.TruncP5 Proofs.TruncFacP.

Theorem C17_matrix_svd_exact_e0 : forall (eigh : nat -> mat R -> list R * mat R) (argsort : nat -> list R -> list nat),
  (forall k C, msym C -> eigh_ok C (fst (eigh k C)) (snd (eigh k C))) ->
  (forall k l, argsort_ok l (argsort k l)) ->
  forall k (A : mat R) rcap, 1 <= mr A -> 1 <= mc A -> (Z.of_nat (Nat.min (mr A) (mc A)) < rcap)%Z ->
  fac_ok OR A (fst (matrix_svd OR eigh argsort k A 0%R rcap)) (snd (matrix_svd OR eigh argsort k A 0%R rcap)).
Proof. intros eigh argsort HE HA. exact (matrix_svd_exact eigh argsort HE HA). Qed.

Theorem C17_tt_to_qtt_denote_matrix_svd :
  forall (eigh : nat -> nat -> mat R -> list R * mat R) (argsort : nat -> nat -> list R -> list nat) (rcap : Z),
  (forall k c C, msym C -> eigh_ok C (fst (eigh k c C)) (snd (eigh k c C))) ->
  (forall k c l, argsort_ok l (argsort k c l)) ->
  forall q (Y : list (core R)) idx, chain 1 Y 1 -> Forall (fun G => cn G = 2 ^ S q /\ 0 < cr1 G) Y ->
  length idx = length Y -> Forall (fun i => i < 2 ^ S q) idx ->
  exists Z, tt_to_qtt OR (fun k => msvd_total (eigh k) (argsort k) rcap) Y = Ok Z /\ length Z = length Y * S q /\
    chain 1 Z 1 /\ Forall (fun Q => cn Q = 2) Z /\ get OR Z (flat_map (bits_le (S q)) idx) = get OR Y idx.
Proof. exact tt_to_qtt_denote_svd. Qed.

(* ------------------------------------------------------------------------------------------------------------
   The "within the requested accuracy" clause for ONE TT-core with genuinely truncating factorisations
   (Proofs/QttErrP.v, Proofs/QttErrRP.v).
     core_err2 K G Qs d       = sum over (a, m, b) of (G[a, m, b] - (entry of the chain Qs at the little-endian binary
                                digits of m, open boundary indices a, b))^2
     cdist2 K G M             = sum over (a, m, b) of (G[a, m, b] - M[a, m, b])^2
     calls_all K P msvd G d   = P (argument, returned U, returned V) at each of the d factorisation calls that the run
                                on G makes: call 0 on the unfolding of G, call k on np.hstack([A[:As], A[As:]]) of the
                                previous U
     calls_res K msvd G d     = sum over those d calls of the squared Frobenius residual |A_k - U_k V_k|^2
     trunc_ok K A U V         = shapes agree, V V^T = I (orthonormal rows), U = A V^T.
   Any commutative ring: squared error = sum of the squared residuals (Pythagoras: Y[0] is multiplied by V0 after the
   loop, but V0 and every later V have orthonormal rows, so they are isometries on row spaces). *)
From TV Require Import Lin.BigSum Proofs.FrobP Proofs.TruncP2 Proofs.QttErrP Proofs.QttErrRP Proofs.QttErrEx.

Theorem C17_core_tt_to_qtt_error : forall T (K : ops T), rng K ->
  forall (msvd : nat -> mat T -> mat T * mat T) (G : core T) k Qs,
  cn G = 2 ^ S k -> 0 < cr1 G -> calls_all K (trunc_ok K) msvd G (S k) -> core_tt_to_qtt K msvd G = Ok Qs ->
  length Qs = S k /\ chain (cr1 G) Qs (cr2 G) /\ Forall (fun Q => cn Q = 2) Qs /\
  core_err2 K G Qs (S k) = calls_res K msvd G (S k).
Proof. intros T K Rth msvd G k Qs. exact (core_tt_to_qtt_err K Rth msvd G k Qs). Qed.

(* the same distance measured against the single core that core_qtt_to_tt rebuilds from the chain *)
Theorem C17_core_err2_merged : forall T (K : ops T), rng K -> forall (G : core T) Qs d,
  chain (cr1 G) Qs (cr2 G) -> Forall (fun Q => cn Q = 2) Qs -> length Qs = S d -> cn G = 2 ^ S d ->
  core_qtt_to_tt K Qs = Ok (merged K Qs) /\ cdist2 K G (merged K Qs) = core_err2 K G Qs (S d).
Proof. intros T K Rth G Qs d. exact (core_err2_merged_ok K Rth G Qs d). Qed.

(* on a core of mode size 2^(k+1) the run never fails, whatever the factorisation returns *)
Theorem C17_core_tt_to_qtt_ok : forall T (K : ops T) (msvd : nat -> mat T -> mat T * mat T) (G : core T) k,
  cn G = 2 ^ S k -> exists Qs, core_tt_to_qtt K msvd G = Ok Qs.
Proof. intros T K msvd G k. exact (core_tt_to_qtt_ok K msvd G k). Qed.

(* at the reals, under the step contract of property C02 (fact_ok: rows of V pairwise orthogonal and of norm 1 or 0,
   U V = A V^T V -- weaker than trunc_ok: a retained zero singular value gives a zero row) at every call the run makes:
   squared error <= sum of the squared residuals *)
Theorem C17_core_tt_to_qtt_error_le_R : forall (msvd : nat -> mat R -> mat R * mat R) (G : core R) k Qs,
  cn G = 2 ^ S k -> 0 < cr1 G -> calls_all OR (fact_ok OR) msvd G (S k) -> core_tt_to_qtt OR msvd G = Ok Qs ->
  length Qs = S k /\ chain (cr1 G) Qs (cr2 G) /\ Forall (fun Q => cn Q = 2) Qs /\
  (core_err2 OR G Qs (S k) <= calls_res OR msvd G (S k))%R /\
  (cdist2 OR G (merged OR Qs) <= calls_res OR msvd G (S k))%R.
Proof. exact core_tt_to_qtt_err_le. Qed.

(* every residual <= e^2  ==>  Frobenius distance between G and the chain / the merged core <= sqrt(d) e, d = k+1 *)
Theorem C17_core_tt_to_qtt_error_R : forall (msvd : nat -> mat R -> mat R * mat R) (G : core R) k Qs (e : R),
  (0 <= e)%R -> cn G = 2 ^ S k -> 0 < cr1 G ->
  calls_all OR (fun M U V => fact_ok OR M U V /\ (res2 OR M U V <= e * e)%R) msvd G (S k) ->
  core_tt_to_qtt OR msvd G = Ok Qs ->
  length Qs = S k /\ chain (cr1 G) Qs (cr2 G) /\ Forall (fun Q => cn Q = 2) Qs /\
  (core_err2 OR G Qs (S k) <= INR (S k) * (e * e))%R /\
  (sqrt (core_err2 OR G Qs (S k)) <= sqrt (INR (S k)) * e)%R /\
  (sqrt (cdist2 OR G (merged OR Qs)) <= sqrt (INR (S k)) * e)%R.
Proof. exact core_tt_to_qtt_bound. Qed.
(* ... the same under the projection contract trunc_ok *)
Theorem C17_core_tt_to_qtt_error_proj_R : forall (msvd : nat -> mat R -> mat R * mat R) (G : core R) k Qs (e : R),
  (0 <= e)%R -> cn G = 2 ^ S k -> 0 < cr1 G ->
  calls_all OR (fun M U V => trunc_ok OR M U V /\ (res2 OR M U V <= e * e)%R) msvd G (S k) ->
  core_tt_to_qtt OR msvd G = Ok Qs ->
  (sqrt (core_err2 OR G Qs (S k)) <= sqrt (INR (S k)) * e)%R /\
  (sqrt (cdist2 OR G (merged OR Qs)) <= sqrt (INR (S k)) * e)%R.
Proof. exact core_tt_to_qtt_bound_proj. Qed.

(* the MODEL of teneva.matrix_svd (Model/Svd.v) as the factorisation, the same e and r at every call as in
   core_tt_to_qtt(G, e, r), for every eigh / argsort routine meeting their contracts, non-empty boundary ranks and a cap
   above r1 * n (so it never binds): the run succeeds and the Frobenius distance is <= sqrt(d) e *)
Theorem C17_core_tt_to_qtt_error_matrix_svd :
  forall (eigh : nat -> mat R -> list R * mat R) (argsort : nat -> list R -> list nat),
  (forall k C, msym C -> eigh_ok C (fst (eigh k C)) (snd (eigh k C))) ->
  (forall k l, argsort_ok l (argsort k l)) ->
  forall (G : core R) k (e : R) (rcap : Z), (0 <= e)%R -> cn G = 2 ^ S k -> 1 <= cr1 G -> 1 <= cr2 G ->
  (Z.of_nat (cr1 G * cn G) < rcap)%Z ->
  exists Qs, core_tt_to_qtt OR (fun c M => matrix_svd OR eigh argsort c M e rcap) G = Ok Qs /\
    length Qs = S k /\ chain (cr1 G) Qs (cr2 G) /\ Forall (fun Q => cn Q = 2) Qs /\
    (core_err2 OR G Qs (S k) <= INR (S k) * (e * e))%R /\
    (sqrt (core_err2 OR G Qs (S k)) <= sqrt (INR (S k)) * e)%R /\
    (sqrt (cdist2 OR G (merged OR Qs)) <= sqrt (INR (S k)) * e)%R.
Proof. exact core_tt_to_qtt_matrix_svd. Qed.

(* non-vacuity: trunc_ok is met, for every A, by the projection on the rows of any V with orthonormal rows; and a
   concrete run over Qc on a 1 x 4 x 2 core in which both calls cut something (rows (3/5, 4/5) and (4/5, 3/5)):
   residuals 51 and 229/5, squared error of the chain 484/5 = their sum *)
Example C17_trunc_ok_example : forall T (K : ops T) (A V : mat T), mc V = mc A ->
  (forall c c', c < mr V -> c' < mr V ->
     bsum K (mc V) (fun t => omul K (mget K V c t) (mget K V c' t)) = if Nat.eqb c c' then o1 K else o0 K) ->
  trunc_ok K A (mmul K A (mtrans K V)) V.
Proof. intros T K A V. exact (trunc_ok_proj K A V). Qed.
Example C17_trunc_error_example :
  calls_all OQc (trunc_ok OQc) exsvd exG 2 /\
  match core_tt_to_qtt OQc exsvd exG with
  | Ok Qs => length Qs = 2 /\
             Qcanon.this (core_err2 OQc exG Qs 2) = QArith_base.Qmake 484 5 /\
             Qcanon.this (calls_res OQc exsvd exG 2) = QArith_base.Qmake 484 5 /\
             Qcanon.this (calls_res OQc exsvd exG 1) = QArith_base.Qmake 51 1
  | Err _ => False
  end.
Proof. exact trunc_example. Qed.

(* ------------------------------------------------------------------------------------------------------------
   The WHOLE-TENSOR error of tt_to_qtt over several cores, at the reals (Proofs/QttErrTotP.v, Proofs/L2RP.v).
     Y = [G_1 .. G_d], boundary ranks 1, every mode size 2^(q+1); core j is converted on its own with the routine
     msvd2 j;  cores_all msvd2 H 0 Y = H (msvd2 j) G_j for every j;  core_hyp P q sv G = the hypotheses of
     C17_core_tt_to_qtt_error_R for the core G: mode size 2^(q+1), 0 < cr1 G, P at every call the run on G makes.
     cnorm G = Frobenius norm of the core;  c = sqrt(q+1) e = the per-core bound;
     pbound c [] = 0,  pbound c (G :: Y') = c * cprod Y' + (cnorm G + c) * pbound c Y',  cprod = product of the cnorm's:
        pbound c Y = sum_j c * prod_{l<j} (|G_l| + c) * prod_{l>j} |G_l|
     sbound c Y (same recursion with cprodc = product of the (cnorm + c)) = sum_j c * prod_{l<>j} (|G_l| + c)
     is the symmetric weaker form used by the numerical search.
   Proof: replace the cores one at a time (telescoping), Cauchy-Schwarz at each bond, Minkowski for the sum. *)
From TV Require Import Proofs.L2RP Proofs.QttErrTotP Proofs.QttErrTotEx.

Theorem C17_tt_to_qtt_error_R : forall (msvd2 : nat -> nat -> mat R -> mat R * mat R) q (e : R) (Y Z : list (core R)),
  (0 <= e)%R -> chain 1 Y 1 ->
  cores_all msvd2 (core_hyp (fun M U V => fact_ok OR M U V /\ (res2 OR M U V <= e * e)%R) q) 0 Y ->
  tt_to_qtt OR msvd2 Y = Ok Z ->
  length Z = length Y * S q /\ chain 1 Z 1 /\ Forall (fun Q => cn Q = 2) Z /\
  (sqrt (msum OR (shape Y) (fun idx =>
           (get OR Y idx - get OR Z (flat_map (bits_le (S q)) idx)) *
           (get OR Y idx - get OR Z (flat_map (bits_le (S q)) idx)))) <= pbound (sqrt (INR (S q)) * e) Y)%R /\
  (pbound (sqrt (INR (S q)) * e) Y <= sbound (sqrt (INR (S q)) * e) Y)%R.
Proof. exact tt_to_qtt_err_R. Qed.
(* ... the same under the projection contract trunc_ok *)
Theorem C17_tt_to_qtt_error_proj_R : forall (msvd2 : nat -> nat -> mat R -> mat R * mat R) q (e : R) (Y Z : list (core R)),
  (0 <= e)%R -> chain 1 Y 1 ->
  cores_all msvd2 (core_hyp (fun M U V => trunc_ok OR M U V /\ (res2 OR M U V <= e * e)%R) q) 0 Y ->
  tt_to_qtt OR msvd2 Y = Ok Z ->
  (sqrt (msum OR (shape Y) (fun idx =>
           (get OR Y idx - get OR Z (flat_map (bits_le (S q)) idx)) *
           (get OR Y idx - get OR Z (flat_map (bits_le (S q)) idx)))) <= pbound (sqrt (INR (S q)) * e) Y)%R.
Proof. exact tt_to_qtt_err_proj_R. Qed.

(* the perturbation bound behind it, for any two chains whose cores have the same shapes and are pairwise at
   Frobenius distance <= c (cnear): left rank r, closed on the right *)
Theorem C17_chain_perturbation : forall (c : R), (0 <= c)%R -> forall Y W : list (core R), Forall2 (cnear c) Y W ->
  forall r, chain r Y 1 -> chain r W 1 -> (sqrt (td2 r Y W) <= pbound c Y)%R.
Proof. exact chain_pert. Qed.
(* sub-multiplicativity of the Frobenius norm along a chain *)
Theorem C17_chain_norm : forall (Y : list (core R)) r, chain r Y 1 -> (sqrt (tn2 r Y) <= cprod Y)%R.
Proof. exact tn2_le_cprod. Qed.

(* the MODEL of teneva.matrix_svd on every core (tt_to_qtt(Y, e, r): the same e and r everywhere), for every eigh /
   argsort routine meeting their contracts, ranks >= 1 and a cap above r1 * n of every core (it never binds):
   the conversion succeeds and the whole-tensor Frobenius error is <= pbound (sqrt(q+1) e) Y *)
Theorem C17_tt_to_qtt_error_matrix_svd :
  forall (eigh : nat -> nat -> mat R -> list R * mat R) (argsort : nat -> nat -> list R -> list nat),
  (forall k c C, msym C -> eigh_ok C (fst (eigh k c C)) (snd (eigh k c C))) ->
  (forall k c l, argsort_ok l (argsort k c l)) ->
  forall q (e : R) (rcap : Z) (Y : list (core R)), (0 <= e)%R -> chain 1 Y 1 ->
  Forall (fun G => cn G = 2 ^ S q /\ 1 <= cr1 G /\ 1 <= cr2 G /\ (Z.of_nat (cr1 G * cn G) < rcap)%Z) Y ->
  exists Z, tt_to_qtt OR (fun k c M => matrix_svd OR (eigh k) (argsort k) c M e rcap) Y = Ok Z /\
    length Z = length Y * S q /\ chain 1 Z 1 /\ Forall (fun Q => cn Q = 2) Z /\
    (sqrt (msum OR (shape Y) (fun idx =>
             (get OR Y idx - get OR Z (flat_map (bits_le (S q)) idx)) *
             (get OR Y idx - get OR Z (flat_map (bits_le (S q)) idx)))) <= pbound (sqrt (INR (S q)) * e) Y)%R /\
    (pbound (sqrt (INR (S q)) * e) Y <= sbound (sqrt (INR (S q)) * e) Y)%R.
Proof. exact tt_to_qtt_matrix_svd. Qed.

(* non-vacuity: two cores (1 x 2 x 2, 2 x 2 x 1) over R, projection oracle; core 0 is genuinely truncated (its 2 x 2
   unfolding is projected on the row (3/5, 4/5), residual 25 = e^2 with e = 5), core 1 is kept; every hypothesis of
   C17_tt_to_qtt_error_proj_R holds and the conversion returns *)
Example C17_tt_to_qtt_error_example :
  chain 1 exY 1 /\
  cores_all exsvd2 (core_hyp (fun M U V => trunc_ok OR M U V /\ (res2 OR M U V <= 5 * 5)%R) 0) 0 exY /\
  res2 OR (unfold_rows OR exG1) (fst (exsvd2 0 0 (unfold_rows OR exG1))) (snd (exsvd2 0 0 (unfold_rows OR exG1))) = 25%R /\
  exists Z, tt_to_qtt OR exsvd2 exY = Ok Z.
Proof. exact tot_example. Qed.
