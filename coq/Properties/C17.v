(* C17 — QTT conversion and index maps.  Only statements, each closed by [exact]. *)
From Coq Require Import List Arith Lia PeanoNat.
From TV Require Import Num.Ops Model.GridInd Proofs.GridIndP.
Import ListNotations.

(* multi-index -> bits -> multi-index, every d = length idx, every q >= 1 *)
Theorem C17_ind_tt_qtt_tt : forall q idx, 1 <= q -> Forall (fun i => i < 2 ^ q) idx ->
  exists b, ind_tt_to_qtt1 (2 ^ q) idx = Ok b /\ length b = length idx * q /\
            Forall (fun x => x < 2) b /\ ind_qtt_to_tt1 q b = Ok idx.
Proof. exact tt_qtt_tt. Qed.

(* bits -> multi-index -> bits *)
Theorem C17_ind_qtt_tt_qtt : forall q d b, 1 <= q -> length b = d * q -> Forall (fun x => x < 2) b ->
  exists idx, ind_qtt_to_tt1 q b = Ok idx /\ length idx = d /\ Forall (fun i => i < 2 ^ q) idx /\
              ind_tt_to_qtt1 (2 ^ q) idx = Ok b.
Proof. exact qtt_tt_qtt. Qed.

(* non-power-of-two mode size is rejected with ValueError, whatever the index *)
Theorem C17_ind_rejects : forall n idx, (forall q, n <> 2 ^ q) -> ind_tt_to_qtt1 n idx = Err ValueError.
Proof. exact tt_to_qtt_rejects. Qed.

(* non-vacuity: a concrete instance of the hypotheses and the computed maps *)
Example C17_ind_example :
  ind_tt_to_qtt1 8 [5; 0; 6] = Ok [1; 0; 1; 0; 0; 0; 0; 1; 1] /\
  ind_qtt_to_tt1 3 [1; 0; 1; 0; 0; 0; 0; 1; 1] = Ok [5; 0; 6] /\
  ind_tt_to_qtt1 6 [1] = Err ValueError.
Proof. repeat split. Qed.
