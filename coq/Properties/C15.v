(* C15 — optimum search.  Only statements, each closed by [exact]. *)
From Coq Require Import List Arith Lia PeanoNat ZArith.
From TV Require Import Num.Ops Lin.Tab Lin.Mat TT.Chain Model.ActOne Model.Optima Proofs.ActOneP2 Proofs.OptimaP.
Import ListNotations.

(* beam invariant (Kronecker bookkeeping), any commutative ring, both directions, any selection that
   indexes into its argument: every row of the final table is in bounds and the carried entry is
   s^d times the tensor entry at that row *)
Theorem C15_beam_rows : forall {T} (K : ops T), rng K ->
  forall (argsort : nat -> list T -> list nat),
  (forall c l, Forall (fun t => t < length l) (argsort c l)) ->
  forall cs (Z : list (core T)) k l2r s, chain 1 Z 1 -> Z <> [] ->
  let st := beam_run K argsort cs Z k l2r s in
  qcount l2r (st_mat st) = length (st_tab st) /\
  forall t, t < length (st_tab st) ->
    inb (shape Z) (nth t (st_tab st) []) /\
    qent K l2r (st_mat st) t O = omul K (pown K s (length Z)) (get K Z (nth t (st_tab st) [])).
Proof. exact @beam_rows. Qed.
