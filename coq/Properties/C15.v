(* C15 — optimum search.  Only statements, each closed by [exact]. *)
From Coq Require Import List Arith Lia PeanoNat ZArith Reals Permutation.
From TV Require Import Num.Ops Lin.Tab Lin.Mat TT.Chain Model.ActOne Model.Optima Proofs.ActOneP2
  Model.GridInd Model.OptimaFunc Proofs.OptimaP Proofs.OptimaP2 Proofs.OptimaRP Proofs.OptimaQP Proofs.OptimaExP Proofs.OptimaFuncP Proofs.OptimaFuncAP Proofs.OptimaFuncR1P.
Import ListNotations.

(* beam_inv (Kronecker bookkeeping): any commutative ring, both sweep directions, ANY selection that indexes into its
   argument: every row of the final table is in bounds and the carried entry is s^d times the tensor entry at that row *)
Theorem C15_beam_inv : forall {T} (K : ops T), rng K ->
  forall (argsort : nat -> list T -> list nat),
  (forall c l, Forall (fun t => t < length l) (argsort c l)) ->
  forall cs (Z : list (core T)) k l2r s, chain 1 Z 1 -> Z <> [] ->
  let st := beam_run K argsort cs Z k l2r s in
  qcount l2r (st_mat st) = length (st_tab st) /\
  forall t, t < length (st_tab st) ->
    inb (shape Z) (nth t (st_tab st) []) /\
    qent K l2r (st_mat st) t O = omul K (pown K s (length Z)) (get K Z (nth t (st_tab st) [])).
Proof. exact @beam_rows. Qed.

(* the returned first row exists and is in bounds for every k >= 1 (argsort returns a permutation) *)
Theorem C15_beam_first_inb : forall {T} (K : ops T), rng K ->
  forall (argsort : nat -> list T -> list nat), argsort_perm argsort ->
  forall cs (Z : list (core T)) k l2r s, chain 1 Z 1 -> Z <> [] ->
  Forall (fun n => 1 <= n) (shape Z) -> 1 <= k ->
  inb (shape Z) (hd [] (st_tab (beam_run K argsort cs Z k l2r s))).
Proof. exact @beam_first_inb. Qed.

(* beam_full_exact (reals): k >= number of elements, either direction: the first row has maximal modulus *)
Theorem C15_beam_full_exact : forall argsort, argsort_ok argsort ->
  forall cs (Z : list (core R)) k l2r s, s <> 0%R -> chain 1 Z 1 -> 2 <= length Z ->
  Forall (fun n => 1 <= n) (shape Z) -> nel (shape Z) <= k ->
  let i0 := hd [] (st_tab (beam_run OR argsort cs Z k l2r s)) in
  inb (shape Z) i0 /\ forall idx, inb (shape Z) idx -> (Rabs (get OR Z idx) <= Rabs (get OR Z i0))%R.
Proof. exact beam_full_exact. Qed.

(* beam_rank1_exact (reals): all TT-ranks 1, ANY k >= 1, either direction *)
Theorem C15_beam_rank1_exact : forall argsort, argsort_ok argsort ->
  forall cs (Z : list (core R)) k l2r s, s <> 0%R -> chain 1 Z 1 -> 2 <= length Z ->
  Forall (fun n => 1 <= n) (shape Z) -> Forall (fun G => cr1 G = 1 /\ cr2 G = 1) Z -> 1 <= k ->
  let i0 := hd [] (st_tab (beam_run OR argsort cs Z k l2r s)) in
  inb (shape Z) i0 /\ forall idx, inb (shape Z) idx -> (Rabs (get OR Z idx) <= Rabs (get OR Z i0))%R.
Proof. exact beam_rank1_exact. Qed.

(* optima_tt_max (orthogonalize, both directions, best of two): index in bounds, value = entry; maximal modulus
   when k >= number of elements or the tensor has rank 1 *)
Theorem C15_optima_tt_max_exact : forall argsort, argsort_ok argsort -> forall orth, orth_ok orth ->
  forall pow2frac, (forall p d, pow2frac p d <> 0%R) ->
  forall co cs (Y : list (core R)) k, good Y -> exact_cond Y k ->
  let r := optima_tt_max OR argsort orth pow2frac co cs Y k in
  inb (shape Y) (fst r) /\ snd r = get OR Y (fst r) /\
  forall idx, inb (shape Y) idx -> (Rabs (get OR Y idx) <= Rabs (snd r))%R.
Proof. exact optima_tt_max_exact. Qed.

(* values_true for optima_tt, every k >= 1: indices in bounds, values are the entries there, y_min <= y_max *)
Theorem C15_optima_tt_values : forall argsort, argsort_ok argsort -> forall orth, orth_ok orth ->
  forall pow2frac droot,
  forall co cs (Y : list (core R)) k, good Y -> 1 <= k ->
  let r := optima_tt OR argsort orth pow2frac droot co cs Y k in
  inb (shape Y) (r_imin r) /\ inb (shape Y) (r_imax r) /\
  r_ymin r = get OR Y (r_imin r) /\ r_ymax r = get OR Y (r_imax r) /\ (r_ymin r <= r_ymax r)%R.
Proof. exact optima_tt_values. Qed.

(* minmax_from_absmax: the order argument of the squared shifted step, any sign pattern, ties, constants *)
Theorem C15_minmax_from_absmax : forall (D : list nat -> Prop) (f : list nat -> R) i1 i2,
  D i1 -> D i2 -> (forall idx, D idx -> (Rabs (f idx) <= Rabs (f i1))%R) ->
  (forall idx, D idx -> (Rabs ((f idx - f i1) * (f idx - f i1)) <= Rabs ((f i2 - f i1) * (f i2 - f i1)))%R) ->
  forall idx, D idx ->
    if Rltb (f i1) (f i2) then (f i1 <= f idx <= f i2)%R else (f i2 <= f idx <= f i1)%R.
Proof. exact minmax_core. Qed.

(* optima_tt with k >= number of elements reports the true minimum and the true maximum *)
Theorem C15_optima_tt_exact_full : forall argsort, argsort_ok argsort -> forall orth, orth_ok orth ->
  forall pow2frac, (forall p d, pow2frac p d <> 0%R) -> forall droot,
  forall co cs (Y : list (core R)) k, good Y -> droot_ok droot -> nel (shape Y) <= k ->
  let r := optima_tt OR argsort orth pow2frac droot co cs Y k in
  forall idx, inb (shape Y) idx -> (r_ymin r <= get OR Y idx <= r_ymax r)%R.
Proof. exact optima_tt_exact_full. Qed.

(* qtt_agrees: optima_qtt is optima_tt on the quantised tensor, both indices mapped back through ind_qtt_to_tt; indices in the
   bounds of Y, values are the entries of Y there, min <= max; every k >= 1, every q >= 1, every d >= 2 *)
Theorem C15_qtt_agrees : forall argsort, argsort_ok argsort -> forall orth, orth_ok orth ->
  forall pow2frac droot to_qtt co cs (Y : list (core R)) q d k,
  qtt_ok_at to_qtt Y q d -> good Y -> shape Y = repeat (2 ^ q) d -> 1 <= q -> 1 <= k ->
  let rq := optima_tt OR argsort orth pow2frac droot co cs (to_qtt Y) k in
  exists jmin jmax,
    optima_qtt OR argsort orth pow2frac droot to_qtt co cs Y k = Ok (jmin, get OR Y jmin, jmax, get OR Y jmax) /\
    ind_qtt_to_tt1 q (r_imin rq) = Ok jmin /\ ind_qtt_to_tt1 q (r_imax rq) = Ok jmax /\
    inb (shape Y) jmin /\ inb (shape Y) jmax /\
    get OR Y jmin = r_ymin rq /\ get OR Y jmax = r_ymax rq /\ (get OR Y jmin <= get OR Y jmax)%R.
Proof. exact qtt_agrees. Qed.

(* the quantised variant with k >= number of elements reports the true minimum and maximum of Y *)
Theorem C15_optima_qtt_exact_full : forall argsort, argsort_ok argsort -> forall orth, orth_ok orth ->
  forall pow2frac droot to_qtt co cs (Y : list (core R)) q d k,
  (forall p e, pow2frac p e <> 0%R) -> droot_ok droot -> qtt_ok_at to_qtt Y q d ->
  good Y -> shape Y = repeat (2 ^ q) d -> 1 <= q -> nel (shape Y) <= k ->
  exists jmin jmax,
    optima_qtt OR argsort orth pow2frac droot to_qtt co cs Y k = Ok (jmin, get OR Y jmin, jmax, get OR Y jmax) /\
    inb (shape Y) jmin /\ inb (shape Y) jmax /\
    forall idx, inb (shape Y) idx -> (get OR Y jmin <= get OR Y idx <= get OR Y jmax)%R.
Proof. exact optima_qtt_exact_full. Qed.

(* for EVERY quantisation (any to_qtt: coarse e, rank caps; no contract): whenever optima_qtt returns, its values are the entries of
   Y at the returned indices and the reported minimum does not exceed the reported maximum (the swap of commit 285e9fd) *)
Theorem C15_optima_qtt_ordered : forall argsort orth pow2frac droot to_qtt co cs (Y : list (core R)) k res,
  optima_qtt OR argsort orth pow2frac droot to_qtt co cs Y k = Ok res ->
  r_ymin res = get OR Y (r_imin res) /\ r_ymax res = get OR Y (r_imax res) /\ (r_ymin res <= r_ymax res)%R.
Proof. exact optima_qtt_ordered. Qed.

(* unequal mode sizes, a mode size that is not a power of two, or mode size 1: ValueError *)
Theorem C15_optima_qtt_rejects : forall argsort orth pow2frac droot to_qtt co cs (Y : list (core R)) k,
  (exists n, In n (tl (shape Y)) /\ n <> hd O (shape Y)) \/ (forall q, hd O (shape Y) <> 2 ^ q) \/ hd O (shape Y) = 1 ->
  optima_qtt OR argsort orth pow2frac droot to_qtt co cs Y k = Err ValueError.
Proof. exact optima_qtt_rejects. Qed.

(* functional variant, PARTIAL: every returned point (ret_all or not) has all coordinates in [-1, 1], for ANY behaviour of
   polyroots, of both argsort calls and of the linear algebra producing the squared partial interpolants.  Missing: that the
   rank-1 interpolant attains its maximum modulus there (needs an exact root oracle; validated against a fine grid only) *)
Theorem C15_func_points_in_cube_partial : forall roots argsort1 argsort2 sqpolys d k k_loc,
  in_cube (optima_func_all OR roots argsort1 argsort2 sqpolys d k k_loc) /\
  Forall in11 (optima_func_tt_beam OR roots argsort1 argsort2 sqpolys d k k_loc).
Proof. exact func_points_in_cube. Qed.
(* ... and has exactly d coordinates, provided the argsort over all candidates indexes into its argument and there is one
   squared interpolant per kept point (both are facts about the replayed run, compared in the correspondence) *)
Theorem C15_func_points_dim : forall roots argsort1 argsort2 sqpolys,
  (forall s l, Forall (fun t => t < length l) (argsort2 s l)) -> forall k k_loc,
  (forall s, length (sqpolys (S s)) = length (func_step OR roots argsort1 argsort2 sqpolys s None k k_loc)) ->
  forall d, Forall (fun r => length r = d) (optima_func_all OR roots argsort1 argsort2 sqpolys d k k_loc).
Proof. exact func_points_dim. Qed.
(* a constant squared interpolant (mode size 1, vanishing partial interpolant): polyroots is not consulted and the candidates
   are the two end points (the branch added by commit 7bc82cb) *)
Theorem C15_func_constant_poly : forall roots s i (c : R), cand_points OR roots s i [c] = [m1 OR; o1 OR].
Proof. exact cand_constant. Qed.

(* the candidate list of _find_poly_max (end points + real roots of the derivative inside [-1,1]) carries a maximiser of |p| over
   [-1, 1], for every polynomial p of the domain on which polyroots is complete (extreme value theorem + Fermat, Coq Ranalysis) *)
Theorem C15_func_cand_absmax : forall (Dom : list R -> Prop) roots, roots_ok_on Dom roots ->
  forall s i p z, Dom (polyder OR p) -> in11 z ->
  exists c, In c (cand_points OR roots s i p) /\ (Rabs (polyval OR p z) <= Rabs (polyval OR p c))%R.
Proof. exact cand_absmax. Qed.

(* func_rank1_exact (cond: complete root oracle on the derivatives of the squared scaled factors; both argsorts sort; k >= 1,
   k_loc >= 1): on the rank-1 path (Model/OptimaFunc.v, func_step_r1) the returned point has one coordinate per mode, lies in
   [-1, 1]^d and the interpolant prod_s f_s(z_s) attains its maximum modulus over the cube there; every d, every degree *)
Theorem C15_func_rank1_exact : forall roots argsort1 argsort2 (fs : list (list R)) k kl,
  roots_ok_on (dom_r1 fs) roots -> (forall s, argsort_ok (argsort1 s)) -> argsort_ok argsort2 -> 1 <= k -> 1 <= kl ->
  let x := optima_func_r1 OR roots argsort1 argsort2 fs k kl in
  length x = length fs /\ Forall in11 x /\
  forall z, length z = length fs -> Forall in11 z -> (Rabs (prodf OR fs z) <= Rabs (prodf OR fs x))%R.
Proof. exact func_rank1_exact. Qed.

(* ---- non-vacuity ---- *)
(* the oracle contracts can be met: stable insertion sort, identity gauge, Rpower x (1/d), constant 1 *)
Example C15_contracts_satisfiable : exists argsort orth droot (pow2frac : Z -> nat -> R),
  argsort_ok argsort /\ orth_ok orth /\ droot_ok droot /\ (forall p d, pow2frac p d <> 0%R).
Proof. exact contracts_satisfiable. Qed.
(* concrete tensors: rank 1 of shape [3;2;3] with k = 1, rank 2 of shape [2;2] with k = 4 = number of elements *)
Example C15_example_good :
  good Y_r1 /\ rank1 Y_r1 /\ exact_cond Y_r1 1 /\ good Y_r2 /\ ~ rank1 Y_r2 /\ exact_cond Y_r2 4.
Proof. exact example_good. Qed.
Example C15_example_qtt : good Y_r2 /\ shape Y_r2 = repeat (2 ^ 1) 2 /\ qtt_ok_at (fun Y => Y) Y_r2 1 2.
Proof. exact example_qtt. Qed.

(* ---- refutation of "rank 1 => true minimum AND maximum for every k" (known finding C15/rank1-minmax-second-beam) ----
   exact arithmetic (Qc), k = 1, tensor [-2,-1] x [-4,0] x [1,1], oracles meeting the contracts (identity gauge, sorting
   permutation, 2^(p/d) = 1, 8^(1/3) = 2): optima_tt reports the minimum 4 at [1;0;1], the entry at [0;1;0] is 0 *)
Example C15_rank1_minmax_refuted :
  Forall (fun G => cr1 G = 1 /\ cr2 G = 1) Y_ref /\
  fst (fst (fst ref_result)) = [1; 0; 1] /\
  Qc_eqb (snd (fst (fst ref_result))) (qz 4) = true /\ Qc_eqb (get OQc Y_ref [1; 0; 1]) (qz 4) = true /\
  Qc_eqb (get OQc Y_ref [0; 1; 0]) (qz 0) = true /\
  Qc_ltb (get OQc Y_ref [0; 1; 0]) (snd (fst (fst ref_result))) = true /\
  Qc_eqb (omul OQc (qz 2) (omul OQc (qz 2) (qz 2))) (qz 8) = true.
Proof. exact rank1_minmax_refuted. Qed.

(* functional variant: factor x^2 - 1/4 in two modes, the explicit complete root oracle [0; 1/2; -1/2], insertion-sort argsorts *)
Example C15_example_func_rank1 :
  roots_ok_on (dom_r1 [f_quad; f_quad]) roots_quad /\
  (forall s : nat, argsort_ok ((fun _ _ l => argsort_ins OR l) s)) /\ argsort_ok (fun _ l => argsort_ins OR l) /\
  let x := optima_func_r1 OR roots_quad (fun _ _ l => argsort_ins OR l) (fun _ l => argsort_ins OR l) [f_quad; f_quad] 1 1 in
  forall z, length z = 2 -> Forall in11 z -> (Rabs (prodf OR [f_quad; f_quad] z) <= Rabs (prodf OR [f_quad; f_quad] x))%R.
Proof. exact func_rank1_example. Qed.
