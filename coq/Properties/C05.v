(* C05 — TT-cross reproduces low-rank tensors and caching is transparent.
   Only statements, each closed by [exact].  State-machine part: the model is Model/Cross.v; every theorem quantifies
   over the callback, the numeric kernel (opaque payload P), the configuration C (initial tensor shapes of any
   dimension / mode sizes / ranks, stop arguments, rank-growth window) and the number of sweeps allowed (fuel). *)
From Coq Require Import List Arith Lia PeanoNat Bool ZArith.
From TV Require Import Num.Ops Model.Cross Proofs.CrossIdx Proofs.CrossGeo Proofs.CrossP Proofs.Cross05P
  Proofs.Cross05PSim.
Import ListNotations.

Section C05.
Context {T : Type} (K : ops T) {P : Type}.
Variable isinf : T -> bool.
Variable cb : option (nat -> bool).
Variable pones : P.
Variable pdotL pdotR : P -> P -> P.
Variable pvals : nat -> nat -> nat -> list T -> P.
Variable pick : nat -> bool -> nat -> nat -> nat -> P -> nat -> nat -> list nat.
Variable pcoreG pfacR : bool -> nat -> nat -> nat -> P -> list nat -> P.
Variable erank : nat -> list (@mcore P) -> T.
Variable accuracy : nat -> list (@mcore P) -> list (@mcore P) -> T.
Variable accdata : nat -> list (@mcore P) -> T.
Notation crossm f C := (cross_m K isinf f cb pones pdotL pdotR pvals pick pcoreG pfacR erank accuracy accdata C).
Notation runm f C := (run K isinf f cb pones pdotL pdotR pvals pick pcoreG pfacR erank accuracy accdata C).

(* ---- cache transparency, one call of _func_eval: for an objective that is a function g of the multi-index, a
   counter record without cache (cu) and one with a g-consistent cache (cc), same stop field, m_cached <= m_uncached:
   either the uncached call is refused for the budget, or both calls return exactly the g-values of the requested
   indices, and the relation (consistent cache, equal stop, m_cached <= m_uncached, m_cache of the uncached run 0)
   holds again *)
Theorem C05_func_eval_transparent :
  forall (g : row -> T) (f : nat -> rows -> option (list T)), (forall k I, f k I = Some (map g I)) ->
  forall (C : @cfg T P) (cu cc : @cnt T) (I : rows), Rc K g cu cc ->
  (k_stop (fst (func_eval K f C cu I)) = Some Sm /\ snd (func_eval K f C cu I) = None) \/
  (Rc K g (fst (func_eval K f C cu I)) (fst (func_eval K f C cc I)) /\
   snd (func_eval K f C cu I) = Some (map g I) /\ snd (func_eval K f C cc I) = Some (map g I) /\
   k_stop (fst (func_eval K f C cu I)) = k_stop cu).
Proof. exact (func_eval_sim K). Qed.

(* ---- cache transparency, whole run: same arguments, once without cache and once with a dictionary ch0 consistent
   with g (e.g. empty).  If the uncached run returns without hitting the budget and the cached run does not end by the
   cache-specific "conv" rule, the cached run returns too, with the same cores, previous-sweep cores, index sets,
   sweep count, stop reason and info values r / e / e_vld; it has evaluated at most as many indices (info.m), the
   uncached run has m_cache = 0, and the final dictionary is consistent with g *)
Theorem C05_cache_transparent :
  forall (g : row -> T) (f : nat -> rows -> option (list T)), (forall k I, f k I = Some (map g I)) ->
  forall (C : @cfg T P) (ch0 : @cachet T), cache_ok K g ch0 ->
  forall fuel su,
  crossm f (set_cache C None) fuel = Ok su -> k_stop (sK su) <> Some Sm ->
  k_stop (sK (runm f (set_cache C (Some ch0)) fuel)) <> Some Sconv ->
  exists sc, crossm f (set_cache C (Some ch0)) fuel = Ok sc /\
    sY sc = sY su /\ sYold sc = sYold su /\ sIr sc = sIr su /\ sIc sc = sIc su /\
    s_nswp sc = s_nswp su /\ k_stop (sK sc) = k_stop (sK su) /\
    s_r sc = s_r su /\ s_e sc = s_e su /\ s_evld sc = s_evld su /\
    k_m (sK sc) <= k_m (sK su) /\ k_mc (sK su) = 0 /\
    (exists ch, k_cache (sK sc) = Some ch /\ cache_ok K g ch).
Proof. exact (cache_transparent K isinf cb pones pdotL pdotR pvals pick pcoreG pfacR erank accuracy accdata). Qed.

(* ---- the dictionary: at every exit of every run (any objective, incl. None answers and budget stops) the cache is
   the initial dictionary updated, in call order, with the index -> value pairs of every successful call of the
   objective — nothing else is ever written; a run without cache has none *)
Theorem C05_cache_content :
  forall (f : nat -> rows -> option (list T)) (C : @cfg T P) fuel s,
  crossm f C fuel = Ok s ->
  k_cache (sK s) = match c_cache C with Some ch0 => Some (replay_cache (fcalls (sK s)) ch0) | None => None end.
Proof. exact (cache_content K isinf cb pones pdotL pdotR pvals pick pcoreG pfacR erank accuracy accdata). Qed.

(* key set of that dictionary: the initial keys and the evaluated multi-indices *)
Theorem C05_cache_keys :
  forall (j : row) (calls : list (rows * option (list T))) (ch0 : @cachet T),
  cmem j (replay_cache calls ch0) =
  existsb (fun q => match snd q with Some y => existsb (fun p => row_eqb j (fst p)) (combine (fst q) y)
                                | None => false end) calls || cmem j ch0.
Proof. exact cmem_replay. Qed.

(* ---- info describes the returned tensor: at every exit (normal, budget, None, callback) info.r is the effective
   rank of the returned cores, info.e the accuracy of the returned cores against the cores saved at the start of the
   last sweep, info.e_vld the validation error of the returned cores (-1 without validation data); each taken from the
   last call of the respective routine *)
Theorem C05_info_consistent :
  forall (f : nat -> rows -> option (list T)) (C : @cfg T P) fuel s,
  crossm f C fuel = Ok s ->
  s_r s = erank (s_ne s) (sY s) /\ s_e s = accuracy (s_ne s) (sY s) (sYold s) /\
  s_evld s = accdata_m K accdata C (s_ne s) (sY s).
Proof. exact (info_consistent K isinf cb pones pdotL pdotR pvals pick pcoreG pfacR erank accuracy accdata). Qed.
End C05.
