(* C05 — TT-cross reproduces low-rank tensors and caching is transparent.
   Only statements, each closed by [exact].  State-machine part: the model is Model/Cross.v; every theorem quantifies
   over the callback, the numeric kernel (opaque payload P), the configuration C (initial tensor shapes of any
   dimension / mode sizes / ranks, stop arguments, rank-growth window) and the number of sweeps allowed (fuel). *)
From Coq Require Import List Arith Lia PeanoNat Bool ZArith.
From TV Require Import Num.Ops Lin.BigSum Lin.Mat TT.Chain Model.Cross Model.CrossNum Proofs.CrossIdx Proofs.CrossGeo
  Proofs.CrossP Proofs.Cross05P Proofs.Cross05PSim Proofs.Cross05PInterp Proofs.Cross05PNum Proofs.Cross05PRtl
  Proofs.Cross05PEx.
Import ListNotations.

Section C05.
Context {T : Type} (K : ops T) {P : Type}.
Variable isinf : T -> bool.
Variable cb : option (nat -> bool).
Variable pones : P.
Variable pdotL pdotR : P -> P -> P.
Variable pvals : nat -> nat -> nat -> list T -> P.
Variable pick : nat -> bool -> nat -> nat -> nat -> P -> nat -> nat -> list nat.
Variable pcoreG pfacR : bool -> nat -> nat -> nat -> P -> list nat -> P.
Variable erank : nat -> list (@mcore P) -> T.
Variable accuracy : nat -> list (@mcore P) -> list (@mcore P) -> T.
Variable accdata : nat -> list (@mcore P) -> T.
Notation crossm f C := (cross_m K isinf f cb pones pdotL pdotR pvals pick pcoreG pfacR erank accuracy accdata C).
Notation runm f C := (run K isinf f cb pones pdotL pdotR pvals pick pcoreG pfacR erank accuracy accdata C).

(* ---- cache transparency, one call of _func_eval: for an objective that is a function g of the multi-index, a
   counter record without cache (cu) and one with a g-consistent cache (cc), same stop field, m_cached <= m_uncached:
   either the uncached call is refused for the budget, or both calls return exactly the g-values of the requested
   indices, and the relation (consistent cache, equal stop, m_cached <= m_uncached, m_cache of the uncached run 0)
   holds again *)
Theorem C05_func_eval_transparent :
  forall (g : row -> T) (f : nat -> rows -> option (list T)), (forall k I, f k I = Some (map g I)) ->
  forall (C : @cfg T P) (cu cc : @cnt T) (I : rows), Rc K g cu cc ->
  (k_stop (fst (func_eval K f C cu I)) = Some Sm /\ snd (func_eval K f C cu I) = None) \/
  (Rc K g (fst (func_eval K f C cu I)) (fst (func_eval K f C cc I)) /\
   snd (func_eval K f C cu I) = Some (map g I) /\ snd (func_eval K f C cc I) = Some (map g I) /\
   k_stop (fst (func_eval K f C cu I)) = k_stop cu).
Proof. exact (func_eval_sim K). Qed.

(* ---- cache transparency, whole run: same arguments, once without cache and once with a dictionary ch0 consistent
   with g (e.g. empty).  If the uncached run returns without hitting the budget and the cached run does not end by the
   cache-specific "conv" rule, the cached run returns too, with the same cores, previous-sweep cores, index sets,
   sweep count, stop reason and info values r / e / e_vld; it has evaluated at most as many indices (info.m), the
   uncached run has m_cache = 0, and the final dictionary is consistent with g *)
Theorem C05_cache_transparent :
  forall (g : row -> T) (f : nat -> rows -> option (list T)), (forall k I, f k I = Some (map g I)) ->
  forall (C : @cfg T P) (ch0 : @cachet T), cache_ok K g ch0 ->
  forall fuel su,
  crossm f (set_cache C None) fuel = Ok su -> k_stop (sK su) <> Some Sm ->
  k_stop (sK (runm f (set_cache C (Some ch0)) fuel)) <> Some Sconv ->
  exists sc, crossm f (set_cache C (Some ch0)) fuel = Ok sc /\
    sY sc = sY su /\ sYold sc = sYold su /\ sIr sc = sIr su /\ sIc sc = sIc su /\
    s_nswp sc = s_nswp su /\ k_stop (sK sc) = k_stop (sK su) /\
    s_r sc = s_r su /\ s_e sc = s_e su /\ s_evld sc = s_evld su /\
    k_m (sK sc) <= k_m (sK su) /\ k_mc (sK su) = 0 /\
    (exists ch, k_cache (sK sc) = Some ch /\ cache_ok K g ch).
Proof. exact (cache_transparent K isinf cb pones pdotL pdotR pvals pick pcoreG pfacR erank accuracy accdata). Qed.

(* ---- the dictionary: at every exit of every run (any objective, incl. None answers and budget stops) the cache is
   the initial dictionary updated, in call order, with the index -> value pairs of every successful call of the
   objective — nothing else is ever written; a run without cache has none *)
Theorem C05_cache_content :
  forall (f : nat -> rows -> option (list T)) (C : @cfg T P) fuel s,
  crossm f C fuel = Ok s ->
  k_cache (sK s) = match c_cache C with Some ch0 => Some (replay_cache (fcalls (sK s)) ch0) | None => None end.
Proof. exact (cache_content K isinf cb pones pdotL pdotR pvals pick pcoreG pfacR erank accuracy accdata). Qed.

(* key set of that dictionary: the initial keys and the evaluated multi-indices *)
Theorem C05_cache_keys :
  forall (j : row) (calls : list (rows * option (list T))) (ch0 : @cachet T),
  cmem j (replay_cache calls ch0) =
  existsb (fun q => match snd q with Some y => existsb (fun p => row_eqb j (fst p)) (combine (fst q) y)
                                | None => false end) calls || cmem j ch0.
Proof. exact cmem_replay. Qed.

(* ---- info describes the returned tensor: at every exit (normal, budget, None, callback) info.r is the effective
   rank of the returned cores, info.e the accuracy of the returned cores against the cores saved at the start of the
   last sweep, info.e_vld the validation error of the returned cores (-1 without validation data); each taken from the
   last call of the respective routine *)
Theorem C05_info_consistent :
  forall (f : nat -> rows -> option (list T)) (C : @cfg T P) fuel s,
  crossm f C fuel = Ok s ->
  s_r s = erank (s_ne s) (sY s) /\ s_e s = accuracy (s_ne s) (sY s) (sYold s) /\
  s_evld s = accdata_m K accdata C (s_ne s) (sY s).
Proof. exact (info_consistent K isinf cb pones pdotL pdotR pvals pick pcoreG pfacR erank accuracy accdata). Qed.
End C05.

(* ================================================================================================================
   Numeric part: exactness on low-rank targets.  Any commutative ring K (ring laws Rth); function view: the target
   is a function A of the multi-index; one position of a left-to-right half sweep is described by the mode size, the
   rows [ind] selected by maxvol, the matrix B it returns (the core is G[a, j, c] = B[a + r j, c]) and the right
   index set [cols]; the candidate row number t at left index set L is  cand L t = L[t mod |L|] ++ [t / |L|]. *)
Section C05num.
Context {T : Type} (K : ops T).
Hypothesis Rth : rng K.

(* core_interp: what QR and maxvol guarantee (Z = Q R, B Q[ind] = Q) gives B Z[ind] = Z *)
Theorem C05_core_interp :
  forall (N rq m : nat) (ind : list nat) (Q R B Z : nat -> nat -> T),
  (forall t c, t < N -> c < m -> Z t c = bsum K rq (fun k => omul K (Q t k) (R k c))) ->
  (forall t k, t < N -> k < rq -> bsum K (length ind) (fun s => omul K (B t s) (Q (nth s ind O) k)) = Q t k) ->
  Forall (fun t => t < N) ind ->
  forall t c, t < N -> c < m -> bsum K (length ind) (fun s => omul K (B t s) (Z (nth s ind O) c)) = Z t c.
Proof. exact (core_interp K Rth). Qed.

(* skeleton_exact: A = X Y with inner size rho, X[I,:] has a left inverse Xi and Y[:,J] a right inverse Yj (both
   intersections invertible): A = A[:,J] (Yj Xi) A[I,:] entrywise, and Yj Xi is the inverse of A[I,J] *)
Theorem C05_skeleton_exact :
  forall (m n rho : nat) (A X Y : nat -> nat -> T) (I J : list nat) (Xi Yj : nat -> nat -> T),
  length I = rho -> length J = rho ->
  (forall i j, i < m -> j < n -> A i j = bsum K rho (fun al => omul K (X i al) (Y al j))) ->
  Forall (fun i => i < m) I -> Forall (fun j => j < n) J ->
  (forall al be, al < rho -> be < rho -> bsum K rho (fun g => omul K (Xi al g) (X (nth g I O) be)) = delta K al be) ->
  (forall al be, al < rho -> be < rho -> bsum K rho (fun g => omul K (Y al (nth g J O)) (Yj g be)) = delta K al be) ->
  forall i j, i < m -> j < n ->
    bsum K rho (fun b => bsum K rho (fun g =>
      omul K (omul K (A i (nth b J O)) (bsum K rho (fun k => omul K (Yj b k) (Xi k g)))) (A (nth g I O) j))) = A i j.
Proof. exact (skeleton_exact K Rth). Qed.

(* TT-rank rho gives the spanning hypothesis: if the unfolding factorises, A(p ++ u) = sum_alpha X p alpha * Y alpha u
   with inner size rho, and the sampled columns Y[:, cols] have a right inverse (the algebraic content of "generic"),
   every column of the unfolding is the stated combination of the sampled columns *)
Theorem C05_span_of_rank :
  forall (A : row -> T) (okP okS : row -> Prop) (rho : nat) (X : row -> nat -> T) (Y : nat -> row -> T)
         (cols : list row) (Nv : nat -> nat -> T),
  (forall p u, okP p -> okS u -> A (p ++ u) = bsum K rho (fun al => omul K (X p al) (Y al u))) ->
  (forall c, c < length cols -> okS (nth c cols [])) ->
  (forall al be, al < rho -> be < rho ->
     bsum K (length cols) (fun c => omul K (Y al (nth c cols [])) (Nv c be)) = delta K al be) ->
  forall p u, okP p -> okS u ->
    A (p ++ u) = bsum K (length cols) (fun c => omul K (A (p ++ nth c cols []))
                                                 (bsum K rho (fun be => omul K (Nv c be) (Y be u)))).
Proof. exact (span_of_rank K Rth). Qed.

(* cross_exact (conditional): one left-to-right half sweep.  If at every position the selected rows are valid, B
   interpolates the sampled value matrix (samp_ok: B Z[ind] = Z, which core_interp derives from the QR / maxvol
   contracts) and the sampled columns span the unfolding (span_ok, which span_of_rank derives from TT-rank rho with
   invertible intersections), then for EVERY multi-index q the product of the cores G_0[q_0] ... G_{d-1}[q_{d-1}]
   (the vector v'), closed with the target values at the last index set L' (the factor the code folds into the last
   core), equals the target A q.  Any number of positions, any mode sizes, any numbers of selected rows (also more
   rows than columns: rank growth). *)
Theorem C05_cross_exact_cond :
  forall (A : row -> T) (ps : list (@posd T)) (q : row),
  steps_ok K A ps [[]] -> Forall2 lt q (map p_n ps) ->
  let (L', v') := runI K ps [[]] (e0 K) q in
  bsum K (length L') (fun a => omul K (v' a) (A (nth a L' []))) = A q.
Proof. exact (ltr_exact K Rth). Qed.
End C05num.

(* ---------------- non-vacuity ---------------- *)
(* a concrete cached / uncached pair over Z (3 modes, two sweeps): the hypotheses of C05_cache_transparent hold, the
   uncached run evaluates 28 indices, the cached run 5 (+ 23 cache hits), and the dictionary is the 5 evaluated pairs *)
Example C05_cache_transparent_example :
  (forall k I, fZ k I = Some (map gZ I)) /\ cache_ok OZ gZ [] /\
  exists su, crossZ (set_cache CZ None) 3 = Ok su /\ k_stop (sK su) = Some Snswp /\
    k_stop (sK (runZ (set_cache CZ (Some [])) 3)) = Some Snswp /\
    k_m (sK su) = 28 /\ k_m (sK (runZ (set_cache CZ (Some [])) 3)) = 5 /\
    k_mc (sK (runZ (set_cache CZ (Some [])) 3)) = 23 /\
    k_cache (sK (runZ (set_cache CZ (Some [])) 3)) =
      Some [([0; 0; 0], 8%Z); ([1; 0; 0], 9%Z); ([0; 1; 0], 10%Z); ([0; 2; 0], 12%Z); ([0; 0; 1], 12%Z)].
Proof. exact ex_cache_transparent. Qed.

(* the hypotheses of C05_cross_exact_cond hold for the rank-1 target A[i, j] = (i+1)(j+1) over Z ... *)
Example C05_cross_exact_example : steps_ok OZ AZ psZ [[]].
Proof. exact ex_steps_ok. Qed.
(* ... and the half sweep returns its four entries *)
Example C05_cross_exact_example_values :
  map (fun q => let (L', v') := runI OZ psZ [[]] (e0 OZ) q in
                bsum OZ (length L') (fun a => Z.mul (v' a) (AZ (nth a L' []))))
      [[0; 0]; [1; 0]; [0; 1]; [1; 1]] = [1; 2; 2; 4]%Z.
Proof. exact ex_ltr_values. Qed.

(* ================================================================================================================
   The instantiated model Model/CrossNum.v: payload = cores as nested lists, the kernel operations of Model/Cross.v
   filled with the array operations of cross.py (_func reshape, unfolding, QR, utils._maxvol incl. its eye(N) branch,
   core = Fortran reshape of B, pending factor Q[ind] R, tensordot folds).  qr / mvI / mvB are the external routines;
   their contracts are required only on the matrices they are actually given. *)
Section C05model.
Context {T : Type} (K : ops T).
Hypothesis Rth : rng K.
Variable qr : mat T -> mat T * mat T.
Variable mvI : mat T -> nat -> nat -> list nat.
Variable mvB : mat T -> list nat -> mat T.
Variable A : row -> T.

(* iter_realises_scheme: at a left-to-right position with left index set Ir, right index set Ic, mode size n, the
   value array is the target on  Ir x [n] x Ic  (Zval), and what the model's _iter computes from it - the rows [ind]
   of utils._maxvol, the matrix B behind the core, the pending factor Q[ind] R - is one position of the scheme of
   C05_cross_exact_cond: rows in range, B Z[ind] = Z on the sampled columns (samp_ok), factor = target values at the
   selected candidate rows; given Z = Q R for this Z and B Q[ind] = Q for this Q *)
Theorem C05_iter_realises_scheme :
  forall (Ir Ic : option rows) (n k dmin dmax : nat),
  let r1 := rk Ir in let r2 := rk Ic in
  let p := pvalsN K r1 n r2 (map A (batch n Ir Ic)) in
  let Zm := unfoldZ K true r1 n r2 p in
  let ind := maxvol_w (pickN K qr mvI) k true (mkc r1 n r2 p) dmin dmax in
  qr_ok_at K qr Zm -> mv_ok_at K mvI mvB (fst (qr Zm)) dmin dmax ->
  Forall (fun t => t < length (orl Ir) * n) ind /\
  samp_ok K A (orl Ir) n ind (fun t s => mget K (Bof K qr mvB true r1 n r2 p ind) t s) (orl Ic) /\
  (forall b c, b < length ind -> c < r2 ->
     mget K (mmul K (mrows K (fst (qr Zm)) ind) (snd (qr Zm))) b c =
     A (cand (orl Ir) (nth b ind O) ++ nth c (orl Ic) [])).
Proof. exact (iter_ltr_realises K Rth qr mvI mvB A). Qed.

Variable isinf : T -> bool.
Variable f : nat -> rows -> option (list T).
Variable cb : option (nat -> bool).
Variable erank : nat -> list (@mcore (core T)) -> T.
Variable accuracy : nat -> list (@mcore (core T)) -> list (@mcore (core T)) -> T.
Variable accdata : nat -> list (@mcore (core T)) -> T.
Variable C : @cfg T (core T).
Notation stepN := (step K isinf f cb (ponesN K) (pdotLN K) (pdotRN K) (pvalsN K) (pickN K qr mvI)
                        (pcoreGN K qr mvB) (pfacRN K qr) erank accuracy accdata C).
Notation runN := (run K isinf f cb (ponesN K) (pdotLN K) (pdotRN K) (pvalsN K) (pickN K qr mvI)
                      (pcoreGN K qr mvB) (pfacRN K qr) erank accuracy accdata C).

(* cross_exact, left-to-right half sweep of the model driver, from any state s0 at the head of a sweep (no stop
   pending, no cache, no budget, objective = target): if at every position i the sampled columns span the unfolding
   of the target on the candidate rows (genericity; C05_span_of_rank derives it from TT-rank rho and invertible
   intersections) and QR / maxvol meet their contracts on the matrices of that position (pos_ok), then after the d
   steps of the half sweep the cores held by the driver (the last one with the pending factor folded in) evaluate
   to the target at EVERY multi-index.  Any d >= 1, mode sizes, working ranks, rank growth window. *)
Theorem C05_cross_exact_ltr :
  (forall k I, f k I = Some (map A I)) -> m_max C = None ->
  forall s0, 1 <= d C -> s_pc s0 = Run true true 0 -> k_stop (sK s0) = None -> k_cache (sK s0) = None ->
  length (sY s0) = d C -> length (sIr s0) = S (d C) ->
  nth 0 (sIr s0) None = None -> nth (d C) (sIc s0) None = None ->
  (forall i, i < d C -> pos_ok K qr mvI mvB A C s0 i (iterate stepN i s0)) ->
  forall q, Forall2 lt q (nsN C) -> ttval K (sY (iterate stepN (d C) s0)) q = A q.
Proof. exact (cross_exact_ltr K Rth qr mvI mvB A isinf f cb erank accuracy accdata C). Qed.

(* the same for the model run itself: s0 = state after the pre-iteration and [fuel] complete sweeps of cross_num *)
Theorem C05_cross_exact :
  (forall k I, f k I = Some (map A I)) -> m_max C = None ->
  forall fuel, Y0_ok (ponesN K) C -> pick_ok (pickN K qr mvI) -> c_cache C = None ->
  s_pc (runN fuel) = Run true true 0 -> k_stop (sK (runN fuel)) = None ->
  qr_ok K qr -> mv_ok K mvI mvB ->
  (forall i, i < d C ->
     span_ok K A (orl (nth i (sIr (iterate stepN i (runN fuel))) None)) (nth i (nsN C) O)
             (orl (nth (S i) (sIc (runN fuel)) None)) (okS (skipn (S i) (nsN C)))) ->
  forall q, Forall2 lt q (nsN C) -> ttval K (sY (iterate stepN (d C) (runN fuel))) q = A q.
Proof. exact (cross_exact_run K Rth qr mvI mvB A isinf f cb erank accuracy accdata C). Qed.
End C05model.

(* non-vacuity: over Z, two modes of size 2, target A[i, j] = (i+1)(j+1), "QR" = (Z, identity), "maxvol" = row 0
   with B = Q: every hypothesis of C05_cross_exact_ltr holds for the state after the pre-iteration ... *)
Example C05_cross_exact_ltr_example :
  1 <= d CN /\ s_pc s0N = Run true true 0 /\ k_stop (sK s0N) = None /\ k_cache (sK s0N) = None /\
  length (sY s0N) = d CN /\ length (sIr s0N) = S (d CN) /\ nth 0 (sIr s0N) None = None /\
  nth (d CN) (sIc s0N) None = None /\
  (forall i, i < d CN -> pos_ok OZ qrI mvI0 mvB0 AZ CN s0N i (iterate stepZN i s0N)).
Proof. exact ex_num_hyps. Qed.
(* ... and the half sweep of the instantiated model returns the four entries of the target *)
Example C05_cross_exact_ltr_example_values :
  map (ttval OZ (sY (iterate stepZN 2 s0N))) [[0; 0]; [1; 0]; [0; 1]; [1; 1]] = [1; 2; 2; 4]%Z.
Proof. exact ex_num_values. Qed.

(* ================================================================================================================
   The way back (right-to-left half sweep) and the full sweep: what teneva.cross RETURNS at a sweep end.
   Candidate column number t at right index set Rs:  rcand Rs n t = [t mod n] ++ Rs[t / n]  (Model/Cross.v inew false);
   the right-to-left _iter works on the transposed unfolding Z'[t, a] = Z[a, t mod n, t / n], the core is
   G[s, j, c] = B[j + n c, s] (reshape of B^T), the pending factor (Q[ind] R)^T is folded into the left neighbour. *)
Section C05rtl.
Context {T : Type} (K : ops T).
Hypothesis Rth : rng K.
Variable qr : mat T -> mat T * mat T.
Variable mvI : mat T -> nat -> nat -> list nat.
Variable mvB : mat T -> list nat -> mat T.
Variable A : row -> T.

(* iter_realises_scheme, right to left: the rows selected on the transposed unfolding are in range, B interpolates
   the transposed value matrix on the sampled rows Ir (rsamp_ok: B Z'[ind] = Z'), the pending factor holds the target
   values at the selected candidate columns *)
Theorem C05_iter_realises_scheme_rtl :
  forall (Ir Ic : option rows) (n k dmin dmax : nat),
  let r1 := rk Ir in let r2 := rk Ic in
  let p := pvalsN K r1 n r2 (map A (batch n Ir Ic)) in
  let Zm := unfoldZ K false r1 n r2 p in
  let ind := maxvol_w (pickN K qr mvI) k false (mkc r1 n r2 p) dmin dmax in
  qr_ok_at K qr Zm -> mv_ok_at K mvI mvB (fst (qr Zm)) dmin dmax ->
  Forall (fun t => t < n * length (orl Ic)) ind /\
  rsamp_ok K A (orl Ir) n ind (fun t s => mget K (Bof K qr mvB false r1 n r2 p ind) t s) (orl Ic) /\
  (forall s a, s < length ind -> a < r1 ->
     mget K (mmul K (mrows K (fst (qr Zm)) ind) (snd (qr Zm))) s a =
     A (nth a (orl Ir) [] ++ rcand (orl Ic) n (nth s ind O))).
Proof. exact (iter_rtl_realises K Rth qr mvI mvB A). Qed.

Variable isinf : T -> bool.
Variable f : nat -> rows -> option (list T).
Variable cb : option (nat -> bool).
Variable erank : nat -> list (@mcore (core T)) -> T.
Variable accuracy : nat -> list (@mcore (core T)) -> list (@mcore (core T)) -> T.
Variable accdata : nat -> list (@mcore (core T)) -> T.
Variable C : @cfg T (core T).
Notation stepN := (step K isinf f cb (ponesN K) (pdotLN K) (pdotRN K) (pvalsN K) (pickN K qr mvI)
                        (pcoreGN K qr mvB) (pfacRN K qr) erank accuracy accdata C).
Notation runN := (run K isinf f cb (ponesN K) (pdotLN K) (pdotRN K) (pvalsN K) (pickN K qr mvI)
                      (pcoreGN K qr mvB) (pfacRN K qr) erank accuracy accdata C).

(* cross_exact, right-to-left half sweep, from any state s1 at the turn-around of a sweep: if at every position the
   sampled rows (left index sets of s1) span the unfolding of the target on the candidate columns of the current
   right index set and QR / maxvol meet their contracts there (rpos_ok), the cores held after the d steps - the state
   at the end of the sweep, whether the driver then stops (Done) or starts the next sweep - evaluate to the target
   at EVERY multi-index *)
Theorem C05_cross_exact_rtl :
  (forall k I, f k I = Some (map A I)) -> m_max C = None ->
  forall s1, 1 <= d C -> s_pc s1 = Run true false (d C - 1) -> k_stop (sK s1) = None -> k_cache (sK s1) = None ->
  length (sY s1) = d C -> length (sIc s1) = S (d C) ->
  nth 0 (sIr s1) None = None -> nth (d C) (sIc s1) None = None ->
  (forall k, k < d C -> rpos_ok K qr mvI mvB A C s1 (d C - 1 - k) (iterate stepN k s1)) ->
  forall q, Forall2 lt q (nsN C) -> ttval K (sY (iterate stepN (d C) s1)) q = A q.
Proof. exact (cross_exact_rtl K Rth qr mvI mvB A isinf f cb erank accuracy accdata C). Qed.

(* full sweep of the model driver from any sweep head (composition of the two half sweeps) *)
Theorem C05_cross_exact_full_sweep :
  (forall k I, f k I = Some (map A I)) -> m_max C = None ->
  forall s0, 1 <= d C -> s_pc s0 = Run true true 0 -> k_stop (sK s0) = None -> k_cache (sK s0) = None ->
  length (sY s0) = d C -> length (sIr s0) = S (d C) -> length (sIc s0) = S (d C) ->
  nth 0 (sIr s0) None = None -> nth (d C) (sIc s0) None = None ->
  (forall i, i < d C -> pos_ok K qr mvI mvB A C s0 i (iterate stepN i s0)) ->
  (forall k, k < d C ->
     rpos_ok K qr mvI mvB A C (iterate stepN (d C) s0) (d C - 1 - k) (iterate stepN k (iterate stepN (d C) s0))) ->
  forall q, Forall2 lt q (nsN C) -> ttval K (sY (iterate stepN (2 * d C) s0)) q = A q.
Proof. exact (cross_exact_full_sweep K Rth qr mvI mvB A isinf f cb erank accuracy accdata C). Qed.

(* the tensor RETURNED by cross_num at a sweep end: run without cache and without budget on an objective that returns
   the target values (so the objective never returns None and the only exits are the sweep-end tests nswp / e /
   e_vld / callback of the post-sweep block); after [fuel] sweeps the driver is at a sweep head with no stop pending;
   both families of hypotheses hold for sweep fuel+1; cross_num (S fuel) = Ok s.  Then s is the state at the end of
   that sweep, it is Done, and its cores evaluate to the target at every multi-index. *)
Theorem C05_cross_exact_return :
  (forall k I, f k I = Some (map A I)) -> m_max C = None ->
  forall fuel s, Y0_ok (ponesN K) C -> pick_ok (pickN K qr mvI) -> c_cache C = None ->
  s_pc (runN fuel) = Run true true 0 -> k_stop (sK (runN fuel)) = None ->
  (forall i, i < d C -> pos_ok K qr mvI mvB A C (runN fuel) i (iterate stepN i (runN fuel))) ->
  (forall k, k < d C ->
     rpos_ok K qr mvI mvB A C (iterate stepN (d C) (runN fuel)) (d C - 1 - k)
             (iterate stepN k (iterate stepN (d C) (runN fuel)))) ->
  cross_num K qr mvI mvB isinf f cb erank accuracy accdata C (S fuel) = Ok s ->
  s = runN (S fuel) /\ s_pc s = Done /\ forall q, Forall2 lt q (nsN C) -> ttval K (sY s) q = A q.
Proof. exact (cross_exact_return K Rth qr mvI mvB A isinf f cb erank accuracy accdata C). Qed.
End C05rtl.

(* non-vacuity of the way back / the full sweep: same instance over Z as C05_cross_exact_ltr_example; together with
   that example every hypothesis of C05_cross_exact_full_sweep holds for s0N ... *)
Example C05_cross_exact_full_sweep_example :
  length (sIc s0N) = S (d CN) /\
  (forall k, k < d CN -> rpos_ok OZ qrI mvI0 mvB0 AZ CN s1N (d CN - 1 - k) (iterate stepZN k s1N)).
Proof. exact ex_rtl_hyps. Qed.
(* ... and the cores at the end of the sweep (4 steps) evaluate to the target; the driver is at the next sweep head *)
Example C05_cross_exact_full_sweep_example_values :
  map (ttval OZ (sY (iterate stepZN 4 s0N))) [[0; 0]; [1; 0]; [0; 1]; [1; 1]] = [1; 2; 2; 4]%Z /\
  s_pc (iterate stepZN 4 s0N) = Run true true 0.
Proof. exact ex_full_values. Qed.
