(* C19 — explicit constructors build exactly the tensor they describe.
   Only statements, each closed by [exact]; non-vacuity Examples at the end of each family.
   The denotation of a TT tensor is [get K Y idx].  Vocabulary (Proofs/Tensors*.v):
     shp ns Y        Y has length ns cores, the k-th of shape (1, n_k, 1)
     inb ns idx      idx is a multi-index inside the shape ns
     zin ns iz       iz is a list of Python ints with 0 <= iz_k < n_k (and length d)
     zpos ns i       -n_k <= i_k < n_k (numpy negative positions allowed); npos ns i = the normalised position
     root_law        the d-th root oracle satisfies (root |v|)^d = |v| on the branch |v| > 1e-16
     sign_law        |v| * (|v| / v) = v on that branch (true in any ordered field: C19_sign_law_Qc)
     zbits q j       little-endian binary digits of j (multi-index of entry j of a QTT vector)
     zbits2 q a b    digits 2*c_k + r_k of the pair (a, b) (multi-index of a QTT matrix with (1,4,1)-flattened cores)
     coff ns r k     offset of core k in the one flat vector drawn by rand_custom *)
From Coq Require Import Reals Lra.
From Coq Require Import List Arith Lia PeanoNat ZArith QArith Qcanon.
From TV Require Import Num.Ops Lin.BigSum TT.Chain Model.Tensors
  Proofs.TensorsP Proofs.TensorsQttP Proofs.TensorsPolyP Proofs.TensorsRandP Proofs.TensorsStabRP.
Import ListNotations.
Local Open Scope nat_scope.

(* ---------------- const ---------------- *)
(* no zero list: v everywhere — v > 0, v < 0, v = 0 and the tiny branch (s = v, rho = 1) alike *)
Theorem C19_const_denote : forall T (K : ops T), rng K ->
  forall (tiny : T) (root : T -> T) (ns : list nat) (v : T) (inz : option (list Z)),
  ns <> [] -> root_law K tiny root (length ns) v -> sign_law K tiny v ->
  exists Y, const K tiny root ns v None inz = Ok Y /\ shp ns Y /\ forall idx, inb ns idx -> get K Y idx = v.
Proof. exact @const_none. Qed.

(* over the rationals the sign law is a theorem, so only the root law remains *)
Theorem C19_sign_law_Qc : forall tiny v : Qc, (0 <= tiny)%Qc -> sign_law OQc tiny v.
Proof. exact Qc_sign_law. Qed.

(* zero list and protected index: exactly what the round-robin loop does *)
Theorem C19_const_zeros : forall T (K : ops T), rng K ->
  forall (tiny : T) (root : T -> T) (ns : list nat) (v : T) (Iz : list (list Z)) (inz : option (list Z)),
  ns <> [] -> Forall (zin ns) Iz -> (forall nz, inz = Some nz -> zin ns nz) ->
  root_law K tiny root (length ns) v -> sign_law K tiny v ->
  match const K tiny root ns v (Some Iz) inz with
  | Ok Y =>
      shp ns Y /\
      Forall (fun iz => inz <> Some iz) Iz /\                                     (* no conflicting request *)
      (forall idx, inb ns idx -> get K Y idx = v \/ get K Y idx = o0 K) /\        (* only the values v and 0 *)
      (forall iz, In iz Iz -> get K Y (map Z.to_nat iz) = o0 K) /\                (* zero at every listed index *)
      (forall nz, inz = Some nz -> get K Y (map Z.to_nat nz) = v)                 (* v at the protected index *)
  | Err e => e = ValueError /\ Exists (fun iz => inz = Some iz) Iz                (* raised only on a conflict *)
  end.
Proof. exact @const_zeros. Qed.

Theorem C19_const_zeros_no_protected_index : forall T (K : ops T) (tiny : T) (root : T -> T) ns v Iz,
  ns <> [] -> Forall (zin ns) Iz -> exists Y, const K tiny root ns v (Some Iz) None = Ok Y.
Proof. exact @const_zeros_noprot_ok. Qed.

(* non-vacuity over Z (tiny = 0, root = 2, d = 3, v = -8): hypotheses hold, both outcomes occur *)
Example C19_const_example :
  root_law OZ 0%Z (fun _ => 2%Z) 3 (-8)%Z /\ sign_law OZ 0%Z (-8)%Z /\
  zin [2; 3; 2] [1; 2; 0]%Z /\
  (exists Y, const OZ 0%Z (fun _ => 2%Z) [2; 3; 2] (-8)%Z (Some [[0; 1; 1]; [0; 1; 0]; [1; 2; 1]; [0; 2; 1]]%Z) (Some [0; 1; 1]%Z) = Err ValueError /\
             const OZ 0%Z (fun _ => 2%Z) [2; 3; 2] (-8)%Z (Some [[0; 1; 0]; [1; 2; 1]; [0; 2; 1]; [1; 1; 1]]%Z) (Some [0; 1; 1]%Z) = Ok Y /\
             get OZ Y [0; 1; 1] = (-8)%Z /\ get OZ Y [0; 1; 0] = 0%Z /\ get OZ Y [1; 1; 1] = 0%Z /\ get OZ Y [0; 0; 1] = (-8)%Z) /\
  (exists Y, const OZ 0%Z (fun _ => 2%Z) [2; 2] 0%Z None None = Ok Y /\ get OZ Y [1; 0] = 0%Z).
Proof.
  split; [intros _; reflexivity|]. split; [intros _; reflexivity|]. split; [repeat constructor; lia|].
  split; eexists; repeat split; vm_compute; reflexivity.
Qed.

(* ---------------- delta ---------------- *)
Theorem C19_delta_denote : forall T (K : ops T), rng K ->
  forall (tiny : T) (root : T -> T) (ns : list nat) (i : list Z) (v : T),
  ns <> [] -> zpos ns i -> root_law K tiny root (length ns) v -> sign_law K tiny v ->
  exists Y, delta K tiny root ns i v = Ok Y /\ shp ns Y /\
    get K Y (npos ns i) = v /\
    forall idx, inb ns idx -> idx <> npos ns i -> get K Y idx = o0 K.
Proof. exact @delta_denote. Qed.

(* the first out-of-range component raises (numpy: IndexError) *)
Theorem C19_delta_out_of_range : forall T (K : ops T) (tiny : T) (root : T -> T) ns (i : list Z) (v : T) k,
  ns <> [] -> length i = length ns -> k < length ns ->
  (nth k i 0 < - Z.of_nat (nth k ns 0%nat) \/ Z.of_nat (nth k ns 0%nat) <= nth k i 0)%Z ->
  (forall t, t < k -> (- Z.of_nat (nth t ns 0%nat) <= nth t i 0 < Z.of_nat (nth t ns 0%nat))%Z) ->
  delta K tiny root ns i v = Err IndexError.
Proof. exact @delta_out_of_range. Qed.

Example C19_delta_example :
  zpos [2; 3; 2] [1; -1; 0]%Z /\ npos [2; 3; 2] [1; -1; 0]%Z = [1; 2; 0] /\
  exists Y, delta OZ 0%Z (fun _ => 2%Z) [2; 3; 2] [1; -1; 0]%Z (-8)%Z = Ok Y /\
            get OZ Y [1; 2; 0] = (-8)%Z /\ get OZ Y [1; 1; 0] = 0%Z.
Proof. split; [repeat constructor; lia|]. split; [reflexivity|]. eexists; repeat split; vm_compute; reflexivity. Qed.

(* ---------------- QTT delta vector / matrix ---------------- *)
(* _vector_index_prepare returns a non-negative in-range position: the negative branch of
   _vector_index_expand is unreachable from vector_delta / matrix_delta *)
Theorem C19_prepare_range : forall q i i', vector_index_prepare q i = Ok i' -> (0 <= i' < 2 ^ Z.of_nat q)%Z.
Proof. exact prepare_range. Qed.

Theorem C19_vector_delta_denote : forall T (K : ops T), rng K -> forall q (i : Z) (v : T),
  1 <= q <= 53 -> (- 2 ^ Z.of_nat q <= i < 2 ^ Z.of_nat q)%Z ->
  exists Y, vector_delta K q i v = Ok Y /\ shp (repeat 2 q) Y /\
    forall j, (0 <= j < 2 ^ Z.of_nat q)%Z ->
      get K Y (zbits q j) = if (j =? i mod 2 ^ Z.of_nat q)%Z then v else o0 K.
Proof. exact @vector_delta_denote. Qed.

Theorem C19_vector_delta_out_of_range : forall T (K : ops T) q (i : Z) (v : T),
  (i < - 2 ^ Z.of_nat q \/ 2 ^ Z.of_nat q <= i)%Z -> vector_delta K q i v = Err ValueError.
Proof. exact @vector_delta_out_of_range. Qed.

Theorem C19_matrix_delta_denote : forall T (K : ops T), rng K -> forall q (i j : Z) (v : T),
  1 <= q <= 53 -> (- 2 ^ Z.of_nat q <= i < 2 ^ Z.of_nat q)%Z -> (- 2 ^ Z.of_nat q <= j < 2 ^ Z.of_nat q)%Z ->
  exists Y, matrix_delta K q i j v = Ok Y /\ shp (repeat 4 q) Y /\
    forall a b, (0 <= a < 2 ^ Z.of_nat q)%Z -> (0 <= b < 2 ^ Z.of_nat q)%Z ->
      get K Y (zbits2 q a b) =
        if ((a =? i mod 2 ^ Z.of_nat q) && (b =? j mod 2 ^ Z.of_nat q))%Z then v else o0 K.
Proof. exact @matrix_delta_denote. Qed.

Theorem C19_matrix_delta_out_of_range : forall T (K : ops T) q (i j : Z) (v : T),
  (i < - 2 ^ Z.of_nat q \/ 2 ^ Z.of_nat q <= i \/ j < - 2 ^ Z.of_nat q \/ 2 ^ Z.of_nat q <= j)%Z ->
  matrix_delta K q i j v = Err ValueError.
Proof. exact @matrix_delta_out_of_range. Qed.

Example C19_qtt_delta_example :
  zbits 3 5 = [1; 0; 1] /\ zbits2 2 1 2 = [2; 1] /\
  (exists Y, vector_delta OZ 3 (-3) 7%Z = Ok Y /\ get OZ Y (zbits 3 5) = 7%Z /\ get OZ Y (zbits 3 4) = 0%Z) /\
  (exists Y, matrix_delta OZ 2 1 (-2) 7%Z = Ok Y /\ get OZ Y (zbits2 2 1 2) = 7%Z /\ get OZ Y (zbits2 2 2 1) = 0%Z).
Proof. split; [reflexivity|]. split; [reflexivity|]. split; eexists; repeat split; vm_compute; reflexivity. Qed.

(* The bound q <= 53 is sharp for the code as written: _vector_index_expand halves with int(i / 2), a binary64
   division (modelled by py_half), which rounds from 2^53 on.  At q = 54 the in-range position 2^54 - 1 is
   rejected, and at q = 55 the position 2^54 + 3 gets the digits of another position. *)
Example C19_vector_delta_q54_boundary :
  vector_delta OZ 54 (2 ^ 54 - 1) 1%Z = Err ValueError /\
  vector_index_expand 55 (2 ^ 54 + 3) <> Ok (zbits 55 (2 ^ 54 + 3)).
Proof. split; [vm_compute; reflexivity|]. vm_compute. intros H. discriminate H. Qed.

(* ---------------- poly ---------------- *)
Theorem C19_poly_denote : forall T (K : ops T), rng K ->
  forall (ns : list nat) (shift : T + list T) (power : nat) (scale : T) (idx : list nat),
  2 <= length ns -> (forall l, shift = inr l -> length l = length ns) -> inb ns idx ->
  exists Y, poly K ns shift power scale = Ok Y /\ wf 1 Y idx /\
    get K Y idx = omul K scale (bsum K (length ns) (fun k =>
                    tpow K (oadd K (ofnat K (nth k idx 0)) (shift_at K shift k)) power)).
Proof. exact @poly_denote. Qed.

Example C19_poly_example :
  exists Y, poly OZ [2; 3; 2] (inr [1; -1; 0]%Z) 2 3%Z = Ok Y /\
            get OZ Y [1; 2; 1] = (3 * ((1 + 1) ^ 2 + (2 - 1) ^ 2 + (1 + 0) ^ 2))%Z /\
  exists Y2, poly OZ [4; 2] (inl 2%Z) 3 (-1)%Z = Ok Y2 /\ get OZ Y2 [3; 0] = (- ((3 + 2) ^ 3 + (0 + 2) ^ 3))%Z.
Proof. eexists; split; [vm_compute; reflexivity|]. split; [vm_compute; reflexivity|]. eexists; split; vm_compute; reflexivity. Qed.

(* ---------------- random constructors ---------------- *)
(* the layout: ONE flat vector f(N), cut into Fortran-ordered cores; requested shape and rank profile *)
Theorem C19_rand_custom_layout : forall T (K : ops T) (ns : list nat) (r : nat + list nat) (f : nat -> list T),
  length (f (coff ns r (length ns))) = coff ns r (length ns) ->
  exists Y, rand_custom K ns r f = Ok Y /\ length Y = length ns /\
    forall k, k < length ns ->
      cr1 (nth k Y dm) = nth k (rank_profile (length ns) r) 0 /\ cn (nth k Y dm) = nth k ns 0 /\
      cr2 (nth k Y dm) = nth (S k) (rank_profile (length ns) r) 0 /\
      forall a i b, a < nth k (rank_profile (length ns) r) 0 -> i < nth k ns 0 ->
                    b < nth (S k) (rank_profile (length ns) r) 0 ->
        coff ns r k + a + nth k (rank_profile (length ns) r) 0 * (i + nth k ns 0 * b) < coff ns r (length ns) /\
        cget K (nth k Y dm) a i b =
          nth (coff ns r k + a + nth k (rank_profile (length ns) r) 0 * (i + nth k ns 0 * b))
              (f (coff ns r (length ns))) (o0 K).
Proof. exact @rand_custom_layout. Qed.

Theorem C19_rand_custom_wf : forall T (K : ops T) (ns : list nat) (r : nat + list nat) (f : nat -> list T) idx,
  length (f (coff ns r (length ns))) = coff ns r (length ns) -> inb ns idx ->
  exists Y, rand_custom K ns r f = Ok Y /\
    wfo (nth 0 (rank_profile (length ns) r) 0) Y idx (nth (length ns) (rank_profile (length ns) r) 0) /\
    shape Y = ns /\
    map (@cr1 T) Y = firstn (length ns) (Tab.tab (S (length ns)) (fun k => nth k (rank_profile (length ns) r) 0)) /\
    map (@cr2 T) Y = Tab.tab (length ns) (fun k => nth (S k) (rank_profile (length ns) r) 0).
Proof. exact @rand_custom_wf. Qed.

(* a scalar rank r stands for [1, r, ..., r, 1] *)
Theorem C19_rank_profile_scalar : forall d x, 1 <= d ->
  length (rank_profile d (inl x)) = S d /\ nth 0 (rank_profile d (inl x)) 0 = 1 /\
  nth d (rank_profile d (inl x)) 0 = 1 /\ forall k, 1 <= k < d -> nth k (rank_profile d (inl x)) 0 = x.
Proof. exact rank_profile_scalar. Qed.

(* every entry is one of the drawn values: whatever holds of all draws (range [a,b), ...) holds of all entries *)
Theorem C19_rand_custom_entries : forall T (K : ops T) ns r (f : nat -> list T) (P : T -> Prop),
  length (f (coff ns r (length ns))) = coff ns r (length ns) -> Forall P (f (coff ns r (length ns))) ->
  exists Y, rand_custom K ns r f = Ok Y /\
    forall k a i b, k < length ns -> a < cr1 (nth k Y dm) -> i < cn (nth k Y dm) -> b < cr2 (nth k Y dm) ->
      P (cget K (nth k Y dm) a i b).
Proof. exact @rand_custom_entries. Qed.
Theorem C19_rand_entries : forall T (K : ops T) ns r (a b : T) (uniform : T -> T -> nat -> list T) (P : T -> Prop),
  let N := coff ns r (length ns) in
  length (uniform a b N) = N -> Forall P (uniform a b N) ->
  exists Y, rand K ns r a b uniform = Ok Y /\
    forall k x i y, k < length ns -> x < cr1 (nth k Y dm) -> i < cn (nth k Y dm) -> y < cr2 (nth k Y dm) ->
      P (cget K (nth k Y dm) x i y).
Proof. exact @rand_entries. Qed.
Theorem C19_rand_norm_entries : forall T (K : ops T) ns r (m s : T) (normal : T -> T -> nat -> list T) (P : T -> Prop),
  let N := coff ns r (length ns) in
  length (normal m s N) = N -> Forall P (normal m s N) ->
  exists Y, rand_norm K ns r m s normal = Ok Y /\
    forall k x i y, k < length ns -> x < cr1 (nth k Y dm) -> i < cn (nth k Y dm) -> y < cr2 (nth k Y dm) ->
      P (cget K (nth k Y dm) x i y).
Proof. exact @rand_norm_entries. Qed.

Example C19_rand_custom_example :
  let f := fun n => map Z.of_nat (seq 0 n) in
  coff [2; 3; 2] (inl 2) 3 = 20 /\ length (f 20) = 20 /\
  exists Y, rand_custom OZ [2; 3; 2] (inl 2) f = Ok Y /\ map (@cr1 Z) Y = [1; 2; 2] /\ map (@cr2 Z) Y = [2; 2; 1] /\
            cget OZ (nth 1 Y dm) 1 2 1 = (4 + 1 + 2 * (2 + 3 * 1))%Z.
Proof. split; [reflexivity|]. split; [reflexivity|]. eexists; repeat split; vm_compute; reflexivity. Qed.

(* ---------------- rand_stab ---------------- *)
(* cores = rectangular identity + the generator's draw *)
Theorem C19_rand_stab_cores : forall T (K : ops T) ns r (noise : T)
  (normal : nat -> T -> T -> nat * nat * nat -> nat -> nat -> nat -> T),
  let d := length ns in let rs := rank_profile d r in
  length (rand_stab K ns r noise normal) = d /\
  forall k, k < d ->
    let G := nth k (rand_stab K ns r noise normal) dm in
    cr1 G = nth k rs 0 /\ cn G = nth k ns 0 /\ cr2 G = nth (S k) rs 0 /\
    forall a p b, a < nth k rs 0 -> p < nth k ns 0 -> b < nth (S k) rs 0 ->
      cget K G a p b = oadd K (normal k (o0 K) noise (nth k rs 0, nth k ns 0, nth (S k) rs 0) a p b) (eye K a b).
Proof. exact @rand_stab_cores. Qed.

(* zero noise (normal(0, s) = s * g): the tensor is all ones, in any dimension and for any positive ranks *)
Theorem C19_rand_stab_ones : forall T (K : ops T), rng K -> forall ns r (noise : T)
  (normal : nat -> T -> T -> nat * nat * nat -> nat -> nat -> nat -> T)
  (g : nat -> nat * nat * nat -> nat -> nat -> nat -> T) idx,
  let d := length ns in let rs := rank_profile d r in
  (forall k sz a p b, normal k (o0 K) noise sz a p b = omul K noise (g k sz a p b)) -> noise = o0 K ->
  nth 0 rs 0 = 1 -> nth d rs 0 = 1 -> (forall k, k <= d -> 1 <= nth k rs 0) -> inb ns idx ->
  wf 1 (rand_stab K ns r noise normal) idx /\ get K (rand_stab K ns r noise normal) idx = o1 K.
Proof. exact @rand_stab_zero_noise. Qed.

Example C19_rand_stab_example :
  let Y := rand_stab OZ [2; 3; 2] (inr [1; 2; 3; 1]) 0%Z (fun _ _ s _ a p b => (s * Z.of_nat (a + p + b))%Z) in
  get OZ Y [1; 2; 0] = 1%Z /\ get OZ Y [0; 0; 1] = 1%Z /\
  get OZ (rand_stab OZ [2; 3; 2] (inl 2) 1%Z (fun _ _ s _ a p b => (s * Z.of_nat (a + p + b))%Z)) [1; 2; 0] <> 1%Z.
Proof. repeat split; vm_compute; congruence. Qed.

(* "entries stay of order one in any dimension" (over the reals): if every noise draw is bounded by eps and the
   ranks by rmax, every entry of the stable random tensor is within (1 + rmax*eps)^d - 1 of one
   (for noise 1e-15 with 6-sigma draws, r = 10, d = 1000: < 1e-10) *)
Theorem C19_rand_stab_order_one : forall ns r (noise : R)
  (normal : nat -> R -> R -> nat * nat * nat -> nat -> nat -> nat -> R) (eps : R) (rmax : nat) idx,
  let d := length ns in let rs := rank_profile d r in
  (0 <= eps)%R ->
  (forall k a p b, (Rabs (normal k 0%R noise (nth k rs 0%nat, nth k ns 0%nat, nth (S k) rs 0%nat) a p b) <= eps)%R) ->
  nth 0 rs 0 = 1 -> nth d rs 0 = 1 -> (forall k, k <= d -> 1 <= nth k rs 0 <= rmax) -> inb ns idx ->
  (Rabs (get OR19 (rand_stab OR19 ns r noise normal) idx - 1) <= (1 + INR rmax * eps) ^ d - 1)%R.
Proof. exact rand_stab_near. Qed.

Example C19_rand_stab_order_one_example :
  let normal := fun (_ : nat) (_ s : R) (_ : nat * nat * nat) (_ _ _ : nat) => (s * (1 / 2))%R in
  (0 <= 1 / 1000)%R /\
  (forall k a p b, (Rabs (normal k 0%R (1 / 500)%R (nth k (rank_profile 3 (inl 2%nat)) 0%nat, nth k [2; 3; 2]%nat 0%nat,
                          nth (S k) (rank_profile 3 (inl 2%nat)) 0%nat) a p b) <= 1 / 1000)%R) /\
  (forall k, k <= 3 -> 1 <= nth k (rank_profile 3 (inl 2)) 0 <= 2).
Proof.
  cbv zeta. split; [lra|]. split.
  - intros. rewrite Rabs_right; lra.
  - intros k Hk. do 4 (destruct k as [|k]; [simpl; lia|]). lia.
Qed.
