From Coq Require Import List Arith Lia PeanoNat ZArith.
From TV Require Import Num.Ops Model.Tensors Proofs.TensorsP.
Import ListNotations.
Example C19_stub : vector_index_prepare 3 (-3) = Ok 5%Z.
Proof. exact stub_example. Qed.
