(* C09 — no mutation of arguments, no aliasing of results.  Only statements, each closed by [exact] / computation. *)
From Coq Require Import List String.
From TV Require Import Model.Heap Proofs.HeapP Proofs.HeapP2 Gen.SkelC09.
Import ListNotations.

(* regenerated on every run from the source of teneva: every function variant reachable from the exported API passes
   the certificate check, and the checked summary of every exported function stays within the exception table *)
Theorem C09_api_clean : api_ok skel_prog skel_api = true.
Proof. vm_compute. reflexivity. Qed.

(* soundness of the checker, for every program, every heap (closed, arguments allocated), every argument list, every
   execution of the relational semantics with calls to any depth n: a function of a checked program meets the meaning
   [callspec] of its summary (wr0, wr, esc, sto) *)
Theorem C09_check_sound : forall (P : prog) (n g : nat) (f : fn) (H : heap) (args : list val) (H' : heap) (r : val),
    check_prog P = true -> nth_error P g = Some f -> closed H -> allocated H args ->
    sem P n g H args H' r -> callspec (summary_of f) H args H' r.
Proof. exact check_sound. Qed.

(* generic consequences for an API whose summaries are within the exception table *)
Theorem C09_clean_writes : forall (P : prog) (api : list nat), api_ok P api = true ->
    forall (n g : nat) (f : fn) (H : heap) (args : list val) (H' : heap) (r : val) (o : oid),
    In g api -> nth_error P g = Some f -> closed H -> allocated H args -> sem P n g H args H' r ->
    H o <> None ->
    H' o = H o \/ exists p, may_write (fname f) (fflags f) (pname f p) = true /\ reach_from H [nth p args None] o.
Proof. exact clean_writes. Qed.

Theorem C09_clean_result : forall (P : prog) (api : list nat), api_ok P api = true ->
    forall (n g : nat) (f : fn) (H : heap) (args : list val) (H' : heap) (o q : oid),
    In g api -> nth_error P g = Some f -> closed H -> allocated H args -> sem P n g H args H' (Some o) ->
    reach H' o q ->
    H q = None \/ exists p, may_store (fname f) (fflags f) (pname f p) = true /\ reach_from H [nth p args None] q.
Proof. exact clean_result. Qed.

(* the property for teneva as it is NOW (skeletons regenerated from the source): an exported function leaves every object
   of the caller's heap as it was (data, shape, element list) unless the object is reachable from a parameter the
   exception table allows to be written ... *)
Theorem C09_teneva_no_mutation :
    forall (n g : nat) (f : fn) (H : heap) (args : list val) (H' : heap) (r : val) (o : oid),
    In g skel_api -> nth_error skel_prog g = Some f -> closed H -> allocated H args -> sem skel_prog n g H args H' r ->
    H o <> None ->
    H' o = H o \/ exists p, may_write (fname f) (fflags f) (pname f p) = true /\ reach_from H [nth p args None] o.
Proof. exact (clean_writes skel_prog skel_api C09_api_clean). Qed.

(* ... and everything reachable from its result afterwards is an object that did not exist before the call, unless it was
   reachable from a parameter the exception table allows to be handed back / stored *)
Theorem C09_teneva_no_alias :
    forall (n g : nat) (f : fn) (H : heap) (args : list val) (H' : heap) (o q : oid),
    In g skel_api -> nth_error skel_prog g = Some f -> closed H -> allocated H args ->
    sem skel_prog n g H args H' (Some o) -> reach H' o q ->
    H q = None \/ exists p, may_store (fname f) (fflags f) (pname f p) = true /\ reach_from H [nth p args None] q.
Proof. exact (clean_result skel_prog skel_api C09_api_clean). Qed.

(* functions whose checked summary is empty (no exception applies): nothing changes, the result is entirely new *)
Theorem C09_pure_unchanged : forall (P : prog) (n g : nat) (f : fn) (H : heap) (args : list val) (H' : heap) (r : val) (o : oid),
    check_prog P = true -> nth_error P g = Some f -> summary_of f = ([], [], [], []) ->
    closed H -> allocated H args -> sem P n g H args H' r -> H o <> None -> H' o = H o.
Proof. exact pure_unchanged. Qed.

Theorem C09_pure_result_new : forall (P : prog) (n g : nat) (f : fn) (H : heap) (args : list val) (H' : heap) (o q : oid),
    check_prog P = true -> nth_error P g = Some f -> summary_of f = ([], [], [], []) ->
    closed H -> allocated H args -> sem P n g H args H' (Some o) -> reach H' o q -> H q = None.
Proof. exact pure_result_new. Qed.

(* "later writes to either side cannot affect the other", for teneva as it is now: an argument object a that shares nothing
   with the exempt arguments of the call (info / cache, Y of an inplace orthogonalisation, the pass-through helpers) keeps
   everything it reaches unchanged, and no object is reachable both from the result and from a after the call *)
Theorem C09_teneva_separate_unchanged :
    forall (n g : nat) (f : fn) (H : heap) (args : list val) (H' : heap) (r : val) (a o : oid),
    In g skel_api -> nth_error skel_prog g = Some f -> closed H -> allocated H args -> sem skel_prog n g H args H' r ->
    H a <> None -> separate f H args a -> reach H a o -> H' o = H o.
Proof. exact (separate_unchanged skel_prog skel_api C09_api_clean). Qed.

Theorem C09_teneva_disjoint :
    forall (n g : nat) (f : fn) (H : heap) (args : list val) (H' : heap) (res a q : oid),
    In g skel_api -> nth_error skel_prog g = Some f -> closed H -> allocated H args ->
    sem skel_prog n g H args H' (Some res) ->
    H a <> None -> separate f H args a -> reach H' res q -> reach H' a q -> False.
Proof. exact (separate_disjoint skel_prog skel_api C09_api_clean). Qed.

(* the same for any checked program, and for functions with an empty summary without any side condition *)
Theorem C09_separate_disjoint : forall (P : prog) (api : list nat), api_ok P api = true ->
    forall (n g : nat) (f : fn) (H : heap) (args : list val) (H' : heap) (res a q : oid),
    In g api -> nth_error P g = Some f -> closed H -> allocated H args -> sem P n g H args H' (Some res) ->
    H a <> None -> separate f H args a -> reach H' res q -> reach H' a q -> False.
Proof. exact separate_disjoint. Qed.

Theorem C09_pure_disjoint : forall (P : prog) (n g : nat) (f : fn) (H : heap) (args : list val) (H' : heap) (res a q : oid),
    check_prog P = true -> nth_error P g = Some f -> summary_of f = ([], [], [], []) ->
    closed H -> allocated H args -> sem P n g H args H' (Some res) ->
    In (Some a) args -> reach H' res q -> reach H' a q -> False.
Proof. exact pure_disjoint. Qed.

(* non-vacuity.  The semantics HAS executions that modify an argument / return it / return a fresh list holding it, and
   the checker rejects each of these skeletons; a copy-then-scale function is accepted and has an execution from a heap
   that satisfies the hypotheses of the theorems. *)
Example C09_ex_mutation_exists :
  sem [ex_mutator] 1 0 ex_heap [Some 0] (upd ex_heap 0 (Some (mkobj 7 []))) None
  /\ upd ex_heap 0 (Some (mkobj 7 [])) 0 <> ex_heap 0.
Proof. exact ex_mutator_runs. Qed.
Example C09_ex_mutation_rejected : check_prog [ex_mutator] = false.
Proof. exact ex_mutator_rejected. Qed.
Example C09_ex_alias_exists : sem [ex_aliaser] 1 0 ex_heap [Some 0] ex_heap (Some 0).
Proof. exact ex_aliaser_runs. Qed.
Example C09_ex_alias_rejected : check_prog [ex_aliaser] = false.
Proof. exact ex_aliaser_rejected. Qed.
Example C09_ex_wrapped_alias_exists :
  sem [ex_wrapper] 1 0 ex_heap [Some 0] (upd ex_heap 1 (Some (mkobj 0 [0]))) (Some 1)
  /\ reach (upd ex_heap 1 (Some (mkobj 0 [0]))) 1 0.
Proof. exact ex_wrapper_runs. Qed.
Example C09_ex_wrapped_alias_rejected : check_prog [ex_wrapper] = false.
Proof. exact ex_wrapper_rejected. Qed.
Example C09_ex_copy_accepted : api_ok [ex_copier] [0] = true.
Proof. exact ex_copier_accepted. Qed.
Example C09_ex_copy_runs :
  sem [ex_copier] 1 0 ex_heap [Some 0] (upd (upd ex_heap 1 (Some (mkobj 0 []))) 1 (Some (mkobj 9 []))) (Some 1).
Proof. exact ex_copier_runs. Qed.
Example C09_ex_hypotheses : closed ex_heap /\ allocated ex_heap [Some 0].
Proof. exact (conj ex_heap_closed ex_heap_alloc). Qed.
