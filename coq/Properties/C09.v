(* C09 — no mutation of arguments, no aliasing of results.  Only statements, each closed by [exact] / computation. *)
From Coq Require Import List String.
From TV Require Import Model.Heap Proofs.HeapP Gen.SkelC09.
Import ListNotations.

(* regenerated on every run from the source of teneva: every function variant reachable from the exported API passes
   the certificate check, and the checked summary of every exported function stays within the exception table *)
Theorem C09_api_clean : api_ok skel_prog skel_api = true.
Proof. vm_compute. reflexivity. Qed.
