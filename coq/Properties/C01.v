(* C01 — TT evaluation and algebra agree elementwise with dense tensor algebra.
   Only statements; every theorem is closed by [exact] of a lemma from Proofs/.
   All theorems hold over every commutative ring (in particular Z: the bit-for-bit clause),
   for every d >= 2, every mode size >= 1 and every rank profile. *)
From Coq Require Import List Arith Lia PeanoNat ZArith.
From TV Require Import Num.Ops Lin.Tab Lin.BigSum TT.Chain Model.ActOne Model.ActOneX Proofs.ActOneP Proofs.ActOneP2 Proofs.ActOneP3 Proofs.ActOneXP.
Import ListNotations.

Section C01.
Context {T : Type} (K : ops T).
Hypothesis Rth : rng K.
Notation "x + y" := (oadd K x y). Notation "x * y" := (omul K x y). Notation "x - y" := (osub K x y).

(* export to a dense array: the entry at the C-order position of idx is the chained product *)
Theorem C01_full_get : forall Y idx, inb (shape Y) idx ->
  nth (cpos (shape Y) idx 0) (full K Y) (o0 K) = get K Y idx.
Proof. exact (full_get K). Qed.
Theorem C01_full_length : forall Y, length (full K Y) = fold_left Nat.mul (shape Y) 1%nat.
Proof. exact (full_length K). Qed.

(* batched access is element access, row by row *)
Theorem C01_get_many : forall Y I, get_many K Y I = map (get K Y) I.
Proof. reflexivity. Qed.

Theorem C01_get_add : forall Y1 Y2 idx, 2 <= length Y1 -> wf 1 Y1 idx -> wf 1 Y2 idx -> same_shape Y1 Y2 ->
  get K (add K Y1 Y2) idx = get K Y1 idx + get K Y2 idx.
Proof. exact (get_add K Rth). Qed.
Theorem C01_get_sub : forall Y1 Y2 idx, 2 <= length Y1 -> wf 1 Y1 idx -> wf 1 Y2 idx -> same_shape Y1 Y2 ->
  get K (sub K Y1 Y2) idx = get K Y1 idx - get K Y2 idx.
Proof. exact (get_sub K Rth). Qed.
Theorem C01_get_mul : forall Y1 Y2 idx, wf 1 Y1 idx -> wf 1 Y2 idx -> same_shape Y1 Y2 ->
  get K (mul K Y1 Y2) idx = get K Y1 idx * get K Y2 idx.
Proof. exact (get_mul K Rth). Qed.
Theorem C01_get_outer : forall Y1 Y2 idx1 idx2, wf 1 Y1 idx1 -> wf 1 Y2 idx2 ->
  get K (outer Y1 Y2) (idx1 ++ idx2) = get K Y1 idx1 * get K Y2 idx2.
Proof. exact (get_outer K Rth). Qed.
(* the constant tensor built from a per-core value rho and a sign factor s *)
Theorem C01_get_const : forall ns idx rho s, ns <> [] -> inb ns idx ->
  get K (const_cores K ns rho s) idx = pown K rho (length ns) * s.
Proof. exact (get_const K Rth). Qed.

(* sum, weighted mean, scalar product as sums over all multi-indices *)
Theorem C01_sum_spec : forall Y, chain 1 Y 1 -> sum K Y = msum K (shape Y) (get K Y).
Proof. exact (sum_spec K Rth). Qed.
Theorem C01_mean_spec : forall Y P, chain 1 Y 1 -> length P = length Y ->
  mean_w K Y P = msum K (shape Y) (fun idx => pw K P idx * get K Y idx).
Proof. exact (mean_w_spec K Rth). Qed.
Theorem C01_mul_scalar_spec : forall Y1 Y2, chain 1 Y1 1 -> chain 1 Y2 1 -> same_shape Y1 Y2 ->
  mul_scalar K Y1 Y2 = msum K (shape Y1) (fun idx => get K Y1 idx * get K Y2 idx).
Proof. exact (mul_scalar_spec K Rth). Qed.

(* the variant executed in the correspondence (Kronecker core built once per step) is the same function *)
Theorem C01_mul_scalar_x : forall Y1 Y2, mul_scalar_x K Y1 Y2 = mul_scalar K Y1 Y2.
Proof. exact (mul_scalar_x_eq K). Qed.

(* interface vectors (norm=None): the first right interface is the entry itself; and the element
   gradient: the entry is linear in core k with coefficients (left interface) x (right interface) *)
Theorem C01_interface_value : forall Y idx, wf 1 Y idx -> nth O (hd [] (phi_r K Y idx)) (o0 K) = get K Y idx.
Proof. exact (interface_value K Rth). Qed.
Theorem C01_grad_spec : forall Y1 E Y2 idx1 ik idx2,
  wfo 1 Y1 idx1 (cr1 E) -> ik < cn E -> wf (cr2 E) Y2 idx2 ->
  get K (Y1 ++ E :: Y2) (idx1 ++ ik :: idx2) =
  bsum K (cr1 E) (fun a => bsum K (cr2 E) (fun b =>
     cget K E a ik b * (nth a (run K [o1 K] Y1 idx1) (o0 K) * nth b (hd [] (phi_r K Y2 idx2)) (o0 K)))).
Proof. exact (grad_spec K Rth). Qed.

(* every finite expression tree over add / sub / mul / outer / number operands / copy *)
Theorem C01_expr_sound : forall (root : T -> nat -> T * T),
  (forall c d, 1 <= d -> pown K (fst (root c d)) d * snd (root c d) = c) ->
  forall e, wse e -> forall idx, inb (eshape e) idx ->
  get K (eval_tt K root e) idx = eval_dense K e idx.
Proof. exact (expr_sound K Rth). Qed.
End C01.

(* reported shape / ranks / size are read off the cores *)
Theorem C01_props : forall (T : Type) (Y : list (core T)),
  shape Y = map cn Y /\ ranks Y = 1%nat :: map cr2 Y /\
  size Y = fold_right (fun G s => (cr1 G * cn G * cr2 G + s)%nat) O Y.
Proof. intros; repeat split. Qed.

(* bit-for-bit on integers: the ring is Z itself *)
Theorem C01_expr_sound_Z : forall e idx, wse e -> inb (eshape e) idx ->
  get OZ (eval_tt OZ (fun c _ => (1%Z, c)) e) idx = eval_dense OZ e idx.
Proof.
  intros e idx W H. apply (C01_expr_sound OZ OZ_rng); auto.
  intros c d _. cbn [fst snd]. assert (E : pown OZ 1%Z d = 1%Z) by (induction d; cbn [pown]; [reflexivity|rewrite IHd; reflexivity]).
  rewrite E. cbn. destruct c; reflexivity.
Qed.

(* non-vacuity: a concrete well-formed pair of tensors (d = 3, ranks 1-2-1-1 and 1-1-2-1) *)
Definition exY1 : list (core Z) :=
  [mk_core 1 2 2 [[[1; 2]; [3; 4]]]%Z; mk_core 2 1 1 [[[5]]; [[-1]]]%Z; mk_core 1 2 1 [[[2]; [7]]]%Z].
Definition exY2 : list (core Z) :=
  [mk_core 1 2 1 [[[1]; [-2]]]%Z; mk_core 1 1 2 [[[3; 1]]]%Z; mk_core 2 2 1 [[[1]; [0]]; [[4]; [-5]]]%Z].
Example C01_example :
  wf 1 exY1 [1; 0; 1]%nat /\ wf 1 exY2 [1; 0; 1]%nat /\ same_shape exY1 exY2 /\
  get OZ (add OZ exY1 exY2) [1; 0; 1]%nat = (get OZ exY1 [1; 0; 1]%nat + get OZ exY2 [1; 0; 1]%nat)%Z /\
  get OZ exY1 [1; 0; 1]%nat = 77%Z /\ sum OZ exY1 = 126%Z /\
  wse (Sub (Mul (Leaf exY1) (AddNum (Leaf exY2) 1%Z)) (Copy (Leaf exY1))).
Proof.
  split; [cbn; lia|]. split; [cbn; lia|].
  split; [unfold same_shape, exY1, exY2; repeat (apply Forall2_cons; [reflexivity|]); apply Forall2_nil|].
  split; [vm_compute; reflexivity|]. split; [vm_compute; reflexivity|]. split; [vm_compute; reflexivity|].
  cbn; repeat split; lia.
Qed.
