(* C01 — TT evaluation and algebra agree elementwise with dense tensor algebra.
   Only statements; every theorem is closed by [exact] of a lemma from Proofs/.
   All theorems hold over every commutative ring (in particular Z: the bit-for-bit clause),
   for every d >= 2, every mode size >= 1 and every rank profile. *)
From Coq Require Import List Arith Lia PeanoNat ZArith.
From TV Require Import Num.Ops Lin.Tab Lin.BigSum TT.Chain Model.ActOne Model.ActOneX Proofs.ActOneP Proofs.ActOneP2 Proofs.ActOneP3 Proofs.ActOneXP.
Import ListNotations.

Section C01.
Context {T : Type} (K : ops T).
Hypothesis Rth : rng K.
Notation "x + y" := (oadd K x y). Notation "x * y" := (omul K x y). Notation "x - y" := (osub K x y).

(* export to a dense array: the entry at the C-order position of idx is the chained product *)
Theorem C01_full_get : forall Y idx, inb (shape Y) idx ->
  nth (cpos (shape Y) idx 0) (full K Y) (o0 K) = get K Y idx.
Proof. exact (full_get K). Qed.
Theorem C01_full_length : forall Y, length (full K Y) = fold_left Nat.mul (shape Y) 1%nat.
Proof. exact (full_length K). Qed.

(* batched access is element access, row by row *)
Theorem C01_get_many : forall Y I, get_many K Y I = map (get K Y) I.
Proof. reflexivity. Qed.

Theorem C01_get_add : forall Y1 Y2 idx, 2 <= length Y1 -> wf 1 Y1 idx -> wf 1 Y2 idx -> same_shape Y1 Y2 ->
  get K (add K Y1 Y2) idx = get K Y1 idx + get K Y2 idx.
Proof. exact (get_add K Rth). Qed.
Theorem C01_get_sub : forall Y1 Y2 idx, 2 <= length Y1 -> wf 1 Y1 idx -> wf 1 Y2 idx -> same_shape Y1 Y2 ->
  get K (sub K Y1 Y2) idx = get K Y1 idx - get K Y2 idx.
Proof. exact (get_sub K Rth). Qed.
Theorem C01_get_mul : forall Y1 Y2 idx, wf 1 Y1 idx -> wf 1 Y2 idx -> same_shape Y1 Y2 ->
  get K (mul K Y1 Y2) idx = get K Y1 idx * get K Y2 idx.
Proof. exact (get_mul K Rth). Qed.
Theorem C01_get_outer : forall Y1 Y2 idx1 idx2, wf 1 Y1 idx1 -> wf 1 Y2 idx2 ->
  get K (outer Y1 Y2) (idx1 ++ idx2) = get K Y1 idx1 * get K Y2 idx2.
Proof. exact (get_outer K Rth). Qed.
(* the constant tensor built from a per-core value rho and a sign factor s *)
Theorem C01_get_const : forall ns idx rho s, ns <> [] -> inb ns idx ->
  get K (const_cores K ns rho s) idx = pown K rho (length ns) * s.
Proof. exact (get_const K Rth). Qed.

(* sum, weighted mean, scalar product as sums over all multi-indices *)
Theorem C01_sum_spec : forall Y, chain 1 Y 1 -> sum K Y = msum K (shape Y) (get K Y).
Proof. exact (sum_spec K Rth). Qed.
Theorem C01_mean_spec : forall Y P, chain 1 Y 1 -> length P = length Y ->
  mean_w K Y P = msum K (shape Y) (fun idx => pw K P idx * get K Y idx).
Proof. exact (mean_w_spec K Rth). Qed.
Theorem C01_mul_scalar_spec : forall Y1 Y2, chain 1 Y1 1 -> chain 1 Y2 1 -> same_shape Y1 Y2 ->
  mul_scalar K Y1 Y2 = msum K (shape Y1) (fun idx => get K Y1 idx * get K Y2 idx).
Proof. exact (mul_scalar_spec K Rth). Qed.

(* the variant executed in the correspondence (Kronecker core built once per step) is the same function *)
Theorem C01_mul_scalar_x : forall Y1 Y2, mul_scalar_x K Y1 Y2 = mul_scalar K Y1 Y2.
Proof. exact (mul_scalar_x_eq K). Qed.

(* interface vectors (norm=None): the first right interface is the entry itself; and the element
   gradient: the entry is linear in core k with coefficients (left interface) x (right interface) *)
Theorem C01_interface_value : forall Y idx, wf 1 Y idx -> nth O (hd [] (phi_r K Y idx)) (o0 K) = get K Y idx.
Proof. exact (interface_value K Rth). Qed.
Theorem C01_grad_spec : forall Y1 E Y2 idx1 ik idx2,
  wfo 1 Y1 idx1 (cr1 E) -> ik < cn E -> wf (cr2 E) Y2 idx2 ->
  get K (Y1 ++ E :: Y2) (idx1 ++ ik :: idx2) =
  bsum K (cr1 E) (fun a => bsum K (cr2 E) (fun b =>
     cget K E a ik b * (nth a (run K [o1 K] Y1 idx1) (o0 K) * nth b (hd [] (phi_r K Y2 idx2)) (o0 K)))).
Proof. exact (grad_spec K Rth). Qed.

(* every finite expression tree over add / sub / mul / outer / number operands / copy *)
Theorem C01_expr_sound : forall (root : T -> nat -> T * T),
  (forall c d, 1 <= d -> pown K (fst (root c d)) d * snd (root c d) = c) ->
  forall e, wse e -> forall idx, inb (eshape e) idx ->
  get K (eval_tt K root e) idx = eval_dense K e idx.
Proof. exact (expr_sound K Rth). Qed.
End C01.

(* reported shape / ranks / size are read off the cores *)
Theorem C01_props : forall (T : Type) (Y : list (core T)),
  shape Y = map cn Y /\ ranks Y = 1%nat :: map cr2 Y /\
  size Y = fold_right (fun G s => (cr1 G * cn G * cr2 G + s)%nat) O Y.
Proof. intros; repeat split. Qed.

(* bit-for-bit on integers: the ring is Z itself *)
Theorem C01_expr_sound_Z : forall e idx, wse e -> inb (eshape e) idx ->
  get OZ (eval_tt OZ (fun c _ => (1%Z, c)) e) idx = eval_dense OZ e idx.
Proof.
  intros e idx W H. apply (C01_expr_sound OZ OZ_rng); auto.
  intros c d _. cbn [fst snd]. assert (E : pown OZ 1%Z d = 1%Z) by (induction d; cbn [pown]; [reflexivity|rewrite IHd; reflexivity]).
  rewrite E. cbn. destruct c; reflexivity.
Qed.

(* non-vacuity: a concrete well-formed pair of tensors (d = 3, ranks 1-2-1-1 and 1-1-2-1) *)
Definition exY1 : list (core Z) :=
  [mk_core 1 2 2 [[[1; 2]; [3; 4]]]%Z; mk_core 2 1 1 [[[5]]; [[-1]]]%Z; mk_core 1 2 1 [[[2]; [7]]]%Z].
Definition exY2 : list (core Z) :=
  [mk_core 1 2 1 [[[1]; [-2]]]%Z; mk_core 1 1 2 [[[3; 1]]]%Z; mk_core 2 2 1 [[[1]; [0]]; [[4]; [-5]]]%Z].
Example C01_example :
  wf 1 exY1 [1; 0; 1]%nat /\ wf 1 exY2 [1; 0; 1]%nat /\ same_shape exY1 exY2 /\
  get OZ (add OZ exY1 exY2) [1; 0; 1]%nat = (get OZ exY1 [1; 0; 1]%nat + get OZ exY2 [1; 0; 1]%nat)%Z /\
  get OZ exY1 [1; 0; 1]%nat = 77%Z /\ sum OZ exY1 = 126%Z /\
  wse (Sub (Mul (Leaf exY1) (AddNum (Leaf exY2) 1%Z)) (Copy (Leaf exY1))).
Proof.
  split; [cbn; lia|]. split; [cbn; lia|].
  split; [unfold same_shape, exY1, exY2; repeat (apply Forall2_cons; [reflexivity|]); apply Forall2_nil|].
  split; [vm_compute; reflexivity|]. split; [vm_compute; reflexivity|]. split; [vm_compute; reflexivity|].
  cbn; repeat split; lia.
Qed.

(* ====================================================================================================
   C01R — the clauses that need the real numbers (order, sqrt, division).  Carrier: [OR01], the Coq Reals
   packaged as an [ops R] (Proofs/ActOneRP.v); the model terms are the SAME polymorphic terms of
   Model/ActOneR.v and Model/Interface.v that the correspondence executes at the float / Z / Qc instances.
   ==================================================================================================== *)
From Coq Require Import Reals Lra Psatz.
From TV Require Import Model.ActOneR Model.Interface Proofs.ActOneRP Proofs.ActOneRP2.
Local Open Scope R_scope.

(* Frobenius norm: sqrt of the sum over ALL multi-indices of the squared entry of the denoted tensor *)
Theorem C01_norm_spec : forall Y : list (core R), chain 1 Y 1 ->
  norm OR01 Y = sqrt (msum OR01 (shape Y) (fun idx => get OR01 Y idx * get OR01 Y idx)).
Proof. exact norm_spec. Qed.

(* accuracy (the plain, non-saturated branch):  ||Y1 - Y2||_F / ||Y2||_F  as dense Frobenius norms, ||Y2|| <> 0 *)
Theorem C01_accuracy_spec : forall Y1 Y2 : list (core R),
  (2 <= length Y1)%nat -> chain 1 Y1 1 -> chain 1 Y2 1 -> same_shape Y1 Y2 ->
  msum OR01 (shape Y2) (fun idx => get OR01 Y2 idx * get OR01 Y2 idx) <> 0 ->
  accuracy OR01 Y1 Y2 =
    sqrt (msum OR01 (shape Y1) (fun idx => (get OR01 Y1 idx - get OR01 Y2 idx) * (get OR01 Y1 idx - get OR01 Y2 idx)))
    / sqrt (msum OR01 (shape Y2) (fun idx => get OR01 Y2 idx * get OR01 Y2 idx))
  /\ 0 < sqrt (msum OR01 (shape Y2) (fun idx => get OR01 Y2 idx * get OR01 Y2 idx)).
Proof. exact accuracy_spec. Qed.
Theorem C01_accuracy_zero_iff : forall Y1 Y2 : list (core R),
  (2 <= length Y1)%nat -> chain 1 Y1 1 -> chain 1 Y2 1 -> same_shape Y1 Y2 -> frob2 Y2 <> 0 ->
  (accuracy OR01 Y1 Y2 = 0 <-> dist2 Y1 Y2 = 0).
Proof. exact accuracy_zero_iff. Qed.

(* accuracy_on_data: the -1 sentinel when every reference value is 0; otherwise ||get_many(Y,I) - y|| / ||y|| *)
Theorem C01_accuracy_on_data_spec : forall (Y : list (core R)) (I : list (list nat)) (y : list R),
  length I = length y ->
  (Forall (fun x => x = 0) y -> accuracy_on_data OR01 Y I y = -1) /\
  (Exists (fun x => x <> 0) y ->
     accuracy_on_data OR01 Y I y =
       sqrt (bsum OR01 (length y) (fun j => (get OR01 Y (nth j I []) - nth j y 0) * (get OR01 Y (nth j I []) - nth j y 0)))
       / sqrt (bsum OR01 (length y) (fun j => nth j y 0 * nth j y 0))
     /\ 0 < sqrt (bsum OR01 (length y) (fun j => nth j y 0 * nth j y 0))).
Proof. exact accuracy_on_data_spec. Qed.

(* effective rank: r_1 for d = 2; for d >= 3 THE non-negative root x of  a x^2 + b x = size(Y),  where
   a = n_1 + ... + n_{d-2},  b = r_0 n_0 + n_{d-1} r_d : the number of parameters of a tensor of the same shape whose
   interior ranks all equal x.  Consequently a tensor whose interior ranks all equal r has effective rank r. *)
Theorem C01_erank_d2 : forall Y : list (core R), length Y = 2%nat -> erank OR01 Y = INR (nth 1 (ranks Y) O).
Proof. exact erank_d2. Qed.
Theorem C01_erank_spec : forall Y : list (core R), (3 <= length Y)%nat -> Forall (fun G => 1 <= cn G)%nat Y ->
  0 <= erank OR01 Y /\
  INR (er_a Y) * erank OR01 Y * erank OR01 Y + INR (er_b Y) * erank OR01 Y = INR (size Y) /\
  (forall x, 0 <= x -> INR (er_a Y) * x * x + INR (er_b Y) * x = INR (size Y) -> x = erank OR01 Y).
Proof. exact erank_spec. Qed.
Theorem C01_erank_coefficients : forall Y : list (core R),
  er_a Y = fold_right Nat.add O (firstn (length Y - 2) (skipn 1 (shape Y))) /\
  er_b Y = (nth 0 (ranks Y) O * nth 0 (shape Y) O + nth (length Y - 1) (shape Y) O * nth (length Y) (ranks Y) O)%nat.
Proof. intros; split; reflexivity. Qed.
Theorem C01_erank_uniform : forall (G0 Gl : core R) (mids : list (core R)) (r : nat),
  mids <> [] -> Forall (fun G => 1 <= cn G)%nat mids -> (1 <= r)%nat ->
  cr1 G0 = 1%nat -> cr2 G0 = r -> Forall (fun G => cr1 G = r /\ cr2 G = r) mids -> cr1 Gl = r ->
  erank OR01 (G0 :: mids ++ [Gl]) = INR r.
Proof. exact erank_uniform. Qed.

(* uniform mean (default weights ones(k)/k):  (sum of all entries) / (number of entries of the dense array) *)
Theorem C01_mean_uniform_spec : forall Y : list (core R), chain 1 Y 1 ->
  mean OR01 Y None true = msum OR01 (shape Y) (get OR01 Y) / INR (length (full OR01 Y)).
Proof. exact mean_uniform_spec. Qed.
Theorem C01_mean_count_pos : forall Y : list (core R), Forall (fun G => 1 <= cn G)%nat Y -> 0 < INR (length (full OR01 Y)).
Proof. exact count_pos. Qed.
Theorem C01_mean_default : forall (T : Type) (K : ops T) (Y : list (core T)), mean K Y None true = mean_u K Y.
Proof. exact @mean_default_mean_u. Qed.

(* interface of Model/Interface.v (what the correspondence executes) with an index and norm=None, over any
   commutative ring: it is the list of partial products; entry a of the k-th right vector is
   (G_k[i_k] ... G_{d-1}[i_{d-1}])[a,0], the k-th left vector is the row vector [1] G_0[i_0] ... G_{k-1}[i_{k-1}] *)
Theorem C01_interface_none_right : forall (T : Type) (K : ops T), rng K -> forall Y idx, inb (shape Y) idx ->
  interface K Y None (Some idx) NormNone false = phi_r K Y idx.
Proof. exact @interface_none_right. Qed.
Theorem C01_interface_none_left : forall (T : Type) (K : ops T), rng K -> forall Y idx, inb (shape Y) idx ->
  interface K Y None (Some idx) NormNone true = phi_l K Y idx.
Proof. exact @interface_none_left. Qed.
Theorem C01_interface_right_entry : forall (T : Type) (K : ops T), rng K -> forall Y idx k a,
  wf 1 Y idx -> (k <= length Y)%nat -> (a < nth k (ranks Y) O)%nat ->
  nth a (nth k (interface K Y None (Some idx) NormNone false) []) (o0 K) =
  dget K (skipn k Y) (skipn k idx) (nth k (ranks Y) O) a O.
Proof. exact @interface_right_entry. Qed.
Theorem C01_interface_left_entry : forall (T : Type) (K : ops T), rng K -> forall Y idx k,
  wf 1 Y idx -> (k <= length Y)%nat ->
  nth k (interface K Y None (Some idx) NormNone true) [] = run K [o1 K] (firstn k Y) (firstn k idx).
Proof. exact @interface_left_entry. Qed.

(* norm='natural' (any P, any i, both sweeps): vector k of the result is vector k of the un-normalised interface
   divided by the product of the mode sizes swept so far (n_k ... n_{d-1} from the right, n_0 ... n_{k-1} from the left);
   the factor is positive when all mode sizes are >= 1 *)
Theorem C01_interface_natural_right : forall Y P i k, (k <= length Y)%nat ->
  nth k (interface OR01 Y P i NormNatural false) [] =
  vscale OR01 (/ INR (prodn (skipn k (shape Y)))) (nth k (interface OR01 Y P i NormNone false) []).
Proof. exact interface_natural_right. Qed.
Theorem C01_interface_natural_left : forall Y P i k, (k <= length Y)%nat ->
  nth k (interface OR01 Y P i NormNatural true) [] =
  vscale OR01 (/ INR (prodn (firstn k (shape Y)))) (nth k (interface OR01 Y P i NormNone true) []).
Proof. exact interface_natural_left. Qed.
Theorem C01_interface_natural_factor_pos : forall (Y : list (core R)) k, Forall (fun G => 1 <= cn G)%nat Y ->
  0 < / INR (prodn (skipn k (shape Y))) /\ 0 < / INR (prodn (firstn k (shape Y))).
Proof. exact natural_factor_pos. Qed.

(* norm='linalg' (any P, any i, both sweeps): wherever the un-normalised vector u_k is non-zero, the returned vector is
   u_k / ||u_k||_2 : a positive multiple of the true partial product, of Euclidean norm 1.  (Where u_k = 0 the code
   divides 0 by 0; no claim.)  The boundary vector ([1]) is returned as it is. *)
Theorem C01_interface_linalg_right : forall Y P i k, (k <= length Y)%nat ->
  ssq (nth k (interface OR01 Y P i NormNone false) []) <> 0 ->
  nth k (interface OR01 Y P i NormLinalg false) [] =
  vscale OR01 (/ sqrt (ssq (nth k (interface OR01 Y P i NormNone false) [])))
              (nth k (interface OR01 Y P i NormNone false) []) /\
  0 < / sqrt (ssq (nth k (interface OR01 Y P i NormNone false) [])) /\
  ssq (nth k (interface OR01 Y P i NormLinalg false) []) = 1.
Proof. exact interface_linalg_right. Qed.
Theorem C01_interface_linalg_left : forall Y P i k, (1 <= k <= length Y)%nat ->
  ssq (nth k (interface OR01 Y P i NormNone true) []) <> 0 ->
  nth k (interface OR01 Y P i NormLinalg true) [] =
  vscale OR01 (/ sqrt (ssq (nth k (interface OR01 Y P i NormNone true) [])))
              (nth k (interface OR01 Y P i NormNone true) []) /\
  0 < / sqrt (ssq (nth k (interface OR01 Y P i NormNone true) [])) /\
  ssq (nth k (interface OR01 Y P i NormLinalg true) []) = 1.
Proof. exact interface_linalg_left. Qed.
Theorem C01_interface_boundary : forall Y P i nm,
  nth (length Y) (interface OR01 Y P i nm false) [] = [1] /\ nth 0 (interface OR01 Y P i nm true) [] = [1].
Proof. exact interface_boundary. Qed.
(* ssq is the squared Euclidean norm; vscale c v multiplies every entry by c *)
Theorem C01_ssq_vscale_meaning : forall (v : list R) c,
  ssq v = bsum OR01 (length v) (fun j => nth j v 0 * nth j v 0) /\ vscale OR01 c v = map (fun x => c * x) v.
Proof. intros; split; [apply ssq_bsum|reflexivity]. Qed.

(* reported shape / ranks / size of a well-formed tensor: lengths, boundary ranks 1, ranks[k] / ranks[k+1] are the left /
   right rank of core k, size = sum_k ranks[k] * shape[k] * ranks[k+1] *)
Theorem C01_props_spec : forall (T : Type) (Y : list (core T)), chain 1 Y 1 ->
  length (shape Y) = length Y /\ length (ranks Y) = S (length Y) /\
  nth 0 (ranks Y) O = 1%nat /\ nth (length Y) (ranks Y) O = 1%nat /\
  (forall k, (k < length Y)%nat -> nth k (shape Y) O = cn (nth k Y (mk_core 0 0 0 [])) /\
                             nth k (ranks Y) O = cr1 (nth k Y (mk_core 0 0 0 [])) /\
                             nth (S k) (ranks Y) O = cr2 (nth k Y (mk_core 0 0 0 []))) /\
  size Y = fold_right Nat.add O (map (fun k => nth k (ranks Y) O * nth k (shape Y) O * nth (S k) (ranks Y) O)%nat
                                   (seq 0 (length Y))).
Proof. exact @props_spec. Qed.

(* ---- non-vacuity of the hypotheses of the Reals theorems: concrete tensors, concrete values ---- *)
Definition exRa : list (core R) := [mk_core 1 2 1 [[[1]; [1]]]; mk_core 1 1 1 [[[3]]]].        (* dense: [[3],[3]] *)
Definition exRb : list (core R) := [mk_core 1 2 1 [[[1]; [2]]]; mk_core 1 1 1 [[[3]]]].        (* dense: [[3],[6]] *)
Example C01R_example_norm_accuracy :
  chain 1 exRa 1 /\ chain 1 exRb 1 /\ same_shape exRa exRb /\ (2 <= length exRa)%nat /\ frob2 exRb <> 0 /\
  norm OR01 exRb = sqrt 45 /\ accuracy OR01 exRa exRb = sqrt 9 / sqrt 45 /\ erank OR01 exRb = 1 /\
  mean OR01 exRb None true = 9 / 2.
Proof.
  assert (C1 : chain 1 exRa 1) by (cbn; auto). assert (C2 : chain 1 exRb 1) by (cbn; auto).
  assert (HS : same_shape exRa exRb) by (repeat constructor).
  assert (Hd : (2 <= length exRa)%nat) by (cbn; lia).
  assert (F : frob2 exRb = 45) by (unfold frob2, exRb; cbn; lra).
  assert (D : dist2 exRa exRb = 9) by (unfold dist2, exRa, exRb; cbn; lra).
  assert (Hnz : frob2 exRb <> 0) by (rewrite F; lra).
  split; [exact C1|]. split; [exact C2|]. split; [exact HS|]. split; [exact Hd|]. split; [exact Hnz|].
  split; [rewrite (norm_spec exRb C2); now rewrite F|].
  split; [destruct (accuracy_spec exRa exRb Hd C1 C2 HS Hnz) as [E _]; now rewrite E, D, F|].
  split; [rewrite C01_erank_d2 by reflexivity; reflexivity|].
  rewrite (C01_mean_uniform_spec exRb C2). cbn. lra.
Qed.
Example C01R_example_accuracy_on_data :
  accuracy_on_data OR01 exRa [[0; 0]; [1; 0]]%nat [0; 0] = -1 /\
  accuracy_on_data OR01 exRa [[0; 0]; [1; 0]]%nat [0; 4] = sqrt 10 / sqrt 16.
Proof.
  split.
  - apply (C01_accuracy_on_data_spec exRa [[0; 0]; [1; 0]]%nat [0; 0] eq_refl). repeat constructor.
  - destruct (proj2 (C01_accuracy_on_data_spec exRa [[0; 0]; [1; 0]]%nat [0; 4] eq_refl)) as [E _].
    + apply Exists_cons_tl, Exists_cons_hd. lra.
    + rewrite E. f_equal; f_equal; cbn; lra.
Qed.
(* d = 3: a uniform profile (1,2,2,1) has effective rank 2; the profile (1,2,3,1) on shape (2,2,2) has the irrational
   effective rank sqrt(12) - 1 (the root of 2 x^2 + 4 x = 22) *)
Definition exRc : list (core R) :=
  [mkcore 1 2 2 (fun _ _ _ => 1); mkcore 2 3 2 (fun _ _ _ => 1); mkcore 2 2 1 (fun _ _ _ => 1)].
Definition exRd : list (core R) :=
  [mkcore 1 2 2 (fun _ _ _ => 1); mkcore 2 2 3 (fun _ _ _ => 1); mkcore 3 2 1 (fun _ _ _ => 1)].
Example C01R_example_erank :
  (3 <= length exRc)%nat /\ Forall (fun G => 1 <= cn G)%nat exRc /\ chain 1 exRc 1 /\ erank OR01 exRc = 2 /\
  (3 <= length exRd)%nat /\ Forall (fun G => 1 <= cn G)%nat exRd /\ chain 1 exRd 1 /\ erank OR01 exRd = sqrt 12 - 1.
Proof.
  assert (Lc : (3 <= length exRc)%nat) by (cbn; lia). assert (Ld : (3 <= length exRd)%nat) by (cbn; lia).
  assert (Fc : Forall (fun G => 1 <= cn G)%nat exRc) by (repeat constructor).
  assert (Fd : Forall (fun G => 1 <= cn G)%nat exRd) by (repeat constructor).
  split; [exact Lc|]. split; [exact Fc|]. split; [cbn; auto|]. split.
  { symmetry. apply (proj2 (proj2 (C01_erank_spec exRc Lc Fc))); [lra|cbn; lra]. }
  split; [exact Ld|]. split; [exact Fd|]. split; [cbn; auto|].
  symmetry. pose proof (sqrt_sqrt 12 ltac:(lra)) as Hq. pose proof (sqrt_pos 12) as Hp.
  assert (1 <= sqrt 12) by nra.
  apply (proj2 (proj2 (C01_erank_spec exRd Ld Fd))); [lra|cbn; nra].
Qed.
(* interfaces of exRb at the index (1,0): un-normalised right vectors [6],[3],[1]; natural: [6/(2*1)], [3/1], [1];
   linalg: [1],[1],[1] *)
Example C01R_example_interface :
  wf 1 exRb [1; 0]%nat /\
  interface OR01 exRb None (Some [1; 0]%nat) NormNone false = [[6]; [3]; [1]] /\
  ssq (nth 0 (interface OR01 exRb None (Some [1; 0]%nat) NormNone false) []) <> 0 /\
  nth 0 (interface OR01 exRb None (Some [1; 0]%nat) NormNatural false) [] = [3] /\
  nth 0 (interface OR01 exRb None (Some [1; 0]%nat) NormLinalg false) [] = [1] /\
  nth 1 (interface OR01 exRb None (Some [1; 0]%nat) NormLinalg true) [] = [1].
Proof.
  assert (U : interface OR01 exRb None (Some [1; 0]%nat) NormNone false = [[6]; [3]; [1]]) by (cbn; repeat f_equal; lra).
  assert (UL : nth 1 (interface OR01 exRb None (Some [1; 0]%nat) NormNone true) [] = [2]) by (cbn; repeat f_equal; lra).
  split; [cbn; lia|]. split; [exact U|]. split; [rewrite U; cbn; lra|]. split; [|split].
  - rewrite C01_interface_natural_right by (cbn; lia). rewrite U. cbn. f_equal. lra.
  - destruct (C01_interface_linalg_right exRb None (Some [1; 0]%nat) O) as [E _]; [cbn; lia|rewrite U; cbn; lra|].
    rewrite E, U. cbn [nth ssq vscale map]. r01. replace (6 * 6 + 0) with (6 * 6) by ring. rewrite sqrt_square by lra.
    f_equal. field.
  - destruct (C01_interface_linalg_left exRb None (Some [1; 0]%nat) 1%nat) as [E _]; [cbn; lia|rewrite UL; cbn; lra|].
    rewrite E, UL. cbn [nth ssq vscale map]. r01. replace (2 * 2 + 0) with (2 * 2) by ring. rewrite sqrt_square by lra.
    f_equal. field.
Qed.

(* interface with ANY weights P and / or index i, norm=None, over any commutative ring: the fully contracted vector of
   either sweep (vector 0 from the right, vector d from the left) is  sum_idx (prod_k w_k[idx_k]) * Y[idx],  where w_k
   is the mode-k weight vector the code contracts with (omega: ones / p_k / e_{i_k} / p_k[i_k] e_{i_k}) *)
Theorem C01_interface_total : forall (T : Type) (K : ops T), rng K -> forall Y P i, chain 1 Y 1 ->
  nth O (nth O (interface K Y P i NormNone false) []) (o0 K) =
    msum K (shape Y) (fun idx => omul K (pw K (Wof K Y P i) idx) (get K Y idx)) /\
  nth O (nth (length Y) (interface K Y P i NormNone true) []) (o0 K) =
    msum K (shape Y) (fun idx => omul K (pw K (Wof K Y P i) idx) (get K Y idx)).
Proof. exact @interface_total. Qed.
Theorem C01_interface_weights : forall (T : Type) (K : ops T) Y P i k, (k < length Y)%nat ->
  nth k (Wof K Y P i) [] = omega K (cn (nth k Y (mk_core 0 0 0 []))) (optnth P k) (optnth i k).
Proof. exact @Wof_nth. Qed.
(* <Y1 - Y2, Y1 - Y2> computed through sub and mul_scalar = sum over all multi-indices of (Y1[idx] - Y2[idx])^2, over any
   commutative ring (with C01_mul_scalar_spec this turns the norms used by the stabilised accuracy of C16 into dense ones) *)
Theorem C01_mul_scalar_sub_spec : forall (T : Type) (K : ops T), rng K -> forall Y1 Y2 : list (core T),
  (2 <= length Y1)%nat -> chain 1 Y1 1 -> chain 1 Y2 1 -> same_shape Y1 Y2 ->
  mul_scalar K (sub K Y1 Y2) (sub K Y1 Y2) =
  msum K (shape Y1) (fun idx => omul K (osub K (get K Y1 idx) (get K Y2 idx)) (osub K (get K Y1 idx) (get K Y2 idx))).
Proof. exact @mul_scalar_sub_spec. Qed.
