(* C12 — Chebyshev interpolation is exact on polynomials.  Only statements, each closed by [exact] (or one line of glue).
   Part I  : ring-generic statements (every commutative ring / every field-like number structure K).
   Part II : statements at the reals R (OR), where cs N m = cos(pi m/N), sn N m = sin(pi m/N) (csR, snR).
   Notation: chain 1 Y 1 = the cores of Y have matching ranks, outer ranks 1;  inb ns idx = multi-index inside the shape;
   get K Y idx = entry of the TT-tensor;  tget K A idx = entry of a dense array;  tfull K Y = dense array of Y. *)
From Coq Require Import List Arith Lia PeanoNat ZArith Bool Reals QArith Qcanon.
From TV Require Import Num.Ops Lin.Tab Lin.BigSum Lin.Mat TT.Chain Model.Func Model.FuncFull
  Proofs.FuncP Proofs.FuncFullP Proofs.FuncTrigP Proofs.FuncExactP Proofs.FuncWeightsP Proofs.FuncInt1P Proofs.FuncIntDP Proofs.FuncSpanP Proofs.FuncDiffP Proofs.FuncDiff1P
  Proofs.FuncGenExP Proofs.FuncGenTTP.
Import ListNotations.
Local Open Scope nat_scope.

(* ================================================================ Part I: ring-generic *)

(* func_basis computes the Chebyshev polynomials: T_0 = 1, T_1 = x, T_{k+2} = 2 x T_{k+1} - T_k (any commutative ring) *)
Theorem C12_basis_cheb : forall T (K : ops T), rng K -> forall x,
  (forall m k, k < m -> nth k (func_basis1 K x m) (o0 K) = chebT K x k) /\
  chebT K x 0 = o1 K /\ chebT K x 1 = x /\
  forall k, chebT K x (S (S k)) = osub K (omul K (omul K (ftwo K) x) (chebT K x (S k))) (chebT K x k).
Proof.
  intros T K Rth x. split; [intros; now apply nth_func_basis1|]. split; [reflexivity|]. split; [reflexivity|].
  exact (chebT_SS K x).
Qed.

(* modewise_linear: applying matrices M_k to the mode axes of the cores applies them mode-wise to the tensor *)
Theorem C12_modewise_linear : forall T (K : ops T), rng K -> forall Y Ms idx,
  chain 1 Y 1 -> length Ms = length Y -> inb (map fst Ms) idx ->
  get K (tmode K Ms Y) idx = msum K (shape Y) (fun jdx => omul K (mprod K (map snd Ms) idx jdx) (get K Y jdx)).
Proof. exact (@modewise_linear). Qed.

(* func_get inside the box (not skipped) = the polynomial  sum_m A[m] prod_k T_{m_k}(scaled x_k) ;
   func_gets on any grid = that polynomial at the nodes;  func_sum = prod (b_k-a_k)/2 * sum_m A[m] prod_k w_{m_k} *)
Theorem C12_func_get_poly : forall T (K : ops T), rng K -> forall tol x A a b z skip, chain 1 A 1 ->
  length x = length A -> length a = length A -> length b = length A -> skip && out_box K tol x a b = false ->
  func_get1 K tol x A a b z skip = polyv K (shape A) (get K A) (scaled K x a b).
Proof. exact (@func_get1_in). Qed.
Theorem C12_func_gets_poly : forall T (K : ops T), rng K -> forall cs sn A ms jdx,
  chain 1 A 1 -> length ms = length A -> inb ms jdx ->
  get K (func_gets K cs sn A ms Cheb) jdx = polyv K (shape A) (get K A) (nodesU K cs ms jdx).
Proof. exact (@get_gets_cheb). Qed.
Theorem C12_func_sum_spec : forall T (K : ops T), rng K -> forall kind A a b,
  chain 1 A 1 -> length a = length A -> length b = length A ->
  func_sum K A a b kind = omul K (vol K a b) (msum K (shape A) (fun m => omul K (wsprod K kind m) (get K A m))).
Proof. exact (@func_sum_msum). Qed.

(* func_get with custom basis functions: ts = rows of values the user's functions returned at the point (first n_k kept) *)
Theorem C12_func_get_custom_spec : forall T (K : ops T), rng K -> forall tol x A a b z ts, chain 1 A 1 -> length ts = length A ->
  func_get1_rows K tol x A a b z false ts = msum K (shape A) (fun idx => omul K (bprod K ts idx) (get K A idx)).
Proof. intros. unfold func_get1_rows. cbn [andb]. now apply contract_basis_msum. Qed.

(* fill value: a skipped point receives z (TT and dense);  skipping is decided by out_box (Part II says when) *)
Theorem C12_fill_value : forall T (K : ops T) tol x A a b z, out_box K tol x a b = true -> func_get1 K tol x A a b z true = z.
Proof. exact (@func_get1_out). Qed.
Theorem C12_fill_value_full : forall T (K : ops T) tol x ns A a b z, out_box K tol x a b = true ->
  func_get_full1 K tol x ns A a b z true = z.
Proof. exact (@func_get_full1_out). Qed.

(* tt_eq_dense, evaluation: func_get on a TT-tensor = func_get_full on its dense array, at every point (in or out) *)
Theorem C12_tt_eq_dense_get : forall T (K : ops T), rng K -> forall tol x A a b z skip, chain 1 A 1 ->
  length x = length A -> length a = length A -> length b = length A ->
  func_get_full1 K tol x (shape A) (tfull K A) a b z skip = func_get1 K tol x A a b z skip.
Proof. exact (@func_get_tt_eq_dense). Qed.

(* func_sum_full raises ValueError as soon as one dimension fails the symmetry test | |b_k| - |a_k| | <= 1e-16 *)
Theorem C12_sum_full_rejects : forall T (K : ops T) tol16 ns A a b,
  existsb (fun p => asym K tol16 (fst p) (snd p)) (combine a b) = true -> func_sum_full K tol16 ns A a b = Err ValueError.
Proof. exact (@func_sum_full_rejects). Qed.

(* the Chebyshev transform needs n_k >= 2 (scipy's DCT-I raises for a length-1 axis) *)
Theorem C12_func_int_needs_two : forall T (K : ops T) cs sn Y,
  ~ Forall (fun G => 2 <= cn G) Y -> func_int K cs sn Y Cheb = Err OtherError.
Proof. exact (@func_int_cheb_err). Qed.

(* func_int_general, for every routine lstsq that meets the contract AT THE CALL (lstsq_ok k H M: "if H Q = M is
   consistent, the returned Q has the right shape and zero residual"; gmat G is the right-hand side the code builds):
   data whose mode fibres lie in the span of the basis matrix H are reproduced at the sample points, and with full column
   rank the fitted coefficient core IS the coefficient core (core by core, and for the whole TT-tensor) *)
Theorem C12_general_core_reproduces : forall T (K : ops T) lstsq k H G C,
  lstsq_ok K lstsq k H (gmat K G) -> in_span K H G C ->
  ceq K (cmode K (mr H) (mget K H) (general_core K lstsq k H G)) G.
Proof. exact (@general_core_reproduces). Qed.
Theorem C12_general_core_exact : forall T (K : ops T) lstsq k H G C,
  lstsq_ok K lstsq k H (gmat K G) -> in_span K H G C -> full_col_rank K H -> ceq K (general_core K lstsq k H G) C.
Proof. exact (@general_core_exact). Qed.
Theorem C12_int_general_exact : forall T (K : ops T) lstsq, (forall k H M, lstsq_ok K lstsq k H M) ->
  forall Y Hs Cs, Forall2 (fun HG C => in_span K (fst HG) (snd HG) C /\ full_col_rank K (fst HG)) (combine Hs Y) Cs ->
  length Hs = length Y ->
  Forall2 (ceq K) (func_int_general K lstsq Y Hs) Cs /\
  forall idx, inb (shape (func_int_general K lstsq Y Hs)) idx -> get K (func_int_general K lstsq Y Hs) idx = get K Cs idx.
Proof.
  intros T K lstsq Hl Y Hs Cs HF L. pose proof (general_from_exact K lstsq Hl Y Hs Cs O HF L) as H.
  split; [exact H|]. intros idx Hi. now apply get_ceq.
Qed.
(* whole TT-tensor, custom basis: Cs = coefficient TT-tensor of ANY function in the span, Hs = basis matrices (values of
   the basis functions at the sample points, full column rank), Y = its samples.  Then Y IS the sampled function, the fit
   returns Cs, and func_get with the user's basis functions (ts = their values at the point) returns the function. *)
Theorem C12_int_general_tt_exact : forall T (K : ops T), rng K -> forall lstsq, (forall k H M, lstsq_ok K lstsq k H M) ->
  forall Y Hs Cs, chain 1 Cs 1 ->
  Forall2 (fun HG C => in_span K (fst HG) (snd HG) C /\ full_col_rank K (fst HG)) (combine Hs Y) Cs ->
  length Hs = length Y ->
  let A := func_int_general K lstsq Y Hs in
  (forall idx, inb (shape Y) idx ->
     get K Y idx = msum K (shape Cs) (fun m => omul K (mprod K (map snd (Hms K Hs)) idx m) (get K Cs m))) /\
  chain 1 A 1 /\ shape A = shape Cs /\ (forall m, inb (shape Cs) m -> get K A m = get K Cs m) /\
  (forall tol x a b z ts, length ts = length Cs ->
     func_get1_rows K tol x A a b z false ts = msum K (shape Cs) (fun m => omul K (bprod K ts m) (get K Cs m))).
Proof. exact (@int_general_tt_exact). Qed.

(* non-vacuity: identity basis matrix over any ring, and a concrete instance over Qc *)
Theorem C12_general_hyp_sat : forall T (K : ops T), rng K -> forall k G,
  lstsq_ok K ls_id k (mid K (cn G)) (gmat K G) /\ in_span K (mid K (cn G)) G G /\ full_col_rank K (mid K (cn G)).
Proof.
  intros T K Rth k G. split; [exact (ls_id_ok K Rth k (gmat K G))|]. split; [now apply in_span_id | now apply full_col_rank_id].
Qed.
Example C12_general_nonvacuous :
  lstsq_ok OQc ls_id 0 (mid OQc 2) (gmat OQc exG) /\ in_span OQc (mid OQc 2) exG exG /\ full_col_rank OQc (mid OQc 2) /\
  ceq OQc (general_core OQc ls_id 0 (mid OQc 2) exG) exG.
Proof. exact general_example. Qed.

(* ================================================================ Part II: at the reals *)

(* T_k(cos t) = cos(k t) for the polynomials func_basis computes *)
Theorem C12_basis_cheb_cos : forall t k, chebT OR (cos t) k = cos (INR k * t).
Proof. exact chebT_cos'. Qed.

(* DCT-I orthogonality, every N >= 1, 0 <= a, b <= N.  SS2 N a b = sum_{j=0..N} e_j cos(pi j a/N) cos(pi j b/N) with
   e_0 = e_N = 1, e_j = 2 otherwise (twice the sum with halved end terms) *)
Theorem C12_dct_orthogonal : forall N a b, 1 <= N -> a <= N -> b <= N ->
  SS2 N a b = if Nat.eqb a b then (if Nat.eqb a 0 || Nat.eqb a N then 2 * INR N else INR N)%R else 0%R.
Proof. exact dct_orthogonal. Qed.
(* DST-I orthogonality, 1 <= a, b <= M-1: SSs M a b = 2 sum_{j=1..M-1} sin(pi j a/M) sin(pi j b/M) *)
Theorem C12_dst_orthogonal : forall M a b, 1 <= a < M -> 1 <= b < M -> SSs M a b = if Nat.eqb a b then INR M else 0%R.
Proof. exact dst_orthogonal. Qed.

(* HEADLINE, TT format.  Y = values on the Chebyshev grid (sizes n_k >= 2) of the box [a, b] (a_k < b_k, symmetric or
   not) of the polynomial with Chebyshev coefficient tensor c (degree < n_k in x_k; c arbitrary, any TT-rank).  Then
   func_int succeeds and returns A with: entries of A = c;  func_get = the polynomial at every point of the box;
   func_gets on ANY new grid = the polynomial at the nodes of that grid;  func_gets on the same grid = Y. *)
Theorem C12_interp_exact : forall Y c a b, chain 1 Y 1 -> Forall (fun n => 2 <= n) (shape Y) ->
  length a = length Y -> length b = length Y -> Forall2 Rlt a b ->
  (forall jdx, inb (shape Y) jdx -> get OR Y jdx = cpoly (shape Y) c a b (gridpt a b (shape Y) jdx)) ->
  exists A, func_int OR csR snR Y Cheb = Ok A /\ chain 1 A 1 /\ shape A = shape Y /\
    (forall idx, inb (shape Y) idx -> get OR A idx = c idx) /\
    (forall tol x z skip, (0 <= tol)%R -> length x = length Y -> in_box x a b ->
       func_get1 OR tol x A a b z skip = cpoly (shape Y) c a b x) /\
    (forall ms jdx, length ms = length Y -> inb ms jdx ->
       get OR (func_gets OR csR snR A ms Cheb) jdx = cpoly (shape Y) c a b (gridpt a b ms jdx)) /\
    (forall jdx, inb (shape Y) jdx -> get OR (func_gets OR csR snR A (shape Y) Cheb) jdx = get OR Y jdx).
Proof. exact interp_exact. Qed.
(* non-vacuity: the hypotheses hold for the samples of EVERY coefficient TT-tensor C, and a concrete one exists *)
Theorem C12_interp_exact_hyp_sat : forall C a b, chain 1 C 1 -> length a = length C -> Forall2 Rlt a b ->
  let Y := func_gets OR csR snR C (shape C) Cheb in
  chain 1 Y 1 /\ shape Y = shape C /\
  forall jdx, inb (shape Y) jdx -> get OR Y jdx = cpoly (shape Y) (get OR C) a b (gridpt a b (shape Y) jdx).
Proof. exact interp_hyp_sat. Qed.
Example C12_interp_exact_nonvacuous : exists Y c a b,
  chain 1 Y 1 /\ Forall (fun n => 2 <= n) (shape Y) /\ length a = length Y /\ length b = length Y /\ Forall2 Rlt a b /\
  (forall jdx, inb (shape Y) jdx -> get OR Y jdx = cpoly (shape Y) c a b (gridpt a b (shape Y) jdx)).
Proof. exact interp_hyp_example. Qed.

(* HEADLINE, dense format (func_int_full / func_get_full / func_gets_full), any number of dimensions incl. d = 1 *)
Theorem C12_interp_exact_full : forall ns Y c a b, Forall (fun n => 2 <= n) ns ->
  length a = length ns -> length b = length ns -> Forall2 Rlt a b ->
  (forall jdx, inb ns jdx -> tget OR Y jdx = cpoly ns c a b (gridpt a b ns jdx)) ->
  let A := func_int_full OR csR ns Y in
    (forall idx, inb ns idx -> tget OR A idx = c idx) /\
    (forall tol x z skip, (0 <= tol)%R -> length x = length ns -> in_box x a b ->
       func_get_full1 OR tol x ns A a b z skip = cpoly ns c a b x) /\
    (forall tol ms jdx, (0 <= tol)%R -> length ms = length ns -> inb ms jdx ->
       tget OR (func_gets_full OR csR tol ns A ms) jdx = cpoly ns c a b (gridpt a b ms jdx)).
Proof. exact interp_exact_full. Qed.

(* re-sampling on the same grid inverts the coefficient transform for ARBITRARY data (not only polynomials) *)
Theorem C12_resample_inverse_cheb : forall Y jdx, chain 1 Y 1 -> Forall (fun n => 2 <= n) (shape Y) -> inb (shape Y) jdx ->
  get OR (func_gets OR csR snR (map (int_core OR csR snR Cheb) Y) (shape Y) Cheb) jdx = get OR Y jdx.
Proof. exact resample_inverse_cheb. Qed.
(* sine kind: func_gets(func_int(Y, 'sin'), kind='sin') on the same grid is Y, any mode sizes *)
Theorem C12_resample_inverse_sin : forall Y jdx, chain 1 Y 1 -> inb (shape Y) jdx ->
  get OR (func_gets OR csR snR (map (int_core OR csR snR Sin) Y) (shape Y) Sin) jdx = get OR Y jdx.
Proof. exact resample_inverse_sin. Qed.
Theorem C12_func_int_sin_ok : forall Y, func_int OR csR snR Y Sin = Ok (map (int_core OR csR snR Sin) Y).
Proof. reflexivity. Qed.
(* the coefficient transform is linear *)
Theorem C12_int_linear : forall Y Y1 Y2 al be idx,
  chain 1 Y 1 -> chain 1 Y1 1 -> chain 1 Y2 1 -> shape Y1 = shape Y -> shape Y2 = shape Y ->
  Forall (fun n => 2 <= n) (shape Y) -> inb (shape Y) idx ->
  (forall jdx, inb (shape Y) jdx -> get OR Y jdx = (al * get OR Y1 jdx + be * get OR Y2 jdx)%R) ->
  get OR (map (int_core OR csR snR Cheb) Y) idx =
  (al * get OR (map (int_core OR csR snR Cheb) Y1) idx + be * get OR (map (int_core OR csR snR Cheb) Y2) idx)%R.
Proof. exact int_cheb_linear_R. Qed.

(* points of the box are never skipped (any tolerance >= 0), points that leave it by more than the tolerance in one
   coordinate get the fill value (TT and dense) *)
Theorem C12_in_box_not_skipped : forall tol x a b, (0 <= tol)%R -> length a = length x -> length b = length x ->
  in_box x a b -> out_box OR tol x a b = false.
Proof. exact out_box_in. Qed.
Theorem C12_fill_value_R : forall tol x A a b z k, k < length x -> k < length a -> k < length b ->
  (tol < nth k a 0 - nth k x 0 \/ tol < nth k x 0 - nth k b 0)%R -> func_get1 OR tol x A a b z true = z.
Proof. exact get_fill. Qed.
Theorem C12_fill_value_full_R : forall tol x ns A a b z k, k < length x -> k < length a -> k < length b ->
  (tol < nth k a 0 - nth k x 0 \/ tol < nth k x 0 - nth k b 0)%R -> func_get_full1 OR tol x ns A a b z true = z.
Proof. exact get_full_fill. Qed.

(* optional arguments of func_get (func_get_opt models the resolution of a=None, b=None, skip_out=None): an explicit
   skip_out flag is always honoured, whatever bounds were given or left at their default [-1, 1]; without a flag points
   are skipped iff both bounds were given; with the default box and skip_out=True outside points get z *)
Theorem C12_skip_out_resolution : forall T (K : ops T) tol X A a b z,
  (forall s, func_get_opt K tol X A a b z (Some s) =
     func_get K tol X A (match a with Some l => l | None => repeat (fm1 K) (length A) end)
                        (match b with Some l => l | None => repeat (o1 K) (length A) end) z s) /\
  (forall la lb, func_get_opt K tol X A (Some la) (Some lb) z None = func_get K tol X A la lb z true) /\
  func_get_opt K tol X A None None z None = func_get K tol X A (repeat (fm1 K) (length A)) (repeat (o1 K) (length A)) z false.
Proof. intros. repeat split. Qed.
Theorem C12_fill_value_default_box_R : forall tol x A z k, k < length x -> k < length A ->
  (tol < -1 - nth k x 0 \/ tol < nth k x 0 - 1)%R -> func_get_opt OR tol [x] A None None z (Some true) = [z].
Proof. exact get_opt_default_fill. Qed.

(* tt_eq_dense: coefficients, re-sampling, integral (evaluation is C12_tt_eq_dense_get) *)
Theorem C12_tt_eq_dense_int : forall Y idx, chain 1 Y 1 -> Forall (fun n => 2 <= n) (shape Y) -> inb (shape Y) idx ->
  tget OR (func_int_full OR csR (shape Y) (tfull OR Y)) idx = get OR (map (int_core OR csR snR Cheb) Y) idx.
Proof. exact func_int_tt_eq_dense_R. Qed.
Theorem C12_tt_eq_dense_gets : forall tol A ms jdx, chain 1 A 1 -> (0 <= tol)%R -> length ms = length A -> inb ms jdx ->
  tget OR (func_gets_full OR csR tol (shape A) (tfull OR A) ms) jdx = get OR (func_gets OR csR snR A ms Cheb) jdx.
Proof. exact func_gets_tt_eq_dense. Qed.
Theorem C12_tt_eq_dense_sum : forall tol16 A a b, chain 1 A 1 -> length a = length A -> length b = length A ->
  existsb (fun p => asym OR tol16 (fst p) (snd p)) (combine a b) = false ->
  func_sum_full OR tol16 (shape A) (tfull OR A) a b = Ok (func_sum OR A a b Cheb).
Proof. exact func_sum_tt_eq_dense_R. Qed.

(* the weights of func_sum / func_sum_full are the integrals of the Chebyshev polynomials over [-1, 1], EVERY k:
   w_k = 2/(1-k^2) for even k, 0 for odd k, equals P(1) - P(-1) for an antiderivative P of T_k on R *)
Theorem C12_cheb_weights : forall k, exists P : R -> R,
  (forall x, derivable_pt_lim P x (chebT OR x k)) /\ (P 1 - P (-1))%R = wsum OR Cheb k.
Proof. exact cheb_weights. Qed.
Theorem C12_cheb_weights_value : forall k, wsum OR Cheb k = if Nat.even k then (2 / (1 - INR k * INR k))%R else 0%R.
Proof. exact wsum_cheb_R. Qed.

(* the exactness class: every sum of products of one-variable polynomials p_{t,k} of degree < n_k (given by monomial
   coefficients) is cpoly ns c a b for some coefficient tensor c, so C12_interp_exact(_full) covers all of them *)
Theorem C12_exactness_class : forall ns (terms : list (list (nat -> R))) a b,
  Forall (fun t => length t = length ns) terms -> length a = length ns -> length b = length ns ->
  exists c : list nat -> R, forall x, length x = length ns -> cpoly ns c a b x = sumprod ns terms (affs x a b).
Proof. exact exactness_class_box. Qed.
Theorem C12_poly_cheb_span : forall n (b : nat -> R), exists c : nat -> R,
  forall x, bsum OR n (fun q => (b q * x ^ q)%R) = bsum OR n (fun k => (c k * chebT OR x k)%R).
Proof. exact poly_cheb_span. Qed.

(* func_sum_full accepts every symmetric box (any tolerance >= 0 in the symmetry test) *)
Theorem C12_sum_full_accepts_symmetric : forall tol16 ns A b, (0 <= tol16)%R -> length b = length ns ->
  func_sum_full OR tol16 ns A (map Ropp b) b =
  Ok (omul OR (vol OR (map Ropp b) b) (msum OR ns (fun m => omul OR (wsprod OR Cheb m) (tget OR A m)))).
Proof. exact sum_full_accepts_symmetric. Qed.
(* integration, ANY d.  The integral is the ITERATED one:
     is_int f a b v  :=  exists F, (forall x, F'(x) = f(x)) /\ F(b) - F(a) = v          (one variable, Newton integral)
     is_iint a b f v :=  v = int_{a1}^{b1} ( int_{a2}^{b2} ( ... f(x1, x2, ...) ... ) dx2 ) dx1, by recursion over the
                         variables: exists g, (forall x1, is_iint a' b' (f(x1, .)) (g x1)) /\ is_int g a1 b1 v
   (single-valued: C12_iint_unique).  func_sum (any box a_k < b_k) and func_sum_full (symmetric boxes) return the
   iterated integral over the box of the polynomial with coefficient tensor A, i.e. of the function func_get /
   func_get_full evaluate in the box (C12_interp_exact). *)
Theorem C12_sum_exact : forall A a b, chain 1 A 1 -> length a = length A -> length b = length A -> Forall2 Rlt a b ->
  is_iint a b (cpoly (shape A) (get OR A) a b) (func_sum OR A a b Cheb).
Proof. exact sum_exact. Qed.
Theorem C12_sum_full_exact : forall tol16 ns A b, (0 <= tol16)%R -> length b = length ns -> Forall (fun bk => (0 < bk)%R) b ->
  exists v, func_sum_full OR tol16 ns A (map Ropp b) b = Ok v /\
            is_iint (map Ropp b) b (cpoly ns (tget OR A) (map Ropp b) b) v.
Proof. exact sum_full_exact. Qed.
Theorem C12_iint_cpoly : forall ns a b c, Forall2 Rlt a b -> length a = length ns ->
  is_iint a b (cpoly ns c a b) (vol OR a b * msum OR ns (fun m => wsprod OR Cheb m * c m))%R.
Proof. exact iint_cpoly. Qed.
Theorem C12_iint_unique : forall a b f v w, Forall2 Rle a b -> is_iint a b f v -> is_iint a b f w -> v = w.
Proof. exact is_iint_unique. Qed.
(* one variable, as a special case with the antiderivative exhibited *)
Theorem C12_sum_exact_1d : forall G a b, chain 1 [G] 1 -> (a < b)%R -> exists F : R -> R,
  (forall x, derivable_pt_lim F x (cpoly [cn G] (get OR [G]) [a] [b] [x])) /\ (F b - F a)%R = func_sum OR [G] [a] [b] Cheb.
Proof. exact sum_exact_1d. Qed.

(* ================================================================ Part III: func_diff_matrix *)
(* every box, every n, m: the s-th returned matrix = s-th iterate of the box-independent recursion * (2/(b-a))^(s+1) *)
Theorem C12_diff_matrix_scaling : forall T (K : ops T) ss a b n m s dflt, s < m ->
  nth s (func_diff_matrix K ss a b n m) dflt =
  mkmat n n (fun r c => omul K (mget K (diff_iter K n (diff_Z K ss n) (diff_C K n) (mid K n) 0 s) r c)
                               (fpow K (odiv K (ftwo K) (osub K b a)) (0 + s + 1))).
Proof. intros. unfold func_diff_matrix. now apply nth_diff_loop. Qed.
(* PARTIAL (only n in {2,3,4}, derivative orders 1..3; exact rational nodes 1, 1/2, 0, -1/2, -1; Qc arithmetic):
   for EVERY box and EVERY polynomial p(x) = sum_{q<n} c_q x^q, the (s+1)-th matrix applied to the values of p at the
   nodes gives (2/(b-a))^(s+1) p^(s+1) at the nodes.  Missing: orders 2, 3, ... for general n (order 1 is C12_diff1_exact, every
   n; higher orders for n > 4 are validated numerically by the search). *)
Theorem C12_diff_matrix_exact_partial : forall n s m a b (c : nat -> Qc) i, n = 2 \/ n = 3 \/ n = 4 -> s < 3 -> s < m -> i < n ->
  bsum OQc n (fun j => omul OQc
      (mget OQc (nth s (func_diff_matrix OQc ss_Qc a b n m) (mkmat 0 0 (fun _ _ => o0 OQc))) i j)
      (pval n c (xnode n j))) =
  omul OQc (fpow OQc (odiv OQc (ftwo OQc) (osub OQc b a)) (s + 1)) (pder n (s + 1) c (xnode n i)).
Proof. exact diff_exact_small. Qed.

(* FULL for the FIRST derivative, at the reals: every n = N+1 >= 2, every box, every m >= 1, every polynomial
   p(x) = sum_{q<n} c_q x^q (pvalR; pderR is its derivative, C12_pval_deriv): the first matrix func_diff_matrix returns,
   applied to the values of p at the nodes x_j = cos(pi j/N), gives 2/(b-a) * p'(x_r) for every node.
   (What the code computes: D[r,c] = (c_r/c_c)(-1)^(r+c)/(x_r - x_c) off the diagonal with the flipped, numerically stable
   node differences, diagonal = minus the row sum; C12_diff1_entries.)  Orders 2, 3, ...: the code uses the recursion
   D_(i+1)[r,c] = (i+1) Z[r,c] (C[r,c] D_i[r,r] - D_i[r,c]), diagonal = minus row sums; its exactness is proved only for
   n in {2,3,4} (C12_diff_matrix_exact_partial). *)
Theorem C12_diff1_exact : forall N m a b (c : nat -> R) r, 1 <= N -> 1 <= m -> r <= N ->
  bsum OR (S N) (fun j => (mget OR (nth 0 (func_diff_matrix OR ssR a b (S N) m) (mkmat 0 0 (fun _ _ => 0%R))) r j
                          * pvalR (S N) c (xN N j))%R) =
  (2 / (b - a) * pderR (S N) c (xN N r))%R.
Proof. exact diff1_exact. Qed.
Theorem C12_diff1_entries : forall N r c, 1 <= N -> r <= N -> c <= N ->
  mget OR (raw1 N) r c = if Nat.eqb r c then (- bsum OR (S N) (fun c' => d1 N r c'))%R else d1 N r c.
Proof. exact raw1_entry. Qed.
Theorem C12_pval_deriv : forall c x n, derivable_pt_lim (pvalR n c) x (pderR n c x).
Proof. exact pvalR_deriv. Qed.
