(* C12 — Chebyshev interpolation is exact on polynomials.  Only statements, each closed by [exact]. *)
From Coq Require Import List Arith Lia PeanoNat ZArith.
From TV Require Import Num.Ops Lin.Tab Lin.BigSum Lin.Mat TT.Chain Model.Func Model.FuncFull Proofs.FuncP.
Import ListNotations.

(* func_basis computes the Chebyshev polynomials: T_0 = 1, T_1 = x, T_{k+2} = 2 x T_{k+1} - T_k (any commutative ring) *)
Theorem C12_basis_cheb : forall T (K : ops T), rng K -> forall x,
  (forall m k, k < m -> nth k (func_basis1 K x m) (o0 K) = chebT K x k) /\
  chebT K x 0 = o1 K /\ chebT K x 1 = x /\
  forall k, chebT K x (S (S k)) = osub K (omul K (omul K (ftwo K) x) (chebT K x (S k))) (chebT K x k).
Proof.
  intros T K Rth x. split; [intros; now apply nth_func_basis1|]. split; [reflexivity|]. split; [reflexivity|].
  exact (chebT_SS K x).
Qed.
