(* C14 — samplers.  Only statements, each closed by [exact]. *)
From Coq Require Import List Arith Lia PeanoNat.
From TV Require Import Num.Ops Lin.Tab TT.Chain Model.Sample Proofs.SampleP.
Import ListNotations.

Theorem C14_transpose_length : forall A (d0 : A) m cols, length (transpose d0 m cols) = m.
Proof. exact @transpose_length. Qed.
