(* C14 — samplers.  Only statements, each closed by [exact] (or one line of glue). *)
From Coq Require Import List Arith Lia PeanoNat ZArith QArith Qcanon Permutation.
From TV Require Import Num.Ops Lin.Tab Lin.BigSum TT.Chain Model.Sample Proofs.SampleP Proofs.SampleIntP.
Import ListNotations.
Open Scope nat_scope.

(* ---- sample: the conditionals handed to choice multiply to entry/total ----
   For every number structure with the ring laws, a/b = a*(1/b), b*(1/b) = 1 for b <> 0, a decidable
   equality test and an order test compatible with + (Qc and the reals are instances), every generator
   (choice returns an index below len(p)), every non-negative TT-tensor Y with d >= 1 modes, every m and
   every unsert u >= 0: if sample returns (II, P) then there are m rows and, for each row j, the drawn
   multi-index idx is inside the bounds, each of the d vectors handed to choice sums to 1 and the product
   of their entries along idx satisfies
       prod * marg0(i0) = ((marg0(i0) + u) / (total + n0*u)) * Y[idx]      (exact formula, any u)
       prod = Y[idx] / total                                              (u = 0). *)
Theorem C14_sample_chain : forall T (K : ops T), rng K -> field_laws K -> order_laws K ->
  forall ch, choice_ok ch -> forall Y m u II P,
  chain 1 Y 1 -> (forall idx, inb (shape Y) idx -> nn K (get K Y idx)) -> nn K u ->
  sample K ch Y m u = Ok (II, P) ->
  length II = m /\ length P = m /\
  forall j, j < m ->
    let idx := nth j II [] in let Pj := nth j P [] in
    inb (shape Y) idx /\ length Pj = length Y /\ Forall (fun p => lsum K p = o1 K) Pj /\
    omul K (lprod K (along (o0 K) idx Pj)) (marg0 K Y (hd O idx)) =
      omul K (odiv K (oadd K (marg0 K Y (hd O idx)) u)
                     (oadd K (total K Y) (bsum K (hd O (shape Y)) (fun _ => u)))) (get K Y idx) /\
    (u = o0 K -> lprod K (along (o0 K) idx Pj) = odiv K (get K Y idx) (total K Y)) /\
    (tl Y <> [] -> marg0 K Y (hd O idx) <> o0 K).
Proof. exact @sample_chain. Qed.

(* non-vacuity of the laws: the exact rationals the correspondence runs on satisfy them *)
Example C14_laws_Qc : rng OQc /\ field_laws OQc /\ order_laws OQc.
Proof. exact (conj OQc_rng (conj OQc_field_laws OQc_order_laws)). Qed.

(* ---- sample_lhs ---- *)
(* shape [m, d] and bounds, for every generator meeting the contract of choice(replace=False) / shuffle *)
Theorem C14_sample_lhs_shape : forall chnr shuf1,
  (forall c k s, s <= k -> length (chnr c k s) = s /\ NoDup (chnr c k s) /\ Forall (fun x => x < k) (chnr c k s)) ->
  (forall c l, Permutation l (shuf1 c l)) ->
  forall base ns m, Forall (fun k => 1 <= k) ns ->
  length (sample_lhs chnr shuf1 base ns m) = m /\
  forall j, j < m -> inb ns (nth j (sample_lhs chnr shuf1 base ns m) []).
Proof. exact sample_lhs_shape. Qed.

(* every index v of mode i is used floor(m/n_i) times, or ceil(m/n_i) = floor + 1 times when n_i does not divide m *)
Theorem C14_lhs_counts : forall chnr shuf1,
  (forall c k s, s <= k -> length (chnr c k s) = s /\ NoDup (chnr c k s) /\ Forall (fun x => x < k) (chnr c k s)) ->
  (forall c l, Permutation l (shuf1 c l)) ->
  forall base ns m i v, Forall (fun k => 1 <= k) ns -> i < length ns -> v < nth i ns O ->
  let col := map (fun row => nth i row O) (sample_lhs chnr shuf1 base ns m) in
  length col = m /\
  (count_occ Nat.eq_dec col v = m / nth i ns O \/
   (count_occ Nat.eq_dec col v = S (m / nth i ns O) /\ m mod nth i ns O <> O)).
Proof. exact lhs_counts. Qed.

(* ---- sample_rand ---- *)
Theorem C14_sample_rand_shape : forall chu,
  (forall c k m, 1 <= k -> length (chu c k m) = m /\ Forall (fun x => x < k) (chu c k m)) ->
  forall ns m, Forall (fun k => 1 <= k) ns ->
  match sample_rand chu ns m with
  | Ok rows => ns <> [] /\ length rows = m /\ forall j, j < m -> inb ns (nth j rows [])
  | Err e => ns = [] /\ e = ValueError
  end.
Proof. exact sample_rand_shape. Qed.

(* ---- sample_tt: the advertised block layout (no contract on the generator needed) ----
   idx has d+1 entries starting at 0 and ending at the number of rows, idx_many[i] = number of right samples,
   block i has n_i * len_1 * len_2 rows and row (v*len_1 + a)*len_2 + c of it is  L1[a] ++ [v] ++ L2[c]
   where L1 / L2 are the sample_lhs blocks of the prefix n[:i] / suffix n[i+1:] (a single empty row where the
   code has no block: the prefix of mode 0 when d >= 2, the suffix of the last mode). *)
Theorem C14_tt_layout : forall chnr shuf1 ns r rows idx many,
  sample_tt chnr shuf1 ns r = (rows, idx, many) ->
  let d := length ns in
  length idx = S d /\ length many = d /\ nth O idx O = O /\ nth d idx O = length rows /\
  forall i, i < d ->
    let L1 := tt_L1 chnr shuf1 (i * (d - 1)) (firstn i ns) (skipn (S i) ns) r in
    let L2 := tt_L2 chnr shuf1 (i * (d - 1)) (firstn i ns) (skipn (S i) ns) r in
    nth i many O = length L2 /\
    nth (S i) idx O = nth i idx O + nth i ns O * (length L1 * length L2) /\
    forall v a c, v < nth i ns O -> a < length L1 -> c < length L2 ->
      nth (nth i idx O + (v * length L1 + a) * length L2 + c) rows [] = nth a L1 [] ++ v :: nth c L2 [].
Proof. exact tt_layout. Qed.

(* every row of sample_tt is a multi-index inside the bounds *)
Theorem C14_tt_bounds : forall chnr shuf1,
  (forall c k s, s <= k -> length (chnr c k s) = s /\ NoDup (chnr c k s) /\ Forall (fun x => x < k) (chnr c k s)) ->
  (forall c l, Permutation l (shuf1 c l)) ->
  forall ns r, Forall (fun k => 1 <= k) ns -> Forall (inb ns) (fst (fst (sample_tt chnr shuf1 ns r))).
Proof. exact tt_bounds. Qed.
