(* C14 — samplers.  Only statements, each closed by [exact] (or one line of glue). *)
From Coq Require Import List Arith Lia PeanoNat ZArith QArith Qcanon Permutation.
From TV Require Import Num.Ops Lin.Tab Lin.BigSum TT.Chain Model.Sample Proofs.SampleP Proofs.SampleIntP.
Import ListNotations.
Open Scope nat_scope.

(* ---- sample: the conditionals handed to choice multiply to entry/total ----
   For every number structure with the ring laws, a/b = a*(1/b), b*(1/b) = 1 for b <> 0, a decidable
   equality test and an order test compatible with + (Qc and the reals are instances), every generator
   (choice returns an index below len(p)), every non-negative TT-tensor Y with d >= 1 modes, every m and
   every unsert u >= 0: if sample returns (II, P) then there are m rows and, for each row j, the drawn
   multi-index idx is inside the bounds, each of the d vectors handed to choice sums to 1 and the product
   of their entries along idx satisfies
       prod * marg0(i0) = ((marg0(i0) + u) / (total + n0*u)) * Y[idx]      (exact formula, any u)
       prod = Y[idx] / total                                              (u = 0). *)
Theorem C14_sample_chain : forall T (K : ops T), rng K -> field_laws K -> order_laws K ->
  forall ch, choice_ok ch -> forall Y m u II P,
  chain 1 Y 1 -> (forall idx, inb (shape Y) idx -> nn K (get K Y idx)) -> nn K u ->
  sample K ch Y m u = Ok (II, P) ->
  length II = m /\ length P = m /\
  forall j, j < m ->
    let idx := nth j II [] in let Pj := nth j P [] in
    inb (shape Y) idx /\ length Pj = length Y /\ Forall (fun p => lsum K p = o1 K) Pj /\
    omul K (lprod K (along (o0 K) idx Pj)) (marg0 K Y (hd O idx)) =
      omul K (odiv K (oadd K (marg0 K Y (hd O idx)) u)
                     (oadd K (total K Y) (bsum K (hd O (shape Y)) (fun _ => u)))) (get K Y idx) /\
    (u = o0 K -> lprod K (along (o0 K) idx Pj) = odiv K (get K Y idx) (total K Y)) /\
    (tl Y <> [] -> marg0 K Y (hd O idx) <> o0 K).
Proof. exact @sample_chain. Qed.

(* non-vacuity of the laws: the exact rationals the correspondence runs on satisfy them *)
Example C14_laws_Qc : rng OQc /\ field_laws OQc /\ order_laws OQc.
Proof. exact (conj OQc_rng (conj OQc_field_laws OQc_order_laws)). Qed.

(* ---- sample_lhs ---- *)
(* shape [m, d] and bounds, for every generator meeting the contract of choice(replace=False) / shuffle *)
Theorem C14_sample_lhs_shape : forall chnr shuf1,
  (forall c k s, s <= k -> length (chnr c k s) = s /\ NoDup (chnr c k s) /\ Forall (fun x => x < k) (chnr c k s)) ->
  (forall c l, Permutation l (shuf1 c l)) ->
  forall base ns m, Forall (fun k => 1 <= k) ns ->
  length (sample_lhs chnr shuf1 base ns m) = m /\
  forall j, j < m -> inb ns (nth j (sample_lhs chnr shuf1 base ns m) []).
Proof. exact sample_lhs_shape. Qed.

(* every index v of mode i is used floor(m/n_i) times, or ceil(m/n_i) = floor + 1 times when n_i does not divide m *)
Theorem C14_lhs_counts : forall chnr shuf1,
  (forall c k s, s <= k -> length (chnr c k s) = s /\ NoDup (chnr c k s) /\ Forall (fun x => x < k) (chnr c k s)) ->
  (forall c l, Permutation l (shuf1 c l)) ->
  forall base ns m i v, Forall (fun k => 1 <= k) ns -> i < length ns -> v < nth i ns O ->
  let col := map (fun row => nth i row O) (sample_lhs chnr shuf1 base ns m) in
  length col = m /\
  (count_occ Nat.eq_dec col v = m / nth i ns O \/
   (count_occ Nat.eq_dec col v = S (m / nth i ns O) /\ m mod nth i ns O <> O)).
Proof. exact lhs_counts. Qed.

(* ---- sample_rand ---- *)
Theorem C14_sample_rand_shape : forall chu,
  (forall c k m, 1 <= k -> length (chu c k m) = m /\ Forall (fun x => x < k) (chu c k m)) ->
  forall ns m, Forall (fun k => 1 <= k) ns ->
  match sample_rand chu ns m with
  | Ok rows => ns <> [] /\ length rows = m /\ forall j, j < m -> inb ns (nth j rows [])
  | Err e => ns = [] /\ e = ValueError
  end.
Proof. exact sample_rand_shape. Qed.

(* ---- sample_tt: the advertised block layout (no contract on the generator needed) ----
   idx has d+1 entries starting at 0 and ending at the number of rows, idx_many[i] = number of right samples,
   block i has n_i * len_1 * len_2 rows and row (v*len_1 + a)*len_2 + c of it is  L1[a] ++ [v] ++ L2[c]
   where L1 / L2 are the sample_lhs blocks of the prefix n[:i] / suffix n[i+1:] (a single empty row where the
   code has no block: the prefix of mode 0 when d >= 2, the suffix of the last mode). *)
Theorem C14_tt_layout : forall chnr shuf1 ns r rows idx many,
  sample_tt chnr shuf1 ns r = (rows, idx, many) ->
  let d := length ns in
  length idx = S d /\ length many = d /\ nth O idx O = O /\ nth d idx O = length rows /\
  forall i, i < d ->
    let L1 := tt_L1 chnr shuf1 (i * (d - 1)) (firstn i ns) (skipn (S i) ns) r in
    let L2 := tt_L2 chnr shuf1 (i * (d - 1)) (firstn i ns) (skipn (S i) ns) r in
    nth i many O = length L2 /\
    nth (S i) idx O = nth i idx O + nth i ns O * (length L1 * length L2) /\
    forall v a c, v < nth i ns O -> a < length L1 -> c < length L2 ->
      nth (nth i idx O + (v * length L1 + a) * length L2 + c) rows [] = nth a L1 [] ++ v :: nth c L2 [].
Proof. exact tt_layout. Qed.

(* every row of sample_tt is a multi-index inside the bounds *)
Theorem C14_tt_bounds : forall chnr shuf1,
  (forall c k s, s <= k -> length (chnr c k s) = s /\ NoDup (chnr c k s) /\ Forall (fun x => x < k) (chnr c k s)) ->
  (forall c l, Permutation l (shuf1 c l)) ->
  forall ns r, Forall (fun k => 1 <= k) ns -> Forall (inb ns) (fst (fst (sample_tt chnr shuf1 ns r))).
Proof. exact tt_bounds. Qed.

(* non-vacuity of the generator contracts above + what the integer samplers compute with such a generator *)
Example C14_int_samplers_example :
  let chnr := fun (c k s : nat) => seq 0 s in
  let shuf1 := fun (c : nat) (l : list nat) => rev l in
  let chu := fun (c k m : nat) => repeat (k - 1) m in
  (forall c k s, s <= k -> length (chnr c k s) = s /\ NoDup (chnr c k s) /\ Forall (fun x => x < k) (chnr c k s)) /\
  (forall c l, Permutation l (shuf1 c l)) /\
  (forall c k m, 1 <= k -> length (chu c k m) = m /\ Forall (fun x => x < k) (chu c k m)) /\
  sample_lhs chnr shuf1 0 [2; 3] 5 = [[0; 1]; [1; 0]; [1; 2]; [0; 1]; [0; 0]] /\
  sample_tt chnr shuf1 [2; 3; 2] 2 =
    ([[0; 1; 1]; [0; 0; 0]; [1; 1; 1]; [1; 0; 0];
      [1; 0; 1]; [1; 0; 0]; [0; 0; 1]; [0; 0; 0]; [1; 1; 1]; [1; 1; 0]; [0; 1; 1]; [0; 1; 0];
      [1; 2; 1]; [1; 2; 0]; [0; 2; 1]; [0; 2; 0];
      [1; 1; 0]; [0; 0; 0]; [1; 1; 1]; [0; 0; 1]], [0; 4; 16; 20], [2; 2; 1]) /\
  sample_rand chu [2; 3] 2 = Ok [[1; 2]; [1; 2]].
Proof. exact int_samplers_example. Qed.

(* ---- sample: shape [m, d] and bounds for ANY tensor (signed entries, any ranks) ---- *)
Theorem C14_sample_in_bounds : forall T (K : ops T), field_laws K -> forall ch, choice_ok ch ->
  forall Y m u II P, sample K ch Y m u = Ok (II, P) -> length II = m /\ Forall (inb (shape Y)) II.
Proof. exact @sample_in_bounds. Qed.

(* a concrete non-negative tensor [[3, 2, 2], [3, 3, 0]] over Qc: hypotheses satisfiable, products 0, 3/13, 3/13 *)
Example C14_sample_example :
  chain 1 ex_Y 1 /\ (forall idx, inb (shape ex_Y) idx -> nn OQc (get OQc ex_Y idx)) /\
  exists P : list (list (list Qc)),
    sample OQc (ex_ch [[1; 1; 0]; [2]; [1]; [0]]) ex_Y 3 (exq 0) = Ok ([[1; 2]; [1; 1]; [0; 0]], P) /\
    map (fun r => qshow (lprod OQc (along (exq 0) (fst r) (snd r)))) (combine [[1; 2]; [1; 1]; [0; 0]] P)
      = [(0, 1); (3, 13); (3, 13)]%Z /\
    qshow (total OQc ex_Y) = (13, 1)%Z.
Proof. exact sample_example. Qed.

(* ---- sample_square ----
   Zt is the tensor the code obtains from orthogonalize(Y, 0): its cores 1..d-1 have orthonormal rows in the
   right unfolding (row_orth; contract of property C04, validated numerically on every recorded call).
   One drawn row (idx, Pj) is sq_row_ok when idx is inside the bounds, Pj consists of d distributions and the
   product of their entries along idx is entry^2 / ||Zt||^2. *)
Theorem C14_row_orth_def : forall T (K : ops T) G, row_orth K G <->
  forall a a', a < cr1 G -> a' < cr1 G ->
    bsum K (cn G) (fun i => bsum K (cr2 G) (fun b => omul K (cget K G a i b) (cget K G a' i b)))
    = if Nat.eqb a a' then o1 K else o0 K.
Proof. intros; apply iff_refl. Qed.
Theorem C14_sq_row_ok_def : forall T (K : ops T) Zt idx Pj, sq_row_ok K Zt idx Pj <->
  inb (shape Zt) idx /\ length Pj = length Zt /\ Forall (fun p => lsum K p = o1 K) Pj /\
  total2 K Zt <> o0 K /\
  omul K (lprod K (along (o0 K) idx Pj)) (total2 K Zt) = sq K (get K Zt idx) /\
  lprod K (along (o0 K) idx Pj) = odiv K (sq K (get K Zt idx)) (total2 K Zt).
Proof. intros; apply iff_refl. Qed.
Theorem C14_total2_def : forall T (K : ops T) Y,
  total2 K Y = msum K (shape Y) (fun idx => omul K (get K Y idx) (get K Y idx)).
Proof. intros; reflexivity. Qed.
Theorem C14_attempt_ok_def : forall T (K : ops T) Zt att, attempt_ok K Zt att <->
  length (fst att) = length (snd att) /\
  forall j, j < length (fst att) -> sq_row_ok K Zt (nth j (fst att) []) (nth j (snd att) []).
Proof. intros; apply iff_refl. Qed.

(* every generator (choice below len(p), shuffle a permutation), every Zt with d >= 1 meeting the contract, every
   m, unique, m_fact, max_rep: if sample_square returns (II, atts) then II has m rows inside the bounds, the rows are
   pairwise distinct when unique, they all come from the last attempt, and EVERY row drawn in EVERY attempt
   (restarts included) satisfies the chain identity prod = entry^2 / ||Zt||^2. *)
Theorem C14_square_chain : forall T (K : ops T), rng K -> field_laws K -> forall ch, choice_ok ch ->
  forall shufr, shuffle_ok shufr -> forall Zt m unique m_fact max_rep II atts,
  chain 1 Zt 1 -> Forall (row_orth K) (tl Zt) ->
  sample_square K ch shufr Zt m unique m_fact max_rep = Ok (II, atts) ->
  length II = m /\ Forall (inb (shape Zt)) II /\ (unique = true -> NoDup II) /\
  atts <> [] /\ Forall (attempt_ok K Zt) atts /\
  (forall x, In x II -> In x (fst (last atts ([], [])))).
Proof. exact @square_chain. Qed.

(* the same identity about the tensor Y that was orthogonalised: Y = c * Zt entrywise (c = 2^p of use_stab) *)
Theorem C14_square_chain_scaled : forall T (K : ops T), rng K -> field_laws K ->
  forall Y Zt c idx Pj, shape Y = shape Zt ->
  (forall idx0, inb (shape Zt) idx0 -> get K Y idx0 = omul K c (get K Zt idx0)) ->
  sq_row_ok K Zt idx Pj ->
  omul K (lprod K (along (o0 K) idx Pj)) (total2 K Y) = sq K (get K Y idx) /\
  (total2 K Y <> o0 K -> lprod K (along (o0 K) idx Pj) = odiv K (sq K (get K Y idx)) (total2 K Y)).
Proof. exact @square_chain_scaled. Qed.

(* the restart recursion `sample_square(Y, m, True, seed, 2*m_fact, max_rep-1)` is a fuelled loop in the model;
   the fuel is always sufficient *)
Theorem C14_square_terminates : forall T (K : ops T) ch shufr Zt m unique m_fact max_rep,
  sample_square K ch shufr Zt m unique m_fact max_rep <> Err OutOfFuel.
Proof. exact @sample_square_terminates. Qed.

(* a concrete Zt over Qc with an orthonormal second core: a successful unique run and the ValueError exit *)
Example C14_square_example :
  chain 1 ex_Z 1 /\ Forall (row_orth OQc) (tl ex_Z) /\ qshow (total2 OQc ex_Z) = (6, 1)%Z /\
  (exists atts, sample_square OQc (ex_ch [[0; 1; 1; 0]; [0]; [0]; [1]; [0]]) (fun _ l => rev l) ex_Z 2 true 2 0%Z
               = Ok ([[1; 1]; [1; 0]], atts)) /\
  sample_square OQc (ex_ch [[0; 0]; [0]; [0]; [0; 0; 0; 0]; [0]; [0]; [0]; [0]]) (fun _ l => l) ex_Z 2 true 1 0%Z
               = Err ValueError.
Proof. exact square_example. Qed.

(* ---- sample returns (progress) ----
   With unsert = 0, a non-negative tensor with non-zero total and a generator that never returns an index of
   probability zero (choice_pos), sample does not raise: it returns some (II, P) (to which C14_sample_chain applies). *)
Theorem C14_sample_returns : forall T (K : ops T), rng K -> field_laws K -> order_laws K ->
  forall ch, choice_ok ch -> choice_pos K ch -> forall Y m, Y <> [] ->
  chain 1 Y 1 -> (forall idx, inb (shape Y) idx -> nn K (get K Y idx)) -> total K Y <> o0 K ->
  exists II P, sample K ch Y m (o0 K) = Ok (II, P).
Proof. exact @sample_returns. Qed.
(* a generator meeting both contracts exists (first index of non-zero probability) *)
Example C14_choice_contract_example :
  choice_ok (fun _ _ : nat => first_nz OQc) /\ choice_pos OQc (fun _ _ : nat => first_nz OQc) /\
  ex_Y <> [] /\ total OQc ex_Y <> o0 OQc.
Proof. exact first_nz_contract_Qc. Qed.

(* ---- sample_rand_poi: shape [m, d]; entry (j, i) is one of the values uniform(a_i, b_i, m) returned ---- *)
Theorem C14_sample_rand_poi_shape : forall T (K : ops T) unif (inside : T -> T -> T -> Prop),
  (forall c lo hi m, length (unif c lo hi m) = m /\ Forall (inside lo hi) (unif c lo hi m)) ->
  forall a b m, length a = length b ->
  match sample_rand_poi K unif a b m with
  | Ok X => a <> [] /\ length X = m /\
            forall j, j < m -> length (nth j X []) = length a /\
              forall i, i < length a -> inside (nth i a (o0 K)) (nth i b (o0 K)) (nth i (nth j X []) (o0 K))
  | Err e => a = [] /\ e = ValueError
  end.
Proof. exact @sample_rand_poi_shape. Qed.

(* ---- every vector handed to choice has non-negative entries (so, with the sums above, it is a distribution) ----
   For ANY tensor and ANY generator (np.maximum(p, 0) in sample, sums of squares in sample_square); needs two more
   order laws: a/b >= 0 for a, b >= 0 and a*a >= 0 (proved for Qc). *)
Theorem C14_sample_probs_nonneg : forall T (K : ops T), field_laws K -> order_laws2 K ->
  forall ch Y m u II P, sample K ch Y m u = Ok (II, P) -> Forall (Forall (Forall (nn K))) P.
Proof. exact @sample_probs_nonneg. Qed.
Theorem C14_square_probs_nonneg : forall T (K : ops T), field_laws K -> order_laws2 K ->
  forall ch shufr Zt m unique m_fact max_rep II atts,
  sample_square K ch shufr Zt m unique m_fact max_rep = Ok (II, atts) ->
  Forall (fun att => Forall (Forall (Forall (nn K))) (snd att)) atts.
Proof. exact @square_probs_nonneg. Qed.
Example C14_laws2_Qc : order_laws2 OQc.
Proof. exact OQc_order_laws2. Qed.

(* ---- sample_square returns or raises ValueError (progress) ----
   Given the orthogonality contract, ||Zt||^2 <> 0 and a generator that never returns an index of probability zero,
   every attempt draws all its rows; the only exception left is the ValueError of the unique-rows restart logic. *)
Theorem C14_square_returns : forall T (K : ops T), rng K -> field_laws K ->
  forall ch, choice_ok ch -> choice_pos K ch -> forall shufr Zt m unique m_fact max_rep,
  Zt <> [] -> chain 1 Zt 1 -> Forall (row_orth K) (tl Zt) -> total2 K Zt <> o0 K ->
  (exists II atts, sample_square K ch shufr Zt m unique m_fact max_rep = Ok (II, atts)) \/
  sample_square K ch shufr Zt m unique m_fact max_rep = Err ValueError.
Proof. exact @square_returns. Qed.
