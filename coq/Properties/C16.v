(* C16 — stabilised arithmetic.  Only statements, each closed by [exact]; non-vacuity Examples. *)
From Coq Require Import List Arith Lia PeanoNat ZArith.
From TV Require Import Num.Ops Num.InstDy Lin.Tab TT.Chain Model.ActOne Model.Stab Proofs.StabP.
Import ListNotations.

(* [stab_laws K] (Proofs/StabP.v): K is a commutative ring with pow2 (a+b) = pow2 a * pow2 b, pow2 0 = 1,
   (x / pow2 p) * pow2 p = x.  The exact dyadics satisfy it: *)
Example C16_laws_dyadic : stab_laws ODy.
Proof. exact (conj ODy_rng (conj Dy_pow2_add (conj Dy_pow2_0 Dy_div_pow2))). Qed.

(* mul_scalar(use_stab=True) returns (v, p) with 2^p * v = the plain scalar product, for every d, every
   rank profile, every threshold and EVERY log2 oracle (exactness does not depend on floor(log2)) *)
Theorem C16_mul_scalar_stab : forall T (K : ops T) (ilog2 : T -> Z) (thr : T), stab_laws K ->
  forall Y1 Y2 : list (core T),
  omul K (opow2 K (snd (mul_scalar_stab K ilog2 thr Y1 Y2))) (fst (mul_scalar_stab K ilog2 thr Y1 Y2))
  = mul_scalar K Y1 Y2.
Proof. exact (@P_mul_scalar_stab_exact). Qed.
