(* C16 — stabilised arithmetic.  Only statements, each closed by [exact]; non-vacuity Examples.
   Model: Model/Stab.v.  [ilog2] is the oracle int(floor(log2 v)), [thr] core_stab's threshold (default 0.),
   [orth_l]/[orth_r] one call of orthogonalize_left/right, [root p d] = 2**(p/d).
   The exponent returned by norm is printed by the model as the numerator h of the half-integer h/2. *)
From Coq Require Import List Arith Lia PeanoNat ZArith Reals.
From TV Require Import Num.Ops Num.InstDy Lin.Tab TT.Chain Model.ActOne Model.Stab
  Proofs.StabP Proofs.StabOrthP Proofs.StabRP.
Import ListNotations.

(* ------------------------------------------------------------------------------------------------
   Carriers.  [stab_laws K] (Proofs/StabP.v): K is a commutative ring with pow2 (a+b) = pow2 a * pow2 b,
   pow2 0 = 1, (x / pow2 p) * pow2 p = x.  The exact dyadics and the reals satisfy it.
   ------------------------------------------------------------------------------------------------ *)
Example C16_laws_dyadic : stab_laws ODy.
Proof. exact (conj ODy_rng (conj Dy_pow2_add (conj Dy_pow2_0 Dy_div_pow2))). Qed.
Example C16_laws_real : stab_laws OR.
Proof. exact OR_laws. Qed.
(* the contract of floor(log2 .) is met by an actual function on the reals *)
Example C16_ilog2_exists : ilog2_ok 1 ilog2R.
Proof. exact ilog2R_ok. Qed.

(* ------------------------------------------------------------------------------------------------
   core_stab
   ------------------------------------------------------------------------------------------------ *)
(* exactness on every carrier, every oracle: G * 2^p0 = Q * 2^p entrywise *)
Theorem C16_core_stab_exact : forall T (K : ops T) (ilog2 : T -> Z) (thr : T), stab_laws K ->
  forall (G : core T) p0 a i b, wfdat G -> a < cr1 G -> i < cn G -> b < cr2 G ->
  omul K (cget K (fst (core_stab K ilog2 thr G p0)) a i b) (opow2 K (snd (core_stab K ilog2 thr G p0)))
  = omul K (cget K G a i b) (opow2 K p0).
Proof. exact (@P_core_stab_exact). Qed.
(* full specification at R: G = 2^(p-p0) Q exactly; below the threshold the core is returned unchanged with p0;
   above it max|Q| lies in [lo, 2) and p = p0 + ilog2(max|G|)   (lo = 1 for the exact contract of floor(log2)) *)
Theorem C16_core_stab_spec : forall (ilog2 : R -> Z) (thr lo : R) (G : core R) (p0 : Z),
  ilog2_ok lo ilog2 -> (0 <= thr)%R -> wfdat G ->
  let Q := fst (core_stab OR ilog2 thr G p0) in let p := snd (core_stab OR ilog2 thr G p0) in
  (forall a i b, a < cr1 G -> i < cn G -> b < cr2 G ->
     (cget OR G a i b * powerRZ 2 p0 = cget OR Q a i b * powerRZ 2 p)%R) /\
  ((vmax OR (centries G) <= thr)%R -> Q = G /\ p = p0) /\
  ((thr < vmax OR (centries G))%R ->
     (lo <= vmax OR (centries Q) < 2)%R /\ p = (p0 + ilog2 (vmax OR (centries G)))%Z).
Proof. exact core_stab_spec. Qed.

(* ------------------------------------------------------------------------------------------------
   mul_scalar(use_stab=True)
   ------------------------------------------------------------------------------------------------ *)
(* (v, p) with 2^p * v = the plain scalar product (Model/ActOne.mul_scalar, the object of C01), for every d,
   every rank profile, every threshold and EVERY log2 oracle *)
Theorem C16_mul_scalar_stab : forall T (K : ops T) (ilog2 : T -> Z) (thr : T), stab_laws K ->
  forall Y1 Y2 : list (core T),
  omul K (opow2 K (snd (mul_scalar_stab K ilog2 thr Y1 Y2))) (fst (mul_scalar_stab K ilog2 thr Y1 Y2))
  = mul_scalar K Y1 Y2.
Proof. exact (@P_mul_scalar_stab_exact). Qed.
(* the invariant along the chain: after any number k of cores the state (v_k, p_k) denotes the true partial product *)
Theorem C16_mul_scalar_stab_invariant : forall T (K : ops T) (ilog2 : T -> Z) (thr : T), stab_laws K ->
  forall (Y1 Y2 : list (core T)) (k : nat),
  let vp := run2s K ilog2 thr [o1 K] 0%Z (firstn k Y1) (firstn k Y2) in
  vscale K (opow2 K (snd vp)) (fst vp) = run2 K [o1 K] (firstn k Y1) (firstn k Y2).
Proof. exact (@P_mul_scalar_stab_prefix). Qed.
(* the mantissa: |v| <= thr (v = 0 for the default thr = 0) or lo <= |v| < 2 *)
Theorem C16_mul_scalar_stab_mantissa : forall (ilog2 : R -> Z) (thr lo : R) (Y1 Y2 : list (core R)) d1 d2,
  ilog2_ok lo ilog2 -> (0 <= thr)%R ->
  Y1 <> [] -> length Y1 = length Y2 -> cr2 (last Y1 d1) = 1 -> cr2 (last Y2 d2) = 1 ->
  let v := fst (mul_scalar_stab OR ilog2 thr Y1 Y2) in (Rabs v <= thr)%R \/ (lo <= Rabs v < 2)%R.
Proof. exact (fun il thr lo Y1 Y2 d1 d2 => mul_scalar_stab_mantissa il thr lo Y1 Y2 d1 d2). Qed.

(* stabilised = plain when no scaling is needed (every running vector below the threshold or with floor(log2) = 0) *)
Theorem C16_stab_eq_plain : forall T (K : ops T) (ilog2 : T -> Z) (thr : T), stab_laws K ->
  forall Y1 Y2 : list (core T), noscale K ilog2 thr [o1 K] Y1 Y2 ->
  mul_scalar_stab K ilog2 thr Y1 Y2 = (mul_scalar K Y1 Y2, 0%Z).
Proof. exact (@P_stab_eq_plain_noscale). Qed.
(* and whenever the returned exponent is 0 the mantissa IS the plain result *)
Theorem C16_stab_eq_plain_p0 : forall T (K : ops T) (ilog2 : T -> Z) (thr : T), stab_laws K ->
  forall Y1 Y2 : list (core T), snd (mul_scalar_stab K ilog2 thr Y1 Y2) = 0%Z ->
  fst (mul_scalar_stab K ilog2 thr Y1 Y2) = mul_scalar K Y1 Y2.
Proof. exact (@P_stab_eq_plain_p0). Qed.

(* rescaling one core by 2^s shifts the exponent by s and nothing else (mantissa identical).
   Default threshold 0, exact contract, and the partial product at that core is not the zero vector
   (for a zero product both results are (0, p) with the exponent frozen where the product vanished). *)
Theorem C16_stab_shift : forall (ilog2 : R -> Z), ilog2_ok 1 ilog2 ->
  forall (A A2 : list (core R)) G1 G2 B B2 (s : Z), length A = length A2 ->
  (0 < vmax OR (vstep2 OR (fst (run2s OR ilog2 0%R [1%R] 0%Z A A2)) G1 G2))%R ->
  mul_scalar_stab OR ilog2 0%R (A ++ core_scale OR (powerRZ 2 s) G1 :: B) (A2 ++ G2 :: B2) =
  (fst (mul_scalar_stab OR ilog2 0%R (A ++ G1 :: B) (A2 ++ G2 :: B2)),
   (snd (mul_scalar_stab OR ilog2 0%R (A ++ G1 :: B) (A2 ++ G2 :: B2)) + s)%Z).
Proof. exact stab_shift. Qed.
Theorem C16_stab_shift_norm : forall (ilog2 : R -> Z), ilog2_ok 1 ilog2 ->
  forall (A : list (core R)) G B (s : Z),
  (0 < vmax OR (vstep2 OR (fst (run2s OR ilog2 0%R [1%R] 0%Z A A)) G G))%R ->
  norm_stab OR ilog2 0%R (A ++ core_scale OR (powerRZ 2 s) G :: B) =
  (fst (norm_stab OR ilog2 0%R (A ++ G :: B)), (snd (norm_stab OR ilog2 0%R (A ++ G :: B)) + 2 * s)%Z).
Proof. exact stab_shift_norm. Qed.

(* ------------------------------------------------------------------------------------------------
   norm(use_stab=True) = (z, h/2):  z >= 0,  z * 2^(h/2) = ||Y|| = sqrt <Y,Y>,  z^2 * 2^h = <Y,Y>
   ------------------------------------------------------------------------------------------------ *)
Theorem C16_norm_stab : forall (ilog2 : R -> Z) (thr : R) (Y : list (core R)),
  let z := fst (norm_stab OR ilog2 thr Y) in let h := snd (norm_stab OR ilog2 thr Y) in
  (0 <= z)%R /\ (z * Rpower 2 (IZR h / 2) = sqrt (mul_scalar OR Y Y))%R /\
  ((0 <= mul_scalar OR Y Y)%R -> (z * z * powerRZ 2 h = mul_scalar OR Y Y)%R).
Proof. exact norm_stab_spec. Qed.

(* ------------------------------------------------------------------------------------------------
   accuracy(Y1, Y2): every branch (the code since commit 0f9009d).  h1, h2 = twice the exponents returned by norm, so
   p1 - p2 > 500  <->  h1 - h2 > 1000.   ||.|| = sqrt <.,.>  (nrm2);  z1, z2 the mantissas returned by norm.
   * a vanishing difference (z1 = 0) against a reference with |z2| >= tiny gives 0 = the relative distance,
     whatever exponent the vanishing product was left with;
   * otherwise the saturation values big (1e299) / 0 beyond +-1000, the sentinel -1 for |z2| < tiny, and in the
     middle the quotient ||Y1 - Y2|| / ||Y2||.
   ------------------------------------------------------------------------------------------------ *)
Theorem C16_accuracy_stab : forall (ilog2 : R -> Z) (thr : R) (isinf : R -> bool),
  (forall x, isinf x = false) -> forall (big tiny : R) (Y1 Y2 : list (core R)), (0 < tiny)%R ->
  let z1 := fst (norm_stab OR ilog2 thr (sub OR Y1 Y2)) in
  let h1 := snd (norm_stab OR ilog2 thr (sub OR Y1 Y2)) in
  let h2 := snd (norm_stab OR ilog2 thr Y2) in
  let z2 := fst (norm_stab OR ilog2 thr Y2) in
  let r := accuracy OR ilog2 isinf thr big tiny Y1 Y2 in
  (z1 = 0%R -> (tiny <= Rabs z2)%R -> r = 0%R /\ nrm2 (sub OR Y1 Y2) = 0%R) /\
  (~ (z1 = 0%R /\ (tiny <= Rabs z2)%R) -> (h1 - h2 > 1000)%Z -> r = big) /\
  (~ (z1 = 0%R /\ (tiny <= Rabs z2)%R) -> (h1 - h2 < -1000)%Z -> r = 0%R) /\
  ((-1000 <= h1 - h2 <= 1000)%Z -> (Rabs z2 < tiny)%R -> r = (-1)%R) /\
  ((-1000 <= h1 - h2 <= 1000)%Z -> (tiny <= Rabs z2)%R -> r = (nrm2 (sub OR Y1 Y2) / nrm2 Y2)%R).
Proof. exact accuracy_spec. Qed.
(* equal tensors (||Y1 - Y2|| = 0) against a reference whose mantissa is not negligible: accuracy = 0.
   (Before 0f9009d the model returned big = 1e299 here whenever the last core was below 2^-500.) *)
Theorem C16_accuracy_zero_difference : forall (ilog2 : R -> Z) (thr : R) (isinf : R -> bool),
  (forall x, isinf x = false) -> forall (big tiny : R) (Y1 Y2 : list (core R)), (0 < tiny)%R ->
  (tiny <= Rabs (fst (norm_stab OR ilog2 thr Y2)))%R -> nrm2 (sub OR Y1 Y2) = 0%R ->
  accuracy OR ilog2 isinf thr big tiny Y1 Y2 = 0%R.
Proof. exact accuracy_zero_difference. Qed.

(* the mantissa returned by norm(use_stab=True) (default threshold 0): 0, or z > 0 with lo <= z^2 < 2 *)
Theorem C16_norm_stab_mantissa : forall (ilog2 : R -> Z) (lo : R) (Y : list (core R)) d0, ilog2_ok lo ilog2 ->
  Y <> [] -> cr2 (last Y d0) = 1 ->
  let z := fst (norm_stab OR ilog2 0%R Y) in z = 0%R \/ ((0 < z)%R /\ (lo <= z * z < 2)%R).
Proof. exact norm_stab_mantissa. Qed.
(* the saturation branches are taken only when the true relative distance is beyond 2^+-500: for mantissas of the kind
   C16_norm_stab_mantissa gives for non-zero tensors under the exact log2 contract (z > 0, 1 <= z^2 < 2) *)
Theorem C16_accuracy_saturation_sound : forall (ilog2 : R -> Z) (thr : R) (Y1 Y2 : list (core R)),
  let z1 := fst (norm_stab OR ilog2 thr (sub OR Y1 Y2)) in
  let h1 := snd (norm_stab OR ilog2 thr (sub OR Y1 Y2)) in
  let z2 := fst (norm_stab OR ilog2 thr Y2) in
  let h2 := snd (norm_stab OR ilog2 thr Y2) in
  (0 < z1)%R -> (1 <= z1 * z1 < 2)%R -> (0 < z2)%R -> (1 <= z2 * z2 < 2)%R ->
  ((h1 - h2 > 1000)%Z -> (powerRZ 2 500 < nrm2 (sub OR Y1 Y2) / nrm2 Y2)%R) /\
  ((h1 - h2 < -1000)%Z -> (nrm2 (sub OR Y1 Y2) / nrm2 Y2 < powerRZ 2 (-500))%R).
Proof. exact accuracy_saturation_sound. Qed.

(* ------------------------------------------------------------------------------------------------
   orthogonalize(Y, k, use_stab=True) = (Z, p):  2^p * Z = Y entrywise, for every oracle pair meeting
   [orth_contract] (each call keeps the product of the two cores it touches) and every log2 oracle
   ------------------------------------------------------------------------------------------------ *)
Theorem C16_orth_stab : forall T (K : ops T) (ilog2 : T -> Z) (thr : T)
  (orth_l orth_r : nat -> core T -> core T -> core T * core T), stab_laws K -> orth_contract K orth_l orth_r ->
  forall Y k Zs p idx, orthogonalize_stab K ilog2 thr orth_l orth_r Y k = Ok (Zs, p) -> wf 1 Y idx ->
  wf 1 Zs idx /\ omul K (opow2 K p) (get K Zs idx) = get K Y idx.
Proof. exact (@P_orthogonalize_stab_exact). Qed.
Theorem C16_orth_stab_total : forall T (K : ops T) (ilog2 : T -> Z) (thr : T)
  (orth_l orth_r : nat -> core T -> core T -> core T * core T) Y k,
  (k <= length Y - 1 -> exists Zs p, orthogonalize_stab K ilog2 thr orth_l orth_r Y k = Ok (Zs, p)) /\
  (length Y - 1 < k -> orthogonalize_stab K ilog2 thr orth_l orth_r Y k = Err ValueError).
Proof.
  exact (fun T K il thr ol or Y k => conj (orthogonalize_stab_ok K il thr ol or Y k)
                                         (orthogonalize_stab_rejects K il thr ol or Y k)).
Qed.

(* ------------------------------------------------------------------------------------------------
   truncate(use_stab=True): the final factor 2^(p/d) on each of the d cores restores 2^p.
   [body] is the rounding sweep applied to the stabilised tensor Z (the object of C02); the result W
   denotes 2^p * body(Z), so the entrywise error against Y is exactly 2^p times the error of the sweep on Z:
   relative accuracy is scale invariant.
   ------------------------------------------------------------------------------------------------ *)
Theorem C16_truncate_stab : forall T (K : ops T) (ilog2 : T -> Z) (thr : T)
  (orth_l orth_r : nat -> core T -> core T -> core T * core T),
  stab_laws K -> orth_contract K orth_l orth_r ->
  forall (root : Z -> nat -> T) body Y W idx,
  (forall p, opow K (root p (length Y)) (length Y) = opow2 K p) ->
  (forall Zs, length (body Zs) = length Zs) -> (forall Zs, wf 1 Zs idx -> wf 1 (body Zs) idx) ->
  truncate_stab K ilog2 thr orth_l orth_r root body Y = Ok W -> wf 1 Y idx ->
  exists Zs p, orthogonalize_stab K ilog2 thr orth_l orth_r Y (length Y - 1) = Ok (Zs, p) /\
    omul K (opow2 K p) (get K Zs idx) = get K Y idx /\
    get K W idx = omul K (opow2 K p) (get K (body Zs) idx) /\
    osub K (get K Y idx) (get K W idx) = omul K (opow2 K p) (osub K (get K Zs idx) (get K (body Zs) idx)).
Proof. exact (@P_truncate_stab_exact). Qed.
(* scaling every one of the d cores by c multiplies every entry by c^d *)
Theorem C16_rescale_all : forall T (K : ops T), rng K -> forall c (Y : list (core T)) idx, wf 1 Y idx ->
  get K (rescale_all K c Y) idx = omul K (opow K c (length Y)) (get K Y idx).
Proof. exact (@get_rescale_all). Qed.
(* at R the factor 2^(p/d) of the code meets the root contract *)
Example C16_root_real : forall p d, 0 < d -> opow OR (rootR p d) d = powerRZ 2 p.
Proof. exact rootR_spec. Qed.
(* an oracle pair meeting the orthogonalisation contract exists on every carrier *)
Example C16_orth_contract_nonvacuous : forall T (K : ops T),
  orth_contract K (fun _ G1 G2 => (G1, restore K G2)) (fun _ G1 G2 => (restore K G1, G2)).
Proof. exact (@restore_contract). Qed.

(* ------------------------------------------------------------------------------------------------
   Non-vacuity on concrete tensors (exact dyadics, unbounded exponents).
   Y = three rank-1 cores with entries (3,4)*2^600, (1,1)*2^-2000, (5,12)*2^900:
   <Y,Y> = 25 * 2 * 169 * 2^-1000 = 8450 * 2^-1000 = (4225/4096) * 2^-987   -> (v, p) = (4225 * 2^-12, -987);
   ||Y|| = (65/64) * 2^(-987/2): mantissa 65 * 2^-6, half-exponent numerator -987.
   ------------------------------------------------------------------------------------------------ *)
Definition exY : list (core Dy) :=
  [mk_core 1 2 1 [[[mkDy 3 600]; [mkDy 4 600]]];
   mk_core 1 2 1 [[[mkDy 1 (-2000)]; [mkDy 1 (-2000)]]];
   mk_core 1 2 1 [[[mkDy 5 900]; [mkDy 12 900]]]].
Example C16_example_mul_scalar :
  mul_scalar_stab ODy Dy_ilog2 Dy_0 exY exY = (mkDy 4225 (-12), (-987)%Z) /\
  Dy_mul (Dy_pow2 (-987)) (mkDy 4225 (-12)) = mul_scalar ODy exY exY /\
  norm_stab ODy Dy_ilog2 Dy_0 exY = (mkDy 65 (-6), (-987)%Z).
Proof. vm_compute. repeat split; reflexivity. Qed.
(* with the threshold 1e-100 of the pinned tree the first partial product 25 * 2^-4400... is left unscaled: *)
Example C16_example_threshold :
  fst (stab_entries ODy Dy_ilog2 (mkDy 1 (-332)) [mkDy 25 (-340)] 7) = [mkDy 25 (-340)] /\
  snd (stab_entries ODy Dy_ilog2 (mkDy 1 (-332)) [mkDy 25 (-340)] 7) = 7%Z /\
  stab_entries ODy Dy_ilog2 Dy_0 [mkDy 25 (-340)] 7 = ([mkDy 25 (-4)], (-329)%Z).
Proof. vm_compute. repeat split; reflexivity. Qed.
(* orthogonalize(use_stab) with the trivial oracle pair: Z carries mantissas, p the scale *)
Example C16_example_orth :
  exists Zs p, orthogonalize_stab ODy Dy_ilog2 Dy_0 (fun _ G1 G2 => (G1, restore ODy G2))
                 (fun _ G1 G2 => (restore ODy G1, G2)) exY 2 = Ok (Zs, p) /\ p = (-1097)%Z /\
    Dy_mul (Dy_pow2 p) (get ODy Zs [1; 0; 1]) = get ODy exY [1; 0; 1] /\ wf 1 exY [1; 0; 1].
Proof.
  eexists. eexists. split; [vm_compute; reflexivity|]. split; [reflexivity|]. split; [vm_compute; reflexivity|].
  cbn. repeat split; lia.
Qed.
(* accuracy on equal tensors with a tiny last core, Y = [ones(1,2,1), 2^-505 * ones(1,2,1)] (the input of the repair
   0f9009d): the difference vanishes with the exponent frozen at 1 (norm = (0, 1/2)), norm(Y) = (1, -1008/2);
   the current function returns 0, its tail (= the whole function before the repair) saturates to big *)
Definition exE : list (core Dy) :=
  [mk_core 1 2 1 [[[mkDy 1 0]; [mkDy 1 0]]]; mk_core 1 2 1 [[[mkDy 1 (-505)]; [mkDy 1 (-505)]]]].
Example C16_example_accuracy_equal :
  norm_stab ODy Dy_ilog2 Dy_0 (sub ODy exE exE) = (Dy_0, 1%Z) /\
  norm_stab ODy Dy_ilog2 Dy_0 exE = (Dy_1, (-1008)%Z) /\
  accuracy ODy Dy_ilog2 (fun _ => false) Dy_0 (Dy_pow2 993) (Dy_pow2 (-333)) exE exE = Dy_0 /\
  accuracy_tail ODy (fun _ => false) (Dy_pow2 993) (Dy_pow2 (-333)) Dy_0 1 Dy_1 (-1008) = Dy_pow2 993.
Proof. vm_compute. repeat split; reflexivity. Qed.
