(* C08 — maxvol / maxvol_rect / _maxvol.  Only statements, each closed by [exact], and non-vacuity Examples.

   Reading guide.  [ordfield K] : the carrier is an ordered field (laws as a record; proved for Qc below).
   [lu_contract K A (lu_init A)] : the LU-based initialisation returned Ok (I0, B0) with A = B0 A[I0],
   B0[I0] = Id, I0 distinct valid rows (the oracle contract; full column rank enters only here).
   [mv_inv K A I B] is that same triple of facts, [maxvol_post] / [rect_post] / [sel_post] are the clauses of the
   property text in matrix form ([meq], [mmul], [mrows], [mid] of Lin/Mat.v).
   [maxvol_rect] ( = maxvol_rect_gen true ) is the model of the code: i = np.argmax(np.where(S > 0, F, -1.))
   (/repo cac7db0).  [maxvol_rect_pinned] ( = maxvol_rect_gen false ) is the code as pinned, i = np.argmax(F); it is
   kept only as the subject of the machine-checked finding C08_rect_distinct_refuted. *)
From Coq Require Import List Arith Lia PeanoNat ZArith QArith Qcanon.
From TV Require Import Num.Ops Lin.Mat Model.Maxvol Proofs.MaxvolP Proofs.MaxvolRectP Proofs.MaxvolChkP.
Import ListNotations.

(* ---------------- maxvol ---------------- *)

(* one swap  I[j] := i; B -= b_j (b_i - e_j) / B_ij  preserves A = B A[I], B[I] = Id, I distinct and valid.
   Only B_ij <> 0 is needed (the loop guarantees it: |B_ij| > e >= 0). *)
Theorem C08_maxvol_step_inv : forall (T : Type) (K : ops T), ordfield K ->
  forall A I B i j, mv_inv K A I B -> (i < mr A)%nat -> (j < mc A)%nat -> mget K B i j <> o0 K ->
  mv_inv K A (set_nth I j i) (maxvol_update K B i j).
Proof. exact @maxvol_step_inv. Qed.

(* every iteration limit k, every e >= 0: r distinct valid rows, A = B A[I], B[I] = Id, and max|B| <= e
   whenever the loop was left by its test (third component true) *)
Theorem C08_maxvol_spec : forall (T : Type) (K : ops T), ordfield K ->
  forall (lu_init : @lu_t T) A e k,
  (0 < mc A)%nat -> (mc A < mr A)%nat -> oleb K (o0 K) e = true -> lu_contract K A (lu_init A) ->
  exists I B conv, maxvol_full K lu_init A e k = Ok (I, B, conv) /\ maxvol K lu_init A e k = Ok (I, B) /\
                   maxvol_post K A e I B conv.
Proof. exact @maxvol_spec. Qed.

Theorem C08_maxvol_rejects : forall (T : Type) (K : ops T) (lu_init : @lu_t T) A e k,
  (mr A <= mc A)%nat -> maxvol K lu_init A e k = Err ValueError.
Proof. exact @maxvol_rejects. Qed.

(* ---------------- maxvol_rect ---------------- *)

(* the augmentation by ANY unselected row i preserves A = B A[I] and keeps the tracked vector F equal to the
   masked squared row norms ( ||b - l v b_i||^2 + (l v)^2 = ||b||^2 - l v^2 ), I stays distinct *)
Theorem C08_rect_inv : forall (T : Type) (K : ops T), ordfield K ->
  forall A I Sm B F i, rect_inv K A I Sm B F -> (i < mr A)%nat -> nth i Sm false = true ->
  let v := rect_v K B i in let l := odiv K (o1 K) (oadd K (o1 K) (nth i v (o0 K))) in
  rect_inv K A (I ++ [i]) (mask_off Sm i) (rect_update K B i v l) (rect_F K (mask_off Sm i) F v l (mr B)).
Proof. exact @rect_step_inv. Qed.

(* np.argmax is modelled as the FIRST maximum: it is in range, a maximum, strictly above everything before it, and
   these three facts determine it *)
Theorem C08_argmax_first : forall (T : Type) (K : ops T), ordfield K -> forall f n, (0 < n)%nat ->
  (argmaxf K f n < n)%nat /\
  (forall a, (a < n)%nat -> oleb K (f a) (f (argmaxf K f n)) = true) /\
  (forall a, (a < argmaxf K f n)%nat -> oltb K (f a) (f (argmaxf K f n)) = true) /\
  (forall i, (i < n)%nat -> (forall a, (a < n)%nat -> oleb K (f a) (f i) = true) ->
             (forall a, (a < i)%nat -> oltb K (f a) (f i) = true) -> argmaxf K f n = i).
Proof. exact @argmaxf_spec. Qed.
(* the line of the fix: np.argmax(np.where(S > 0, F, -1.)) is the first maximum of F among the rows with S > 0,
   as soon as such a row exists (argmax_mask = Some i) and every such row has F > -1 (in the loop F >= 0) *)
Theorem C08_rect_argmax_masked : forall (T : Type) (K : ops T), ordfield K -> forall s f n i,
  argmax_mask K s f n = Some i ->
  (forall a, (a < n)%nat -> s a = true -> oltb K (oopp K (o1 K)) (f a) = true) ->
  argmaxf K (where_mask K s f) n = i /\
  (i < n)%nat /\ s i = true /\ (forall a, (a < n)%nat -> s a = true -> oleb K (f a) (f i) = true) /\
  (forall a, (a < i)%nat -> s a = true -> oltb K (f a) (f i) = true).
Proof. exact @rect_argmax_masked. Qed.

(* the code, all 0 <= dr_min <= dr_max (or dr_max = None) with r + dr_min <= n, NO hypothesis on the residuals:
   between r + dr_min and min(n, r + dr_max) DISTINCT valid rows, A = B A[I], B[I] = Id, and every squared row
   norm of B is <= e*e when the loop stopped before the upper limit (st = true) *)
Theorem C08_rect_spec : forall (T : Type) (K : ops T), ordfield K ->
  forall (lu_init : @lu_t T) A e dr_min dr_max e0 k0,
  (0 < mc A)%nat -> (mc A < mr A)%nat -> oleb K (o0 K) e0 = true -> oleb K (o1 K) (omul K e e) = true ->
  lu_contract K A (lu_init A) ->
  (0 <= dr_min)%Z -> (mc A + Z.to_nat dr_min <= mr A)%nat ->
  (match dr_max with Some d => (dr_min <= d)%Z | None => True end) ->
  exists I B st, maxvol_rect_full K true lu_init A e dr_min dr_max e0 k0 = Ok (I, B, st) /\
                 maxvol_rect K lu_init A e dr_min dr_max e0 k0 = Ok (I, B) /\
                 rect_post K A e (mc A + Z.to_nat dr_min) (rect_hi A dr_max) I B st.
Proof. exact @rect_spec. Qed.

(* the hypothesis on e above follows from e >= 1 *)
Theorem C08_one_le_sq : forall (T : Type) (K : ops T), ordfield K ->
  forall e, oleb K (o1 K) e = true -> oleb K (o1 K) (omul K e e) = true.
Proof. exact @one_le_sq. Qed.

(* pinned code: on every run in which each selected residual is positive it returns exactly what the code
   returns, so C08_rect_spec transfers (distinct rows under the hypothesis F[argmax] > 0) *)
Theorem C08_rect_pinned_agrees : forall (T : Type) (K : ops T), ordfield K ->
  forall (lu_init : @lu_t T) A e dr_min dr_max e0 k0,
  (0 < mc A)%nat -> (mc A < mr A)%nat -> oleb K (o0 K) e0 = true -> lu_contract K A (lu_init A) ->
  rect_pos_full K lu_init A e dr_min dr_max e0 k0 ->
  maxvol_rect_full K false lu_init A e dr_min dr_max e0 k0 = maxvol_rect_full K true lu_init A e dr_min dr_max e0 k0.
Proof. exact @rect_pinned_full_agrees. Qed.

(* finding S1, machine-checked on the faithful model of the pinned code: A = [[1],[0]] (tall, full column rank, a
   zero row), dr_min = dr_max = 1 satisfies every hypothesis of C08_rect_spec, yet the pinned arg-max returns
   I = [0; 0] (duplicate rows) and B[I] <> Id *)
Theorem C08_rect_distinct_refuted :
  exists (A : mat Qc) (e e0 : Qc) (dr : Z) (k0 : nat) (I : list nat) (B : mat Qc),
    (0 < mc A)%nat /\ (mc A < mr A)%nat /\ lu_contract OQc A (lu_exec OQc A) /\
    (0 <= dr)%Z /\ (mc A + Z.to_nat dr <= mr A)%nat /\
    oleb OQc (o1 OQc) (omul OQc e e) = true /\ oleb OQc (o0 OQc) e0 = true /\
    maxvol_rect_pinned OQc (lu_exec OQc) A e dr (Some dr) e0 k0 = Ok (I, B) /\
    ~ NoDup I /\ ~ meq OQc (mrows OQc B I) (mid OQc (length I)).
Proof. exact rect_distinct_refuted. Qed.

(* inconsistent dr_min / dr_max (negative dr_min, dr_min > dr_max, dr_min > n - r, negative dr_max) and
   wide / square input: ValueError, for both variants and whatever the initialisation does *)
Theorem C08_rect_rejects_dr : forall (T : Type) (K : ops T) masked (lu_init : @lu_t T) A e dr_min dr_max e0 k0,
  ((dr_min < 0)%Z \/
   (Z.min (match dr_max with Some d => Z.of_nat (mc A) + d | None => Z.of_nat (mr A) end) (Z.of_nat (mr A))
    < Z.of_nat (mc A) + dr_min)%Z) ->
  maxvol_rect_gen K masked lu_init A e dr_min dr_max e0 k0 = Err ValueError.
Proof. exact @rect_rejects_dr. Qed.
Theorem C08_rect_rejects_wide : forall (T : Type) (K : ops T) masked (lu_init : @lu_t T) A e dr_min dr_max e0 k0,
  (mr A <= mc A)%nat -> maxvol_rect_gen K masked lu_init A e dr_min dr_max e0 k0 = Err ValueError.
Proof. exact @rect_rejects_wide. Qed.

(* ---------------- utils._maxvol ---------------- *)

(* n <= r: I = arange(n), B = eye(n), which is a valid selection *)
Theorem C08_dispatch_trivial : forall (T : Type) (K : ops T), ordfield K ->
  forall masked (lu_init : @lu_t T) A tau dr_min dr_max tau0 k0, (mr A <= mc A)%nat ->
  maxvol_dispatch K masked lu_init A tau dr_min dr_max tau0 k0 = Ok (seq 0 (mr A), mid K (mr A)) /\
  sel_post K A (seq 0 (mr A)) (mid K (mr A)).
Proof. exact @dispatch_trivial. Qed.
Theorem C08_dispatch_maxvol : forall (T : Type) (K : ops T) masked (lu_init : @lu_t T) A tau dr_min dr_max tau0 k0,
  (mc A < mr A)%nat -> Z.min dr_max (Z.of_nat (mr A) - Z.of_nat (mc A)) = 0%Z ->
  maxvol_dispatch K masked lu_init A tau dr_min dr_max tau0 k0 = maxvol K lu_init A tau0 k0.
Proof. exact @dispatch_maxvol. Qed.
Theorem C08_dispatch_rect : forall (T : Type) (K : ops T) masked (lu_init : @lu_t T) A tau dr_min dr_max tau0 k0,
  (mc A < mr A)%nat -> Z.min dr_max (Z.of_nat (mr A) - Z.of_nat (mc A)) <> 0%Z ->
  maxvol_dispatch K masked lu_init A tau dr_min dr_max tau0 k0 =
  maxvol_rect_gen K masked lu_init A tau (Z.min dr_min (Z.min dr_max (Z.of_nat (mr A) - Z.of_nat (mc A))))
                  (Some (Z.min dr_max (Z.of_nat (mr A) - Z.of_nat (mc A)))) tau0 k0.
Proof. exact @dispatch_rect. Qed.
(* all 0 <= dr_min, 0 <= dr_max, every shape: never raises, returns distinct valid rows with A = B A[I], B[I] = Id *)
Theorem C08_dispatch_spec : forall (T : Type) (K : ops T), ordfield K ->
  forall (lu_init : @lu_t T) A tau dr_min dr_max tau0 k0,
  (0 < mc A)%nat -> oleb K (o0 K) tau0 = true -> oleb K (o1 K) (omul K tau tau) = true ->
  (0 <= dr_min)%Z -> (0 <= dr_max)%Z ->
  ((mc A < mr A)%nat -> lu_contract K A (lu_init A)) ->
  exists I B, maxvol_dispatch K true lu_init A tau dr_min dr_max tau0 k0 = Ok (I, B) /\ sel_post K A I B /\
              (Nat.min (mr A) (mc A) <= length I <= mr A)%nat.
Proof. exact @dispatch_spec. Qed.

(* ---------------- the oracle contract as it is validated at run time ---------------- *)

(* iteration limit 0: the initialisation is returned unchanged *)
Theorem C08_maxvol_limit0 : forall (T : Type) (K : ops T) (lu_init : @lu_t T) A e I0 B0,
  (mc A < mr A)%nat -> lu_init A = Ok (I0, B0) -> maxvol K lu_init A e 0 = Ok (I0, B0).
Proof. exact @maxvol_limit0. Qed.

(* [lu_contract_b] is the boolean the correspondence evaluates (exactly, over Qc) on every recorded LU initialisation
   of the exact streams.  It is sound: true implies the contract assumed above, for the replayed oracle ... *)
Theorem C08_lu_check_sound : forall (T : Type) (K : ops T), ordfield K ->
  (forall x y, oeqb K x y = true -> x = y) ->
  forall A I0 B0, lu_contract_b K A I0 B0 = true ->
  mv_inv K A I0 B0 /\ lu_contract K A (lu_replay I0 B0 A).
Proof. exact (fun T K OF E A I0 B0 H => conj (lu_contract_b_sound K E A I0 B0 H) (replay_contract K E A I0 B0 H)). Qed.
(* ... so the two specifications hold, with no residual assumption, for every replayed run that passes the check *)
Theorem C08_maxvol_spec_checked : forall (T : Type) (K : ops T), ordfield K ->
  (forall x y, oeqb K x y = true -> x = y) ->
  forall A I0 B0 e k, lu_contract_b K A I0 B0 = true ->
  (0 < mc A)%nat -> (mc A < mr A)%nat -> oleb K (o0 K) e = true ->
  exists I B conv, maxvol_full K (lu_replay I0 B0) A e k = Ok (I, B, conv) /\
                   maxvol K (lu_replay I0 B0) A e k = Ok (I, B) /\ maxvol_post K A e I B conv.
Proof. exact @maxvol_spec_checked. Qed.
Theorem C08_rect_spec_checked : forall (T : Type) (K : ops T), ordfield K ->
  (forall x y, oeqb K x y = true -> x = y) ->
  forall A I0 B0 e dr_min dr_max e0 k0, lu_contract_b K A I0 B0 = true ->
  (0 < mc A)%nat -> (mc A < mr A)%nat -> oleb K (o0 K) e0 = true -> oleb K (o1 K) (omul K e e) = true ->
  (0 <= dr_min)%Z -> (mc A + Z.to_nat dr_min <= mr A)%nat ->
  (match dr_max with Some d => (dr_min <= d)%Z | None => True end) ->
  exists I B st, maxvol_rect_full K true (lu_replay I0 B0) A e dr_min dr_max e0 k0 = Ok (I, B, st) /\
                 maxvol_rect K (lu_replay I0 B0) A e dr_min dr_max e0 k0 = Ok (I, B) /\
                 rect_post K A e (mc A + Z.to_nat dr_min) (rect_hi A dr_max) I B st.
Proof. exact @rect_spec_checked. Qed.

(* ---------------- non-vacuity ---------------- *)

(* the laws hold for the exact carrier of the correspondence runs *)
Example C08_ordfield_Qc : ordfield OQc.
Proof. exact ordfield_Qc. Qed.

Example C08_eqb_sound_Qc : forall x y : Qc, oeqb OQc x y = true -> x = y.
Proof. exact Qc_eqb_sound. Qed.
(* the boolean check accepts the initialisation of A_S1 = [[1],[0]] (I0 = [0], B0 = [[1],[0]]) and rejects a wrong one *)
Example C08_lu_check_example :
  lu_contract_b OQc A_S1 [0%nat] (mk_mat 2 1 [[Q2Qc 1]; [Q2Qc 0]]) = true /\
  lu_contract_b OQc A_S1 [1%nat] (mk_mat 2 1 [[Q2Qc 1]; [Q2Qc 0]]) = false.
Proof. split; vm_compute; reflexivity. Qed.

(* the oracle contract is met by the executable initialisation on a concrete tall matrix, the iteration makes a
   swap (I0 = [0;1] becomes [2;1]) and leaves by its test *)
Definition A_ex : mat Qc := mk_mat 3 2 [[Q2Qc 2; Q2Qc 2]; [Q2Qc 2; Q2Qc 1]; [Q2Qc 1; Q2Qc 2]].
Example C08_contract_example : lu_contract OQc A_ex (lu_exec OQc A_ex).
Proof.
  unfold lu_contract. eexists; eexists. split; [vm_compute; reflexivity|].
  unfold mv_inv. cbn [A_ex mr mc length]. repeat split; auto.
  - repeat constructor; cbn; intuition discriminate.
  - intros k Hk. destruct k as [|[|k]]; cbn; lia.
  - intros a c Ha Hc. destruct c as [|[|c]]; [| |lia]; (destruct a as [|[|[|a]]]; [| | |lia]);
      apply Qc_is_canon; vm_compute; reflexivity.
  - intros k l Hk Hl. destruct k as [|[|k]]; [| |lia]; (destruct l as [|[|l]]; [| |lia]);
      apply Qc_is_canon; vm_compute; reflexivity.
Qed.
Example C08_maxvol_example :
  (exists B, maxvol_full OQc (lu_exec OQc) A_ex (Q2Qc (21 # 20)) 0 = Ok ([0; 1]%nat, B, false)) /\
  (exists B, maxvol_full OQc (lu_exec OQc) A_ex (Q2Qc (21 # 20)) 5 = Ok ([2; 1]%nat, B, true)) /\
  maxvol OQc (lu_exec OQc) (mk_mat 2 2 [[Q2Qc 1; Q2Qc 0]; [Q2Qc 0; Q2Qc 1]]) (Q2Qc (21 # 20)) 5 = Err ValueError.
Proof. split; [|split]; [eexists; vm_compute; reflexivity | eexists; vm_compute; reflexivity | reflexivity]. Qed.

(* maxvol_rect on the input of the finding: distinct rows; on A_ex with dr_min = dr_max = 1 the pinned run
   selects only positive residuals (hypothesis of C08_rect_pinned_agrees); three zero rows and forced growth:
   the zero rows are added in order, B[I] = Id *)
Example C08_rect_example :
  (exists B, maxvol_rect OQc (lu_exec OQc) A_S1 (Q2Qc (11 # 10)) 1 (Some 1%Z) (Q2Qc (21 # 20)) 10 = Ok ([0; 1]%nat, B)) /\
  rect_pos_full OQc (lu_exec OQc) A_ex (Q2Qc (11 # 10)) 1 (Some 1%Z) (Q2Qc (21 # 20)) 5 /\
  (exists B, maxvol_rect_pinned OQc (lu_exec OQc) A_ex (Q2Qc (11 # 10)) 1 (Some 1%Z) (Q2Qc (21 # 20)) 5 = Ok ([2; 1; 0]%nat, B)) /\
  maxvol_rect OQc (lu_exec OQc) A_ex (Q2Qc (11 # 10)) 2 (Some 1%Z) (Q2Qc (21 # 20)) 5 = Err ValueError /\
  (exists B, maxvol_rect OQc (lu_exec OQc) (mk_mat 4 1 [[Q2Qc 0]; [Q2Qc 2]; [Q2Qc 0]; [Q2Qc 0]])
                (Q2Qc (11 # 10)) 2 None (Q2Qc (21 # 20)) 10 = Ok ([1; 0; 2]%nat, B) /\
             meqb OQc (mrows OQc B [1; 0; 2]%nat) (mid OQc 3) = true).
Proof.
  split; [eexists; vm_compute; reflexivity|]. split; [vm_compute; repeat split|].
  split; [eexists; vm_compute; reflexivity|]. split; [reflexivity|].
  eexists. split; vm_compute; reflexivity.
Qed.
