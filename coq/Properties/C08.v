(* C08 — maxvol / maxvol_rect.  Only statements, each closed by [exact]. *)
From Coq Require Import List Arith Lia PeanoNat ZArith.
From TV Require Import Num.Ops Lin.Mat Model.Maxvol Proofs.MaxvolP.
Import ListNotations.

(* one swap of maxvol preserves A = B A[I], B[I] = Id, I distinct and valid (any ordered field, all sizes);
   only B_ij <> 0 is needed, which the loop test |B_ij| > e >= 0 implies *)
Theorem C08_maxvol_step_inv : forall (T : Type) (K : ops T), ordfield K ->
  forall A I B i j, mv_inv K A I B -> i < mr A -> j < mc A -> mget K B i j <> o0 K ->
  mv_inv K A (set_nth I j i) (maxvol_update K B i j).
Proof. exact @maxvol_step_inv. Qed.

(* maxvol on a tall matrix whose initialisation meets its contract: r distinct valid rows, A = B A[I], B[I] = Id,
   and max|B| <= e whenever the loop was left by its test (conv = true), for every iteration limit k *)
Theorem C08_maxvol_spec : forall (T : Type) (K : ops T), ordfield K ->
  forall (lu_init : @lu_t T) A e k,
  0 < mc A -> mc A < mr A -> oleb K (o0 K) e = true -> lu_contract K A (lu_init A) ->
  exists I B conv, maxvol_full K lu_init A e k = Ok (I, B, conv) /\ maxvol K lu_init A e k = Ok (I, B) /\
                   maxvol_post K A e I B conv.
Proof. exact @maxvol_spec. Qed.

Theorem C08_maxvol_rejects : forall (T : Type) (K : ops T) (lu_init : @lu_t T) A e k,
  mr A <= mc A -> maxvol K lu_init A e k = Err ValueError.
Proof. exact @maxvol_rejects. Qed.

(* non-vacuity: the laws hold for the exact carrier used in the correspondence runs *)
Example C08_ordfield_Qc : ordfield OQc.
Proof. exact ordfield_Qc. Qed.
