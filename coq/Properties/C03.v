(* C03 — TT-SVD (svd, svd_matrix, matrix_skeleton, full_matrix).  Only statements, each closed by [exact]. *)
From Coq Require Import List Arith Lia PeanoNat ZArith.
From TV Require Import Num.Ops Lin.Tab Lin.BigSum Lin.Mat TT.Chain Model.ActOne Model.Svd Model.SvdMatrix Proofs.SvdP.
Import ListNotations.

(* svd_wf: for EVERY oracle in the np.linalg.svd slot (no contract needed), every shape ns <> [] and every data:
   mode sizes of the result = ns, boundary ranks 1, consecutive ranks match, every rank within 1..max(1, int r) *)
Theorem C03_svd_wf : forall (T : Type) (K : ops T) svdo ns data e rcap, ns <> [] ->
  chain 1 (svd K svdo ns data e rcap) 1 /\ shape (svd K svdo ns data e rcap) = ns /\
  Forall (fun G => 1 <= cr2 G <= capn rcap) (svd K svdo ns data e rcap).
Proof. exact @svd_wf. Qed.
