(* C03 — TT-SVD (svd, svd_matrix, matrix_skeleton, full_matrix).  Only statements, each closed by [exact]. *)
From Coq Require Import List Arith Lia PeanoNat ZArith Reals.
From TV Require Import Num.Ops Lin.Tab Lin.BigSum Lin.Mat TT.Chain Model.ActOne Model.Svd Model.SvdMatrix
  Proofs.SvdP Proofs.SvdP2 Proofs.SvdP3 Proofs.SvdP4 Proofs.SvdP5 Proofs.SvdP6 Proofs.SvdP7 Proofs.SvdP8 Proofs.SvdP9 Proofs.SvdP10.
Import ListNotations.

(* ---- shape and ranks ----
   svd_wf: for EVERY oracle in the np.linalg.svd slot (no contract needed), every shape ns <> [] and every data:
   mode sizes of the result = ns, boundary ranks 1, consecutive ranks match, every rank within 1..max(1, int r) *)
Theorem C03_svd_wf : forall (T : Type) (K : ops T) svdo ns data e rcap, ns <> [] ->
  chain 1 (svd K svdo ns data e rcap) 1 /\ shape (svd K svdo ns data e rcap) = ns /\
  Forall (fun G => 1 <= cr2 G <= capn rcap) (svd K svdo ns data e rcap).
Proof. exact @svd_wf. Qed.

(* the rank rule: 1 <= q <= max(1, int r), q <= max(1, len) *)
Theorem C03_rank_select_bounds : forall (T : Type) (K : ops T) x e2 rcap,
  1 <= rank_select K x e2 rcap <= capn rcap /\ rank_select K x e2 rcap <= Nat.max 1 (length x).
Proof. exact @rank_select_bounds. Qed.

(* the rank rule at the reals: when the cap does not bind, the energy of the discarded entries is within budget *)
Theorem C03_rank_select_tail : forall (x : list R) (e2 : R) rcap, (1 <= length x)%nat ->
  Forall (fun v => (0 <= v)%R) x -> (0 <= e2)%R -> cap_free_at x e2 rcap ->
  (tailx OR x (rank_select OR x e2 rcap) <= e2)%R.
Proof. exact rank_select_tail. Qed.

(* ... and the chosen size is the smallest one meeting the budget: every smaller size discards more than e2
   (cap not binding; q = 1 is the floor max(1, .) and is exempt) *)
Theorem C03_rank_select_minimal : forall (x : list R) (e2 : R) rcap q', Forall (fun v => (0 <= v)%R) x ->
  cap_free_at x e2 rcap -> q' < rank_select OR x e2 rcap -> 1 < rank_select OR x e2 rcap ->
  (e2 < tailx OR x q')%R.
Proof. exact rank_select_minimal. Qed.

(* ---- truncated matrix factorisation: the three give_to variants ----
   same inner size q (rel = True: tails measured relative to s_0), shapes m x q and q x n, and the same product
   U_q diag(s_q) V_q  (give_to = 'm' needs sqrt(x)*sqrt(x) = x on the retained singular values) *)
Theorem C03_skeleton_variants : forall (T : Type) (K : ops T), rng K -> forall svdo k A e rcap rel g U s V,
  svdo k A = (U, s, V) ->
  let q := skel_rank K s e rcap rel in
  let P := matrix_skeleton K svdo k A e rcap rel g in
  q <= length s ->
  (g = GiveM -> forall c, c < q -> omul K (osqrt K (nth c s (o0 K))) (osqrt K (nth c s (o0 K))) = nth c s (o0 K)) ->
  mr (fst P) = mr U /\ mc (fst P) = q /\ mr (snd P) = q /\ mc (snd P) = mc V /\
  forall i j, i < mr U -> j < mc V ->
    mget K (mmul K (fst P) (snd P)) i j =
    bsum K q (fun c => omul K (mget K U i c) (omul K (nth c s (o0 K)) (mget K V c j))).
Proof. exact @skeleton_variants. Qed.

(* one factorisation with give_to = 'r' under the SVD contract: left factor orthonormal, residual orthogonal to
   it, squared Frobenius norm of the residual = energy of the discarded singular values *)
Theorem C03_skeleton_residual : forall (T : Type) (K : ops T), rng K -> forall A U s V q,
  svd_ok K A U s V -> 1 <= q <= length s ->
  ocolsf K (mget K (mtakec K U q)) (mr A) q /\
  (forall c j, c < q -> j < mc A -> bsum K (mr A) (fun i => omul K (mget K (mtakec K U q) i c) (resid K A U s V q i j)) = o0 K) /\
  bsum K (mc A) (fun j => bsum K (mr A) (fun i => omul K (resid K A U s V q i j) (resid K A U s V q i j))) = tail K s q.
Proof.
  intros T K Rth A U s V q H1 H2. split; [exact (skel_G_orth K A U s V q H1 H2)|]. split.
  - exact (skel_G_resid0 K Rth A U s V q H1 H2).
  - exact (skel_resid_frob K Rth A U s V q H1 H2).
Qed.

(* ---- the sweep: error^2 = sum of the discarded tail energies (ANY commutative ring, any remainder) ---- *)
Theorem C03_sweep_error_identity : forall (T : Type) (K : ops T), rng K -> forall svdo e rcap ns k0 Zm q,
  ns <> [] -> Forall (fun n => 0 < n) ns -> 0 < q -> mr Zm = q -> mc Zm = prodn ns ->
  calls_ok K svdo e rcap k0 Zm q ns ->
  err2 K Zm q ns (svd_loop K svdo k0 Zm q ns e rcap) = tails K svdo e rcap k0 Zm q ns.
Proof. exact @loop_err. Qed.

(* an oracle meeting the contract on every non-empty matrix meets it on the calls of every run *)
Theorem C03_calls_ok_all : forall (T : Type) (K : ops T) svdo e rcap,
  (forall k A, 0 < mr A -> 0 < mc A -> let '(U, s, V) := svdo k A in svd_ok K A U s V) ->
  forall ns k0 Zm q, Forall (fun n => 0 < n) ns -> 0 < q -> mr Zm = q -> mc Zm = prodn ns ->
  calls_ok K svdo e rcap k0 Zm q ns.
Proof. exact @calls_ok_all. Qed.

(* ---- svd_error at the reals ----
   squared form: sum over all multi-indices of (A[idx] - get (svd A) idx)^2 = sum of discarded tails <= (d-1) e^2 *)
Theorem C03_svd_error_sq : forall svdo (e : R) rcap ns data, ns <> [] -> Forall (fun n => (0 < n)%nat) ns ->
  calls_ok OR svdo e rcap 0 (mkmat 1 (prodn ns) (fun _ j => nth j data 0%R)) 1 ns ->
  cap_free svdo e rcap 0 (mkmat 1 (prodn ns) (fun _ j => nth j data 0%R)) 1 ns ->
  (msum OR ns (fun idx => (nth (cpos ns idx 0) data 0 - get OR (svd OR svdo ns data e rcap) idx) *
                          (nth (cpos ns idx 0) data 0 - get OR (svd OR svdo ns data e rcap) idx))
   = tails OR svdo e rcap 0 (mkmat 1 (prodn ns) (fun _ j => nth j data 0)) 1 ns /\
   tails OR svdo e rcap 0 (mkmat 1 (prodn ns) (fun _ j => nth j data 0)) 1 ns <= INR (length ns - 1) * (e * e))%R.
Proof. exact svd_error_sq. Qed.

(* Frobenius error <= e sqrt(d-1): no hypothesis on the magnitude of the data *)
Theorem C03_svd_error : forall svdo (e : R) rcap ns data, ns <> [] -> Forall (fun n => (0 < n)%nat) ns -> (0 <= e)%R ->
  calls_ok OR svdo e rcap 0 (mkmat 1 (prodn ns) (fun _ j => nth j data 0%R)) 1 ns ->
  cap_free svdo e rcap 0 (mkmat 1 (prodn ns) (fun _ j => nth j data 0%R)) 1 ns ->
  (sqrt (msum OR ns (fun idx => (nth (cpos ns idx 0) data 0 - get OR (svd OR svdo ns data e rcap) idx) *
                                (nth (cpos ns idx 0) data 0 - get OR (svd OR svdo ns data e rcap) idx)))
   <= e * sqrt (INR (length ns - 1)))%R.
Proof. exact svd_error. Qed.

(* the same for every routine meeting the contract, with a cap that is at least the number of entries (default 1e12) *)
Theorem C03_svd_error_contract : forall svdo (e : R) rcap ns data, ns <> [] -> Forall (fun n => (0 < n)%nat) ns ->
  (0 <= e)%R ->
  (forall k A, (0 < mr A)%nat -> (0 < mc A)%nat -> let '(U, s, V) := svdo k A in svd_ok OR A U s V) ->
  (Z.of_nat (prodn ns) <= rcap)%Z ->
  (sqrt (msum OR ns (fun idx => (nth (cpos ns idx 0) data 0 - get OR (svd OR svdo ns data e rcap) idx) *
                                (nth (cpos ns idx 0) data 0 - get OR (svd OR svdo ns data e rcap) idx)))
   <= e * sqrt (INR (length ns - 1)))%R.
Proof. exact svd_error_contract. Qed.

(* svd_exact: nothing of non-zero energy discarded => every entry reproduced exactly; e = 0 is one such case *)
Theorem C03_svd_exact : forall svdo (e : R) rcap ns data, ns <> [] -> Forall (fun n => (0 < n)%nat) ns ->
  calls_ok OR svdo e rcap 0 (mkmat 1 (prodn ns) (fun _ j => nth j data 0%R)) 1 ns ->
  tails OR svdo e rcap 0 (mkmat 1 (prodn ns) (fun _ j => nth j data 0%R)) 1 ns = 0%R ->
  forall idx, inb ns idx -> get OR (svd OR svdo ns data e rcap) idx = nth (cpos ns idx 0) data 0%R.
Proof. exact svd_exact. Qed.
Theorem C03_svd_exact_e0 : forall svdo (e : R) rcap ns k0 Zm q, e = 0%R ->
  calls_ok OR svdo e rcap k0 Zm q ns -> cap_free svdo e rcap k0 Zm q ns -> tails OR svdo e rcap k0 Zm q ns = 0%R.
Proof. exact tails_zero. Qed.

(* ---- exact ranks ----
   the rank rule on a spectrum with rho positive entries followed by zeros, budget below the positive part, cap >= rho:
   exactly rho is chosen and the cap does not bind *)
Theorem C03_rank_select_exact : forall (x : list R) (e2 : R) rcap rho, 1 <= rho <= length x -> (0 <= e2)%R ->
  (forall i, i < rho -> (e2 < nth i x 0)%R) -> (forall i, rho <= i -> nth i x 0%R = 0%R) -> (Z.of_nat rho <= rcap)%Z ->
  rank_select OR x e2 rcap = rho /\ cap_free_at x e2 rcap.
Proof. exact rank_select_exact. Qed.
(* along a whole run: if every factorised matrix has an exact-rank spectrum (oracle clause s_i > 0 <-> i < rho_k),
   e lies below the positive singular values and the cap is >= rho_k, then the returned TT-ranks are exactly the
   rho_k, nothing of non-zero energy is discarded and the cap never binds.  The FIRST factorised matrix is the first
   unfolding of the input itself (C03_first_unfolding), so for the first bond rho_1 is the rank of the input's
   unfolding; for later bonds rho_k refers to the matrix factorised at step k (see CLAIM). *)
Theorem C03_svd_exact_ranks : forall svdo (e : R) rcap ns rhos k0 Zm q, ns <> [] ->
  exact_run svdo e rcap rhos k0 Zm q ns ->
  map (@cr2 R) (svd_loop OR svdo k0 Zm q ns e rcap) = rhos ++ [1] /\
  tails OR svdo e rcap k0 Zm q ns = 0%R /\ cap_free svdo e rcap k0 Zm q ns.
Proof. exact exact_run_ranks. Qed.
Theorem C03_first_unfolding : forall (T : Type) (K : ops T) (data : list T) n1 N i p, 0 < n1 -> i < n1 -> p < N ->
  mget K (step_mat K (mkmat 1 (n1 * N) (fun _ j => nth j data (o0 K))) 1 n1) i p = nth (i * N + p) data (o0 K).
Proof.
  intros T K data n1 N i p H1 Hi Hp.
  pose proof (step_mat_get K (mkmat 1 (n1 * N) (fun _ j => nth j data (o0 K))) 1 n1 N 0 i p eq_refl eq_refl) as E.
  cbn [Nat.mul Nat.add] in E. rewrite E by lia. rewrite mget_mk by nia. reflexivity.
Qed.

(* ... and for EVERY bond the spectrum seen at step k is a spectrum of the k-th unfolding of the INPUT: under the
   same hypotheses plus the SVD contract on the calls of the run, the unfolding data.reshape(n_1..n_k, -1) has a
   contract-meeting factorisation U' diag(s_k) V_k with the recorded s_k, V_k (the factorised matrix is P^T X_k with
   P the orthonormal prefix; nothing was lost before).  So rho_k = number of positive singular values of the input's
   k-th unfolding in that SVD.  (Independence of that number from the chosen SVD = uniqueness of singular values,
   classical, not proved here: hence "partial" in the name.) *)
Theorem C03_svd_exact_ranks_unfoldings_partial : forall (data : list R) svdo (e : R) rcap ns rhos,
  Forall (fun n => 0 < n) ns ->
  calls_ok OR svdo e rcap 0 (mkmat 1 (prodn ns) (fun _ j => nth j data 0%R)) 1 ns ->
  exact_run svdo e rcap rhos 0 (mkmat 1 (prodn ns) (fun _ j => nth j data 0%R)) 1 ns ->
  linked data svdo e rcap 1 0 (mkmat 1 (prodn ns) (fun _ j => nth j data 0%R)) 1 ns.
Proof. exact exact_ranks_link. Qed.
(* one step of it, in isolation: prefix P with orthonormal columns and P Zm = input  ==>  SVD of the input unfolding *)
Theorem C03_link_step : forall (data : list R) Npre P Zm q n N' U s V, 0 < q -> 0 < n -> mr Zm = q -> mc Zm = n * N' ->
  inv data Npre P Zm q (n * N') -> svd_ok OR (step_mat OR Zm q n) U s V ->
  svd_ok OR (unfold_mat data (Npre * n) N') (mkmat (Npre * n) (length s) (lift P (mget OR U) q n)) s V.
Proof. exact link_svd. Qed.

(* ---- rel = True: the same two statements with e replaced by e * s_0 (s_0 > 0) ---- *)
Theorem C03_rel_tail : forall (s : list R) (e : R) rcap, 1 <= length s -> (0 < nth 0 s 0)%R ->
  cap_free_at (rel_weights s) (e * e)%R rcap ->
  (tail OR s (skel_rank OR s e rcap true) <= (e * nth 0 s 0) * (e * nth 0 s 0))%R.
Proof. exact rel_tail. Qed.
Theorem C03_rel_minimal : forall (s : list R) (e : R) rcap q', (0 < nth 0 s 0)%R ->
  cap_free_at (rel_weights s) (e * e)%R rcap ->
  q' < skel_rank OR s e rcap true -> 1 < skel_rank OR s e rcap true ->
  ((e * nth 0 s 0) * (e * nth 0 s 0) < tail OR s q')%R.
Proof. exact rel_minimal. Qed.
(* s_0 = 0: the code computes 0/0 = NaN and every comparison with NaN is false; for ANY carrier, if no comparison of
   the cumulative sums succeeds then no rank is cut: q = max(1, min(int r, len)) *)
Theorem C03_rank_select_nocut : forall (T : Type) (K : ops T) x e2 rcap,
  (forall j, j < length x -> oleb K (nth j (cumsum K (rev x)) (o0 K)) e2 = false) ->
  rank_select K x e2 rcap = Z.to_nat (Z.max 1 (Z.min rcap (Z.of_nat (length x)))).
Proof. exact @rank_select_nocut. Qed.

(* ---- malformed inputs of the matrix variant: what raises, and what comes back otherwise ---- *)
Theorem C03_svd_matrix_rej_empty : forall (T : Type) (K : ops T) svdo Y e rcap, mr Y = 0 ->
  svd_matrix K svdo Y e rcap = Err OtherError.
Proof. exact @svd_matrix_rej_empty. Qed.
Theorem C03_svd_matrix_rej_1x1 : forall (T : Type) (K : ops T) svdo Y e rcap, mr Y = 1 -> mc Y = 1 ->
  svd_matrix K svdo Y e rcap = Err IndexError.
Proof. exact @svd_matrix_rej_1x1. Qed.
Theorem C03_svd_matrix_rej_shape : forall (T : Type) (K : ops T) svdo Y e rcap, 0 < mr Y ->
  (forall q, ~ (mr Y = 2 ^ q /\ mc Y = 2 ^ q)) -> svd_matrix K svdo Y e rcap = Err ValueError.
Proof. exact @svd_matrix_rej_shape. Qed.
Theorem C03_svd_matrix_wf : forall (T : Type) (K : ops T) svdo Y e rcap Yt, svd_matrix K svdo Y e rcap = Ok Yt ->
  exists q, 1 <= q /\ mr Y = 2 ^ q /\ mc Y = 2 ^ q /\ length Yt = q /\
    chain 1 Yt 1 /\ shape Yt = repeat 4 q /\ Forall (fun G => 1 <= cr2 G <= capn rcap) Yt.
Proof. exact @svd_matrix_wf. Qed.
Theorem C03_full_matrix_rej_empty : forall (T : Type) (K : ops T) o, full_matrix K (@nil (core T)) o = Err IndexError.
Proof. exact @full_matrix_rej_empty. Qed.
Theorem C03_full_matrix_rej_size : forall (T : Type) (K : ops T) G0 Y' o, cr1 G0 = 1 -> cr2 (last (G0 :: Y') G0) = 1 ->
  prodn (map cn (G0 :: Y')) <> 4 ^ length (G0 :: Y') -> full_matrix K (G0 :: Y') o = Err ValueError.
Proof. exact @full_matrix_rej_size. Qed.
Theorem C03_full_matrix_rej_boundary : forall (T : Type) (K : ops T) G0 Y' o,
  cr1 G0 <> 1 \/ cr2 (last (G0 :: Y') G0) <> 1 -> full_matrix K (G0 :: Y') o = Err ValueError.
Proof. exact @full_matrix_rej_boundary. Qed.
Theorem C03_full_matrix_wf : forall (T : Type) (K : ops T) Y o M, full_matrix K Y o = Ok M ->
  Y <> [] /\ mr M = 2 ^ length Y /\ mc M = 2 ^ length Y /\ prodn (map cn Y) = 4 ^ length Y.
Proof. exact @full_matrix_wf. Qed.

(* ---- the matrix variant: index interleaving and its inverse, every q ---- *)
Theorem C03_interleave_get : forall (T : Type) (K : ops T) q Y i j, i < 2 ^ q -> j < 2 ^ q ->
  cpos (repeat 4 q) (modes_of true q i j) 0 < 4 ^ q /\
  nth (cpos (repeat 4 q) (modes_of true q i j) 0) (interleaved K q Y) (o0 K) = mget K Y i j.
Proof. exact @interleave_get. Qed.

Theorem C03_full_matrix_get : forall (T : Type) (K : ops T) (Y : list (core T)) o, Y <> [] -> chain 1 Y 1 ->
  Forall (fun G => cn G = 4) Y ->
  exists M, full_matrix K Y o = Ok M /\ mr M = 2 ^ length Y /\ mc M = 2 ^ length Y /\
    forall i j, i < 2 ^ length Y -> j < 2 ^ length Y -> mget K M i j = get K Y (modes_of o (length Y) i j).
Proof. exact @full_matrix_get. Qed.

(* full_matrix (order='F') after svd_matrix: entry (i, j) of the result is the entry of the produced tensor at the
   multi-index where svd_matrix had stored Y[i, j]; the entrywise error is the TT-SVD error, re-indexed *)
Theorem C03_interleave_inv : forall (T : Type) (K : ops T) svdo q Y e rcap, 1 <= q -> mr Y = 2 ^ q -> mc Y = 2 ^ q ->
  exists Yt M, svd_matrix K svdo Y e rcap = Ok Yt /\ Yt = svd K svdo (repeat 4 q) (interleaved K q Y) e rcap /\
    full_matrix K Yt true = Ok M /\ mr M = 2 ^ q /\ mc M = 2 ^ q /\
    forall i j, i < 2 ^ q -> j < 2 ^ q ->
      let ts := modes_of true q i j in
      inb (repeat 4 q) ts /\ mget K M i j = get K Yt ts /\
      nth (cpos (repeat 4 q) ts 0) (interleaved K q Y) (o0 K) = mget K Y i j.
Proof. exact @interleave_inv. Qed.

(* the error bound for the matrix variant, measured on the matrix that full_matrix returns: e sqrt(q-1) *)
Theorem C03_svd_matrix_error : forall svdo (e : R) rcap q Y, 1 <= q -> mr Y = 2 ^ q -> mc Y = 2 ^ q -> (0 <= e)%R ->
  calls_ok OR svdo e rcap 0 (mkmat 1 (prodn (repeat 4 q)) (fun _ j => nth j (interleaved OR q Y) 0%R)) 1 (repeat 4 q) ->
  cap_free svdo e rcap 0 (mkmat 1 (prodn (repeat 4 q)) (fun _ j => nth j (interleaved OR q Y) 0%R)) 1 (repeat 4 q) ->
  exists Yt M, svd_matrix OR svdo Y e rcap = Ok Yt /\ full_matrix OR Yt true = Ok M /\
    mr M = 2 ^ q /\ mc M = 2 ^ q /\
    (sqrt (bsum OR (2 ^ q) (fun i => bsum OR (2 ^ q) (fun j =>
             (mget OR Y i j - mget OR M i j) * (mget OR Y i j - mget OR M i j))))
     <= e * sqrt (INR (q - 1)))%R.
Proof. exact svd_matrix_error. Qed.

(* ---- non-vacuity ---- *)
(* a concrete 2 x 2 run over R whose recorded factorisation meets the contract and whose cap does not bind *)
Example C03_svd_error_hyps_example :
  calls_ok OR ex_svdo (1/2)%R 10 0 (mkmat 1 (prodn [2; 2]%nat) (fun _ j => nth j ex_data 0%R)) 1 [2; 2]%nat /\
  cap_free ex_svdo (1/2)%R 10 0 (mkmat 1 (prodn [2; 2]%nat) (fun _ j => nth j ex_data 0%R)) 1 [2; 2]%nat.
Proof. exact svd_error_hyps_example. Qed.
Example C03_exact_run_example :
  exact_run ex_svdo (1/2)%R 10 [2] 0 (mkmat 1 (prodn [2; 2]%nat) (fun _ j => nth j ex_data 0%R)) 1 [2; 2]%nat.
Proof. exact exact_run_example. Qed.
(* the index maps on concrete numbers: q = 2, entry (i, j) = (2, 1): t = (0 + 2*1, 1 + 2*0) = (2, 1), position 2*4+1 *)
Example C03_interleave_example :
  modes_of true 2 2 1 = [2; 1] /\ cpos (repeat 4 2) [2; 1] 0 = 9 /\ digits4 2 9 = [2; 1] /\
  row_of [2; 1] = 2 /\ col_of [2; 1] = 1 /\
  interleaved OZ 1 (mk_mat 2 2 [[10; 11]; [12; 13]]%Z) = [10; 12; 11; 13]%Z /\
  rank_select OZ [9; 4; 1]%Z 5%Z 7%Z = 1 /\ rank_select OZ [9; 4; 1]%Z 4%Z 7%Z = 2 /\ rank_select OZ [9; 4; 1]%Z 100%Z 7%Z = 1 /\
  rank_select OZ [9; 4; 1]%Z 0%Z 2%Z = 2.
Proof. repeat split. Qed.
