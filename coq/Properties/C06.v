(* C06 — TT-cross honours its evaluation budget, index domain and stop contract.
   Only statements, each closed by [exact], and non-vacuity Examples.  The model is Model/Cross.v (small-step state
   machine of teneva.cross); every theorem quantifies over the objective f (call number -> batch -> values or None),
   the callback, the numeric kernel (opaque payload P), the configuration C (initial tensor of any dimension / mode
   sizes / ranks, stop arguments, rank-growth window, initial cache) and the fuel (number of sweeps allowed to the
   fuelled loop).  Hypotheses: Y0_ok (the initial tensor is well formed, d >= 1, sizes and ranks >= 1) and pick_ok
   (contract of maxvol / maxvol_rect: valid pairwise distinct row numbers, count inside the dr window; property C08).

   Vocabulary (Model/Cross.v, Proofs/CrossInvA.v):
     k_log c      every invocation of _func_eval, newest first: requested rows ev_I, rows not in the cache ev_new,
                  outcome Refused (budget) | Skipped (all cached, objective not called) | Called r
     fcalls c     the calls of the objective, oldest first: (batch, returned value or None)
     evald q      concatenation of the batches of the calls that returned values
     hits l       number of requested rows served from the cache in successful invocations
     ns C         the shape [n_1; ..; n_d];  Forall2 lt r (ns C) = row r has width d and r_k < n_k for every k
     reach s      s = iterate step k init for some k (every state of every run, finished or not) *)
From Coq Require Import List Arith Lia PeanoNat Bool ZArith.
From TV Require Import Num.Ops Model.Cross Proofs.CrossIdx Proofs.CrossGeo Proofs.CrossInvA Proofs.CrossInvB
  Proofs.CrossInvC Proofs.CrossP Proofs.CrossEx.
Import ListNotations.

Section C06.
Context {T : Type} (K : ops T) {P : Type}.
Variable isinf : T -> bool.
Variable f : nat -> rows -> option (list T).
Variable cb : option (nat -> bool).
Variable pones : P.
Variable pdotL pdotR : P -> P -> P.
Variable pvals : nat -> nat -> nat -> list T -> P.
Variable pick : nat -> bool -> nat -> nat -> nat -> P -> nat -> nat -> list nat.
Variable pcoreG pfacR : bool -> nat -> nat -> nat -> P -> list nat -> P.
Variable erank : nat -> list (@mcore P) -> T.
Variable accuracy : nat -> list (@mcore P) -> list (@mcore P) -> T.
Variable accdata : nat -> list (@mcore P) -> T.
Variable C : @cfg T P.
Notation crossm := (cross_m K isinf f cb pones pdotL pdotR pvals pick pcoreG pfacR erank accuracy accdata C).
Notation reachm := (reach K isinf f cb pones pdotL pdotR pvals pick pcoreG pfacR erank accuracy accdata C).

(* ---------------------------------------------------------------------------------------------- arguments *)
(* missing stop criteria are rejected with ValueError; the objective is never consulted (the result does not
   depend on f, and an Err carries no state) *)
Theorem C06_args_rejected : forall fuel,
  (c_m C = None /\ c_e C = None /\ c_nswp C = None /\ (c_hasI C && c_hasy C = false \/ c_evld C = None))
  \/ (c_evld C <> None /\ c_hasI C && c_hasy C = false) ->
  crossm fuel = Err ValueError.
Proof. exact (args_rejected K isinf f cb pones pdotL pdotR pvals pick pcoreG pfacR erank accuracy accdata C). Qed.

(* ---------------------------------------------------------------------------------------------- result *)
(* however and whenever the run ends (normal stop; budget or None at any call of either half sweep of any sweep;
   callback), the returned tensor has d cores with the original mode sizes, boundary ranks 1, matching ranks *)
Theorem C06_interrupted_wf : forall fuel s,
  Y0_ok pones C -> pick_ok pick -> crossm fuel = Ok s -> tt_wf pones C (sY s).
Proof. exact (interrupted_wf K isinf f cb pones pdotL pdotR pvals pick pcoreG pfacR erank accuracy accdata C). Qed.

(* ---------------------------------------------------------------------------------------------- index domain *)
(* every request assembled by _func (also a refused one) and every batch handed to the objective is a non-empty
   list of pairwise distinct rows of width d inside the tensor bounds; at any moment of any run *)
Theorem C06_requests_in_domain_anytime : forall s,
  Y0_ok pones C -> pick_ok pick -> reachm s ->
  Forall (fun e => ev_I e <> [] /\ NoDup (ev_I e) /\ Forall (fun r => Forall2 lt r (ns C)) (ev_I e)) (k_log (sK s)) /\
  Forall (fun q => fst q <> [] /\ NoDup (fst q) /\ Forall (fun r => Forall2 lt r (ns C)) (fst q)) (fcalls (sK s)).
Proof.
  exact (fun s HY Hp => requests_in_domain_anytime K isinf f cb pones pdotL pdotR pvals pick pcoreG pfacR erank
                          accuracy accdata C HY Hp s).
Qed.
Theorem C06_requests_in_domain : forall fuel s,
  Y0_ok pones C -> pick_ok pick -> crossm fuel = Ok s ->
  Forall (fun e => ev_I e <> [] /\ NoDup (ev_I e) /\ Forall (fun r => Forall2 lt r (ns C)) (ev_I e)) (k_log (sK s)) /\
  Forall (fun q => fst q <> [] /\ NoDup (fst q) /\ Forall (fun r => Forall2 lt r (ns C)) (fst q)) (fcalls (sK s)).
Proof.
  exact (fun fuel s HY Hp => requests_in_domain K isinf f cb pones pdotL pdotR pvals pick pcoreG pfacR erank
                               accuracy accdata C HY Hp fuel s).
Qed.

(* ---------------------------------------------------------------------------------------------- budget *)
(* info.m = number of indices handed to the objective in calls that returned values, never above m_max;
   k_nf = number of calls of the objective; info.m_cache = number of requested indices served from the cache *)
Theorem C06_budget_anytime : forall s,
  Y0_ok pones C -> pick_ok pick -> reachm s ->
  k_m (sK s) = length (evald (fcalls (sK s))) /\ k_nf (sK s) = length (fcalls (sK s)) /\
  k_mc (sK s) = hits (k_log (sK s)) /\ (forall mm, m_max C = Some mm -> k_m (sK s) <= mm).
Proof.
  exact (fun s HY Hp => budget_anytime K isinf f cb pones pdotL pdotR pvals pick pcoreG pfacR erank
                          accuracy accdata C HY Hp s).
Qed.
Theorem C06_budget : forall fuel s,
  Y0_ok pones C -> pick_ok pick -> crossm fuel = Ok s ->
  k_m (sK s) = length (evald (fcalls (sK s))) /\ k_nf (sK s) = length (fcalls (sK s)) /\
  k_mc (sK s) = hits (k_log (sK s)) /\ (forall mm, m_max C = Some mm -> k_m (sK s) <= mm).
Proof.
  exact (fun fuel s HY Hp => budget K isinf f cb pones pdotL pdotR pvals pick pcoreG pfacR erank
                               accuracy accdata C HY Hp fuel s).
Qed.

(* everything the objective was ever asked for - including the batch of a call that returned None - fits into m_max *)
Theorem C06_asked_within_budget : forall s mm,
  Y0_ok pones C -> pick_ok pick -> reachm s -> m_max C = Some mm ->
  length (flat_map fst (fcalls (sK s))) <= mm.
Proof.
  exact (fun s mm HY Hp => asked_bound_anytime K isinf f cb pones pdotL pdotR pvals pick pcoreG pfacR erank
                             accuracy accdata C HY Hp s mm).
Qed.

(* without cache every requested index is handed to the objective, nothing is skipped, m_cache stays 0 *)
Theorem C06_budget_nocache_anytime : forall s,
  Y0_ok pones C -> pick_ok pick -> c_cache C = None -> reachm s ->
  k_cache (sK s) = None /\ k_mc (sK s) = 0 /\
  Forall (fun e => ev_new e = ev_I e /\ ev_out e <> Skipped) (k_log (sK s)).
Proof.
  exact (fun s HY Hp => budget_nocache_anytime K isinf f cb pones pdotL pdotR pvals pick pcoreG pfacR erank
                          accuracy accdata C HY Hp s).
Qed.

(* with a cache (objective returning arrays of the requested length): every request is split exactly into the
   indices already known (initial cache or evaluated earlier: served from the cache, counted in m_cache by
   C06_budget) and the others, which alone are handed to the objective; hence every index is evaluated at most once
   over the whole run and never if it was in the initial cache; the cache holds exactly the initial keys plus the
   evaluated indices, each evaluated index with the value returned for it, initial entries unchanged *)
Theorem C06_budget_cache_anytime : forall ch0 s,
  Y0_ok pones C -> pick_ok pick ->
  (forall k I y, f k I = Some y -> length y = length I) -> c_cache C = Some ch0 -> reachm s ->
  exists ch, k_cache (sK s) = Some ch /\
    log_split ch0 (k_log (sK s)) /\
    NoDup (evald (fcalls (sK s))) /\ (forall i, In i (evald (fcalls (sK s))) -> cmem i ch0 = false) /\
    (forall i, cmem i ch = cmem i ch0 || rmem i (evald (fcalls (sK s)))) /\
    (forall i, cmem i ch0 = true -> cget0 K i ch = cget0 K i ch0) /\
    (forall I y, In (I, Some y) (fcalls (sK s)) -> forall k, k < length I ->
                 cget0 K (nth k I []) ch = nth k y (o0 K)).
Proof.
  exact (fun ch0 s HY Hp Hlen Hch => budget_cache_anytime K isinf f cb pones pdotL pdotR pvals pick pcoreG pfacR erank
                                       accuracy accdata C HY Hp Hlen ch0 Hch s).
Qed.

(* ---------------------------------------------------------------------------------------------- stop contract *)
(* a finished run reports exactly one reason, and
     m      a budget is set, the newest request was refused because info.m + (its new indices) > m_max, the objective
            was not called for it (a refusal is not a call), every earlier request succeeded
     func   the newest request is a call that returned None (its batch still fitted into the budget), every earlier
            request succeeded
     e      0 <= info.e <= e, finite (or, if the order of the carrier had 0 <= -1, pending from the pre-iteration:
            see C06_stop_e for the clean statement)
     e_vld  0 <= info.e_vld <= e_vld, finite, for the reported value — or the criterion was already met right after
            the pre-iteration (sweep count 0) by the value computed on the tensor Yold entering the first sweep; the
            driver then evaluates one batch, folds the unit factor into core 0 and recomputes the reported number
     nswp   info.nswp = nswp exactly
     cb     the callback returned a true value (truthiness, `if cb(...)`) for this sweep number and the conv rule
            did not fire
     conv   m_cache > scale * m *)
Theorem C06_stop_contract : forall fuel s,
  Y0_ok pones C -> pick_ok pick -> crossm fuel = Ok s ->
  exists r, k_stop (sK s) = Some r /\
  match r with
  | Sm => exists mm e l, m_max C = Some mm /\ k_log (sK s) = e :: l /\ ev_out e = Refused /\
                         mm < k_m (sK s) + length (ev_new e) /\ Forall (fun e => ev_good e = true) l
  | Sfunc => exists e l, k_log (sK s) = e :: l /\ ev_out e = Called None /\ Forall (fun e => ev_good e = true) l /\
                         (forall mm, m_max C = Some mm -> k_m (sK s) + length (ev_new e) <= mm)
  | Se => hit K isinf (s_e s) (c_e C) = true \/ (s_nswp s = 0 /\ hit K isinf (minus1 K) (c_e C) = true)
  | Sevld => hit K isinf (s_evld s) (c_evld C) = true \/
             (s_nswp s = 0 /\ hit K isinf (accdata_m K accdata C 0 (sYold s)) (c_evld C) = true)
  | Snswp => c_nswp C = Some (s_nswp s)
  | Scb => exists g, cb = Some g /\ g (s_nswp s) = true /\ (c_scale C * k_m (sK s) <? k_mc (sK s)) = false
  | Sconv => (c_scale C * k_m (sK s) <? k_mc (sK s)) = true
  end.
Proof.
  exact (fun fuel s HY Hp => stop_contract K isinf f cb pones pdotL pdotR pvals pick pcoreG pfacR erank
                               accuracy accdata C HY Hp fuel s).
Qed.

Theorem C06_stop_e : forall fuel s,
  Y0_ok pones C -> pick_ok pick -> oleb K (o0 K) (minus1 K) = false ->
  crossm fuel = Ok s -> k_stop (sK s) = Some Se -> hit K isinf (s_e s) (c_e C) = true.
Proof.
  exact (fun fuel s HY Hp => stop_e K isinf f cb pones pdotL pdotR pvals pick pcoreG pfacR erank
                               accuracy accdata C HY Hp fuel s).
Qed.

(* priority e_vld > e > nswp of utils._info_appr: after at least one sweep, "e" is reported only if the e_vld criterion
   is not met by the reported value, "nswp" only if neither the e nor the e_vld criterion is met *)
Theorem C06_stop_priority : forall fuel s,
  Y0_ok pones C -> pick_ok pick -> crossm fuel = Ok s -> 1 <= s_nswp s ->
  (k_stop (sK s) = Some Se -> hit K isinf (s_evld s) (c_evld C) = false) /\
  (k_stop (sK s) = Some Snswp ->
   hit K isinf (s_e s) (c_e C) = false /\ hit K isinf (s_evld s) (c_evld C) = false).
Proof.
  exact (fun fuel s HY Hp => stop_priority K isinf f cb pones pdotL pdotR pvals pick pcoreG pfacR erank
                               accuracy accdata C HY Hp fuel s).
Qed.

(* what "hit" means: a threshold is set, 0 <= v <= threshold, v is not infinite *)
Theorem C06_hit_spec : forall v thr, hit K isinf v thr = true ->
  exists t, thr = Some t /\ oleb K (o0 K) v = true /\ oleb K v t = true /\ isinf v = false.
Proof. exact (hit_spec K isinf). Qed.

(* at any moment only the newest request can be a refusal or a None answer (nothing is requested after either);
   "func" is reported iff the newest request is a call that returned None, "m" iff it is a refusal *)
Theorem C06_stop_func_m_iff : forall s,
  Y0_ok pones C -> pick_ok pick -> reachm s ->
  match k_log (sK s) with
  | [] => k_stop (sK s) <> Some Sm /\ k_stop (sK s) <> Some Sfunc
  | e :: l => Forall (fun e => ev_good e = true) l /\
      (k_stop (sK s) = Some Sfunc <-> ev_out e = Called None) /\ (k_stop (sK s) = Some Sm <-> ev_out e = Refused)
  end.
Proof.
  exact (fun s HY Hp => stop_log_shape K isinf f cb pones pdotL pdotR pvals pick pcoreG pfacR erank
                          accuracy accdata C HY Hp s).
Qed.

(* never more sweeps than nswp *)
Theorem C06_nswp_bound : forall s t,
  Y0_ok pones C -> pick_ok pick -> reachm s -> c_nswp C = Some t -> s_nswp s <= t.
Proof.
  exact (fun s t HY Hp => nswp_bound K isinf f cb pones pdotL pdotR pvals pick pcoreG pfacR erank
                            accuracy accdata C HY Hp s t).
Qed.

(* ---------------------------------------------------------------------------------------------- termination *)
(* the out-of-fuel value is impossible when nswp is given and fuel > nswp ... *)
Theorem C06_terminates_nswp : forall t fuel,
  Y0_ok pones C -> pick_ok pick -> args_ok C = true -> c_nswp C = Some t -> t < fuel ->
  exists s, crossm fuel = Ok s.
Proof.
  exact (fun t fuel HY Hp => terminates_nswp_ok K isinf f cb pones pdotL pdotR pvals pick pcoreG pfacR erank
                               accuracy accdata C HY Hp t fuel).
Qed.
(* ... when a positive budget m is given, with or without cache, whatever the objective answers (every main-loop
   position consumes a unit of m + m_cache, m <= m_max, and m_cache > scale * m ends the run) ... *)
Theorem C06_terminates_m : forall mm fuel,
  Y0_ok pones C -> pick_ok pick -> args_ok C = true -> m_max C = Some mm -> (c_scale C + 1) * mm < fuel ->
  exists s, crossm fuel = Ok s.
Proof.
  exact (fun mm fuel HY Hp => terminates_m_ok K isinf f cb pones pdotL pdotR pvals pick pcoreG pfacR erank
                                accuracy accdata C HY Hp mm fuel).
Qed.
(* ... and without cache already for fuel > m.  For runs with only e / e_vld termination is not a property of the
   code; the theorems above then speak about `crossm fuel = Ok s` (fuel hypothesis explicit). *)
Theorem C06_terminates_m_nocache : forall mm fuel,
  Y0_ok pones C -> pick_ok pick -> args_ok C = true -> c_cache C = None -> m_max C = Some mm -> mm < fuel ->
  exists s, crossm fuel = Ok s.
Proof.
  exact (fun mm fuel HY Hp => terminates_m_nocache_ok K isinf f cb pones pdotL pdotR pvals pick pcoreG pfacR erank
                                accuracy accdata C HY Hp mm fuel).
Qed.
(* ---------------------------------------------------------------------------------------------- known finding *)
(* C06/zero-objective-e-only-never-stops, on the model: with e as the ONLY stop argument (no budget, nswp, e_vld,
   callback, cache), an objective that always answers and an accuracy value that never meets the criterion at any sweep
   - the case of an identically zero objective, for which accuracy(Y, Yold) is the sentinel -1 (0/0) and _info_appr
   requires info.e >= 0 - no documented stop reason can fire: the run never returns, for every fuel.  (That accuracy
   really answers -1 on the zero tensor is a numeric fact shown on the implementation by the search, not here.) *)
Theorem C06_e_only_never_returns : forall fuel s,
  Y0_ok pones C -> pick_ok pick ->
  m_max C = None -> c_nswp C = None -> c_evld C = None -> cb = None -> c_cache C = None ->
  (forall k I, f k I <> None) ->
  (forall k Y Yo, hit K isinf (accuracy k Y Yo) (c_e C) = false) -> hit K isinf (minus1 K) (c_e C) = false ->
  crossm fuel <> Ok s.
Proof.
  exact (fun fuel s HY Hp => e_only_never_returns K isinf f cb pones pdotL pdotR pvals pick pcoreG pfacR erank
                               accuracy accdata C HY Hp fuel s).
Qed.
End C06.

(* ---------------------------------------------------------------------------------------------- non-vacuity *)
(* the hypotheses are satisfiable: a 2 x 3 x 2 tensor with ranks (1,2,2,1), growth window [1,1], a pick routine
   meeting the maxvol contract, an objective that answers with arrays of the requested length *)
Example C06_ex_Y0_ok : forall m nswp cache, Y0_ok tt (cfg_ex m nswp cache).
Proof. exact Y0_ex_ok. Qed.
Example C06_ex_pick_ok : pick_ok pick_ex.
Proof. exact pick_ex_ok. Qed.
Example C06_ex_objective_len : forall k I y, f_ex k I = Some y -> length y = length I.
Proof. exact f_ex_len. Qed.
(* 0 <= -1 is false (hypothesis of C06_stop_e) in Z and Qc; for binary64 the same closed computation
   `oleb OF (o0 OF) (minus1 OF)` gives false, but a statement about primitive floats would put the float primitives
   under Print Assumptions, so it is not stated here *)
Example C06_ex_order : oleb OZ (o0 OZ) (minus1 OZ) = false /\ oleb OQc (o0 OQc) (minus1 OQc) = false.
Proof. vm_compute. split; reflexivity. Qed.
(* (stop code, m, m_cache, sweeps, calls): nswp = 2 -> "nswp" after exactly 2 sweeps; budget 30 without cache ->
   "m" with m = 28 <= 30; budget 30 with an empty cache -> all 12 entries evaluated once, then "conv";
   nswp = 0 -> one batch is evaluated before the run returns (the quirk recorded in DESIGN section 6);
   fuel 0 is not enough for it *)
(* the known finding on a concrete instance: e = 1 only, zero objective, accuracy = -1: out of fuel for 0, 1, 5, 40 sweeps;
   the hypotheses of C06_e_only_never_returns hold for it (so it is out of fuel for every fuel) *)
Example C06_ex_e_only_zero_cycle :
  cross_zero_e_only 0 = Err OutOfFuel /\ cross_zero_e_only 1 = Err OutOfFuel /\
  cross_zero_e_only 5 = Err OutOfFuel /\ cross_zero_e_only 40 = Err OutOfFuel /\
  hit OZ (fun _ => false) (-1)%Z (Some 1%Z) = false.
Proof. vm_compute. repeat split. Qed.

Example C06_ex_runs :
  summary (cross_ex None (Some 2) None 3) = Some (5, 94, 0, 2, 12) /\
  summary (cross_ex (Some 30) None None 31) = Some (1, 28, 0, 0, 4) /\
  summary (cross_ex (Some 30) None (Some []) 200) = Some (7, 12, 82, 2, 2) /\
  summary (cross_ex None (Some 0) None 1) = Some (5, 4, 0, 0, 1) /\
  summary (cross_ex None (Some 0) None 0) = None.
Proof. vm_compute. repeat split. Qed.
