(* C06 — TT-cross honours its evaluation budget, index domain and stop contract.
   Only statements, each closed by [exact].  The model is Model/Cross.v; every theorem quantifies over the
   objective f (call number -> batch -> values or None), the callback, the numeric kernel (opaque payload P),
   the configuration C (initial tensor shapes of any dimension / mode sizes / ranks, stop arguments, rank-growth
   window, cache) and the fuel (number of sweeps allowed to the fuelled loop). *)
From Coq Require Import List Arith Lia PeanoNat Bool.
From TV Require Import Num.Ops Model.Cross Proofs.CrossIdx Proofs.CrossGeo Proofs.CrossP.
Import ListNotations.

Section C06.
Context {T : Type} (K : ops T) {P : Type}.
Variable isinf : T -> bool.
Variable f : nat -> rows -> option (list T).
Variable cb : option (nat -> bool).
Variable pones : P.
Variable pdotL pdotR : P -> P -> P.
Variable pvals : nat -> nat -> nat -> list T -> P.
Variable pick : nat -> bool -> nat -> nat -> nat -> P -> nat -> nat -> list nat.
Variable pcoreG pfacR : bool -> nat -> nat -> nat -> P -> list nat -> P.
Variable erank : nat -> list (@mcore P) -> T.
Variable accuracy : nat -> list (@mcore P) -> list (@mcore P) -> T.
Variable accdata : nat -> list (@mcore P) -> T.
Variable C : @cfg T P.
Notation crossm := (cross_m K isinf f cb pones pdotL pdotR pvals pick pcoreG pfacR erank accuracy accdata C).

(* missing stop criteria are rejected with ValueError; the objective is never consulted (the result does not
   depend on f, and an Err carries no state) *)
Theorem C06_args_rejected : forall fuel,
  (c_m C = None /\ c_e C = None /\ c_nswp C = None /\ (c_hasI C && c_hasy C = false \/ c_evld C = None))
  \/ (c_evld C <> None /\ c_hasI C && c_hasy C = false) ->
  crossm fuel = Err ValueError.
Proof. exact (args_rejected K isinf f cb pones pdotL pdotR pvals pick pcoreG pfacR erank accuracy accdata C). Qed.

(* however and whenever the run ends (normal stop; budget or None at any call of either half sweep of any sweep;
   callback), the returned tensor has d cores with the original mode sizes, boundary ranks 1, matching ranks *)
Theorem C06_interrupted_wf : forall fuel s,
  Y0_ok pones C -> pick_ok pick -> crossm fuel = Ok s -> tt_wf pones C (sY s).
Proof. exact (interrupted_wf K isinf f cb pones pdotL pdotR pvals pick pcoreG pfacR erank accuracy accdata C). Qed.
End C06.
