(* C18 — grid index <-> point maps.  Only statements, each closed by [exact]; non-vacuity Examples at the end.
   Theorems about order / rounding / trigonometry are stated at Coq Reals: OR is the operation record of R,
   floor is Int_part, np.cos / np.arccos / np.pi are cos / acos / PI.  Theorems about option handling and
   batches hold for every number type (no law of arithmetic is used). *)
From Coq Require Import List ZArith Bool Lia Reals Lra QArith Qcanon.
From TV Require Import Num.Ops Lin.Tab Model.GridInd Model.GridPoi.
From TV Require Import Proofs.GridPoiP Proofs.GridPoiOptP Proofs.GridPoiFlatP Proofs.GridPoiCdfP Proofs.GridPoiMultiP.
Import ListNotations.
Local Open Scope R_scope.

(* ---------------------------------------------------------------- np.rint *)
(* the modelled rint is a nearest integer, the even one on a tie *)
Theorem C18_rint_half_even : forall x,
  Rabs (x - IZR (rint OR Int_part x)) <= 1/2 /\
  (Rabs (x - IZR (rint OR Int_part x)) = 1/2 -> Z.even (rint OR Int_part x) = true).
Proof. exact rint_spec. Qed.
Theorem C18_rint_margin : forall x i, Rabs (x - IZR i) < 1/2 -> rint OR Int_part x = i.
Proof. exact rint_margin. Qed.

(* ---------------------------------------------------------------- end points, nodes lie in the box *)
Theorem C18_uni_endpoints : forall a b n, (2 <= n)%Z ->
  uni_node OR a b n 0 = a /\ uni_node OR a b n (n - 1) = b.
Proof. exact (fun a b n H => conj (uni_first a b n H) (uni_last a b n H)). Qed.
Theorem C18_cheb_endpoints : forall a b n, (2 <= n)%Z ->
  cheb_node OR cos PI a b n 0 = b /\ cheb_node OR cos PI a b n (n - 1) = a.
Proof. exact (fun a b n H => conj (cheb_first a b n H) (cheb_last a b n H)). Qed.
Theorem C18_uni_in_box : forall a b n i, a < b -> (2 <= n)%Z -> (0 <= i <= n - 1)%Z ->
  a <= uni_node OR a b n i <= b.
Proof. exact uni_in_box. Qed.
Theorem C18_cheb_in_box : forall a b n i, a < b -> a <= cheb_node OR cos PI a b n i <= b.
Proof. exact cheb_in_box. Qed.

(* ---------------------------------------------------------------- round trip, with its margin *)
(* every box a < b, every n >= 2, every index 0 <= i <= n-1, uniform and Chebyshev *)
Theorem C18_roundtrip : forall kd a b n i, kd = KUni \/ kd = KCheb -> a < b -> (2 <= n)%Z -> (0 <= i <= n - 1)%Z ->
  poi_to_ind_elem OR Int_part acos PI kd a b n (node OR cos PI kd a b n i) = i.
Proof. exact roundtrip. Qed.
(* the value handed to np.rint is exactly i ... *)
Theorem C18_roundtrip_param : forall kd a b n i, kd = KUni \/ kd = KCheb -> a < b -> (2 <= n)%Z -> (0 <= i <= n - 1)%Z ->
  param OR acos PI kd n (scale OR kd a b (node OR cos PI kd a b n i)) = IZR i.
Proof. exact param_node. Qed.
(* ... hence any perturbation of it below 1/2 leaves the returned index unchanged *)
Theorem C18_roundtrip_margin : forall kd a b n i e,
  kd = KUni \/ kd = KCheb -> a < b -> (2 <= n)%Z -> (0 <= i <= n - 1)%Z -> Rabs e < 1/2 ->
  clampI n (rint OR Int_part (param OR acos PI kd n (scale OR kd a b (node OR cos PI kd a b n i)) + e)) = i.
Proof. exact roundtrip_margin. Qed.
(* whole multi-indices through the list-level functions ind_to_poi / poi_to_ind *)
Theorem C18_roundtrip_multi : forall I av bv nv kd, kd = KUni \/ kd = KCheb ->
  length av = length I -> length bv = length I -> length nv = length I ->
  (forall k, (k < length I)%nat ->
     nth k av 0 < nth k bv 0 /\ (2 <= nth k nv 0)%Z /\ (0 <= nth k I 0 <= nth k nv 0 - 1)%Z) ->
  exists X, ind_to_poi1 OR cos PI I (GVec av) (GVec bv) (GVec nv) kd = Ok X /\ length X = length I /\
            (forall k, (k < length I)%nat -> nth k av 0 <= nth k X 0 <= nth k bv 0) /\
            poi_to_ind1 OR Int_part acos PI X (GVec av) (GVec bv) (GVec nv) kd = Ok I.
Proof. exact roundtrip_multi. Qed.

(* ---------------------------------------------------------------- any point goes to a nearest node *)
(* t = grid parameter of x (the value handed to np.rint), I = returned index: I is a valid index, |t - I| <= 1/2,
   I is even on a tie, and no integer is closer to t than I.  No hypothesis on x: inside, on, outside the box. *)
Theorem C18_nearest_node : forall kd a b n x, kd = KUni \/ kd = KCheb -> (2 <= n)%Z ->
  let t := param OR acos PI kd n (scale OR kd a b x) in
  let I := poi_to_ind_elem OR Int_part acos PI kd a b n x in
  (0 <= I <= n - 1)%Z /\ 0 <= t <= IZR (n - 1) /\
  Rabs (t - IZR I) <= 1/2 /\ (Rabs (t - IZR I) = 1/2 -> Z.even I = true) /\
  (forall j : Z, Rabs (t - IZR I) <= Rabs (t - IZR j)).
Proof. exact nearest_node. Qed.
(* on the uniform grid this is nearest in space *)
Theorem C18_nearest_node_uni_space : forall a b n x j, a < b -> (2 <= n)%Z -> a <= x <= b ->
  Rabs (x - node OR cos PI KUni a b n (poi_to_ind_elem OR Int_part acos PI KUni a b n x)) <=
  Rabs (x - node OR cos PI KUni a b n j).
Proof. exact nearest_node_uni_space. Qed.
(* points outside the box (and its end points) go to the boundary index *)
Theorem C18_outside_box : forall a b n x, a < b -> (2 <= n)%Z ->
  (x <= a -> poi_to_ind_elem OR Int_part acos PI KUni a b n x = 0%Z /\
             poi_to_ind_elem OR Int_part acos PI KCheb a b n x = (n - 1)%Z) /\
  (b <= x -> poi_to_ind_elem OR Int_part acos PI KUni a b n x = (n - 1)%Z /\
             poi_to_ind_elem OR Int_part acos PI KCheb a b n x = 0%Z).
Proof.
  exact (fun a b n x Hab Hn =>
    conj (fun H => conj (outside_uni_low a b n x Hab Hn H) (outside_cheb_low a b n x Hab Hn H))
         (fun H => conj (outside_uni_high a b n x Hab Hn H) (outside_cheb_high a b n x Hab Hn H))).
Qed.

(* ---------------------------------------------------------------- scaling *)
Theorem C18_scale_uni : forall a b x, scale OR KUni a b x = Rmax 0 (Rmin 1 ((x - a) / (b - a))).
Proof. exact scale_uni_affine. Qed.
Theorem C18_scale_cheb : forall a b x, a < b ->
  scale OR KCheb a b x = Rmax (-1) (Rmin 1 ((2 * x - a - b) / (b - a))).
Proof. exact scale_cheb_affine. Qed.
Theorem C18_scale_lim : forall an bn a b x, a < b -> an <= bn ->
  scale OR (KLim an bn) a b x = Rmax an (Rmin bn (an + (x - a) * ((bn - an) / (b - a)))).
Proof. exact scale_lim_affine. Qed.
(* on the box nothing is clipped: the affine map of [a, b] onto [lo, hi] *)
Theorem C18_scale_inside : forall kd a b x lo hi, a < b -> a <= x <= b ->
  (kd = KUni /\ lo = 0 /\ hi = 1) \/ (kd = KCheb /\ lo = -1 /\ hi = 1) \/ (kd = KLim lo hi /\ lo <= hi) ->
  scale OR kd a b x = lo + (x - a) * ((hi - lo) / (b - a)) /\ lo <= scale OR kd a b x <= hi.
Proof. exact scale_inside. Qed.

(* ---------------------------------------------------------------- options: scalar = per-dimension *)
(* obc d o o': o' is o itself, or o is a scalar x and o' is the list of d copies of x *)
Theorem C18_opt_broadcast_ind_to_poi : forall T (K : ops T) cosf pi I a a' b b' n n' kd, I <> [] ->
  obc (length I) a a' -> obc (length I) b b' -> obc (length I) n n' ->
  ind_to_poi1 K cosf pi I a b n kd = ind_to_poi1 K cosf pi I a' b' n' kd.
Proof. exact @opt_broadcast_ind_to_poi1. Qed.
Theorem C18_opt_broadcast_poi_scale : forall T (K : ops T) X a a' b b' kd, X <> [] ->
  obc (length X) a a' -> obc (length X) b b' ->
  poi_scale1 K X a b kd = poi_scale1 K X a' b' kd.
Proof. exact @opt_broadcast_poi_scale1. Qed.
Theorem C18_opt_broadcast_poi_to_ind : forall T (K : ops T) fl acosf pi X a a' b b' n n' kd, X <> [] ->
  obc (length X) a a' -> obc (length X) b b' -> obc (length X) n n' ->
  poi_to_ind1 K fl acosf pi X a b n kd = poi_to_ind1 K fl acosf pi X a' b' n' kd.
Proof. exact @opt_broadcast_poi_to_ind1. Qed.
(* per-dimension options: coordinate k is treated with a_k, b_k, n_k by the scalar formulas *)
Theorem C18_ind_to_poi_coordinatewise : forall T (K : ops T) cosf pi I av bv nv kd, kd = KUni \/ kd = KCheb ->
  length av = length I -> length bv = length I -> length nv = length I ->
  ind_to_poi1 K cosf pi I (GVec av) (GVec bv) (GVec nv) kd =
  Ok (tab (length I) (fun k => node K cosf pi kd (nth k av (o0 K)) (nth k bv (o0 K)) (nth k nv 0%Z) (nth k I 0%Z))).
Proof. exact @ind_to_poi1_vec. Qed.
Theorem C18_poi_to_ind_coordinatewise : forall T (K : ops T) fl acosf pi X av bv nv kd, kd = KUni \/ kd = KCheb ->
  length av = length X -> length bv = length X -> length nv = length X ->
  poi_to_ind1 K fl acosf pi X (GVec av) (GVec bv) (GVec nv) kd =
  Ok (tab (length X) (fun k =>
        poi_to_ind_elem K fl acosf pi kd (nth k av (o0 K)) (nth k bv (o0 K)) (nth k nv 0%Z) (nth k X (o0 K)))).
Proof. exact @poi_to_ind1_vec. Qed.
Theorem C18_poi_scale_coordinatewise : forall T (K : ops T) X av bv kd, kd <> KBad ->
  length av = length X -> length bv = length X ->
  poi_scale1 K X (GVec av) (GVec bv) kd =
  Ok (tab (length X) (fun k => scale K kd (nth k av (o0 K)) (nth k bv (o0 K)) (nth k X (o0 K)))).
Proof. exact @poi_scale1_vec. Qed.

(* ---------------------------------------------------------------- batches = singles *)
(* rect d X: a non-empty batch whose rows all have length d *)
Theorem C18_batch_is_map_ind_to_poi : forall T (K : ops T) cosf pi I a b n kd d, rect d I ->
  ind_to_poi K cosf pi I a b n kd = sequence (map (fun i => ind_to_poi1 K cosf pi i a b n kd) I).
Proof. exact @batch_is_map_ind_to_poi. Qed.
Theorem C18_batch_is_map_poi_scale : forall T (K : ops T) X a b kd d, rect d X ->
  poi_scale K X a b kd = sequence (map (fun x => poi_scale1 K x a b kd) X).
Proof. exact @batch_is_map_poi_scale. Qed.
Theorem C18_batch_is_map_poi_to_ind : forall T (K : ops T) fl acosf pi X a b n kd d, rect d X ->
  poi_to_ind K fl acosf pi X a b n kd = sequence (map (fun x => poi_to_ind1 K fl acosf pi x a b n kd) X).
Proof. exact @batch_is_map_poi_to_ind. Qed.

(* ---------------------------------------------------------------- inconsistent option lengths *)
(* declared a b n d: the dimension d (if given) and the length of every list-valued option *)
Theorem C18_opts_rejected : forall A (a b : gopt A) n d reps x y,
  In x (declared a b n d) -> In y (declared a b n d) -> x <> y ->
  grid_prep_opts a b n d reps = Err ValueError.
Proof. exact @opts_rejected_mismatch. Qed.
Theorem C18_opts_rejected_nodim : forall A (a b : gopt A) n d reps,
  olen a = [] -> olen b = [] -> olen n = [] -> is_scalar a \/ is_scalar b \/ is_scalar n ->
  d = None \/ (exists dz, d = Some dz /\ (dz <= 0)%Z) ->
  grid_prep_opts a b n d reps = Err ValueError.
Proof. exact @opts_rejected_nodim. Qed.
Theorem C18_opts_accepted : forall A (a b : gopt A) n d (D : nat),
  (0 < D)%nat -> (forall x, In x (declared a b n d) -> x = Z.of_nat D) -> declared a b n d <> [] ->
  exists a1 b1 n1, grid_prep_opts a b n d None = Ok (a1, b1, n1) /\
    (forall v, a1 = P1 v -> length v = D) /\ (forall v, b1 = P1 v -> length v = D) /\
    (forall v, n1 = P1 v -> length v = D) /\
    (a = GNone <-> a1 = PNone) /\ (b = GNone <-> b1 = PNone) /\ (n = GNone <-> n1 = PNone).
Proof. exact @opts_accepted. Qed.
(* the public maps: a list-valued a / b / n of the wrong length is rejected with ValueError ... *)
Theorem C18_ind_to_poi_rejects : forall T (K : ops T) cosf pi I a b n kd x,
  In x (olen a ++ olen b ++ olen n) -> x <> Z.of_nat (length I) ->
  ind_to_poi1 K cosf pi I a b n kd = Err ValueError.
Proof. exact @ind_to_poi1_rejects. Qed.
Theorem C18_poi_scale_rejects : forall T (K : ops T) X a b kd x,
  In x (olen a ++ olen b) -> x <> Z.of_nat (length X) -> poi_scale1 K X a b kd = Err ValueError.
Proof. exact @poi_scale1_rejects. Qed.
Theorem C18_poi_to_ind_rejects_ab : forall T (K : ops T) fl acosf pi X a b n kd x,
  In x (olen a ++ olen b) -> x <> Z.of_nat (length X) -> poi_to_ind1 K fl acosf pi X a b n kd = Err ValueError.
Proof. exact @poi_to_ind1_rejects_ab. Qed.
(* ... and so is n of poi_to_ind (since /repo bc9fc68 it goes through grid_prep_opts(None, None, n, d, m)):
   every dimension d, every kind, as soon as the scaling of the point itself succeeded *)
Theorem C18_poi_to_ind_rejects_n : forall T (K : ops T) fl acosf pi X a b n kd Xsc x,
  poi_scale1 K X a b kd = Ok Xsc -> In x (olen n) -> x <> Z.of_nat (length X) ->
  poi_to_ind1 K fl acosf pi X a b n kd = Err ValueError.
Proof. exact @poi_to_ind1_rejects_n. Qed.
(* whatever a, b, kind are, a call with a wrong-length list n never succeeds *)
Theorem C18_poi_to_ind_rejects_n_never_ok : forall T (K : ops T) fl acosf pi X a b n kd x,
  In x (olen n) -> x <> Z.of_nat (length X) -> exists e, poi_to_ind1 K fl acosf pi X a b n kd = Err e.
Proof. exact @poi_to_ind1_rejects_n_never_ok. Qed.
(* the rejection clause for poi_to_ind in one statement: a, b given (a missing bound is a TypeError whatever n is),
   any list-valued a / b / n of the wrong length => ValueError *)
Theorem C18_poi_to_ind_rejects : forall T (K : ops T) fl acosf pi X a b n kd x, a <> GNone -> b <> GNone ->
  In x (olen a ++ olen b ++ olen n) -> x <> Z.of_nat (length X) ->
  poi_to_ind1 K fl acosf pi X a b n kd = Err ValueError.
Proof. exact @poi_to_ind1_rejects. Qed.
(* batches [m, d], m >= 1: rejected exactly as their rows *)
Theorem C18_batch_rejects : forall T (K : ops T) fl cosf acosf pi (X : list (list T)) (I : list (list Z)) a b n kd d x,
  x <> Z.of_nat d ->
  (rect d I -> In x (olen a ++ olen b ++ olen n) -> ind_to_poi K cosf pi I a b n kd = Err ValueError) /\
  (rect d X -> In x (olen a ++ olen b) -> poi_scale K X a b kd = Err ValueError) /\
  (rect d X -> a <> GNone -> b <> GNone -> In x (olen a ++ olen b ++ olen n) ->
   poi_to_ind K fl acosf pi X a b n kd = Err ValueError).
Proof. exact @batch_rejects. Qed.

(* the code as pinned prepared n with grid_prep_opt alone (no validation).  It agrees with the code on every n of
   the right length or scalar ... *)
Theorem C18_poi_to_ind_pinned_same : forall T (K : ops T) fl acosf pi X a b n kd,
  (forall x, In x (olen n) -> x = Z.of_nat (length X)) ->
  poi_to_ind1 K fl acosf pi X a b n kd = poi_to_ind1_pinned K fl acosf pi X a b n kd.
Proof. exact @poi_to_ind1_pinned_same. Qed.
(* ... but for d = 1 it accepted every list n of length <> 1 (numpy broadcasting): the rejection clause failed *)
Theorem C18_poi_to_ind_pinned_accepts_n_d1 : forall T (K : ops T) fl acosf pi x a b nv kd Xsc, kd = KUni \/ kd = KCheb ->
  poi_scale1 K [x] a b kd = Ok Xsc -> length nv <> 1%nat ->
  exists r, poi_to_ind1_pinned K fl acosf pi [x] a b (GVec nv) kd = Ok r /\ length r = length nv.
Proof. exact @poi_to_ind1_pinned_accepts_n_d1. Qed.
(* the witness of the finding: poi_to_ind([0.1], 0., 1., [4, 5, 6]) returned three indices on the pinned code and is
   a ValueError now *)
Theorem C18_poi_to_ind_pinned_refuted :
  exists (X : list Qc) (a b : gopt Qc) (nv r : list Z),
    length nv <> length X /\
    poi_to_ind1_pinned OQc Qc_floor (fun x => x) (Q2Qc 0) X a b (GVec nv) KUni = Ok r /\
    poi_to_ind1 OQc Qc_floor (fun x => x) (Q2Qc 0) X a b (GVec nv) KUni = Err ValueError.
Proof. exact poi_to_ind1_pinned_refuted. Qed.

(* ---------------------------------------------------------------- grid_flat *)
(* inbox ns idx: idx has the length of ns and idx_k < ns_k;  undigits_F ns idx = i0 + n0*(i1 + n1*(i2 + ...)) *)
Theorem C18_grid_flat_enum : forall ns,
  length (grid_flat ns) = prodn ns /\
  NoDup (grid_flat ns) /\
  (forall idx, In idx (grid_flat ns) <-> inbox ns idx) /\
  (forall t, (t < prodn ns)%nat ->
     nth t (grid_flat ns) [] = digits_F ns t /\ undigits_F ns (nth t (grid_flat ns) []) = t) /\
  (forall idx, inbox ns idx -> nth (undigits_F ns idx) (grid_flat ns) [] = idx).
Proof. exact grid_flat_enum. Qed.
Theorem C18_grid_flat_first_fastest : forall n ns t, (S t < prodn (n :: ns))%nat ->
  hd 0%nat (nth (S t) (grid_flat (n :: ns)) []) = (S (hd 0%nat (nth t (grid_flat (n :: ns)) [])) mod n)%nat.
Proof. exact grid_flat_first_fastest. Qed.
Theorem C18_grid_flat_scalar : forall n,
  length (grid_flat_scalar n) = n /\ NoDup (grid_flat_scalar n) /\
  (forall i, In i (grid_flat_scalar n) <-> (i < n)%nat) /\
  (forall t, (t < n)%nat -> nth t (grid_flat_scalar n) 0%nat = t).
Proof. exact grid_flat_scalar_enum. Qed.

(* ---------------------------------------------------------------- cdf_getter *)
(* for every total preorder comparison: cdf z = (number of sample points <= z) / m *)
Theorem C18_cdf_step_generic : forall T (K : ops T),
  (forall x y, oleb K x y = true \/ oleb K y x = true) ->
  (forall x y z, oleb K x y = true -> oleb K y z = true -> oleb K x z = true) ->
  forall xs z, xs <> [] ->
  cdf K xs z = Ok (match count_le K xs z with
                  | O => o0 K
                  | S k => odiv K (oofZ K (Z.of_nat (S k))) (oofZ K (Z.of_nat (length xs)))
                  end).
Proof. exact @cdf_step_gen. Qed.
Theorem C18_cdf_step : forall xs z, xs <> [] ->
  cdf OR xs z = Ok (INR (count_le OR xs z) / INR (length xs)).
Proof. exact cdf_step. Qed.
Theorem C18_cdf_right_continuous : forall xs z,
  exists eps, 0 < eps /\ forall z', z <= z' < z + eps -> cdf OR xs z' = cdf OR xs z.
Proof. exact cdf_right_continuous. Qed.
Theorem C18_cdf_monotone : forall xs z z' v v', z <= z' -> cdf OR xs z = Ok v -> cdf OR xs z' = Ok v' -> v <= v'.
Proof. exact cdf_mono. Qed.
Theorem C18_cdf_limits : forall xs z, xs <> [] ->
  (Forall (fun x => z < x) xs -> cdf OR xs z = Ok 0) /\ (Forall (fun x => x <= z) xs -> cdf OR xs z = Ok 1).
Proof. exact (fun xs z H => conj (cdf_below xs z H) (cdf_above xs z H)). Qed.
Theorem C18_cdf_jump : forall xs x z v vx, In x xs -> z < x -> cdf OR xs z = Ok v -> cdf OR xs x = Ok vx ->
  v + 1 / INR (length xs) <= vx.
Proof. exact cdf_jump. Qed.

(* ---------------------------------------------------------------- non-vacuity *)
(* the hypotheses are satisfiable on concrete non-trivial inputs; computed with the exact rational instance *)
Definition q (a : Z) (b : positive) : Qc := Q2Qc (a # b).
Definition idQ (x : Qc) : Qc := x.
Example C18_ex_roundtrip_uni :
  let a := GVec [q (-3) 2; q 5 1] in let b := GVec [q 1 4; q 21 4] in let n := GVec [7; 4]%Z in
  exists X, ind_to_poi1 OQc idQ (q 0 1) [5; 2]%Z a b n KUni = Ok X /\
            poi_to_ind1 OQc Qc_floor idQ (q 0 1) X a b n KUni = Ok [5; 2]%Z.
Proof. eexists. split; vm_compute; reflexivity. Qed.
Example C18_ex_ties_to_even :
  map (rint OQc Qc_floor) [q 1 2; q 3 2; q 5 2; q (-1) 2; q (-3) 2; q 7 4; q 9 4] = [0; 2; 2; 0; -2; 2; 2]%Z /\
  poi_to_ind1 OQc Qc_floor idQ (q 0 1) [q 1 8; q 3 8; q 9 8; q (-1) 1] (GSc (q 0 1)) (GSc (q 1 1)) (GSc 5%Z) KUni
    = Ok [0; 2; 4; 0]%Z.
Proof. split; vm_compute; reflexivity. Qed.
Example C18_ex_obc : obc 3 (GSc 5%Z) (GVec [5; 5; 5]%Z) /\ obc 3 (GVec [1; 2; 3]%Z) (GVec [1; 2; 3]%Z).
Proof. split; [right; exists 5%Z; split; reflexivity|left; reflexivity]. Qed.
Example C18_ex_rect : rect 2 [[1; 2]; [3; 4]; [0; 0]]%Z.
Proof. split; [discriminate|repeat constructor]. Qed.
Example C18_ex_opts :
  grid_prep_opts (GSc 1%Z) (GVec [2; 3]%Z) (GSc 3%Z) None None = Ok (P1 [1; 1]%Z, P1 [2; 3]%Z, P1 [3; 3]%Z) /\
  grid_prep_opts (GSc 1%Z) (GVec [2; 3]%Z) (GSc 3%Z) None (Some 2%nat)
    = Ok (P2 [[1; 1]; [1; 1]]%Z, P2 [[2; 3]; [2; 3]]%Z, P2 [[3; 3]; [3; 3]]%Z) /\
  grid_prep_opts (GVec [1; 2]%Z) (GVec [2; 3; 4]%Z) GNone None None = Err ValueError /\
  grid_prep_opts (GSc 1%Z) (GSc 2%Z) (GSc 3%Z) None None = Err ValueError /\
  grid_prep_opts (@GNone Z) GNone GNone None None = Ok (PNone, PNone, PNone).
Proof. repeat split. Qed.
(* malformed n on the model of the code: rejected for d = 1 and for d = 3; the pinned variant on the same inputs *)
Example C18_ex_n_validated :
  poi_to_ind1 OQc Qc_floor idQ (q 0 1) [q 1 10] (GSc (q 0 1)) (GSc (q 1 1)) (GVec [4; 5; 6]%Z) KUni = Err ValueError /\
  poi_to_ind1 OQc Qc_floor idQ (q 0 1) [q 1 10; q 1 5; q 3 10] (GSc (q 0 1)) (GSc (q 1 1)) (GVec [5]%Z) KUni
    = Err ValueError /\
  poi_to_ind1 OQc Qc_floor idQ (q 0 1) [q 1 10; q 1 5; q 3 10] (GSc (q 0 1)) (GSc (q 1 1)) (GVec [5; 5; 5]%Z) KUni
    = Ok [0; 1; 1]%Z /\
  poi_to_ind1_pinned OQc Qc_floor idQ (q 0 1) [q 1 10] (GSc (q 0 1)) (GSc (q 1 1)) (GVec [4; 5; 6]%Z) KUni = Ok [0; 0; 0]%Z /\
  poi_to_ind1_pinned OQc Qc_floor idQ (q 0 1) [q 1 10; q 1 5; q 3 10] (GSc (q 0 1)) (GSc (q 1 1)) (GVec [5]%Z) KUni
    = Err IndexError.
Proof. repeat split; vm_compute; reflexivity. Qed.
Example C18_ex_grid_flat :
  grid_flat [2; 3]%nat = [[0; 0]; [1; 0]; [0; 1]; [1; 1]; [0; 2]; [1; 2]]%nat /\ inbox [2; 3]%nat [1; 2]%nat /\
  undigits_F [2; 3]%nat [1; 2]%nat = 5%nat.
Proof. split; [reflexivity|]. split; [repeat constructor|reflexivity]. Qed.
Example C18_ex_cdf :
  map (fun z => rmap (fun v : Qc => this v) (cdf OQc [q 3 1; q 1 1; q 2 1; q 2 1] z))
      [q 0 1; q 1 1; q 2 1; q 5 2; q 3 1; q 4 1]
  = map Ok [0; 1 # 4; 3 # 4; 3 # 4; 1; 1]%Q /\
  cdf OQc [] (q 0 1) = Err OtherError.
Proof. split; vm_compute; reflexivity. Qed.
