(* C13 — TT-ANOVA.  Only statements, each closed by [exact]. *)
From Coq Require Import List Arith Lia PeanoNat ZArith.
From TV Require Import Num.Ops Model.Anova Proofs.AnovaP.
Import ListNotations.

Example C13_pairs_example : pairs 3 = [(0, 1); (0, 2); (1, 2)].
Proof. exact pairs_example. Qed.
