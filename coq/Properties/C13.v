(* C13 — TT-ANOVA (anova.py, anova_func.py, act_many.add_many).  Only statements, each closed by [exact].
   Carrier: any [ops T] whose operations form a commutative ring ([rng K]); the statistics need in addition the two
   facts about a field of characteristic 0 that are spelled out as hypotheses (x/b*b = x for b <> 0; n+1 <> 0).
   Multi-indices [idx] are positions in the sorted observed domain ([domain I], np.unique per column). *)
From Coq Require Import List Arith Lia PeanoNat ZArith QArith Qcanon Sorted Permutation.
From TV Require Import Num.Ops Lin.Tab Lin.BigSum Lin.Mat TT.Chain Model.ActOne Model.Anova Model.AnovaFunc
  Proofs.AnovaP Proofs.Anova2P Proofs.AnovaFuncP Proofs.AnovaTopP Proofs.AnovaAddP Proofs.AnovaNoiseP Proofs.AnovaExP.
Import ListNotations.
Local Open Scope nat_scope.

(* ---------- pair_num_to_num ---------- *)
(* the pairs i<j<d in the loop order of build_2 / cores_2 are numbered bijectively onto 0 .. d(d-1)/2-1, all d *)
Theorem C13_pair_num_bijection : forall d,
  2 * length (pairs d) = d * (d - 1) /\
  (forall i j, i < j < d -> pair_num_nat d i j < length (pairs d) /\ nth (pair_num_nat d i j) (pairs d) (0, 0) = (i, j)) /\
  (forall n, n < length (pairs d) -> exists i j, i < j < d /\ pair_num_nat d i j = n /\ nth n (pairs d) (0, 0) = (i, j)).
Proof. exact pair_num_bijection. Qed.
Theorem C13_pair_num_sym : forall d x1 x2, pair_num d x1 x2 = pair_num d x2 x1.
Proof. exact pair_num_sym. Qed.
Theorem C13_pair_num_diag : forall d x, pair_num d x x = Err AssertionError.
Proof. exact pair_num_diag. Qed.

(* ---------- the statistics: ANOVA.build ---------- *)
(* domain = sorted distinct observed values per mode; f0 = sample mean; f1[k][x] + f0 = mean of the samples whose
   k-th index is x (that set is never empty) *)
Theorem C13_anova_stats : forall {T} (K : ops T), rng K ->
  (forall a b, b <> o0 K -> omul K (odiv K a b) b = a) -> (forall n, natT K (S n) <> o0 K) ->
  forall I y order (M : anova T), ANOVA K I y order = Ok M -> y <> [] -> length I = length y ->
  a_dom M = domain I /\ a_d M = dimI I /\
  (forall k, k < dimI I -> Sorted Z.lt (nth k (a_dom M) []) /\
                           forall x, In x (nth k (a_dom M) []) <-> In x (column k I)) /\
  omul K (a_f0 M) (natT K (length y)) = lsum K y /\
  map (@length T) (a_f1 M) = shapes (a_dom M) /\
  forall k pos, k < dimI I -> pos < length (nth k (a_dom M) []) ->
    let s := sel (at_ k (nth pos (nth k (a_dom M) []) 0%Z)) I y in
    s <> [] /\ omul K (oadd K (nth pos (nth k (a_f1 M) []) (o0 K)) (a_f0 M)) (natT K (length s)) = lsum K s.
Proof. exact @anova_stats. Qed.

(* order 2: the matrix of the pair (k1,k2), stored at number pair_num_to_num(k1,k2), holds 0 where no sample has both
   index values and otherwise the conditional mean minus f0 minus the two univariate terms *)
Theorem C13_anova_stats2 : forall {T} (K : ops T), rng K ->
  (forall a b, b <> o0 K -> omul K (odiv K a b) b = a) -> (forall n, natT K (S n) <> o0 K) ->
  forall I y (M : anova T) k1 k2 a b, ANOVA K I y 2 = Ok M ->
  k1 < k2 < dimI I -> a < length (nth k1 (a_dom M) []) -> b < length (nth k2 (a_dom M) []) ->
  let A := nth (pair_num_nat (a_d M) k1 k2) (a_f2 M) (mk_mat O O []) in
  let s := sel (fun row => at_ k1 (nth a (nth k1 (a_dom M) []) 0%Z) row && at_ k2 (nth b (nth k2 (a_dom M) []) 0%Z) row) I y in
  length (a_f2 M) = length (pairs (dimI I)) /\
  mr A = length (nth k1 (a_dom M) []) /\ mc A = length (nth k2 (a_dom M) []) /\
  (s = [] -> mget K A a b = o0 K) /\
  (s <> [] -> omul K (oadd K (oadd K (oadd K (mget K A a b) (a_f0 M)) (nth a (nth k1 (a_f1 M) []) (o0 K)))
                             (nth b (nth k2 (a_f1 M) []) (o0 K))) (natT K (length s)) = lsum K s).
Proof. exact @anova_stats2. Qed.

(* ANOVA.calc(x) on index values = dictionary lookups (KeyError outside the domain) followed by calc_pos *)
Theorem C13_calc_spec : forall {T} (K : ops T) (M : anova T) x v, calc K M x = Ok v ->
  exists pos, length pos = length x /\
    (forall k, k < length x -> nth k pos O < length (nth k (a_dom M) []) /\
                               nth (nth k pos O) (nth k (a_dom M) []) 0%Z = nth k x 0%Z) /\
    v = calc_pos K M pos.
Proof. exact @calc_spec. Qed.

(* ---------- order 1: teneva.anova(I, y, r, order=1, noise=0) ---------- *)
(* every d >= 2, every r >= 2, every sample set: the result has the observed mode sizes, every TT-rank equal to r,
   and evaluates at every multi-index of the observed domain to f0 + sum_k f1[k][x_k] (= ANOVA.calc) *)
Theorem C13_anova_order1 : forall {T} (K : ops T), rng K ->
  forall I y r g skel trunc (M : anova T), ANOVA K I y 1 = Ok M -> 2 <= r -> 2 <= dimI I ->
  let Y := cores_1 K M r (o0 K) g in
  anova_tt K I y r 1 (o0 K) g skel trunc = Ok Y /\
  shape Y = shapes (domain I) /\
  ranks Y = 1 :: repeat r (dimI I - 1) ++ [1] /\
  forall idx, length idx = dimI I -> (forall k, k < dimI I -> nth k idx O < nth k (shapes (domain I)) O) ->
    wf 1 Y idx /\
    get K Y idx = oadd K (a_f0 M) (bsum K (dimI I) (fun k => nth (nth k idx O) (nth k (a_f1 M) []) (o0 K))) /\
    get K Y idx = calc_pos K M idx.
Proof. exact @anova_order1. Qed.

(* "Consequently an additive function sampled on a full grid is reproduced exactly": the sample rows are all
   multi-indices of the observed domain, each once, in any order ([grid] = row-major product); the values are
   c + sum_k gs k (x_k) for arbitrary c and gs.  Field of characteristic 0 with natT the canonical embedding of nat.
   All d >= 2, all mode sizes, all r >= 2 *)
Theorem C13_anova_additive_exact : forall {T} (K : ops T), rng K ->
  (forall a b, b <> o0 K -> omul K (odiv K a b) b = a) -> (forall n, natT K (S n) <> o0 K) ->
  natT K O = o0 K -> (forall n, natT K (S n) = oadd K (natT K n) (o1 K)) ->
  forall I c gs r g (M : anova T),
  let d := dimI I in let y := map (addf K c gs d) I in
  Permutation I (grid (domain I)) -> 2 <= d -> 2 <= r -> ANOVA K I y 1 = Ok M ->
  forall pos, length pos = d -> (forall k, k < d -> nth k pos O < length (nth k (domain I) [])) ->
    get K (cores_1 K M r (o0 K) g) pos = addf K c gs d (tab d (fun k => nth (nth k pos O) (nth k (domain I) []) 0%Z)).
Proof. exact @anova_additive_exact. Qed.

(* with noise: mode sizes and TT-ranks are the same for every noise level and every generator *)
Theorem C13_cores_1_shape : forall {T} (K : ops T) (M : anova T) r noise g, 2 <= a_d M -> length (a_f1 M) = a_d M ->
  shape (cores_1 K M r noise g) = map (@length T) (a_f1 M).
Proof. exact @cores_1_shape. Qed.
Theorem C13_cores_1_ranks : forall {T} (K : ops T) (M : anova T) r noise g, 2 <= a_d M ->
  ranks (cores_1 K M r noise g) = 1 :: repeat r (a_d M - 1) ++ [1].
Proof. exact @cores_1_ranks. Qed.
(* partial ("up to the requested noise"): core by core the noisy entries are the noise-free ones on the pattern and
   noise-free + noise * (normal draw) elsewhere; NO bound on the induced change of the tensor entries is proved *)
Theorem C13_cores_1_noise_partial : forall {T} (K : ops T), rng K ->
  forall (M : anova T) r noise g k a i b, 2 <= a_d M -> k < a_d M ->
  let G := nth k (cores_1 K M r noise g) (core_ones K O) in
  let G0 := nth k (cores_1 K M r (o0 K) g) (core_ones K O) in
  cr1 G = cr1 G0 /\ cn G = cn G0 /\ cr2 G = cr2 G0 /\
  (a < cr1 G -> i < cn G -> b < cr2 G ->
   cget K G a i b = oadd K (cget K G0 a i b)
                      (if in_pattern (a_d M) k a b then o0 K else omul K noise (g (gcall (a_d M) k) a i b))).
Proof. exact @cores_1_noise_entries. Qed.
(* partial: the exact first-order form of the perturbation of the tensor.  The entry of the noisy tensor is the
   noise-free value f0 + sum_k f1[k][x_k] plus noise times the sum over k of the chain made of the noisy cores before
   k, the raw draws (zero on the pattern) at k and the noise-free cores after k.  Missing: a numeric bound of that sum *)
Theorem C13_cores_1_noise_telescope_partial : forall {T} (K : ops T), rng K ->
  forall (M : anova T) r noise g idx, 2 <= r -> 2 <= a_d M -> length idx = a_d M ->
  (forall k, k < a_d M -> nth k idx O < length (nth k (a_f1 M) [])) ->
  get K (cores_1 K M r noise g) idx
  = oadd K (oadd K (a_f0 M) (bsum K (a_d M) (fun k => nth (nth k idx O) (nth k (a_f1 M) []) (o0 K))))
      (omul K noise (bsum K (a_d M) (fun k => get K (mix_chain K M r noise g k) idx))).
Proof. exact @cores_1_noise_telescope. Qed.

(* rejected arguments *)
Theorem C13_anova_bad_order : forall {T} (K : ops T) I y r order noise g skel trunc, order <> 1 -> order <> 2 ->
  anova_tt K I y r order noise g skel trunc = Err ValueError.
Proof. exact @anova_bad_order. Qed.
Theorem C13_anova_bad_rank : forall {T} (K : ops T) I y r order noise g skel trunc, (order = 1 \/ order = 2) -> r < 2 ->
  anova_tt K I y r order noise g skel trunc = Err IndexError.
Proof. exact @anova_bad_rank. Qed.

(* ---------- order 2 ---------- *)
(* _second_order_2_tt(A, i, j, shapes) denotes A[x_i, x_j] at every multi-index, for every skeleton routine that
   returns an exact factorisation U V = A (identity cores between the two positions, ones outside) *)
Theorem C13_second_order_get : forall {T} (K : ops T), rng K ->
  forall (skel : mat T -> mat T * mat T) A i j shp idx, i < j < length shp -> length idx = length shp ->
  (forall k, k < length shp -> nth k idx O < nth k shp O) -> nth i shp O = mr A -> nth j shp O = mc A ->
  (let (U, V) := skel A in mc U = mr V /\ meq K (mmul K U V) A) ->
  get K (second_order_2_tt K skel A i j shp) idx = mget K A (nth i idx O) (nth j idx O).
Proof. exact @second_order_get. Qed.

(* act_two.add on two TT-tensors of equal shape, d >= 2 *)
Theorem C13_add_get : forall {T} (K : ops T), rng K -> forall Y1 Y2 idx, 2 <= length Y1 -> wf 1 Y1 idx -> wf 1 Y2 idx ->
  shape Y1 = shape Y2 ->
  get K (add K Y1 Y2) idx = oadd K (get K Y1 idx) (get K Y2 idx) /\ wf 1 (add K Y1 Y2) idx /\
  shape (add K Y1 Y2) = shape Y1.
Proof. exact @add_get. Qed.

(* act_many.add_many: the entry of the result is the sum of the entries plus the changes err k made by the truncate
   calls (at most one per 15 summands plus the final one) *)
Theorem C13_add_many_get : forall {T} (K : ops T), rng K ->
  forall (trunc : nat -> list (core T) -> list (core T)) idx shp (err : nat -> T),
  (forall k Y, okY idx shp Y -> okY idx shp (trunc k Y) /\ get K (trunc k Y) idx = oadd K (get K Y idx) (err k)) ->
  2 <= length shp -> forall Y0 rest, okY idx shp Y0 -> Forall (okY idx shp) rest ->
  exists ncalls, 1 <= ncalls <= S (length rest) /\ okY idx shp (add_many K trunc (Y0 :: rest)) /\
    get K (add_many K trunc (Y0 :: rest)) idx
    = oadd K (oadd K (get K Y0 idx) (lsum K (map (fun Yc => get K Yc idx) rest))) (bsum K ncalls err).
Proof. exact @add_many_get. Qed.

(* partial: ANOVA(order=2).cores(r, noise=0) = f0 + sum f1 + sum of the pair terms (= calc_pos) + the sum of the
   entry changes made by the truncate calls of add_many.  Missing for the property's clause: the size of those
   changes and the rank cap of the result are the contract of truncate (property C02), they are not derived here *)
Theorem C13_anova_order2_partial : forall {T} (K : ops T), rng K ->
  forall skel : nat -> mat T -> mat T * mat T,
  (forall num A, let (U, V) := skel num A in mc U = mr V /\ meq K (mmul K U V) A) ->
  forall I y (M : anova T) r g trunc idx (err : nat -> T),
  ANOVA K I y 2 = Ok M -> 2 <= r -> 2 <= dimI I -> length idx = dimI I ->
  (forall k, k < dimI I -> nth k idx O < nth k (shapes (domain I)) O) ->
  (forall k Y, okY idx (shapes (domain I)) Y ->
               okY idx (shapes (domain I)) (trunc k Y) /\ get K (trunc k Y) idx = oadd K (get K Y idx) (err k)) ->
  exists Y ncalls, cores K M r (o0 K) false g skel trunc = Ok Y /\
     1 <= ncalls <= S (length (pairs (dimI I))) /\ wf 1 Y idx /\ shape Y = shapes (domain I) /\
     get K Y idx = oadd K (calc_pos K M idx) (bsum K ncalls err).
Proof. exact @anova_order2_get_partial. Qed.

(* partial, the same result seen from its last truncate call: it is truncate(e, r) applied to a TT-tensor Ypre of the
   observed shape whose entry is calc_pos plus the changes of the intermediate truncate calls; with fewer than 15 pairs
   (d <= 5) there is no intermediate call, so Ypre denotes constant + univariate + pair terms exactly.  Missing as
   above: what truncate(e, r) does to Ypre (error <= e ||Ypre||, ranks <= r) is property C02 *)
Theorem C13_anova_order2_pre_partial : forall {T} (K : ops T), rng K ->
  forall skel : nat -> mat T -> mat T * mat T,
  (forall num A, let (U, V) := skel num A in mc U = mr V /\ meq K (mmul K U V) A) ->
  forall I y (M : anova T) r g trunc idx (err : nat -> T),
  ANOVA K I y 2 = Ok M -> 2 <= r -> 2 <= dimI I -> length idx = dimI I ->
  (forall k, k < dimI I -> nth k idx O < nth k (shapes (domain I)) O) ->
  (forall k Y, okY idx (shapes (domain I)) Y ->
               okY idx (shapes (domain I)) (trunc k Y) /\ get K (trunc k Y) idx = oadd K (get K Y idx) (err k)) ->
  exists Ypre ncalls, cores K M r (o0 K) false g skel trunc = Ok (trunc ncalls Ypre) /\
     ncalls <= length (pairs (dimI I)) /\ (length (pairs (dimI I)) < 15 -> ncalls = O) /\
     wf 1 Ypre idx /\ shape Ypre = shapes (domain I) /\
     get K Ypre idx = oadd K (calc_pos K M idx) (bsum K ncalls err).
Proof. exact @anova_order2_pre. Qed.

(* ---------- anova_func ---------- *)
(* the coefficient tensor before rounding: c0 at index 0, cf_i[p] at (p+1) e_i, zero elsewhere (as a sum of indicator
   terms), for every (sign, root) routine with s * w^d = v *)
Theorem C13_cores_pre_get : forall {T} (K : ops T), rng K -> forall (split : T -> T * T) d,
  (forall v, let (s, w) := split v in omul K s (tpow K w d) = v) -> 2 <= d ->
  forall n c0 cfs jdx, length jdx = d -> (forall k, k < d -> nth k jdx O < n) ->
  get K (cores_pre K split d n c0 cfs) jdx
  = oadd K (if list_eq_dec Nat.eq_dec jdx (repeat O d) then c0 else o0 K)
      (lsum K (map (fun t : nat * nat * T => let '(i, p, v) := t in
                      if list_eq_dec Nat.eq_dec jdx (unit_idx d i p) then v else o0 K) (terms K cfs)))
  /\ okY jdx (repeat n d) (cores_pre K split d n c0 cfs).
Proof. exact @cores_pre_get. Qed.

(* its interpolant in any basis with B_0 = 1 is c0 + sum_i sum_p cf_i[p] B_{p+1}(x_i) *)
Theorem C13_anova_func_interp : forall {T} (K : ops T), rng K -> forall (split : T -> T * T) d,
  (forall v, let (s, w) := split v in omul K s (tpow K w d) = v) -> 2 <= d ->
  forall (B : nat -> T -> T) n c0 cfs x, (forall t, B O t = o1 K) -> length cfs = d ->
  (forall i, i < d -> length (nth i cfs []) < n) ->
  msum K (repeat n d) (fun jdx => omul K (get K (cores_pre K split d n c0 cfs) jdx)
                                         (prodn K d (fun k => B (nth k jdx O) (nth k x (o0 K)))))
  = oadd K c0 (bsum K d (fun i => bsum K (length (nth i cfs []))
                                    (fun p => omul K (nth p (nth i cfs []) (o0 K)) (B (S p) (nth i x (o0 K)))))).
Proof. exact @anova_func_interp. Qed.

(* the systems handed to the solver are the ridge normal equations in the Chebyshev basis (recurrence chebT) for the
   centred values: a solver that solves N x = rhs returns the ridge fit *)
Theorem C13_anova_func_normal_eqs : forall {T} (K : ops T),
  forall X y n a b lamb (solve : nat -> mat T -> list T -> list T) i, i < dimX X -> length X = length y ->
  let sys := nth i (systems K X y n a b lamb) (mk_mat O O [], []) in
  let cf := solve i (fst sys) (snd sys) in
  let xd := xcol K i (scaled K X a b) in
  let ybar := mean K y in
  (forall p, p < n -> bsum K n (fun q => omul K (mget K (fst sys) p q) (nth q cf (o0 K))) = nth p (snd sys) (o0 K)) ->
  forall p, p < n ->
    bsum K n (fun q => omul K (oadd K (bsum K (length xd) (fun s => omul K (chebT K p (nth s xd (o0 K)))
                                                                        (chebT K q (nth s xd (o0 K)))))
                                     (omul K lamb (if p =? q then o1 K else o0 K)))
                              (nth q cf (o0 K)))
    = bsum K (length xd) (fun s => omul K (chebT K p (nth s xd (o0 K))) (osub K (nth s y (o0 K)) ybar)).
Proof. exact @anova_func_normal_eqs. Qed.

(* anova_func(X, y, n, a, b, lamb, e=None): the Chebyshev interpolant of the returned tensor equals the fitted
   constant plus the sum of the fitted one-dimensional expansions, all d >= 2, n >= 1 *)
Theorem C13_anova_func_denote : forall {T} (K : ops T), rng K -> forall (split : T -> T * T) X y n a b lamb solve x,
  2 <= dimX X -> 1 <= n -> (forall i N rhs, length (solve i N rhs) = n) ->
  (forall v, let (s, w) := split v in omul K s (tpow K w (dimX X)) = v) ->
  let d := dimX X in
  let c0 := fst (coeffs K X y n a b lamb solve) in let cfs := snd (coeffs K X y n a b lamb solve) in
  msum K (repeat n d) (fun jdx => omul K (get K (anova_func K X y n a b lamb solve split None) jdx)
                                         (prodn K d (fun k => chebT K (nth k jdx O) (nth k x (o0 K)))))
  = oadd K c0 (bsum K d (fun i => bsum K (n - 1) (fun p => omul K (nth p (nth i cfs []) (o0 K))
                                                                 (chebT K (S p) (nth i x (o0 K)))))).
Proof. exact @anova_func_denote. Qed.

(* the fitted constant is the sample mean plus the constant terms of the d one-dimensional fits, the expansions are
   the remaining entries of the solver's answers *)
Theorem C13_coeffs_eq : forall {T} (K : ops T) X y n a b lamb solve,
  let sys := systems K X y n a b lamb in
  let cur := tab (length sys) (fun i => solve i (fst (nth i sys (mk_mat O O [], []))) (snd (nth i sys (mk_mat O O [], [])))) in
  coeffs K X y n a b lamb solve = (fold_left (fun c cf => oadd K c (nth O cf (o0 K))) cur (mean K y), map (@tl T) cur).
Proof. exact @coeffs_eq. Qed.
(* with rounding (default e) the result is the truncate routine applied to the tensor of C13_anova_func_denote; what
   truncate does to it is property C02 (validated numerically here: 1e-7 relative) *)
Theorem C13_anova_func_rounded : forall {T} (K : ops T) (split : T -> T * T) X y n a b lamb solve
  (tr : list (core T) -> list (core T)),
  anova_func K X y n a b lamb solve split (Some tr) = tr (anova_func K X y n a b lamb solve split None).
Proof. exact @anova_func_rounded. Qed.

(* ---------- non-vacuity ---------- *)
(* the carrier executed by the correspondence satisfies the field hypotheses *)
Example C13_Qc_laws : rng OQc /\ (forall a b : Qc, b <> o0 OQc -> omul OQc (odiv OQc a b) b = a) /\
  (forall n, natT OQc (S n) <> o0 OQc).
Proof. exact (conj OQc_rng (conj Qc_div_law Qc_nat_nz)). Qed.
Example C13_Qc_nat_laws : natT OQc O = o0 OQc /\ (forall n, natT OQc (S n) = oadd OQc (natT OQc n) (o1 OQc)).
Proof. exact (conj Qc_nat_0 Qc_nat_S). Qed.
(* a shuffled full 2 x 3 grid is a permutation of the grid of its observed domain *)
Example C13_full_grid_example : Permutation exG (grid (domain exG)) /\ dimI exG = 2.
Proof. exact exG_full. Qed.
(* the oracle contracts are met by concrete routines *)
Example C13_skel_contract : forall {T} (K : ops T), rng K -> forall num A,
  let (U, V) := skel_id K num A in mc U = mr V /\ meq K (mmul K U V) A.
Proof. exact @skel_id_contract. Qed.
Example C13_trunc_contract : forall {T} (K : ops T), rng K -> forall idx shp (k : nat) (Y : list (core T)),
  okY idx shp Y -> okY idx shp Y /\ get K Y idx = oadd K (get K Y idx) (o0 K).
Proof. exact @trunc_id_contract. Qed.
Example C13_split_contract : forall {T} (K : ops T), rng K -> forall d (v : T),
  let (s, w) := (v, o1 K) in omul K s (tpow K w d) = v.
Proof. exact @split_id_contract. Qed.
(* a concrete data set (2 x 3 grid, one duplicate): statistics, calc, KeyError, shape, ranks, one entry *)
Example C13_stats_example : exists M, ANOVA OQc exI exy 1 = Ok M /\
  a_dom M = [[0; 4]; [5; 7; 9]]%Z /\ this (a_f0 M) = (29 # 7)%Q /\
  map (map (fun q : Qc => this q)) (a_f1 M) = [[((-15) # 7)%Q; (45 # 28)%Q]; [((-23) # 14)%Q; ((-9) # 14)%Q; (32 # 21)%Q]] /\
  rmap (fun q : Qc => this q) (calc OQc M [4; 7]%Z) = Ok ((143 # 28)%Q) /\
  rmap (fun q : Qc => this q) (calc OQc M [4; 6]%Z) = Err OtherError /\
  shape (cores_1 OQc M 3 (o0 OQc) (fun _ _ _ _ => o0 OQc)) = [2; 3] /\
  ranks (cores_1 OQc M 3 (o0 OQc) (fun _ _ _ _ => o0 OQc)) = [1; 3; 1] /\
  this (get OQc (cores_1 OQc M 3 (o0 OQc) (fun _ _ _ _ => o0 OQc)) [1; 1]) = (143 # 28)%Q.
Proof. exact ex_stats. Qed.
Example C13_pairs_example : pairs 4 = [(0, 1); (0, 2); (0, 3); (1, 2); (1, 3); (2, 3)] /\ pair_num_nat 4 1 3 = 4.
Proof. split; reflexivity. Qed.

(* ====================================================================================================================
   At the reals (carrier OR of Proofs/StabRP.v): numeric bounds.
   ==================================================================================================================== *)
From Coq Require Import Reals.
From TV Require Import Model.Transformation Model.Svd Model.ActMany Proofs.StabRP Proofs.TransformationP Proofs.OrthP Proofs.FrobP
  Proofs.TruncP4 Proofs.TruncP5 Proofs.AnovaNoiseRP Proofs.AnovaErrP.

(* "up to the requested noise" (order 1, any noise level, any generator whose draws are bounded by gmax): with F a
   bound of |f0| and of every |f1[k][x]|, the entry of the tensor differs from f0 + sum_k f1[k][x_k] by at most
        |noise| * d * (r (1 + 2F + |noise| gmax))^(d-1) * r gmax
   - a polynomial in |noise| without constant term; first-order coefficient d r gmax (r (1+2F))^(d-1).  All d >= 2,
   r >= 2, mode sizes.  (Deterministic bound: the property's normal draws are unbounded, gmax is whatever the
   generator returned.) *)
Theorem C13_cores_1_noise_bound : forall (M : anova R) (r : nat) (g : nat -> nat -> nat -> nat -> R) (F gmax : R),
  (0 <= F)%R -> (0 <= gmax)%R -> (Rabs (a_f0 M) <= F)%R ->
  (forall k p, (Rabs (nth p (nth k (a_f1 M) []) 0%R) <= F)%R) ->
  (forall c a i b, (Rabs (g c a i b) <= gmax)%R) ->
  2 <= r -> 2 <= a_d M ->
  forall (noise : R) (idx : list nat), length idx = a_d M ->
  (forall k, k < a_d M -> nth k idx O < length (nth k (a_f1 M) [])) ->
  (Rabs (get OR (cores_1 OR M r noise g) idx
         - (a_f0 M + bsum OR (a_d M) (fun k => nth (nth k idx O) (nth k (a_f1 M) []) 0%R)))
   <= Rabs noise * (INR (a_d M) * ((INR r * (1 + 2 * F + Rabs noise * gmax)) ^ (a_d M - 1) * (INR r * gmax))))%R.
Proof. exact cores_1_noise_bound. Qed.
(* non-vacuity: a model with d = 3, F = 2, draws equal to 1 (gmax = 1) and a multi-index meeting every hypothesis *)
Example C13_noise_bound_example : 2 <= a_d exMR /\ (Rabs (a_f0 exMR) <= 2)%R /\
  (forall k p, (Rabs (nth p (nth k (a_f1 exMR) []) 0%R) <= 2)%R) /\
  (forall c a i b : nat, (Rabs ((fun _ _ _ _ => 1%R) c a i b) <= 1)%R) /\
  length [0; 1; 1] = a_d exMR /\
  (forall k, k < a_d exMR -> nth k [0; 1; 1] O < length (nth k (a_f1 exMR) [])).
Proof. exact exMR_hyps. Qed.

(* order 2 composed with property C02 (Proofs/TruncP5.v: the rounding inside add_many is the REAL model of
   teneva.truncate, eigen-decomposition mode; only the LAPACK contracts qr / rq / eigh / argsort are assumed).
   For fewer than 15 pairs (d <= 5) add_many rounds exactly once, with cap(0) = int(r).  The call succeeds, the result
   has the observed mode sizes and a valid rank profile with every TT-rank <= max(1, int(r)), and when no rank reaches
   the cap ("the requested rank is large enough") its Frobenius distance from the tensor
   constant + univariate + pair terms (calc_pos) is at most e times the Frobenius norm of that tensor (e = 1e-10 in
   the code).  What remains assumed about the pair terms: the skeleton routine is EXACT (U V = A, >= 1 column);
   teneva.matrix_skeleton itself truncates at 1e-10, that error is not modelled.  More than 14 pairs (d >= 6):
   C13_anova_order2_pre_partial. *)
Theorem C13_anova_order2_error :
  forall (svdo : nat -> nat -> mat R -> mat R * list R * mat R) (eigh : nat -> nat -> mat R -> list R * mat R)
         (argsort : nat -> nat -> list R -> list nat) (qr rq : nat -> nat -> mat R -> mat R * mat R)
         (ilog2 : nat -> nat -> R -> Z) (pow2frac : Z -> nat -> R),
  (forall c k A, qr_ok OR A (fst (qr c k A)) (snd (qr c k A))) ->
  (forall c k A, rq_ok OR A (fst (rq c k A)) (snd (rq c k A))) ->
  (forall c k C, msym C -> eigh_ok C (fst (eigh c k C)) (snd (eigh c k C))) ->
  (forall c k l, argsort_ok l (argsort c k l)) ->
  forall skel : nat -> mat R -> mat R * mat R,
  (forall num A, let (U, V) := skel num A in mc U = mr V /\ meq OR (mmul OR U V) A) ->
  (forall num A, 1 <= mc (fst (skel num A))) ->
  forall (I : list (list Z)) (y : list R) (M : anova R) (r : nat) g (e : R) (cap : nat -> Z),
  ANOVA OR I y 2 = Ok M -> 2 <= r -> 2 <= dimI I -> length (pairs (dimI I)) < 15 -> (0 <= e)%R ->
  exists W, cores OR M r 0%R false g skel (trunc_real svdo eigh argsort qr rq ilog2 pow2frac e cap) = Ok W /\
    length W = dimI I /\ chain 1 W 1 /\ shape W = shapes (domain I) /\
    (forall k, 1 <= k < dimI I ->
       1 <= cr1 (nth k W dcore) /\ (Z.of_nat (cr1 (nth k W dcore)) <= Z.max 1 (cap O))%Z) /\
    ((forall k, 1 <= k < dimI I -> (Z.of_nat (cr1 (nth k W dcore)) < cap O)%Z) ->
     (msum OR (shapes (domain I)) (fun idx => sq OR (calc_pos OR M idx - get OR W idx))
      <= e * e * msum OR (shapes (domain I)) (fun idx => sq OR (calc_pos OR M idx)))%R).
Proof. exact anova_order2_error. Qed.
Example C13_pairs_15 : length (pairs 5) = 10 /\ length (pairs 6) = 15.
Proof. split; reflexivity. Qed.

(* anova_func with the default rounding composed with C02_truncate_error (eigen-decomposition mode, cap 10^12): the
   rounding succeeds, keeps d and the mode sizes n, and the returned coefficient tensor W is within e ||A||_F of the
   unrounded tensor A = anova_func(e=None) whose entries and interpolant are C13_cores_pre_get / C13_anova_func_denote
   (e = 1e-8 in the code; the side condition says there are fewer than 10^12 coefficients) *)
Theorem C13_anova_func_error :
  forall (svdo : nat -> mat R -> mat R * list R * mat R) (eigh : nat -> mat R -> list R * mat R)
         (argsort : nat -> list R -> list nat) (qr rq : nat -> mat R -> mat R * mat R)
         (ilog2 : nat -> R -> Z) (pow2frac : Z -> nat -> R),
  (forall k A, qr_ok OR A (fst (qr k A)) (snd (qr k A))) ->
  (forall k A, rq_ok OR A (fst (rq k A)) (snd (rq k A))) ->
  (forall k A, svd_ok OR A (fst (fst (svdo k A))) (snd (fst (svdo k A))) (snd (svdo k A))) ->
  (forall k C, msym C -> eigh_ok C (fst (eigh k C)) (snd (eigh k C))) ->
  (forall k l, argsort_ok l (argsort k l)) ->
  forall (X : list (list R)) (y : list R) (n : nat) (a b : list R) (lamb : R) solve (split : R -> R * R) (e : R),
  2 <= dimX X -> 1 <= n -> (0 <= e)%R ->
  let pre := anova_func OR X y n a b lamb solve split None in
  (Z.of_nat (1 + length (terms OR (snd (coeffs OR X y n a b lamb solve)))) < default_cap)%Z ->
  exists W, anova_func OR X y n a b lamb solve split (Some (trunc_func svdo eigh argsort qr rq ilog2 pow2frac e)) = W /\
    truncate OR svdo eigh argsort qr rq ilog2 pow2frac pre e default_cap true false true = Ok W /\
    length W = dimX X /\ chain 1 W 1 /\ shape W = repeat n (dimX X) /\
    (dist2 OR pre W <= e * e * tnorm2 OR pre)%R.
Proof. exact anova_func_error. Qed.
