(* C02 — truncate keeps the error within e*||Y|| and never exceeds rank caps.
   Only statements; the proofs are in Proofs/TruncP*.v, Proofs/FrobP.v. *)
From Coq Require Import List ZArith Reals.
From TV Require Import Num.Ops Lin.Mat TT.Chain Model.Transformation Model.Svd Model.ActMany.
From TV Require Import Proofs.StabRP Proofs.TruncP.
Import ListNotations.

(* ---------------------------------------------------------------------------------------------
   The rank rule  q = max(1, min(int(r), len(x) - dlen))  of matrix_svd / matrix_skeleton, at the reals
   (x = squared weights, e2 = e^2, tailsum x q = energy discarded at rank q).
   --------------------------------------------------------------------------------------------- *)
Theorem C02_rank_select_bounds : forall (x : list R) (e2 : R) (rcap : Z),
  let q := rank_select OR x e2 rcap in
  (1 <= q)%nat /\ (Z.of_nat q <= Z.max 1 rcap)%Z /\ (q <= Nat.max 1 (length x))%nat.
Proof. exact rank_select_bounds. Qed.

Theorem C02_rank_select_tail : forall (x : list R) (e2 : R) (rcap : Z),
  Forall (fun v => 0 <= v)%R x -> (0 <= e2)%R ->
  (Z.of_nat (rank_select OR x e2 rcap) < rcap)%Z \/ (Z.of_nat (length x) <= rcap)%Z ->
  (tailsum x (rank_select OR x e2 rcap) <= e2)%R.
Proof. exact rank_select_tail'. Qed.

Theorem C02_rank_select_minimal : forall (x : list R) (e2 : R) (rcap : Z) (q' : nat),
  Forall (fun v => 0 <= v)%R x ->
  (1 <= q')%nat -> (q' < rank_select OR x e2 rcap)%nat -> (e2 < tailsum x q')%R.
Proof. exact rank_select_minimal_all. Qed.

Theorem C02_rank_select_monotone : forall (x : list R) (e2 e2' : R) (rcap rcap' : Z),
  (e2 <= e2')%R -> (rcap <= rcap')%Z ->
  (rank_select OR x e2' rcap <= rank_select OR x e2 rcap)%nat /\
  (rank_select OR x e2 rcap <= rank_select OR x e2 rcap')%nat.
Proof. intros; split; [now apply rank_select_mono_e | now apply rank_select_mono_cap]. Qed.

(* non-vacuity of the rank rule on a concrete spectrum: squared weights 9,4,1,1 and budget e^2 = 2 drop two entries *)
Example C02_rank_select_ex : rank_select OR [9; 4; 1; 1]%R 2%R 10%Z = 2%nat.
Proof. exact rank_select_ex1. Qed.
