(* C02 — truncate keeps the error within e*||Y|| and never exceeds rank caps.
   Only statements; the proofs are in Proofs/TruncP*.v, Proofs/FrobP.v. *)
From Coq Require Import List ZArith Reals.
From TV Require Import Num.Ops Lin.Mat TT.Chain Model.Transformation Model.Svd Model.ActMany.
From TV Require Import Proofs.StabRP Proofs.TruncP.
Import ListNotations.

(* ---------------------------------------------------------------------------------------------
   The rank rule  q = max(1, min(int(r), len(x) - dlen))  of matrix_svd / matrix_skeleton, at the reals
   (x = squared weights, e2 = e^2, tailsum x q = energy discarded at rank q).
   --------------------------------------------------------------------------------------------- *)
Theorem C02_rank_select_bounds : forall (x : list R) (e2 : R) (rcap : Z),
  let q := rank_select OR x e2 rcap in
  (1 <= q)%nat /\ (Z.of_nat q <= Z.max 1 rcap)%Z /\ (q <= Nat.max 1 (length x))%nat.
Proof. exact rank_select_bounds. Qed.

Theorem C02_rank_select_tail : forall (x : list R) (e2 : R) (rcap : Z),
  Forall (fun v => 0 <= v)%R x -> (0 <= e2)%R ->
  (Z.of_nat (rank_select OR x e2 rcap) < rcap)%Z \/ (Z.of_nat (length x) <= rcap)%Z ->
  (tailsum x (rank_select OR x e2 rcap) <= e2)%R.
Proof. exact rank_select_tail'. Qed.

Theorem C02_rank_select_minimal : forall (x : list R) (e2 : R) (rcap : Z) (q' : nat),
  Forall (fun v => 0 <= v)%R x ->
  (1 <= q')%nat -> (q' < rank_select OR x e2 rcap)%nat -> (e2 < tailsum x q')%R.
Proof. exact rank_select_minimal_all. Qed.

Theorem C02_rank_select_monotone : forall (x : list R) (e2 e2' : R) (rcap rcap' : Z),
  (e2 <= e2')%R -> (rcap <= rcap')%Z ->
  (rank_select OR x e2' rcap <= rank_select OR x e2 rcap)%nat /\
  (rank_select OR x e2 rcap <= rank_select OR x e2 rcap')%nat.
Proof. intros; split; [now apply rank_select_mono_e | now apply rank_select_mono_cap]. Qed.

(* non-vacuity of the rank rule on a concrete spectrum: squared weights 9,4,1,1 and budget e^2 = 2 drop two entries *)
Example C02_rank_select_ex : rank_select OR [9; 4; 1; 1]%R 2%R 10%Z = 2%nat.
Proof. exact rank_select_ex1. Qed.

(* ---------------------------------------------------------------------------------------------
   The right-to-left sweep of truncate with the matrix factorisation abstracted (gsweep; trunc_sweep is the
   instance with matrix_svd / matrix_skeleton(give_to='l'), theorem C02_trunc_sweep_is_gsweep).
   Contract of one factorisation (fact_ok):  U V = M V^T V,  the rows of V are pairwise orthogonal and each has norm 1
   or is zero (a zero row belongs to a retained zero singular value), consistent dimensions;  fact_contract adds 1 <= q <= min(rows, cols), q <= max(1, cap) and
   |M - U V|_F^2 <= delta2 whenever the returned rank is below the cap.
   For every chain Zs (any length m+1, any open right rank rl) whose cores 0..m-1 are left-orthonormal:
   same shape, chain ranks, every new rank between 1 and the old one and at most max(1, cap), and
   |Zs - W|_F^2 <= m * delta2  when no returned rank reaches the cap (Pythagoras over the sweep steps).
   --------------------------------------------------------------------------------------------- *)
From TV Require Import Proofs.TransformationP Proofs.OrthP Proofs.FrobP Proofs.TruncP2 Proofs.TruncP3 Model.Wf.

Theorem C02_trunc_sweep_is_gsweep : forall T (K : ops T) svdo eigh argsort e rcap (b : bool) n Zs k,
  trunc_sweep K svdo eigh argsort Zs e rcap b k n =
  gsweep K (fun k M => if b then matrix_svd K eigh argsort k M e rcap
                       else matrix_skeleton K svdo k M e rcap false GiveL) Zs k n.
Proof. intros. apply trunc_sweep_gsweep. Qed.

Theorem C02_sweep_error : forall (fact : nat -> mat R -> mat R * mat R) (delta2 : R) (rcap : Z),
  fact_contract fact delta2 rcap ->
  forall m (Zs : list (core R)) rl, length Zs = S m -> chain 1 Zs rl -> posdims Zs ->
  (forall i, (i < m)%nat -> lorth OR (nth i Zs dcore)) ->
  let W := gsweep OR fact Zs m m in
  length W = S m /\ chain 1 W rl /\ shape W = shape Zs /\
  (forall k, (1 <= k <= m)%nat ->
     (1 <= cr1 (nth k W dcore))%nat /\ (cr1 (nth k W dcore) <= cr1 (nth k Zs dcore))%nat /\
     (cr1 (nth k W dcore) <= cn (nth k Zs dcore) * cr2 (nth k W dcore))%nat /\
     (Z.of_nat (cr1 (nth k W dcore)) <= Z.max 1 rcap)%Z) /\
  ((forall k, (1 <= k <= m)%nat -> (Z.of_nat (cr1 (nth k W dcore)) < rcap)%Z) ->
   (dist2o OR Zs W rl <= INR m * delta2)%R).
Proof. exact gsweep_spec. Qed.

(* ---------------------------------------------------------------------------------------------
   truncate(Y, e, r, orth=True, use_stab=False, is_eigh) on a valid TT-tensor (d >= 2, every mode size and rank >= 1),
   for every qr / rq routine meeting the QR / RQ contract and every eigh / argsort / svd routine for which the
   factorisation of the chosen mode meets fact_contract with delta2 = e'^2 (the generic form, conditional on that
   contract: _cond; C02_truncate_error below discharges it for both modes from the LAPACK contracts):
   the call succeeds, same length and shape, chain from rank 1 to rank 1, every rank between 1 and the input rank
   and at most max(1, int(r)); and if no returned rank reaches the cap,  |Y - W|_F^2 <= e^2 |Y|_F^2.
   --------------------------------------------------------------------------------------------- *)
Theorem C02_truncate_error_cond :
  forall (svdo : nat -> mat R -> mat R * list R * mat R) (eigh : nat -> mat R -> list R * mat R)
         (argsort : nat -> list R -> list nat) (qr rq : nat -> mat R -> mat R * mat R)
         (ilog2 : nat -> R -> Z) (pow2frac : Z -> nat -> R),
  (forall k A, qr_ok OR A (fst (qr k A)) (snd (qr k A))) ->
  (forall k A, rq_ok OR A (fst (rq k A)) (snd (rq k A))) ->
  forall (rcap : Z) (is_eigh : bool),
  (forall e', (0 <= e')%R -> fact_contract (factE svdo eigh argsort rcap is_eigh e') (e' * e')%R rcap) ->
  forall (Y : list (core R)) (e : R), wfI (shape Y) Y -> (2 <= length Y)%nat -> (0 <= e)%R ->
  exists W, truncate OR svdo eigh argsort qr rq ilog2 pow2frac Y e rcap true false is_eigh = Ok W /\
    length W = length Y /\ chain 1 W 1 /\ shape W = shape Y /\
    (forall k, (1 <= k < length Y)%nat ->
       (1 <= cr1 (nth k W dcore))%nat /\ (cr1 (nth k W dcore) <= cr1 (nth k Y dcore))%nat /\
       (Z.of_nat (cr1 (nth k W dcore)) <= Z.max 1 rcap)%Z) /\
    ((forall k, (1 <= k < length Y)%nat -> (Z.of_nat (cr1 (nth k W dcore)) < rcap)%Z) ->
     (dist2 OR Y W <= e * e * tnorm2 OR Y)%R).
Proof. exact truncate_error_gen. Qed.

(* ---------------------------------------------------------------------------------------------
   matrix_skeleton(A, e, r, rel=False, give_to='l') for every svd routine meeting the thin-SVD contract svd_ok
   (A = U diag(s) Vt, orthonormal columns of U and rows of Vt, len(s) = min(m, n)) meets the factorisation contract
   with delta2 = e^2:  U V = A V^T V,  V V^T = I,  1 <= q <= min(m, n), q <= max(1, int(r)),
   |A - U V|_F^2 = sum of the discarded s_c^2 <= e^2 when q < int(r).
   --------------------------------------------------------------------------------------------- *)
From TV Require Import Lin.BigSum Proofs.TruncP4.
Theorem C02_matrix_skeleton_contract : forall (svdo : nat -> mat R -> mat R * list R * mat R),
  (forall k A, svd_ok OR A (fst (fst (svdo k A))) (snd (fst (svdo k A))) (snd (svdo k A))) ->
  forall (rcap : Z) (e' : R), (0 <= e')%R ->
  fact_contract (fun k M => matrix_skeleton OR svdo k M e' rcap false GiveL) (e' * e')%R rcap.
Proof. exact skeleton_contract. Qed.

Theorem C02_matrix_skeleton_residual : forall (A U : mat R) (s : list R) (V : mat R), svd_ok OR A U s V ->
  forall q, (1 <= q)%nat -> (q <= length s)%nat ->
  fact_ok OR A (skelU OR U s q) (skelV OR V q) /\
  res2 OR A (skelU OR U s q) (skelV OR V q) = bsum OR (length s - q) (fun c => sq OR (nth (q + c) s 0%R)).
Proof. intros A U s V HS q H1 H2. split; [now apply (skel_fact_ok OR OR_rng)|now apply (skel_res2 OR OR_rng)]. Qed.

(* SVD mode (is_eigh=False, the repaired give_to='l'), orth=True, use_stab=False: only the LAPACK contracts are assumed *)
Theorem C02_truncate_error_svd :
  forall (svdo : nat -> mat R -> mat R * list R * mat R) (eigh : nat -> mat R -> list R * mat R)
         (argsort : nat -> list R -> list nat) (qr rq : nat -> mat R -> mat R * mat R)
         (ilog2 : nat -> R -> Z) (pow2frac : Z -> nat -> R),
  (forall k A, qr_ok OR A (fst (qr k A)) (snd (qr k A))) ->
  (forall k A, rq_ok OR A (fst (rq k A)) (snd (rq k A))) ->
  (forall k A, svd_ok OR A (fst (fst (svdo k A))) (snd (fst (svdo k A))) (snd (svdo k A))) ->
  forall (rcap : Z) (Y : list (core R)) (e : R), wfI (shape Y) Y -> (2 <= length Y)%nat -> (0 <= e)%R ->
  exists W, truncate OR svdo eigh argsort qr rq ilog2 pow2frac Y e rcap true false false = Ok W /\
    length W = length Y /\ chain 1 W 1 /\ shape W = shape Y /\
    (forall k, (1 <= k < length Y)%nat ->
       (1 <= cr1 (nth k W dcore))%nat /\ (cr1 (nth k W dcore) <= cr1 (nth k Y dcore))%nat /\
       (Z.of_nat (cr1 (nth k W dcore)) <= Z.max 1 rcap)%Z) /\
    ((forall k, (1 <= k < length Y)%nat -> (Z.of_nat (cr1 (nth k W dcore)) < rcap)%Z) ->
     (dist2 OR Y W <= e * e * tnorm2 OR Y)%R).
Proof. exact truncate_error_svd. Qed.

(* non-vacuity: a concrete thin SVD meeting svd_ok, and the rank-1 factorisation it yields (fact_ok, residual^2 = 1) *)
Example C02_svd_ok_ex : svd_ok OR exA exI [3; 1]%R exI.
Proof. exact svd_ok_ex. Qed.
Example C02_fact_ok_ex : fact_ok OR exA (skelU OR exI [3; 1]%R 1) (skelV OR exI 1) /\
  res2 OR exA (skelU OR exI [3; 1]%R 1) (skelV OR exI 1) = 1%R.
Proof. exact fact_ok_ex. Qed.

(* ---------------------------------------------------------------------------------------------
   matrix_svd(A, e, r) (eigen-decomposition mode) meets the same factorisation contract, for every eigh routine that
   returns an orthogonal eigen-decomposition of every symmetric matrix (C U = U diag(w), U^T U = U U^T = I; no order
   of the eigenvalues assumed) and every argsort routine returning a permutation of the positions: both branches
   (m <= n: C = A A^T, V = diag(1/w where w > 0) U_q^T A, U = U_q diag(w);  m > n: C = A^T A, U = A U_q, V = U_q^T),
   clipping of negative eigenvalues, sqrt, the guarded reciprocal (a retained zero weight gives a zero row of V).
   --------------------------------------------------------------------------------------------- *)
From TV Require Import Proofs.TruncP5 Model.ActOne.
Theorem C02_matrix_svd_contract : forall (eigh : nat -> mat R -> list R * mat R) (argsort : nat -> list R -> list nat),
  (forall k C, msym C -> eigh_ok C (fst (eigh k C)) (snd (eigh k C))) ->
  (forall k l, argsort_ok l (argsort k l)) ->
  forall (rcap : Z) (e' : R), (0 <= e')%R ->
  fact_contract (fun k M => matrix_svd OR eigh argsort k M e' rcap) (e' * e')%R rcap.
Proof. exact svd_contract. Qed.

(* truncate(Y, e, r, orth=True, use_stab=False, is_eigh) in BOTH modes, only the LAPACK contracts assumed *)
Theorem C02_truncate_error :
  forall (svdo : nat -> mat R -> mat R * list R * mat R) (eigh : nat -> mat R -> list R * mat R)
         (argsort : nat -> list R -> list nat) (qr rq : nat -> mat R -> mat R * mat R)
         (ilog2 : nat -> R -> Z) (pow2frac : Z -> nat -> R),
  (forall k A, qr_ok OR A (fst (qr k A)) (snd (qr k A))) ->
  (forall k A, rq_ok OR A (fst (rq k A)) (snd (rq k A))) ->
  (forall k A, svd_ok OR A (fst (fst (svdo k A))) (snd (fst (svdo k A))) (snd (svdo k A))) ->
  (forall k C, msym C -> eigh_ok C (fst (eigh k C)) (snd (eigh k C))) ->
  (forall k l, argsort_ok l (argsort k l)) ->
  forall (rcap : Z) (is_eigh : bool) (Y : list (core R)) (e : R),
  wfI (shape Y) Y -> (2 <= length Y)%nat -> (0 <= e)%R ->
  exists W, truncate OR svdo eigh argsort qr rq ilog2 pow2frac Y e rcap true false is_eigh = Ok W /\
    length W = length Y /\ chain 1 W 1 /\ shape W = shape Y /\
    (forall k, (1 <= k < length Y)%nat ->
       (1 <= cr1 (nth k W dcore))%nat /\ (cr1 (nth k W dcore) <= cr1 (nth k Y dcore))%nat /\
       (Z.of_nat (cr1 (nth k W dcore)) <= Z.max 1 rcap)%Z) /\
    ((forall k, (1 <= k < length Y)%nat -> (Z.of_nat (cr1 (nth k W dcore)) < rcap)%Z) ->
     (dist2 OR Y W <= e * e * tnorm2 OR Y)%R).
Proof. exact truncate_error. Qed.

(* add_many: every rounding step (the c-th call of truncate inside add_many, eigen-decomposition mode, cap int(1e12) for
   the intermediate ones and int(r) for the last) obeys the same bound; the result of add_many is the last rounding step
   applied to the running sum, which the loop only changes by [add] and by rounding steps (C02_add_many_loop_step). *)
Theorem C02_add_many_step :
  forall (svdo : nat -> nat -> mat R -> mat R * list R * mat R) (eigh : nat -> nat -> mat R -> list R * mat R)
         (argsort : nat -> nat -> list R -> list nat) (qr rq : nat -> nat -> mat R -> mat R * mat R)
         (ilog2 : nat -> nat -> R -> Z) (pow2frac : Z -> nat -> R),
  (forall c k A, qr_ok OR A (fst (qr c k A)) (snd (qr c k A))) ->
  (forall c k A, rq_ok OR A (fst (rq c k A)) (snd (rq c k A))) ->
  (forall c k C, msym C -> eigh_ok C (fst (eigh c k C)) (snd (eigh c k C))) ->
  (forall c k l, argsort_ok l (argsort c k l)) ->
  forall (c : nat) (rcap : Z) (Y : list (core R)) (e : R),
  wfI (shape Y) Y -> (2 <= length Y)%nat -> (0 <= e)%R ->
  exists W, trunc_call OR svdo eigh argsort qr rq ilog2 pow2frac c Y e rcap = Ok W /\
    length W = length Y /\ chain 1 W 1 /\ shape W = shape Y /\
    (forall k, (1 <= k < length Y)%nat ->
       (1 <= cr1 (nth k W dcore))%nat /\ (cr1 (nth k W dcore) <= cr1 (nth k Y dcore))%nat /\
       (Z.of_nat (cr1 (nth k W dcore)) <= Z.max 1 rcap)%Z) /\
    ((forall k, (1 <= k < length Y)%nat -> (Z.of_nat (cr1 (nth k W dcore)) < rcap)%Z) ->
     (dist2 OR Y W <= e * e * tnorm2 OR Y)%R).
Proof. exact add_many_step. Qed.

Theorem C02_add_many_final : forall svdo eigh argsort qr rq ilog2 pow2frac (Y0 : list (core R)) rest e rcap freq W,
  add_many OR svdo eigh argsort qr rq ilog2 pow2frac (Y0 :: rest) e rcap freq = Ok W ->
  exists Y' nc, add_many_loop OR svdo eigh argsort qr rq ilog2 pow2frac e freq O O (copy Y0) rest = Ok (Y', nc) /\
    trunc_call OR svdo eigh argsort qr rq ilog2 pow2frac nc Y' e rcap = Ok W.
Proof. exact add_many_final. Qed.

Theorem C02_add_many_loop_step : forall svdo eigh argsort qr rq ilog2 pow2frac (e : R) freq i nc Y Yc rest',
  add_many_loop OR svdo eigh argsort qr rq ilog2 pow2frac e freq i nc Y (Yc :: rest') =
  if Nat.eqb freq 0 then Err OtherError else
  if Nat.eqb (Nat.modulo (S i) freq) 0 then
    match trunc_call OR svdo eigh argsort qr rq ilog2 pow2frac nc (add OR Y Yc) e default_cap with
    | Err er => Err er
    | Ok Y2 => add_many_loop OR svdo eigh argsort qr rq ilog2 pow2frac e freq (S i) (S nc) Y2 rest'
    end
  else add_many_loop OR svdo eigh argsort qr rq ilog2 pow2frac e freq (S i) nc (add OR Y Yc) rest'.
Proof. exact add_many_loop_step. Qed.

(* non-vacuity of the eigh / argsort contracts *)
Example C02_eigh_ok_ex : msym exC /\ eigh_ok exC [9; 1]%R exI /\ argsort_ok [3; 1]%R [1; 0]%nat.
Proof. exact eigh_ok_ex. Qed.

(* ---------------------------------------------------------------------------------------------
   truncate(Y, e, r, orth=True, use_stab=True, is_eigh), both modes, exact arithmetic: the stabilised orthogonalisation
   returns Zs with 2^p Zs = Y, the sweep runs on Zs, every core of the result is multiplied by 2**(p/d); under the root
   law (2**(p/d))^d = 2^p (satisfiable: C02_root_law_ex) the same conclusions as without stabilisation.
   --------------------------------------------------------------------------------------------- *)
From TV Require Import Model.Stab Proofs.TruncP6 Proofs.TruncP7.
Theorem C02_truncate_error_stab :
  forall (svdo : nat -> mat R -> mat R * list R * mat R) (eigh : nat -> mat R -> list R * mat R)
         (argsort : nat -> list R -> list nat) (qr rq : nat -> mat R -> mat R * mat R)
         (ilog2 : nat -> R -> Z) (pow2frac : Z -> nat -> R),
  (forall k A, qr_ok OR A (fst (qr k A)) (snd (qr k A))) ->
  (forall k A, rq_ok OR A (fst (rq k A)) (snd (rq k A))) ->
  (forall k A, svd_ok OR A (fst (fst (svdo k A))) (snd (fst (svdo k A))) (snd (svdo k A))) ->
  (forall k C, msym C -> eigh_ok C (fst (eigh k C)) (snd (eigh k C))) ->
  (forall k l, argsort_ok l (argsort k l)) ->
  (forall p d, (1 <= d)%nat -> opow OR (pow2frac p d) d = powerRZ 2 p) ->
  forall (rcap : Z) (is_eigh : bool) (Y : list (core R)) (e : R),
  wfI (shape Y) Y -> (2 <= length Y)%nat -> (0 <= e)%R ->
  exists W, truncate OR svdo eigh argsort qr rq ilog2 pow2frac Y e rcap true true is_eigh = Ok W /\
    length W = length Y /\ chain 1 W 1 /\ shape W = shape Y /\
    (forall k, (1 <= k < length Y)%nat ->
       (1 <= cr1 (nth k W dcore))%nat /\ (cr1 (nth k W dcore) <= cr1 (nth k Y dcore))%nat /\
       (Z.of_nat (cr1 (nth k W dcore)) <= Z.max 1 rcap)%Z) /\
    ((forall k, (1 <= k < length Y)%nat -> (Z.of_nat (cr1 (nth k W dcore)) < rcap)%Z) ->
     (dist2 OR Y W <= e * e * tnorm2 OR Y)%R).
Proof. exact truncate_error_stab. Qed.
Example C02_root_law_ex : forall p d, (1 <= d)%nat -> opow OR (rootR p d) d = powerRZ 2 p.
Proof. exact root_law_ex. Qed.

(* ---------------------------------------------------------------------------------------------
   Rank clause "no returned rank exceeds the smallest rank that meets the budget" -- PARTIAL.
   Matrix level, SVD mode (full): the rank matrix_skeleton returns is the rank rule applied to the squared singular values
   s of that matrix, so every smaller rank q' >= 1 discards sum_{c >= q'} s_c^2 > e^2.
   First truncated bond k = d-1 of truncate (SVD mode, no stabilisation): the returned rank r_{d-1} is the rank rule applied
   to the singular values s of the right unfolding of the last orthogonalised core with budget e'^2 = e^2 |Y|^2 / (d-1),
   every smaller rank misses that budget (C02_first_bond_rank_partial), and those s are singular values of the (d-1)-unfolding
   of the tensor itself: X = (P U) diag(s) Vt with P U orthonormal (C02_first_bond_svd).
   Missing: the other bonds (interlacing), the eigen-decomposition mode at tensor level, and the identification of
   sum_{c >= q'} s_c^2 with the best rank-q' error (Eckart-Young; needs s sorted, which the contracts do not assume).
   --------------------------------------------------------------------------------------------- *)
Theorem C02_skeleton_rank_minimal : forall (svdo : nat -> mat R -> mat R * list R * mat R),
  (forall k A, svd_ok OR A (fst (fst (svdo k A))) (snd (fst (svdo k A))) (snd (svdo k A))) ->
  forall k (A : mat R) e rcap q', (1 <= mr A)%nat -> (1 <= mc A)%nat ->
  (1 <= q')%nat -> (q' < mc (fst (matrix_skeleton OR svdo k A e rcap false GiveL)))%nat ->
  (e * e < tailsum (map (fun x => x * x) (snd (fst (svdo k A)))) q')%R.
Proof. exact skeleton_rank_minimal. Qed.

Theorem C02_first_bond_rank_partial :
  forall (svdo : nat -> mat R -> mat R * list R * mat R) (eigh : nat -> mat R -> list R * mat R)
         (argsort : nat -> list R -> list nat) (qr rq : nat -> mat R -> mat R * mat R)
         (ilog2 : nat -> R -> Z) (pow2frac : Z -> nat -> R),
  (forall k A, qr_ok OR A (fst (qr k A)) (snd (qr k A))) ->
  (forall k A, rq_ok OR A (fst (rq k A)) (snd (rq k A))) ->
  (forall k A, svd_ok OR A (fst (fst (svdo k A))) (snd (fst (svdo k A))) (snd (svdo k A))) ->
  forall (rcap : Z) (Y : list (core R)) (e : R), wfI (shape Y) Y -> (2 <= length Y)%nat -> (0 <= e)%R ->
  exists Zs W e',
    orthogonalize OR qr rq ilog2 Y (Some (Z.of_nat (length Y - 1))) false = Ok (Zs, 0%Z) /\
    truncate OR svdo eigh argsort qr rq ilog2 pow2frac Y e rcap true false false = Ok W /\
    (0 <= e')%R /\ (INR (length Y - 1) * (e' * e') = e * e * tnorm2 OR Y)%R /\
    let s := snd (fst (svdo (length Y - 1)%nat (unfoldR OR (nth (length Y - 1) Zs dcore)))) in
    cr1 (nth (length Y - 1) W dcore) = rank_select OR (map (fun x => x * x)%R s) (e' * e')%R rcap /\
    forall q', (1 <= q')%nat -> (q' < cr1 (nth (length Y - 1) W dcore))%nat ->
      (e' * e' < tailsum (map (fun x => x * x) s) q')%R.
Proof. exact first_bond_rank. Qed.

Theorem C02_first_bond_svd : forall (P : list (core R)) (G : core R) (Us : mat R) (s : list R) (Vs : mat R),
  chain 1%nat P (cr1 G) -> Forall (lorth OR) P -> cr2 G = 1%nat -> svd_ok OR (unfoldR OR G) Us s Vs ->
  (forall c c', (c < length s)%nat -> (c' < length s)%nat ->
     msum OR (shape P) (fun iL => leftvec OR P Us (cr1 G) iL c * leftvec OR P Us (cr1 G) iL c')%R = if Nat.eqb c c' then 1%R else 0%R) /\
  (forall iL i, inb (shape P) iL -> (i < cn G)%nat ->
     get OR (P ++ [G]) (iL ++ [i]) = bsum OR (length s) (fun c => leftvec OR P Us (cr1 G) iL c * nth c s 0 * mget OR Vs c i)%R).
Proof. exact (first_bond_svd OR OR_rng). Qed.
