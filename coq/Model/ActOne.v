(* Model of teneva/act_one.py, teneva/act_two.py, teneva/act_many.py (outer_many),
   teneva/transformation.py:full, teneva/props.py — the ring part (C01). *)
From Coq Require Import List Arith Lia PeanoNat ZArith.
From TV Require Import Num.Ops Lin.Tab Lin.BigSum TT.Chain.
Import ListNotations.

Section ActOne.
Context {T : Type} (K : ops T).
Notation "0" := (o0 K). Notation "1" := (o1 K).
Infix "+" := (oadd K). Infix "*" := (omul K). Infix "-" := (osub K).

(* ---- act_one.copy: values are immutable in the model (aliasing is C09) ---- *)
Definition copy (Y : list (core T)) : list (core T) := Y.

(* ---- transformation.full: successive tensordot; rows are kept per multi-index prefix,
        C order (last index fastest), as numpy lays the result out ---- *)
Definition full_step (Z : list (list T)) (G : core T) : list (list T) :=
  flat_map (fun v => tab (cn G) (fun i => vstep K v G i)) Z.
Definition full_rows (Y : list (core T)) : list (list T) := fold_left full_step Y [[1]].
Definition full (Y : list (core T)) : list T := map (fun v => nth O v 0) (full_rows Y).
(* position of a multi-index in the C-order flattening *)
Fixpoint cpos (ns idx : list nat) (acc : nat) : nat :=
  match ns, idx with
  | n :: ns', i :: idx' => cpos ns' idx' (acc * n + i)
  | _, _ => acc
  end.

(* ---- act_one.mean / sum:  Z = Z @ einsum('rmq,m->rq', G, p) ---- *)
Definition vstepw (v : list T) (G : core T) (p : list T) : list T :=
  tab (cr2 G) (fun b => bsum K (cr1 G) (fun a => nth a v 0 *
       bsum K (cn G) (fun i => cget K G a i b * nth i p 0))).
Fixpoint runw (v : list T) (Y : list (core T)) (P : list (list T)) : list T :=
  match Y, P with
  | G :: Y', p :: P' => runw (vstepw v G p) Y' P'
  | _, _ => v
  end.
Definition ones (n : nat) : list T := tab n (fun _ => 1).
Definition mean_w (Y : list (core T)) (P : list (list T)) : T := nth O (runw [1] Y P) 0.
Definition sum (Y : list (core T)) : T := mean_w Y (map (fun G => ones (cn G)) Y).
(* uniform mean needs a field: p = ones(k)/k *)
Definition natT (n : nat) : T := oofZ K (Z.of_nat n).
Definition mean_u (Y : list (core T)) : T :=
  mean_w Y (map (fun G => tab (cn G) (fun _ => odiv K 1 (natT (cn G)))) Y).

(* ---- act_two ---- *)
Definition core_first (G1 G2 : core T) : core T :=
  mkcore (cr1 G1) (cn G1) (cr2 G1 + cr2 G2)
    (fun a i b => if b <? cr2 G1 then cget K G1 a i b else cget K G2 a i (b - cr2 G1)).
Definition core_last (G1 G2 : core T) : core T :=
  mkcore (cr1 G1 + cr1 G2) (cn G1) (cr2 G1)
    (fun a i b => if a <? cr1 G1 then cget K G1 a i b else cget K G2 (a - cr1 G1) i b).
Definition core_mid (G1 G2 : core T) : core T :=
  mkcore (cr1 G1 + cr1 G2) (cn G1) (cr2 G1 + cr2 G2)
    (fun a i b => if a <? cr1 G1 then (if b <? cr2 G1 then cget K G1 a i b else 0)
                  else (if b <? cr2 G1 then 0 else cget K G2 (a - cr1 G1) i (b - cr2 G1))).
Fixpoint add_tail (Y1 Y2 : list (core T)) : list (core T) :=
  match Y1, Y2 with
  | [G1], [G2] => [core_last G1 G2]
  | G1 :: Y1', G2 :: Y2' => core_mid G1 G2 :: add_tail Y1' Y2'
  | _, _ => []
  end.
Definition add (Y1 Y2 : list (core T)) : list (core T) :=
  match Y1, Y2 with
  | G1 :: Y1', G2 :: Y2' => core_first G1 G2 :: add_tail Y1' Y2'
  | _, _ => []
  end.
Definition core_scale (c : T) (G : core T) : core T :=
  mkcore (cr1 G) (cn G) (cr2 G) (fun a i b => cget K G a i b * c).
(* Y[0] *= c *)
Definition mul_num (Y : list (core T)) (c : T) : list (core T) :=
  match Y with G :: Y' => core_scale c G :: Y' | [] => [] end.
Definition sub (Y1 Y2 : list (core T)) : list (core T) := add Y1 (mul_num Y2 (oopp K 1)).
(* G1[:, None, :, :, None] * G2[None, :, :, None, :] reshaped in C order *)
Definition core_kron (G1 G2 : core T) : core T :=
  mkcore (cr1 G1 * cr1 G2) (cn G1) (cr2 G1 * cr2 G2)
    (fun a i b => cget K G1 (a / cr1 G2) i (b / cr2 G2) * cget K G2 (a mod cr1 G2) i (b mod cr2 G2)).
Fixpoint mul (Y1 Y2 : list (core T)) : list (core T) :=
  match Y1, Y2 with
  | G1 :: Y1', G2 :: Y2' => core_kron G1 G2 :: mul Y1' Y2'
  | _, _ => []
  end.
Definition outer (Y1 Y2 : list (core T)) : list (core T) := copy Y1 ++ copy Y2.
Definition outer_many (Ys : list (list (core T))) : list (core T) := concat Ys.

(* mul_scalar: v = v @ sum_i kron(G1_i, G2_i) *)
Definition vstep2 (v : list T) (G1 G2 : core T) : list T :=
  tab (cr2 G1 * cr2 G2) (fun b => bsum K (cr1 G1 * cr1 G2) (fun a => nth a v 0 *
      bsum K (cn G1) (fun i => cget K (core_kron G1 G2) a i b))).
Fixpoint run2 (v : list T) (Y1 Y2 : list (core T)) : list T :=
  match Y1, Y2 with
  | G1 :: Y1', G2 :: Y2' => run2 (vstep2 v G1 G2) Y1' Y2'
  | _, _ => v
  end.
Definition mul_scalar (Y1 Y2 : list (core T)) : T := nth O (run2 [1] Y1 Y2) 0.

(* const with a given per-core value rho (the d-th root is an oracle) and sign s on the last core *)
Definition const_core (n : nat) (c : T) : core T := mkcore 1 n 1 (fun _ _ _ => c).
Fixpoint const_cores (ns : list nat) (rho s : T) : list (core T) :=
  match ns with
  | [] => []
  | [n] => [const_core n (rho * s)]
  | n :: ns' => const_core n rho :: const_cores ns' rho s
  end.

(* ---- interface (norm=None): right-to-left (ltr=False) and left-to-right partial products ---- *)
(* phi_r[k] = G_k[:, i_k, :] @ phi_r[k+1], phi_r[d] = [1] *)
Definition mstep (G : core T) (i : nat) (w : list T) : list T :=
  tab (cr1 G) (fun a => bsum K (cr2 G) (fun b => cget K G a i b * nth b w 0)).
Fixpoint phi_r (Y : list (core T)) (idx : list nat) : list (list T) :=
  match Y, idx with
  | G :: Y', i :: idx' =>
      let rest := phi_r Y' idx' in mstep G i (hd [] rest) :: rest
  | _, _ => [[1]]
  end.
(* phi_l[0] = [1], phi_l[k+1] = phi_l[k] @ G_k[:, i_k, :] *)
Fixpoint phi_l_from (v : list T) (Y : list (core T)) (idx : list nat) : list (list T) :=
  match Y, idx with
  | G :: Y', i :: idx' => v :: phi_l_from (vstep K v G i) Y' idx'
  | _, _ => [v]
  end.
Definition phi_l (Y : list (core T)) (idx : list nat) : list (list T) := phi_l_from [1] Y idx.
(* get_and_grad: value and per-core gradient, grad_k[a, i_k, b] = phi_l[k][a] * phi_r[k+1][b] *)
Fixpoint grads (Y : list (core T)) (idx : list nat) (pl pr : list (list T)) : list (core T) :=
  match Y, idx, pl, pr with
  | G :: Y', i :: idx', l :: pl', r :: pr' =>
      mkcore (cr1 G) (cn G) (cr2 G)
        (fun a j b => if Nat.eqb j i then nth a l 0 * nth b r 0 else 0) :: grads Y' idx' pl' pr'
  | _, _, _, _ => []
  end.
Definition get_and_grad (Y : list (core T)) (idx : list nat) : T * list (core T) :=
  let pr := phi_r Y idx in let pl := phi_l Y idx in
  (nth O (hd [] pr) 0, grads Y idx pl (tl pr)).

(* props *)
Definition size (Y : list (core T)) : nat := fold_right (fun G s => (cr1 G * cn G * cr2 G + s)%nat) O Y.
End ActOne.
