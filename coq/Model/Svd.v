(* Model of teneva/svd.py: matrix_skeleton, matrix_svd (rank rule, factor weighting), svd, svd_matrix;
   teneva/transformation.py: truncate, full_matrix.  LAPACK routines are oracles. *)
From Coq Require Import List Arith Lia PeanoNat ZArith Bool.
From TV Require Import Num.Ops Lin.Tab Lin.BigSum Lin.Mat TT.Chain Model.Transformation.
Import ListNotations.

Section Svd.
Context {T : Type} (K : ops T).
Notation "0" := (o0 K). Notation "1" := (o1 K).
Infix "+" := (oadd K). Infix "*" := (omul K). Infix "-" := (osub K). Infix "/" := (odiv K).

(* ---- the rank rule ----
   where = np.where(np.cumsum(x[::-1]) <= e**2)[0];  dlen = 0 if len(where) == 0 else 1 + where[-1]
   rank = max(1, min(int(r), len(x) - dlen)) *)
Fixpoint cumsum_from (acc : T) (l : list T) : list T :=
  match l with [] => [] | x :: l' => (acc + x) :: cumsum_from (acc + x) l' end.
Definition cumsum (l : list T) : list T := cumsum_from 0 l.
(* 1 + last position k (counted from pos) whose entry is <= e2; best if there is none *)
Fixpoint last_le (cs : list T) (e2 : T) (pos best : nat) : nat :=
  match cs with
  | [] => best
  | x :: cs' => last_le cs' e2 (S pos) (if oleb K x e2 then S pos else best)
  end.
Definition dlen (x : list T) (e2 : T) : nat := last_le (cumsum (rev x)) e2 O O.
Definition rank_select (x : list T) (e2 : T) (rcap : Z) : nat :=
  Z.to_nat (Z.max 1 (Z.min rcap (Z.of_nat (length x) - Z.of_nat (dlen x e2)))).

Definition diagl (w : list T) : mat T :=
  mkmat (length w) (length w) (fun i j => if Nat.eqb i j then nth i w 0 else 0).

(* ---- matrix_skeleton(A, e, r, rel, give_to) ---- *)
Inductive give := GiveL | GiveR | GiveM.
Variable svdo : nat -> mat T -> mat T * list T * mat T.    (* np.linalg.svd(A, full_matrices=False) -> (U, s, Vt) *)
Definition matrix_skeleton (k : nat) (A : mat T) (e : T) (rcap : Z) (rel : bool) (g : give) : mat T * mat T :=
  let '(U, s, V) := svdo k A in
  let ss := if rel then map (fun x => x / nth O s 0) s else s in
  let q := rank_select (map (fun x => x * x) ss) (e * e) rcap in
  let sq := firstn q s in
  let Uq := mtakec K U q in let Vq := mtaker K V q in
  match g with
  | GiveL => (mmul K Uq (diagl sq), Vq)
  | GiveR => (Uq, mmul K (diagl sq) Vq)
  | GiveM => let S := diagl (map (osqrt K) sq) in (mmul K Uq S, mmul K S Vq)
  end.

(* ---- matrix_svd(A, e, r) ---- *)
Variable eigh : nat -> mat T -> list T * mat T.            (* np.linalg.eigh(C) -> (w, U) *)
Variable argsort : nat -> list T -> list nat.              (* np.argsort(w) *)
Definition matrix_svd (k : nat) (A : mat T) (e : T) (rcap : Z) : mat T * mat T :=
  let m := mr A in let n := mc A in
  let wide := m <=? n in
  let C := if wide then mmul K A (mtrans K A) else mmul K (mtrans K A) A in
  let '(w0, U0) := eigh k C in
  let w1 := map (fun x => osqrt K (if oltb K x 0 then 0 else x)) w0 in
  let idx := rev (argsort k w1) in
  let w := map (fun i => nth i w1 0) idx in
  let U := mcols K U0 idx in
  let s := map (fun x => x * x) w in
  let q := rank_select s (e * e) rcap in
  let wq := firstn q w in
  let Uq := mtakec K U q in
  if wide then
    (* w_inv = 1/w where w > 0, else 0;  V = (w_inv[:, None] * U.T) @ A;  U = U * w *)
    let winv := map (fun x => if oltb K 0 x then 1 / x else 0) wq in
    let Ut := mtrans K Uq in
    let V := mmul K (mkmat q m (fun i j => nth i winv 0 * mget K Ut i j)) A in
    (mkmat m q (fun i j => mget K Uq i j * nth j wq 0), V)
  else
    (mmul K A Uq, mtrans K Uq).

(* ---- truncate(Y, e, r, orth, use_stab, is_eigh) ---- *)
Variable qr : nat -> mat T -> mat T * mat T.
Variable rq : nat -> mat T -> mat T * mat T.
Variable ilog2 : nat -> T -> Z.
Variable pow2frac : Z -> nat -> T.                          (* 2**(p/d) as a float *)
Definition cfrob2 (G : core T) : T :=
  fold_left (fun s x => s + x * x) (concat (concat (dat G))) 0.
(* Z[k-1] = einsum('ijq,ql', Z[k-1], U) *)
Definition core_mulR (G : core T) (U : mat T) : core T :=
  mkcore (cr1 G) (cn G) (mc U) (fun a i l => bsum K (cr2 G) (fun q => cget K G a i q * mget K U q l)).
Fixpoint trunc_sweep (Zs : list (core T)) (e : T) (rcap : Z) (is_eigh : bool) (k n : nat) : list (core T) :=
  match n with
  | O => Zs
  | S n' =>
      let G := nth k Zs dcore in
      let M := unfoldR K G in
      let '(U, V) := if is_eigh then matrix_svd k M e rcap
                     else matrix_skeleton k M e rcap false GiveL in
      let Zs1 := upd Zs k (foldR K (cn G) (cr2 G) V) in
      let Zs2 := upd Zs1 (k - 1) (core_mulR (nth (k - 1) Zs1 dcore) U) in
      trunc_sweep Zs2 e rcap is_eigh (k - 1) n'
  end.
Definition truncate (Y : list (core T)) (e : T) (rcap : Z) (orth use_stab is_eigh : bool)
  : result (list (core T)) :=
  let d := length Y in
  let start := if orth
    then match orthogonalize K qr rq ilog2 Y (Some (Z.of_nat d - 1)%Z) use_stab with
         | Err er => Err er
         | Ok (Zs, p) =>
             let nrm := osqrt K (cfrob2 (nth (d - 1) Zs dcore)) in
             Ok (Zs, p, e / osqrt K (oofZ K (Z.of_nat d - 1)) * nrm)
         end
    else Ok (Y, 0%Z, e) in
  match start with
  | Err er => Err er
  | Ok (Zs, p, e') =>
      let Zt := trunc_sweep Zs e' rcap is_eigh (d - 1) (d - 1) in
      if use_stab then
        let f := pow2frac p d in
        Ok (map (fun G => mkcore (cr1 G) (cn G) (cr2 G) (fun a i b => cget K G a i b * f)) Zt)
      else Ok Zt
  end.

(* ---- svd(Y_full, e, r): dense tensor as (shape, flat C-order list) ---- *)
(* Z.reshape(q*k, -1) in C order of a matrix stored row-major with `rows` rows: here the remainder is
   kept as a matrix of shape (q, rest) whose row-major data is reinterpreted as (q*k, rest/k) *)
Definition reshapeC (A : mat T) (m n : nat) : mat T :=
  mkmat m n (fun i j => let t := (i * n + j)%nat in mget K A (t / mc A) (t mod mc A)).
Fixpoint svd_loop (k0 : nat) (Zm : mat T) (q : nat) (ns : list nat) (e : T) (rcap : Z) : list (core T) :=
  match ns with
  | [] => []
  | [nl] => [mkcore q nl 1 (fun a i _ => mget K (reshapeC Zm q nl) a i)]
  | k :: ns' =>
      let total := (mr Zm * mc Zm)%nat in
      let A := reshapeC Zm (q * k) (total / (q * k)) in
      let '(G, Zr) := matrix_skeleton k0 A e rcap false GiveR in
      let q' := mc G in
      (* G.reshape(q, k, -1) in C order *)
      mkcore q k q' (fun a i c => mget K G (a * k + i) c) :: svd_loop (S k0) Zr q' ns' e rcap
  end.
Definition svd (ns : list nat) (data : list T) (e : T) (rcap : Z) : list (core T) :=
  let total := fold_right Nat.mul 1%nat ns in
  svd_loop O (mkmat 1 total (fun _ j => nth j data 0)) 1 ns e rcap.
End Svd.
