(* Model of teneva/cross.py (cross, _func, _func_eval, _iter), utils.py (_maxvol wrapper, _info_appr),
   data.py (accuracy_on_data: only its "no data -> -1" branch) as a small-step state machine.

   What is concrete: argument validation, the info record, the cache (ordered finite map = Python dict),
   the index sets Ir / Ic (lists of integer rows), the Kronecker assembly of every batch, both branches of
   _func_eval, the budget / None / counter logic, the wrapper _maxvol (n <= r -> arange), the index update
   I_new[ind], every core and factor SHAPE, the two pre-iteration passes, both half sweeps with their
   early-return branches (fold of the pending factor R), the post-sweep block and _info_appr.
   What is opaque: the numeric payload of arrays (type P) and the numeric kernel acting on it
   (tensordot, reshape of the value array, QR + maxvol/maxvol_rect pick, core and factor of _iter, erank,
   accuracy, accuracy_on_data on given data): Section variables.  Every theorem holds for every kernel. *)
From Coq Require Import List Arith Lia PeanoNat Bool.
From TV Require Import Num.Ops Lin.Tab.
Import ListNotations.

Definition row := list nat.
Definition rows := list row.

Fixpoint upd {A} (l : list A) (i : nat) (x : A) : list A :=
  match l, i with
  | [], _ => []
  | _ :: l', O => x :: l'
  | y :: l', S i' => y :: upd l' i' x
  end.

Fixpoint row_eqb (a b : row) : bool :=
  match a, b with
  | [], [] => true
  | x :: a', y :: b' => Nat.eqb x y && row_eqb a' b'
  | _, _ => false
  end.

Definition isnone {A} (o : option A) : bool := match o with None => true | Some _ => false end.

Inductive stop := Sm | Sfunc | Se | Sevld | Snswp | Scb | Sconv.
Definition stop_code (s : option stop) : nat :=
  match s with None => 0 | Some Sm => 1 | Some Sfunc => 2 | Some Se => 3 | Some Sevld => 4
             | Some Snswp => 5 | Some Scb => 6 | Some Sconv => 7 end.

(* program counter: main = false for the pre-iteration passes / true for the `while True` loop,
   direction (true = left to right), number of the core about to be processed *)
Inductive pcs := Run (main : bool) (ltr : bool) (i : nat) | Done.

(* number of rows of an index set; None (no index yet / boundary) counts as one empty row *)
Definition rk (o : option rows) : nat := match o with None => 1 | Some l => length l end.
Definition orow (o : option rows) (a : nat) : row := match o with None => [] | Some l => nth a l [] end.

(* _func: I = hstack(kron(ones(n r2), Ir), kron(kron(ones(r2), Ig), ones(r1)), kron(Ic, ones(r1 n))),
   Ig = arange(n) as a column; row t = Ir[t mod r1] ++ [(t / r1) mod n] ++ Ic[t / (r1 n)] *)
Definition batch (n : nat) (Ir Ic : option rows) : rows :=
  let r1 := rk Ir in let r2 := rk Ic in
  tab (r1 * n * r2) (fun t => orow Ir (t mod r1) ++ [(t / r1) mod n] ++ orow Ic (t / (r1 * n))).

(* _iter, candidate index rows before the selection [ind]:
   ltr: hstack(kron(ones(n), I), kron(Ig, ones(r1)))   row t = I[t mod |I|] ++ [t / r1]     (r1 n rows)
   rtl: hstack(kron(ones(r2), Ig), kron(I, ones(n)))   row t = [t mod n] ++ I[t / n]        (n r2 rows) *)
Definition inew (ltr : bool) (r1 n r2 : nat) (I : option rows) (t : nat) : row :=
  if ltr then orow I (t mod rk I) ++ [t / r1] else [t mod n] ++ orow I (t / n).

Section Cross.
Context {T : Type} (K : ops T) {P : Type}.

(* cores and factors: shape + opaque payload *)
Record mcore := mkc { c1 : nat; cnn : nat; c2 : nat; cp : P }.
Record fac := mkfac { f_r : nat; f_c : nat; f_p : P }.

Inductive outcome := Refused | Skipped | Called (r : option (list T)).
(* one invocation of _func_eval: requested rows, rows not in the cache, what happened *)
Record ev := mkev { ev_I : rows; ev_new : rows; ev_out : outcome }.

Definition cachet := list (row * T).
Fixpoint cmem (i : row) (c : cachet) : bool :=
  match c with [] => false | (j, _) :: c' => row_eqb i j || cmem i c' end.
Fixpoint cget0 (i : row) (c : cachet) : T :=
  match c with [] => o0 K | (j, v) :: c' => if row_eqb i j then v else cget0 i c' end.
(* cache[tuple(i)] = v : replace in place or append (Python dict order) *)
Fixpoint cset (i : row) (v : T) (c : cachet) : cachet :=
  match c with
  | [] => [(i, v)]
  | (j, w) :: c' => if row_eqb i j then (j, v) :: c' else (j, w) :: cset i v c'
  end.
Definition cset_all (iv : list (row * T)) (c : cachet) : cachet :=
  fold_left (fun c p => cset (fst p) (snd p) c) iv c.

(* counters touched by _func_eval *)
Record cnt := mkcnt { k_m : nat; k_mc : nat; k_stop : option stop; k_cache : option cachet;
                      k_nf : nat; k_log : list ev }.

Record cfg := mkcfg {
  c_Y0 : list mcore;
  c_m : option nat; c_e : option T; c_nswp : option nat; c_evld : option T;
  c_hasI : bool; c_hasy : bool;
  c_drmin : nat; c_drmax : nat; c_scale : nat;
  c_cache : option cachet }.

Record st := mkst {
  sY : list mcore; sYold : list mcore;
  sIr : list (option rows); sIc : list (option rows);
  sR : fac; sK : cnt;
  s_nswp : nat; s_e : T; s_evld : T; s_r : T;
  s_nmv : nat; s_ne : nat; s_pc : pcs }.

(* ------------------------------------------------------------------ oracles *)
Variable isinf : T -> bool.
Variable f : nat -> rows -> option (list T).        (* objective: call number, batch *)
Variable cb : option (nat -> bool).                 (* callback: sweep number -> truthiness of its answer (`if cb(...)`) *)
Variable pones : P.                                 (* np.ones((1, 1)) *)
Variable pdotL : P -> P -> P.                       (* np.tensordot(R, G, 1) *)
Variable pdotR : P -> P -> P.                       (* np.tensordot(G, R, 1) *)
Variable pvals : nat -> nat -> nat -> list T -> P.  (* _reshape(y, (r1, n, r2)) *)
(* QR of the unfolding followed by maxvol / maxvol_rect (the tall case of _maxvol):
   call number, ltr, shape of Z, payload of Z, dr_min, dr_max -> selected rows *)
Variable pick : nat -> bool -> nat -> nat -> nat -> P -> nat -> nat -> list nat.
Variable pcoreG : bool -> nat -> nat -> nat -> P -> list nat -> P.   (* core built from B *)
Variable pfacR : bool -> nat -> nat -> nat -> P -> list nat -> P.    (* Q[ind] @ R (transposed for rtl) *)
Variable erank : nat -> list mcore -> T.
Variable accuracy : nat -> list mcore -> list mcore -> T.
Variable accdata : nat -> list mcore -> T.

Variable C : cfg.

Definition m_max : option nat :=                     (* int(m) if m else None *)
  match c_m C with Some (S k) => Some (S k) | _ => None end.
Definition over (x : nat) : bool := match m_max with Some mm => mm <? x | None => false end.

Definition klog (c : cnt) (e : ev) (st : option stop) : cnt :=
  mkcnt (k_m c) (k_mc c) st (k_cache c) (k_nf c) (e :: k_log c).

(* _func_eval *)
Definition func_eval (c : cnt) (I : rows) : cnt * option (list T) :=
  match k_cache c with
  | None =>
      if over (k_m c + length I) then (klog c (mkev I I Refused) (Some Sm), None)
      else match f (k_nf c) I with
           | None => (mkcnt (k_m c) (k_mc c) (Some Sfunc) None (S (k_nf c))
                            (mkev I I (Called None) :: k_log c), None)
           | Some y => (mkcnt (k_m c + length I) (k_mc c) (k_stop c) None (S (k_nf c))
                              (mkev I I (Called (Some y)) :: k_log c), Some y)
           end
  | Some ch =>
      let Inew := filter (fun i => negb (cmem i ch)) I in
      match Inew with
      | [] => (mkcnt (k_m c) (k_mc c + length I) (k_stop c) (Some ch) (k_nf c)
                     (mkev I [] Skipped :: k_log c), Some (map (fun i => cget0 i ch) I))
      | _ :: _ =>
          if over (k_m c + length Inew) then (klog c (mkev I Inew Refused) (Some Sm), None)
          else match f (k_nf c) Inew with
               | None => (mkcnt (k_m c) (k_mc c) (Some Sfunc) (Some ch) (S (k_nf c))
                                (mkev I Inew (Called None) :: k_log c), None)
               | Some y =>
                   let ch' := cset_all (combine Inew y) ch in
                   (mkcnt (k_m c + length Inew) (k_mc c + (length I - length Inew)) (k_stop c)
                          (Some ch') (S (k_nf c)) (mkev I Inew (Called (Some y)) :: k_log c),
                    Some (map (fun i => cget0 i ch') I))
               end
      end
  end.

(* _func: the batch and the reshape *)
Definition func_m (c : cnt) (n : nat) (Ir Ic : option rows) : cnt * option mcore :=
  let r1 := rk Ir in let r2 := rk Ic in
  let (c', oy) := func_eval c (batch n Ir Ic) in
  (c', match oy with Some y => Some (mkc r1 n r2 (pvals r1 n r2 y)) | None => None end).

(* utils._maxvol on Q (N x rq): arange when N <= rq, else maxvol (dr_max = 0) / maxvol_rect *)
Definition maxvol_w (k : nat) (ltr : bool) (Z : mcore) (drmin drmax : nat) : list nat :=
  let N := if ltr then c1 Z * cnn Z else cnn Z * c2 Z in
  let rq := Nat.min N (if ltr then c2 Z else c1 Z) in
  if N <=? rq then seq 0 N else pick k ltr (c1 Z) (cnn Z) (c2 Z) (cp Z) drmin drmax.

(* _iter: new core, pending factor, new index set *)
Definition iter_m (k : nat) (ltr : bool) (Z : mcore) (I : option rows) (drmin drmax : nat)
  : mcore * fac * rows :=
  let r1 := c1 Z in let n := cnn Z in let r2 := c2 Z in
  let ind := maxvol_w k ltr Z drmin drmax in
  let L := length ind in
  let Inew := map (fun t => inew ltr r1 n r2 I t) ind in
  if ltr then (mkc r1 n L (pcoreG true r1 n r2 (cp Z) ind), mkfac L r2 (pfacR true r1 n r2 (cp Z) ind), Inew)
  else (mkc L n r2 (pcoreG false r1 n r2 (cp Z) ind), mkfac r1 L (pfacR false r1 n r2 (cp Z) ind), Inew).

Definition dflt : mcore := mkc 0 0 0 pones.
Definition dotL (R : fac) (G : mcore) : mcore := mkc (f_r R) (cnn G) (c2 G) (pdotL (f_p R) (cp G)).
Definition dotR (G : mcore) (R : fac) : mcore := mkc (c1 G) (cnn G) (f_c R) (pdotR (cp G) (f_p R)).
Definition ones : fac := mkfac 1 1 pones.

Definition tle (a b : T) : bool := oleb K a b.
Definition hit (v : T) (thr : option T) : bool :=
  match thr with Some t => tle (o0 K) v && tle v t && negb (isinf v) | None => false end.

(* utils._info_appr: priority e_vld > e > nswp, only when no reason is set yet *)
Definition info_appr (s : option stop) (nswp : nat) (e evld : T) : option stop :=
  match s with
  | Some x => Some x
  | None =>
      if hit evld (c_evld C) then Some Sevld
      else if hit e (c_e C) then Some Se
      else match c_nswp C with
           | Some t => if t <=? nswp then Some Snswp else None
           | None => None
           end
  end.

Definition minus1 : T := oopp K (o1 K).
(* data.accuracy_on_data: -1 when there is no validation set *)
Definition accdata_m (k : nat) (Y : list mcore) : T :=
  if c_hasI C && c_hasy C then accdata k Y else minus1.

Definition d : nat := length (c_Y0 C).
Definition shape_n (i : nat) : nat := cnn (nth i (c_Y0 C) dflt).

Definition set_stop (c : cnt) (s : option stop) : cnt :=
  mkcnt (k_m c) (k_mc c) s (k_cache c) (k_nf c) (k_log c).

(* the early-return branch of a half sweep: fold the pending factor, refresh info, _info_appr, return *)
Definition exit_st (s : st) (Y' : list mcore) (c' : cnt) : st :=
  let ne := S (s_ne s) in
  let r := erank ne Y' in let e := accuracy ne Y' (sYold s) in let ev := accdata_m ne Y' in
  mkst Y' (sYold s) (sIr s) (sIc s) (sR s)
       (set_stop c' (info_appr (k_stop c') (s_nswp s) e ev))
       (s_nswp s) e ev r (s_nmv s) ne Done.

(* after _iter of a left-to-right position i:  Y[i], R, Ir[i+1] = ...;  at i = d-1 the pass ends with
   Y[d-1] = tensordot(Y[d-1], R); R = ones and the right-to-left pass starts at d-1 *)
Definition adv_ltr (main : bool) (s : st) (i : nat) (c' : cnt) (Z : mcore) (drmin drmax : nat) : st :=
  let '(G', R', I') := iter_m (s_nmv s) true Z (nth i (sIr s) None) drmin drmax in
  let Y1 := upd (sY s) i G' in
  let Ir' := upd (sIr s) (S i) (Some I') in
  if S i <? d then
    mkst Y1 (sYold s) Ir' (sIc s) R' c' (s_nswp s) (s_e s) (s_evld s) (s_r s)
         (S (s_nmv s)) (s_ne s) (Run main true (S i))
  else
    mkst (upd Y1 i (dotR G' R')) (sYold s) Ir' (sIc s) ones c' (s_nswp s) (s_e s) (s_evld s)
         (s_r s) (S (s_nmv s)) (s_ne s) (Run main false i).

(* after _iter of a right-to-left position i:  Y[i], R, Ic[i] = ...;  at i = 0 the pass ends with
   Y[0] = tensordot(R, Y[0]) followed by
     pre-iteration: e_vld = accuracy_on_data; _info_appr (return value ignored); enter `while True`
     main loop:     nswp += 1; r, e, e_vld; conv rule; callback; _info_appr -> return or next turn
   (entering a turn of the loop: Yold = copy(Y); R = ones) *)
Definition adv_rtl (main : bool) (s : st) (i : nat) (c' : cnt) (Z : mcore) (drmin drmax : nat) : st :=
  let '(G', R', I') := iter_m (s_nmv s) false Z (nth (S i) (sIc s) None) drmin drmax in
  let Y1 := upd (sY s) i G' in
  let Ic' := upd (sIc s) i (Some I') in
  match i with
  | S i' =>
    mkst Y1 (sYold s) (sIr s) Ic' R' c' (s_nswp s) (s_e s) (s_evld s) (s_r s)
         (S (s_nmv s)) (s_ne s) (Run main false i')
  | O =>
    let Y2 := upd Y1 0 (dotL R' G') in
    if main then
      let nswp := S (s_nswp s) in
      let ne := S (s_ne s) in
      let r := erank ne Y2 in let e := accuracy ne Y2 (sYold s) in let ev := accdata_m ne Y2 in
      let s1 := if c_scale C * k_m c' <? k_mc c' then Some Sconv else k_stop c' in
      let s2 := match cb with
                | Some g => if g nswp then (match s1 with Some x => Some x | None => Some Scb end) else s1
                | None => s1 end in
      let s3 := info_appr s2 nswp e ev in
      match s3 with
      | Some _ => mkst Y2 (sYold s) (sIr s) Ic' R' (set_stop c' s3) nswp e ev r (S (s_nmv s)) ne Done
      | None => mkst Y2 Y2 (sIr s) Ic' ones (set_stop c' s3) nswp e ev r (S (s_nmv s)) ne (Run true true 0)
      end
    else
      let ev := accdata_m (s_ne s) Y2 in
      mkst Y2 Y2 (sIr s) Ic' ones (set_stop c' (info_appr (k_stop c') (s_nswp s) (s_e s) ev))
           (s_nswp s) (s_e s) ev (s_r s) (S (s_nmv s)) (s_ne s) (Run true true 0)
  end.

Definition step (s : st) : st :=
  match s_pc s with
  | Done => s
  | Run main ltr i =>
      let Yi := nth i (sY s) dflt in
      (* pre-iteration: Z = tensordot(R, Y[i]) / tensordot(Y[i], R), no stop test, dr_min = dr_max = 0;
         main loop: Z = _func(f, Ig[i], Ir[i], Ic[i+1], info, cache), `if info['stop']: ... return Y` *)
      let (c', oz) := if main then func_m (sK s) (shape_n i) (nth i (sIr s) None) (nth (S i) (sIc s) None)
                      else (sK s, Some (if ltr then dotL (sR s) Yi else dotR Yi (sR s))) in
      let drmin := if main then c_drmin C else 0 in
      let drmax := if main then c_drmax C else 0 in
      match (if main then k_stop c' else None), oz with
      | None, Some Z => if ltr then adv_ltr main s i c' Z drmin drmax else adv_rtl main s i c' Z drmin drmax
      | _, _ => exit_st s (upd (sY s) i (if ltr then dotL (sR s) Yi else dotR Yi (sR s))) c'
      end
  end.

(* argument validation at the head of cross *)
Definition args_ok : bool :=
  let vld := c_hasI C && c_hasy C in
  negb ((isnone (c_m C) && isnone (c_e C) && isnone (c_nswp C)) && (negb vld || isnone (c_evld C)))
  && negb (negb (isnone (c_evld C)) && negb vld).

Definition init : st :=
  let Y0 := c_Y0 C in
  mkst Y0 Y0 (repeat None (S d)) (repeat None (S d)) ones
       (mkcnt 0 0 None (c_cache C) 0 [])
       0 minus1 minus1 (erank 0 Y0) 0 0 (Run false true 0).

Fixpoint iterate {A} (g : A -> A) (k : nat) (x : A) : A :=
  match k with O => x | S k' => iterate g k' (g x) end.

(* the 2d steps of the two pre-iteration passes, then [fuel] sweeps of 2d steps each *)
Definition pre_done : st := iterate step (2 * d) init.
Definition sweep (s : st) : st := iterate step (2 * d) s.
Definition run (fuel : nat) : st := iterate sweep fuel pre_done.

Definition cross_m (fuel : nat) : result st :=
  if args_ok then
    let s := run fuel in
    match s_pc s with Done => Ok s | _ => Err OutOfFuel end
  else Err ValueError.

(* the batches handed to the objective, oldest first, with what it returned *)
Definition fcalls (c : cnt) : list (rows * option (list T)) :=
  flat_map (fun e => match ev_out e with Called r => [(ev_new e, r)] | _ => [] end) (rev (k_log c)).

End Cross.

Arguments mkc {P}. Arguments c1 {P}. Arguments cnn {P}. Arguments c2 {P}. Arguments cp {P}.
Arguments mkfac {P}. Arguments f_r {P}. Arguments f_c {P}. Arguments f_p {P}.
