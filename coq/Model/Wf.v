(* Model for property C11 (degenerate inputs give well-formed finite tensors).  Definitions only.
     1. teneva/vis.py:show          - the structural validation of a TT-tensor (what it raises / which n, r it prints)
     2. the guarded-primitives layer - a carrier transformer [OG K] over ANY number structure K: a value is a pair
        (x, poisoned); x / y poisons when y == 0, sqrt x poisons when x < 0, every arithmetic operation propagates
        the flag, every comparison with a poisoned operand is false (IEEE NaN semantics).  Because every model
        function is one polymorphic Gallina term over [ops T], the FROZEN models (Svd.matrix_svd, Svd.truncate,
        Stab.accuracy_of, ...) instantiated at [OG K] are the instrumented models: "is an inadmissible operand
        ever used, and does its result reach the output" is a first-class output (the flags).
     3. the pinned (pre-60d0cb4) variant of matrix_svd, kept to state the finding F3 as a machine-checked fact
     4. the well-formedness predicate on TT-tensors with prescribed mode sizes, and the SHAPE contracts of the
        LAPACK oracles (all the shape theorems need) *)
From Coq Require Import List Arith Lia PeanoNat ZArith Bool.
From TV Require Import Num.Ops Lin.Tab Lin.BigSum Lin.Mat TT.Chain Model.Transformation Model.Svd.
Import ListNotations.

(* ------------------------------------------------------------------------------------------------
   1. vis.show(Y):
        if not isinstance(Y, list) or len(Y) == 0: raise ValueError
        n = []; r = [1]
        for G in Y:
            if not isinstance(G, np.ndarray) or len(G.shape) != 3: raise ValueError   (a [core] is 3-dimensional by type)
            if G.shape[0] != r[-1]: raise ValueError
            n.append(G.shape[1]); r.append(G.shape[2])
        if r[-1] != 1: raise ValueError
        ... prints n and r[1:d] ...
   The model returns the lists (n, r) the function goes on to print. *)
Section Show.
Context {T : Type}.
Fixpoint show_scan (Y : list (core T)) (ns rs : list nat) : result (list nat * list nat) :=
  match Y with
  | [] => if negb (last rs 1 =? 1) then Err ValueError else Ok (ns, rs)
  | G :: Y' =>
      if negb (cr1 G =? last rs 1) then Err ValueError
      else show_scan Y' (ns ++ [cn G]) (rs ++ [cr2 G])
  end.
Definition show (Y : list (core T)) : result (list nat * list nat) :=
  match Y with [] => Err ValueError | _ => show_scan Y [] [1] end.

(* the property's notion of a well-formed TT-tensor: what vis.show accepts, plus consistent storage *)
Definition tt_wf (Y : list (core T)) : Prop := Y <> [] /\ chain 1 Y 1 /\ Forall wfdat Y.

(* index form used by the sweeps: Zs is well formed, has mode sizes ns, and every mode size and rank is >= 1
   (a "valid" tensor: mode size 1 and rank 1 are allowed, 0 is not) *)
Definition wfI (ns : list nat) (Zs : list (core T)) : Prop :=
  length Zs = length ns /\ 0 < length ns /\
  cr1 (nth 0 Zs dcore) = 1 /\ cr2 (nth (length ns - 1) Zs dcore) = 1 /\
  (forall i, S i < length ns -> cr2 (nth i Zs dcore) = cr1 (nth (S i) Zs dcore)) /\
  (forall i, i < length ns -> cn (nth i Zs dcore) = nth i ns 0 /\ wfdat (nth i Zs dcore) /\
                              1 <= nth i ns 0 /\ 1 <= cr2 (nth i Zs dcore)).
(* the same without indices *)
Definition valid (ns : list nat) (Y : list (core T)) : Prop :=
  tt_wf Y /\ shape Y = ns /\ Forall (fun n => 1 <= n) ns /\ Forall (fun G => 1 <= cr2 G) Y.

(* shape contracts of the LAPACK oracles: only the inner dimension matters
     np.linalg.qr(A, 'reduced') = (Q, R): R has as many rows as Q has columns, at least one for a non-empty A
     sp.linalg.rq(A, 'economic') = (R, Q): R has as many columns as Q has rows
     np.linalg.svd(A, full_matrices=False) = (U, s, Vt): at least one singular value for a non-empty A *)
Definition qr_shape (qr : nat -> mat T -> mat T * mat T) : Prop :=
  forall k A, 1 <= mr A -> 1 <= mc A -> mr (snd (qr k A)) = mc (fst (qr k A)) /\ 1 <= mc (fst (qr k A)).
Definition rq_shape (rq : nat -> mat T -> mat T * mat T) : Prop :=
  forall k A, 1 <= mr A -> 1 <= mc A -> mc (fst (rq k A)) = mr (snd (rq k A)) /\ 1 <= mr (snd (rq k A)).
Definition svd_shape (svdo : nat -> mat T -> mat T * list T * mat T) : Prop :=
  forall k A, 1 <= mr A -> 1 <= mc A -> 1 <= length (snd (fst (svdo k A))).
End Show.

(* ------------------------------------------------------------------------------------------------
   2. guarded primitives as a carrier transformer *)
Section Guard.
Context {T : Type} (K : ops T).
Definition gd : Type := (T * bool)%type.
Definition g1 (f : T -> T) (x : gd) : gd := (f (fst x), snd x).
Definition g2 (f : T -> T -> T) (x y : gd) : gd := (f (fst x) (fst y), snd x || snd y).
(* x / y : admissible iff y <> 0 *)
Definition gdiv (x y : gd) : gd := (odiv K (fst x) (fst y), snd x || snd y || oeqb K (fst y) (o0 K)).
(* sqrt x : admissible iff not x < 0 *)
Definition gsqrt (x : gd) : gd := (osqrt K (fst x), snd x || oltb K (fst x) (o0 K)).
(* comparisons: false as soon as one side is poisoned (NaN compares false) *)
Definition gcmp (f : T -> T -> bool) (x y : gd) : bool := if snd x || snd y then false else f (fst x) (fst y).
Definition OG : ops gd :=
  mkops gd (o0 K, false) (o1 K, false) (g2 (oadd K)) (g2 (omul K)) (g2 (osub K)) (g1 (oopp K))
        gdiv gsqrt (g1 (oabs K)) (gcmp (oleb K)) (gcmp (oltb K)) (gcmp (oeqb K))
        (fun z => (oofZ K z, false)) (fun e => (opow2 K e, false)).
Definition embed (x : T) : gd := (x, false).
Definition clean (x : gd) : Prop := snd x = false.
Definition mclean (A : mat gd) : Prop := forall i j, clean (mget OG A i j).
Definition cclean (G : core gd) : Prop := forall a i b, clean (cget OG G a i b).
(* forgetting / adding the flags on containers *)
Definition mat_map {A B} (f : A -> B) (M : mat A) : mat B := mk_mat (mr M) (mc M) (map (map f) (md M)).
Definition core_map {A B} (f : A -> B) (G : core A) : core B :=
  mk_core (cr1 G) (cn G) (cr2 G) (map (map (map f)) (dat G)).
(* an oracle of the plain carrier seen from the guarded carrier: it looks at the values, returns clean values *)
Definition lift_eigh (eigh : nat -> mat T -> list T * mat T) (k : nat) (C : mat gd) : list gd * mat gd :=
  let r := eigh k (mat_map fst C) in (map embed (fst r), mat_map embed (snd r)).
Definition lift_argsort (argsort : nat -> list T -> list nat) (k : nat) (w : list gd) : list nat :=
  argsort k (map fst w).
Definition lift_svd (svdo : nat -> mat T -> mat T * list T * mat T) (k : nat) (A : mat gd)
  : mat gd * list gd * mat gd :=
  let r := svdo k (mat_map fst A) in
  (mat_map embed (fst (fst r)), map embed (snd (fst r)), mat_map embed (snd r)).
End Guard.

(* ------------------------------------------------------------------------------------------------
   3. matrix_svd as it was before commit 60d0cb4:  V = ((1. / w)[:, None] * U.T) @ A  *)
Section Pinned.
Context {T : Type} (K : ops T).
Notation "0" := (o0 K). Notation "1" := (o1 K).
Infix "*" := (omul K). Infix "/" := (odiv K).
Variable eigh : nat -> mat T -> list T * mat T.
Variable argsort : nat -> list T -> list nat.
Definition matrix_svd_pinned (k : nat) (A : mat T) (e : T) (rcap : Z) : mat T * mat T :=
  let m := mr A in let n := mc A in
  let wide := m <=? n in
  let C := if wide then mmul K A (mtrans K A) else mmul K (mtrans K A) A in
  let '(w0, U0) := eigh k C in
  let w1 := map (fun x => osqrt K (if oltb K x 0 then 0 else x)) w0 in
  let idx := rev (argsort k w1) in
  let w := map (fun i => nth i w1 0) idx in
  let U := mcols K U0 idx in
  let s := map (fun x => x * x) w in
  let q := rank_select K s (e * e) rcap in
  let wq := firstn q w in
  let Uq := mtakec K U q in
  if wide then
    let winv := map (fun x => 1 / x) wq in
    let Ut := mtrans K Uq in
    let V := mmul K (mkmat q m (fun i j => nth i winv 0 * mget K Ut i j)) A in
    (mkmat m q (fun i j => mget K Uq i j * nth j wq 0), V)
  else
    (mmul K A Uq, mtrans K Uq).

(* accuracy's last line WITHOUT the sentinel test, to state what the sentinel protects from *)
Definition accuracy_unguarded (c z1 z2 : T) : T := c * z1 / z2.
End Pinned.

(* ------------------------------------------------------------------------------------------------
   5. svd.py:svd_matrix(Y_full, e, r) for a 2^q x 2^q matrix (not defined in the frozen Model/Svd.v):
        Z = Y_full.reshape([2]*(2q), 'F').transpose(0, q, 1, q+1, ...).reshape([4]*q, 'F');  return svd(Z, e, r)
      mode k of Z has index m_k = i_k + 2 j_k (i_k, j_k = k-th bits of the row / column number); svd reads Z in C order,
      i.e. m_0 is the most significant base-4 digit of the flat position t. *)
Section SvdMatrix.
Context {T : Type} (K : ops T).
Fixpoint qrc (q t : nat) : nat * nat :=
  match q with
  | O => (O, O)
  | S q' => let m := (t / 4 ^ q') in let rc := qrc q' (t mod 4 ^ q') in
            (m mod 2 + 2 * fst rc, m / 2 + 2 * snd rc)
  end.
Definition svd_matrix_data (q : nat) (A : mat T) : list T :=
  tab (4 ^ q) (fun t => mget K A (fst (qrc q t)) (snd (qrc q t))).
Variable svdo : nat -> mat T -> mat T * list T * mat T.
Definition svd_matrix (q : nat) (A : mat T) (e : T) (rcap : Z) : list (core T) :=
  svd K svdo (repeat 4 q) (svd_matrix_data q A) e rcap.
End SvdMatrix.
