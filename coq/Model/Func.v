(* Model of teneva/func.py: func_basis, func_get, func_gets, func_int, func_int_general, func_sum,
   func_diff_matrix (C12).  Definitions only.

   Number type T with operations K.  Everything NumPy/SciPy computes with trigonometric functions
   enters through ORACLES (Section variables):
     cs N m   stands for  cos(pi*m/N)      (Chebyshev nodes  cs (n-1) j ; DCT-I / FFT kernels  cs (n-1) (j*k))
     sn N m   stands for  sin(pi*m/N)      (DST-I kernel, func_gets(kind='sin'))
     ss N i j stands for  2*sin((th_i+th_j)/2)*sin((th_i-th_j)/2), th_k = k*pi/N   (func_diff_matrix)
     tol      the literal 1.E-99 of func_get
     lstsq    scipy.linalg.lstsq(..)[0], indexed by call number
   At R they are the real functions (Proofs/FuncTrigP.v), at Qc the exact rational tables below (N <= 3),
   at floats the values NumPy computed (recorded by the harness).
   scipy.fftpack.dct(type 1) / dst(type 1) are modelled by their defining sums (SciPy documentation). *)
From Coq Require Import List Arith Lia PeanoNat ZArith Bool.
From TV Require Import Num.Ops Lin.Tab Lin.BigSum Lin.Mat TT.Chain.
Import ListNotations.

Inductive fkind := Cheb | Sin.

Section Func.
Context {T : Type} (K : ops T).
Variable cs : nat -> nat -> T.
Variable sn : nat -> nat -> T.
Variable ss : nat -> nat -> nat -> T.
Variable tol : T.
Variable lstsq : nat -> mat T -> mat T -> mat T.
Notation "0" := (o0 K). Notation "1" := (o1 K).
Infix "+" := (oadd K). Infix "*" := (omul K). Infix "-" := (osub K). Infix "/" := (odiv K).
Notation "- x" := (oopp K x) (at level 35, right associativity).
Notation "x <? y" := (oltb K x y).

Definition ftwo : T := 1 + 1.
Definition fnat (n : nat) : T := oofZ K (Z.of_nat n).
Definition fm1 : T := oopp K 1.

(* ------------------------------------------------------------------ func_basis (one point)
     T = ones((m,) + X.shape);  if m < 2: return T
     T[1] = X
     for k in range(2, m): T[k] = 2. * X * T[k-1] - T[k-2]                                   *)
Fixpoint cheb_aux (x : T) (m : nat) (t0 t1 : T) : list T :=
  match m with O => [] | S m' => t0 :: cheb_aux x m' t1 (ftwo * x * t1 - t0) end.
Definition func_basis1 (x : T) (m : nat) : list T := cheb_aux x m 1 x.
(* the k-th Chebyshev polynomial as the code computes it *)
Definition chebT (x : T) (k : nat) : T := nth k (func_basis1 x (S k)) 0.

(* ------------------------------------------------------------------ grid.poi_scale(kind='cheb'), one coordinate
     Xsc = (X - (b + a) / 2) * (2 / (b - a));  Xsc[Xsc < -1.] = -1.;  Xsc[Xsc > +1.] = +1.     *)
Definition poi_scale_cheb (x a b : T) : T :=
  let s := (x - (b + a) / ftwo) * (ftwo / (b - a)) in
  let s1 := if s <? fm1 then fm1 else s in
  if 1 <? s1 then 1 else s1.
(* grid.ind_to_poi(kind='cheb'), one coordinate:  X = np.cos(np.pi * I / (n - 1)) * (b - a) / 2 + (b + a) / 2 *)
Definition ind_to_poi_cheb (i : nat) (a b : T) (n : nat) : T :=
  cs (n - 1) i * (b - a) / ftwo + (b + a) / ftwo.

(* ------------------------------------------------------------------ func_get
     if skip_out: if np.max(a - X[i, :]) > 1.E-99 or np.max(X[i, :] - b) > 1.E-99: continue     (y[i] stays z)
   max(..) > tol  <=>  some component > tol                                                      *)
Definition out_box (x a b : list T) : bool :=
  existsb (fun p => tol <? fst p - snd p) (combine a x) || existsb (fun p => tol <? fst p - snd p) (combine x b).

(*  Q = np.einsum('rjq,j->rq', A[0], T[0][i]);  for j in 1..d-1: Q = Q @ np.einsum('rjq,j->rq', A[j], T[j][i]) *)
Definition vstepb (v : list T) (G : core T) (t : list T) : list T :=
  tab (cr2 G) (fun q => bsum K (cr1 G) (fun r => nth r v 0 *
       bsum K (cn G) (fun j => cget K G r j q * nth j t 0))).
Fixpoint runb (v : list T) (A : list (core T)) (ts : list (list T)) : list T :=
  match A, ts with
  | G :: A', t :: ts' => runb (vstepb v G t) A' ts'
  | _, _ => v
  end.
Definition contract_basis (A : list (core T)) (ts : list (list T)) : T := nth O (runb [1] A ts) 0.

(*  funcs[k] = lambda x: func_basis(poi_scale(x, a_k, b_k, 'cheb'), n_k);   T[k][i] = funcs[k](X[:, k]).T[i, :n_k] *)
Fixpoint basis_rows (x : list T) (A : list (core T)) (a b : list T) : list (list T) :=
  match x, A, a, b with
  | xk :: x', G :: A', ak :: a', bk :: b' =>
      func_basis1 (poi_scale_cheb xk ak bk) (cn G) :: basis_rows x' A' a' b'
  | _, _, _, _ => []
  end.
(* one sample; ts = values of the basis functions at the sample, one row per dimension *)
Definition func_get1_rows (x : list T) (A : list (core T)) (a b : list T) (z : T) (skip_out : bool)
    (ts : list (list T)) : T :=
  if skip_out && out_box x a b then z else contract_basis A ts.
Definition func_get1 (x : list T) (A : list (core T)) (a b : list T) (z : T) (skip_out : bool) : T :=
  func_get1_rows x A a b z skip_out (basis_rows x A a b).
Definition func_get (X : list (list T)) (A : list (core T)) (a b : list T) (z : T) (skip_out : bool) : list T :=
  map (fun x => func_get1 x A a b z skip_out) X.
(* resolution of the optional arguments of func_get (a=None, b=None, skip_out=None in the signature):
     if a is None: a = -1;  if skip_out is None: skip_out = False
     if b is None: b = 1;   if skip_out is None: skip_out = False
     if skip_out is None: skip_out = True
   i.e. an explicit flag is always honoured; without a flag, points are skipped iff both bounds were given *)
Definition get_skip {B} (a b : option B) (skip : option bool) : bool :=
  match skip with
  | Some s => s
  | None => match a, b with Some _, Some _ => true | _, _ => false end
  end.
Definition func_get_opt (X : list (list T)) (A : list (core T)) (a b : option (list T)) (z : T)
    (skip : option bool) : list T :=
  func_get X A (match a with Some l => l | None => repeat fm1 (length A) end)
               (match b with Some l => l | None => repeat 1 (length A) end) z (get_skip a b skip).
(* custom basis: funcs[k](x).T[:, :n_k]; the rows are the values the user's functions returned *)
Definition func_get_custom (X : list (list T * list (list T))) (A : list (core T)) (a b : list T) (z : T)
    (skip_out : bool) : list T :=
  map (fun xt => func_get1_rows (fst xt) A a b z skip_out
                   (map (fun Gt => firstn (cn (fst Gt)) (snd Gt)) (combine A (snd xt)))) X.

(* ------------------------------------------------------------------ func_gets
     cheb:  X = ind_to_poi(arange(m_k), -1., +1., m_k, 'cheb');  Tm = func_basis(X, n_k)
     sin:   X = linspace(0, pi, m_k + 2)[1:-1];  Tm = sin(outer(X, arange(1, n_k + 1))).T
     Z_k = einsum('riq,ij->rjq', A_k, Tm)                                                      *)
Definition gets_table (kind : fkind) (n m : nat) : list (list T) :=
  match kind with
  | Cheb => tab m (fun j => func_basis1 (ind_to_poi_cheb j fm1 1 m) n)
  | Sin => tab m (fun j => tab n (fun i => sn (m + 1) ((j + 1) * (i + 1))))
  end.
Definition gets_core (kind : fkind) (G : core T) (m : nat) : core T :=
  let Tm := gets_table kind (cn G) m in
  mkcore (cr1 G) m (cr2 G) (fun r j q => bsum K (cn G) (fun i => cget K G r i q * nth i (nth j Tm []) 0)).
Fixpoint func_gets (A : list (core T)) (ms : list nat) (kind : fkind) : list (core T) :=
  match A, ms with
  | G :: A', m :: ms' => gets_core kind G m :: func_gets A' ms' kind
  | _, _ => []
  end.
(* m=None: the original grid sizes *)
Definition func_gets_opt (A : list (core T)) (ms : option (list nat)) (kind : fkind) : list (core T) :=
  func_gets A (match ms with Some l => l | None => shape A end) kind.

(* ------------------------------------------------------------------ func_int
     cheb: A_k = dct(y, 1, axis=1) / (n - 1);  A_k[:, 0, :] /= 2.;  A_k[:, -1, :] /= 2.
     sin:  A_k = dst(y, 1, axis=1) / (n + 1)
   DCT-I:  y_k = x_0 + (-1)^k x_{n-1} + 2 sum_{j=1}^{n-2} x_j cos(pi j k / (n-1))
   DST-I:  y_k = 2 sum_{j=0}^{n-1} x_j sin(pi (k+1) (j+1) / (n+1))                             *)
Definition pm (k : nat) : T := if Nat.even k then 1 else fm1.
Definition dct1 (n : nat) (x : nat -> T) (k : nat) : T :=
  x O + pm k * x (n - 1)%nat + ftwo * bsum K (n - 2) (fun j => x (S j) * cs (n - 1) (S j * k)).
Definition dst1 (n : nat) (x : nat -> T) (k : nat) : T :=
  ftwo * bsum K n (fun j => x j * sn (n + 1) ((k + 1) * (j + 1))).
(* v[0] /= 2 ; v[-1] /= 2  (index -1 is n-1) *)
Definition halve_ends (n k : nat) (v : T) : T :=
  let v1 := if Nat.eqb k O then v / ftwo else v in
  if Nat.eqb k (n - 1) then v1 / ftwo else v1.
Definition int_core (kind : fkind) (G : core T) : core T :=
  let n := cn G in
  match kind with
  | Cheb => mkcore (cr1 G) n (cr2 G) (fun r k q =>
              halve_ends n k (dct1 n (fun j => cget K G r j q) k / fnat (n - 1)))
  | Sin => mkcore (cr1 G) n (cr2 G) (fun r k q => dst1 n (fun j => cget K G r j q) k / fnat (n + 1))
  end.
(* scipy's DCT-I raises (RuntimeError) for a length-1 axis *)
Definition func_int (Y : list (core T)) (kind : fkind) : result (list (core T)) :=
  match kind with
  | Cheb => if forallb (fun G => 2 <=? cn G)%nat Y then Ok (map (int_core Cheb) Y) else Err OtherError
  | Sin => Ok (map (int_core Sin) Y)
  end.

(* ------------------------------------------------------------------ func_int_general
     r1, n, r2 = G.shape;  M = np.transpose(G, [1, 0, 2]).reshape(n, -1)
     Q = sp.linalg.lstsq(H_mat, M, cond=rcond)[0];  Q = np.transpose(Q.reshape(-1, r1, r2), [1, 0, 2])
   H_mat = basis_func(X_k).T  (points x functions) is an input of the model                     *)
Definition general_core (call : nat) (H : mat T) (G : core T) : core T :=
  let r1 := cr1 G in let r2 := cr2 G in
  let M := mkmat (cn G) (r1 * r2) (fun i c => cget K G (c / r2) i (c mod r2)) in
  let Q := lstsq call H M in
  mkcore r1 (mr Q) r2 (fun a j b => mget K Q j (a * r2 + b)).
Fixpoint func_int_general_from (call : nat) (Y : list (core T)) (Hs : list (mat T)) : list (core T) :=
  match Y, Hs with
  | G :: Y', H :: Hs' => general_core call H G :: func_int_general_from (S call) Y' Hs'
  | _, _ => []
  end.
Definition func_int_general (Y : list (core T)) (Hs : list (mat T)) : list (core T) :=
  func_int_general_from O Y Hs.

(* ------------------------------------------------------------------ func_sum
     cheb: p = 2. / (1 - np.arange(0, n_max, 2)**2);   sin: p = 2. / np.arange(1, n_max + 1, 2)
     v = [[1.]];  for each core: v = v @ (p[:(n_k + 1)//2] @ y[:, ::2]);  v *= (b_k - a_k) / 2.   *)
Definition sum_p (kind : fkind) (t : nat) : T :=
  match kind with
  | Cheb => ftwo / oofZ K (1 - Z.of_nat (2 * t) * Z.of_nat (2 * t))%Z
  | Sin => ftwo / fnat (2 * t + 1)
  end.
Definition sum_step (kind : fkind) (v : list T) (G : core T) (ak bk : T) : list T :=
  tab (cr2 G) (fun q => bsum K (cr1 G) (fun r => nth r v 0 *
       bsum K ((cn G + 1) / 2) (fun t => sum_p kind t * cget K G r (2 * t) q)) * ((bk - ak) / ftwo)).
Fixpoint sum_run (kind : fkind) (v : list T) (A : list (core T)) (a b : list T) : list T :=
  match A, a, b with
  | G :: A', ak :: a', bk :: b' => sum_run kind (sum_step kind v G ak bk) A' a' b'
  | _, _, _ => v
  end.
Definition func_sum (A : list (core T)) (a b : list T) (kind : fkind) : T := nth O (sum_run kind [1] A a b) 0.

(* ------------------------------------------------------------------ func_diff_matrix(kind='cheb'), N = n-1
     th = k*pi/(n-1);  T = tile(th/2, (n,1));  DX = 2 sin(T.T + T) sin(T.T - T)
     DX[n1:, :] = -flipud(fliplr(DX[0:n2, :]));  DX[diag] = 1;  DX = DX.T
     Z = 1/DX;  Z[diag] = 0
     C = toeplitz((-1)**k);  C[0,:] *= 2;  C[-1,:] *= 2;  C[:,0] *= .5;  C[:,-1] *= .5
     D = eye(n);  for i in range(m):
        D = (i+1) * Z * (C * tile(diag(D), (n,1)).T - D);  D[diag] = -sum(D, axis=1);  D_list.append(D * (2/(b-a))**(i+1)) *)
Definition diff_DX (n : nat) : mat T :=
  let n1 := (n / 2)%nat in
  let DX0 := fun i j => ss (n - 1) i j in
  let DX1 := fun i j => if (i <? n1)%nat then DX0 i j else - DX0 (n - 1 - i)%nat (n - 1 - j)%nat in
  let DX2 := fun i j => if Nat.eqb i j then 1 else DX1 i j in
  mkmat n n (fun i j => DX2 j i).
Definition diff_Z (n : nat) : mat T :=
  let DX := diff_DX n in mkmat n n (fun i j => if Nat.eqb i j then 0 else 1 / mget K DX i j).
Definition diff_C (n : nat) : mat T :=
  let c0 := fun i j => pm (if (i <=? j)%nat then j - i else i - j)%nat in
  let c1 := fun i j => if Nat.eqb i O then c0 i j * ftwo else c0 i j in
  let c2 := fun i j => if Nat.eqb i (n - 1) then c1 i j * ftwo else c1 i j in
  let c3 := fun i j => if Nat.eqb j O then c2 i j * (1 / ftwo) else c2 i j in
  let c4 := fun i j => if Nat.eqb j (n - 1) then c3 i j * (1 / ftwo) else c3 i j in
  mkmat n n c4.
Fixpoint fpow (x : T) (e : nat) : T := match e with O => 1 | S e' => x * fpow x e' end.
Definition diff_next (n : nat) (Zm C D : mat T) (i : nat) : mat T :=
  let D1 := mkmat n n (fun r c => fnat (i + 1) * mget K Zm r c * (mget K C r c * mget K D r r - mget K D r c)) in
  mkmat n n (fun r c => if Nat.eqb r c then - bsum K n (fun c' => mget K D1 r c') else mget K D1 r c).
Fixpoint diff_loop (n : nat) (Zm C D : mat T) (l : T) (i m : nat) : list (mat T) :=
  match m with
  | O => []
  | S m' => let D' := diff_next n Zm C D i in
            mkmat n n (fun r c => mget K D' r c * fpow l (i + 1)) :: diff_loop n Zm C D' l (S i) m'
  end.
(* the list D_list (the code returns D_list[0] when m = 1) *)
Definition func_diff_matrix (a b : T) (n m : nat) : list (mat T) :=
  diff_loop n (diff_Z n) (diff_C n) (mid K n) (ftwo / (b - a)) O m.
End Func.

From Coq Require Import QArith Qcanon.
(* ------------------------------------------------------------------ exact oracles over Qc (N = 1, 2, 3):
   cos(pi m / N) is rational exactly for these N. *)
Definition cs_Qc (N m : nat) : Qc :=
  match N with
  | 1%nat => if Nat.even m then Q2Qc 1 else Q2Qc (-1)
  | 2%nat => match (m mod 4)%nat with 0%nat => Q2Qc 1 | 2%nat => Q2Qc (-1) | _ => Q2Qc 0 end
  | 3%nat => match (m mod 6)%nat with
             | 0%nat => Q2Qc 1 | 1%nat => Q2Qc (1 # 2) | 2%nat => Q2Qc (-1 # 2) | 3%nat => Q2Qc (-1)
             | 4%nat => Q2Qc (-1 # 2) | _ => Q2Qc (1 # 2) end
  | _ => Q2Qc 0
  end.
(* 2 sin((th_i+th_j)/2) sin((th_i-th_j)/2) = cos th_j - cos th_i *)
Definition ss_Qc (N i j : nat) : Qc := (cs_Qc N j - cs_Qc N i)%Qc.
