(* Numeric layer of TT-cross: the payload operations that Model/Cross.v leaves abstract (type P and the Section
   variables pones pdotL pdotR pvals pick pcoreG pfacR), instantiated with concrete array operations over [ops T],
   mirroring cross.py:_iter / _func and utils._maxvol statement by statement.

   Payload P := core T (TT/Chain.v: nested lists dat[a][i][b], access cget, comprehension mkcore).  A 2-D factor
   R (r x c) is stored as the core (r, 1, c).
   External routines (Section variables, deterministic functions of their input):
     qr  : Z -> (Q, R)                     np.linalg.qr, reduced mode
     mvI : Q -> dr_min -> dr_max -> ind    row numbers returned by maxvol / maxvol_rect (tall case of utils._maxvol)
     mvB : Q -> ind -> B                   the coefficient matrix returned together with ind
   Their contracts (Z = Q R; B Q[ind] = Q, rows in range) are hypotheses of the theorems in Proofs/Cross05PNum.v. *)
From Coq Require Import List Arith Lia PeanoNat Bool.
From TV Require Import Num.Ops Lin.Tab Lin.BigSum Lin.Mat TT.Chain Model.Cross.
Import ListNotations.

Section CrossNum.
Context {T : Type} (K : ops T).
Notation "0" := (o0 K). Notation "1" := (o1 K).
Infix "+" := (oadd K). Infix "*" := (omul K).

Variable qr : mat T -> mat T * mat T.
Variable mvI : mat T -> nat -> nat -> list nat.
Variable mvB : mat T -> list nat -> mat T.

(* np.ones((1, 1)) *)
Definition ponesN : core T := mkcore 1 1 1 (fun _ _ _ => 1).
(* np.tensordot(R, G, 1): R (a x b), G (b, n, c) *)
Definition pdotLN (R G : core T) : core T :=
  mkcore (cr1 R) (cn G) (cr2 G) (fun a j c => bsum K (cr2 R) (fun b => cget K R a O b * cget K G b j c)).
(* np.tensordot(G, R, 1): G (a, n, b), R (b x c) *)
Definition pdotRN (G R : core T) : core T :=
  mkcore (cr1 G) (cn G) (cr2 R) (fun a j c => bsum K (cr2 G) (fun b => cget K G a j b * cget K R b O c)).
(* teneva._reshape(y, (r1, n, r2)) : Fortran order *)
Definition pvalsN (r1 n r2 : nat) (y : list T) : core T :=
  mkcore r1 n r2 (fun a j c => nth (a + r1 * (j + n * c))%nat y 0).

(* _iter: Z = _reshape(Z, (r1 n, r2))  /  _reshape(Z, (r1, n r2)).T *)
Definition unfoldZ (ltr : bool) (r1 n r2 : nat) (p : core T) : mat T :=
  if ltr then mkmat (r1 * n) r2 (fun t c => cget K p (t mod r1) (t / r1) c)
  else mkmat (n * r2) r1 (fun t a => cget K p a (t mod n) (t / n)).

(* Q, R = np.linalg.qr(Z); ind, B = teneva._maxvol(Q, tau, dr_min, dr_max, tau0, k0): the row numbers (tall case;
   Model/Cross.v [maxvol_w] returns arange(N) itself when N <= r) *)
Definition pickN (k : nat) (ltr : bool) (r1 n r2 : nat) (p : core T) (dmin dmax : nat) : list nat :=
  mvI (fst (qr (unfoldZ ltr r1 n r2 p))) dmin dmax.
(* ... and the matrix B: np.eye(N) when N <= r, else what maxvol / maxvol_rect return with ind *)
Definition Bof (ltr : bool) (r1 n r2 : nat) (p : core T) (ind : list nat) : mat T :=
  let N := (if ltr then r1 * n else n * r2)%nat in
  let rq := Nat.min N (if ltr then r2 else r1) in
  if N <=? rq then mid K N else mvB (fst (qr (unfoldZ ltr r1 n r2 p))) ind.
(* ltr: G = _reshape(B, (r1, n, -1));  rtl: G = _reshape(B.T, (-1, n, r2)) *)
Definition pcoreGN (ltr : bool) (r1 n r2 : nat) (p : core T) (ind : list nat) : core T :=
  let B := Bof ltr r1 n r2 p ind in
  let L := length ind in
  if ltr then mkcore r1 n L (fun a j c => mget K B (a + r1 * j)%nat c)
  else mkcore L n r2 (fun s j c => mget K B (j + n * c)%nat s).
(* ltr: R = Q[ind, :] @ R;  rtl: R = (Q[ind, :] @ R).T *)
Definition pfacRN (ltr : bool) (r1 n r2 : nat) (p : core T) (ind : list nat) : core T :=
  let QR := qr (unfoldZ ltr r1 n r2 p) in
  let M := mmul K (mrows K (fst QR) ind) (snd QR) in
  let L := length ind in
  if ltr then mkcore L 1 r2 (fun a _ c => mget K M a c)
  else mkcore r1 1 L (fun a _ s => mget K M s a).

(* the driver of Model/Cross.v with this kernel *)
Definition cross_num (isinf : T -> bool) (f : nat -> rows -> option (list T)) (cb : option (nat -> bool))
    (erank : nat -> list (@mcore (core T)) -> T)
    (accuracy : nat -> list (@mcore (core T)) -> list (@mcore (core T)) -> T)
    (accdata : nat -> list (@mcore (core T)) -> T) (C : @cfg T (core T)) (fuel : nat) : result (@st T (core T)) :=
  cross_m K isinf f cb ponesN pdotLN pdotRN pvalsN pickN pcoreGN pfacRN erank accuracy accdata C fuel.

(* value of a list of cores at a multi-index: left interface vector, core after core *)
Fixpoint lvec (Y : list (@mcore (core T))) (q : row) (v : nat -> T) : nat -> T :=
  match Y, q with
  | G :: Y', j :: q' => lvec Y' q' (fun c => bsum K (c1 G) (fun a => v a * cget K (cp G) a j c))
  | _, _ => v
  end.
Definition ttval (Y : list (@mcore (core T))) (q : row) : T :=
  lvec Y q (fun a => if Nat.eqb O a then 1 else 0) O.
End CrossNum.
