(* Model of teneva/optima.py: optima_tt_beam, optima_tt_max, optima_tt, optima_qtt (C15).
   Executable definitions only; lemmas are in Proofs/OptimaP.v.

   External routines are Section variables (oracles), indexed by call number where the code calls
   them several times:
     argsort  c l      np.argsort(norms)                        (c-th call)
     orth     c Y piv  teneva.orthogonalize(Y, piv, use_stab=True) -> (Z, p)   (c-th call)
     pow2frac p d      2**(p / d)
     droot    x d      x**(1./d)            (inside teneva.const)
     to_qtt   Y        teneva.tt_to_qtt(Y, e, r)                (C17) *)
From Coq Require Import List Arith Lia PeanoNat ZArith Bool.
From TV Require Import Num.Ops Lin.Tab Lin.BigSum Lin.Mat TT.Chain Model.ActOne Model.GridInd.
Import ListNotations.

(* ---------- integer index tables (2-D numpy int arrays, stored by rows) ---------- *)
Definition imat := list (list nat).
Definition irows (A : imat) : nat := length A.
Definition icols (A : imat) : nat := length (hd [] A).
Definition iget (A : imat) (a c : nat) : nat := nth c (nth a A []) O.
(* teneva._ones(k): k x 1 of ones;  teneva._range(n): n x 1 column 0..n-1 *)
Definition iones (k : nat) : imat := tab k (fun _ => [1%nat]).
Definition irange (n : nat) : imat := tab n (fun i => [i]).
(* np.kron(A, B)[a*rb + b, c*cb + e] = A[a, c] * B[b, e] *)
Definition ikron (A B : imat) : imat :=
  tab (irows A * irows B) (fun t => tab (icols A * icols B) (fun c =>
    (iget A (t / irows B) (c / icols B) * iget B (t mod irows B) (c mod icols B))%nat)).
(* np.hstack((A, B)) *)
Definition ihstack (A B : imat) : imat := tab (irows A) (fun t => nth t A [] ++ nth t B []).
(* A[ind, :] *)
Definition itake (A : imat) (ind : list nat) : imat := map (fun t => nth t A []) ind.
(* l[:-(k+1):-1] : the last k entries, last first (everything, reversed, when k >= len l) *)
Definition last_k_rev {A} (k : nat) (l : list A) : list A := firstn k (rev l).

Section Optima.
Context {T : Type} (K : ops T).
Notation "0" := (o0 K). Notation "1" := (o1 K).
Infix "+" := (oadd K). Infix "*" := (omul K). Infix "-" := (osub K).

Variable argsort : nat -> list T -> list nat.
Variable orth : nat -> list (core T) -> nat -> list (core T) * Z.
Variable pow2frac : Z -> nat -> T.
Variable droot : T -> nat -> T.
Variable to_qtt : list (core T) -> list (core T).

Definition core0 : core T := mk_core O O O [].
Definition sq (x : T) : T := x * x.
(* np.max(np.abs(Q)) *)
Definition amax (l : list T) : T :=
  fold_left (fun m x => if oleb K m x then x else m) (map (oabs K) l) 0.
Definition mflat (Q : mat T) : list T := concat (md Q).

(* ---------- optima_tt_beam ---------- *)
(* I = _range(n);  Q = G.reshape(n, r2) if l2r else G.reshape(r1, n);  Q *= 2**p0 *)
Definition beam_init (cs : nat) (l2r : bool) (G : core T) (s : T) : nat * imat * mat T :=
  (cs, irange (cn G),
   if l2r then mkmat (cn G) (cr2 G) (fun i b => cget K G O i b * s)
   else mkmat (cr1 G) (cn G) (fun a i => cget K G a i O * s)).
(* Q = einsum('kr,riq->kiq', Q, G).reshape(-1, r2)   |   einsum('qir,rk->qik', G, Q).reshape(r1, -1) *)
Definition beam_ext (l2r : bool) (Q : mat T) (G : core T) : mat T :=
  if l2r then
    mkmat (mr Q * cn G) (cr2 G) (fun t b =>
      bsum K (cr1 G) (fun r => mget K Q (t / cn G) r * cget K G r (t mod cn G) b))
  else
    mkmat (cr1 G) (cn G * mc Q) (fun a c =>
      bsum K (cr2 G) (fun r => cget K G a (c / mc Q) r * mget K Q r (c mod mc Q))).
(* I_l, I_r by np.kron; I = np.hstack((I_l, I_r)) *)
Definition beam_tab (l2r : bool) (Ix : imat) (n : nat) : imat :=
  if l2r then ihstack (ikron Ix (iones n)) (ikron (iones (irows Ix)) (irange n))
  else ihstack (ikron (irange n) (iones (irows Ix))) (ikron (iones n) Ix).
(* q_max = np.max(np.abs(Q));  norms = np.sum((Q/q_max)**2, axis=1 if l2r else 0) *)
Definition beam_norms (l2r : bool) (Q : mat T) : list T :=
  let q_max := amax (mflat Q) in
  if l2r then tab (mr Q) (fun t => bsum K (mc Q) (fun b => sq (odiv K (mget K Q t b) q_max)))
  else tab (mc Q) (fun c => bsum K (mr Q) (fun a => sq (odiv K (mget K Q a c) q_max))).
(* Q = Q[ind, :] if l2r else Q[:, ind] *)
Definition beam_select (l2r : bool) (Q : mat T) (ind : list nat) : mat T :=
  if l2r then mrows K Q ind else mcols K Q ind.
(* Q *= 2**p0 *)
Definition mscale_r (Q : mat T) (s : T) : mat T := mkmat (mr Q) (mc Q) (fun i j => mget K Q i j * s).

(* one pass of the loop body; state = (argsort call number, I, Q) *)
Definition beam_step (l2r : bool) (k : nat) (s : T) (st : nat * imat * mat T) (G : core T)
  : nat * imat * mat T :=
  let '(c, Ix, Q) := st in
  let Q1 := beam_ext l2r Q G in
  let I1 := beam_tab l2r Ix (cn G) in
  let norms := beam_norms l2r Q1 in
  let ind := last_k_rev k (argsort c norms) in
  (S c, itake I1 ind, mscale_r (beam_select l2r Q1 ind) s).
(* the vectors handed to argsort, in call order (used by the correspondence to tie the replayed
   argsort outputs to the model's own norms) *)
Fixpoint beam_scan (l2r : bool) (k : nat) (s : T) (rest : list (core T)) (st : nat * imat * mat T)
  : list (list T) :=
  match rest with
  | [] => []
  | G :: rest' => beam_norms l2r (beam_ext l2r (snd st) G) :: beam_scan l2r k s rest' (beam_step l2r k s st G)
  end.

(* Z, p = orthogonalize(Y, 0 if l2r else d-1, use_stab=True)  |  Z = Y, p = 1 if p is None *)
Definition beam_prep (co : nat) (Y : list (core T)) (l2r to_orth : bool) (p : option Z)
  : list (core T) * Z :=
  if to_orth then orth co Y (if l2r then O else length Y - 1)%nat
  else (Y, match p with Some p' => p' | None => 1%Z end).
(* first core visited and the remaining ones in visiting order: Z[0], Z[1:]  |  Z[-1], Z[:-1][::-1] *)
Definition beam_first (l2r : bool) (Z : list (core T)) : core T := if l2r then hd core0 Z else last Z core0.
Definition beam_rest (l2r : bool) (Z : list (core T)) : list (core T) := if l2r then tl Z else rev (removelast Z).

(* ret_all=True: the whole table; co / cs = numbers of the first orthogonalize / argsort call *)
Definition beam_run (cs : nat) (Zt : list (core T)) (k : nat) (l2r : bool) (s : T) : nat * imat * mat T :=
  fold_left (beam_step l2r k s) (beam_rest l2r Zt) (beam_init cs l2r (beam_first l2r Zt) s).
Definition beam_all (co cs : nat) (Y : list (core T)) (k : nat) (l2r to_orth : bool) (p : option Z) : imat :=
  let d := length Y in
  let '(Zt, p') := beam_prep co Y l2r to_orth p in
  let s := pow2frac p' d in
  snd (fst (beam_run cs Zt k l2r s)).
Definition beam_norm_trace (co cs : nat) (Y : list (core T)) (k : nat) (l2r to_orth : bool) (p : option Z)
  : list (list T) :=
  let d := length Y in
  let '(Zt, p') := beam_prep co Y l2r to_orth p in
  let s := pow2frac p' d in
  beam_scan l2r k s (beam_rest l2r Zt) (beam_init cs l2r (beam_first l2r Zt) s).
(* ret_all=False: I[0] *)
Definition optima_tt_beam (co cs : nat) (Y : list (core T)) (k : nat) (l2r : bool) : list nat :=
  hd [] (beam_all co cs Y k l2r true None).

(* ---------- optima_tt_max: both directions, np.argmax of the two moduli (first maximum wins) ---------- *)
Definition optima_tt_max (co cs : nat) (Y : list (core T)) (k : nat) : list nat * T :=
  let i1 := optima_tt_beam co cs Y k true in
  let i2 := optima_tt_beam (S co) (cs + (length Y - 1)) Y k false in
  let y1 := get K Y i1 in
  let y2 := get K Y i2 in
  if oltb K (oabs K y1) (oabs K y2) then (i2, y2) else (i1, y1).

(* ---------- teneva.const(n, v) without zeroed entries ---------- *)
Definition tiny16 : T := odiv K 1 (oofZ K 10000000000000000%Z).
Definition const_tt (ns : list nat) (v : T) : list (core T) :=
  let big := oltb K tiny16 (oabs K v) in
  let s := if big then odiv K (oabs K v) v else v in
  let rho := if big then droot (oabs K v) (length ns) else 1 in
  const_cores K ns rho s.

(* ---------- optima_tt ---------- *)
Definition shifted_sq (Y : list (core T)) (y1 : T) : list (core T) :=
  let D := const_tt (shape Y) y1 in
  let Zd := sub K Y D in
  mul K Zd Zd.
Definition optima_tt (co cs : nat) (Y : list (core T)) (k : nat) : list nat * T * list nat * T :=
  let '(i1, y1) := optima_tt_max co cs Y k in
  let Zs := shifted_sq Y y1 in
  let '(i2, _) := optima_tt_max (co + 2) (cs + 2 * (length Y - 1)) Zs k in
  let y2 := get K Y i2 in
  if oltb K y1 y2 then (i1, y1, i2, y2) else (i2, y2, i1, y1).

(* ---------- optima_qtt ---------- *)
Definition optima_qtt (co cs : nat) (Y : list (core T)) (k : nat)
  : result (list nat * T * list nat * T) :=
  let n := shape Y in
  if negb (forallb (Nat.eqb (hd O n)) (tl n)) then Err ValueError else
  match log2_exact (hd O n) with
  | None => Err ValueError
  | Some O => Err ValueError      (* n = 1: core_tt_to_qtt cannot reshape (ValueError) *)
  | Some q =>
      let Zq := to_qtt Y in
      let '(i_min, _, i_max, _) := optima_tt co cs Zq k in
      rbind (ind_qtt_to_tt1 q i_min) (fun j_min =>
      rbind (ind_qtt_to_tt1 q i_max) (fun j_max =>
      (* y_min, y_max re-evaluated on Y;  if y_min > y_max: swap the pair  (commit 285e9fd) *)
      let y_min := get K Y j_min in
      let y_max := get K Y j_max in
      if oltb K y_max y_min then Ok (j_max, y_max, j_min, y_min) else Ok (j_min, y_min, j_max, y_max)))
  end.
End Optima.

(* ---------- a reference argsort (stable insertion sort on oleb), used for execution where the recorded
   permutation is not replayed, and as witness that the argsort contract is satisfiable ---------- *)
Section RefSort.
Context {T : Type} (K : ops T).
Fixpoint ins_idx (l : list T) (t : nat) (acc : list nat) : list nat :=
  match acc with
  | [] => [t]
  | u :: acc' => if oltb K (nth t l (o0 K)) (nth u l (o0 K)) then t :: acc else u :: ins_idx l t acc'
  end.
Definition argsort_ins (l : list T) : list nat :=
  fold_left (fun acc t => ins_idx l t acc) (seq 0 (length l)) [].
End RefSort.
