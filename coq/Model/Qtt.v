(* Model of teneva/core.py: core_qtt_to_tt, core_tt_to_qtt and teneva/act_one.py: qtt_to_tt, tt_to_qtt (C17).
   matrix_svd is an oracle here (its own model is Model/Svd.v; contract in Proofs/QttP.v). *)
From Coq Require Import List Arith Lia PeanoNat ZArith Bool.
From TV Require Import Num.Ops Lin.Tab Lin.BigSum Lin.Mat TT.Chain Model.GridInd.
Import ListNotations.

Section Qtt.
Context {T : Type} (K : ops T).
Notation "0" := (o0 K). Notation "1" := (o1 K).
Infix "+" := (oadd K). Infix "*" := (omul K).

(* G = np.tensordot(G, Q, 1); G = _reshape(G, (r1, -1, r2))   (order='F': the index of G runs fastest) *)
Definition merge2 (G Q : core T) : core T :=
  mkcore (cr1 G) (cn G * cn Q) (cr2 Q)
         (fun a m b => bsum K (cr2 G) (fun c => cget K G a (m mod cn G) c * cget K Q c (m / cn G) b)).
(* core_qtt_to_tt(Q_list): Q_list[0] folded with the rest; an empty list raises IndexError *)
Definition core_qtt_to_tt (Qs : list (core T)) : result (core T) :=
  match Qs with [] => Err IndexError | Q0 :: rest => Ok (fold_left merge2 rest Q0) end.

(* qtt_to_tt(Y, q): d = int(len(Y) / q); Z[k] = core_qtt_to_tt(Y[k*q:(k+1)*q])
   (q = 0 raises ZeroDivisionError in Python: OtherError).  [groups q d Y] = the d consecutive slices of length q. *)
Fixpoint groups {A} (q d : nat) (l : list A) : list (list A) :=
  match d with O => [] | S d' => firstn q l :: groups q d' (skipn q l) end.
Definition qtt_to_tt (Y : list (core T)) (q : nat) : result (list (core T)) :=
  if Nat.eqb q 0 then Err OtherError else
  sequence (map core_qtt_to_tt (groups q (length Y / q) Y)).

(* ---- core_tt_to_qtt(G, e, r) ----
     r1, n, r2 = G.shape; d = int(np.log2(n)); if 2**d != n: raise ValueError
     A = _reshape(G, (-1, r2)); A, V0 = matrix_svd(A, e, r)
     for i in range(d-1):
         As = A.shape[0] // 2; q = A.shape[1]
         A = np.hstack([A[:As], A[As:]]); A, V = matrix_svd(A, e, r)
         Y.append(_reshape(V, (-1, 2, q), order='C'))
     Y.append(_reshape(A, (r1, 2, -1))); Y[0] = np.einsum('ijk,kl', Y[0], V0); return Y[::-1]
   The oracle is keyed by the call number (0 for the first factorisation). *)

(* np.hstack([A[:As], A[As:]]) with As = rows // 2 *)
Definition halve (A : mat T) : mat T :=
  let h := (mr A / 2)%nat in
  mkmat h (2 * mc A) (fun i j => if j <? mc A then mget K A i j else mget K A (h + i) (j - mc A)).
(* _reshape(V, (-1, 2, q), order='C') of V : p x (2 q):  core[c, j, b] = V[c, j*q + b] *)
Definition core_of_V (V : mat T) (q : nat) : core T :=
  mkcore (mr V) 2 q (fun c j b => mget K V c (j * q + b)).
(* _reshape(A, (r1, 2, -1)) order='F' of A : (r1*2) x p: core[a, j, c] = A[a + r1*j, c] *)
Definition core_of_A (A : mat T) (r1 : nat) : core T :=
  mkcore r1 2 (mc A) (fun a j c => mget K A (a + r1 * j) c).
(* np.einsum('ijk,kl', G, V0) *)
Definition core_mulV (G : core T) (V0 : mat T) : core T :=
  mkcore (cr1 G) (cn G) (mc V0) (fun a j l => bsum K (cr2 G) (fun c => cget K G a j c * mget K V0 c l)).

(* the loop: returns the cores appended so far (in append order) and the current A *)
Fixpoint qtt_loop (msvd : nat -> mat T -> mat T * mat T) (k : nat) (c : nat) (A : mat T) (acc : list (core T))
  : list (core T) * mat T :=
  match k with
  | O => (acc, A)
  | S k' =>
      let q := mc A in
      let '(A', V) := msvd c (halve A) in
      qtt_loop msvd k' (S c) A' (acc ++ [core_of_V V q])
  end.
(* _reshape(G, (-1, r2)) order='F': row a + r1*i *)
Definition unfold_rows (G : core T) : mat T :=
  mkmat (cr1 G * cn G) (cr2 G) (fun p b => cget K G (p mod cr1 G) (p / cr1 G) b).
Definition core_tt_to_qtt (msvd : nat -> mat T -> mat T * mat T) (G : core T) : result (list (core T)) :=
  match log2_exact (cn G) with
  | None => Err ValueError
  | Some d =>
      let '(A0, V0) := msvd O (unfold_rows G) in
      let '(Ys, A) := qtt_loop msvd (d - 1) 1 A0 [] in
      let Ys' := Ys ++ [core_of_A A (cr1 G)] in
      (* Y[0] = einsum(Y[0], V0): for d = 1 the only core is the last appended one.
         d = 0 (mode size 1 = 2^0) is NOT modelled: numpy's _reshape(A, (r1, 2, -1)) either raises or silently
         returns a core of mode size 2, depending on the parity of the retained rank; the theorems require d >= 1 *)
      if Nat.eqb d 0 then Err OtherError else
      match Ys' with
      | [] => Err IndexError
      | Y0 :: rest => Ok (rev (core_mulV Y0 V0 :: rest))
      end
  end.

(* tt_to_qtt(Y, e, r): Z = []; for G in Y: Z.extend(core_tt_to_qtt(G, e, r)).  The factorisation oracle is keyed by
   (core number, call number inside that core). *)
Fixpoint mapi_from {A B} (k : nat) (f : nat -> A -> B) (l : list A) : list B :=
  match l with [] => [] | x :: l' => f k x :: mapi_from (S k) f l' end.
Definition tt_to_qtt (msvd2 : nat -> nat -> mat T -> mat T * mat T) (Y : list (core T)) : result (list (core T)) :=
  rmap (@concat _) (sequence (mapi_from O (fun k G => core_tt_to_qtt (msvd2 k) G) Y)).
End Qtt.
