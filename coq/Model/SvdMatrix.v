(* Model of teneva/svd.py:svd_matrix and teneva/transformation.py:full_matrix (the index interleaving of
   QTT-matrices).  The sweep itself (svd, matrix_skeleton, rank_select) is in Model/Svd.v.

   svd_matrix(Y_full, e, r):
       q = int(np.log2(Y_full.shape[0]))
       Z_full = Y_full.reshape([2]*(2*q), order='F')          # index (b_0..b_{q-1}, c_0..c_{q-1}), little-endian bits
       prm = [0, q, 1, q+1, ...];  Z_full = Z_full.transpose(prm)   # (b_0, c_0, b_1, c_1, ...)
       Z_full = Z_full.reshape([4]*q, order='F')              # t_k = b_k + 2 c_k
       return svd(Z_full, e, r)                               # svd flattens in C order
   full_matrix(Y, order='F'):
       q = len(Y);  Z = full(Y);  Z = Z.reshape([2, 2]*q, order=order)
       prm = [0, 2, 4, ..., 1, 3, 5, ...];  Z = Z.transpose(prm).reshape(2**q, 2**q, order='F')
   The model of full_matrix covers chains whose boundary ranks are 1 (what every constructor returns); for other
   chains it answers ValueError, which is what numpy does unless r_0 * r_d * prod(n) happens to be 4^q. *)
From Coq Require Import List Arith Lia PeanoNat ZArith Bool.
From TV Require Import Num.Ops Lin.Tab Lin.BigSum Lin.Mat TT.Chain Model.ActOne Model.Svd.
Import ListNotations.

(* ---- pure index maps ---- *)
(* C-order multi-index of the flat position p in an array of shape [4]*q *)
Definition digits4 (q p : nat) : list nat := tab q (fun k => (p / 4 ^ (q - 1 - k)) mod 4).
(* row / column number encoded by the mode indices t_k = b_k + 2 c_k (little-endian) *)
Fixpoint row_of (ts : list nat) : nat := match ts with [] => 0 | t :: ts' => t mod 2 + 2 * row_of ts' end.
Fixpoint col_of (ts : list nat) : nat := match ts with [] => 0 | t :: ts' => t / 2 + 2 * col_of ts' end.
Definition bit (k i : nat) : nat := (i / 2 ^ k) mod 2.
(* mode indices of the matrix entry (i, j):  order='F': t_k = b_k + 2 c_k;  order='C': t_k = 2 b_k + c_k *)
Definition modes_of (orderF : bool) (q i j : nat) : list nat :=
  tab q (fun k => if orderF then bit k i + 2 * bit k j else 2 * bit k i + bit k j).
(* flat F-order position of a multi-index in shape [4]*q, and F-order unravel in an arbitrary shape *)
Fixpoint fpos4 (ts : list nat) : nat := match ts with [] => 0 | t :: ts' => t + 4 * fpos4 ts' end.
Fixpoint unravelF (sh : list nat) (p : nat) : list nat :=
  match sh with [] => [] | n :: sh' => p mod n :: unravelF sh' (p / n) end.
Definition cpos4 (ts : list nat) : nat := fold_left (fun acc t => acc * 4 + t) ts 0.

Section SvdMatrix.
Context {T : Type} (K : ops T).
Notation "0" := (o0 K).

(* the dense [4]*q array handed to svd, as the flat C-order list svd works on *)
Definition interleaved (q : nat) (Y : mat T) : list T :=
  tab (4 ^ q) (fun p => let ts := digits4 q p in mget K Y (row_of ts) (col_of ts)).

Variable svdo : nat -> mat T -> mat T * list T * mat T.
Definition svd_matrix (Y : mat T) (e : T) (rcap : Z) : result (list (core T)) :=
  if mr Y =? 0 then Err OtherError                       (* int(-inf): OverflowError *)
  else
    let q := Nat.log2 (mr Y) in
    if negb (mr Y * mc Y =? 4 ^ q) then Err ValueError   (* reshape([2]*(2q)) *)
    else if q =? 0 then Err IndexError                   (* svd of a 0-dimensional array: n[-1] *)
    else Ok (svd K svdo (repeat 4 q) (interleaved q Y) e rcap).

Definition full_matrix (Y : list (core T)) (orderF : bool) : result (mat T) :=
  match Y with
  | [] => Err IndexError
  | G0 :: _ =>
    let q := length Y in
    let sh := map cn Y in
    if negb ((cr1 G0 =? 1) && (cr2 (last Y G0) =? 1)) then Err ValueError
    else if negb (fold_right Nat.mul 1 sh =? 4 ^ q) then Err ValueError
    else
      let Z := full K Y in
      Ok (mkmat (2 ^ q) (2 ^ q) (fun i j =>
            let ts := modes_of orderF q i j in
            if orderF then nth (cpos sh (unravelF sh (fpos4 ts)) 0) Z 0
            else nth (cpos4 ts) Z 0))
  end.
End SvdMatrix.
