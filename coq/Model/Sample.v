(* Model of teneva/sample.py: sample, sample_square (+ _sample_core_first), sample_lhs, sample_rand,
   sample_rand_poi, sample_tt (C14; the block layout of sample_tt is consumed by C20).

   The random generator is an oracle.  `choice(n, p=p)` RECEIVES the probability vector, so the model
   returns, next to the samples, every probability vector it hands to the oracle (what an auditing
   numpy Generator subclass passed as `seed` observes on the implementation).  Oracle calls are
   identified by their call number (one counter per generator method), exactly as the harness
   records them; a batch call `choice(n, size, p=p)` is one call whose answer has `size` positions.

   Not modelled: float_cf of sample_square (self-declared TODO in the source; float_cf=None only). *)
From Coq Require Import List Arith Lia PeanoNat ZArith Bool.
From TV Require Import Num.Ops Lin.Tab Lin.BigSum TT.Chain.
Import ListNotations.

(* ---------- helpers that do not depend on the number structure ---------- *)

(* all results, or the first error (a Python loop that raises at the first failing iteration) *)
Fixpoint rall {A} (l : list (result A)) : result (list A) :=
  match l with
  | [] => Ok []
  | x :: l' => rbind x (fun a => rbind (rall l') (fun r => Ok (a :: r)))
  end.

(* np.vstack(cols).T for columns of length m / I[:, i] = col *)
Definition transpose {A} (d0 : A) (m : nat) (cols : list (list A)) : list (list A) :=
  tab m (fun j => map (fun col => nth j col d0) cols).

(* enumerate *)
Fixpoint mapi_from {A B} (c : nat) (f : nat -> A -> B) (l : list A) : list B :=
  match l with [] => [] | x :: l' => f c x :: mapi_from (S c) f l' end.

(* lexicographic order on rows; np.unique(I, axis=0) = the sorted distinct rows *)
Fixpoint lex_leb (a b : list nat) : bool :=
  match a, b with
  | [], _ => true
  | _ :: _, [] => false
  | x :: a', y :: b' => (x <? y) || ((x =? y) && lex_leb a' b')
  end.
Fixpoint ins_row (x : list nat) (l : list (list nat)) : list (list nat) :=
  match l with
  | [] => [x]
  | y :: l' => if lex_leb x y then x :: l else y :: ins_row x l'
  end.
Definition sort_rows (l : list (list nat)) : list (list nat) := fold_right ins_row [] l.
Definition uniq_rows (l : list (list nat)) : list (list nat) :=
  sort_rows (nodup (list_eq_dec Nat.eq_dec) l).

(* observation: the entries of the probability vectors P selected by the multi-index idx *)
Fixpoint along {T} (d0 : T) (idx : list nat) (P : list (list T)) : list T :=
  match idx, P with
  | i :: idx', p :: P' => nth i p d0 :: along d0 idx' P'
  | _, _ => []
  end.

(* ---------- sample_lhs, sample_rand, sample_tt: integers only ---------- *)
Section Lhs.
(* rand.choice(k, size, replace=False): call number, k, size -> the drawn indices *)
Variable chnr : nat -> nat -> nat -> list nat.
(* rand.shuffle(x) on a 1-D array: call number, contents before -> contents after *)
Variable shuf1 : nat -> list nat -> list nat.

(* np.repeat(np.arange(k), t) *)
Definition repeat_each (k t : nat) : list nat := flat_map (fun v => repeat v t) (seq 0 k).

(* one column of sample_lhs; the choice call and the shuffle call of mode i both have number base+i *)
Definition lhs_col (c k m : nat) : list nat :=
  let I1 := repeat_each k (m / k) in
  let I2 := chnr c k (m - length I1) in
  shuf1 c (I1 ++ I2).
Definition lhs_cols (base : nat) (ns : list nat) (m : nat) : list (list nat) :=
  mapi_from base (fun c k => lhs_col c k m) ns.
Definition sample_lhs (base : nat) (ns : list nat) (m : nat) : list (list nat) :=
  transpose O m (lhs_cols base ns m).

(* sample_tt.one_mode; returns (rows, len_1, len_2).  With a generator object as seed the calls of
   the two sample_lhs invocations are consecutive. *)
Definition one_mode (base : nat) (sh1 sh2 : list nat) (rng r : nat) : list (list nat) * nat * nat :=
  match sh2, sh1 with
  | [], _ =>
      let L1 := sample_lhs base sh1 r in
      (flat_map (fun v => map (fun a => a ++ [v]) L1) (seq 0 rng), length L1, 1)
  | _, [] =>
      let L2 := sample_lhs base sh2 r in
      (flat_map (fun v => map (fun c => v :: c) L2) (seq 0 rng), 1, length L2)
  | _, _ =>
      let L1 := sample_lhs base sh1 r in
      let L2 := sample_lhs (base + length sh1) sh2 r in
      (flat_map (fun v => flat_map (fun a => map (fun c => a ++ v :: c) L2) L1) (seq 0 rng),
       length L1, length L2)
  end.
(* for i in range(len(n)): one_mode(n[:i], n[i+1:], n[i]) *)
Fixpoint tt_modes (base : nat) (pre post : list nat) (r : nat) : list (list (list nat) * nat * nat) :=
  match post with
  | [] => []
  | k :: post' =>
      one_mode base pre post' k r :: tt_modes (base + length pre + length post') (pre ++ [k]) post' r
  end.
(* idx: [0, len(pnts_0), len(pnts_0)+len(pnts_1), ...] *)
Fixpoint offsets (acc : nat) (lens : list nat) : list nat :=
  match lens with [] => [acc] | l :: lens' => acc :: offsets (acc + l) lens' end.
Definition sample_tt (ns : list nat) (r : nat) : list (list nat) * list nat * list nat :=
  let B := tt_modes 0 [] ns r in
  (concat (map (fun b => fst (fst b)) B),
   offsets 0 (map (fun b => length (fst (fst b))) B),
   map snd B).
End Lhs.

Section Rand.
(* rand.choice(np.arange(k), m): call number, k, m -> m indices *)
Variable chu : nat -> nat -> nat -> list nat.
(* np.vstack([...]).T ; vstack of an empty list raises ValueError *)
Definition sample_rand (ns : list nat) (m : nat) : result (list (list nat)) :=
  match ns with
  | [] => Err ValueError
  | _ => Ok (transpose O m (mapi_from 0 (fun c k => chu c k m) ns))
  end.
End Rand.

(* ---------- the samplers that read a TT-tensor ---------- *)
Section Sample.
Context {T : Type} (K : ops T).
Notation "0" := (o0 K). Notation "1" := (o1 K).
Infix "+" := (oadd K). Infix "*" := (omul K). Infix "-" := (osub K). Infix "/" := (odiv K).

(* product of a list of numbers (observation: product of the conditionals along a multi-index) *)
Definition lprod (l : list T) : T := fold_right (omul K) 1 l.

(* sample_rand_poi: rand.uniform(a[i], b[i], m) per mode, vstack().T *)
Section Poi.
Variable unif : nat -> T -> T -> nat -> list T.
Definition sample_rand_poi (a b : list T) (m : nat) : result (list (list T)) :=
  match a with
  | [] => Err ValueError
  | _ => Ok (transpose 0 m (mapi_from 0 (fun c ab => unif c (fst ab) (snd ab) m) (combine a b)))
  end.
End Poi.

(* np.sum(G, axis=1) @ w *)
Definition rsum_step (G : core T) (w : list T) : list T :=
  tab (cr1 G) (fun a => bsum K (cr2 G) (fun b => bsum K (cn G) (fun i => cget K G a i b) * nth b w 0)).
(* phis [Y_k; ...; Y_{d-1}] = [phi[k]; ...; phi[d]] with phi[d] = ones(1) *)
Fixpoint phis (Y : list (core T)) : list (list T) :=
  match Y with
  | [] => [[1]]
  | G :: Y' => let rest := phis Y' in rsum_step G (hd [] rest) :: rest
  end.
(* (Y[0] @ phi[1]).flatten() *)
Definition pvec0 (G : core T) (w : list T) : list T :=
  tab (cn G) (fun i => bsum K (cr2 G) (fun b => cget K G O i b * nth b w 0)).
(* one row of np.einsum('ma,aib,b->mi', phi[i-1], Y[i], phi[i+1]) *)
Definition pvec (v : list T) (G : core T) (w : list T) : list T :=
  tab (cn G) (fun i => bsum K (cr1 G) (fun a => bsum K (cr2 G) (fun b =>
       nth a v 0 * cget K G a i b * nth b w 0))).
(* np.maximum(p, 0) *)
Definition clip (p : list T) : list T := map (fun x => if oleb K 0 x then x else 0) p.
(* p / p.sum();  0/0 = NaN makes rand.choice raise ValueError('Probabilities contain NaN') *)
Definition normalise (p : list T) : result (list T) :=
  let s := lsum K p in
  if oeqb K s 0 then Err ValueError else Ok (map (fun x => x / s) p).
(* Y[0][0, i, :] *)
Definition crow (G : core T) (i : nat) : list T := tab (cr2 G) (fun b => cget K G O i b).
(* np.sum(Q**2, axis=1) *)
Definition sqnorms (rows : list (list T)) : list T :=
  map (fun q => lsum K (map (fun x => x * x) q)) rows.

(* rand.choice(n, [size,] p=p): call number, position in the returned array, p -> index *)
Variable ch : nat -> nat -> list T -> nat.
(* rand.shuffle(I) on the rows of a 2-D array: call number, rows before -> rows after *)
Variable shufr : nat -> list (list nat) -> list (list nat).

(* what is carried per sample row: the partial product phi[i-1][row] (resp. Q[row]),
   the indices drawn so far, the probability vectors handed to choice so far *)
Record rowst := mk_rowst { rv : list T; ridx : list nat; rP : list (list T) }.

(* sample, mode i >= 1, one row:  pi = max(p, 0); choice(n, p=pi/pi.sum()); phi[i][row] = phi[i-1][row] @ c[:, ind, :] *)
Definition row_step (G : core T) (w : list T) (c : nat) (s : rowst) : result rowst :=
  rbind (normalise (clip (pvec (rv s) G w))) (fun p =>
    let i := ch c O p in
    Ok (mk_rowst (vstep K (rv s) G i) (ridx s ++ [i]) (rP s ++ [p]))).
(* sample_square, mode di >= 1, one row: qm = Q[row] @ G; norms = sum(qm**2, axis=1); norms /= norms.sum();
   i_cur = choice(n, p=norms); qnew = qm[i_cur] *)
Definition sq_row_step (G : core T) (c : nat) (s : rowst) : result rowst :=
  let qm := tab (cn G) (fun i => vstep K (rv s) G i) in
  rbind (normalise (sqnorms qm)) (fun p =>
    let i := ch c O p in
    Ok (mk_rowst (nth i qm []) (ridx s ++ [i]) (rP s ++ [p]))).

(* the loops: for each mode k = 1.. (outer), for each of the m rows (inner); the choice call of
   (mode k, row j) has number base + 1 + (k-1)*m + j (call base+0 is the batch call of mode 0) *)
Definition mode_step (base m k : nat) (step : nat -> rowst -> result rowst)
  (st : list (result rowst)) : list (result rowst) :=
  tab m (fun j => rbind (nth j st (Err OtherError)) (step (base + 1 + (k - 1) * m + j)%nat)).
Fixpoint modes (base m k : nat) (steps : list (nat -> rowst -> result rowst))
  (st : list (result rowst)) : list (result rowst) :=
  match steps with
  | [] => st
  | step :: steps' => modes base m (S k) steps' (mode_step base m k step st)
  end.
Fixpoint zipw {A B C} (f : A -> B -> C) (l1 : list A) (l2 : list B) : list C :=
  match l1, l2 with x :: l1', y :: l2' => f x y :: zipw f l1' l2' | _, _ => [] end.

(* sample(Y, m, seed, unsert): returns (res, P) with P[row] = the d probability vectors handed to
   choice for that row (the first one is shared by all rows: one batch call) *)
Definition sample (Y : list (core T)) (m : nat) (unsert : T)
  : result (list (list nat) * list (list (list T))) :=
  match Y with
  | [] => Err IndexError
  | G0 :: Y' =>
      let phi := phis Y' in
      rbind (normalise (clip (map (fun x => x + unsert) (pvec0 G0 (hd [] phi))))) (fun p0 =>
        let st0 := tab m (fun j => let i := ch O j p0 in Ok (mk_rowst (crow G0 i) [i] [p0])) in
        rmap (fun rows => (map ridx rows, map rP rows))
             (rall (modes O m 1 (zipw row_step Y' (tl phi)) st0)))
  end.

(* one attempt of sample_square on the orthogonalised tensor Z: m1 rows.
   _sample_core_first: norms = sum(Q**2, axis=1); norms /= norms.sum(); ind = choice(n, size=m1, p=norms) *)
Definition sq_draw (base : nat) (Zt : list (core T)) (m1 : nat) : result (list rowst) :=
  match Zt with
  | [] => Err ValueError          (* orthogonalize: 'Invalid mode number' *)
  | G0 :: Zt' =>
      rbind (normalise (sqnorms (tab (cn G0) (crow G0)))) (fun p0 =>
        let st0 := tab m1 (fun j => let i := ch base j p0 in Ok (mk_rowst (crow G0 i) [i] [p0])) in
        rall (modes base m1 1 (map sq_row_step Zt') st0))
  end.

(* I = I[:m]; if I.shape[0] != m: raise ValueError *)
Definition take_m {A} (m : nat) (I : list A) : result (list A) :=
  let I' := firstn m I in if length I' =? m then Ok I' else Err ValueError.

(* sample_square(Y, m, unique, seed, m_fact, max_rep) given Zt = orthogonalize(Y, 0)[0] (the same for
   every restart).  Returns the samples and, per attempt, the drawn rows and their probability
   vectors.  The recursion `sample_square(Y, m, True, seed, 2*m_fact, max_rep-1)` is the fuelled loop;
   fuel max(max_rep + 1, 0) + 1 is always enough (Proofs: sample_square_terminates); with max_rep < 0 there is
   exactly one attempt. *)
Fixpoint sq_loop (fuel base : nat) (Zt : list (core T)) (m : nat) (unique : bool) (m_fact : nat) (max_rep : Z)
  : result (list (list nat) * list (list (list nat) * list (list (list T)))) :=
  match fuel with
  | O => Err OutOfFuel
  | S fuel' =>
      let m1 := if unique then (m_fact * m)%nat else m in
      rbind (sq_draw base Zt m1) (fun rows =>
        let I := map ridx rows in
        let att := (I, map rP rows) in
        if unique then
          let U := uniq_rows I in
          if length U <? m then
            if ((max_rep <? 0)%Z || (1000000 <? Z.of_nat m_fact)%Z)%bool then Err ValueError
            else rmap (fun r => (fst r, att :: snd r))
                   (sq_loop fuel' (base + 1 + (length Zt - 1) * m1)%nat Zt m true (2 * m_fact)%nat (max_rep - 1)%Z)
          else rmap (fun I' => (I', [att])) (take_m m (shufr O U))
        else rmap (fun I' => (I', [att])) (take_m m I))
  end.
Definition sample_square (Zt : list (core T)) (m : nat) (unique : bool) (m_fact : nat) (max_rep : Z) :=
  sq_loop (S (Z.to_nat (max_rep + 1))) O Zt m unique m_fact max_rep.

End Sample.
