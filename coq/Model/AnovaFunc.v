(* Model of teneva/anova_func.py (class ANOVA_func: __init__, coeffs, cores; function anova_func) (C13),
   with the pieces of grid.poi_scale (kind='cheb'), func.func_basis (kind='cheb'), tensors.delta it calls.
   Executable definitions only; lemmas are in Proofs/AnovaFuncP.v.
   Oracles (arguments of the model functions):
     solve : call-no -> mat T -> list T -> list T   scipy.linalg.lstsq(N, rhs, lapack_driver='gelsy')[0]
                                                    (contract: N x = rhs)
     split : T -> T * T      the (sign, d-th root) pair computed by tensors.delta for the value v:
                             (abs(v)/v, abs(v)**(1/d)) if abs(v) > 1e-16 else (v, 1)
                             (contract: s * w^d = v)
     trunc : list core -> list core                 teneva.truncate(A, e) *)
From Coq Require Import List Arith Lia PeanoNat ZArith Bool.
From TV Require Import Num.Ops Lin.Tab Lin.BigSum Lin.Mat TT.Chain Model.ActOne Model.Anova.
Import ListNotations.

Section AnovaFunc.
Context {T : Type} (K : ops T).
Notation "0" := (o0 K). Notation "1" := (o1 K).
Infix "+" := (oadd K). Infix "*" := (omul K). Infix "-" := (osub K). Infix "/" := (odiv K).

Definition two : T := 1 + 1.
(* poi_scale(X, a, b, kind='cheb'), one coordinate *)
Definition scale_cheb (x a b : T) : T :=
  let t := (x - (b + a) / two) * (two / (b - a)) in
  if oltb K t (oopp K 1) then oopp K 1 else if oltb K 1 t then 1 else t.
(* func_basis(xd, m=n, kind='cheb')[:, s]:  T_0 .. T_{n-1} at the point x *)
Fixpoint cheb_from (k : nat) (tm1 tm2 x : T) : list T :=
  match k with
  | O => []
  | S k' => let t := two * x * tm1 - tm2 in t :: cheb_from k' t tm1 x
  end.
Definition cheb_row (n : nat) (x : T) : list T :=
  match n with
  | O => []
  | S O => [1]
  | S (S k) => 1 :: x :: cheb_from k x 1 x
  end.

(* A = func_basis(xd, n).T ;  N = A.T @ A + lamb * identity(n) ;  rhs = A.T @ y *)
Definition basis_mat (n : nat) (xd : list T) : mat T :=
  let rows := map (cheb_row n) xd in
  mkmat (length xd) n (fun s p => nth p (nth s rows []) 0).
Definition normal_mat (n : nat) (lamb : T) (A : mat T) : mat T :=
  mkmat n n (fun p q => bsum K (mr A) (fun s => mget K A s p * mget K A s q)
                        + lamb * (if p =? q then 1 else 0)).
Definition normal_rhs (n : nat) (A : mat T) (y : list T) : list T :=
  tab n (fun p => bsum K (mr A) (fun s => mget K A s p * nth s y 0)).

(* ANOVA_func.__init__ + coeffs: returns (cfs[0], cfs[1:]) and, for the audit of the solver contract,
   nothing else: the systems are recomputed by [systems] below *)
Definition scaled (X : list (list T)) (a b : list T) : list (list T) :=
  map (fun row => tab (length row) (fun k => scale_cheb (nth k row 0) (nth k a 0) (nth k b 0))) X.
Definition xcol (k : nat) (X : list (list T)) : list T := map (fun row => nth k row 0) X.
Definition dimX (X : list (list T)) : nat := length (hd [] X).
Definition systems (X : list (list T)) (y : list T) (n : nat) (a b : list T) (lamb : T)
  : list (mat T * list T) :=
  let Xs := scaled X a b in
  let y0 := mean K y in
  let yc := map (fun v => v - y0) y in
  tab (dimX Xs) (fun i => let A := basis_mat n (xcol i Xs) in (normal_mat n lamb A, normal_rhs n A yc)).
Definition coeffs (X : list (list T)) (y : list T) (n : nat) (a b : list T) (lamb : T)
           (solve : nat -> mat T -> list T -> list T) : T * list (list T) :=
  let sys := systems X y n a b lamb in
  let cur := tab (length sys) (fun i => let (N, rhs) := nth i sys (mk_mat O O [], []) in solve i N rhs) in
  (fold_left (fun c cf => c + nth O cf 0) cur (mean K y), map (@tl T) cur).

(* tensors.delta(n, i, v) with the (sign, root) pair (s, w) of v *)
Definition delta_sw (ns idx : list nat) (s w : T) : list (core T) :=
  tab (length ns) (fun k =>
    mkcore 1 (nth k ns O) 1 (fun _ i _ =>
      let e := if i =? nth k idx O then w else 0 in
      if S k =? length ns then e * s else e)).
Definition delta (split : T -> T * T) (ns idx : list nat) (v : T) : list (core T) :=
  let (s, w) := split v in delta_sw ns idx s w.

(* the index (pi+1) * e_i *)
Definition unit_idx (d i p : nat) : list nat := tab d (fun k => if k =? i then S p else O).
(* the (i, pi, p) triples in loop order *)
Definition terms (cfs : list (list T)) : list (nat * nat * T) :=
  concat (tab (length cfs) (fun i => let cf := nth i cfs [] in tab (length cf) (fun p => (i, p, nth p cf 0)))).
(* ANOVA_func.cores(e=None) *)
Definition cores_pre (split : T -> T * T) (d n : nat) (c0 : T) (cfs : list (list T)) : list (core T) :=
  let ns := repeat n d in
  fold_left (fun A t => let '(i, p, v) := t in add K A (delta split ns (unit_idx d i p) v))
            (terms cfs) (delta split ns (repeat O d) c0).
(* anova_func(X_trn, y_trn, n, a, b, lamb, e) *)
Definition anova_func (X : list (list T)) (y : list T) (n : nat) (a b : list T) (lamb : T)
           solve split (trunc : option (list (core T) -> list (core T))) : list (core T) :=
  let (c0, cfs) := coeffs X y n a b lamb solve in
  let A := cores_pre split (dimX X) n c0 cfs in
  match trunc with None => A | Some tr => tr A end.
End AnovaFunc.
