(* Model of teneva/maxvol.py (maxvol, maxvol_rect) and teneva/utils.py (_maxvol).  Definitions only.

   Conventions.
   * Matrices are [mat T] (Lin/Mat.v), accessed only through [mget] / [mkmat]; index vectors are [list nat].
   * [np.argmax] is modelled exactly: the FIRST maximum, scanning left to right ([argmaxf]).
   * The LU-based initialisation of maxvol (scipy [lu] + two [solve_triangular]) is the argument [lu_init]
     (an oracle: A |-> Ok (I0, B0) or Err LinAlgError); its contract is [lu_contract] in Proofs/MaxvolP.v.
     [lu_exec] below is an executable instance (Gaussian elimination with partial pivoting, LAPACK getrf
     pivot order, then B0 = A * inv(A[I0]) by Gauss-Jordan), used for the exact runs over Qc.
   * [maxvol_rect] comes in two variants selected by [masked]:
       masked = true  : THE CODE (repaired, /repo cac7db0)   i = np.argmax(np.where(S > 0, F, -1.))
       masked = false : the code as pinned                    i = np.argmax(F)
     [maxvol_rect] is the first one; [maxvol_rect_pinned] is kept only as the subject of the machine-checked
     finding S1 (duplicate rows when every remaining residual is 0 and dr_min forces growth).
     [argmax_mask] (first maximum among the unselected rows) is the mathematical reading of the repaired line;
     Proofs/MaxvolRectP.v shows that the literal where-form computes it whenever some row is unselected and
     every unselected residual is > -1 (in the loop: F = squared row norm >= 0). *)
From Coq Require Import List Arith Lia PeanoNat Bool ZArith.
From TV Require Import Num.Ops Lin.Tab Lin.BigSum Lin.Mat.
Import ListNotations.

Section Maxvol.
Context {T : Type} (K : ops T).
Notation "0" := (o0 K). Notation "1" := (o1 K).
Infix "+" := (oadd K). Infix "*" := (omul K). Infix "-" := (osub K). Infix "/" := (odiv K).
Notation mg := (mget K).

(* ---------- np.argmax: first maximum of f on [0, n) (n >= 1) ---------- *)
Fixpoint argmaxf (f : nat -> T) (n : nat) : nat :=
  match n with
  | O => O
  | S m => let b := argmaxf f m in if oltb K (f b) (f m) then m else b
  end.

(* first maximum of f among the positions with s = true; None if there is none *)
Fixpoint argmax_mask (s : nat -> bool) (f : nat -> T) (n : nat) : option nat :=
  match n with
  | O => None
  | S m => match argmax_mask s f m with
           | None => if s m then Some m else None
           | Some b => if s m && oltb K (f b) (f m) then Some m else Some b
           end
  end.

Fixpoint set_nth (l : list nat) (j v : nat) : list nat :=
  match l, j with
  | [], _ => []
  | _ :: l', O => v :: l'
  | x :: l', S j' => x :: set_nth l' j' v
  end.

(* ---------- maxvol ---------- *)
(*  for _ in range(k):
        i, j = np.divmod(np.abs(B).argmax(), r)
        if np.abs(B[i, j]) <= e: break
        I[j] = i
        bj = B[:, j]; bi = B[i, :].copy(); bi[j] -= 1.
        B -= np.outer(bj, bi / B[i, j])
    The third component says whether the loop was left by its test (true) or by the iteration limit (false). *)
Definition maxvol_pivot (B : mat T) : nat * nat :=
  let r := mc B in
  let a := argmaxf (fun t => oabs K (mg B (t / r) (t mod r))) (mr B * r)%nat in
  ((a / r)%nat, (a mod r)%nat).

Definition maxvol_update (B : mat T) (i j : nat) : mat T :=
  let p := mg B i j in
  mkmat (mr B) (mc B) (fun x y => mg B x y - mg B x j * ((mg B i y - (if Nat.eqb y j then 1 else 0)) / p)).

Fixpoint maxvol_loop (e : T) (k : nat) (I : list nat) (B : mat T) : list nat * mat T * bool :=
  match k with
  | O => (I, B, false)
  | S k' =>
    let '(i, j) := maxvol_pivot B in
    if oleb K (oabs K (mg B i j)) e then (I, B, true)
    else maxvol_loop e k' (set_nth I j i) (maxvol_update B i j)
  end.

Definition lu_t := mat T -> result (list nat * mat T).

Definition maxvol_full (lu_init : lu_t) (A : mat T) (e : T) (k : nat) : result (list nat * mat T * bool) :=
  if (mr A <=? mc A)%nat then Err ValueError
  else rbind (lu_init A) (fun IB => Ok (maxvol_loop e k (fst IB) (snd IB))).

Definition maxvol (lu_init : lu_t) (A : mat T) (e : T) (k : nat) : result (list nat * mat T) :=
  rmap fst (maxvol_full lu_init A e k).

(* ---------- maxvol_rect ---------- *)
Definition rownorm2 (B : mat T) (a : nat) : T := bsum K (mc B) (fun j => mg B a j * mg B a j).

(*  np.where(S > 0, F, -1.)  *)
Definition where_mask (s : nat -> bool) (f : nat -> T) (a : nat) : T := if s a then f a else oopp K 1.
(*  masked = true :  i = np.argmax(np.where(S > 0, F, -1.))      masked = false (pinned):  i = np.argmax(F)  *)
Definition rect_argmax (masked : bool) (Sm : list bool) (F : list T) (n : nat) : nat :=
  if masked
  then argmaxf (where_mask (fun a => nth a Sm false) (fun a => nth a F 0)) n
  else argmaxf (fun a => nth a F 0) n.

(*  v = B.dot(B[i]); l = 1. / (1 + v[i])
    B = np.hstack([B - l * np.outer(v, B[i]), l * v.reshape(-1, 1)]);  F = S * (F - l * v * v)   *)
Definition rect_v (B : mat T) (i : nat) : list T :=
  tab (mr B) (fun a => bsum K (mc B) (fun j => mg B a j * mg B i j)).
Definition rect_update (B : mat T) (i : nat) (v : list T) (l : T) : mat T :=
  mkmat (mr B) (S (mc B)) (fun a j =>
    if (j <? mc B)%nat then mg B a j - l * (nth a v 0 * mg B i j) else l * nth a v 0).
Definition rect_F (Sm : list bool) (F v : list T) (l : T) (n : nat) : list T :=
  tab n (fun a => if nth a Sm false then nth a F 0 - l * nth a v 0 * nth a v 0 else 0).
Definition mask_off (Sm : list bool) (i : nat) : list bool :=
  tab (length Sm) (fun a => if Nat.eqb a i then false else nth a Sm false).

(*  for k in range(r, r_max):   (k = length I; steps = r_max - k)
        i = np.argmax(np.where(S > 0, F, -1.))          [pinned: i = np.argmax(F)]
        if k >= r_min and F[i] <= e*e: break
        I[k] = i; S[i] = 0; ...                                                            *)
Fixpoint rect_loop (masked : bool) (e2 : T) (r_min steps : nat)
         (I : list nat) (Sm : list bool) (B : mat T) (F : list T) : list nat * mat T * bool :=
  match steps with
  | O => (I, B, false)
  | S st =>
    let n := mr B in
    let i := rect_argmax masked Sm F n in
    if (r_min <=? length I)%nat && oleb K (nth i F 0) e2 then (I, B, true)
    else
      let v := rect_v B i in
      let l := 1 / (1 + nth i v 0) in
      let Sm' := mask_off Sm i in
      rect_loop masked e2 r_min st (I ++ [i]) Sm' (rect_update B i v l) (rect_F Sm' F v l n)
  end.

(* position of the last occurrence of a in I (numpy fancy assignment B[I] = eye: the last write wins) *)
Fixpoint find_last (I : list nat) (a : nat) (pos : nat) (acc : option nat) : option nat :=
  match I with
  | [] => acc
  | x :: I' => find_last I' a (S pos) (if Nat.eqb x a then Some pos else acc)
  end.
Definition set_id_rows (B : mat T) (I : list nat) : mat T :=
  mkmat (mr B) (mc B) (fun a j =>
    match find_last I a O None with
    | Some k => if Nat.eqb k j then 1 else 0
    | None => mg B a j
    end).

Definition mem_nat (a : nat) (I : list nat) : bool := existsb (Nat.eqb a) I.

(* dr_min : Z, dr_max : option Z (None = the Python default None) *)
Definition maxvol_rect_full (masked : bool) (lu_init : lu_t) (A : mat T) (e : T) (dr_min : Z) (dr_max : option Z)
           (e0 : T) (k0 : nat) : result (list nat * mat T * bool) :=
  let n := Z.of_nat (mr A) in let r := Z.of_nat (mc A) in
  let r_min := (r + dr_min)%Z in
  let r_max := Z.min (match dr_max with Some d => (r + d)%Z | None => n end) n in
  if (r_min <? r)%Z || (r_max <? r_min)%Z || (n <? r_max)%Z then Err ValueError
  else
    rbind (maxvol lu_init A e0 k0) (fun IB =>
      let I0 := fst IB in let B := snd IB in
      let Sm := tab (mr A) (fun a => negb (mem_nat a I0)) in
      let F := tab (mr A) (fun a => if nth a Sm false then rownorm2 B a else 0) in
      let '(I1, B1, st) := rect_loop masked (e * e) (Z.to_nat r_min) (Z.to_nat r_max - mc A) I0 Sm B F in
      Ok (I1, set_id_rows B1 I1, st)).

Definition maxvol_rect_gen (masked : bool) (lu_init : lu_t) A e dr_min dr_max e0 k0 : result (list nat * mat T) :=
  rmap fst (maxvol_rect_full masked lu_init A e dr_min dr_max e0 k0).

(* the code (repaired arg-max), and the code as pinned (subject of finding S1 only) *)
Definition maxvol_rect := maxvol_rect_gen true.
Definition maxvol_rect_pinned := maxvol_rect_gen false.

(* ---------- utils._maxvol ---------- *)
Definition maxvol_dispatch (masked : bool) (lu_init : lu_t) (A : mat T) (tau : T) (dr_min dr_max : Z)
           (tau0 : T) (k0 : nat) : result (list nat * mat T) :=
  let n := mr A in let r := mc A in
  let dr_max1 := Z.min dr_max (Z.of_nat n - Z.of_nat r) in
  let dr_min1 := Z.min dr_min dr_max1 in
  if (n <=? r)%nat then Ok (seq 0 n, mid K n)
  else if (dr_max1 =? 0)%Z then maxvol lu_init A tau0 k0
  else maxvol_rect_gen masked lu_init A tau dr_min1 (Some dr_max1) tau0 k0.

(* ---------- executable initialisation: partial pivoting as LAPACK getrf, then B0 = A inv(A[I0]) ---------- *)
(* perm: current order of the original row numbers; W: working matrix indexed by ORIGINAL row number *)
Definition swap_nth (l : list nat) (a b : nat) : list nat :=
  tab (length l) (fun t => if Nat.eqb t a then nth b l O else if Nat.eqb t b then nth a l O else nth t l O).

Fixpoint lu_pivots (c steps : nat) (perm : list nat) (W : mat T) : result (list nat) :=
  match steps with
  | O => Ok (firstn c perm)
  | S st =>
    let n := length perm in
    (* idamax over the positions c .. n-1 of the current order *)
    let t := argmaxf (fun t => oabs K (mg W (nth (c + t) perm O) c)) (n - c) in
    let perm' := swap_nth perm c (c + t) in
    let p := nth c perm' O in
    let piv := mg W p c in
    if oeqb K piv 0 then Err LinAlgError
    else
      let W' := mkmat (mr W) (mc W) (fun a y =>
                  if Nat.eqb a p then mg W a y else mg W a y - (mg W a c / piv) * mg W p y) in
      lu_pivots (S c) st perm' W'
  end.

(* Gauss-Jordan on [M | X] kept as two r x r matrices; no pivoting (rows are already in pivot order) *)
Fixpoint gj_inv (c steps : nat) (M X : mat T) : mat T :=
  match steps with
  | O => X
  | S st =>
    let piv := mg M c c in
    let M' := mkmat (mr M) (mc M) (fun a y =>
                if Nat.eqb a c then mg M c y / piv else mg M a y - mg M a c * (mg M c y / piv)) in
    let X' := mkmat (mr X) (mc X) (fun a y =>
                if Nat.eqb a c then mg X c y / piv else mg X a y - mg M a c * (mg X c y / piv)) in
    gj_inv (S c) st M' X'
  end.

Definition lu_exec : lu_t := fun A =>
  let n := mr A in let r := mc A in
  rbind (lu_pivots O r (seq 0 n) A) (fun I0 =>
    let Minv := gj_inv O r (mrows K A I0) (mid K r) in
    Ok (I0, mmul K A Minv)).

(* replayed oracle: the recorded output of the real initialisation *)
Definition lu_replay (I0 : list nat) (B0 : mat T) : lu_t := fun _ => Ok (I0, B0).

(* run-time validation of the oracle contract on a recorded / computed call (exact carriers) *)
Definition meqb (X Y : mat T) : bool :=
  Nat.eqb (mr X) (mr Y) && Nat.eqb (mc X) (mc Y) &&
  forallb (fun a => forallb (fun j => oeqb K (mg X a j) (mg Y a j)) (seq 0 (mc X))) (seq 0 (mr X)).
Fixpoint nodupb (l : list nat) : bool :=
  match l with [] => true | x :: l' => negb (mem_nat x l') && nodupb l' end.
Definition lu_contract_b (A : mat T) (I0 : list nat) (B0 : mat T) : bool :=
  Nat.eqb (length I0) (mc A) && Nat.eqb (mr B0) (mr A) && Nat.eqb (mc B0) (mc A) &&
  forallb (fun i => (i <? mr A)%nat) I0 && nodupb I0 &&
  meqb (mmul K B0 (mrows K A I0)) (mkmat (mr A) (mc A) (mg A)) &&
  meqb (mrows K B0 I0) (mid K (mc A)).
End Maxvol.
