(* Model of teneva/act_many.py:add_many(Y_many, e, r, trunc_freq) on TT-tensor operands (C02).
   The running sum is rounded by the real model of truncate (Model/Svd.v), not by an abstract routine:
     Y = copy(Y_many[0])
     for i, Y_curr in enumerate(Y_many[1:]):
         Y = add(Y, Y_curr)
         if (i+1) % trunc_freq == 0: Y = truncate(Y, e)            # r = 1e12, orth, no stab, eigh mode
     return truncate(Y, e, r)
   The LAPACK routines are keyed by (number of the truncate call, mode number).  Number operands
   (int / float entries of Y_many) are not modelled.  trunc_freq = 0 raises ZeroDivisionError in Python as soon
   as the loop body runs: Err OtherError here. *)
From Coq Require Import List Arith Lia PeanoNat ZArith Bool.
From TV Require Import Num.Ops Lin.Tab Lin.BigSum Lin.Mat TT.Chain Model.ActOne Model.Transformation Model.Svd.
Import ListNotations.

Section ActMany.
Context {T : Type} (K : ops T).

Variable svdo : nat -> nat -> mat T -> mat T * list T * mat T.
Variable eigh : nat -> nat -> mat T -> list T * mat T.
Variable argsort : nat -> nat -> list T -> list nat.
Variable qr : nat -> nat -> mat T -> mat T * mat T.
Variable rq : nat -> nat -> mat T -> mat T * mat T.
Variable ilog2 : nat -> nat -> T -> Z.
Variable pow2frac : Z -> nat -> T.

(* the c-th call of truncate inside add_many: default flags orth=True, use_stab=False, is_eigh=True *)
Definition trunc_call (c : nat) (Y : list (core T)) (e : T) (rcap : Z) : result (list (core T)) :=
  truncate K (svdo c) (eigh c) (argsort c) (qr c) (rq c) (ilog2 c) pow2frac Y e rcap true false true.

(* int(1.E+12), the default cap of the intermediate roundings *)
Definition default_cap : Z := 1000000000000%Z.

Fixpoint add_many_loop (e : T) (freq : nat) (i nc : nat) (Y : list (core T)) (rest : list (list (core T)))
  : result (list (core T) * nat) :=
  match rest with
  | [] => Ok (Y, nc)
  | Yc :: rest' =>
      if Nat.eqb freq 0 then Err OtherError else
      let Y1 := add K Y Yc in
      if Nat.eqb (Nat.modulo (S i) freq) 0 then
        match trunc_call nc Y1 e default_cap with
        | Err er => Err er
        | Ok Y2 => add_many_loop e freq (S i) (S nc) Y2 rest'
        end
      else add_many_loop e freq (S i) nc Y1 rest'
  end.

Definition add_many (Ys : list (list (core T))) (e : T) (rcap : Z) (freq : nat) : result (list (core T)) :=
  match Ys with
  | [] => Err IndexError
  | Y0 :: rest =>
      match add_many_loop e freq O O (copy Y0) rest with
      | Err er => Err er
      | Ok (Y, nc) => trunc_call nc Y e rcap
      end
  end.
End ActMany.
