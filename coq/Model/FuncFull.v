(* Model of teneva/func_full.py: func_get_full, func_gets_full, func_int_full, func_sum_full (C12).
   Definitions only.  A dense d-dimensional array is a nested tensor [tens]; it is read through [tget]
   and built by comprehension [mktens ns f] (ns = the shape).  NumPy's swapaxes / reshape(order='F')
   bookkeeping of func_int_full ("move axis k to the front, flatten the rest, transform the columns,
   undo") is modelled by its net effect: a 1-D transform applied along axis k (tied by the correspondence).
   Oracles cs, tol as in Model/Func.v; tol16 is the literal 1.E-16 of func_sum_full. *)
From Coq Require Import List Arith Lia PeanoNat ZArith Bool.
From TV Require Import Num.Ops Lin.Tab Lin.BigSum TT.Chain Model.Func.
Import ListNotations.

Inductive tens (T : Type) := TS (x : T) | TN (l : list (tens T)).
Arguments TS {T}. Arguments TN {T}.

Section FuncFull.
Context {T : Type} (K : ops T).
Variable cs : nat -> nat -> T.
Variable tol : T.
Variable tol16 : T.
Notation "0" := (o0 K). Notation "1" := (o1 K).
Infix "+" := (oadd K). Infix "*" := (omul K). Infix "-" := (osub K). Infix "/" := (odiv K).
Notation "x <? y" := (oltb K x y).
Notation ftwo := (ftwo K). Notation fm1 := (fm1 K).

Fixpoint tget (A : tens T) (idx : list nat) : T :=
  match idx with
  | [] => match A with TS x => x | TN _ => 0 end
  | i :: idx' => match A with TS _ => 0 | TN l => tget (nth i l (TS 0)) idx' end
  end.
Fixpoint mktens (ns : list nat) (f : list nat -> T) : tens T :=
  match ns with
  | [] => TS (f [])
  | n :: ns' => TN (tab n (fun i => mktens ns' (fun idx => f (i :: idx))))
  end.
(* C-order flattening (what ndarray.reshape(-1) gives) *)
Fixpoint tflat (ns : list nat) (A : tens T) : list T :=
  match ns with
  | [] => [tget A []]
  | n :: ns' => flat_map (fun i => tflat ns' (match A with TN l => nth i l (TS 0) | TS _ => TS 0 end)) (seq 0 n)
  end.
(* transformation.full: the dense array of a TT-tensor *)
Definition tfull (Y : list (core T)) : tens T := mktens (shape Y) (fun idx => get K Y idx).

(* ------------------------------------------------------------------ func_int_full
     for k in range(d):  [axis k to the front, columns]  A = vstack([A, A[m-2:0:-1, :]])
         A = fft(A, axis=0).real;  A = A[:m, :] / (m - 1);  A[0, :] /= 2.;  A[m-1, :] /= 2.  [undo]
   real part of the length-(2m-2) FFT:  sum_t e_t cos(2 pi t k / (2m-2)) = sum_t e_t cs (m-1) (t*k)  *)
Definition even_ext (m : nat) (x : list T) : list T := x ++ tab (m - 2) (fun s => nth (m - 2 - s) x 0).
Definition int1_full (m : nat) (x : list T) (k : nat) : T :=
  let e := even_ext m x in
  halve_ends K m k (bsum K (2 * m - 2)%nat (fun t => nth t e 0 * cs (m - 1) (t * k)) / fnat K (m - 1)).
Definition upd (k j : nat) (idx : list nat) : list nat := firstn k idx ++ j :: skipn (S k) idx.
(* apply the 1-D map f (vector, output position -> value) along axis k *)
Definition taxis (ns : list nat) (k : nat) (f : list T -> nat -> T) (A : tens T) : tens T :=
  let n := nth k ns O in
  mktens ns (fun idx => f (tab n (fun j => tget A (upd k j idx))) (nth k idx O)).
Definition func_int_full (ns : list nat) (Y : tens T) : tens T :=
  fold_left (fun A k => taxis ns k (int1_full (nth k ns O)) A) (seq 0 (length ns)) Y.

(* ------------------------------------------------------------------ func_get_full
     T = func_basis(poi_scale(X, a, b, 'cheb'), max(n))
     Q = A.copy();  for j in range(d): Q = np.tensordot(Q, T[:n[j], i, j], axes=([0], [0]));  Y[i] = Q   *)
Fixpoint contract_loop (ns : list nat) (ts : list (list T)) (Q : tens T) : tens T :=
  match ns, ts with
  | n :: ns', t :: ts' =>
      contract_loop ns' ts' (mktens ns' (fun idx => bsum K n (fun i => tget Q (i :: idx) * nth i t 0)))
  | _, _ => Q
  end.
Fixpoint basis_rows_full (nmax : nat) (x : list T) (ns : list nat) (a b : list T) : list (list T) :=
  match x, ns, a, b with
  | xk :: x', n :: ns', ak :: a', bk :: b' =>
      firstn n (func_basis1 K (poi_scale_cheb K xk ak bk) nmax) :: basis_rows_full nmax x' ns' a' b'
  | _, _, _, _ => []
  end.
Definition func_get_full1 (x : list T) (ns : list nat) (A : tens T) (a b : list T) (z : T) (skip_out : bool) : T :=
  if skip_out && out_box K tol x a b then z
  else tget (contract_loop ns (basis_rows_full (fold_right Nat.max O ns) x ns a b) A) [].
Definition func_get_full (X : list (list T)) (ns : list nat) (A : tens T) (a b : list T) (z : T)
    (skip_out : bool) : list T :=
  map (fun x => func_get_full1 x ns A a b z skip_out) X.

(* ------------------------------------------------------------------ func_gets_full
     I = grid_flat(m);  X = ind_to_poi(I, -1., +1., m, 'cheb');  Z = func_get_full(X, A, -1., +1.)
     Z = Z.reshape(m, order='F')        (grid_flat enumerates in Fortran order: net effect Z[j] = value at node j) *)
Fixpoint nodes_of (jdx ms : list nat) : list T :=
  match jdx, ms with
  | j :: jdx', m :: ms' => ind_to_poi_cheb K cs j fm1 1 m :: nodes_of jdx' ms'
  | _, _ => []
  end.
Definition func_gets_full (ns : list nat) (A : tens T) (ms : list nat) : tens T :=
  let d := length ns in
  mktens ms (fun jdx => func_get_full1 (nodes_of jdx ms) ns A (repeat fm1 d) (repeat 1 d) 0 true).

(* ------------------------------------------------------------------ func_sum_full
     for k: if abs(abs(b[k]) - abs(a[k])) > 1.E-16: raise ValueError
     v = A.copy();  for k in range(d):  v = v.reshape(n[k], -1);  p = arange(n[k])[::2] (repeated)
         v = np.sum(v[::2, :] * 2. / (1. - p**2), axis=0);  v *= (b[k] - a[k]) / 2.
     return v[0]                                                                                  *)
Definition asym (ak bk : T) : bool := tol16 <? oabs K (oabs K bk - oabs K ak).
Fixpoint sum_full_loop (ns : list nat) (a b : list T) (v : tens T) : tens T :=
  match ns, a, b with
  | n :: ns', ak :: a', bk :: b' =>
      sum_full_loop ns' a' b'
        (mktens ns' (fun idx => bsum K ((n + 1) / 2)%nat (fun t =>
             tget v ((2 * t)%nat :: idx) * ftwo / (1 - fnat K (2 * t)%nat * fnat K (2 * t)%nat)) * ((bk - ak) / ftwo)))
  | _, _, _ => v
  end.
Definition func_sum_full (ns : list nat) (A : tens T) (a b : list T) : result T :=
  if existsb (fun p => asym (fst p) (snd p)) (combine a b) then Err ValueError
  else Ok (tget (sum_full_loop ns a b A) []).
End FuncFull.
