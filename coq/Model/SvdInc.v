(* Model of teneva/svd.py: svd_incomplete(I, Y, idx, idx_many, e, r)  (property C20).

   The routine consumes the block layout produced by teneva.sample_tt (Model/Sample.v: sample_tt):
   block k = rows idx[k] .. idx[k+1] of I, ordered (value of mode k, sampled prefix, sampled suffix),
   idx_many[k] = number of sampled suffixes.  The first core is the left skeleton factor of block 0
   (matrix_skeleton of Model/Svd.v, give_to='m'); every further core is assembled, slice by slice of the
   mode, from np.linalg.lstsq(A, b, rcond=-1)[0] where the rows of A are the left interface vectors
   teneva.get(Y_res[:mode], prefix, _to_item=False)[0] (= Chain.run [1] cores prefix) of the sampled
   prefixes and b holds the block values (replaced by their left skeleton factor when the block has more
   columns than the rank cap).

   np.linalg.svd and np.linalg.lstsq are oracles numbered by call (svd: nsvd, lstsq: nlsq, in call
   order).  Besides the cores the model returns the trace of oracle calls WITH their arguments, which
   the correspondence compares with the arguments recorded on the implementation.

   Modelled errors: empty I (np.max raises ValueError), idx / idx_many too short (IndexError),
   a block whose length is not divisible (reshape raises ValueError), idx_many[mode] = 0 (slice step,
   ValueError), an empty block (IndexError), row-count mismatch in lstsq (LinAlgError).
   Not modelled: r that is not integer-valued (only int(r) = r is covered), negative entries of I / idx
   (Python negative indexing), rows of I of unequal length. *)
From Coq Require Import List Arith Lia PeanoNat ZArith Bool.
From TV Require Import Num.Ops Lin.Tab Lin.BigSum Lin.Mat TT.Chain Model.Transformation Model.Svd.
Import ListNotations.

(* Python slice l[a:b] for 0 <= a, 0 <= b (clamps like Python) *)
Definition slice {A} (a b : nat) (l : list A) : list A := firstn (b - a) (skipn a l).
(* l[::k] for k >= 1 *)
Definition every {A} (d0 : A) (k : nat) (l : list A) : list A :=
  tab ((length l + k - 1) / k) (fun t => nth (t * k) l d0).
(* np.max(I, axis=0) + 1 for a non-empty I *)
Definition colmax1 (I : list (list nat)) : list nat :=
  tab (length (hd [] I)) (fun j => S (fold_right (fun row acc => Nat.max (nth j row O) acc) O I)).

Section SvdInc.
Context {T : Type} (K : ops T).
Notation "0" := (o0 K). Notation "1" := (o1 K).

Variable svdo : nat -> mat T -> mat T * list T * mat T.   (* np.linalg.svd(A, full_matrices=False) *)
Variable lstsq : nat -> mat T -> mat T -> mat T.           (* np.linalg.lstsq(A, b, rcond=-1)[0] *)

(* a flat list reshaped to (m, n), C order *)
Definition mat_of (m n : nat) (l : list T) : mat T := mkmat m n (fun i j => nth (i * n + j) l 0).
(* A[a:b] (rows) *)
Definition mrange (A : mat T) (a b : nat) : mat T :=
  mkmat (Nat.min b (mr A) - a) (mc A) (fun i j => mget K A (a + i) j).
(* a list of rows of length c as a matrix *)
Definition mat_rows (c : nat) (rows : list (list T)) : mat T := mk_mat (length rows) c rows.

Inductive call := CSvd (A : mat T) | CLsq (A b : mat T).
Record st := mk_st { cores : list (core T); nsvd : nat; nlsq : nat; trace : list call }.

(* Y_curr = Y[idx[0]:idx[1]].reshape(shapes[0], -1); Y_curr, _ = matrix_skeleton(Y_curr, e, r);
   Y_res = [Y_curr[None, ...]] *)
Definition inc_first (Y : list T) (idx : list nat) (n0 : nat) (e : T) (rcap : Z) : result st :=
  let Yc := slice (nth 0 idx O) (nth 1 idx O) Y in
  if negb (length Yc mod n0 =? 0) then Err ValueError else
  let A := mat_of n0 (length Yc / n0) Yc in
  let U := fst (matrix_skeleton K svdo O A e rcap false GiveM) in
  Ok (mk_st [mkcore 1 n0 (mc U) (fun _ i b => mget K U i b)] 1 O [CSvd A]).

(* the body of `for mode in range(1, d)` *)
Definition inc_step (I : list (list nat)) (Y : list T) (idx idx_many shapes : list nat) (d : nat)
  (e : T) (rcap : Z) (mode : nat) (s : st) : result st :=
  let r0 := cr2 (last (cores s) dcore) in
  let r1 := if mode <? d - 1 then rcap else 1%Z in
  let n := nth mode shapes O in
  let lm := nth mode idx_many O in
  if lm =? 0 then Err ValueError else
  let Ic := slice (nth mode idx O) (nth (S mode) idx O) I in
  if length Ic =? 0 then Err IndexError else   (* np.array([])[:, 0, :] *)
  (* M = np.array([get(Y_res[:mode], i, _to_item=False) for i in I_curr[::idx_many[mode], :mode]])[:, 0, :] *)
  let M := mat_rows r0 (map (fun i => run K [1] (firstn mode (cores s)) (firstn mode i)) (every [] lm Ic)) in
  (* Y_curr = Y[idx[mode]:idx[mode+1]].reshape(-1, idx_many[mode]) *)
  let Yc := slice (nth mode idx O) (nth (S mode) idx O) Y in
  if negb (length Yc mod lm =? 0) then Err ValueError else
  let Y0 := mat_of (length Yc / lm) lm Yc in
  (* if Y_curr.shape[1] > r1: Y_curr, _ = matrix_skeleton(Y_curr, e, r1) *)
  let skel := (r1 <? Z.of_nat lm)%Z in
  let Y1 := if skel then fst (matrix_skeleton K svdo (nsvd s) Y0 e r1 false GiveM) else Y0 in
  let r1' := mc Y1 in
  let step := mr Y1 / n in
  let Ai := fun i => mrange M (i * step) ((i + 1) * step) in
  let bi := fun i => mrange Y1 (i * step) ((i + 1) * step) in
  if negb (forallb (fun i => mr (Ai i) =? mr (bi i)) (seq 0 n)) then Err LinAlgError else
  (* G[:, i, :] = np.linalg.lstsq(A, b, rcond=-1)[0] *)
  let Xs := tab n (fun i => lstsq (nlsq s + i) (Ai i) (bi i)) in
  let G := mkcore r0 n r1' (fun a i b => mget K (nth i Xs (mk_mat O O [])) a b) in
  Ok (mk_st (cores s ++ [G]) (nsvd s + (if skel then 1 else 0)) (nlsq s + n)
            (trace s ++ (if skel then [CSvd Y0] else []) ++ tab n (fun i => CLsq (Ai i) (bi i)))).

Definition inc_loop (I : list (list nat)) (Y : list T) (idx idx_many shapes : list nat) (d : nat)
  (e : T) (rcap : Z) (modes : list nat) (s0 : result st) : result st :=
  fold_left (fun acc mode => rbind acc (inc_step I Y idx idx_many shapes d e rcap mode)) modes s0.

Definition svd_incomplete_st (I : list (list nat)) (Y : list T) (idx idx_many : list nat) (e : T) (rcap : Z)
  : result st :=
  match I with
  | [] => Err ValueError
  | _ =>
      let shapes := colmax1 I in
      let d := length shapes in
      if (d =? 0) || (length idx <? d + 1) || ((1 <? d) && (length idx_many <? d)) then Err IndexError else
      inc_loop I Y idx idx_many shapes d e rcap (seq 1 (d - 1)) (inc_first Y idx (nth 0 shapes O) e rcap)
  end.

Definition svd_incomplete (I : list (list nat)) (Y : list T) (idx idx_many : list nat) (e : T) (rcap : Z)
  : result (list (core T)) :=
  rmap cores (svd_incomplete_st I Y idx idx_many e rcap).

End SvdInc.
