(* Model of teneva/optima_func.py (C15): _find_poly_max (cheb=False, take_abs=True, k_max an int) and the bookkeeping of
   optima_func_tt_beam / _step_top_k that assembles the returned points.  Executable definitions only.
   Oracles (Section variables):
     roots s i dp     real parts of the numerically real entries of np.polynomial.polynomial.polyroots(dp)
                      (x0[abs(imag(x0)) < 1e-4].real), called for candidate i of mode s
     argsort1 s i v   np.argsort(vals) inside _find_poly_max
     argsort2 s v     np.argsort(all_y) inside _step_top_k
     sqpolys s        the power-basis coefficient lists of the squared partial interpolants handed to _find_poly_max in
                      mode s, one per kept candidate (einsum + Chebyshev algebra + convert: not modelled) *)
From Coq Require Import List Arith Lia PeanoNat ZArith Bool.
From TV Require Import Num.Ops Lin.Tab Lin.BigSum.
Import ListNotations.

Section OptimaFunc.
Context {T : Type} (K : ops T).
Notation "0" := (o0 K). Notation "1" := (o1 K).
Infix "+" := (oadd K). Infix "*" := (omul K).

Variable roots : nat -> nat -> list T -> list T.
Variable argsort1 : nat -> nat -> list T -> list nat.
Variable argsort2 : nat -> list T -> list nat.
Variable sqpolys : nat -> list (list T).

Definition m1 : T := oopp K 1.
(* dp = np.polyder(p[::-1])[::-1]   (coefficients low power first) *)
Definition polyder (p : list T) : list T :=
  tab (length p - 1) (fun j => oofZ K (Z.of_nat (S j)) * nth (S j) p 0).
(* np.polynomial.polynomial.polyval(x, p): Horner *)
Definition polyval (p : list T) (x : T) : T := fold_right (fun c acc => c + x * acc) 0 p.
Definition in_clip (x : T) : bool := oleb K m1 x && oleb K x 1.
(* the candidate points: real critical points inside [-1, 1], then the end points unless already present.
   A constant polynomial has no derivative coefficients: polyroots is not called (commit 7bc82cb) *)
Definition cand_points (s i : nat) (p : list T) : list T :=
  let dp := polyder p in
  let x0 := if Nat.eqb (length dp) 0 then [] else roots s i dp in
  let x0 := filter in_clip x0 in
  let x0 := if existsb (oeqb K m1) x0 then x0 else x0 ++ [m1] in
  if existsb (oeqb K 1) x0 then x0 else x0 ++ [1].
(* idx = np.argsort(vals)[::-1][:k_max];  return x0[idx], vals[idx] *)
Definition find_poly_max (s i : nat) (p : list T) (k_max : nat) : list T * list T :=
  let x0 := cand_points s i p in
  let vals := map (fun x => oabs K (polyval p x)) x0 in
  let idx := firstn k_max (rev (argsort1 s i vals)) in
  (map (fun t => nth t x0 0) idx, map (fun t => nth t vals 0) idx).

Fixpoint cumsum_from (a : nat) (l : list nat) : list nat :=
  match l with [] => [] | x :: l' => (a + x)%nat :: cumsum_from (a + x) l' end.
(* np.searchsorted(cs, v, side='right'): number of entries <= v (cs is non-decreasing) *)
Definition searchsorted_r (cs : list nat) (v : nat) : nat := length (filter (fun c => c <=? v) cs).

(* one mode: candidates of every kept point, the k best of all of them, each appended to the point it extends *)
Definition func_step (s : nat) (X_prev : option (list (list T))) (k k_loc : nat) : list (list T) :=
  let ps := sqpolys s in
  let per := tab (length ps) (fun i => find_poly_max s i (nth i ps []) k_loc) in
  let all_x := concat (map fst per) in
  let all_y := concat (map snd per) in
  let cs := cumsum_from O (map (fun r => length (fst r)) per) in
  let idx_maxx := firstn k (rev (argsort2 s all_y)) in
  map (fun idx => (match X_prev with None => [] | Some X => nth (searchsorted_r cs idx) X [] end)
                  ++ [nth idx all_x 0]) idx_maxx.
Fixpoint func_loop (d s : nat) (X : option (list (list T))) (k k_loc : nat) : option (list (list T)) :=
  match d with O => X | S d' => func_loop d' (S s) (Some (func_step s X k k_loc)) k k_loc end.
(* ret_all=True: all points; ret_all=False: X_prev[0] *)
Definition optima_func_all (d k k_loc : nat) : list (list T) :=
  match func_loop d O None k k_loc with None => [] | Some X => X end.
Definition optima_func_tt_beam (d k k_loc : nat) : list T := hd [] (optima_func_all d k k_loc).
End OptimaFunc.

(* ---------- the rank-1 path of optima_func_tt_beam, modelled in full ----------
   For TT-rank 1 the orthogonalised coefficient cores are vectors; mode s contributes the univariate factor f_s (its power-basis
   coefficients, low power first: cheb2poly of the Chebyshev coefficients of the core with the sqrt(2) scaling undone), G_prev
   holds one scalar g per kept point (the product of the factors at its coordinates), and the polynomial handed to
   _find_poly_max for that point is (g * f_s)^2.  G_new = G_prev[idx_prev] * f_s(x_new). *)
Section OptimaFuncR1.
Context {T : Type} (K : ops T).
Notation "0" := (o0 K). Notation "1" := (o1 K).
Infix "+" := (oadd K). Infix "*" := (omul K).
Variable roots : nat -> nat -> list T -> list T.
Variable argsort1 : nat -> nat -> list T -> list nat.
Variable argsort2 : nat -> list T -> list nat.

Fixpoint padd (p q : list T) : list T :=
  match p, q with
  | [], _ => q
  | _, [] => p
  | a :: p', b :: q' => (a + b) :: padd p' q'
  end.
(* polynomial product (coefficients low power first): length p + length q - 1 coefficients *)
Fixpoint pmul (p q : list T) : list T :=
  match p with
  | [] => []
  | [a] => map (fun c => a * c) q
  | a :: p' => padd (map (fun c => a * c) q) (0 :: pmul p' q)
  end.
(* sum([Chebyshev(cf)**2 for cf in G0.T]).convert(Polynomial) with the single column cf = g * (coefficients of f) *)
Definition sq_poly_r1 (g : T) (f : list T) : list T := map (fun c => g * g * c) (pmul f f).

Definition func_step_r1 (s : nat) (f : list T) (kept : list (list T * T)) (k k_loc : nat) : list (list T * T) :=
  let per := tab (length kept) (fun i => find_poly_max K roots argsort1 s i (sq_poly_r1 (snd (nth i kept ([], 0))) f) k_loc) in
  let all_x := concat (map fst per) in
  let all_y := concat (map snd per) in
  let cs := cumsum_from O (map (fun r => length (fst r)) per) in
  let idx_maxx := firstn k (rev (argsort2 s all_y)) in
  map (fun idx => let prev := nth (searchsorted_r cs idx) kept ([], 0) in
                  let x := nth idx all_x 0 in
                  (fst prev ++ [x], snd prev * polyval K f x)) idx_maxx.
Fixpoint func_loop_r1 (s : nat) (fs : list (list T)) (kept : list (list T * T)) (k k_loc : nat) : list (list T * T) :=
  match fs with [] => kept | f :: fs' => func_loop_r1 (S s) fs' (func_step_r1 s f kept k k_loc) k k_loc end.
(* X_prev = None, G_prev = [[1.]];  ret_all=True: all points;  ret_all=False: the first *)
Definition optima_func_r1_all (fs : list (list T)) (k k_loc : nat) : list (list T) :=
  map fst (func_loop_r1 O fs [([], 1)] k k_loc).
Definition optima_func_r1 (fs : list (list T)) (k k_loc : nat) : list T := hd [] (optima_func_r1_all fs k k_loc).
(* the interpolant of the rank-1 coefficient tensor at the point z *)
Fixpoint prodf (fs : list (list T)) (z : list T) : T :=
  match fs, z with f :: fs', x :: z' => polyval K f x * prodf fs' z' | _, _ => 1 end.
End OptimaFuncR1.
