(* Model of teneva/anova.py (class ANOVA: build, build_0/1/2, calc, cores, cores_1, cores_2,
   pair_num_to_num; _core_one, _second_order_2_tt; function anova) and of act_many.add_many (C13).
   Executable definitions only; lemmas are in Proofs/AnovaP.v.

   Samples: I : list (list Z) (rows of I_trn, integer valued), y : list T.
   The dictionaries f1[k] / f2[num] of the Python class are stored in the order of the sorted domain
   (that is exactly f1_arr / f2_arr of the class); a dictionary lookup f1[k][x] is [zindex x domain_k]
   followed by [nth].
   Oracles (arguments of the model functions):
     g     : call-no -> a -> i -> b -> T      self.rand.normal(size=(r1,n,r2)), one call per core of cores_1
     skel  : call-no -> mat T -> mat T * mat T teneva.matrix_skeleton(A)   (contract: U V = A)
     trunc : call-no -> list core -> list core teneva.truncate(Y, e[, r]) inside add_many *)
From Coq Require Import List Arith Lia PeanoNat ZArith Bool.
From TV Require Import Num.Ops Lin.Tab Lin.BigSum Lin.Mat TT.Chain Model.ActOne.
Import ListNotations.

(* ---------- carrier independent part ---------- *)

(* np.unique on one integer column: sorted, distinct *)
Fixpoint zinsert (x : Z) (l : list Z) : list Z :=
  match l with
  | [] => [x]
  | y :: l' => if (x <? y)%Z then x :: l else if (x =? y)%Z then l else y :: zinsert x l'
  end.
Definition unique (l : list Z) : list Z := fold_right zinsert [] l.
Definition column (k : nat) (I : list (list Z)) : list Z := map (fun row => nth k row 0%Z) I.
(* self.d = I_trn.shape[1] *)
Definition dimI (I : list (list Z)) : nat := length (hd [] I).
Definition domain (I : list (list Z)) : list (list Z) := tab (dimI I) (fun k => unique (column k I)).
Definition shapes (dom : list (list Z)) : list nat := map (@length Z) dom.
(* dictionary lookup: position of the key x among the sorted keys; None = KeyError *)
Fixpoint zindex (x : Z) (l : list Z) : option nat :=
  match l with
  | [] => None
  | y :: l' => if (x =? y)%Z then Some O else option_map S (zindex x l')
  end.

(* pair_num_to_num(x1, x2), Python integers, // is floor division *)
Definition pair_num (d x1 x2 : Z) : result Z :=
  if (x1 =? x2)%Z then Err AssertionError else
  let a := if (x1 >? x2)%Z then x2 else x1 in
  let b := if (x1 >? x2)%Z then x1 else x2 in
  Ok (b - 1 + ((-3 + 2 * d - a) * a) / 2)%Z.
Definition pair_num_nat (d i j : nat) : nat :=
  match pair_num (Z.of_nat d) (Z.of_nat i) (Z.of_nat j) with Ok z => Z.to_nat z | Err _ => O end.
(* the loop order of build_2 / cores_2:  for k1 in range(d-1): for k2 in range(k1+1, d) *)
Definition pairs (d : nat) : list (nat * nat) :=
  flat_map (fun i => map (fun j => (i, j)) (seq (S i) (d - S i))) (seq 0 (d - 1)).
(* only_near: for i1 in range(d-1): for i2 in [i1+1] *)
Definition pairs_near (d : nat) : list (nat * nat) := map (fun i => (i, S i)) (seq 0 (d - 1)).

(* the state of an ANOVA object (order, domain, f0, f1_arr, f2_arr) *)
Record anova (T : Type) := mk_anova {
  a_order : nat; a_dom : list (list Z); a_f0 : T; a_f1 : list (list T); a_f2 : list (mat T) }.
Arguments mk_anova {T}. Arguments a_order {T}. Arguments a_dom {T}. Arguments a_f0 {T}.
Arguments a_f1 {T}. Arguments a_f2 {T}.
Definition a_d {T} (M : anova T) : nat := length (a_dom M).

Section Anova.
Context {T : Type} (K : ops T).
Notation anova := (anova T).
Notation "0" := (o0 K). Notation "1" := (o1 K).
Infix "+" := (oadd K). Infix "*" := (omul K). Infix "-" := (osub K). Infix "/" := (odiv K).

(* np.mean of a 1-D float array *)
Definition mean (l : list T) : T := lsum K l / natT K (length l).
(* y_trn[mask] where mask is a predicate on the rows of I_trn *)
Definition sel (p : list Z -> bool) (I : list (list Z)) (y : list T) : list T :=
  map snd (filter (fun r => p (fst r)) (combine I y)).
(* I_trn[:, k] == x *)
Definition at_ (k : nat) (x : Z) (row : list Z) : bool := (nth k row 0%Z =? x)%Z.

Definition build_0 (y : list T) : T := mean y.
(* f1_arr: f1[k] listed in the order of domain[k] *)
Definition build_1 (dom : list (list Z)) (I : list (list Z)) (y : list T) (f0 : T) : list (list T) :=
  tab (length dom) (fun k => map (fun x => mean (sel (at_ k x) I y) - f0) (nth k dom [])).
(* f2_arr reshaped: f2[num] as the matrix over domain[k1] x domain[k2], pairs in loop order *)
Definition build_2 (dom : list (list Z)) (I : list (list Z)) (y : list T) (f0 : T) (f1 : list (list T))
  : list (mat T) :=
  map (fun p : nat * nat =>
         let (k1, k2) := p in
         let dm1 := nth k1 dom [] in let dm2 := nth k2 dom [] in
         mkmat (length dm1) (length dm2) (fun a b =>
           let l := sel (fun row => at_ k1 (nth a dm1 0%Z) row && at_ k2 (nth b dm2 0%Z) row) I y in
           match l with
           | [] => 0
           | _ => mean l - f0 - nth a (nth k1 f1 []) 0 - nth b (nth k2 f1 []) 0
           end))
      (pairs (length dom)).


(* ANOVA(I_trn, y_trn, order) *)
Definition ANOVA (I : list (list Z)) (y : list T) (order : nat) : result anova :=
  if negb ((order =? 1) || (order =? 2)) then Err ValueError else
  let dom := domain I in
  let f0 := build_0 y in
  let f1 := build_1 dom I y f0 in
  let f2 := if 2 <=? order then build_2 dom I y f0 f1 else [] in
  Ok (mk_anova order dom f0 f1 f2).

(* calc on positions in the domain (pos_k = position of x_k in domain[k]) *)
Definition calc_1_pos (M : anova) (pos : list nat) : T :=
  bsum K (length pos) (fun k => nth (nth k pos O) (nth k (a_f1 M) []) 0).
Definition calc_2_pos (M : anova) (pos : list nat) : T :=
  lsum K (map (fun p : nat * nat => let (i, j) := p in
                 mget K (nth (pair_num_nat (a_d M) i j) (a_f2 M) (mk_mat O O [])) (nth i pos O) (nth j pos O))
              (pairs (length pos))).
Definition calc_pos (M : anova) (pos : list nat) : T :=
  let r0 := a_f0 M in
  let r1 := if 1 <=? a_order M then r0 + calc_1_pos M pos else r0 in
  if 2 <=? a_order M then r1 + calc_2_pos M pos else r1.
(* calc(x) on original index values: dictionary lookups, KeyError -> OtherError *)
Fixpoint lookups (dom : list (list Z)) (x : list Z) : result (list nat) :=
  match x with
  | [] => Ok []
  | v :: x' =>
      match dom with
      | [] => Err IndexError
      | dm :: dom' =>
          match zindex v dm with
          | None => Err OtherError
          | Some p => rmap (cons p) (lookups dom' x')
          end
      end
  end.
Definition calc (M : anova) (x : list Z) : result T := rmap (calc_pos M) (lookups (a_dom M) x).

(* ---- cores_1 ---- *)
(* noise * rand.normal(size=(r1,n,r2)) followed by the slice assignments [over] *)
Definition ncore (noise : T) (g : nat -> nat -> nat -> T) (r1 n r2 : nat)
           (over : nat -> nat -> nat -> option T) : core T :=
  mkcore r1 n r2 (fun a i b => match over a i b with Some v => v | None => noise * g a i b end).
Definition core1_first (r : nat) (noise : T) g (f : list T) : core T :=
  ncore noise g 1 (length f) r
    (fun a i b => if b =? 0 then Some 1 else if b =? 1 then Some (nth i f 0) else None).
Definition core1_mid (r : nat) (noise : T) g (f : list T) : core T :=
  ncore noise g r (length f) r
    (fun a i b => if (a =? 0) && (b =? 0) then Some 1
                  else if (a =? 1) && (b =? 1) then Some 1
                  else if (a =? 0) && (b =? 1) then Some (nth i f 0) else None).
Definition core1_last (r : nat) (noise : T) g (f : list T) (f0 : T) : core T :=
  ncore noise g r (length f) 1
    (fun a i b => if a =? 0 then Some (nth i f 0 + f0) else if a =? 1 then Some 1 else None).
Definition cores_1 (M : anova) (r : nat) (noise : T) (g : nat -> nat -> nat -> nat -> T) : list (core T) :=
  let d := a_d M in let f1 := a_f1 M in
  core1_first r noise (g O) (nth O f1 [])
  :: tab (d - 2) (fun t => core1_mid r noise (g (S t)) (nth (S t) f1 []))
  ++ [core1_last r noise (g (S (d - 2))) (nth (d - 1) f1 []) (a_f0 M)].

(* ---- _core_one, _second_order_2_tt ---- *)
Definition core_one (n r : nat) : core T := mkcore r n r (fun a _ b => if a =? b then 1 else 0).
Definition core_ones (n : nat) : core T := mkcore 1 n 1 (fun _ _ _ => 1).
Definition second_order_2_tt (skel : mat T -> mat T * mat T) (A : mat T) (i j : nat) (shp : list nat)
  : list (core T) :=
  let i' := if j <? i then j else i in let j' := if j <? i then i else j in
  let A' := if j <? i then mtrans K A else A in
  let (U, V) := skel A' in
  let r := mc U in
  let core1 := mkcore 1 (mr U) r (fun _ x c => mget K U x c) in
  let core2 := mkcore r (mc V) 1 (fun c x _ => mget K V c x) in
  concat (tab (length shp) (fun num =>
    let n := nth num shp O in
    (if (num <? i') || (j' <? num) then [core_ones n] else [])
    ++ (if num =? i' then [core1] else [])
    ++ (if num =? j' then [core2] else [])
    ++ (if (i' <? num) && (num <? j') then [core_one n r] else []))).

(* cores_2(r, only_near): the matrix of pair number num (running counter) is f2_arr[num];
   reshape raises ValueError when the sizes do not match (possible only with only_near) *)
Fixpoint rseq {A} (l : list (result A)) : result (list A) :=
  match l with
  | [] => Ok []
  | x :: l' => rbind x (fun a => rbind (rseq l') (fun r => Ok (a :: r)))
  end.
Definition cores_2 (M : anova) (only_near : bool) (skel : nat -> mat T -> mat T * mat T)
  : result (list (list (core T))) :=
  let ps := if only_near then pairs_near (a_d M) else pairs (a_d M) in
  let shp := shapes (a_dom M) in
  rseq (tab (length ps) (fun num =>
    let p := nth num ps (O, O) in
    let A := nth num (a_f2 M) (mk_mat O O []) in
    let n1 := nth (fst p) shp O in let n2 := nth (snd p) shp O in
    (* f2_arr[num].reshape((shapes[i1], shapes[i2]), order='C') *)
    let flat := concat (md A) in
    if negb (length flat =? n1 * n2) then Err ValueError else
    let A' := mkmat n1 n2 (fun a b => nth (a * n2 + b) flat 0) in
    Ok (second_order_2_tt (skel num) A' (fst p) (snd p) shp))).

(* ---- act_many.add_many(Y_many, e, r, trunc_freq=15) on TT-tensors ---- *)
Fixpoint add_many_loop (trunc : nat -> list (core T) -> list (core T)) (i nc : nat) (Y : list (core T))
         (rest : list (list (core T))) : list (core T) * nat :=
  match rest with
  | [] => (Y, nc)
  | Yc :: rest' =>
      let Y1 := add K Y Yc in
      if Nat.eqb (Nat.modulo (S i) 15) 0 then add_many_loop trunc (S i) (S nc) (trunc nc Y1) rest'
      else add_many_loop trunc (S i) nc Y1 rest'
  end.
Definition add_many (trunc : nat -> list (core T) -> list (core T)) (Ys : list (list (core T)))
  : list (core T) :=
  match Ys with
  | [] => []
  | Y0 :: rest => let (Y, nc) := add_many_loop trunc O O (copy Y0) rest in trunc nc Y
  end.

(* ANOVA.cores(r, noise, only_near) *)
Definition cores (M : anova) (r : nat) (noise : T) (only_near : bool) g skel trunc : result (list (core T)) :=
  if a_order M <? 1 then Err ValueError else
  if r <? 2 then Err IndexError else
  let c1 := cores_1 M r noise g in
  if 2 <=? a_order M then rmap (fun c2 => add_many trunc (c1 :: c2)) (cores_2 M only_near skel) else Ok c1.

(* teneva.anova(I_trn, y_trn, r, order, noise, seed) *)
Definition anova_tt (I : list (list Z)) (y : list T) (r order : nat) (noise : T) g skel trunc
  : result (list (core T)) :=
  rbind (ANOVA I y order) (fun M => cores M r noise false g skel trunc).
End Anova.
