(* Model of teneva/als_func.py: als_func with n_max=None, update_sol=None, lamb given, and a basis whose
   number of functions equals the mode size of A0 (H[k].shape[1] == A0[k].shape[1]; this is what the default
   Chebyshev path builds: fh_size = Y[0].shape[1]).  Then n[k] stays A0[k].shape[1] in every step, no slicing
   / padding happens and the two "c[:, n_k:, :] = 0" loops are empty.  Definitions only.

   Representation.
     * H is the list (over modes k) of the matrices H[k] = fh_k(X_trn[:, k]).T, stored as the list of their rows:
       nth j (nth k H) = basis values of sample j in mode k (length n_k).
     * Yl[k] is stored as the list of its rows, Yr[k] as the list of its COLUMNS (as in Model/Als.v).
   Oracles: [solve] = scipy.linalg.lstsq(N, rhs, lapack_driver='gelsy')[0]; [acc]/[accv] = teneva.accuracy and the
     validation error (the value -1 when no validation data is given).
   NOT modelled: n_max (dynamic search of the mode size), update_sol, lamb=None, log, info['t'], info['r'],
     a basis with more functions than the mode size of A0 (zero padding + growing n[k]); in the default Chebyshev
     path this means: all mode sizes of A0 equal (as the docstring requires), vector-valued a, b. *)
From Coq Require Import List Arith Lia PeanoNat Bool.
From TV Require Import Num.Ops Lin.Tab Lin.BigSum Lin.Solve TT.Chain Model.Als.
From TV Require Model.Func Model.GridPoi.
Import ListNotations.

Section AlsFunc.
Context {T : Type} (K : ops T).
Notation "0" := (o0 K). Notation "1" := (o1 K).
Infix "+" := (oadd K). Infix "*" := (omul K). Infix "-" := (osub K).

Variable solve : list (list T) -> list T -> list T.

(* the r1 x r2 matrix  sum_i h[i] * G[:, i, :]  a sample with basis row h sees in place of a slice, as a core
   with a single slice *)
Definition hcore (G : core T) (h : list T) : core T :=
  mkcore (cr1 G) 1 (cr2 G) (fun a _ b => bsum K (cn G) (fun i => nth i h 0 * cget K G a i b)).

(* ------------------------------------------------------------------ _optimize_core (n_max=None, lamb given)
     A = contract('li,ik,ij->ikjl', Yr, Yl, Hk).reshape(m, -1):  A[s, (k*n + j)*r2 + l] = Yr[l,s] * Yl[s,k] * Hk[s,j]
     AtA = A.T @ A; Aty = A.T @ y_trn; sol = lstsq(AtA + lamb*identity, Aty); Q[...] = sol.reshape(Q.shape)      *)
Definition frow (r1 n r2 : nat) (l h r : list T) : list T :=
  tab (r1 * n * r2) (fun c => nth (c mod r2) r 0 * nth (c / r2 / n) l 0 * nth ((c / r2) mod n) h 0).
(* sample s of the training set as seen by core k: (y_s, (Yl[k][s,:], (Yr[k][:,s], H[k][s,:]))) *)
Definition fzipped : Type := (T * (list T * (list T * list T)))%type.
Definition fzip (y : list T) (L R Hk : list (list T)) : list fzipped := combine y (combine L (combine R Hk)).
Definition frow_of (r1 n r2 : nat) (z : fzipped) : lrow :=
  (frow r1 n r2 (fst (snd z)) (snd (snd (snd z))) (fst (snd (snd z))), fst z, 1).
Definition frows (r1 n r2 : nat) (Z : list fzipped) : list lrow := map (frow_of r1 n r2) Z.
Definition fopt_sol (lamb : T) (r1 n r2 : nat) (Z : list fzipped) : list T :=
  lstsq K solve (r1 * n * r2) lamb (frows r1 n r2 Z).
Definition put_core (Q : core T) (x : list T) : core T :=
  mkcore (cr1 Q) (cn Q) (cr2 Q) (fun a i b => nth ((a * cn Q + i) * cr2 Q + b) x 0).
Definition fopt_coreZ (lamb : T) (Q : core T) (Z : list fzipped) : core T :=
  put_core Q (fopt_sol lamb (cr1 Q) (cn Q) (cr2 Q) Z).
Definition fopt_core (lamb : T) (Q : core T) (y : list T) (L R Hk : list (list T)) : core T :=
  fopt_coreZ lamb Q (fzip y L R Hk).

(* ------------------------------------------------------------------ interface updates
     contract('jr,jk,krl->jl', Hk, Yl[k], Y[k], out=Yl[k+1])   row s of Yl[k+1] = Yl[k][s,:] @ (sum_r Hk[s,r] Y[k][:,r,:])
     contract('jr,irk,kj->ij', Hk, Y[k], Yr[k], out=Yr[k-1])   col s of Yr[k-1] = (sum_r Hk[s,r] Y[k][:,r,:]) @ Yr[k][:,s] *)
Definition flupdate (G : core T) (Hk Lk : list (list T)) : list (list T) :=
  map (fun hl => vstep K (snd hl) (hcore G (fst hl)) O) (combine Hk Lk).
Definition frupdate (G : core T) (Hk Rk : list (list T)) : list (list T) :=
  map (fun hr => rstep K (hcore G (fst hr)) O (snd hr)) (combine Hk Rk).

Record fstate := mk_fstate { fY : list (core T); fL : list (list (list T)); fR : list (list (list T)) }.

(*  Yl = [np.ones((m, A0[k].shape[0])) ...];  Yr = [np.ones((A0[k].shape[2], m)) ...]
    for k in range(d-1, 0, -1): contract('ik,rkq,qi->ri', H[k], Y[k], Yr[k], out=Yr[k-1])                 *)
Definition finit_st (H : list (list (list T))) (y : list T) (A0 : list (core T)) : fstate :=
  let m := length y in
  let d := length A0 in
  let Yl := map (fun G => repeat (repeat 1 (cr1 G)) m) A0 in
  let Yr0 := map (fun G => repeat (repeat 1 (cr2 G)) m) A0 in
  let Yr := fold_left (fun Yr k => upd (pred k) (frupdate (nth k A0 dcore) (nth k H []) (nth k Yr [])) Yr)
                      (rev (seq 1 (d - 1))) Yr0 in
  mk_fstate A0 Yl Yr.

Definition ffwd_step (lamb : T) (y : list T) (H : list (list (list T))) (s : fstate) (k : nat) : fstate :=
  let G := fopt_core lamb (nth k (fY s) dcore) y (nth k (fL s) []) (nth k (fR s) []) (nth k H []) in
  mk_fstate (upd k G (fY s)) (upd (S k) (flupdate G (nth k H []) (nth k (fL s) [])) (fL s)) (fR s).
Definition fbwd_step (lamb : T) (y : list T) (H : list (list (list T))) (s : fstate) (k : nat) : fstate :=
  let G := fopt_core lamb (nth k (fY s) dcore) y (nth k (fL s) []) (nth k (fR s) []) (nth k H []) in
  mk_fstate (upd k G (fY s)) (fL s) (upd (pred k) (frupdate G (nth k H []) (nth k (fR s) [])) (fR s)).
(*  for lr in [1, -1]: for k in (range(0, d-1, +1) if lr == 1 else range(d-1, 0, -1)): ...  *)
Definition fsweep (lamb : T) (y : list T) (H : list (list (list T))) (s : fstate) : fstate :=
  let d := length (fY s) in
  fold_left (fbwd_step lamb y H) (rev (seq 1 (d - 1))) (fold_left (ffwd_step lamb y H) (seq 0 (d - 1)) s).

Variable acc : nat -> list (core T) -> list (core T) -> T.
Variable accv : nat -> list (core T) -> T.

(* als_func(X_trn, y_trn, A0, nswp=, e=, info, e_vld=, fh=, lamb=); no callback in als_func.
   As in als, the stop reason the _info_appr call in front of the loop may set stays in info and one sweep
   is executed nevertheless. *)
Definition als_func (H : list (list (list T))) (y : list T) (A0 : list (core T))
                    (nswp : option nat) (e evld : option T) (lamb : T) (fuel : nat)
  : result (list (core T) * info (T:=T)) :=
  let stop0 := info_appr K None O (oopp K 1) (accv O A0) nswp e evld in
  gen_loop K acc accv None fstate (fsweep lamb y H) fY fuel nswp e evld (finit_st H y A0) O stop0.

(* ------------------------------------------------------------------ the default entry path (fh=None): Chebyshev basis
     fh_size = n_max or Y[0].shape[1]
     fh = [lambda X: teneva.func_basis(teneva.poi_scale(X, a, b, kind='cheb'), fh_size)] * d
     H = [fhi(x).T for fhi, x in zip(fh, X_trn.T)]
   Every column x = X_trn[:, k] is a 1-D array of length m; poi_scale treats it as ONE point with m coordinates and
   broadcasts the scalars a, b, so  Xsc[s] = clip((x[s] - (b + a)/2) * (2/(b - a)), -1, 1)  (Model/GridPoi.scale_cheb,
   the model of C18) and H[k][s, i] = T_i(Xsc[s]) by the three-term recurrence (Model/Func.func_basis1, the model
   of C12).  d = X_trn.shape[1] is taken as the number of cores; a, b scalars as in the signature. *)
Definition cheb_H (a b : T) (n d : nat) (X : list (list T)) : list (list (list T)) :=
  tab d (fun k => map (fun x => Func.func_basis1 K (GridPoi.scale_cheb K a b (nth k x 0)) n) X).
Definition als_func_cheb (X : list (list T)) (y : list T) (A0 : list (core T)) (a b : T)
                         (nswp : option nat) (e evld : option T) (lamb : T) (fuel : nat)
  : result (list (core T) * info (T:=T)) :=
  als_func (cheb_H a b (cn (nth O A0 dcore)) (length A0) X) y A0 nswp e evld lamb fuel.

(* ------------------------------------------------------------------ reference semantics and objective *)
(* value of the functional TT at a sample with basis rows hs (one per mode) *)
Definition hchain (Y : list (core T)) (hs : list (list T)) : list (core T) :=
  map (fun Gh => hcore (fst Gh) (snd Gh)) (combine Y hs).
Definition fget (Y : list (core T)) (hs : list (list T)) : T :=
  get K (hchain Y hs) (repeat O (length Y)).
(* basis rows of sample s *)
Definition hrows (H : list (list (list T))) (s : nat) : list (list T) := map (fun Hk => nth s Hk []) H.
Definition fJobj (lamb : T) (H : list (list (list T))) (y : list T) (Y : list (core T)) : T :=
  lsum K (map (fun s => sq K (fget Y (hrows H s) - nth s y 0)) (seq 0 (length y)))
  + lamb * lsum K (map (frobc K) Y).
End AlsFunc.

Arguments mk_fstate {T}. Arguments fY {T}. Arguments fL {T}. Arguments fR {T}.
