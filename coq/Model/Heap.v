(* C09 — effect skeletons: IR, abstract domain, certificate checker, exception table, concrete semantics.
   The skeletons (one [fn] per function variant of teneva) and their certificates are REGENERATED from the
   source by harness/skeleton_c09.py into Gen/SkelC09.v on every run; this file only defines what they mean
   and how a certificate is checked.  Soundness of [check_fn] is proved in Proofs/HeapP.v. *)
From Coq Require Import List Arith Bool Ascii String PeanoNat.
Import ListNotations.
Open Scope string_scope.

(* ------------------------------------------------------------------------------------------------ *)
(* 1. IR                                                                                            *)
(* ------------------------------------------------------------------------------------------------ *)
Definition var := nat.     (* variables 0 .. n-1 are the parameters (their value at entry) *)
Definition site := nat.    (* allocation sites / call sites *)
Definition param := nat.

Inductive aobj :=          (* abstract objects *)
| AArg (p : param)         (* the object passed as parameter p *)
| AIn (p : param)          (* anything reachable strictly inside it *)
| ASite (s : site).        (* objects allocated at program point s (for a call: by the callee) *)
Definition aset := list aobj.

Inductive expr :=
| EScalar                                   (* a number / None / string: no identity *)
| EVars (ys : list var)                     (* the object of one of ys: alias, NumPy view, slice, join *)
| EElem (ys : list var)                     (* one reference followed from one of ys *)
| EFresh (s : site) (ys : list var)         (* new object; its references are among the values of ys *)
| ECall (sr ss : site) (g : nat) (args : list (list var)) (W : aset)
      (* function g of the program.  sr: the new objects reachable from its result, ss: the other new objects it may
         store into what it writes; W: closure certificate for the arguments g may write deeply *)
| ECallback (s : site) (args : list (list var)).  (* unknown callee (rule 6): writes nothing, what it returns or
                                                     allocates may reference anything reachable from its arguments *)

Inductive cmd :=
| CSkip
| CDef (x : var) (e : expr)
| CStore (ys vs : list var)   (* in-place update of the object of one of ys: data changes arbitrarily (x op= .., x[..] = ..,
                                 out=x, sort, fill, shuffle, overwrite_a); its references become a subset of the old ones
                                 plus the values of vs (L[k] = v, append, extend, update, attribute store) *)
| CReturn (ys : list var)
| CSeq (c1 c2 : cmd)
| CIf (c1 c2 : cmd)
| CLoop (atleast1 : bool) (c : cmd)
| CUnknown (reason : string). (* untranslatable construct: never passes the check, has no execution *)

Record fn := mkfn {
  fname : string;                    (* "module.function" or "module.Class.method" *)
  fflags : list (string * string);   (* the constant bindings of this variant (rule 2), e.g. ("inplace","True") *)
  fparams : list string;
  fwr0 : list param;                 (* summary: parameters whose object itself may be written *)
  fwr : list param;                  (* summary: parameters whose reachable objects may all be written *)
  fesc : list param;                 (* summary: parameters whose reachable objects the result may reference *)
  fsto : list param;                 (* summary: parameters whose reachable objects may get stored into written objects *)
  fenv : list aset;                  (* certificate: abstract value of every variable *)
  fcont : list aset;                 (* certificate: what objects of a site may reference *)
  fcontp : aset;                     (* certificate: what may have been stored into (objects of) parameters *)
  fE : aset;                         (* certificate: closed set of everything the result may reach *)
  fS : aset;                         (* certificate: closed set of everything stored into parameters may reach *)
  fbody : cmd }.
Definition prog := list fn.

(* ------------------------------------------------------------------------------------------------ *)
(* 2. Checker                                                                                       *)
(* ------------------------------------------------------------------------------------------------ *)
Definition aobj_eqb (a b : aobj) : bool :=
  match a, b with
  | AArg p, AArg q => Nat.eqb p q | AIn p, AIn q => Nat.eqb p q | ASite s, ASite t => Nat.eqb s t
  | _, _ => false end.
Definition amem (a : aobj) (A : aset) : bool := existsb (aobj_eqb a) A.
Definition asub (A B : aset) : bool := forallb (fun a => amem a B) A.
Definition nmem (n : nat) (l : list nat) : bool := existsb (Nat.eqb n) l.

Definition summary := (list param * list param * list param * list param)%type.   (* wr0, wr, esc, sto *)

Section Check.
  Variable sums : list summary.   (* summaries of every function of the program *)
  Variable f : fn.
  Definition env (x : var) : aset := nth x (fenv f) [].
  Definition cont (s : site) : aset := nth s (fcont f) [].
  Definition elem (a : aobj) : aset :=
    match a with ASite s => cont s | AArg p | AIn p => AIn p :: fcontp f end.
  Definition avars (ys : list var) : aset := flat_map env ys.
  Definition aelem (A : aset) : aset := flat_map elem A.
  Definition aclosed (A : aset) : bool := asub (aelem A) A.
  Definition aparam_ok (l : list param) (a : aobj) : bool :=
    match a with ASite _ => true | AArg p | AIn p => nmem p l end.
  (* may this function write abstract object a, storing references to S into it? *)
  Definition wtarget_ok (S : aset) (a : aobj) : bool :=
    match a with
    | ASite s => asub S (cont s)
    | AArg p => (nmem p (fwr0 f) || nmem p (fwr f)) && asub S (fcontp f)
    | AIn p => nmem p (fwr f) && asub S (fcontp f)
    end.

  Definition check_call (x : var) (sr ss : site) (sm : summary) (args : list (list var)) (W : aset) : bool :=
    let '(wr0, wr, esc, sto) := sm in
    let R := cont sr in let S := cont ss in
    amem (ASite sr) R && aclosed R && asub R (env x)
    && forallb (fun p => asub (avars (nth p args [])) R) esc
    && amem (ASite ss) S && amem (ASite sr) S && aclosed S
    && forallb (fun p => asub (avars (nth p args [])) S) sto
    && forallb (fun p => asub (avars (nth p args [])) W) wr
    && aclosed W
    && forallb (wtarget_ok S) W
    && forallb (fun p => forallb (wtarget_ok S) (avars (nth p args []))) wr0.

  Definition check_def (x : var) (e : expr) : bool :=
    match e with
    | EScalar => true
    | EVars ys => asub (avars ys) (env x)
    | EElem ys => asub (aelem (avars ys)) (env x)
    | EFresh s ys => amem (ASite s) (env x) && asub (avars ys) (cont s)
    | ECall sr ss g args W =>
        match nth_error sums g with
        | Some sm => check_call x sr ss sm args W
        | None => false end
    | ECallback s args => check_call x s s ([], [], seq 0 (List.length args), []) args []
    end.

  Definition check_store (ys vs : list var) : bool := forallb (wtarget_ok (avars vs)) (avars ys).

  Fixpoint check_cmd (c : cmd) : bool :=
    match c with
    | CSkip => true
    | CDef x e => check_def x e
    | CStore ys vs => check_store ys vs
    | CReturn ys => asub (avars ys) (fE f)
    | CSeq c1 c2 => check_cmd c1 && check_cmd c2
    | CIf c1 c2 => check_cmd c1 && check_cmd c2
    | CLoop _ c => check_cmd c
    | CUnknown _ => false
    end.

  (* parameter p is variable p; its abstract value is at least {Arg p} *)
  Definition check_params : bool :=
    forallb (fun p => amem (AArg p) (env p)) (seq 0 (List.length (fparams f))).

  Definition check_fn : bool :=
    check_params && check_cmd (fbody f)
    && aclosed (fE f) && forallb (aparam_ok (fesc f)) (fE f)
    && aclosed (fS f) && asub (fcontp f) (fS f) && forallb (aparam_ok (fsto f)) (fS f).
End Check.

Definition summaries (P : prog) : list summary := map (fun f => (fwr0 f, fwr f, fesc f, fsto f)) P.
Definition check_prog (P : prog) : bool := forallb (check_fn (summaries P)) P.

(* ------------------------------------------------------------------------------------------------ *)
(* 3. The documented exceptions, as data                                                            *)
(* ------------------------------------------------------------------------------------------------ *)
Definition flag_is (fl : list (string * string)) (k v : string) : bool :=
  existsb (fun kv => String.eqb (fst kv) k && String.eqb (snd kv) v) fl.
Definition is_method (name : string) : bool :=   (* "module.Class.method": two dots *)
  let fix dots (s : string) : nat := match s with EmptyString => 0 | String c r => (if Ascii.eqb c (Ascii.ascii_of_nat 46) then 1 else 0) + dots r end
  in Nat.leb 2 (dots name).

(* parameter [pn] of function [fnm] (variant [fl]) may be written *)
Definition may_write (fnm : string) (fl : list (string * string)) (pn : string) : bool :=
  String.eqb pn "info" || String.eqb pn "cache"
  || ((String.eqb fnm "transformation.orthogonalize_left" || String.eqb fnm "transformation.orthogonalize_right")
      && flag_is fl "inplace" "True" && String.eqb pn "Y")
  || (is_method fnm && String.eqb pn "self").
(* the result may be / reference (part of) parameter [pn].  core_stab may hand back G only in the variant in which its
   threshold test [v_max <= thr] holds (the translator specialises the function on that test, like on a boolean flag) *)
Definition may_return (fnm : string) (fl : list (string * string)) (pn : string) : bool :=
  ((String.eqb fnm "transformation.orthogonalize_left" || String.eqb fnm "transformation.orthogonalize_right")
      && flag_is fl "inplace" "True" && String.eqb pn "Y")
  || (String.eqb fnm "grid.grid_prep_opt" && String.eqb pn "opt")
  || (String.eqb fnm "grid.grid_prep_opts" && (String.eqb pn "a" || String.eqb pn "b" || String.eqb pn "n"))
  || (String.eqb fnm "core.core_stab" && flag_is fl "v_max <= thr" "True" && String.eqb pn "G")
  || (is_method fnm && String.eqb pn "self").

(* objects reachable from parameter [pn] may be stored into a written (hence exempt) parameter *)
Definition may_store (fnm : string) (fl : list (string * string)) (pn : string) : bool :=
  may_return fnm fl pn || String.eqb pn "info" || String.eqb pn "cache".

Definition pname (f : fn) (p : param) : string := nth p (fparams f) "?".
(* a function is clean if its (checked) summary stays within the exception table *)
Definition fn_clean (f : fn) : bool :=
  forallb (fun p => may_write (fname f) (fflags f) (pname f p)) (fwr0 f ++ fwr f)
  && forallb (fun p => may_return (fname f) (fflags f) (pname f p)) (fesc f)
  && forallb (fun p => may_store (fname f) (fflags f) (pname f p)) (fsto f).
(* [api]: indices (in the program) of the variants of the exported functions *)
Definition api_ok (P : prog) (api : list nat) : bool :=
  check_prog P && forallb (fun g => match nth_error P g with Some f => fn_clean f | None => false end) api.
(* what is NOT clean: used by the harness to print a readable diagnosis *)
Definition fn_report (f : fn) : list string * list string :=
  (map (pname f) (filter (fun p => negb (may_write (fname f) (fflags f) (pname f p))) (fwr0 f ++ fwr f)),
   map (pname f) (filter (fun p => negb (may_return (fname f) (fflags f) (pname f p))) (fesc f)
                  ++ filter (fun p => negb (may_store (fname f) (fflags f) (pname f p))) (fsto f))).

(* ------------------------------------------------------------------------------------------------ *)
(* 4. Concrete (relational) semantics over a heap of objects with identities                        *)
(* ------------------------------------------------------------------------------------------------ *)
Definition oid := nat.
(* an object: an array buffer (its bytes, shape, strides: [odata]) or a list / tuple / dict / object array / closure /
   instance (its element list: [orefs]).  Views, slices and reshapes of an array denote the SAME object (identity =
   memory), which is how "shares memory" is modelled for every layout at once. *)
Record obj := mkobj { odata : nat; orefs : list oid }.
Definition heap := oid -> option obj.
Definition val := option oid.             (* None: a value without identity *)
Definition store := var -> val.
Definition upd {A} (f : nat -> A) (k : nat) (v : A) : nat -> A := fun j => if Nat.eqb j k then v else f j.

Inductive reach (H : heap) : oid -> oid -> Prop :=
| reach_refl o : reach H o o
| reach_step o ob r o' : H o = Some ob -> In r (orefs ob) -> reach H r o' -> reach H o o'.
Definition reach_from (H : heap) (roots : list val) (o : oid) : Prop :=
  exists a, In (Some a) roots /\ reach H a o.
Definition argsel (ps : list param) (args : list val) : list val := map (fun p => nth p args None) ps.
Definition closed (H : heap) : Prop := forall o ob r, H o = Some ob -> In r (orefs ob) -> H r <> None.
Definition allocated (H : heap) (vs : list val) : Prop := forall a, In (Some a) vs -> H a <> None.

(* what a call with summary (wr0, wr, esc, sto) may do: the meaning of a summary.
   cs_frame: every object of the old heap is unchanged (data AND element list) unless it is an argument listed in wr0 or
             reachable from an argument listed in wr (stated as a disjunction so that no classical axiom is needed);
   cs_esc:   the objects allocated by the call that matter are classified (decidably) as NR (reachable from the result) or
             NS (stored into written objects): NR objects reference only NR objects and what the esc arguments reached,
             NS objects only NS, NR and what the sto arguments reached; an old object gains only such references; the
             result is NR or reachable from an esc argument.  Other new objects (garbage) are referenced by none of these. *)
Definition may_touch (wr0 wr : list param) (H : heap) (args : list val) (o : oid) : Prop :=
  In (Some o) (argsel wr0 args) \/ reach_from H (argsel wr args) o.
Record callspec (sm : summary) (H : heap) (args : list val) (H' : heap) (r : val) : Prop := {
  cs_dom : forall o, H o <> None -> H' o <> None;
  cs_frame : forall o, H o <> None -> H' o = H o \/ may_touch (fst (fst (fst sm))) (snd (fst (fst sm))) H args o;
  cs_closed : closed H -> allocated H args -> closed H';
  cs_esc : exists NR NS : oid -> bool,
      let RE := reach_from H (argsel (snd (fst sm)) args) in
      let RS := reach_from H (argsel (snd sm) args) in
      (forall o, NR o = true \/ NS o = true -> H o = None /\ H' o <> None)
      /\ (forall o ob q, NR o = true -> H' o = Some ob -> In q (orefs ob) -> NR q = true \/ RE q)
      /\ (forall o ob q, NS o = true -> H' o = Some ob -> In q (orefs ob) -> NS q = true \/ NR q = true \/ RS q)
      /\ (forall o ob ob' q, H o = Some ob -> H' o = Some ob' -> In q (orefs ob') ->
                             In q (orefs ob) \/ NS q = true \/ NR q = true \/ RS q)
      /\ (forall o, r = Some o -> NR o = true \/ RE o) }.

Inductive outcome := ONormal | OReturn (r : val).
Definition result_of (o : outcome) : val := match o with ONormal => None | OReturn r => r end.

Section Sem.
  (* how a call of function g behaves: instantiated with the summaries (modular reading) or with the bodies
     themselves ([sem] below) *)
  Variable callrel : nat -> heap -> list val -> heap -> val -> Prop.

  Definition argval (rho : store) (vs : list var) (v : val) : Prop :=
    v = None \/ exists y, In y vs /\ v = rho y.

  Inductive eval (H : heap) (rho : store) : expr -> heap -> val -> Prop :=
  | ev_scalar : eval H rho EScalar H None
  | ev_vars ys y : In y ys -> eval H rho (EVars ys) H (rho y)
  | ev_elem_none ys : eval H rho (EElem ys) H None
  | ev_elem ys y o ob r : In y ys -> rho y = Some o -> H o = Some ob -> In r (orefs ob) ->
      eval H rho (EElem ys) H (Some r)
  | ev_fresh s ys o ob : H o = None ->
      (forall r, In r (orefs ob) -> exists y, In y ys /\ rho y = Some r) ->
      eval H rho (EFresh s ys) (upd H o (Some ob)) (Some o)
  | ev_call sr ss g args W vals H' r : Forall2 (argval rho) args vals -> callrel g H vals H' r ->
      eval H rho (ECall sr ss g args W) H' r
  | ev_callback s args vals H' r : Forall2 (argval rho) args vals ->
      callspec ([], [], seq 0 (List.length args), []) H vals H' r ->
      eval H rho (ECallback s args) H' r.

  Inductive exec : cmd -> heap -> store -> heap -> store -> outcome -> Prop :=
  | ex_skip H rho : exec CSkip H rho H rho ONormal
  | ex_def x e H rho H' v : eval H rho e H' v -> exec (CDef x e) H rho H' (upd rho x v) ONormal
  | ex_store ys vs H rho y o ob ob' : In y ys -> rho y = Some o -> H o = Some ob ->
      (forall r, In r (orefs ob') -> In r (orefs ob) \/ exists v, In v vs /\ rho v = Some r) ->
      exec (CStore ys vs) H rho (upd H o (Some ob')) rho ONormal
  | ex_store_none ys vs H rho : exec (CStore ys vs) H rho H rho ONormal
  | ex_return ys y H rho : In y ys -> exec (CReturn ys) H rho H rho (OReturn (rho y))
  | ex_return_none ys H rho : exec (CReturn ys) H rho H rho (OReturn None)
  | ex_seq_n c1 c2 H rho H1 rho1 H2 rho2 out : exec c1 H rho H1 rho1 ONormal -> exec c2 H1 rho1 H2 rho2 out ->
      exec (CSeq c1 c2) H rho H2 rho2 out
  | ex_seq_r c1 c2 H rho H1 rho1 r : exec c1 H rho H1 rho1 (OReturn r) ->
      exec (CSeq c1 c2) H rho H1 rho1 (OReturn r)
  | ex_if_l c1 c2 H rho H1 rho1 out : exec c1 H rho H1 rho1 out -> exec (CIf c1 c2) H rho H1 rho1 out
  | ex_if_r c1 c2 H rho H1 rho1 out : exec c2 H rho H1 rho1 out -> exec (CIf c1 c2) H rho H1 rho1 out
  | ex_loop_0 c H rho : exec (CLoop false c) H rho H rho ONormal
  | ex_loop_s b c H rho H1 rho1 H2 rho2 out : exec c H rho H1 rho1 ONormal ->
      exec (CLoop false c) H1 rho1 H2 rho2 out -> exec (CLoop b c) H rho H2 rho2 out
  | ex_loop_r b c H rho H1 rho1 r : exec c H rho H1 rho1 (OReturn r) ->
      exec (CLoop b c) H rho H1 rho1 (OReturn r).

  (* running a function: parameter p is variable p; only the declared parameters are bound (surplus actual arguments
     raise TypeError in Python), every other variable starts without a value *)
  Definition store0 (f : fn) (args : list val) : store :=
    fun x => if Nat.ltb x (List.length (fparams f)) then nth x args None else None.
  Definition run (f : fn) (H : heap) (args : list val) (H' : heap) (r : val) : Prop :=
    exists rho' out, exec (fbody f) H (store0 f args) H' rho' out /\ r = result_of out.
End Sem.

(* the whole program: a call runs the body of the callee (call depth < n) *)
Fixpoint sem (P : prog) (n : nat) (g : nat) (H : heap) (args : list val) (H' : heap) (r : val) : Prop :=
  match n with
  | O => False
  | S n' => exists f, nth_error P g = Some f /\ run (sem P n') f H args H' r
  end.
