(* Model of act_one.interface in full generality (P, i, norm, ltr) and act_one.mean's default weights. *)
From Coq Require Import List Arith Lia PeanoNat ZArith.
From TV Require Import Num.Ops Lin.Tab Lin.BigSum TT.Chain Model.ActOne.
Import ListNotations.

Section Interface.
Context {T : Type} (K : ops T).
Notation "0" := (o0 K). Notation "1" := (o1 K).
Infix "+" := (oadd K). Infix "*" := (omul K). Infix "-" := (osub K). Infix "/" := (odiv K).

(* the mode-axis weights the code contracts core k with *)
Definition omega (n : nat) (p : option (list T)) (i : option nat) : list T :=
  match i, p with
  | None, None => tab n (fun _ => 1)                                   (* np.sum(Y[k], axis=1) *)
  | None, Some p => tab n (fun m => nth m p 0)                         (* einsum('rmq,m->rq', Y[k], p) *)
  | Some i, None => tab n (fun m => if Nat.eqb m i then 1 else 0)      (* Y[k][:, i[k], :] *)
  | Some i, Some p => tab n (fun m => if Nat.eqb m i then nth i p 0 else 0)   (* ... * p[i[k]] *)
  end.
Definition wslice (G : core T) (w : list T) (a b : nat) : T :=
  bsum K (cn G) (fun m => cget K G a m b * nth m w 0).
Inductive inorm := NormNone | NormLinalg | NormNatural.
Definition vnorm2 (v : list T) : T := fold_left (fun s x => s + x * x) v 0.
Definition normalize (nm : inorm) (n : nat) (v : list T) : list T :=
  match nm with
  | NormNone => v
  | NormLinalg => let s := osqrt K (vnorm2 v) in map (fun x => x / s) v
  | NormNatural => let s := oofZ K (Z.of_nat n) in map (fun x => x / s) v
  end.
(* ltr = False: phi[k] = Q_k @ phi[k+1] from the right end; returns phi[0..d] *)
Fixpoint iface_r (nm : inorm) (Y : list (core T)) (W : list (list T)) : list (list T) :=
  match Y, W with
  | G :: Y', w :: W' =>
      let rest := iface_r nm Y' W' in
      let v := hd [] rest in
      normalize nm (cn G) (tab (cr1 G) (fun a => bsum K (cr2 G) (fun b => wslice G w a b * nth b v 0))) :: rest
  | _, _ => [[1]]
  end.
(* ltr = True: phi[k+1] = Q_k^T @ phi[k] from the left end; returns phi[0..d] *)
Fixpoint iface_l (nm : inorm) (v : list T) (Y : list (core T)) (W : list (list T)) : list (list T) :=
  match Y, W with
  | G :: Y', w :: W' =>
      v :: iface_l nm (normalize nm (cn G)
             (tab (cr2 G) (fun b => bsum K (cr1 G) (fun a => nth a v 0 * wslice G w a b)))) Y' W'
  | _, _ => [v]
  end.
Definition optnth {A} (l : option (list A)) (k : nat) : option A :=
  match l with None => None | Some l => nth_error l k end.
Definition interface (Y : list (core T)) (P : option (list (list T))) (i : option (list nat))
           (nm : inorm) (ltr : bool) : list (list T) :=
  let W := map (fun k => omega (cn (nth k Y (mk_core 0 0 0 []))) (optnth P k) (optnth i k)) (seq 0 (length Y)) in
  if ltr then iface_l nm [1] Y W else iface_r nm Y W.
(* act_one.mean: default weights ones(k)/k (norm=True) or ones(k); given P: P[i][:k] *)
Definition mean (Y : list (core T)) (P : option (list (list T))) (norm : bool) : T :=
  let W := map (fun k => let n := cn (nth k Y (mk_core 0 0 0 [])) in
                 match optnth P k with
                 | Some p => tab n (fun m => nth m p 0)
                 | None => if norm then tab n (fun _ => 1 / oofZ K (Z.of_nat n)) else tab n (fun _ => 1)
                 end) (seq 0 (length Y)) in
  mean_w K Y W.
End Interface.
