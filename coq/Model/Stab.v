(* Model of the stabilised ("use_stab") arithmetic of teneva (property C16):
     core.py:core_stab, act_two.py:mul_scalar(use_stab=True), act_one.py:norm(use_stab=True),
     act_two.py:accuracy, transformation.py:orthogonalize(use_stab=True) (exponent bookkeeping, the
     QR / RQ steps are oracles), transformation.py:truncate(use_stab=True) (final redistribution).
   Exponents are Z.  Mantissas live in any carrier with [opow2 : Z -> T].
   Oracles (Section variables, contracts are hypotheses of the theorems in Proofs/StabP.v):
     ilog2 v   = int(np.floor(np.log2(v)))
     isinf x   = np.isinf(x)                       (constantly false on exact carriers)
     orth_l / orth_r : one call of orthogonalize_left / orthogonalize_right on the pair of cores it touches
     root p d  = 2**(p/d)
   Definitions only. *)
From Coq Require Import List Arith Lia PeanoNat ZArith Bool.
From TV Require Import Num.Ops Lin.Tab Lin.BigSum TT.Chain Model.ActOne.
Import ListNotations.

Section Stab.
Context {T : Type} (K : ops T).
Notation "0" := (o0 K). Notation "1" := (o1 K).
Infix "+" := (oadd K). Infix "*" := (omul K). Infix "-" := (osub K). Infix "/" := (odiv K).

Variable ilog2 : T -> Z.
Variable isinf : T -> bool.
Variable thr : T.                 (* core_stab's [thr] argument (its default is 0. since commit 11df174) *)

(* ---- core.py: core_stab ----
     v_max = np.max(np.abs(G))
     if v_max <= thr: return G, p0
     p = int(np.floor(np.log2(v_max)));  Q = G / 2.**p;  return Q, p0 + p                    *)
Definition omax (a b : T) : T := if oleb K a b then b else a.
Definition vmax (l : list T) : T := fold_left (fun m x => omax m (oabs K x)) l 0.
(* the function on the flat list of entries: this is what mul_scalar applies to its row vector v *)
Definition stab_entries (l : list T) (p0 : Z) : list T * Z :=
  let v := vmax l in
  if oleb K v thr then (l, p0)
  else let p := ilog2 v in (map (fun x => x / opow2 K p) l, (p0 + p)%Z).
(* the same on a 3-dimensional core *)
Definition centries (G : core T) : list T := concat (concat (dat G)).
Definition cmap (f : T -> T) (G : core T) : core T :=
  mk_core (cr1 G) (cn G) (cr2 G) (map (map (map f)) (dat G)).
Definition core_stab (G : core T) (p0 : Z) : core T * Z :=
  let v := vmax (centries G) in
  if oleb K v thr then (G, p0)
  else let p := ilog2 v in (cmap (fun x => x / opow2 K p) G, (p0 + p)%Z).

(* ---- act_two.py: mul_scalar(Y1, Y2, use_stab=True) ----
     for (G1, G2): v = v @ sum_i kron(G1_i, G2_i);  v, p = core_stab(v, p)                   *)
Fixpoint run2s (v : list T) (p : Z) (Y1 Y2 : list (core T)) : list T * Z :=
  match Y1, Y2 with
  | G1 :: Y1', G2 :: Y2' =>
      let vp := stab_entries (vstep2 K v G1 G2) p in run2s (fst vp) (snd vp) Y1' Y2'
  | _, _ => (v, p)
  end.
Definition mul_scalar_stab (Y1 Y2 : list (core T)) : T * Z :=
  let vp := run2s [1] 0%Z Y1 Y2 in (nth O (fst vp) 0, snd vp).

(* ---- act_one.py: norm(Y, use_stab=True):  return np.sqrt(v) if v > 0 else 0., p/2 ----
   the second component is the NUMERATOR h of the half-integer exponent h/2 *)
Definition norm_stab (Y : list (core T)) : T * Z :=
  let vp := mul_scalar_stab Y Y in
  ((if oltb K 0 (fst vp) then osqrt K (fst vp) else 0), snd vp).

(* ---- act_two.py: accuracy(Y1, Y2) ----
     z1, p1 = norm(sub(Y1, Y2), use_stab=True);  z2, p2 = norm(Y2, use_stab=True)
     if z1 == 0. and abs(z2) >= 1.E-100: return 0.        (since commit 0f9009d: a vanishing difference is distance 0;
                                                           before it the frozen exponent p1 of a zero product decided)
     if p1 - p2 > 500: return 1.E+299
     if p1 - p2 < -500: return 0.
     c = 2.**(p1 - p2)
     if isinf(c) or isinf(z1) or isinf(z2) or abs(z2) < 1.E-100: return -1
     return c * z1 / z2
   with h_i = 2 p_i:  p1 - p2 > 500  <->  h1 - h2 > 1000;  2.**(h/2) = pow2h h.
   [accuracy_tail] is everything after the first test (the whole function before 0f9009d).
   [abs(z2) >= tiny] is written [oleb tiny (oabs z2)], so that a NaN z2 falls through as in Python. *)
Definition pow2h (h : Z) : T :=
  if Z.even h then opow2 K (h / 2) else opow2 K ((h - 1) / 2) * osqrt K (1 + 1).
Definition accuracy_tail (big tiny : T) (z1 : T) (h1 : Z) (z2 : T) (h2 : Z) : T :=
  let h := (h1 - h2)%Z in
  if (h >? 1000)%Z then big
  else if (h <? -1000)%Z then 0
  else let c := pow2h h in
    if isinf c || isinf z1 || isinf z2 || oltb K (oabs K z2) tiny then oopp K 1
    else c * z1 / z2.
Definition accuracy_of (big tiny : T) (z1 : T) (h1 : Z) (z2 : T) (h2 : Z) : T :=
  if oeqb K z1 0 && oleb K tiny (oabs K z2) then 0
  else accuracy_tail big tiny z1 h1 z2 h2.
Definition accuracy (big tiny : T) (Y1 Y2 : list (core T)) : T :=
  let zp1 := norm_stab (sub K Y1 Y2) in
  let zp2 := norm_stab Y2 in
  accuracy_of big tiny (fst zp1) (snd zp1) (fst zp2) (snd zp2).

(* ---- transformation.py: orthogonalize(Y, k, use_stab=True) ----
     for i in range(k):          orthogonalize_left(Z, i);   Z[i+1], p = core_stab(Z[i+1], p)
     for i in range(d-1, k, -1): orthogonalize_right(Z, i);  Z[i-1], p = core_stab(Z[i-1], p)
   [orth_l c G1 G2] is the c-th call: (Z[i], Z[i+1]) |-> (Q-core, R-weighted next core);
   [orth_r c G1 G2] : (Z[i-1], Z[i]) |-> (R-weighted previous core, Q-core).
   The right sweep walks the reversed list. *)
Variable orth_l : nat -> core T -> core T -> core T * core T.
Variable orth_r : nat -> core T -> core T -> core T * core T.

Fixpoint sweep_l (c k : nat) (Zs : list (core T)) (p : Z) : list (core T) * Z :=
  match k, Zs with
  | S k', G1 :: G2 :: Z' =>
      let qg := orth_l c G1 G2 in
      let gp := core_stab (snd qg) p in
      let rp := sweep_l (S c) k' (fst gp :: Z') (snd gp) in
      (fst qg :: fst rp, snd rp)
  | _, _ => (Zs, p)
  end.
Fixpoint sweep_r (c m : nat) (Zr : list (core T)) (p : Z) : list (core T) * Z :=
  match m, Zr with
  | S m', G2 :: G1 :: Z' =>
      let gq := orth_r c G1 G2 in
      let gp := core_stab (fst gq) p in
      let rp := sweep_r (S c) m' (fst gp :: Z') (snd gp) in
      (snd gq :: fst rp, snd rp)
  | _, _ => (Zr, p)
  end.
Definition orthogonalize_stab (Y : list (core T)) (k : nat) : result (list (core T) * Z) :=
  let d := length Y in
  if (d - 1 <? k)%nat then Err ValueError
  else
    let lp := sweep_l O k Y 0%Z in
    let rp := sweep_r k (d - 1 - k) (rev (fst lp)) (snd lp) in
    Ok (rev (fst rp), snd rp).

(* ---- transformation.py: truncate(..., use_stab=True), the stabilisation-specific part ----
     Z, p = orthogonalize(Y, d-1, True);  ... rounding sweep on Z (C02's model: here [body]) ...
     for k in range(d): Z[k] *= 2**(p/d)                                                      *)
Variable root : Z -> nat -> T.
Definition rescale_all (c : T) (Zs : list (core T)) : list (core T) := map (core_scale K c) Zs.
Definition truncate_stab (body : list (core T) -> list (core T)) (Y : list (core T))
  : result (list (core T)) :=
  let d := length Y in
  match orthogonalize_stab Y (d - 1) with
  | Err e => Err e
  | Ok (Zs, p) => Ok (rescale_all (root p d) (body Zs))
  end.

(* plain power c^d used to state the redistribution law *)
Fixpoint opow (c : T) (d : nat) : T := match d with O => 1 | S k => c * opow c k end.
End Stab.
