(* Model of the parts of C01 that need sqrt / division / order: norm, accuracy (plain branch),
   accuracy_on_data, erank, uniform mean.  Executed at the float instance; theorems at R. *)
From Coq Require Import List Arith Lia PeanoNat ZArith.
From TV Require Import Num.Ops Lin.Tab Lin.BigSum TT.Chain Model.ActOne Model.ActOneX.
Import ListNotations.

Section ActOneR.
Context {T : Type} (K : ops T).
Notation "0" := (o0 K). Notation "1" := (o1 K).
Infix "+" := (oadd K). Infix "*" := (omul K). Infix "-" := (osub K). Infix "/" := (odiv K).

(* act_one.norm (use_stab=False):  v = mul_scalar(Y, Y);  sqrt(v) if v > 0 else 0 *)
Definition norm (Y : list (core T)) : T :=
  let v := mul_scalar_x K Y Y in if oltb K 0 v then osqrt K v else 0.
(* act_two.accuracy on its middle branch (no saturation): ||Y1 - Y2|| / ||Y2|| *)
Definition accuracy (Y1 Y2 : list (core T)) : T := norm (sub K Y1 Y2) / norm Y2.
(* data.accuracy_on_data: ||get_many(Y, I) - y|| / ||y|| *)
Definition sumsq (l : list T) : T := fold_left (fun s x => s + x * x) l 0.
(*   y_norm = np.linalg.norm(y_data);  if y_norm == 0.: return -1.   (undefined relative error: sentinel) *)
Definition accuracy_on_data (Y : list (core T)) (I : list (list nat)) (y : list T) : T :=
  let yn := osqrt K (sumsq y) in
  if oeqb K yn 0 then oopp K 1 else
  osqrt K (sumsq (map (fun p => get K Y (fst p) - snd p) (combine I y))) / yn.
(* props.erank *)
Definition natT (n : nat) : T := oofZ K (Z.of_nat n).
Definition erank (Y : list (core T)) : T :=
  let d := length Y in
  let n := shape Y in let r := ranks Y in
  if Nat.eqb d 2 then natT (nth 1 r O) else
  let sz := fold_right Nat.add O (map (fun G => cr1 G * cn G * cr2 G)%nat Y) in
  let b := (nth 0 r O * nth 0 n O + nth (d - 1) n O * nth d r O)%nat in
  let a := fold_right Nat.add O (firstn (d - 2) (skipn 1 n)) in
  (osqrt K (natT (b * b + 4 * a * sz)) - natT b) / (natT 2 * natT a).
End ActOneR.
