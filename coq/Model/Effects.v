(* C10 -- effect skeletons of the teneva functions, their semantics and the boolean checker.
   Definitions only; the lemmas are in Proofs/EffectsP.v.  The skeletons themselves are regenerated from the
   source on every run (Gen/SkelC10.v, written by harness/skeleton_c10.py). *)
From Coq Require Import String List Bool Arith ZArith DecimalString.
Import ListNotations.
Open Scope string_scope.

(* ------------------------------------------------------------------------------------------------ *)
(* 1. The skeleton language                                                                          *)
(* ------------------------------------------------------------------------------------------------ *)

(* what a call site binds to a seed / generator parameter of the callee *)
Inductive sarg := SVar (x : string)   (* the caller's seed or generator variable: PassSeed / PassGen *)
                | SNone               (* None, or omitted with default None: NoSeed *)
                | SConst (z : Z)      (* an integer literal *)
                | SOther.             (* any other expression *)
(* ... to a dictionary parameter *)
Inductive darg := DVar (x : string) | DOwn (* omitted: the callee's own default object *) | DFresh.
(* ... to a callback parameter *)
Inductive farg := FVar (p : string) | FClos (c : string) (cap : list (string * sarg)) | FOmit | FUser | FGlob (s : nat).
(* the default value of a callback parameter *)
Inductive fdef := FdNone | FdPure | FdGlob (s : nat) | FdClos (c : string) | FdUnknown.

Inductive event :=
| MkGen (x y : string)                 (* x = teneva._rand(y) *)
| MkGenNone (x : string)               (* x = teneva._rand(None): seeded from OS entropy *)
| MkGenConst (x : string) (z : Z)      (* x = teneva._rand(<integer literal>) *)
| RandPrim                             (* the body of utils._rand itself (pinned shape) *)
| GlobalDraw (s : nat)                 (* any use of numpy.random.<name> / stdlib random *)
| DrawFrom (s : nat) (g : string)      (* method call on a generator variable *)
| Call (s : nat) (f : string) (sb : list (string * sarg)) (db : list (string * darg)) (fb : list (string * farg))
| CallParam (s : nat) (p : string)     (* call of a callback held in parameter p *)
| Reset (s : nat) (d : string) (ks : list string)   (* d.update({k: .., ...}) *)
| Read (d k : string)
| LogRead (d k : string)               (* read that only reaches print() *)
| Write (s : nat) (d k : string)
| WriteT (d k : string)                (* d[k] = <perf_counter difference> *)
| WriteAny (d : string)                (* write under a key that is not a string literal *)
| Clear (d : string)
| ReadAll (d : string)                 (* iteration / keys / values / len / handing d to a user callback *)
| Clock
| Uninit (s : nat)                     (* storage from np.empty / np.empty_like that some path reads before every element
                                          is written: its contents are whatever the allocator left there (hidden state) *)
| Unknown (msg : string).

Inductive cmd :=
| Skip | Ev (e : event) | Seq (a b : cmd) | If (s : nat) (a b : cmd) | Loop (s : nat) (c : cmd)
| Return | Break | Continue | Raise | Try (b h : cmd).

Record fn := mkfn {
  fname : string;
  fexported : bool;
  fseeds : list string;        (* seed / generator parameters (for methods: the generator fields of self) *)
  fint_ok : bool;              (* an integer seed is meaningful (false for generator fields of self) *)
  fowndicts : list string;     (* parameters with a mutable default value *)
  fdictparams : list string;   (* other parameters that may receive a default dictionary of a caller *)
  fcallables : list (string * fdef);
  fbody : cmd }.

Definition dloc := (string * string)%type.            (* default dictionary of function f, parameter p *)
Definition dkey := (dloc * string)%type.

Fixpoint lookup {A} (l : list (string * A)) (x : string) : option A :=
  match l with [] => None | (y, a) :: r => if String.eqb x y then Some a else lookup r x end.

Fixpoint find_fn (api : list fn) (f : string) : option fn :=
  match api with [] => None | g :: r => if String.eqb f (fname g) then Some g else find_fn r f end.

Definition mems (k : string) (l : list string) : bool := existsb (String.eqb k) l.

Definition dloc_eqb (a b : dloc) : bool := String.eqb (fst a) (fst b) && String.eqb (snd a) (snd b).
Definition dkey_eqb (a b : dkey) : bool := dloc_eqb (fst a) (fst b) && String.eqb (snd a) (snd b).
Definition memk (k : dkey) (l : list dkey) : bool := existsb (dkey_eqb k) l.

Fixpoint lookup_loc {A} (l : list (dloc * A)) (x : dloc) : option A :=
  match l with [] => None | (y, a) :: r => if dloc_eqb x y then Some a else lookup_loc r x end.

(* keys under which timing information is stored: documented as timing, excluded from "result" *)
Definition timing_keys : list string := ["t"].
Definition timing (k : string) : bool := mems k timing_keys.

(* ------------------------------------------------------------------------------------------------ *)
(* 2. Concrete semantics                                                                             *)
(* ------------------------------------------------------------------------------------------------ *)

Inductive sval := VInt (z : Z) | VNone | VGenLoc (i : nat) | VGenExt (k : nat) | VOther.
Inductive cloc := CDefault (l : dloc) | CFresh.
Inductive cfn := CFUser | CFClos (c : string) (cap : list (string * sval)) | CFGlob (s : nat) | CFUnknown.

Record frame := mkframe { senv : list (string * sval); denv : list (string * cloc); fenv : list (string * cfn) }.

Inductive flag := FN | FBrk | FCont | FRet | FExc.

Section Semantics.
  Variables S V : Type.                 (* generator states, values *)

  Inductive obs := ODraw (v : V) | ORead (o : option V) | OReadAll (l : list (option V)) | ODec (b : bool) | OCall (s : nat).

  Record state := mkstate {
    gs : S;                             (* the global NumPy stream *)
    ent : S;                            (* OS entropy *)
    ck : S;                             (* the clock *)
    ext : nat -> S;                     (* generator objects owned by the user *)
    dd : dloc -> string -> option V;    (* contents of the default dictionaries *)
    lg : list S;                        (* generators created during this call *)
    hist : list obs }.                  (* everything the computation has observed so far *)

  (* uninterpreted: every theorem quantifies over them *)
  Variable draw : nat -> list obs -> S -> V * S.       (* a draw at site s, arguments determined by the history *)
  Variable decide : nat -> list obs -> bool.           (* branch / loop decisions *)
  Variable wval : nat -> string -> list obs -> option V.   (* value stored under a key *)
  Variable wany : list obs -> (string -> option V) -> string -> option V.
  Variable init : Z -> S.                              (* default_rng(int) is a function of the integer: NumPy contract *)
  Variable ent_draw : S -> S * S.
  Variable clock : S -> V * S.
  Variable U : dloc -> list string.                    (* keys that can be present in a default dictionary *)
  Variable api : list fn.

  Definition set_gs st g := mkstate g (ent st) (ck st) (ext st) (dd st) (lg st) (hist st).
  Definition set_ent st e := mkstate (gs st) e (ck st) (ext st) (dd st) (lg st) (hist st).
  Definition set_ck st c := mkstate (gs st) (ent st) c (ext st) (dd st) (lg st) (hist st).
  Definition set_ext st k s := mkstate (gs st) (ent st) (ck st) (fun j => if Nat.eqb j k then s else ext st j) (dd st) (lg st) (hist st).
  Definition set_dd st d := mkstate (gs st) (ent st) (ck st) (ext st) d (lg st) (hist st).
  Definition set_lg st l := mkstate (gs st) (ent st) (ck st) (ext st) (dd st) l (hist st).
  Definition obsv st o := mkstate (gs st) (ent st) (ck st) (ext st) (dd st) (lg st) (hist st ++ [o]).

  Definition upd_dd (d : dloc -> string -> option V) (l : dloc) (k : string) (v : option V) : dloc -> string -> option V :=
    fun l' k' => if dloc_eqb l' l && String.eqb k' k then v else d l' k'.
  Definition upd_loc (d : dloc -> string -> option V) (l : dloc) (f : string -> option V) : dloc -> string -> option V :=
    fun l' k' => if dloc_eqb l' l then f k' else d l' k'.

  Fixpoint upd_nth {A} (l : list A) (i : nat) (a : A) : list A :=
    match l, i with [], _ => [] | _ :: r, O => a :: r | x :: r, Datatypes.S j => x :: upd_nth r j a end.

  Definition global_draw (s : nat) (st : state) : state :=
    let (v, g) := draw s (hist st) (gs st) in obsv (set_gs st g) (ODraw v).

  Definition set_senv (fr : frame) (x : string) (v : sval) := mkframe ((x, v) :: senv fr) (denv fr) (fenv fr).

  Definition new_gen (fr : frame) (st : state) (x : string) (g : S) : frame * state :=
    (set_senv fr x (VGenLoc (length (lg st))), set_lg st (lg st ++ [g])).

  Definition loc_of (fr : frame) (d : string) : cloc :=
    match lookup (denv fr) d with Some l => l | None => CFresh end.

  Fixpoint reset_keys (s : nat) (h : list obs) (d : dloc -> string -> option V) (l : dloc) (ks : list string) :=
    match ks with [] => d | k :: r => reset_keys s h (upd_dd d l k (wval s k h)) l r end.

  Definition nontiming (ks : list string) := filter (fun k => negb (timing k)) ks.

  (* events other than Call / CallParam *)
  Definition step (e : event) (fr : frame) (st : state) : flag * frame * state :=
    match e with
    | MkGen x y =>
        match lookup (senv fr) y with
        | Some (VInt z) => let (fr', st') := new_gen fr st x (init z) in (FN, fr', st')
        | Some (VGenLoc i) => (FN, set_senv fr x (VGenLoc i), st)
        | Some (VGenExt k) => (FN, set_senv fr x (VGenExt k), st)
        | Some VNone => let (g, e') := ent_draw (ent st) in
                        let (fr', st') := new_gen fr (set_ent st e') x g in (FN, fr', st')
        | Some VOther => (FN, set_senv fr x VOther, st)
        | None => (FExc, fr, st)
        end
    | MkGenNone x => let (g, e') := ent_draw (ent st) in
                     let (fr', st') := new_gen fr (set_ent st e') x g in (FN, fr', st')
    | MkGenConst x z => let (fr', st') := new_gen fr st x (init z) in (FN, fr', st')
    | RandPrim => (FN, fr, st)
    | GlobalDraw s => (FN, fr, global_draw s st)
    | DrawFrom s g =>
        match lookup (senv fr) g with
        | Some (VGenLoc i) =>
            match nth_error (lg st) i with
            | Some gi => let (v, gi') := draw s (hist st) gi in (FN, fr, obsv (set_lg st (upd_nth (lg st) i gi')) (ODraw v))
            | None => (FExc, fr, st)
            end
        | Some (VGenExt k) => let (v, g') := draw s (hist st) (ext st k) in (FN, fr, obsv (set_ext st k g') (ODraw v))
        | Some VOther => (FN, fr, global_draw s st)      (* an object of unknown provenance: worst case *)
        | Some (VInt _) | Some VNone | None => (FExc, fr, st)
        end
    | Reset s d ks =>
        match loc_of fr d with
        | CDefault l => (FN, fr, set_dd st (reset_keys s (hist st) (dd st) l ks))
        | CFresh => (FN, fr, st)
        end
    | Read d k =>
        match loc_of fr d with
        | CDefault l => (FN, fr, obsv st (ORead (dd st l k)))
        | CFresh => (FN, fr, st)
        end
    | LogRead _ _ => (FN, fr, st)
    | Write s d k =>
        match loc_of fr d with
        | CDefault l => (FN, fr, set_dd st (upd_dd (dd st) l k (wval s k (hist st))))
        | CFresh => (FN, fr, st)
        end
    | WriteT d k =>
        match loc_of fr d with
        | CDefault l => let (v, c') := clock (ck st) in (FN, fr, set_dd (set_ck st c') (upd_dd (dd st) l k (Some v)))
        | CFresh => (FN, fr, st)
        end
    | WriteAny d =>
        match loc_of fr d with
        | CDefault l => (FN, fr, set_dd st (upd_loc (dd st) l (wany (hist st) (dd st l))))
        | CFresh => (FN, fr, st)
        end
    | Clear d =>
        match loc_of fr d with
        | CDefault l => (FN, fr, set_dd st (upd_loc (dd st) l (fun _ => None)))
        | CFresh => (FN, fr, st)
        end
    | ReadAll d =>
        match loc_of fr d with
        | CDefault l => (FN, fr, obsv st (OReadAll (map (dd st l) (nontiming (U l)))))
        | CFresh => (FN, fr, st)
        end
    | Clock => (FN, fr, set_ck st (snd (clock (ck st))))
    | Uninit s => (FN, fr, global_draw s st)             (* hidden state of the process: modelled as the global stream *)
    | Unknown _ => (FN, fr, global_draw 0 st)            (* not understood: worst case *)
    | Call _ _ _ _ _ | CallParam _ _ => (FN, fr, st)     (* handled by exec *)
    end.

  (* evaluation of the bindings of a call; None = a variable is unbound (NameError) *)
  Definition eval_sarg (fr : frame) (a : sarg) : option sval :=
    match a with SVar x => lookup (senv fr) x | SNone => Some VNone | SConst z => Some (VInt z) | SOther => Some VOther end.
  Fixpoint eval_sb (fr : frame) (sb : list (string * sarg)) : option (list (string * sval)) :=
    match sb with
    | [] => Some []
    | (p, a) :: r => match eval_sarg fr a, eval_sb fr r with Some v, Some l => Some ((p, v) :: l) | _, _ => None end
    end.
  Definition eval_darg (fr : frame) (f : string) (p : string) (a : darg) : cloc :=
    match a with DVar x => loc_of fr x | DOwn => CDefault (f, p) | DFresh => CFresh end.
  Definition cfn_of_fdef (d : fdef) : cfn :=
    match d with FdNone | FdPure => CFUser | FdGlob s => CFGlob s | FdClos c => CFClos c [] | FdUnknown => CFUnknown end.
  Definition eval_farg (fr : frame) (callee : fn) (p : string) (a : farg) : option cfn :=
    match a with
    | FVar q => Some (match lookup (fenv fr) q with Some c => c | None => CFUnknown end)
    | FClos c cap => match eval_sb fr cap with Some l => Some (CFClos c l) | None => None end
    | FOmit => Some (match lookup (fcallables callee) p with Some d => cfn_of_fdef d | None => CFUser end)
    | FUser => Some CFUser
    | FGlob s => Some (CFGlob s)
    end.
  Fixpoint eval_fb (fr : frame) (callee : fn) (fb : list (string * farg)) : option (list (string * cfn)) :=
    match fb with
    | [] => Some []
    | (p, a) :: r => match eval_farg fr callee p a, eval_fb fr callee r with Some v, Some l => Some ((p, v) :: l) | _, _ => None end
    end.
  Definition callee_frame (fr : frame) (g : fn) sb db fb : option frame :=
    match eval_sb fr sb, eval_fb fr g fb with
    | Some se, Some fe => Some (mkframe se (map (fun pa => (fst pa, eval_darg fr (fname g) (fst pa) (snd pa))) db) fe)
    | _, _ => None
    end.

  Definition after_call (r : flag) : flag := match r with FExc => FExc | _ => FN end.

  (* fuel bounds the call depth plus the number of loop iterations; None = out of fuel *)
  Fixpoint exec (fuel : nat) : cmd -> frame -> state -> option (flag * frame * state) :=
    match fuel with
    | O => fun _ _ _ => None
    | Datatypes.S n =>
        fix go (c : cmd) (fr : frame) (st : state) {struct c} : option (flag * frame * state) :=
          match c with
          | Skip => Some (FN, fr, st)
          | Ev (Call s f sb db fb) =>
              match find_fn api f with
              | None => Some (FExc, fr, st)
              | Some g =>
                  match callee_frame fr g sb db fb with
                  | None => Some (FExc, fr, st)
                  | Some fr' =>
                      match exec n (fbody g) fr' (obsv st (OCall s)) with
                      | None => None
                      | Some (r, _, st') => Some (after_call r, fr, st')
                      end
                  end
              end
          | Ev (CallParam s p) =>
              match lookup (fenv fr) p with
              | Some CFUser => Some (FN, fr, obsv st (OCall s))
              | Some (CFClos c cap) =>
                  match find_fn api c with
                  | None => Some (FExc, fr, st)
                  | Some g =>
                      match exec n (fbody g) (mkframe cap [] []) (obsv st (OCall s)) with
                      | None => None
                      | Some (r, _, st') => Some (after_call r, fr, st')
                      end
                  end
              | Some (CFGlob s') => Some (FN, fr, global_draw s' st)
              | Some CFUnknown | None => Some (FN, fr, global_draw s st)
              end
          | Ev e => Some (step e fr st)
          | Seq a b =>
              match go a fr st with
              | Some (FN, fr', st') => go b fr' st'
              | r => r
              end
          | If s a b =>
              let d := decide s (hist st) in
              if d then go a fr (obsv st (ODec d)) else go b fr (obsv st (ODec d))
          | Loop s body =>
              let d := decide s (hist st) in
              if d then
                match go body fr (obsv st (ODec d)) with
                | Some (FN, fr', st') | Some (FCont, fr', st') => exec n (Loop s body) fr' st'
                | Some (FBrk, fr', st') => Some (FN, fr', st')
                | r => r
                end
              else Some (FN, fr, obsv st (ODec d))
          | Return => Some (FRet, fr, st)
          | Break => Some (FBrk, fr, st)
          | Continue => Some (FCont, fr, st)
          | Raise => Some (FExc, fr, st)
          | Try b h =>
              match go b fr st with
              | Some (FExc, fr', st') => go h fr' st'
              | r => r
              end
          end
    end.
End Semantics.

Arguments ODraw {V}. Arguments ORead {V}. Arguments OReadAll {V}. Arguments ODec {V}. Arguments OCall {V}.

(* ------------------------------------------------------------------------------------------------ *)
(* 3. The checker                                                                                    *)
(* ------------------------------------------------------------------------------------------------ *)

Inductive aval := AInt | ANone | AGenDet | AGenExt | AOther.
Inductive afn := AFUser | AFClos (c : string) (cap : list (string * aval)) | AFGlob (s : nat) | AFUnknown.

Definition abs_val (v : sval) : aval :=
  match v with VInt _ => AInt | VNone => ANone | VGenLoc _ => AGenDet | VGenExt _ => AGenExt | VOther => AOther end.
Definition abs_fn (c : cfn) : afn :=
  match c with CFUser => AFUser | CFClos c cap => AFClos c (map (fun xv => (fst xv, abs_val (snd xv))) cap)
             | CFGlob s => AFGlob s | CFUnknown => AFUnknown end.

(* the context in which a function body is checked *)
Record actx := mkctx {
  cf : string;
  cse : list (string * aval);
  cde : list (string * cloc);
  cfe : list (string * afn);
  ccl : list dkey }.      (* keys of the bound default dictionaries already (re)written by the callers *)

Definition aval_eqb (a b : aval) : bool :=
  match a, b with AInt, AInt | ANone, ANone | AGenDet, AGenDet | AGenExt, AGenExt | AOther, AOther => true | _, _ => false end.
Definition oaval_eqb (a b : option aval) : bool :=
  match a, b with Some x, Some y => aval_eqb x y | None, None => true | _, _ => false end.

Definition mk_of (a : aval) : option aval :=     (* abstract value of _rand(a); None: not deterministic *)
  match a with AInt => Some AGenDet | AGenDet => Some AGenDet | AGenExt => Some AGenExt | _ => None end.

(* flow-insensitive environment of the seed / generator variables: entry bindings plus one binding per MkGen *)
Fixpoint build_env (c : cmd) (env : list (string * aval)) : list (string * aval) :=
  match c with
  | Ev (MkGen x y) =>
      match lookup env x, lookup env y with
      | None, Some a => match mk_of a with Some b => env ++ [(x, b)] | None => env end
      | _, _ => env
      end
  | Ev (MkGenConst x _) => match lookup env x with None => env ++ [(x, AGenDet)] | _ => env end
  | Seq a b | If _ a b | Try a b => build_env b (build_env a env)
  | Loop _ a => build_env a env
  | _ => env
  end.

Section Checker.
  Variable U : dloc -> list string.
  Variable api : list fn.

  Definition aeval_sarg (env : list (string * aval)) (a : sarg) : aval :=
    match a with SVar x => match lookup env x with Some v => v | None => AOther end
               | SNone => ANone | SConst _ => AInt | SOther => AOther end.
  Definition aeval_sb env (sb : list (string * sarg)) := map (fun pa => (fst pa, aeval_sarg env (snd pa))) sb.
  Definition afn_of_fdef (d : fdef) : afn := abs_fn (cfn_of_fdef d).
  Definition aeval_farg env (fe : list (string * afn)) (callee : fn) (p : string) (a : farg) : afn :=
    match a with
    | FVar q => match lookup fe q with Some c => c | None => AFUnknown end
    | FClos c cap => AFClos c (aeval_sb env cap)
    | FOmit => match lookup (fcallables callee) p with Some d => afn_of_fdef d | None => AFUser end
    | FUser => AFUser
    | FGlob s => AFGlob s
    end.
  Definition aloc_of (de : list (string * cloc)) (d : string) : cloc :=
    match lookup de d with Some l => l | None => CFresh end.
  Definition aeval_darg de (f p : string) (a : darg) : cloc :=
    match a with DVar x => aloc_of de x | DOwn => CDefault (f, p) | DFresh => CFresh end.

  (* the clean keys of the locations bound in a callee frame, in the canonical order of U *)
  Fixpoint locs_of (de : list (string * cloc)) : list dloc :=
    match de with [] => [] | (_, CDefault l) :: r => l :: locs_of r | (_, CFresh) :: r => locs_of r end.
  Definition restrict (cl : list dkey) (de : list (string * cloc)) : list dkey :=
    flat_map (fun l => map (fun k => (l, k)) (filter (fun k => memk (l, k) cl) (U l))) (locs_of de).

  Definition inter (a b : list dkey) : list dkey := filter (fun k => memk k b) a.
  Definition join (a b : option (list dkey)) : option (list dkey) :=
    match a, b with Some x, Some y => Some (inter x y) | None, y => y | x, None => x end.

  Definition addk (l : dloc) (k : string) (cl : list dkey) : list dkey :=
    if timing k then cl else if memk (l, k) cl then cl else (l, k) :: cl.
  Fixpoint addks (l : dloc) (ks : list string) (cl : list dkey) : list dkey :=
    match ks with [] => cl | k :: r => addks l r (addk l k cl) end.

  (* rerr: diagnostics only (kind, detail) for the evidence file *)
  Record res := mkres { rok : bool; rpost : option (list dkey); rcalls : list actx; rerr : list (string * string) }.
  Definition bad (m d : string) := mkres false None [] [(m, d)].
  Definition cond (b : bool) (post : option (list dkey)) (m d : string) := mkres b post [] (if b then [] else [(m, d)]).
  Definition nats (n : nat) : string := NilEmpty.string_of_uint (Nat.to_uint n).

  Section Body.
    Variable env : list (string * aval).
    Variable de : list (string * cloc).
    Variable fe : list (string * afn).

    Definition chk_event (e : event) (cl : list dkey) : res :=
      let ok := mkres true (Some cl) [] [] in
      match e with
      | MkGen x y =>
          match lookup env y with
          | Some a => match mk_of a with
                      | Some b => cond (oaval_eqb (lookup env x) (Some b)) (Some cl) "MkGen" x
                      | None => bad "MkGen from a seed that is None / unknown" y
                      end
          | None => bad "MkGen from an unbound variable" y
          end
      | MkGenNone x => bad "generator seeded from OS entropy" x
      | MkGenConst x _ => cond (oaval_eqb (lookup env x) (Some AGenDet)) (Some cl) "MkGenConst" x
      | RandPrim => ok
      | GlobalDraw s => bad "GlobalDraw" (nats s)
      | DrawFrom s g => match lookup env g with Some AGenDet | Some AGenExt => ok
                                          | _ => bad "DrawFrom a variable that is not a generator derived from the seed" g end
      | Call s f sb db fb =>
          match find_fn api f with
          | None => bad "Call of an unknown function" f
          | Some g =>
              let de' := map (fun pa => (fst pa, aeval_darg de (fname g) (fst pa) (snd pa))) db in
              mkres true (Some cl)
                [mkctx f (aeval_sb env sb) de' (map (fun pa => (fst pa, aeval_farg env fe g (fst pa) (snd pa))) fb)
                       (restrict cl de')] []
          end
      | CallParam s p =>
          match lookup fe p with
          | Some AFUser => ok
          | Some (AFClos c cap) => match find_fn api c with
                                   | Some _ => mkres true (Some cl) [mkctx c cap [] [] []] []
                                   | None => bad "CallParam: unknown closure" c end
          | Some (AFGlob s') => bad "GlobalDraw" (nats s')
          | _ => bad "CallParam: callback of unknown origin" p
          end
      | Reset _ d ks =>
          match aloc_of de d with
          | CDefault l => cond (forallb (fun k => mems k (U l)) ks) (Some (addks l ks cl)) "Reset: key outside the universe" d
          | CFresh => ok
          end
      | Read d k =>
          match aloc_of de d with
          | CDefault l => cond ((memk (l, k) cl && negb (timing k)) || negb (mems k (U l))) (Some cl)
                            "Read of a key not rewritten in this call" (d ++ ":" ++ k)
          | CFresh => ok
          end
      | LogRead _ _ => ok
      | Write _ d k =>
          match aloc_of de d with
          | CDefault l => cond (mems k (U l)) (Some (addk l k cl)) "Write: key outside the universe" (d ++ ":" ++ k)
          | CFresh => ok
          end
      | WriteT d k =>
          match aloc_of de d with
          | CDefault l => cond (mems k (U l) && timing k) (Some cl) "WriteT: not a timing key" (d ++ ":" ++ k)
          | CFresh => ok
          end
      | WriteAny d => match aloc_of de d with CDefault _ => bad "WriteAny into a default dictionary" d | CFresh => ok end
      | Clear d =>
          match aloc_of de d with
          | CDefault l => mkres true (Some (addks l (U l) cl)) [] []
          | CFresh => ok
          end
      | ReadAll d =>
          match aloc_of de d with
          | CDefault l => cond (forallb (fun k => memk (l, k) cl) (nontiming (U l))) (Some cl)
                            "ReadAll with keys not rewritten in this call"
                            (d ++ ":" ++ String.concat "," (filter (fun k => negb (memk (l, k) cl)) (nontiming (U l))))
          | CFresh => ok
          end
      | Clock => ok
      | Uninit s => bad "Uninit" (nats s)
      | Unknown m => bad "Unknown" m
      end.

    (* None as clean set = this point is unreachable *)
    Fixpoint chk (c : cmd) (cl : option (list dkey)) : res :=
      match cl with
      | None => mkres true None [] []
      | Some l =>
          match c with
          | Skip => mkres true cl [] []
          | Ev e => chk_event e l
          | Seq a b => let ra := chk a cl in let rb := chk b (rpost ra) in
                       mkres (rok ra && rok rb) (rpost rb) (rcalls ra ++ rcalls rb) (rerr ra ++ rerr rb)
          | If _ a b => let ra := chk a cl in let rb := chk b cl in
                        mkres (rok ra && rok rb) (join (rpost ra) (rpost rb)) (rcalls ra ++ rcalls rb) (rerr ra ++ rerr rb)
          | Loop _ a => let ra := chk a cl in mkres (rok ra) cl (rcalls ra) (rerr ra)
          | Return | Break | Continue | Raise => mkres true None [] []
          | Try b h => let rb := chk b cl in let rh := chk h cl in
                       mkres (rok rb && rok rh) (join (rpost rb) (rpost rh)) (rcalls rb ++ rcalls rh) (rerr rb ++ rerr rh)
          end
      end.
  End Body.

  Definition entry_covered (se env : list (string * aval)) : bool :=
    forallb (fun xa => oaval_eqb (lookup env (fst xa)) (lookup se (fst xa))) se.

  Definition chk_entry (e : actx) : res :=
    match find_fn api (cf e) with
    | None => bad "unknown function" (cf e)
    | Some g =>
        let env := build_env (fbody g) (cse e) in
        let r := chk env (cde e) (cfe e) (fbody g) (Some (ccl e)) in
        mkres (entry_covered (cse e) env && rok r) (rpost r) (rcalls r) (rerr r)
    end.
End Checker.

(* decidable equality of contexts (table membership) *)
Definition aval_eq_dec : forall a b : aval, {a = b} + {a <> b}. Proof. decide equality. Defined.
Definition cloc_eq_dec : forall a b : cloc, {a = b} + {a <> b}.
Proof. decide equality. destruct l, l0. decide equality; apply string_dec. Defined.
Definition afn_eq_dec : forall a b : afn, {a = b} + {a <> b}.
Proof.
  decide equality; try apply Nat.eq_dec; try apply string_dec.
  apply list_eq_dec. decide equality; [apply aval_eq_dec | apply string_dec].
Defined.
Definition dkey_eq_dec : forall a b : dkey, {a = b} + {a <> b}.
Proof. decide equality; try apply string_dec. destruct a0, d. decide equality; apply string_dec. Defined.
Definition actx_eq_dec : forall a b : actx, {a = b} + {a <> b}.
Proof.
  decide equality.
  - apply list_eq_dec, dkey_eq_dec.
  - apply list_eq_dec. decide equality; [apply afn_eq_dec | apply string_dec].
  - apply list_eq_dec. decide equality; [apply cloc_eq_dec | apply string_dec].
  - apply list_eq_dec. decide equality; [apply aval_eq_dec | apply string_dec].
  - apply string_dec.
Defined.
Definition memc (c : actx) (t : list actx) : bool := if in_dec actx_eq_dec c t then true else false.

Section Table.
  Variable U : dloc -> list string.
  Variable api : list fn.

  (* the contexts reachable from the entry points (computed; validated by tbl_ok) *)
  Fixpoint reach (fuel : nat) (todo done : list actx) : option (list actx) :=
    match fuel with
    | O => match todo with [] => Some done | _ => None end
    | S n =>
        match todo with
        | [] => Some done
        | e :: r => if memc e done then reach n r done
                    else reach n (rcalls (chk_entry U api e) ++ r) (e :: done)
        end
    end.

  (* every context of the table passes its check and all the contexts it calls are in the table *)
  Definition tbl_ok (t : list actx) : bool :=
    forallb (fun e => let r := chk_entry U api e in rok r && forallb (fun c => memc c t) (rcalls r)) t.

  (* the obligations: one or several entry contexts per exported function *)
  Definition own_de (g : fn) : list (string * cloc) :=
    map (fun p => (p, CDefault (fname g, p))) (fowndicts g) ++ map (fun p => (p, CFresh)) (fdictparams g).
  Definition fe_default (g : fn) : list (string * afn) := map (fun pd => (fst pd, afn_of_fdef (snd pd))) (fcallables g).
  Definition fe_user (g : fn) : list (string * afn) := map (fun pd => (fst pd, AFUser)) (fcallables g).
  (* exemption (f, p): f has no seed parameter and its only randomness is the default value of callback p *)
  Definition fe_exempt (g : fn) (p : string) : list (string * afn) :=
    map (fun pd => (fst pd, if String.eqb (fst pd) p then AFUser else afn_of_fdef (snd pd))) (fcallables g).

  Definition seed_modes (g : fn) : list (list (string * aval)) :=
    match fseeds g with
    | [] => [[]]
    | ss => (if fint_ok g then [map (fun x => (x, AInt)) ss] else []) ++ [map (fun x => (x, AGenExt)) ss]
    end.

  Definition entries_of (exempt : list (string * string)) (g : fn) : list actx :=
    if fexported g then
      let fes := match lookup exempt (fname g) with
                 | Some p => [fe_exempt g p; fe_user g]
                 | None => [fe_default g; fe_user g]
                 end in
      flat_map (fun se => map (fun fe => mkctx (fname g) se (own_de g) fe []) fes) (seed_modes g)
    else [].

  Definition entries (exempt : list (string * string)) : list actx := flat_map (entries_of exempt) api.

  (* an exemption must be justified: no seed parameter, and the named callback parameter defaults to a global draw *)
  Definition exempt_ok (exempt : list (string * string)) : bool :=
    forallb (fun fp => match find_fn api (fst fp) with
                       | Some g => match fseeds g, lookup (fcallables g) (snd fp) with
                                   | [], Some (FdGlob _) => true | _, _ => false end
                       | None => false end) exempt.

  Definition names_unique : bool :=
    (fix go (l : list fn) := match l with [] => true | g :: r => negb (existsb (fun h => String.eqb (fname g) (fname h)) r) && go r end) api.

  Definition check_all (exempt : list (string * string)) (fuel : nat) : bool :=
    match reach fuel (entries exempt) [] with
    | Some t => tbl_ok t && forallb (fun e => memc e t) (entries exempt) && exempt_ok exempt
    | None => false
    end.

  (* diagnostics for the evidence file: the contexts that fail *)
  Definition failing (exempt : list (string * string)) (fuel : nat) : list (string * list (string * string)) :=
    match reach fuel (entries exempt) [] with
    | Some t => map (fun e => (cf e, rerr (chk_entry U api e))) (filter (fun e => negb (rok (chk_entry U api e))) t)
    | None => [("<out of fuel>", [])]
    end.
End Table.

(* the named exemption (documented behaviour outside the two classes of the property):
   rand_custom has no seed parameter; its randomness is the caller-overridable default f=np.random.randn *)
Definition exemptions : list (string * string) := [("tensors.rand_custom", "f")].

(* ------------------------------------------------------------------------------------------------ *)
(* 4. Vocabulary of the specification (used by the statements of Proofs/EffectsP.v, Properties/C10.v) *)
(* ------------------------------------------------------------------------------------------------ *)

Section Spec.
  Variables S V : Type.
  Variable U : dloc -> list string.

  (* a default dictionary holds only keys of its universe (the keys the library itself stores) *)
  Definition confined (w : state S V) : Prop := forall l k, mems k (U l) = false -> dd S V w l k = None.

  (* generator object number k of the user is handed to the call: as a seed argument, or captured by a callback closure *)
  Definition cfn_passes (c : cfn) (k : nat) : Prop :=
    match c with CFClos _ cap => exists x, In (x, VGenExt k) cap | _ => False end.
  Definition passed (fr : frame) (k : nat) : Prop :=
    (exists x, In (x, VGenExt k) (senv fr)) \/ (exists p c, In (p, c) (fenv fr) /\ cfn_passes c k).

  (* two worlds that agree on what the call is given: the observation prefix, the generators already created by
     the call, and the state of the generator objects handed to it.  NOTHING is required of the global stream,
     of OS entropy, of the clock, of the other generator objects, of the contents of the default dictionaries. *)
  Definition same_inputs (fr : frame) (w1 w2 : state S V) : Prop :=
    hist S V w1 = hist S V w2 /\ lg S V w1 = lg S V w2 /\ forall k, passed fr k -> ext S V w1 k = ext S V w2 k.

  (* the global stream, OS entropy and every generator object outside P are exactly as before *)
  Definition untouched_outside (P : nat -> Prop) (w w' : state S V) : Prop :=
    gs S V w' = gs S V w /\ ent S V w' = ent S V w /\ forall k, ~ P k -> ext S V w' k = ext S V w k.

  (* dictionary entries (timing excluded) on which the two worlds agree before still agree after *)
  Definition no_new_difference (w1 w2 w1' w2' : state S V) : Prop :=
    forall l k, timing k = false -> dd S V w1 l k = dd S V w2 l k -> dd S V w1' l k = dd S V w2' l k.
End Spec.

(* the concrete frame fr is an instance of the abstract entry context e *)
Definition frame_matches (e : actx) (fr : frame) : Prop :=
  map (fun xv => (fst xv, abs_val (snd xv))) (senv fr) = cse e /\ denv fr = cde e /\
  map (fun pc => (fst pc, abs_fn (snd pc))) (fenv fr) = cfe e.

(* the entry frames of an exported function g: every seed parameter bound to an integer / to a generator object of
   the user; optional dictionaries left at their defaults; callbacks supplied by the user (or left at their defaults) *)
Definition user_cbs (g : fn) : list (string * cfn) := map (fun pd => (fst pd, CFUser)) (fcallables g).
Definition default_cbs (g : fn) : list (string * cfn) := map (fun pd => (fst pd, cfn_of_fdef (snd pd))) (fcallables g).
Definition int_frame (g : fn) (z : string -> Z) (cbs : list (string * cfn)) : frame :=
  mkframe (map (fun x => (x, VInt (z x))) (fseeds g)) (own_de g) cbs.
Definition gen_frame (g : fn) (k : string -> nat) (cbs : list (string * cfn)) : frame :=
  mkframe (map (fun x => (x, VGenExt (k x))) (fseeds g)) (own_de g) cbs.

(* callbacks of an entry frame: all supplied by the user, or all left at their defaults (not for an exempted function) *)
Definition entry_cbs (exempt : list (string * string)) (g : fn) (cbs : list (string * cfn)) : Prop :=
  cbs = user_cbs g \/ (cbs = default_cbs g /\ lookup exempt (fname g) = None).
Definition noseed_frame (g : fn) (cbs : list (string * cfn)) : frame := mkframe [] (own_de g) cbs.

(* ------------------------------------------------------------------------------------------------ *)
(* 5. Small skeletons and a concrete world for the non-vacuity examples of Properties/C10.v           *)
(* ------------------------------------------------------------------------------------------------ *)

Definition ex_U : dloc -> list string := fun _ => ["m"; "t"].

(* seed -> generator; info reset before it is read; the generator and info handed to a helper; timing stored *)
Definition ex_f_body (helper : string) : cmd :=
  Seq (Ev (MkGen "rand" "seed")) (Seq (Ev (Reset 0 "info" ["m"])) (Seq (Ev (DrawFrom 1 "rand"))
  (Seq (Ev (Call 2 helper [("rand", SVar "rand")] [("info", DVar "info")] []))
  (Seq (Ev (Read "info" "m")) (Seq (Ev (WriteT "info" "t")) Return))))).
Definition ex_f : fn := mkfn "ex.f" true ["seed"] true ["info"] [] [] (ex_f_body "ex.h").
Definition ex_h : fn := mkfn "ex.h" false ["rand"] false [] ["info"] []
  (Seq (Ev (DrawFrom 3 "rand")) (Seq (Ev (Read "info" "m")) (Seq (Ev (Call 4 "ex.h2" [] [] [])) Return))).
Definition ex_h2 : fn := mkfn "ex.h2" false [] false [] [] [] Return.
Definition ex_api_ok : list fn := [ex_f; ex_h; ex_h2].
(* the same, but the helper of the helper draws from the global generator (two levels down) *)
Definition ex_h2_global : fn := mkfn "ex.h2" false [] false [] [] [] (Seq (Ev (GlobalDraw 5)) Return).
Definition ex_api_global : list fn := [ex_f; ex_h; ex_h2_global].
(* info read before it is reset *)
Definition ex_f_readfirst : fn := mkfn "ex.f" true ["seed"] true ["info"] [] []
  (Seq (Ev (MkGen "rand" "seed")) (Seq (Ev (Read "info" "m")) (Seq (Ev (Reset 0 "info" ["m"])) Return))).
Definition ex_api_readfirst : list fn := [ex_f_readfirst].
(* a draw from a generator that was made from seed=None *)
Definition ex_f_none : fn := mkfn "ex.f" true ["seed"] true [] [] []
  (Seq (Ev (MkGenNone "rand")) (Seq (Ev (DrawFrom 1 "rand")) Return)).

(* storage from np.empty read before it is fully written *)
Definition ex_f_uninit : fn := mkfn "ex.f" true ["seed"] true [] [] []
  (Seq (Ev (MkGen "rand" "seed")) (Seq (Ev (Uninit 6)) (Seq (Ev (DrawFrom 1 "rand")) Return))).

(* a concrete world: generator states and values are numbers; a draw returns the state and increments it *)
Definition ex_world (g : nat) (m : option nat) : state nat nat :=
  mkstate nat nat g 1000 2000 (fun k => 10 * k) (fun l k => if String.eqb k "m" then m else None) [] [].
Definition ex_run_in (U : dloc -> list string) (api : list fn) (fuel mode : nat) (g : fn) (fr : frame) (w : state nat nat)
  : option (flag * list (obs nat) * nat) :=
  match exec nat nat (fun _ _ s => (s, Datatypes.S s)) (fun s h => Nat.even ((s + List.length h) / (1 + mode) + mode))
             (fun s _ h => Some (s + List.length h)) (fun _ d => d) Z.to_nat (fun e => (e, Datatypes.S e))
             (fun c => (c, Datatypes.S c)) U api fuel (fbody g) fr w with
  | Some (f, _, w') => Some (f, hist nat nat w', gs nat nat w')
  | None => None
  end.
Definition ex_run (api : list fn) := ex_run_in ex_U api 20 0.
Definition has_draw (h : list (obs nat)) : bool := existsb (fun o => match o with ODraw _ => true | _ => false end) h.
(* g is exported, takes an integer seed, and for one of six decision oracles its run with seed 7 in the concrete world
   returns normally and draws at least once *)
Definition runs_and_draws (U : dloc -> list string) (api : list fn) (g : fn) : bool :=
  fexported g && fint_ok g &&
  existsb (fun mode => match ex_run_in U api 300 mode g (int_frame g (fun _ => 7%Z) (user_cbs g)) (ex_world 5 None) with
                       | Some (FRet, h, _) => has_draw h
                       | _ => false
                       end) [0; 1; 2; 3; 4; 5].
