(* Execution-friendly variant of mul_scalar: the Kronecker core is built once per step
   (call-by-value), not once per entry.  Proofs/ActOneXP.v shows it equals ActOne.mul_scalar. *)
From Coq Require Import List Arith Lia PeanoNat ZArith.
From TV Require Import Num.Ops Lin.Tab Lin.BigSum TT.Chain Model.ActOne.
Import ListNotations.
Section ActOneX.
Context {T : Type} (K : ops T).
Notation "0" := (o0 K). Notation "1" := (o1 K).
Infix "+" := (oadd K). Infix "*" := (omul K).
Definition vsum (v : list T) (G : core T) : list T :=
  tab (cr2 G) (fun b => bsum K (cr1 G) (fun a => nth a v 0 * bsum K (cn G) (fun i => cget K G a i b))).
Fixpoint run2x (v : list T) (Y1 Y2 : list (core T)) : list T :=
  match Y1, Y2 with
  | G1 :: Y1', G2 :: Y2' => run2x (vsum v (core_kron K G1 G2)) Y1' Y2'
  | _, _ => v
  end.
Definition mul_scalar_x (Y1 Y2 : list (core T)) : T := nth O (run2x [1] Y1 Y2) 0.
End ActOneX.
