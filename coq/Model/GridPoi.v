(* Model of teneva/grid.py: grid_prep_opt, grid_prep_opts, ind_to_poi, poi_scale, poi_to_ind (+ the scalar
   branch of grid_flat; the list branch is Model/GridInd.v) and of teneva/stat.py: cdf_getter (C18).
   Definitions only.  Number type T with operations K, plus
     fl          floor : T -> Z            (np.rint is built from it, exactly: round half to even)
     cosf acosf  np.cos / np.arccos        (oracles; at R they are cos / acos)
     pi          np.pi
   Indices and grid sizes are Z; options are None / Python scalar / 1-D list. *)
From Coq Require Import List ZArith Bool Lia.
From TV Require Import Num.Ops Lin.Tab Model.GridInd.
Import ListNotations.

(* an option argument a / b / n as the caller passes it *)
Inductive gopt (A : Type) := GNone | GSc (x : A) | GVec (l : list A).
Arguments GNone {A}. Arguments GSc {A}. Arguments GVec {A}.
(* what grid_prep_opt returns: None, a 1-D array [d], or a 2-D array [reps, d] *)
Inductive parr (A : Type) := PNone | P1 (l : list A) | P2 (ll : list (list A)).
Arguments PNone {A}. Arguments P1 {A}. Arguments P2 {A}.
(* the `kind` argument: 'uni', 'cheb', a pair of new limits, anything else (not unpackable into two) *)
Inductive gkind (T : Type) := KUni | KCheb | KLim (anew bnew : T) | KBad.
Arguments KUni {T}. Arguments KCheb {T}. Arguments KLim {T}. Arguments KBad {T}.

(* ---------------------------------------------------------------- grid_prep_opt / grid_prep_opts *)
Section Prep.
Context {A : Type}.

(*  if opt is None: return None
    if isinstance(opt, (int, float)):
        if d is None or d <= 0: raise ValueError
        opt = np.ones(d, dtype=kind) * kind(opt)
    opt = np.asanyarray(opt, dtype=kind)
    if reps is not None: opt = np.repeat(opt.reshape((1, -1)), reps, axis=0)          *)
Definition grid_prep_opt (o : gopt A) (d : option Z) (reps : option nat) : result (parr A) :=
  match o with
  | GNone => Ok PNone
  | GSc x =>
      match d with
      | None => Err ValueError
      | Some dz => if (dz <=? 0)%Z then Err ValueError
                   else let v := repeat x (Z.to_nat dz) in
                        Ok (match reps with None => P1 v | Some m => P2 (repeat v m) end)
      end
  | GVec v => Ok (match reps with None => P1 v | Some m => P2 (repeat v m) end)
  end.

(*  for item in [a, b, n]:
        if isinstance(item, (list, np.ndarray)):
            if d is None: d = len(item)
            elif d != len(item): raise ValueError                                      *)
Definition opts_step {B} (o : gopt B) (d : result (option Z)) : result (option Z) :=
  rbind d (fun d =>
  match o with
  | GVec l => match d with
              | None => Ok (Some (Z.of_nat (length l)))
              | Some dz => if (dz =? Z.of_nat (length l))%Z then Ok d else Err ValueError
              end
  | _ => Ok d
  end).
End Prep.

Definition grid_prep_opts {A} (a b : gopt A) (n : gopt Z) (d : option Z) (reps : option nat)
  : result (parr A * parr A * parr Z) :=
  rbind (opts_step n (opts_step b (opts_step a (Ok d)))) (fun d =>
  rbind (grid_prep_opt a d reps) (fun a' =>
  rbind (grid_prep_opt b d reps) (fun b' =>
  rbind (grid_prep_opt n d reps) (fun n' => Ok (a', b', n'))))).

(*  _, _, n = grid_prep_opts(None, None, n, d, m)      (poi_to_ind since /repo bc9fc68: the length of a list n is
    validated against d; before that commit the line was  n = grid_prep_opt(n, d, int, m)  -- see poi_to_ind1_pinned) *)
Definition prep_n (n : gopt Z) (d : nat) (reps : option nat) : result (parr Z) :=
  rmap (fun abn : parr Z * parr Z * parr Z => snd abn)
       (grid_prep_opts (@GNone Z) GNone n (Some (Z.of_nat d)) reps).

(* use of a prepared option in array arithmetic: None raises TypeError *)
Definition arr1 {A} (p : parr A) : result (list A) :=
  match p with P1 l => Ok l | PNone => Err TypeError | P2 _ => Err OtherError end.
Definition arr2 {A} (p : parr A) : result (list (list A)) :=
  match p with P2 l => Ok l | PNone => Err TypeError | P1 _ => Err OtherError end.

Section Model.
Context {T : Type} (K : ops T).
Variable fl : T -> Z.
Variables cosf acosf : T -> T.
Variable pi : T.
Notation "0" := (o0 K). Notation "1" := (o1 K).
Infix "+" := (oadd K). Infix "*" := (omul K). Infix "-" := (osub K). Infix "/" := (odiv K).
Notation "x <? y" := (oltb K x y).
Notation ofZ := (oofZ K).
Notation "2" := (o1 K + o1 K).

(* np.rint: round to nearest, ties to even.  fl is floor. *)
Definition rint (x : T) : Z :=
  let f := fl x in
  let r := x - ofZ f in
  let h := 1 / 2 in
  if r <? h then f else if h <? r then (f + 1)%Z else if Z.even f then f else (f + 1)%Z.

(*  Xsc[Xsc < lo] = lo ; Xsc[Xsc > hi] = hi     (two assignments, in this order) *)
Definition clip (lo hi x : T) : T :=
  let x1 := if x <? lo then lo else x in
  if hi <? x1 then hi else x1.
(*  I[I < 0] = 0 ; I[I > n-1] = n[I > n-1] - 1 *)
Definition clampI (n i : Z) : Z :=
  let i1 := if (i <? 0)%Z then 0%Z else i in
  if (n - 1 <? i1)%Z then (n - 1)%Z else i1.

(* ---- elementwise formulas ---- *)
(* X = I / (n - 1) * (b - a) + a *)
Definition uni_node (a b : T) (n i : Z) : T := ofZ i / ofZ (n - 1) * (b - a) + a.
(* X = np.cos(np.pi * I / (n - 1)) * (b - a) / 2 + (b + a) / 2 *)
Definition cheb_node (a b : T) (n i : Z) : T :=
  cosf (pi * ofZ i / ofZ (n - 1)) * (b - a) / 2 + (b + a) / 2.
Definition node (kd : gkind T) (a b : T) (n i : Z) : T :=
  match kd with KCheb => cheb_node a b n i | _ => uni_node a b n i end.

(* Xsc = (X - a) / (b - a), clipped to [0, 1] *)
Definition scale_uni (a b x : T) : T := clip 0 1 ((x - a) / (b - a)).
(* Xsc = (X - (b + a) / 2) * (2 / (b - a)), clipped to [-1, 1] *)
Definition scale_cheb (a b x : T) : T := clip (0 - 1) 1 ((x - (b + a) / 2) * (2 / (b - a))).
(* Xsc = (X * (a_new - b_new) + a * b_new - b * a_new) / (a - b), clipped to a_new, then to b_new *)
Definition scale_lim (an bn a b x : T) : T := clip an bn ((x * (an - bn) + a * bn - b * an) / (a - b)).
Definition scale (kd : gkind T) (a b x : T) : T :=
  match kd with
  | KUni => scale_uni a b x | KCheb => scale_cheb a b x | KLim an bn => scale_lim an bn a b x | KBad => x
  end.

(* the value handed to np.rint ("grid parameter" of the scaled point) *)
Definition param (kd : gkind T) (n : Z) (xsc : T) : T :=
  match kd with
  | KCheb => acosf xsc / pi * ofZ (n - 1)
  | _ => xsc * ofZ (n - 1)
  end.
Definition index_of (kd : gkind T) (n : Z) (xsc : T) : Z := clampI n (rint (param kd n xsc)).
(* one coordinate of poi_to_ind *)
Definition poi_to_ind_elem (kd : gkind T) (a b : T) (n : Z) (x : T) : Z := index_of kd n (scale kd a b x).

(* ---- ind_to_poi, one multi-index (I.shape = (d,)) ---- *)
Definition ind_to_poi1 (I : list Z) (a b : gopt T) (n : gopt Z) (kd : gkind T) : result (list T) :=
  let d := length I in
  rbind (grid_prep_opts a b n (Some (Z.of_nat d)) None) (fun '(a', b', n') =>
  match kd with
  | KUni | KCheb =>
      rbind (arr1 n') (fun nv => rbind (arr1 b') (fun bv => rbind (arr1 a') (fun av =>
      Ok (tab d (fun k => node kd (nth k av 0) (nth k bv 0) (nth k nv 0%Z) (nth k I 0%Z))))))
  | _ => Err ValueError
  end).
(* batch (I.shape = (m, d), m >= 1, rectangular) *)
Definition ind_to_poi (I : list (list Z)) (a b : gopt T) (n : gopt Z) (kd : gkind T) : result (list (list T)) :=
  let d := length (hd [] I) in
  let m := length I in
  rbind (grid_prep_opts a b n (Some (Z.of_nat d)) (Some m)) (fun '(a', b', n') =>
  match kd with
  | KUni | KCheb =>
      rbind (arr2 n') (fun nv => rbind (arr2 b') (fun bv => rbind (arr2 a') (fun av =>
      Ok (tab m (fun r => tab d (fun k =>
            node kd (nth k (nth r av []) 0) (nth k (nth r bv []) 0) (nth k (nth r nv []) 0%Z)
                 (nth k (nth r I []) 0%Z)))))))
  | _ => Err ValueError
  end).

(* ---- poi_scale ---- *)
Definition poi_scale1 (X : list T) (a b : gopt T) (kd : gkind T) : result (list T) :=
  let d := length X in
  rbind (grid_prep_opts a b GNone (Some (Z.of_nat d)) None) (fun '(a', b', _) =>
  match kd with
  | KBad => Err ValueError
  | _ => rbind (arr1 a') (fun av => rbind (arr1 b') (fun bv =>
         Ok (tab d (fun k => scale kd (nth k av 0) (nth k bv 0) (nth k X 0)))))
  end).
Definition poi_scale (X : list (list T)) (a b : gopt T) (kd : gkind T) : result (list (list T)) :=
  let d := length (hd [] X) in
  let m := length X in
  rbind (grid_prep_opts a b GNone (Some (Z.of_nat d)) (Some m)) (fun '(a', b', _) =>
  match kd with
  | KBad => Err ValueError
  | _ => rbind (arr2 a') (fun av => rbind (arr2 b') (fun bv =>
         Ok (tab m (fun r => tab d (fun k =>
               scale kd (nth k (nth r av []) 0) (nth k (nth r bv []) 0) (nth k (nth r X []) 0))))))
  end).

(* ---- poi_to_ind ---- *)
(* numpy broadcasting of the row Xsc (length d) against the prepared n (length ln), followed by the boolean-mask
   assignment n[I > n-1]: equal lengths are elementwise; a length-1 n broadcasts in the product but the mask
   indexing raises IndexError; a length-1 Xsc broadcasts against a longer (or empty) n; anything else fails to
   broadcast (ValueError).  Since bc9fc68 the prepared n always has length d (prep_n), so only the first branch is
   reachable from poi_to_ind; the others are what the pinned code ran into (poi_to_ind1_pinned). *)
Definition bcast_row (kd : gkind T) (xs : list T) (nv : list Z) : result (list Z) :=
  let d := length xs in let ln := length nv in
  if Nat.eqb ln d then Ok (tab d (fun k => index_of kd (nth k nv 0%Z) (nth k xs 0)))
  else if Nat.eqb ln 1 then Err IndexError
  else if Nat.eqb d 1 then Ok (tab ln (fun k => index_of kd (nth k nv 0%Z) (nth O xs 0)))
  else Err ValueError.

Definition poi_to_ind1 (X : list T) (a b : gopt T) (n : gopt Z) (kd : gkind T) : result (list Z) :=
  rbind (poi_scale1 X a b kd) (fun Xsc =>
  let d := length Xsc in
  rbind (prep_n n d None) (fun n' =>
  match kd with
  | KUni | KCheb => rbind (arr1 n') (fun nv => bcast_row kd Xsc nv)
  | _ => Err ValueError
  end)).

(* the code as pinned (before bc9fc68):  n = grid_prep_opt(n, d, int, m)  -- no length validation.  Kept only as the
   subject of the machine-checked finding (Proofs/GridPoiOptP.v, poi_to_ind1_pinned_refuted). *)
Definition poi_to_ind1_pinned (X : list T) (a b : gopt T) (n : gopt Z) (kd : gkind T) : result (list Z) :=
  rbind (poi_scale1 X a b kd) (fun Xsc =>
  let d := length Xsc in
  rbind (grid_prep_opt n (Some (Z.of_nat d)) None) (fun n' =>
  match kd with
  | KUni | KCheb => rbind (arr1 n') (fun nv => bcast_row kd Xsc nv)
  | _ => Err ValueError
  end)).

Definition poi_to_ind (X : list (list T)) (a b : gopt T) (n : gopt Z) (kd : gkind T) : result (list (list Z)) :=
  rbind (poi_scale X a b kd) (fun Xsc =>
  let d := length (hd [] Xsc) in
  let m := length Xsc in
  rbind (prep_n n d (Some m)) (fun n' =>
  match kd with
  | KUni | KCheb => rbind (arr2 n') (fun nv =>
        sequence (tab m (fun r => bcast_row kd (nth r Xsc []) (nth r nv []))))
  | _ => Err ValueError
  end)).

(* ---------------------------------------------------------------- stat.cdf_getter *)
Notation "x <=? y" := (oleb K x y).
(* x.sort() *)
Fixpoint insert_sorted (x : T) (l : list T) : list T :=
  match l with
  | [] => [x]
  | y :: l' => if x <=? y then x :: l else y :: insert_sorted x l'
  end.
Definition sort (l : list T) : list T := fold_right insert_sorted [] l.
(* np.searchsorted(s, z, 'right') on an ascending s: the number of leading entries <= z *)
Fixpoint searchsorted_right (s : list T) (z : T) : nat :=
  match s with
  | [] => O
  | y :: s' => if y <=? z then S (searchsorted_right s' z) else O
  end.
(* y = np.linspace(1/m, 1, m) modelled by its exact values (k+1)/m; x = r_[-inf, sorted], y = r_[0, y];
   cdf(z) = y[searchsorted(x, z, 'right') - 1]: the leading -inf contributes exactly 1 to the count for every
   real z, which cancels the "- 1".  An empty sample raises ZeroDivisionError (1./len(x)). *)
Definition cdf (xs : list T) (z : T) : result T :=
  match xs with
  | [] => Err OtherError
  | _ =>
    let m := length xs in
    let y := 0 :: tab m (fun k => ofZ (Z.of_nat (S k)) / ofZ (Z.of_nat m)) in
    Ok (nth (searchsorted_right (sort xs) z) y 0)
  end.
End Model.

(* grid_flat(n) for a scalar n: np.arange(int(n)) *)
Definition grid_flat_scalar (n : nat) : list nat := seq 0 n.

(* ---------------------------------------------------------------- instance helpers for execution over Qc *)
From Coq Require Import QArith Qcanon Qround.
Definition Qc_floor (q : Qc) : Z := Qfloor (this q).
