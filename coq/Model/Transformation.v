(* Model of teneva/transformation.py: orthogonalize_left / orthogonalize_right / orthogonalize
   and teneva/core.py:core_stab (C04, C16), with LAPACK routines as oracles. *)
From Coq Require Import List Arith Lia PeanoNat ZArith Bool.
From TV Require Import Num.Ops Lin.Tab Lin.BigSum Lin.Mat TT.Chain.
Import ListNotations.

Section Transformation.
Context {T : Type} (K : ops T).
Notation "0" := (o0 K). Notation "1" := (o1 K).
Infix "+" := (oadd K). Infix "*" := (omul K). Infix "-" := (osub K). Infix "/" := (odiv K).

(* teneva._reshape(G, (r1*n, r2), order='F'): row a + r1*i *)
Definition unfoldL (G : core T) : mat T :=
  mkmat (cr1 G * cn G) (cr2 G) (fun p b => cget K G (p mod cr1 G) (p / cr1 G) b).
(* teneva._reshape(Q, (r1, n, q), order='F') *)
Definition foldL (r1 n : nat) (Q : mat T) : core T :=
  mkcore r1 n (mc Q) (fun a i c => mget K Q (a + r1 * i) c).
(* teneva._reshape(G, (r1, n*r2), order='F'): column i + n*b *)
Definition unfoldR (G : core T) : mat T :=
  mkmat (cr1 G) (cn G * cr2 G) (fun a p => cget K G a (p mod cn G) (p / cn G)).
Definition foldR (n r2 : nat) (Q : mat T) : core T :=
  mkcore (mr Q) n r2 (fun a i b => mget K Q a (i + n * b)).

(* list update *)
Fixpoint upd {A} (l : list A) (k : nat) (x : A) : list A :=
  match l, k with
  | [], _ => []
  | _ :: l', O => x :: l'
  | y :: l', S k' => y :: upd l' k' x
  end.
Definition dcore : core T := mk_core 0 0 0 [].

(* oracles: call keyed by the mode number it is applied at *)
Variable qr : nat -> mat T -> mat T * mat T.     (* np.linalg.qr(.., mode='reduced')  -> (Q, R) *)
Variable rq : nat -> mat T -> mat T * mat T.     (* sp.linalg.rq(.., mode='economic') -> (R, Q) *)
Variable ilog2 : nat -> T -> Z.                  (* int(np.floor(np.log2(v))) *)

(* orthogonalize_left(Z, i, inplace): the list operation (aliasing is C09) *)
Definition orth_left (Zs : list (core T)) (i : nat) : result (list (core T)) :=
  if length Zs - 1 <=? i then Err ValueError else
  let G1 := nth i Zs dcore in
  let '(Q, R) := qr i (unfoldL G1) in
  let G2 := nth (S i) Zs dcore in
  let M := mmul K R (unfoldR G2) in
  Ok (upd (upd Zs i (foldL (cr1 G1) (cn G1) Q)) (S i) (foldR (cn G2) (cr2 G2) M)).
(* orthogonalize_right(Z, i, inplace) *)
Definition orth_right (Zs : list (core T)) (i : nat) : result (list (core T)) :=
  if (i =? 0) || (length Zs - 1 <? i) then Err ValueError else
  let G2 := nth i Zs dcore in
  let '(R, Q) := rq i (unfoldR G2) in
  let G1 := nth (i - 1) Zs dcore in
  let M := mmul K (unfoldL G1) R in
  Ok (upd (upd Zs i (foldR (cn G2) (cr2 G2) Q)) (i - 1) (foldL (cr1 G1) (cn G1) M)).

(* core.core_stab(G, p0, thr): v_max <= thr -> unchanged *)
Definition cmax (G : core T) : T :=
  fold_left (fun m x => if oltb K m (oabs K x) then oabs K x else m) (concat (concat (dat G))) 0.
Definition core_stab (k : nat) (G : core T) (p0 : Z) (thr : T) : core T * Z :=
  let v := cmax G in
  if oleb K v thr then (G, p0) else
  let p := ilog2 k v in
  (mkcore (cr1 G) (cn G) (cr2 G) (fun a i b => cget K G a i b / opow2 K p), (p0 + p)%Z).

(* orthogonalize(Y, k, use_stab) *)
Fixpoint orth_left_sweep (Zs : list (core T)) (p : Z) (use_stab : bool) (i n : nat) : result (list (core T) * Z) :=
  match n with
  | O => Ok (Zs, p)
  | S n' =>
      match orth_left Zs i with
      | Err e => Err e
      | Ok Zs1 =>
          if use_stab then
            let '(G, p1) := core_stab (S i) (nth (S i) Zs1 dcore) p 0 in
            orth_left_sweep (upd Zs1 (S i) G) p1 use_stab (S i) n'
          else orth_left_sweep Zs1 p use_stab (S i) n'
      end
  end.
(* i runs from d-1 down to k+1: n steps starting at i *)
Fixpoint orth_right_sweep (Zs : list (core T)) (p : Z) (use_stab : bool) (i n : nat) : result (list (core T) * Z) :=
  match n with
  | O => Ok (Zs, p)
  | S n' =>
      match orth_right Zs i with
      | Err e => Err e
      | Ok Zs1 =>
          if use_stab then
            let '(G, p1) := core_stab (i - 1) (nth (i - 1) Zs1 dcore) p 0 in
            orth_right_sweep (upd Zs1 (i - 1) G) p1 use_stab (i - 1) n'
          else orth_right_sweep Zs1 p use_stab (i - 1) n'
      end
  end.
(* k : Z so that negative pivots can be expressed; None = default d-1 *)
Definition orthogonalize (Y : list (core T)) (k : option Z) (use_stab : bool) : result (list (core T) * Z) :=
  let d := length Y in
  let kz := match k with None => (Z.of_nat d - 1)%Z | Some k => k end in
  if (kz <? 0)%Z || (Z.of_nat d - 1 <? kz)%Z then Err ValueError else
  let k := Z.to_nat kz in
  match orth_left_sweep Y 0%Z use_stab 0 k with
  | Err e => Err e
  | Ok (Zs1, p1) => orth_right_sweep Zs1 p1 use_stab (d - 1) (d - 1 - k)
  end.
End Transformation.
