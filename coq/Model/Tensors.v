(* Model of the explicit constructors (C19):
     teneva/tensors.py : const, delta, poly, rand_custom, rand, rand_norm, rand_stab
     teneva/vectors.py : vector_delta          teneva/matrices.py : matrix_delta
     teneva/utils.py   : _vector_index_prepare, _vector_index_expand
   Executable definitions only; the lemmas are in Proofs/TensorsP.v.
   Oracles (arguments of the model functions, filled with recorded values for execution):
     root   : T -> T                  x |-> x ** (1./d)       (contract: (root x)^d = x)
     f      : nat -> list T           the sampling function of rand_custom (contract: length (f N) = N)
     normal : call-no -> loc -> scale -> (r1,n,r2) -> a -> p -> b -> T    Generator.normal(loc, scale, size)
   [tiny] is the constant 1.E-16 of the carrier (0 for the carrier Z: |v| > 1e-16 <-> |v| > 0 on integers). *)
From Coq Require Import List Arith Lia PeanoNat ZArith Bool.
From TV Require Import Num.Ops Lin.Tab Lin.BigSum TT.Chain.
Import ListNotations.

(* ---------- index helpers (carrier independent) ---------- *)

(* numpy index normalisation on an axis of length n: negative indices count from the end *)
Definition np_index (n : nat) (i : Z) : result nat :=
  if ((0 <=? i) && (i <? Z.of_nat n))%Z then Ok (Z.to_nat i)
  else if ((- Z.of_nat n <=? i) && (i <? 0))%Z then Ok (Z.to_nat (Z.of_nat n + i))
  else Err IndexError.
(* l[k] for a list / 1-D array and k >= 0 *)
Definition lget {A} (l : list A) (k : nat) : result A :=
  match nth_error l k with Some x => Ok x | None => Err IndexError end.
Fixpoint upd {A} (l : list A) (k : nat) (x : A) : list A :=
  match l, k with
  | [], _ => []
  | _ :: l', O => x :: l'
  | y :: l', S k' => y :: upd l' k' x
  end.
(* Y[-1] = f(Y[-1]) *)
Fixpoint map_last {A} (f : A -> A) (l : list A) : list A :=
  match l with
  | [] => []
  | [x] => [f x]
  | x :: l' => x :: map_last f l'
  end.

(* _vector_index_prepare(q, i) *)
Definition vector_index_prepare (q : nat) (i : Z) : result Z :=
  let n := (2 ^ Z.of_nat q)%Z in
  if ((n <=? i) || (i <? - n))%Z then Err ValueError
  else Ok (if (0 <=? i)%Z then i else (n + i)%Z).
(* int(i / 2) for a Python int i >= 0: true division is correctly rounded to binary64 (53 bits,
   ties to even), then truncated.  Exact (= i / 2) for i < 2^53. *)
Definition py_half (i : Z) : Z :=
  let e := (Z.log2 i - 52)%Z in
  if (e <=? 0)%Z then (i / 2)%Z
  else
    let m := (i / 2 ^ e)%Z in let r := (i mod 2 ^ e)%Z in let h := (2 ^ (e - 1))%Z in
    let m' := if (r <? h)%Z then m else if (h <? r)%Z then (m + 1)%Z
              else if Z.even m then m else (m + 1)%Z in
    (m' * 2 ^ (e - 1))%Z.
(* for _ in range(q): ind.append(i % 2); i = int(i / 2)      -> (ind, final i) *)
Fixpoint expand_loop (q : nat) (i : Z) : list nat * Z :=
  match q with
  | O => ([], i)
  | S q' => let (l, r) := expand_loop q' (py_half i) in (Z.to_nat (i mod 2) :: l, r)
  end.
(* _vector_index_expand(q, i) *)
Definition vector_index_expand (q : nat) (i : Z) : result (list nat) :=
  if (i <? 0)%Z then (if (i =? -1)%Z then Ok (repeat 1%nat q) else Err ValueError)
  else let (l, r) := expand_loop q i in if (0 <? r)%Z then Err ValueError else Ok l.

(* r = [1] + [int(r)] * (d - 1) + [1] for a scalar r, else r itself *)
Definition rank_profile (d : nat) (r : nat + list nat) : list nat :=
  match r with inl x => 1%nat :: repeat x (d - 1) ++ [1%nat] | inr l => l end.
(* ps = cumsum([1, s_0, s_1, ...]) : ps[k] = 1 + s_0 + ... + s_{k-1} *)
Fixpoint cumsum_from (acc : nat) (l : list nat) : list nat :=
  match l with [] => [acc] | x :: l' => acc :: cumsum_from (acc + x) l' end.
(* cores[lo:hi] *)
Definition slice {A} (l : list A) (lo hi : nat) : list A := firstn (hi - lo) (skipn lo l).

Section Tensors.
Context {T : Type} (K : ops T).
Notation "0" := (o0 K). Notation "1" := (o1 K).
Infix "+" := (oadd K). Infix "*" := (omul K). Infix "-" := (osub K).
Notation tt := (list (core T)).

(* G[a, i, b] = x *)
Definition cset (G : core T) (a i b : nat) (x : T) : core T :=
  mkcore (cr1 G) (cn G) (cr2 G)
    (fun a' i' b' => if (a' =? a) && (i' =? i) && (b' =? b) then x else cget K G a' i' b').
(* G = f(G) elementwise *)
Definition cmap (f : T -> T) (G : core T) : core T :=
  mkcore (cr1 G) (cn G) (cr2 G) (fun a i b => f (cget K G a i b)).
Definition cfull (r1 n r2 : nat) (x : T) : core T := mkcore r1 n r2 (fun _ _ _ => x).

(* ---------- const / delta: sign and root ---------- *)
(* abs(v) > 1.E-16 *)
Definition big (tiny v : T) : bool := oltb K tiny (oabs K v).
(* s = abs(v) / v if abs(v) > 1.E-16 else v *)
Definition sign_of (tiny v : T) : T := if big tiny v then odiv K (oabs K v) v else v.
(* v = abs(v)**(1./d) if abs(v) > 1.E-16 else 1. *)
Definition root_of (tiny : T) (root : T -> T) (v : T) : T := if big tiny v then root (oabs K v) else 1.

(* Y = [np.ones([1, k, 1]) * v for k in n];  Y[-1] *= s *)
Definition const_plain (tiny : T) (root : T -> T) (ns : list nat) (v : T) : tt :=
  let s := sign_of tiny v in
  let rho := root_of tiny root v in
  map_last (cmap (fun x => x * s)) (map (fun k => cfull 1%nat k 1%nat rho) ns).

(* Y[k][0, i, 0] = 0. *)
Definition set_zero (Y : tt) (k : nat) (i : Z) : result tt :=
  rbind (lget Y k) (fun G => rbind (np_index (cn G) i) (fun j => Ok (upd Y k (cset G O j O 0)))).

(* the `while True` loop for one i_zero; state (k, skiped); returns (Y, k) at the `break` *)
Fixpoint zero_one (fuel d : nat) (inz : option (list Z)) (iz : list Z) (Y : tt) (k skiped : nat)
  : result (tt * nat) :=
  match fuel with
  | O => Err OutOfFuel
  | S fuel' =>
      rbind (match inz with
             | None => Ok true                         (* i_non_zero is None or ... *)
             | Some nz => rbind (lget iz k) (fun a => rbind (lget nz k) (fun b => Ok (negb (a =? b)%Z)))
             end) (fun c =>
      if c then
        rbind (lget iz k) (fun a => rbind (set_zero Y k a) (fun Y' => Ok (Y', S k)))
      else
        let k := S k in
        let skiped := S skiped in
        if d <? skiped then Err ValueError
        else let k := if d <=? k then O else k in
             zero_one fuel' d inz iz Y k skiped)
  end.
(* for i_zero in I_zero: ... ; if k >= d: k = 0 *)
Fixpoint zero_all (d : nat) (inz : option (list Z)) (Iz : list (list Z)) (Y : tt) (k : nat)
  : result (tt * nat) :=
  match Iz with
  | [] => Ok (Y, k)
  | iz :: Iz' =>
      rbind (zero_one (S (S d)) d inz iz Y k O) (fun Yk =>
      let k := if d <=? snd Yk then O else snd Yk in
      zero_all d inz Iz' (fst Yk) k)
  end.

(* teneva.const(n, v, I_zero, i_non_zero); d = 0 raises ZeroDivisionError (1./d) *)
Definition const (tiny : T) (root : T -> T) (ns : list nat) (v : T)
  (Iz : option (list (list Z))) (inz : option (list Z)) : result tt :=
  match ns with
  | [] => Err OtherError
  | _ =>
    let Y := const_plain tiny root ns v in
    match Iz with
    | None => Ok Y
    | Some L => rmap fst (zero_all (length ns) inz L Y O)
    end
  end.

(* ---------- delta ---------- *)
(* for k in range(d): Y[k][0, i[k], 0] = v *)
Fixpoint delta_fill (rho : T) (Y : tt) (i : list Z) : result tt :=
  match Y with
  | [] => Ok []
  | G :: Y' =>
      match i with
      | [] => Err IndexError
      | ik :: i' => rbind (np_index (cn G) ik) (fun j =>
                    rbind (delta_fill rho Y' i') (fun R => Ok (cset G O j O rho :: R)))
      end
  end.
Definition delta (tiny : T) (root : T -> T) (ns : list nat) (i : list Z) (v : T) : result tt :=
  match ns with
  | [] => Err OtherError
  | _ =>
    let s := sign_of tiny v in
    let rho := root_of tiny root v in
    rbind (delta_fill rho (map (fun k => cfull 1%nat k 1%nat 0) ns) i) (fun Y =>
    Ok (map_last (cmap (fun x => x * s)) Y))
  end.

(* ---------- QTT delta vector / matrix ---------- *)
(* G = zeros((1, 2, 1)); G[0, b, 0] = 1. *)
Definition bit_core (b : nat) : core T := cset (cfull 1%nat 2%nat 1%nat 0) O b O 1.
(* Y[-1][0, ind[-1], 0] = v ; Y[-1] / ind[-1] on an empty list raise IndexError *)
Definition vector_delta (q : nat) (i : Z) (v : T) : result tt :=
  rbind (vector_index_prepare q i) (fun i' =>
  rbind (vector_index_expand q i') (fun ind =>
  match ind with
  | [] => Err IndexError
  | _ => Ok (map_last (fun G => cset G O (last ind O) O v) (map bit_core ind))
  end)).
(* the 4-D core G[0, c, r, 0] of shape (1,2,2,1) is stored as a (1,4,1) core with mode index 2*c + r
   (C-order flattening of the two middle axes) *)
Definition bit2_core (c r : nat) : core T := cset (cfull 1%nat 4%nat 1%nat 0) O (2 * c + r)%nat O 1.
Definition matrix_delta (q : nat) (i j : Z) (v : T) : result tt :=
  rbind (vector_index_prepare q i) (fun i' =>
  rbind (vector_index_prepare q j) (fun j' =>
  rbind (vector_index_expand q i') (fun ic =>
  rbind (vector_index_expand q j') (fun ir =>
  match ic with
  | [] => Err IndexError
  | _ => Ok (map_last (fun G => cset G O (2 * last ic O + last ir O)%nat O v)
                      (map (fun cr => bit2_core (fst cr) (snd cr)) (combine ic ir)))
  end)))).

(* ---------- poly ---------- *)
Fixpoint tpow (x : T) (p : nat) : T := match p with O => 1 | S p' => x * tpow x p' end.
Definition ofnat (m : nat) : T := oofZ K (Z.of_nat m).
(* grid_prep_opt(shift, d): a scalar is broadcast (d <= 0 raises ValueError), a list is taken as it is *)
Definition prep_opt (opt : T + list T) (d : nat) : result (list T) :=
  match opt with
  | inl x => if d =? O then Err ValueError else Ok (repeat x d)
  | inr l => Ok l
  end.
(* the three `if`s of the loop body, in order; the last one wins (d = 1: the (2,k,1) core) *)
Definition poly_core (d j k : nat) (g : nat -> T) (scale : T) : core T :=
  let G := mkcore O O O (fun _ _ _ => 0) in
  let G := if j =? O then mkcore 1%nat k 2%nat (fun _ m b => if b =? O then 1 else g m) else G in
  let G := if (O <? j) && (j <? (d - 1)%nat)
           then mkcore 2%nat k 2%nat (fun a m b => if a =? O then (if b =? O then 1 else g m)
                                                   else (if b =? O then 0 else 1)) else G in
  let G := if j =? (d - 1)%nat then mkcore 2%nat k 1%nat (fun a m _ => if a =? O then g m * scale else scale) else G in
  G.
Fixpoint poly_loop (d j : nat) (ns : list nat) (shift : list T) (power : nat) (scale : T) : result tt :=
  match ns with
  | [] => Ok []
  | k :: ns' =>
      (* _get(m, j) is evaluated inside the loop over m: shift[j] raises only if k > 0 *)
      rbind (if k =? O then Ok 0 else lget shift j) (fun sj =>
      rbind (poly_loop d (S j) ns' shift power scale) (fun R =>
      Ok (poly_core d j k (fun m => tpow (ofnat m + sj) power) scale :: R)))
  end.
Definition poly (ns : list nat) (shift : T + list T) (power : nat) (scale : T) : result tt :=
  rbind (prep_opt shift (length ns)) (fun sh => poly_loop (length ns) O ns sh power scale).

(* ---------- random constructors ---------- *)
(* G.reshape((r1, n, r2), order='F') of a 1-D array; numpy raises ValueError on a size mismatch *)
Definition reshape_F (seg : list T) (r1 n r2 : nat) : result (core T) :=
  if length seg =? (r1 * n * r2)%nat
  then Ok (mkcore r1 n r2 (fun a i b => nth (a + r1 * (i + n * b))%nat seg 0))
  else Err ValueError.
Fixpoint sequenceR {A} (l : list (result A)) : result (list A) :=
  match l with
  | [] => Ok []
  | x :: l' => rbind x (fun a => rbind (sequenceR l') (fun r => Ok (a :: r)))
  end.
(* rand_custom(n, r, f) for a rank argument of length d+1 (or a scalar) *)
Definition rand_custom (ns : list nat) (r : nat + list nat) (f : nat -> list T) : result tt :=
  let d := length ns in
  let rs := rank_profile d r in
  let sizes := tab d (fun k => (nth k ns O * nth k rs O * nth (S k) rs O)%nat) in
  let ps := cumsum_from 1%nat sizes in
  let cores := f (nth d ps O - 1)%nat in
  sequenceR (tab d (fun k =>
    reshape_F (slice cores (nth k ps O - 1) (nth (S k) ps O - 1)) (nth k rs O) (nth k ns O) (nth (S k) rs O))).
(* rand / rand_norm: f(size) = rand.uniform(a, b, size=size) / rand.normal(m, s, size=size); the generator
   (at the given seed) is the oracle [gen a b size] *)
Definition rand (ns : list nat) (r : nat + list nat) (a b : T) (uniform : T -> T -> nat -> list T) : result tt :=
  rand_custom ns r (fun size => uniform a b size).
Definition rand_norm (ns : list nat) (r : nat + list nat) (m s : T) (normal : T -> T -> nat -> list T) : result tt :=
  rand_custom ns r (fun size => normal m s size).

(* np.eye(r1, r2)[a, b] *)
Definition eye (a b : nat) : T := if a =? b then 1 else 0.
(* rand_stab: G = rand.normal(0., noise, size=(r[k], n[k], r[k+1])); for p: G[:, p, :] += np.eye(r[k], r[k+1]) *)
Definition rand_stab (ns : list nat) (r : nat + list nat) (noise : T)
  (normal : nat -> T -> T -> nat * nat * nat -> nat -> nat -> nat -> T) : tt :=
  let d := length ns in
  let rs := rank_profile d r in
  tab d (fun k =>
    let r1 := nth k rs O in let n := nth k ns O in let r2 := nth (S k) rs O in
    mkcore r1 n r2 (fun a p b => normal k 0 noise (r1, n, r2) a p b + eye a b)).
End Tensors.
