(* Model of teneva/als.py: als (constant-rank path r=None; rank-adaptive path up to and including the
   skeleton), _optimize_core, _optimize_core_adaptive, _lstsq (lamb given), and of the stop logic of
   utils._info_appr.  Definitions only.

   Representation.
     * a training sample is (index row, value, weight); I_trn / y_trn / w are the three columns of the
       sample list.  w=None is the weight vector of ones (w[:,None]*A is then exact in binary64 too).
     * Yl[k] is stored as the list of its rows   (row j = left  interface vector of sample j, length r_k),
       Yr[k] is stored as the list of its COLUMNS (col j = right interface vector of sample j, length r_{k+1}).
     * np.where(i == k)[0] is a [filter] that keeps the order of the samples.
   Oracles (Section variables): [solve] = scipy.linalg.lstsq(N, rhs, lapack_driver='gelsy')[0];
     [acc] / [accv] = the values returned by teneva.accuracy / teneva.accuracy_on_data; [cb] = the callback;
     adaptive path: [orth] = teneva.orthogonalize(Y, 0), [skel] = teneva.matrix_skeleton(Qs, e, r, rel=True, ..).
   The driver loop [gen_loop] is generic in the state and the sweep function: als_func (Model/AlsFunc.v) uses it too.
   The rank-adaptive path is [als_adaptive] (e=None, no validation data, no callback: max(1, nswp) sweeps).
   NOT modelled: allow_swap=True ("VERY experimental"), update_sol, lamb=None, use_stab, log, info['t'], info['r'],
     negative (wrapping) indices. *)
From Coq Require Import List Arith Lia PeanoNat Bool.
From TV Require Import Num.Ops Lin.Tab Lin.BigSum Lin.Solve TT.Chain.
Import ListNotations.

Inductive stopr := SNswp | SE | SEvld | SCb.
Definition stop_code (s : stopr) : nat := match s with SNswp => 1 | SE => 2 | SEvld => 3 | SCb => 4 end.

Section Als.
Context {T : Type} (K : ops T).
Notation "0" := (o0 K). Notation "1" := (o1 K).
Infix "+" := (oadd K). Infix "*" := (omul K). Infix "-" := (osub K).

Record sample := Smp { sidx : list nat; sy : T; sw : T }.
Definition dcore : core T := mk_core O O O [].

(* one row of the least-squares problem of a slice: (a_j, y_j, w_j) *)
Definition lrow : Type := (list T * T * T)%type.
Definition ra (row : lrow) : list T := fst (fst row).
Definition ry (row : lrow) : T := snd (fst row).
Definition rw (row : lrow) : T := snd row.

(* ------------------------------------------------------------------ _lstsq, lamb is not None
     AW = w[:, None] * A;  AtA = A.T @ AW;  Aty = AW.T @ y
     return lstsq(AtA + lamb * identity, Aty)                                                    *)
Definition normal_mat (p : nat) (lamb : T) (rows : list lrow) : list (list T) :=
  tab p (fun a => tab p (fun b =>
    lsum K (map (fun row => nth a (ra row) 0 * (rw row * nth b (ra row) 0)) rows)
    + lamb * (if Nat.eqb a b then 1 else 0))).
Definition normal_rhs (p : nat) (rows : list lrow) : list T :=
  tab p (fun a => lsum K (map (fun row => (rw row * nth a (ra row) 0) * ry row) rows)).

Variable solve : list (list T) -> list T -> list T.
Definition lstsq (p : nat) (lamb : T) (rows : list lrow) : list T :=
  solve (normal_mat p lamb rows) (normal_rhs p rows).

(* ------------------------------------------------------------------ _optimize_core
     lhs = Yr[:, idx].T[:, None, :]; rhs = Yl[idx, :][:, :, None]; A = (lhs * rhs).reshape(len(idx), -1)
     A[j, a*r2 + b] = Yr[b, j] * Yl[j, a]                                                        *)
Definition kron_row (r1 r2 : nat) (l r : list T) : list T :=
  tab (r1 * r2) (fun c => nth (c mod r2) r 0 * nth (c / r2) l 0).

(* samples zipped with their interface vectors *)
Definition zipped : Type := (sample * (list T * list T))%type.
Definition zip3 (S : list sample) (L R : list (list T)) : list zipped := combine S (combine L R).
Definition in_slice (pos i : nat) (z : zipped) : bool := Nat.eqb (nth pos (sidx (fst z)) O) i.
Definition row_of (r1 r2 : nat) (z : zipped) : lrow :=
  (kron_row r1 r2 (fst (snd z)) (snd (snd z)), sy (fst z), sw (fst z)).
(* idx = np.where(i == k)[0];  A, b = y_trn[idx], w[idx] *)
Definition slice_rows (pos i r1 r2 : nat) (Z : list zipped) : list lrow :=
  map (row_of r1 r2) (filter (in_slice pos i) Z).

(*  for k in range(Q.shape[1]):
        idx = np.where(i == k)[0]
        if idx.size == 0: continue
        sol = _lstsq(A, b, lamb, w[idx]);  Q[:, k, :] = sol.reshape(Q[:, k, :].shape)
    every iteration writes its own slice and reads only the shape of Q, so the loop is the comprehension below *)
Definition slice_sol (lamb : T) (pos r1 r2 : nat) (Z : list zipped) (i : nat) : option (list T) :=
  match slice_rows pos i r1 r2 Z with
  | [] => None
  | row :: rows => Some (lstsq (r1 * r2) lamb (row :: rows))
  end.
Definition put_slices (Q : core T) (sols : list (option (list T))) : core T :=
  mkcore (cr1 Q) (cn Q) (cr2 Q) (fun a i b =>
    match nth i sols None with
    | None => cget K Q a i b
    | Some x => nth (a * cr2 Q + b) x 0
    end).
Definition opt_core (lamb : T) (Q : core T) (pos : nat) (Z : list zipped) : core T :=
  put_slices Q (tab (cn Q) (slice_sol lamb pos (cr1 Q) (cr2 Q) Z)).

(* the pinned tree tested `if not idx.any()`: the VALUES of the positions, i.e. skip iff every selected
   position is 0 (no sample, or exactly the sample at position 0) *)
Definition positions (pos i : nat) (S : list sample) : list nat :=
  filter (fun j => Nat.eqb (nth pos (sidx (nth j S (Smp [] 0 0))) O) i) (seq 0 (length S)).
Definition slice_sol_pinned (lamb : T) (pos r1 r2 : nat) (S : list sample) (Z : list zipped) (i : nat)
  : option (list T) :=
  if forallb (fun j => Nat.eqb j O) (positions pos i S) then None
  else Some (lstsq (r1 * r2) lamb (slice_rows pos i r1 r2 Z)).
Definition opt_core_pinned (lamb : T) (Q : core T) (pos : nat) (S : list sample) (Z : list zipped) : core T :=
  put_slices Q (tab (cn Q) (slice_sol_pinned lamb pos (cr1 Q) (cr2 Q) S Z)).

(* ------------------------------------------------------------------ interface updates
     contract('jk,kjl->jl', Yl[k], Y[k][:, i, :], out=Yl[k+1])   : row j of Yl[k+1] = Yl[k][j,:] @ G[:, i_j, :]
     contract('ijk,kj->ij', Y[k][:, i, :], Yr[k], out=Yr[k-1])   : col j of Yr[k-1] = G[:, i_j, :] @ Yr[k][:, j]  *)
Definition rstep (G : core T) (i : nat) (v : list T) : list T :=
  tab (cr1 G) (fun a => bsum K (cr2 G) (fun b => cget K G a i b * nth b v 0)).
Definition lupdate (S : list sample) (k : nat) (G : core T) (Lk : list (list T)) : list (list T) :=
  map (fun sl => vstep K (snd sl) G (nth k (sidx (fst sl)) O)) (combine S Lk).
Definition rupdate (S : list sample) (k : nat) (G : core T) (Rk : list (list T)) : list (list T) :=
  map (fun sr => rstep G (nth k (sidx (fst sr)) O) (snd sr)) (combine S Rk).

Record st := mk_st { sY : list (core T); sL : list (list (list T)); sR : list (list (list T)) }.

(*  Yl = [np.ones((m, Y[k].shape[0])) for k in range(d)];  Yr = [np.ones((Y[k].shape[2], m)) for k in range(d)]
    for k in range(d-1, 0, -1): contract('riq,qi->ri', Y[k][:, i, :], Yr[k], out=Yr[k-1])                      *)
Definition init_st (S : list sample) (Y : list (core T)) : st :=
  let m := length S in
  let d := length Y in
  let Yl := map (fun G => repeat (repeat 1 (cr1 G)) m) Y in
  let Yr0 := map (fun G => repeat (repeat 1 (cr2 G)) m) Y in
  let Yr := fold_left (fun Yr k => upd (pred k) (rupdate S k (nth k Y dcore) (nth k Yr [])) Yr)
                      (rev (seq 1 (d - 1))) Yr0 in
  mk_st Y Yl Yr.

(*  Y[k] = _optimize_core(Y[k], i, y_trn, Yl[k], Yr[k], lamb, w);  then the interface update *)
Definition fwd_step (lamb : T) (S : list sample) (s : st) (k : nat) : st :=
  let G := opt_core lamb (nth k (sY s) dcore) k (zip3 S (nth k (sL s) []) (nth k (sR s) [])) in
  mk_st (upd k G (sY s)) (upd (Datatypes.S k) (lupdate S k G (nth k (sL s) [])) (sL s)) (sR s).
Definition bwd_step (lamb : T) (S : list sample) (s : st) (k : nat) : st :=
  let G := opt_core lamb (nth k (sY s) dcore) k (zip3 S (nth k (sL s) []) (nth k (sR s) [])) in
  mk_st (upd k G (sY s)) (sL s) (upd (pred k) (rupdate S k G (nth k (sR s) [])) (sR s)).
(*  for k in range(0, d-1, +1): ...   for k in range(d-1, 0, -1): ...  *)
Definition sweep (lamb : T) (S : list sample) (s : st) : st :=
  let d := length (sY s) in
  fold_left (bwd_step lamb S) (rev (seq 1 (d - 1))) (fold_left (fwd_step lamb S) (seq 0 (d - 1)) s).

(* pinned variant of the sweep (position-0 defect), for the refutation witness only *)
Definition fwd_step_pinned (lamb : T) (S : list sample) (s : st) (k : nat) : st :=
  let G := opt_core_pinned lamb (nth k (sY s) dcore) k S (zip3 S (nth k (sL s) []) (nth k (sR s) [])) in
  mk_st (upd k G (sY s)) (upd (Datatypes.S k) (lupdate S k G (nth k (sL s) [])) (sL s)) (sR s).
Definition bwd_step_pinned (lamb : T) (S : list sample) (s : st) (k : nat) : st :=
  let G := opt_core_pinned lamb (nth k (sY s) dcore) k S (zip3 S (nth k (sL s) []) (nth k (sR s) [])) in
  mk_st (upd k G (sY s)) (sL s) (upd (pred k) (rupdate S k G (nth k (sR s) [])) (sR s)).
Definition sweep_pinned (lamb : T) (S : list sample) (s : st) : st :=
  let d := length (sY s) in
  fold_left (bwd_step_pinned lamb S) (rev (seq 1 (d - 1)))
            (fold_left (fwd_step_pinned lamb S) (seq 0 (d - 1)) s).
Definition als_pinned (lamb : T) (S : list sample) (Y0 : list (core T)) (nswp : nat) : list (core T) :=
  sY (Nat.iter nswp (sweep_pinned lamb S) (init_st S Y0)).

(* ------------------------------------------------------------------ validation
     if not allow_skip_cores:
         for k in range(d): if np.unique(I_trn[:, k]).size != Y[k].shape[1]: raise ValueError      *)
Definition column (S : list sample) (k : nat) : list nat := map (fun s => nth k (sidx s) O) S.
Definition check_slices (S : list sample) (Y : list (core T)) : bool :=
  forallb (fun k => Nat.eqb (length (nodup Nat.eq_dec (column S k))) (cn (nth k Y dcore)))
          (seq 0 (length Y)).
(* an index outside its mode makes Y[k][:, i, :] raise IndexError (d >= 2) *)
Definition idx_ok (S : list sample) (Y : list (core T)) : bool :=
  forallb (fun s => Nat.eqb (length (sidx s)) (length Y) &&
                    forallb (fun k => nth k (sidx s) O <? cn (nth k Y dcore)) (seq 0 (length Y))) S.

(* ------------------------------------------------------------------ utils._info_appr (stop logic only)
     e_vld first, then e, then nswp; a stop reason already set (by cb, or before the loop) is kept *)
Definition keep {A} (a b : option A) : option A := match a with Some _ => a | None => b end.
Definition info_appr (stop : option stopr) (t : nat) (ecur evcur : T)
                     (nswp : option nat) (e evld : option T) : option stopr :=
  let s1 := keep stop (match evld with
                       | Some ev => if oleb K 0 evcur && oleb K evcur ev then Some SEvld else None
                       | None => None end) in
  let s2 := keep s1 (match e with
                     | Some e0 => if oleb K 0 ecur && oleb K ecur e0 then Some SE else None
                     | None => None end) in
  keep s2 (match nswp with
           | Some n => if n <=? t then Some SNswp else None
           | None => None end).

Variable acc : nat -> list (core T) -> list (core T) -> T.   (* teneva.accuracy(Y, Yold) after sweep t *)
Variable accv : nat -> list (core T) -> T.                   (* accuracy_on_data(Y, I_vld, y_vld); t = 0 before the loop *)
Variable cb : option (nat -> list (core T) -> bool).         (* truthiness of cb(Y, info, opts) after sweep t *)

(* what `info` holds at return, besides the cores *)
Record info := mk_info { i_nswp : nat; i_stop : stopr; i_e : T; i_evld : T }.

(*  while True:
        Yold = copy(Y); <sweep>; info['nswp'] += 1; info['e'] = accuracy(Y, Yold); info['e_vld'] = ...
        if cb: if cb(Y, info, opts): info['stop'] = info['stop'] or 'cb'     (any true value, d12f1ba)
        if _info_appr(...): return Y
    The driver loop is shared by als (state = cores + interface matrices, [sweepf] = sweep) and als_func. *)
Section Loop.
Variable St : Type.
Variable sweepf : St -> St.
Variable cores : St -> list (core T).
Fixpoint gen_loop (fuel : nat) (nswp : option nat) (e evld : option T)
                  (s : St) (t : nat) (stop : option stopr) : result (list (core T) * info) :=
  match fuel with
  | O => Err OutOfFuel
  | Datatypes.S f =>
      let Yold := cores s in
      let s' := sweepf s in
      let t' := Datatypes.S t in
      let ecur := acc t' (cores s') Yold in
      let evcur := accv t' (cores s') in
      let stop1 := match cb with
                   | Some c => if c t' (cores s') then keep stop (Some SCb) else stop
                   | None => stop end in
      match info_appr stop1 t' ecur evcur nswp e evld with
      | Some r => Ok (cores s', mk_info t' r ecur evcur)
      | None => gen_loop f nswp e evld s' t' None
      end
  end.
End Loop.
Definition als_loop (fuel : nat) (lamb : T) (S : list sample) (nswp : option nat) (e evld : option T)
                  (s : st) (t : nat) (stop : option stopr) : result (list (core T) * info) :=
  gen_loop st (sweep lamb S) sY fuel nswp e evld s t stop.

(* als(I_trn, y_trn, Y0, nswp, e, info, e_vld=, lamb=, w=, cb=, allow_skip_cores=), r=None.
   The value of the _info_appr call in front of the loop is ignored by the code, but the stop reason it
   may set (nswp <= 0, or e_vld already met) stays in info: one sweep is executed nevertheless. *)
Definition als (S : list sample) (Y0 : list (core T)) (nswp : option nat) (e evld : option T) (lamb : T)
               (allow_skip : bool) (fuel : nat) : result (list (core T) * info) :=
  if negb allow_skip && negb (check_slices S Y0) then Err ValueError
  else if negb (idx_ok S Y0) then Err IndexError
  else
    let stop0 := info_appr None O (oopp K 1) (accv O Y0) nswp e evld in
    als_loop fuel lamb S nswp e evld (init_st S Y0) O stop0.

(* ------------------------------------------------------------------ rank-adaptive path (r is not None), allow_swap=False
   _optimize_core_adaptive(Q1, Q2, i1, i2, y_trn, Yl, Yr, e, r, lamb, w, ltr):
     for k1, k2: idx = (i1 == k1) & (i2 == k2); if not idx.any(): continue      (a boolean mask: .any() is right here)
                 Q[:, k1, k2, :] = _lstsq(A, b, lamb, w[idx]).reshape(r1, r2)
     Qs = Q.reshape(r1*n1, n2*r2);  V1, V2 = matrix_skeleton(Qs, e, r, rel=True, give_to=..)
     return V1.reshape(r1, n1, -1), V2.reshape(-1, n2, r2)
   Q = np.zeros(...) (since /repo c1e64d5): an index pair without sample leaves 0 in Q, as in the model.
   [skel c Qs rmax] is the c-th call of matrix_skeleton, returning
   V1 as a core of shape (1, r1*n1, rank) and V2 as a core of shape (1, rank, n2*r2);
   [orth] = teneva.orthogonalize(Y, 0). *)
Variable orth : list (core T) -> list (core T).
Variable skel : nat -> list (list T) -> nat -> core T * core T.

Definition in_pair (p1 i1 p2 i2 : nat) (z : zipped) : bool :=
  Nat.eqb (nth p1 (sidx (fst z)) O) i1 && Nat.eqb (nth p2 (sidx (fst z)) O) i2.
Definition pair_sol (lamb : T) (k r1 r2 : nat) (Z : list zipped) (i1 i2 : nat) : option (list T) :=
  match map (row_of r1 r2) (filter (in_pair k i1 (Datatypes.S k) i2) Z) with
  | [] => None
  | row :: rows => Some (lstsq (r1 * r2) lamb (row :: rows))
  end.
Definition pair_mat (lamb : T) (Q1 Q2 : core T) (k : nat) (Z : list zipped) : list (list T) :=
  let r1 := cr1 Q1 in let n1 := cn Q1 in let n2 := cn Q2 in let r2 := cr2 Q2 in
  let sols := tab n1 (fun i1 => tab n2 (fun i2 => pair_sol lamb k r1 r2 Z i1 i2)) in
  tab (r1 * n1) (fun row => tab (n2 * r2) (fun col =>
    match nth (col / r2) (nth (row mod n1) sols []) None with
    | None => 0
    | Some x => nth ((row / n1) * r2 + col mod r2) x 0
    end)).
Definition opt_adaptive (lamb : T) (c rmax : nat) (Q1 Q2 : core T) (k : nat) (Z : list zipped) : core T * core T :=
  let UV := skel c (pair_mat lamb Q1 Q2 k Z) rmax in
  let rk := cr2 (fst UV) in
  (mkcore (cr1 Q1) (cn Q1) rk (fun a i g => cget K (fst UV) O (a * cn Q1 + i) g),
   mkcore rk (cn Q2) (cr2 Q2) (fun g i b => cget K (snd UV) O g (i * cr2 Q2 + b))).

(* state of the adaptive sweeps: cores, interfaces, number of skeleton calls made so far *)
Definition ast : Type := (st * nat)%type.
(*  for k in range(0, d-2): r_max = min(r, Y[k].shape[-1] + r_add)
        Y[k], Y[k+1] = _optimize_core_adaptive(Y[k], Y[k+1], I[:,k], I[:,k+1], y, Yl[k], Yr[k+1], ..., ltr=True)
        Yl[k+1] = contract('jk,kjl->jl', Yl[k], Y[k][:, i, :])                                               *)
Definition afwd_step (lamb : T) (r radd : nat) (S : list sample) (sc : ast) (k : nat) : ast :=
  let s := fst sc in
  let Q1 := nth k (sY s) dcore in let Q2 := nth (Datatypes.S k) (sY s) dcore in
  let G := opt_adaptive lamb (snd sc) (Nat.min r (cr2 Q1 + radd)) Q1 Q2 k
                        (zip3 S (nth k (sL s) []) (nth (Datatypes.S k) (sR s) [])) in
  (mk_st (upd (Datatypes.S k) (snd G) (upd k (fst G) (sY s)))
         (upd (Datatypes.S k) (lupdate S k (fst G) (nth k (sL s) [])) (sL s)) (sR s), Datatypes.S (snd sc)).
(*  for k in range(d-1, 1, -1): r_max = min(r, Y[k-1].shape[-1] + r_add)
        Y[k-1], Y[k] = _optimize_core_adaptive(Y[k-1], Y[k], I[:,k-1], I[:,k], y, Yl[k-1], Yr[k], ..., ltr=False)
        Yr[k-1] = contract('ijk,kj->ij', Y[k][:, i, :], Yr[k])                                               *)
Definition abwd_step (lamb : T) (r radd : nat) (S : list sample) (sc : ast) (k : nat) : ast :=
  let s := fst sc in
  let Q1 := nth (pred k) (sY s) dcore in let Q2 := nth k (sY s) dcore in
  let G := opt_adaptive lamb (snd sc) (Nat.min r (cr2 Q1 + radd)) Q1 Q2 (pred k)
                        (zip3 S (nth (pred k) (sL s) []) (nth k (sR s) [])) in
  (mk_st (upd k (snd G) (upd (pred k) (fst G) (sY s)))
         (sL s) (upd (pred k) (rupdate S k (snd G) (nth k (sR s) [])) (sR s)), Datatypes.S (snd sc)).
Definition asweep (lamb : T) (r radd : nat) (S : list sample) (sc : ast) : ast :=
  let d := length (sY (fst sc)) in
  fold_left (abwd_step lamb r radd S) (rev (seq 2 (d - 2)))
            (fold_left (afwd_step lamb r radd S) (seq 0 (d - 2)) sc).
(* als(..., r=r, r_add=radd) with e=None, no validation data, no cb: max(1, nswp) sweeps (see als below) *)
Definition als_adaptive (S : list sample) (Y0 : list (core T)) (nswp r radd : nat) (lamb : T)
  : result (list (core T)) :=
  let Y := orth Y0 in
  if negb (check_slices S Y) then Err ValueError
  else if negb (idx_ok S Y) then Err IndexError
  else Ok (sY (fst (Nat.iter (Nat.max 1 nswp) (asweep lamb r radd S) (init_st S Y, O)))).

(* ------------------------------------------------------------------ reference semantics without interface state:
   every core update recomputes the interface vectors of every sample from the current cores *)
Fixpoint rrun (Y : list (core T)) (idx : list nat) : list T :=
  match Y, idx with
  | G :: Y', i :: idx' => rstep G i (rrun Y' idx')
  | _, _ => [1]
  end.
Definition lvec (Y : list (core T)) (k : nat) (idx : list nat) : list T := run K [1] (firstn k Y) (firstn k idx).
Definition rvec (Y : list (core T)) (k : nat) (idx : list nat) : list T :=
  rrun (skipn (Datatypes.S k) Y) (skipn (Datatypes.S k) idx).
Definition zref (S : list sample) (Y : list (core T)) (k : nat) : list zipped :=
  map (fun s => (s, (lvec Y k (sidx s), rvec Y k (sidx s)))) S.
Definition ref_step (lamb : T) (S : list sample) (Y : list (core T)) (k : nat) : list (core T) :=
  upd k (opt_core lamb (nth k Y dcore) k (zref S Y k)) Y.
Definition ref_sweep (lamb : T) (S : list sample) (Y : list (core T)) : list (core T) :=
  let d := length Y in
  fold_left (ref_step lamb S) (rev (seq 1 (d - 1))) (fold_left (ref_step lamb S) (seq 0 (d - 1)) Y).

(* the regularised weighted least-squares training objective whose per-slice minimiser the code computes *)
Definition sq (x : T) : T := x * x.
Definition frobc (G : core T) : T :=
  bsum K (cr1 G) (fun a => bsum K (cn G) (fun i => bsum K (cr2 G) (fun b => sq (cget K G a i b)))).
Definition Jobj (lamb : T) (S : list sample) (Y : list (core T)) : T :=
  lsum K (map (fun s => sw s * sq (get K Y (sidx s) - sy s)) S) + lamb * lsum K (map frobc Y).
(* objective of one slice: rows (a_j, y_j, w_j), unknown x *)
Definition Jrows (p : nat) (lamb : T) (rows : list lrow) (x : list T) : T :=
  lsum K (map (fun row => rw row * sq (dot K p (ra row) x - ry row)) rows) + lamb * dot K p x x.
End Als.

Arguments Smp {T}. Arguments sidx {T}. Arguments sy {T}. Arguments sw {T}.
Arguments mk_st {T}. Arguments sY {T}. Arguments sL {T}. Arguments sR {T}.
Arguments mk_info {T}. Arguments i_nswp {T}. Arguments i_stop {T}. Arguments i_e {T}. Arguments i_evld {T}.
Arguments dcore {T}.
