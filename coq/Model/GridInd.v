(* Model of teneva/grid.py: ind_tt_to_qtt, ind_qtt_to_tt (C17), grid_flat (C18). *)
From Coq Require Import List Arith Lia PeanoNat Bool.
From TV Require Import Num.Ops Lin.Tab.
Import ListNotations.

(* np.unravel_index(i, [2]*q, order='F'): little-endian binary digits *)
Fixpoint bits_le (q i : nat) : list nat :=
  match q with O => [] | S q' => (i mod 2) :: bits_le q' (i / 2) end.
(* np.ravel_multi_index(bits, [2]*q, order='F') *)
Fixpoint unbits_le (l : list nat) : nat :=
  match l with [] => O | b :: l' => b + 2 * unbits_le l' end.

(* q = int(np.log2(n)); if 2**q != n: raise ValueError *)
Definition log2_exact (n : nat) : option nat :=
  let q := Nat.log2 n in if Nat.eqb (2 ^ q) n then Some q else None.

Fixpoint sequence {A} (l : list (result A)) : result (list A) :=
  match l with
  | [] => Ok []
  | x :: l' => rbind x (fun a => rbind (sequence l') (fun r => Ok (a :: r)))
  end.

(* one multi-index; unravel_index raises ValueError for an index outside [0, n) *)
Definition ind_tt_to_qtt1 (n : nat) (idx : list nat) : result (list nat) :=
  match log2_exact n with
  | None => Err ValueError
  | Some q => if forallb (fun i => i <? n) idx then Ok (flat_map (bits_le q) idx) else Err ValueError
  end.
(* batch: the code loops over columns, the result rows are the per-row results *)
Definition ind_tt_to_qtt (n : nat) (I : list (list nat)) : result (list (list nat)) :=
  sequence (map (ind_tt_to_qtt1 n) I).

Fixpoint chunks (q d : nat) (l : list nat) : list (list nat) :=
  match d with O => [] | S d' => firstn q l :: chunks q d' (skipn q l) end.
(* d = int(len / q); ravel_multi_index raises ValueError for a digit outside {0,1};
   trailing entries beyond d*q are ignored by the slicing *)
Definition ind_qtt_to_tt1 (q : nat) (b : list nat) : result (list nat) :=
  let d := length b / q in
  if forallb (fun x => x <? 2) (firstn (d * q) b)
  then Ok (map unbits_le (chunks q d b)) else Err ValueError.
Definition ind_qtt_to_tt (q : nat) (B : list (list nat)) : result (list (list nat)) :=
  sequence (map (ind_qtt_to_tt1 q) B).

(* grid_flat: all multi-indices < n, first index fastest (Fortran order of the meshgrid) *)
Fixpoint digits_F (ns : list nat) (t : nat) : list nat :=
  match ns with [] => [] | n :: ns' => (t mod n) :: digits_F ns' (t / n) end.
Definition grid_flat (ns : list nat) : list (list nat) :=
  tab (fold_right Nat.mul 1 ns) (digits_F ns).
