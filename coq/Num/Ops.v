(* Number structure: a record of operations only.  Every model function is one
   polymorphic Gallina term over [ops T]; laws are hypotheses of theorems. *)
From Coq Require Import ZArith QArith Qcanon List Bool.
Import ListNotations.

Record ops (T : Type) := mkops {
  o0 : T; o1 : T;
  oadd : T -> T -> T; omul : T -> T -> T; osub : T -> T -> T; oopp : T -> T;
  odiv : T -> T -> T;
  osqrt : T -> T;
  oabs : T -> T;
  oleb : T -> T -> bool; oltb : T -> T -> bool; oeqb : T -> T -> bool;
  oofZ : Z -> T;
  opow2 : Z -> T
}.
Arguments o0 {T}. Arguments o1 {T}. Arguments oadd {T}. Arguments omul {T}.
Arguments osub {T}. Arguments oopp {T}. Arguments odiv {T}. Arguments osqrt {T}.
Arguments oabs {T}. Arguments oleb {T}. Arguments oltb {T}. Arguments oeqb {T}.
Arguments oofZ {T}. Arguments opow2 {T}.

Notation rng K := (ring_theory (o0 K) (o1 K) (oadd K) (omul K) (osub K) (oopp K) eq).

(* errors of the modelled Python code *)
Inductive err := ValueError | AssertionError | LinAlgError | TypeError | IndexError | OutOfFuel | OtherError.
Inductive result (A : Type) := Ok (x : A) | Err (e : err).
Arguments Ok {A}. Arguments Err {A}.
Definition rbind {A B} (r : result A) (f : A -> result B) : result B :=
  match r with Ok x => f x | Err e => Err e end.
Definition rmap {A B} (f : A -> B) (r : result A) : result B :=
  match r with Ok x => Ok (f x) | Err e => Err e end.
Definition err_code (e : err) : Z :=
  match e with ValueError => 1 | AssertionError => 2 | LinAlgError => 3 | TypeError => 4
             | IndexError => 5 | OutOfFuel => 6 | OtherError => 7 end%Z.

(* ---------- instance Z (ring only; div = Z.div is never used by ring code) ---------- *)
Definition OZ : ops Z :=
  mkops Z 0%Z 1%Z Z.add Z.mul Z.sub Z.opp Z.div Z.sqrt Z.abs Z.leb Z.ltb Z.eqb (fun z => z)
        (fun e => Z.pow 2 e).
Lemma OZ_rng : rng OZ. Proof. exact Zth. Qed.

(* ---------- instance Qc (canonical rationals, Leibniz equality) ---------- *)
Definition Qc_leb (a b : Qc) : bool := match (a ?= b)%Qc with Gt => false | _ => true end.
Definition Qc_ltb (a b : Qc) : bool := match (a ?= b)%Qc with Lt => true | _ => false end.
Definition Qc_eqb (a b : Qc) : bool := Qeq_bool a b.
Definition Qc_abs (a : Qc) : Qc := if Qc_ltb a (Q2Qc 0) then Qcopp a else a.
Definition Qc_ofZ (z : Z) : Qc := Q2Qc (inject_Z z).
Definition Qc_pow2 (e : Z) : Qc :=
  match e with
  | Z0 => Q2Qc 1
  | Zpos p => Q2Qc (inject_Z (Z.pow 2 (Zpos p)))
  | Zneg p => Q2Qc (1 # (Pos.pow 2 p))
  end.
(* sqrt over Qc: exact on squares of rationals, floor-ish otherwise (only used on exact squares) *)
Definition Qc_sqrt (a : Qc) : Qc :=
  let q := this a in Q2Qc (Qmake (Z.sqrt (Qnum q)) (Pos.sqrt (Qden q))).
Definition OQc : ops Qc :=
  mkops Qc (Q2Qc 0) (Q2Qc 1) Qcplus Qcmult Qcminus Qcopp Qcdiv Qc_sqrt Qc_abs Qc_leb Qc_ltb Qc_eqb
        Qc_ofZ Qc_pow2.
Lemma OQc_rng : rng OQc. Proof. exact Qcrt. Qed.
