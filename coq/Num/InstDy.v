(* Exact dyadic numbers m * 2^e with unbounded exponent: the "reference with unbounded exponents".
   Canonical form (m odd, or m = 0 and e = 0) is carried as a boolean proof, so Leibniz equality is
   semantic equality (as for Qc).  No gcd anywhere: products of thousands of factors and exponents of
   +-30000 are cheap in vm_compute.  Every finite binary64 number is a dyadic: the harness writes the
   literal [mkDy m e] from float.hex().  Division is exact only by +-2^k (anything else returns 0 and is
   never used); sqrt is exact only on squares (m an odd square, e even).
   Laws: [ODy_rng] (commutative ring, transferred through the injective map [dval] into Q) and the
   power-of-two laws [Dy_pow2_add], [Dy_pow2_0], [Dy_pow2_neq0], [Dy_div_pow2]. *)
From Coq Require Import ZArith QArith Qpower Qfield Lia Bool Eqdep_dec Ring.
From TV Require Import Num.Ops.

Local Open Scope Z_scope.

(* ---------- canonical form ---------- *)
Fixpoint strip (p : positive) : positive * Z :=
  match p with
  | xO q => let (r, k) := strip q in (r, Z.succ k)
  | _ => (p, 0)
  end.
Definition nrm (m e : Z) : Z * Z :=
  match m with
  | Z0 => (0, 0)
  | Zpos p => let (q, k) := strip p in (Zpos q, e + k)
  | Zneg p => let (q, k) := strip p in (Zneg q, e + k)
  end.
Definition canonb (m e : Z) : bool := if Z.eqb m 0 then Z.eqb e 0 else Z.odd m.

Record Dy : Set := Dy_ { dm : Z; de : Z; dok : canonb dm de = true }.

Lemma strip_spec p : let (q, k) := strip p in
  0 <= k /\ Zpos p = Zpos q * 2 ^ k /\ Z.odd (Zpos q) = true.
Proof.
  induction p as [p IH|p IH|]; cbn [strip].
  - split; [lia|]. split; [rewrite Z.pow_0_r; lia|reflexivity].
  - destruct (strip p) as [q k]. destruct IH as (Hk & E & Ho). split; [lia|]. split; [|exact Ho].
    rewrite Z.pow_succ_r by exact Hk. rewrite Pos2Z.inj_xO, E. ring.
  - split; [lia|]. split; reflexivity.
Qed.
Lemma nrm_spec m e : let (m', e') := nrm m e in
  canonb m' e' = true /\ exists k, 0 <= k /\ m = m' * 2 ^ k /\ (m <> 0 -> e' = e + k).
Proof.
  destruct m as [|p|p]; cbn [nrm].
  - split; [reflexivity|]. exists 0. split; [lia|]. split; [reflexivity|]. intros H; congruence.
  - pose proof (strip_spec p) as H. destruct (strip p) as [q k]. destruct H as (Hk & E & Ho).
    split; [unfold canonb; simpl; exact Ho|]. exists k. split; [exact Hk|]. split; [exact E|auto].
  - pose proof (strip_spec p) as H. destruct (strip p) as [q k]. destruct H as (Hk & E & Ho).
    split; [unfold canonb; simpl; exact Ho|]. exists k. split; [exact Hk|]. split; [|auto].
    change (Zneg p) with (- Zpos p). change (Zneg q) with (- Zpos q). rewrite E. ring.
Qed.
Lemma nrm_ok m e : canonb (fst (nrm m e)) (snd (nrm m e)) = true.
Proof. pose proof (nrm_spec m e) as H. destruct (nrm m e) as [m' e']. exact (proj1 H). Qed.

(* smart constructor: the pair is normalised once; the canonicity proof stored in the record is
   [eq_refl] pushed through a match on the (O(1)) boolean, so that vm_compute never evaluates a
   proof term (it ignores opacity: an opaque proof by induction would be re-run on every operation) *)
Definition Dy_z : Dy := Dy_ 0 0 eq_refl.
Definition mk_aux (r : Z * Z) (b : bool) : canonb (fst r) (snd r) = b -> Dy :=
  match b with
  | true => fun H => Dy_ (fst r) (snd r) H
  | false => fun _ => Dy_z
  end.
Definition mkDy (m e : Z) : Dy :=
  let r := nrm m e in mk_aux r (canonb (fst r) (snd r)) eq_refl.
Lemma mk_aux_true r b H : b = true -> dm (mk_aux r b H) = fst r /\ de (mk_aux r b H) = snd r.
Proof. destruct b; [split; reflexivity|discriminate]. Qed.
Lemma dm_mk m e : dm (mkDy m e) = fst (nrm m e).
Proof. unfold mkDy. cbv zeta. apply mk_aux_true. apply nrm_ok. Qed.
Lemma de_mk m e : de (mkDy m e) = snd (nrm m e).
Proof. unfold mkDy. cbv zeta. apply mk_aux_true. apply nrm_ok. Qed.

Lemma Dy_eq a b : dm a = dm b -> de a = de b -> a = b.
Proof.
  destruct a as [m e H], b as [m' e' H']; simpl. intros -> ->. f_equal.
  apply UIP_dec. apply bool_dec.
Qed.

(* ---------- operations ---------- *)
Definition Dy_0 : Dy := mkDy 0 0.
Definition Dy_1 : Dy := mkDy 1 0.
Definition Dy_add (a b : Dy) : Dy :=
  let e := Z.min (de a) (de b) in
  mkDy (dm a * 2 ^ (de a - e) + dm b * 2 ^ (de b - e)) e.
Definition Dy_opp (a : Dy) : Dy := mkDy (- dm a) (de a).
Definition Dy_sub (a b : Dy) : Dy :=
  let e := Z.min (de a) (de b) in
  mkDy (dm a * 2 ^ (de a - e) - dm b * 2 ^ (de b - e)) e.
Definition Dy_mul (a b : Dy) : Dy := mkDy (dm a * dm b) (de a + de b).
Definition Dy_abs (a : Dy) : Dy := mkDy (Z.abs (dm a)) (de a).
Definition Dy_sgn_sub (a b : Dy) : Z :=           (* sign of a - b, without normalising *)
  let e := Z.min (de a) (de b) in
  Z.sgn (dm a * 2 ^ (de a - e) - dm b * 2 ^ (de b - e)).
Definition Dy_ltb (a b : Dy) : bool := Dy_sgn_sub a b <? 0.
Definition Dy_leb (a b : Dy) : bool := Dy_sgn_sub a b <=? 0.
Definition Dy_eqb (a b : Dy) : bool := (dm a =? dm b) && (de a =? de b).
Definition Dy_ofZ (z : Z) : Dy := mkDy z 0.
Definition Dy_pow2 (e : Z) : Dy := mkDy 1 e.
(* exact division by +-2^k only *)
Definition Dy_div (a b : Dy) : Dy :=
  if Z.abs (dm b) =? 1 then mkDy (dm a * dm b) (de a - de b) else Dy_0.
(* exact on squares (odd square mantissa, even exponent); floor-ish otherwise, never relied upon *)
Definition Dy_is_square (a : Dy) : bool :=
  (0 <=? dm a) && (Z.sqrt (dm a) * Z.sqrt (dm a) =? dm a) && Z.even (de a).
Definition Dy_sqrt (a : Dy) : Dy :=
  if Z.even (de a) then mkDy (Z.sqrt (dm a)) (de a / 2)
  else mkDy (Z.sqrt (2 * dm a)) ((de a - 1) / 2).

Definition ODy : ops Dy :=
  mkops Dy Dy_0 Dy_1 Dy_add Dy_mul Dy_sub Dy_opp Dy_div Dy_sqrt Dy_abs Dy_leb Dy_ltb Dy_eqb Dy_ofZ Dy_pow2.

(* printing for the harness: (mantissa, exponent) *)
Definition Dy_show (a : Dy) : Z * Z := (dm a, de a).

(* ---------- value in Q and injectivity ---------- *)
Local Open Scope Q_scope.
Definition two : Q := inject_Z 2.
Lemma two_neq0 : ~ two == 0. Proof. unfold two. intro H. discriminate H. Qed.
Definition qv (m e : Z) : Q := inject_Z m * two ^ e.
Definition dval (a : Dy) : Q := qv (dm a) (de a).

Lemma two_pow_pos k : (0 <= k)%Z -> inject_Z (2 ^ k) == two ^ k.
Proof. intros H. unfold two. apply Zpower_Qpower. exact H. Qed.
Lemma two_pow_neq0 e : ~ two ^ e == 0.
Proof. apply Qpower_not_0. exact two_neq0. Qed.

Lemma qv_shift m k e : (0 <= k)%Z -> qv (m * 2 ^ k) e == qv m (e + k).
Proof.
  intros Hk. unfold qv. rewrite inject_Z_mult, two_pow_pos by exact Hk.
  rewrite Qpower_plus by exact two_neq0. ring.
Qed.
Lemma qv_nrm m e : qv (fst (nrm m e)) (snd (nrm m e)) == qv m e.
Proof.
  pose proof (nrm_spec m e) as H. destruct (nrm m e) as [m' e']. simpl.
  destruct H as (_ & k & Hk & E & Ee). destruct (Z.eq_dec m 0) as [->|Hm].
  - assert (m' = 0%Z) as ->.
    { assert (0 < 2 ^ k)%Z by (apply Z.pow_pos_nonneg; lia). nia. }
    unfold qv. simpl. ring.
  - rewrite (Ee Hm). rewrite E. symmetry. apply qv_shift. exact Hk.
Qed.
Lemma dval_mk m e : dval (mkDy m e) == qv m e.
Proof. unfold dval. rewrite dm_mk, de_mk. apply qv_nrm. Qed.

Lemma canonb_cases m e : canonb m e = true -> (m = 0%Z /\ e = 0%Z) \/ Z.odd m = true.
Proof.
  unfold canonb. destruct (Z.eqb_spec m 0) as [->|H].
  - intros E. apply Z.eqb_eq in E. left; auto.
  - intros E. right; exact E.
Qed.
Lemma qv_inj_le m1 e1 m2 e2 : canonb m1 e1 = true -> canonb m2 e2 = true -> (e1 <= e2)%Z ->
  qv m1 e1 == qv m2 e2 -> m1 = m2 /\ e1 = e2.
Proof.
  intros C1 C2 Hle E.
  assert (Ez : m1 = (m2 * 2 ^ (e2 - e1))%Z).
  { apply inject_Z_injective. rewrite inject_Z_mult, two_pow_pos by lia.
    unfold qv in E. replace e2 with (e1 + (e2 - e1))%Z in E at 1 by ring.
    rewrite Qpower_plus in E by exact two_neq0.
    apply (Qmult_inj_r _ _ (two ^ e1)); [apply two_pow_neq0|]. rewrite E. ring. }
  destruct (Z.eq_dec e1 e2) as [->|Hne].
  - rewrite Z.sub_diag, Z.pow_0_r, Z.mul_1_r in Ez. auto.
  - exfalso. assert (Hk : (0 < e2 - e1)%Z) by lia.
    assert (Hev : Z.odd m1 = false).
    { rewrite Ez. replace (e2 - e1)%Z with (Z.succ (e2 - e1 - 1)) by ring.
      rewrite Z.pow_succ_r by lia. rewrite Z.mul_assoc, (Z.mul_comm m2 2), <- Z.mul_assoc.
      rewrite Z.odd_mul. reflexivity. }
    destruct (canonb_cases _ _ C1) as [[Em1 Ee1]|Ho]; [|congruence].
    assert (m2 = 0%Z).
    { assert (0 < 2 ^ (e2 - e1))%Z by (apply Z.pow_pos_nonneg; lia). nia. }
    subst m2. destruct (canonb_cases _ _ C2) as [[_ Ee2]|Ho2]; [lia|discriminate Ho2].
Qed.
Lemma dval_inj a b : dval a == dval b -> a = b.
Proof.
  intros E. destruct (Z.le_ge_cases (de a) (de b)) as [H|H].
  - destruct (qv_inj_le _ _ _ _ (dok a) (dok b) H E). apply Dy_eq; auto.
  - symmetry in E. destruct (qv_inj_le _ _ _ _ (dok b) (dok a) H E). apply Dy_eq; auto.
Qed.

(* ---------- homomorphism ---------- *)
Lemma qv_align m e e0 : (e0 <= e)%Z -> qv (m * 2 ^ (e - e0)) e0 == qv m e.
Proof. intros H. rewrite qv_shift by lia. replace (e0 + (e - e0))%Z with e by ring. reflexivity. Qed.
Lemma qv_add m1 m2 e : qv (m1 + m2) e == qv m1 e + qv m2 e.
Proof. unfold qv. rewrite inject_Z_plus. ring. Qed.
Lemma qv_sub m1 m2 e : qv (m1 - m2) e == qv m1 e - qv m2 e.
Proof. unfold qv. unfold Z.sub. rewrite inject_Z_plus, inject_Z_opp. ring. Qed.

Lemma dval_0 : dval Dy_0 == 0. Proof. reflexivity. Qed.
Lemma dval_1 : dval Dy_1 == 1. Proof. reflexivity. Qed.
Lemma dval_add a b : dval (Dy_add a b) == dval a + dval b.
Proof.
  unfold Dy_add. rewrite dval_mk, qv_add, !qv_align by lia. reflexivity.
Qed.
Lemma dval_sub a b : dval (Dy_sub a b) == dval a - dval b.
Proof.
  unfold Dy_sub. rewrite dval_mk, qv_sub, !qv_align by lia. reflexivity.
Qed.
Lemma dval_opp a : dval (Dy_opp a) == - dval a.
Proof. unfold Dy_opp. rewrite dval_mk. unfold dval, qv. rewrite inject_Z_opp. ring. Qed.
Lemma dval_mul a b : dval (Dy_mul a b) == dval a * dval b.
Proof.
  unfold Dy_mul. rewrite dval_mk. unfold dval, qv. rewrite inject_Z_mult.
  rewrite Qpower_plus by exact two_neq0. ring.
Qed.
Lemma dval_pow2 e : dval (Dy_pow2 e) == two ^ e.
Proof. unfold Dy_pow2. rewrite dval_mk. unfold qv. ring. Qed.
Lemma dval_ofZ z : dval (Dy_ofZ z) == inject_Z z.
Proof. unfold Dy_ofZ. rewrite dval_mk. unfold qv. simpl. ring. Qed.

Lemma ODy_rng : rng ODy.
Proof.
  constructor; simpl; intros; apply dval_inj;
    rewrite ?dval_add, ?dval_mul, ?dval_sub, ?dval_opp, ?dval_add, ?dval_mul, ?dval_0, ?dval_1; ring.
Qed.

(* ---------- power-of-two laws ---------- *)
Lemma Dy_pow2_add a b : Dy_pow2 (a + b) = Dy_mul (Dy_pow2 a) (Dy_pow2 b).
Proof.
  apply dval_inj. rewrite dval_mul, !dval_pow2. apply Qpower_plus. exact two_neq0.
Qed.
Lemma Dy_pow2_0 : Dy_pow2 0 = Dy_1. Proof. apply dval_inj. reflexivity. Qed.
Lemma Dy_pow2_neq0 a : Dy_pow2 a <> Dy_0.
Proof.
  intros H. apply (two_pow_neq0 a). rewrite <- dval_pow2, H. reflexivity.
Qed.
Lemma dm_pow2 e : dm (Dy_pow2 e) = 1%Z /\ de (Dy_pow2 e) = e.
Proof. unfold Dy_pow2. rewrite dm_mk, de_mk. simpl. split; [reflexivity|ring]. Qed.
Lemma dval_div_pow2 x p : dval (Dy_div x (Dy_pow2 p)) == dval x / two ^ p.
Proof.
  unfold Dy_div. destruct (dm_pow2 p) as [E1 E2]. rewrite E1, E2. simpl Z.abs.
  rewrite Z.eqb_refl, dval_mk, Z.mul_1_r. unfold dval, qv.
  rewrite Qpower_minus by exact two_neq0. field. apply two_pow_neq0.
Qed.
Lemma Dy_div_pow2 x p : Dy_mul (Dy_div x (Dy_pow2 p)) (Dy_pow2 p) = x.
Proof.
  apply dval_inj. rewrite dval_mul, dval_div_pow2, dval_pow2. field. apply two_pow_neq0.
Qed.

(* ---------- order (used by the harness only through execution; recorded for completeness) ---------- *)
Lemma Dy_sgn_sub_spec a b : inject_Z (Dy_sgn_sub a b) == inject_Z (Z.sgn (dm (Dy_sub a b))).
Proof.
  unfold Dy_sgn_sub, Dy_sub. rewrite dm_mk. cbv zeta.
  set (x := (dm a * 2 ^ (de a - Z.min (de a) (de b)) - dm b * 2 ^ (de b - Z.min (de a) (de b)))%Z).
  pose proof (nrm_spec x (Z.min (de a) (de b))) as H. destruct (nrm x _) as [m' e']. simpl.
  destruct H as (_ & k & Hk & E & _). rewrite E.
  assert (0 < 2 ^ k)%Z by (apply Z.pow_pos_nonneg; lia).
  rewrite Z.sgn_mul. rewrite (Z.sgn_pos (2 ^ k)) by assumption. now rewrite Z.mul_1_r.
Qed.

(* exact floor(log2 |a|) of a non-zero dyadic: the unique p with 2^p <= |a| < 2^(p+1) *)
Definition Dy_ilog2 (a : Dy) : Z := (Z.log2 (Z.abs (dm a)) + de a)%Z.
