(* PrimFloat instance: execution only, no laws. *)
From Coq Require Import ZArith Floats.
From TV Require Import Num.Ops.
Definition F_ofZ (z : Z) : float :=
  match z with
  | Z0 => 0%float
  | Zpos p => PrimFloat.of_uint63 (Uint63.of_Z (Zpos p))
  | Zneg p => PrimFloat.opp (PrimFloat.of_uint63 (Uint63.of_Z (Zpos p)))
  end.
Definition F_pow2 (e : Z) : float := Z.ldexp 1%float e.
Definition OF : ops float :=
  mkops float 0%float 1%float PrimFloat.add PrimFloat.mul PrimFloat.sub PrimFloat.opp PrimFloat.div
        PrimFloat.sqrt PrimFloat.abs PrimFloat.leb PrimFloat.ltb PrimFloat.eqb F_ofZ F_pow2.
(* exact printing: (mantissa, exponent) with value = mantissa * 2^exponent; nan -> (0, 99999), inf -> (+-1, 99999) *)
Definition F_show (f : float) : Z * Z :=
  match Prim2SF f with
  | S754_zero _ => (0, 0)%Z
  | S754_infinity s => ((if s then -1 else 1), 99999)%Z
  | S754_nan => (0, 99999)%Z
  | S754_finite s m e => ((if s then Zneg m else Zpos m), e)
  end.
