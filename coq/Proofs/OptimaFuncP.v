(* Lemmas about Model/OptimaFunc.v (C15, functional variant): every returned point lies in the cube [-1, 1]^d. *)
From Coq Require Import List Arith Lia PeanoNat ZArith Bool Reals Lra.
From TV Require Import Num.Ops Lin.Tab Lin.BigSum Model.OptimaFunc Proofs.OptimaRP.
Import ListNotations.

Definition in11 (x : R) : Prop := (-1 <= x <= 1)%R.
Lemma in11_0 : in11 0%R. Proof. unfold in11; lra. Qed.

Section FuncR.
Variable roots : nat -> nat -> list R -> list R.
Variable argsort1 : nat -> nat -> list R -> list nat.
Variable argsort2 : nat -> list R -> list nat.
Variable sqpolys : nat -> list (list R).

Lemma in_clip_in11 x : in_clip OR x = true -> in11 x.
Proof.
  unfold in_clip, m1. cbn [oleb oopp o1 OR]. intros H. apply andb_true_iff in H as [A B].
  apply Rleb_true in A. apply Rleb_true in B. unfold in11. lra.
Qed.
(* whatever polyroots returns: only points of [-1, 1] become candidates *)
Lemma cand_in s i p : Forall in11 (cand_points OR roots s i p).
Proof.
  unfold cand_points.
  set (x0 := filter (in_clip OR) (if Nat.eqb (length (polyder OR p)) 0 then [] else roots s i (polyder OR p))).
  assert (H0 : Forall in11 x0).
  { apply Forall_forall. intros x Hx. apply filter_In in Hx as [_ Hx]. now apply in_clip_in11. }
  assert (Hm : in11 (m1 OR)) by (unfold m1, in11; cbn; lra).
  assert (H1 : in11 (o1 OR)) by (unfold in11; cbn; lra).
  set (x1 := if existsb (oeqb OR (m1 OR)) x0 then x0 else x0 ++ [m1 OR]).
  assert (H2 : Forall in11 x1) by (unfold x1; destruct (existsb _ x0); [exact H0|apply Forall_app; split; auto]).
  destruct (existsb _ x1); [exact H2|apply Forall_app; split; auto].
Qed.
Lemma nth_in11 l t : Forall in11 l -> in11 (nth t l 0%R).
Proof.
  intros H. destruct (Nat.lt_ge_cases t (length l)) as [L|L].
  - rewrite Forall_forall in H. apply H, nth_In, L.
  - rewrite nth_overflow by exact L. exact in11_0.
Qed.
Lemma find_poly_max_in s i p kmax : Forall in11 (fst (find_poly_max OR roots argsort1 s i p kmax)).
Proof.
  unfold find_poly_max. cbn [fst]. apply Forall_forall. intros x Hx. apply in_map_iff in Hx as (t & <- & _).
  apply (nth_in11 _ t (cand_in s i p)).
Qed.

Definition in_cube (X : list (list R)) : Prop := Forall (Forall in11) X.
Lemma func_step_in s X k k_loc : match X with None => True | Some X' => in_cube X' end ->
  in_cube (func_step OR roots argsort1 argsort2 sqpolys s X k k_loc).
Proof.
  intros HX. unfold func_step, in_cube. apply Forall_forall. intros row Hr. apply in_map_iff in Hr as (idx & <- & _).
  apply Forall_app. split.
  - destruct X as [X'|]; [|constructor]. unfold in_cube in HX.
    destruct (Nat.lt_ge_cases (searchsorted_r
      (cumsum_from 0 (map (fun r => length (fst r)) (tab (length (sqpolys s)) (fun i => find_poly_max OR roots argsort1 s i (nth i (sqpolys s) []) k_loc)))) idx) (length X')) as [L|L].
    + rewrite Forall_forall in HX. apply HX, nth_In, L.
    + rewrite nth_overflow by exact L. constructor.
  - constructor; [|constructor]. apply nth_in11. apply Forall_concat. apply Forall_forall. intros l Hl.
    apply in_map_iff in Hl as (r & <- & Hr). apply in_tab in Hr as (i & _ & ->). apply find_poly_max_in.
Qed.
Lemma func_loop_in d : forall s X k k_loc, match X with None => True | Some X' => in_cube X' end ->
  match func_loop OR roots argsort1 argsort2 sqpolys d s X k k_loc with None => True | Some X' => in_cube X' end.
Proof.
  induction d as [|d IH]; intros s X k k_loc HX; cbn [func_loop]; [exact HX|].
  apply IH. apply func_step_in. exact HX.
Qed.

(* every returned point (ret_all or not) has all coordinates in [-1, 1], for ANY behaviour of polyroots, argsort and of the
   linear algebra that produces the squared partial interpolants *)
Theorem func_points_in_cube d k k_loc :
  in_cube (optima_func_all OR roots argsort1 argsort2 sqpolys d k k_loc) /\
  Forall in11 (optima_func_tt_beam OR roots argsort1 argsort2 sqpolys d k k_loc).
Proof.
  assert (H : in_cube (optima_func_all OR roots argsort1 argsort2 sqpolys d k k_loc)).
  { unfold optima_func_all. pose proof (func_loop_in d O None k k_loc I) as H.
    destruct (func_loop OR roots argsort1 argsort2 sqpolys d 0 None k k_loc); [exact H|constructor]. }
  split; [exact H|]. unfold optima_func_tt_beam.
  destruct (optima_func_all OR roots argsort1 argsort2 sqpolys d k k_loc) as [|r X]; [constructor|].
  cbn [hd]. inversion H; auto.
Qed.
(* a constant polynomial (mode size 1, or a vanishing partial interpolant): no call of polyroots, candidates -1 and 1 *)
Lemma cand_constant s i (c : R) : cand_points OR roots s i [c] = [m1 OR; o1 OR].
Proof.
  unfold cand_points, polyder. cbn [length Nat.sub tab seq map Nat.eqb filter existsb app].
  unfold m1. cbn [oeqb oopp o1 OR]. unfold Reqb.
  destruct (Req_EM_T _ _) as [E|_]; [lra|]. cbn [orb]. reflexivity.
Qed.
End FuncR.

(* ---- the returned points have exactly d coordinates (given that the argsort over all candidates indexes into its argument
   and that there is one squared interpolant per kept point) ---- *)
Lemma length_concat' {A} (ls : list (list A)) : length (concat ls) = list_sum (map (@length A) ls).
Proof. induction ls as [|l ls IH]; cbn [concat map list_sum]; [reflexivity|]. now rewrite app_length, IH. Qed.
Lemma filter_length_le' {A} (f : A -> bool) l : length (filter f l) <= length l.
Proof. induction l as [|x l IH]; cbn [filter length]; [lia|]. destruct (f x); cbn [length]; lia. Qed.
Lemma searchsorted_cumsum l : forall a v, v < a + list_sum l -> searchsorted_r (cumsum_from a l) v < length l \/ l = [].
Proof.
  induction l as [|x l IH]; intros a v Hv; [right; reflexivity|left].
  unfold searchsorted_r. cbn [cumsum_from filter length]. change (list_sum (x :: l)) with (x + list_sum l) in Hv.
  destruct (Nat.leb_spec (a + x) v) as [L|L].
  - cbn [length]. destruct (IH (a + x) v ltac:(lia)) as [H | ->]; [unfold searchsorted_r in H; lia|cbn in *; lia].
  - pose proof (filter_length_le' (fun c => c <=? v) (cumsum_from (a + x) l)) as F.
    assert (LC : forall b, length (cumsum_from b l) = length l) by (clear; induction l; intros b; cbn; auto).
    rewrite LC in F. lia.
Qed.

Section FuncLen.
Variable roots : nat -> nat -> list R -> list R.
Variable argsort1 : nat -> nat -> list R -> list nat.
Variable argsort2 : nat -> list R -> list nat.
Variable sqpolys : nat -> list (list R).
Hypothesis A2 : forall s l, Forall (fun t => t < length l) (argsort2 s l).
Variables k k_loc : nat.
Hypothesis SQ : forall s, length (sqpolys (S s)) = length (func_step OR roots argsort1 argsort2 sqpolys s None k k_loc).

Lemma func_step_length_indep s X X' :
  length (func_step OR roots argsort1 argsort2 sqpolys s X k k_loc) = length (func_step OR roots argsort1 argsort2 sqpolys s X' k k_loc).
Proof. unfold func_step. now rewrite !map_length. Qed.

Lemma func_step_rows s X : match X with None => s = 0 | Some X' => length X' = length (sqpolys s) /\ Forall (fun r => length r = s) X' end ->
  Forall (fun r => length r = S s) (func_step OR roots argsort1 argsort2 sqpolys s X k k_loc).
Proof.
  intros HX. unfold func_step.
  set (per := tab (length (sqpolys s)) (fun i => find_poly_max OR roots argsort1 s i (nth i (sqpolys s) []) k_loc)).
  set (all_x := concat (map fst per)). set (all_y := concat (map snd per)).
  apply Forall_forall. intros row Hr. apply in_map_iff in Hr as (idx & <- & Hin).
  rewrite app_length. cbn [length]. destruct X as [X'|]; [|subst s; reflexivity]. destruct HX as [LX FX].
  assert (Hidx : idx < length all_y).
  { pose proof (A2 s all_y) as B. rewrite Forall_forall in B. apply B. apply in_rev.
    rewrite <- (firstn_skipn k (rev (argsort2 s all_y))). apply in_or_app. left. exact Hin. }
  assert (LY : length all_y = list_sum (map (fun r => length (fst r)) per)).
  { unfold all_y. rewrite length_concat', map_map. f_equal. apply map_ext_in. intros r Hr.
    apply in_tab in Hr as (i & _ & ->). unfold find_poly_max. cbn [fst snd]. now rewrite !map_length. }
  rewrite LY in Hidx.
  destruct (searchsorted_cumsum (map (fun r => length (fst r)) per) 0 idx Hidx) as [H|H].
  - rewrite map_length in H. unfold per at 2 in H. rewrite tab_length, <- LX in H.
    rewrite Forall_forall in FX. rewrite (FX _ (nth_In _ _ H)). lia.
  - rewrite H in Hidx. cbn in Hidx. lia.
Qed.

Lemma func_loop_rows d : forall s X,
  match X with None => s = 0 | Some X' => length X' = length (sqpolys s) /\ Forall (fun r => length r = s) X' end ->
  match func_loop OR roots argsort1 argsort2 sqpolys d s X k k_loc with
  | None => d = 0 /\ s = 0 | Some X' => Forall (fun r => length r = d + s) X' end.
Proof.
  induction d as [|d IH]; intros s X HX; cbn [func_loop].
  - destruct X as [X'|]; [exact (proj2 HX)|auto].
  - specialize (IH (S s) (Some (func_step OR roots argsort1 argsort2 sqpolys s X k k_loc))).
    cbv beta iota in IH. replace (S d + s) with (d + S s) by lia.
    assert (H : length (func_step OR roots argsort1 argsort2 sqpolys s X k k_loc) = length (sqpolys (S s)) /\
                Forall (fun r => length r = S s) (func_step OR roots argsort1 argsort2 sqpolys s X k k_loc)).
    { split; [rewrite SQ; apply func_step_length_indep|apply func_step_rows; exact HX]. }
    specialize (IH H).
    destruct (func_loop OR roots argsort1 argsort2 sqpolys d (S s) (Some (func_step OR roots argsort1 argsort2 sqpolys s X k k_loc)) k k_loc);
      [exact IH|destruct IH; lia].
Qed.

Theorem func_points_dim d : Forall (fun r => length r = d) (optima_func_all OR roots argsort1 argsort2 sqpolys d k k_loc).
Proof.
  unfold optima_func_all. pose proof (func_loop_rows d 0 None eq_refl) as H.
  destruct (func_loop OR roots argsort1 argsort2 sqpolys d 0 None k k_loc) as [X|]; [|constructor].
  now rewrite Nat.add_0_r in H.
Qed.
End FuncLen.
