(* Accounting of _func_eval (counter record [cnt] only): what one invocation does to the counters, the cache and
   the event log, and the invariants it preserves:
     base   info.m = number of indices handed to the objective in calls that returned values, <= m_max;
            k_nf = number of calls; info.m_cache = number of requested indices served from the cache
     nocache  every request is handed over as it is
     cache  the cache holds exactly the initial keys + the evaluated indices; every request is split into the
            indices already known (served from the cache) and the others (handed to the objective)
     values (objective returns arrays of the requested length) the cache maps every evaluated index to the value
            returned for it, initial entries keep their values *)
From Coq Require Import List Arith Lia PeanoNat Bool.
From TV Require Import Num.Ops Lin.Tab Model.Cross Proofs.CrossIdx.
Import ListNotations.

Lemma NoDup_app_intro {A} (a b : list A) :
  NoDup a -> NoDup b -> (forall x, In x a -> In x b -> False) -> NoDup (a ++ b).
Proof.
  induction a as [|x a IH]; simpl; intros Ha Hb H; auto.
  inversion Ha as [|? ? Hx Ha']; subst. constructor.
  - intros Hin. apply in_app_or in Hin as [Hin|Hin]; [auto|]. apply (H x); auto.
  - apply IH; auto. intros y Hy. apply H; auto.
Qed.

Section Log.
Context {T : Type}.
Notation evt := (@ev T).

Definition ev_good (e : evt) : bool :=
  match ev_out e with Called (Some _) => true | Skipped => true | _ => false end.
Definition call_of (e : evt) : list (rows * option (list T)) :=
  match ev_out e with Called r => [(ev_new e, r)] | _ => [] end.
(* calls of the objective, oldest first (the log is newest first) *)
Definition lcalls (l : list evt) : list (rows * option (list T)) := flat_map call_of (rev l).
(* all indices handed to the objective in calls that returned values, in order *)
Definition evald (q : list (rows * option (list T))) : rows :=
  flat_map (fun q => match snd q with Some _ => fst q | None => [] end) q.
Definition ev_eval (e : evt) : rows := match ev_out e with Called (Some _) => ev_new e | _ => [] end.
(* requested indices that were served from the cache *)
Definition hits (l : list evt) : nat :=
  list_sum (map (fun e => if ev_good e then length (ev_I e) - length (ev_new e) else 0) l).
Definition rmem (i : row) (l : rows) : bool := existsb (row_eqb i) l.
(* index known before the newest event: initial cache or evaluated earlier *)
Definition known (ch0 : @cachet T) (l : list evt) (i : row) : bool := cmem i ch0 || rmem i (evald (lcalls l)).
Fixpoint log_split (ch0 : @cachet T) (l : list evt) : Prop :=
  match l with
  | [] => True
  | e :: l' => ev_new e = filter (fun i => negb (known ch0 l' i)) (ev_I e) /\ log_split ch0 l'
  end.

Lemma fcalls_lcalls (c : @cnt T) : fcalls c = lcalls (k_log c).
Proof. reflexivity. Qed.
Lemma lcalls_cons e l : lcalls (e :: l) = lcalls l ++ call_of e.
Proof. unfold lcalls. simpl rev. rewrite flat_map_app. simpl. rewrite app_nil_r. reflexivity. Qed.
Lemma evald_app a b : evald (a ++ b) = evald a ++ evald b.
Proof. apply flat_map_app. Qed.
Lemma evald_cons e l : evald (lcalls (e :: l)) = evald (lcalls l) ++ ev_eval e.
Proof.
  rewrite lcalls_cons, evald_app. f_equal. unfold call_of, ev_eval, evald.
  destruct (ev_out e) as [| |[y|]]; simpl; rewrite ?app_nil_r; reflexivity.
Qed.
Lemma hits_cons e l : hits (e :: l) = (if ev_good e then length (ev_I e) - length (ev_new e) else 0) + hits l.
Proof. reflexivity. Qed.

Lemma lcalls_good l : Forall (fun e : evt => ev_good e = true) l -> flat_map fst (lcalls l) = evald (lcalls l).
Proof.
  induction 1 as [|e l G _ IH]; [reflexivity|]. rewrite lcalls_cons, evald_app, flat_map_app. f_equal; [exact IH|].
  unfold call_of, ev_good, evald in *. destruct (ev_out e) as [| |[y|]]; try discriminate; reflexivity.
Qed.

Lemma rmem_in i l : rmem i l = true <-> In i l.
Proof.
  unfold rmem. rewrite existsb_exists. split.
  - intros (x & Hx & E). destruct (row_eqb_spec i x); [subst; auto|discriminate].
  - intros H. exists i. split; auto. destruct (row_eqb_spec i i); congruence.
Qed.
Lemma rmem_app i a b : rmem i (a ++ b) = rmem i a || rmem i b.
Proof. apply existsb_app. Qed.
Lemma row_eqb_refl i : row_eqb i i = true.
Proof. destruct (row_eqb_spec i i); congruence. Qed.

Lemma known_cons ch0 e l i : known ch0 (e :: l) i = known ch0 l i || rmem i (ev_eval e).
Proof. unfold known. rewrite evald_cons, rmem_app, orb_assoc. reflexivity. Qed.

(* the evaluated indices are pairwise distinct and none was in the initial cache *)
Lemma log_split_nodup ch0 l :
  log_split ch0 l -> Forall (fun e => NoDup (ev_I e)) l ->
  NoDup (evald (lcalls l)) /\ (forall i, In i (evald (lcalls l)) -> cmem i ch0 = false).
Proof.
  induction l as [|e l IH]; simpl; intros HS HN.
  - split; [constructor|]. intros i [].
  - destruct HS as [E HS]. inversion HN as [|? ? Ne Nl]; subst. destruct (IH HS Nl) as [N1 N2].
    rewrite evald_cons.
    assert (Hin : forall i, In i (ev_eval e) -> known ch0 l i = false /\ In i (ev_I e)).
    { intros i Hi. unfold ev_eval in Hi. destruct (ev_out e) as [| |[y|]]; try contradiction.
      rewrite E in Hi. apply filter_In in Hi as [A B]. split; auto. now apply negb_true_iff in B. }
    split.
    + apply NoDup_app_intro; auto.
      * unfold ev_eval. destruct (ev_out e) as [| |[y|]]; try constructor.
        rewrite E. apply NoDup_filter; auto.
      * intros i H1 H2. apply Hin in H2 as [H2 _]. unfold known in H2. apply orb_false_iff in H2 as [_ H2].
        apply rmem_in in H1. congruence.
    + intros i Hi. apply in_app_or in Hi as [Hi|Hi]; auto.
      apply Hin in Hi as [Hi _]. unfold known in Hi. now apply orb_false_iff in Hi.
Qed.
End Log.

Section Acc.
Context {T : Type} (K : ops T) {P : Type}.
Variable f : nat -> rows -> option (list T).
Variable C : @cfg T P.
Notation evt := (@ev T).
Notation cntt := (@cnt T).
Notation feval := (func_eval K f C).

Ltac fe_cases c I :=
  unfold func_eval; cbv zeta;
  destruct (k_cache c) as [ch|] eqn:Ech;
  [ destruct (filter (fun i => negb (cmem i ch)) I) as [|i0 In0] eqn:Efl;
    [ | destruct (over C (k_m c + length (i0 :: In0))) eqn:Eov;
        [ | destruct (f (k_nf c) (i0 :: In0)) as [y|] eqn:Ef ] ]
  | destruct (over C (k_m c + length I)) eqn:Eov;
    [ | destruct (f (k_nf c) I) as [y|] eqn:Ef ] ].

(* ------------------------------------------------------------ shape of one invocation (stop / log / result) *)
Lemma fe_log c I : exists e, k_log (fst (feval c I)) = e :: k_log c /\ ev_I e = I.
Proof. fe_cases c I; cbn; eexists; split; reflexivity. Qed.

Lemma fe_view c I :
  exists e, k_log (fst (feval c I)) = e :: k_log c /\ ev_I e = I /\
  match snd (feval c I) with
  | None => (ev_out e = Refused /\ k_stop (fst (feval c I)) = Some Sm /\
             over C (k_m (fst (feval c I)) + length (ev_new e)) = true)
            \/ (ev_out e = Called None /\ k_stop (fst (feval c I)) = Some Sfunc /\
                over C (k_m (fst (feval c I)) + length (ev_new e)) = false)
  | Some _ => ev_good e = true /\ k_stop (fst (feval c I)) = k_stop c
  end.
Proof. fe_cases c I; cbn; eexists; (split; [reflexivity|]); (split; [reflexivity|]); cbn; auto 6. Qed.

(* a successful invocation on a non-empty batch consumes at least one unit of m + m_cache *)
Lemma fe_progress c I : I <> [] -> snd (feval c I) <> None ->
  k_m c + k_mc c + 1 <= k_m (fst (feval c I)) + k_mc (fst (feval c I)).
Proof.
  intros HI. fe_cases c I; cbn; intros H; try congruence.
  - destruct I; [congruence|]. simpl. lia.
  - lia.
  - destruct I; [congruence|]. simpl. lia.
Qed.

(* without cache and without budget a call that is answered always succeeds and leaves the stop reason alone *)
Lemma fe_nocache_ok c I y :
  k_cache c = None -> m_max C = None -> f (k_nf c) I = Some y ->
  snd (feval c I) = Some y /\ k_stop (fst (feval c I)) = k_stop c /\ k_mc (fst (feval c I)) = k_mc c /\
  k_cache (fst (feval c I)) = None.
Proof.
  intros Hc Hm Hf. unfold func_eval, over. rewrite Hc, Hm, Hf. cbn. auto.
Qed.

(* ------------------------------------------------------------ base accounting *)
Definition acc_base (c : cntt) : Prop :=
  k_m c = length (evald (lcalls (k_log c))) /\
  k_nf c = length (lcalls (k_log c)) /\
  k_mc c = hits (k_log c) /\
  (forall mm, m_max C = Some mm -> k_m c <= mm).

Lemma acc_base_set_stop c s : acc_base (set_stop c s) <-> acc_base c.
Proof. reflexivity. Qed.

Lemma acc_base_fe c I : acc_base c -> acc_base (fst (feval c I)).
Proof.
  intros (A & B & D & E). unfold acc_base.
  assert (Hb : forall x mm, over C x = false -> m_max C = Some mm -> x <= mm).
  { intros x mm H1 H2. unfold over in H1. rewrite H2 in H1. now apply Nat.ltb_ge in H1. }
  fe_cases c I; cbn [fst klog k_m k_nf k_mc k_log];
    rewrite ?lcalls_cons, ?evald_app, ?app_length, ?hits_cons; unfold call_of, ev_good; cbn;
    rewrite ?app_nil_r; repeat split; eauto; try lia.
Qed.

(* ------------------------------------------------------------ without cache *)
Definition acc_nc (c : cntt) : Prop :=
  k_cache c = None /\ Forall (fun e => ev_new e = ev_I e /\ ev_out e <> Skipped) (k_log c).

Lemma acc_nc_fe c I : acc_nc c -> acc_nc (fst (feval c I)).
Proof.
  intros (A & B). unfold acc_nc. fe_cases c I; try congruence; cbn; (split; [first [reflexivity|assumption]|]);
    constructor; auto; cbn; split; congruence.
Qed.
Lemma acc_nc_hits l : Forall (fun e : evt => ev_new e = ev_I e /\ ev_out e <> Skipped) l -> hits l = 0.
Proof.
  induction 1 as [|e l [E _] _ IH]; [reflexivity|]. rewrite hits_cons, IH, E, Nat.sub_diag.
  destruct (ev_good e); reflexivity.
Qed.

(* ------------------------------------------------------------ with cache *)
Hypothesis Hlen : forall k I y, f k I = Some y -> length y = length I.

Lemma cmem_cset i j (v : T) c : cmem i (cset j v c) = cmem i c || row_eqb i j.
Proof.
  induction c as [|[k w] c IH]; simpl.
  - now rewrite orb_false_r.
  - destruct (row_eqb_spec j k) as [->|N]; simpl.
    + destruct (row_eqb i k), (cmem i c); reflexivity.
    + rewrite IH. now rewrite orb_assoc.
Qed.
Lemma cmem_cset_all i iv (c : @cachet T) : cmem i (cset_all iv c) = cmem i c || rmem i (map fst iv).
Proof.
  unfold cset_all. revert c. induction iv as [|[j v] iv IH]; intros c; simpl.
  - now rewrite orb_false_r.
  - rewrite IH, cmem_cset. simpl. now rewrite orb_assoc.
Qed.
Lemma map_fst_combine {A B} (l : list A) (y : list B) : length y = length l -> map fst (combine l y) = l.
Proof. revert y; induction l; intros [|b y] H; simpl in *; try discriminate; auto. f_equal. apply IHl. lia. Qed.

Definition acc_ch (ch0 : @cachet T) (c : cntt) : Prop :=
  exists ch, k_cache c = Some ch /\ (forall i, cmem i ch = known ch0 (k_log c) i) /\ log_split ch0 (k_log c).

Lemma acc_ch_fe ch0 c I : acc_ch ch0 c -> acc_ch ch0 (fst (feval c I)).
Proof.
  intros (ch' & A & B & D). unfold acc_ch.
  assert (Hf : forall ch, ch = ch' ->
               filter (fun i => negb (cmem i ch)) I = filter (fun i => negb (known ch0 (k_log c) i)) I).
  { intros ch ->. apply filter_ext. intros i. now rewrite B. }
  fe_cases c I; try congruence; injection A as <-; cbn [fst klog k_cache k_log];
    eexists; (split; [first [reflexivity|exact Ech]|]); cbn [log_split ev_new ev_I]; rewrite <- (Hf ch eq_refl), Efl;
    (split; [|split; [reflexivity|exact D]]); intros i; rewrite known_cons; unfold ev_eval; cbn [ev_out ev_new];
    try (change (rmem i []) with false; rewrite orb_false_r; auto).
  rewrite cmem_cset_all, map_fst_combine by (now apply Hlen in Ef). rewrite B. reflexivity.
Qed.

(* ------------------------------------------------------------ cache values *)
Lemma cget0_cset i j (v : T) c : cget0 K i (cset j v c) = if row_eqb i j then v else cget0 K i c.
Proof.
  induction c as [|[k w] c IH]; simpl.
  - reflexivity.
  - destruct (row_eqb_spec j k) as [->|N]; simpl.
    + destruct (row_eqb i k); reflexivity.
    + rewrite IH. destruct (row_eqb_spec i k) as [E1|N1], (row_eqb_spec i j) as [E2|N2]; congruence.
Qed.
Lemma cget0_cset_all_notin i iv (c : @cachet T) :
  rmem i (map fst iv) = false -> cget0 K i (cset_all iv c) = cget0 K i c.
Proof.
  unfold cset_all. revert c. induction iv as [|[j v] iv IH]; intros c; simpl; auto.
  intros H. apply orb_false_iff in H as [H1 H2]. rewrite IH by auto. rewrite cget0_cset, H1. reflexivity.
Qed.
Lemma cget0_cset_all_nth (l : rows) (y : list T) c k :
  NoDup l -> length y = length l -> k < length l ->
  cget0 K (nth k l []) (cset_all (combine l y) c) = nth k y (o0 K).
Proof.
  revert y c k. induction l as [|j l IH]; intros [|v y] c k HN HL Hk; simpl in *; try lia; try discriminate.
  inversion HN as [|? ? Hj Hl]; subst. destruct k as [|k].
  - change (fold_left _ (combine l y) (cset j v c)) with (cset_all (combine l y) (cset j v c)).
    rewrite cget0_cset_all_notin.
    + now rewrite cget0_cset, row_eqb_refl.
    + rewrite map_fst_combine by lia. destruct (rmem j l) eqn:E; auto. apply rmem_in in E. contradiction.
  - apply IH; auto; lia.
Qed.

Definition acc_val (ch0 : @cachet T) (c : cntt) : Prop :=
  forall ch, k_cache c = Some ch ->
    (forall i, cmem i ch0 = true -> cget0 K i ch = cget0 K i ch0) /\
    (forall I y, In (I, Some y) (lcalls (k_log c)) -> forall k, k < length I ->
                 cget0 K (nth k I []) ch = nth k y (o0 K)).

Lemma acc_val_fe ch0 c I : NoDup I -> acc_ch ch0 c -> acc_val ch0 c -> acc_val ch0 (fst (feval c I)).
Proof.
  intros HN (ch' & A & B & D) V. specialize (V ch' A). destruct V as [V1 V2]. unfold acc_val.
  fe_cases c I; try congruence; injection A as <-; cbn [fst klog k_cache k_log]; intros ch2 E2;
    try rewrite Ech in E2; injection E2 as <-.
  - split; [exact V1|]. intros I' y' Hin. rewrite lcalls_cons in Hin. unfold call_of in Hin. cbn [ev_out] in Hin.
    rewrite app_nil_r in Hin. exact (V2 I' y' Hin).
  - split; [exact V1|]. intros I' y' Hin. rewrite lcalls_cons in Hin. unfold call_of in Hin. cbn [ev_out] in Hin.
    rewrite app_nil_r in Hin. exact (V2 I' y' Hin).
  - assert (Hnew : forall i, In i (i0 :: In0) -> cmem i ch = false).
    { intros i Hi. rewrite <- Efl in Hi. apply filter_In in Hi as [_ Hi]. now apply negb_true_iff in Hi. }
    assert (Hy : length y = length (i0 :: In0)) by (now apply Hlen in Ef).
    assert (Hold : forall i, cmem i ch = true -> cget0 K i (cset_all (combine (i0 :: In0) y) ch) = cget0 K i ch).
    { intros i Hi. apply cget0_cset_all_notin. rewrite map_fst_combine by auto.
      destruct (rmem i (i0 :: In0)) eqn:E; auto. apply rmem_in in E. apply Hnew in E. congruence. }
    split.
    + intros i Hi. rewrite Hold; auto. rewrite B. unfold known. now rewrite Hi.
    + intros I' y' Hin k Hk. rewrite lcalls_cons in Hin. unfold call_of in Hin. cbn [ev_out ev_new] in Hin.
      apply in_app_or in Hin as [Hin|[Hin|[]]].
      * rewrite Hold; [exact (V2 I' y' Hin k Hk)|]. rewrite B. unfold known.
        assert (Hr : rmem (nth k I' []) (evald (lcalls (k_log c))) = true).
        { apply rmem_in. unfold evald. apply in_flat_map. exists (I', Some y'). split; auto.
          simpl. apply nth_In; auto. }
        rewrite Hr. apply orb_true_r.
      * injection Hin as <- <-. apply (cget0_cset_all_nth (i0 :: In0) y ch k); auto.
        rewrite <- Efl. apply NoDup_filter; auto.
  - split; [exact V1|]. intros I' y' Hin. rewrite lcalls_cons in Hin. unfold call_of in Hin. cbn [ev_out ev_new] in Hin.
    apply in_app_or in Hin as [Hin|[Hin|[]]]; [exact (V2 I' y' Hin)|discriminate].
Qed.
(* ------------------------------------------------------------ domain of the requests *)
(* every request is a non-empty list of pairwise distinct rows inside the bounds bn (width = length bn);
   what is handed to the objective is a sub-list of the request, non-empty when the objective is called *)
Definition ev_dom (bn : list nat) (e : evt) : Prop :=
  rows_ok bn (ev_I e) /\ (exists p, ev_new e = filter p (ev_I e)) /\
  (forall r, ev_out e = Called r -> ev_new e <> []).
Definition dom (bn : list nat) (c : cntt) : Prop := Forall (ev_dom bn) (k_log c).

Lemma filter_true {A} (l : list A) : filter (fun _ => true) l = l.
Proof. induction l; simpl; congruence. Qed.

Lemma dom_fe bn c I : rows_ok bn I -> dom bn c -> dom bn (fst (feval c I)).
Proof.
  intros HI HD. assert (HI' := HI). destruct HI' as (Hne & _). unfold dom.
  fe_cases c I; cbn [fst klog k_log]; constructor; auto; unfold ev_dom; cbn [ev_I ev_new ev_out];
    (split; [exact HI|]); split; try (intros r E; congruence);
    try (exists (fun _ => true); now rewrite filter_true);
    try (exists (fun i => negb (cmem i ch)); now rewrite Efl).
Qed.

Lemma dom_calls bn l :
  Forall (ev_dom bn) l ->
  Forall (fun q => fst q <> [] /\ NoDup (fst q) /\ Forall (fun r => Forall2 lt r bn) (fst q)) (lcalls l).
Proof.
  induction 1 as [|e l (R & (p & Ep) & Hc) _ IH]; [constructor|].
  rewrite lcalls_cons. apply Forall_app. split; [exact IH|].
  unfold call_of. destruct (ev_out e) as [| |r] eqn:Eo; constructor; [|constructor].
  destruct R as (_ & R2 & R3). cbn [fst]. split; [exact (Hc r eq_refl)|]. rewrite Ep. split.
  - apply NoDup_filter; auto.
  - rewrite Forall_forall in *. intros x Hx. apply filter_In in Hx as [Hx _]. auto.
Qed.

End Acc.
