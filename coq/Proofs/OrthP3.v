(* C04: packaged statements (hypotheses bundled as [pow2_laws], records unfolded) and concrete non-vacuity witnesses. *)
From Coq Require Import List Arith Lia PeanoNat ZArith Bool QArith Qcanon.
From TV Require Import Num.Ops Lin.Tab Lin.BigSum Lin.Mat TT.Chain Model.Transformation
  Proofs.TransformationP Proofs.TransformationP2 Proofs.OrthP Proofs.OrthP2.
Import ListNotations.
Local Open Scope nat_scope.

Section Packaged.
Context {T : Type} (K : ops T).
Hypothesis L : pow2_laws K.
Let R_ := proj1 L. Let A_ := proj1 (proj2 L). Let Z_ := proj1 (proj2 (proj2 L)). Let D_ := proj2 (proj2 (proj2 L)).
Variable qr : nat -> mat T -> mat T * mat T.
Variable rq : nat -> mat T -> mat T * mat T.
Variable ilog2 : nat -> T -> Z.
Hypothesis qr_spec : forall k A, qr_ok K A (fst (qr k A)) (snd (qr k A)).
Hypothesis rq_spec : forall k A, rq_ok K A (fst (rq k A)) (snd (rq k A)).

Lemma P_orthogonalize_spec (s : bool) (Y : list (core T)) (k : nat) : chain 1 Y 1 -> k < length Y ->
  exists Zs p, orthogonalize K qr rq ilog2 Y (Some (Z.of_nat k)) s = Ok (Zs, p) /\
    (forall idx, wf 1 Y idx -> omul K (opow2 K p) (get K Zs idx) = get K Y idx) /\
    (s = false -> p = 0%Z /\ forall idx, wf 1 Y idx -> get K Zs idx = get K Y idx) /\
    chain 1 Zs 1 /\ shape Zs = shape Y /\ length Zs = length Y /\
    (forall m, m < k -> lorth K (nth m Zs dcore)) /\
    (forall m, k < m -> m < length Y -> rorth K (nth m Zs dcore)) /\
    (forall m, m < length Y ->
       cr2 (nth m Zs dcore) <= cr2 (nth m Y dcore) /\ cr1 (nth m Zs dcore) <= cr1 (nth m Y dcore)) /\
    (forall m, m < k -> cr2 (nth m Zs dcore) <= cr1 (nth m Zs dcore) * cn (nth m Zs dcore)) /\
    (forall m, k < m -> m < length Y -> cr1 (nth m Zs dcore) <= cn (nth m Zs dcore) * cr2 (nth m Zs dcore)).
Proof.
  intros C Hk.
  destruct (orthogonalize_full K R_ A_ Z_ D_ qr rq ilog2 qr_spec rq_spec (fun _ => True) (fun _ _ _ _ => I) s Y k C Hk)
    as (Zs & p & E & [c1 c2 c3 c4 c5 c6 c7 c8 c9 c10 c11]).
  exists Zs, p. repeat (split; [assumption|]). assumption.
Qed.
Lemma P_orthogonalize_default (s : bool) (Y : list (core T)) :
  orthogonalize K qr rq ilog2 Y None s = orthogonalize K qr rq ilog2 Y (Some (Z.of_nat (length Y) - 1)%Z) s.
Proof. reflexivity. Qed.
Lemma P_orthogonalize_norm (s : bool) (Y : list (core T)) (k : nat) Zs p : chain 1 Y 1 -> k < length Y ->
  orthogonalize K qr rq ilog2 Y (Some (Z.of_nat k)) s = Ok (Zs, p) ->
  tnorm2 K Zs = cfrob2 K (nth k Zs dcore) /\
  tnorm2 K Y = omul K (omul K (opow2 K p) (opow2 K p)) (cfrob2 K (nth k Zs dcore)) /\
  (s = false -> tnorm2 K Y = cfrob2 K (nth k Zs dcore)).
Proof. exact (orthogonalize_norm K R_ A_ Z_ D_ qr rq ilog2 qr_spec rq_spec (fun _ => True) (fun _ _ _ _ => I) s Y k Zs p). Qed.
End Packaged.

(* single steps: what the existing specification says, with the record unfolded *)
Section Steps.
Context {T : Type} (K : ops T).
Hypothesis Rth : rng K.
Variable qr : nat -> mat T -> mat T * mat T.
Variable rq : nat -> mat T -> mat T * mat T.
Hypothesis qr_spec : forall k A, qr_ok K A (fst (qr k A)) (snd (qr k A)).
Hypothesis rq_spec : forall k A, rq_ok K A (fst (rq k A)) (snd (rq k A)).

Lemma P_orth_left_step (Zs : list (core T)) (i : nat) : chain 1 Zs 1 -> i + 1 < length Zs ->
  exists Zs', orth_left_z K qr Zs (Z.of_nat i) = Ok Zs' /\
    (forall idx, wf 1 Zs idx -> get K Zs' idx = get K Zs idx) /\
    chain 1 Zs' 1 /\ shape Zs' = shape Zs /\ length Zs' = length Zs /\
    (forall m, m <> i -> m <> S i -> nth m Zs' dcore = nth m Zs dcore) /\
    lorth K (nth i Zs' dcore) /\
    cr2 (nth i Zs' dcore) = Nat.min (cr1 (nth i Zs dcore) * cn (nth i Zs dcore)) (cr2 (nth i Zs dcore)) /\
    cr1 (nth i Zs' dcore) = cr1 (nth i Zs dcore) /\ cr2 (nth (S i) Zs' dcore) = cr2 (nth (S i) Zs dcore).
Proof.
  intros C Hi. rewrite orth_left_z_nat.
  destruct (orth_left_spec K Rth qr qr_spec Zs i C Hi) as (Zs' & E & [g c s l f] & LO & R2 & R1).
  destruct (orth_left_next K qr Zs i Zs' E Hi) as (M & EM).
  exists Zs'. repeat (split; [auto|]). rewrite EM. reflexivity.
Qed.
Lemma P_orth_right_step (Zs : list (core T)) (i : nat) : chain 1 Zs 1 -> 1 <= i -> i < length Zs ->
  exists Zs', orth_right_z K rq Zs (Z.of_nat i) = Ok Zs' /\
    (forall idx, wf 1 Zs idx -> get K Zs' idx = get K Zs idx) /\
    chain 1 Zs' 1 /\ shape Zs' = shape Zs /\ length Zs' = length Zs /\
    (forall m, m <> i - 1 -> m <> i -> nth m Zs' dcore = nth m Zs dcore) /\
    rorth K (nth i Zs' dcore) /\
    cr1 (nth i Zs' dcore) = Nat.min (cr1 (nth i Zs dcore)) (cn (nth i Zs dcore) * cr2 (nth i Zs dcore)) /\
    cr2 (nth i Zs' dcore) = cr2 (nth i Zs dcore) /\ cr1 (nth (i - 1) Zs' dcore) = cr1 (nth (i - 1) Zs dcore).
Proof.
  intros C H1 Hi. rewrite orth_right_z_nat.
  destruct (orth_right_spec K Rth rq rq_spec Zs i C H1 Hi) as (Zs' & E & [g c s l f] & RO & R1 & R2).
  destruct (orth_right_prev K rq Zs i Zs' E H1 Hi) as (M & EM).
  exists Zs'. repeat (split; [auto|]). rewrite EM. reflexivity.
Qed.
End Steps.

(* ---------- concrete witnesses over Qc ---------- *)
Definition q (a : Z) (b : positive) : Qc := Q2Qc (a # b).
(* A = Q R with Q orthogonal: A = [[3,0],[4,5]], Q = [[3/5,-4/5],[4/5,3/5]], R = [[5,4],[0,3]] *)
Definition A_ex : mat Qc := mk_mat 2 2 [[q 3 1; q 0 1]; [q 4 1; q 5 1]].
Definition Q_ex : mat Qc := mk_mat 2 2 [[q 3 5; q (-4) 5]; [q 4 5; q 3 5]].
Definition R_ex : mat Qc := mk_mat 2 2 [[q 5 1; q 4 1]; [q 0 1; q 3 1]].
(* A' = R' Q' with Q' orthogonal: A' = [[5,0],[4,3]] = [[4,3],[5,0]]^T..., R' = [[5,0],[4,3]]... Q' = identity rows permuted *)
Definition Ar_ex : mat Qc := mk_mat 2 2 [[q 3 1; q 4 1]; [q 0 1; q 5 1]].
Definition Rr_ex : mat Qc := mk_mat 2 2 [[q 5 1; q 0 1]; [q 4 1; q 3 1]].
Definition Qr_ex : mat Qc := mk_mat 2 2 [[q 3 5; q 4 5]; [q (-4) 5; q 3 5]].
Ltac qc_eq := apply Qc_is_canon; vm_compute; reflexivity.
Ltac two_cases i := destruct i as [|[|i]]; [| |exfalso; simpl in *; lia].
Lemma qr_ok_example : qr_ok OQc A_ex Q_ex R_ex.
Proof.
  unfold qr_ok. repeat split; try reflexivity.
  - intros i j Hi Hj. two_cases i; two_cases j; qc_eq.
  - intros c c' Hc Hc'. two_cases c; two_cases c'; qc_eq.
Qed.
Lemma rq_ok_example : rq_ok OQc Ar_ex Rr_ex Qr_ex.
Proof.
  unfold rq_ok. repeat split; try reflexivity.
  - intros i j Hi Hj. two_cases i; two_cases j; qc_eq.
  - intros c c' Hc Hc'. two_cases c; two_cases c'; qc_eq.
Qed.
(* a 2 x 2 tensor of rank 2 whose first core unfolds to A_ex; the model run with the exact factorisation plugged in *)
Definition Y_ex : list (core Qc) :=
  [ mkcore 1 2 2 (fun _ i b => mget OQc A_ex i b); mkcore 2 2 1 (fun a i _ => q (Z.of_nat (1 + a + 2 * i)) 1) ].
Definition qr_ex (_ : nat) (_ : mat Qc) := (Q_ex, R_ex).
Lemma model_example :
  match orthogonalize OQc qr_ex qr_ex (fun _ _ => 0%Z) Y_ex (Some 1%Z) false with
  | Ok (Zs, p) => p = 0%Z /\ ranks Zs = [1; 2; 1] /\
      get OQc Zs [0; 1] = get OQc Y_ex [0; 1] /\ get OQc Zs [1; 0] = get OQc Y_ex [1; 0] /\
      get OQc Zs [1; 1] = q 32 1 /\
      tnorm2 OQc Y_ex = q 1310 1 /\ cfrob2 OQc (nth 1 Zs dcore) = q 1310 1
  | Err _ => False
  end.
Proof. vm_compute. repeat split; apply Qc_is_canon; reflexivity. Qed.
Lemma chain_example : chain 1 Y_ex 1 /\ wf 1 Y_ex [1; 1].
Proof. vm_compute. repeat split; lia. Qed.
Lemma bad_pivot_example :
  orthogonalize OQc qr_ex qr_ex (fun _ _ => 0%Z) Y_ex (Some 2%Z) false = Err ValueError /\
  orthogonalize OQc qr_ex qr_ex (fun _ _ => 0%Z) Y_ex (Some (-1)%Z) true = Err ValueError /\
  orth_left_z OQc qr_ex Y_ex 1%Z = Err ValueError /\ orth_left_z OQc qr_ex Y_ex (-1)%Z = Err ValueError /\
  orth_right_z OQc qr_ex Y_ex 0%Z = Err ValueError /\ orth_right_z OQc qr_ex Y_ex 2%Z = Err ValueError.
Proof. repeat split. Qed.
