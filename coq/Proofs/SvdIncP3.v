(* Lemmas about Model/SvdInc.v (C20), part 3: exact recovery.
   Part A is the algebra of one step over an abstract commutative ring (sums only);
   part B instantiates it on the model and runs the induction over the modes. *)
From Coq Require Import List Arith Lia PeanoNat ZArith Bool.
From TV Require Import Num.Ops Lin.Tab Lin.BigSum Lin.Mat TT.Chain Model.Transformation Model.Svd Model.Sample
  Model.SvdInc Proofs.SvdIncP Proofs.SvdIncP2.
Import ListNotations.

(* ------------------------------------------------------------------------------------------ *)
Section StepAlg.
Context {T : Type} (K : ops T).
Notation "0" := (o0 K). Notation "1" := (o1 K).
Infix "+" := (oadd K). Infix "*" := (omul K).
Hypothesis Rth : rng K.
Add Ring RrIncA : Rth.
Notation bsum := (bsum K).

(* sum_a f a * (sum_j g a j * h j) = sum_j (sum_a f a * g a j) * h j *)
Lemma sum_sum_l m n (f : nat -> T) (g : nat -> nat -> T) (h : nat -> T) :
  bsum m (fun a => f a * bsum n (fun j => g a j * h j)) = bsum n (fun j => bsum m (fun a => f a * g a j) * h j).
Proof.
  transitivity (bsum m (fun a => bsum n (fun j => f a * g a j * h j))).
  - apply bsum_ext; intros a Ha. rewrite <- bsum_mul_l by auto. apply bsum_ext; intros j Hj. ring.
  - rewrite bsum_swap by auto. apply bsum_ext; intros j Hj. now rewrite <- bsum_mul_r by auto.
Qed.

Variables (PA PB : Type) (okp : PA -> Prop) (oks : PB -> Prop).
Variables (n r0 r1 nP nS : nat).
Variable F1 : PA -> nat -> PB -> T.       (* the target, index = prefix, value of the mode, suffix *)
Variable Ph : PA -> nat -> T.             (* the left interface vectors built so far *)
Variable Pi : nat -> PA.                  (* sampled prefixes *)
Variable Sj : nat -> PB.                  (* sampled suffixes *)
Hypothesis Pi_ok : forall i, i < nP -> okp (Pi i).
Hypothesis Sj_ok : forall j, j < nS -> oks (Sj j).
Variable E : PA -> nat -> T.
Hypothesis HA : forall p v s, okp p -> v < n -> oks s -> F1 p v s = bsum nP (fun i => E p i * F1 (Pi i) v s).
Hypothesis HE : forall p a, okp p -> a < r0 -> Ph p a = bsum nP (fun i => E p i * Ph (Pi i) a).
Variable R : nat -> nat -> PB -> T.
Hypothesis Ha : forall p v s, okp p -> v < n -> oks s -> F1 p v s = bsum r0 (fun a => Ph p a * R a v s).
Variables (Y1 : nat -> nat -> nat -> T) (V Z' : nat -> nat -> T).
Hypothesis Hfac1 : forall v i j, v < n -> i < nP -> j < nS ->
  F1 (Pi i) v (Sj j) = bsum r1 (fun c => Y1 v i c * V c j).
Hypothesis Hfac2 : forall v i c, v < n -> i < nP -> c < r1 ->
  Y1 v i c = bsum nS (fun j => F1 (Pi i) v (Sj j) * Z' j c).

(* the least-squares systems are consistent *)
Lemma step_consistent v i c : v < n -> i < nP -> c < r1 ->
  bsum r0 (fun a => Ph (Pi i) a * bsum nS (fun j => R a v (Sj j) * Z' j c)) = Y1 v i c.
Proof.
  intros Hv Hi Hc. rewrite sum_sum_l, Hfac2 by auto. apply bsum_ext; intros j Hj. f_equal.
  symmetry. apply Ha; auto.
Qed.

Variable X : nat -> nat -> nat -> T.
Hypothesis HX : forall v i c, v < n -> i < nP -> c < r1 -> bsum r0 (fun a => Ph (Pi i) a * X v a c) = Y1 v i c.
Definition Ph' (p : PA) (v c : nat) : T := bsum r0 (fun a => Ph p a * X v a c).

Lemma step_key p v c : okp p -> v < n -> c < r1 -> Ph' p v c = bsum nP (fun i => E p i * Y1 v i c).
Proof.
  intros Hp Hv Hc. unfold Ph'.
  transitivity (bsum r0 (fun a => bsum nP (fun i => E p i * Ph (Pi i) a) * X v a c)).
  - apply bsum_ext; intros a Ha'. now rewrite <- HE.
  - rewrite <- sum_sum_l. apply bsum_ext; intros i Hi. now rewrite HX.
Qed.
Lemma step_b p v c : okp p -> v < n -> c < r1 -> Ph' p v c = bsum nS (fun j => F1 p v (Sj j) * Z' j c).
Proof.
  intros Hp Hv Hc. rewrite step_key by auto.
  transitivity (bsum nP (fun i => E p i * bsum nS (fun j => F1 (Pi i) v (Sj j) * Z' j c))).
  - apply bsum_ext; intros i Hi. now rewrite Hfac2.
  - rewrite sum_sum_l. apply bsum_ext; intros j Hj. now rewrite <- HA by auto.
Qed.
Variable C : nat -> PB -> T.
Hypothesis HC : forall p v s, okp p -> v < n -> oks s -> F1 p v s = bsum nS (fun j => F1 p v (Sj j) * C j s).
Lemma step_a p v s : okp p -> v < n -> oks s ->
  F1 p v s = bsum r1 (fun c => Ph' p v c * bsum nS (fun j => V c j * C j s)).
Proof.
  intros Hp Hv Hs. rewrite HC by auto.
  transitivity (bsum nS (fun j => bsum nP (fun i => E p i * bsum r1 (fun c => Y1 v i c * V c j)) * C j s)).
  { apply bsum_ext; intros j Hj. f_equal. rewrite HA by auto. apply bsum_ext; intros i Hi. now rewrite Hfac1. }
  rewrite <- sum_sum_l.
  transitivity (bsum nP (fun i => E p i * bsum r1 (fun c => Y1 v i c * bsum nS (fun j => V c j * C j s)))).
  { apply bsum_ext; intros i Hi. f_equal. now rewrite sum_sum_l. }
  rewrite sum_sum_l. apply bsum_ext; intros c Hc. now rewrite step_key.
Qed.
(* without the skeleton reduction the new interface vector holds the sampled entries themselves *)
Lemma step_c p v c : okp p -> v < n -> c < r1 -> c < nS ->
  (forall i, i < nP -> Y1 v i c = F1 (Pi i) v (Sj c)) -> Ph' p v c = F1 p v (Sj c).
Proof.
  intros Hp Hv Hc Hc' HY. rewrite step_key, HA by auto. apply bsum_ext; intros i Hi. now rewrite HY.
Qed.
End StepAlg.

(* the interface vectors built so far are interpolated from the sampled prefixes as the target is *)
Section DeriveE.
Context {T : Type} (K : ops T).
Infix "*" := (omul K).
Hypothesis Rth : rng K.
Variables (PA PB : Type) (okp : PA -> Prop) (oks : PB -> Prop).
Variables (r0 nP nS : nat) (F0 : PA -> PB -> T) (Ph : PA -> nat -> T) (Pi : nat -> PA) (Sj : nat -> PB).
Hypothesis Pi_ok : forall i, i < nP -> okp (Pi i).
Hypothesis Sj_ok : forall j, j < nS -> oks (Sj j).
Variables (E : PA -> nat -> T) (Z : nat -> nat -> T).
Hypothesis HA0 : forall p s, okp p -> oks s -> F0 p s = bsum K nP (fun i => E p i * F0 (Pi i) s).
Hypothesis Hb : forall p a, okp p -> a < r0 -> Ph p a = bsum K nS (fun j => F0 p (Sj j) * Z j a).
Lemma derive_E p a : okp p -> a < r0 -> Ph p a = bsum K nP (fun i => E p i * Ph (Pi i) a).
Proof.
  intros Hp Ha. rewrite Hb by auto.
  transitivity (bsum K nS (fun j => bsum K nP (fun i => E p i * F0 (Pi i) (Sj j)) * Z j a)).
  - apply bsum_ext; intros j Hj. now rewrite <- HA0 by auto.
  - rewrite <- (sum_sum_l K Rth). apply bsum_ext; intros i Hi. now rewrite <- Hb by auto.
Qed.
End DeriveE.

(* ------------------------------------------------------------------------------------------ *)
Section Exact.
Context {T : Type} (K : ops T).
Notation "0" := (o0 K). Notation "1" := (o1 K).
Infix "+" := (oadd K). Infix "*" := (omul K).
Hypothesis Rth : rng K.
Add Ring RrIncB : Rth.
Notation bsum := (bsum K).

Variable svdo : nat -> mat T -> mat T * list T * mat T.
Variable lstsq : nat -> mat T -> mat T -> mat T.
Hypothesis svd_rows : forall c A, mr (fst (fst (svdo c A))) = mr A.
(* np.linalg.lstsq on a CONSISTENT system returns a solution (justified by SvdIncR.lstsq_exact: a minimiser of the
   residual of a consistent system is an exact solution); contract of one call, and of the routine *)
Definition lstsq_solves_at (c : nat) (A b : mat T) : Prop := mr A = mr b ->
  (exists X0 : nat -> nat -> T, forall i j, (i < mr A)%nat -> (j < mc b)%nat ->
       bsum (mc A) (fun a => mget K A i a * X0 a j) = mget K b i j) ->
  forall i j, (i < mr A)%nat -> (j < mc b)%nat ->
       bsum (mc A) (fun a => mget K A i a * mget K (lstsq c A b) a j) = mget K b i j.
Definition lstsq_solves : Prop := forall c A b, lstsq_solves_at c A b.

Variables (ns : list nat) (II : list (list nat)) (idx idm : list nat)
          (PS : list (list (list nat) * list (list nat))).
Hypothesis Hlay : layout ns II idx idm PS.
Hypothesis Hd : 2 <= length ns.
Hypothesis Hpos : Forall (fun n => (0 < n)%nat) ns.
Variable F : list nat -> T.           (* the target tensor as a function of the multi-index *)
Variables (e : T) (rcap : Z).
(* the final state of the run (it exists: SvdIncP2.incomplete_runs); the contract of lstsq is only needed for the
   systems the run hands to it *)
Variable sfin : @st T.
Hypothesis Hfin : reach K svdo lstsq ns II idx idm (map F II) e rcap (length ns - 1) sfin.
Hypothesis Hlsq : forall A b, In (CLsq A b) (trace sfin) -> forall c, lstsq_solves_at c A b.

Notation d := (length ns).
Notation Pk k := (fst (nth k PS dPS)).
Notation Sk k := (snd (nth k PS dPS)).
Notation nk k := (nth k ns O).
Notation Y := (map F II).
Notation Bk k := (blockmat K ns idx PS Y k).

Lemma HYlen : length Y = length II. Proof. apply map_length. Qed.

(* the skeleton decomposition is exact on the sample blocks it is applied to: U V = B and U = B Z
   (mode 0 always; mode k >= 1 when the block has more columns than the cap) *)
Definition skel_used (k : nat) : bool := if (k =? 0)%nat then true else step_skel ns PS rcap k.
Definition skel_r (k : nat) : Z := if (k =? 0)%nat then rcap else step_r1 ns rcap k.
Definition skel_exact_at (c k : nat) : Prop :=
  let U := fst (matrix_skeleton K svdo c (Bk k) e (skel_r k) false GiveM) in
  exists V Z : nat -> nat -> T,
    (forall i j, (i < mr (Bk k))%nat -> (j < mc (Bk k))%nat ->
        mget K (Bk k) i j = bsum (mc U) (fun b => mget K U i b * V b j)) /\
    (forall i b, (i < mr (Bk k))%nat -> (b < mc U)%nat ->
        mget K U i b = bsum (mc (Bk k)) (fun j => mget K (Bk k) i j * Z j b)).
Hypothesis Hskel : forall c k, (k < d)%nat -> skel_used k = true -> skel_exact_at c k.

(* the target is interpolated by its sampled prefixes (rows) and sampled suffixes (columns) at every unfolding *)
Definition HA_at (k : nat) : Prop := exists E : list nat -> nat -> T, forall p s,
  inb (firstn k ns) p -> inb (skipn k ns) s ->
  F (p ++ s) = bsum (length (Pk k)) (fun i => E p i * F (nth i (Pk k) [] ++ s)).
Definition HC_at (k : nat) : Prop := exists C : nat -> list nat -> T, forall p s,
  inb (firstn k ns) p -> inb (skipn k ns) s ->
  F (p ++ s) = bsum (length (Sk (k - 1))) (fun j => F (p ++ nth j (Sk (k - 1)) []) * C j s).
Hypothesis HA : forall k, (1 <= k)%nat -> (k < d)%nat -> HA_at k.
Hypothesis HC : forall k, (1 <= k)%nat -> (k < d)%nat -> HC_at k.

Lemma HC_all k : (1 <= k)%nat -> (k <= d)%nat -> HC_at k.
Proof.
  intros H1 Hk. destruct (Nat.eq_dec k d) as [->|Hne]; [|apply HC; lia].
  exists (fun _ _ => 1). intros p s Hp Hs. rewrite skipn_all in Hs. inversion Hs; subst.
  rewrite (lay_last _ _ _ _ _ Hlay). cbn [length nth]. simpl. ring.
Qed.

(* values at the sample points *)
Lemma Bk_F k v i j : (k < d)%nat -> (v < nk k)%nat -> (i < length (Pk k))%nat -> (j < length (Sk k))%nat ->
  mget K (Bk k) (v * length (Pk k) + i) j = F (nth i (Pk k) [] ++ v :: nth j (Sk k) []).
Proof.
  intros Hk Hv Hi Hj. rewrite (mget_blockmat K ns II idx idm PS Hlay Hd Y HYlen) by auto.
  destruct (blockk _ _ _ _ _ Hlay k Hk) as (_ & E & Hnth & _).
  pose proof (block_end_le ns II idx idm PS Hlay Hd Hpos Y HYlen k Hk) as Hle.
  pose proof (idx3_lt v i j (nk k) _ _ Hv Hi Hj) as Hlt.
  rewrite nth_indep with (d' := F []) by (rewrite map_length; lia).
  rewrite map_nth. now rewrite Hnth.
Qed.
Lemma Bk_dims k : mr (Bk k) = (nk k * length (Pk k))%nat /\ mc (Bk k) = length (Sk k).
Proof. split; reflexivity. Qed.

(* the factorisation of the (possibly reduced) block of step k *)
Lemma Y1_factor c k : (1 <= k)%nat -> (k < d)%nat ->
  let Y1 := step_Y1 K svdo ns idx PS Y e rcap c k in
  exists V Z' : nat -> nat -> T,
    (forall i j, (i < nk k * length (Pk k))%nat -> (j < length (Sk k))%nat ->
        mget K (Bk k) i j = bsum (mc Y1) (fun b => mget K Y1 i b * V b j)) /\
    (forall i b, (i < nk k * length (Pk k))%nat -> (b < mc Y1)%nat ->
        mget K Y1 i b = bsum (length (Sk k)) (fun j => mget K (Bk k) i j * Z' j b)).
Proof.
  intros H1 Hk. cbv zeta. unfold step_Y1. destruct (step_skel ns PS rcap k) eqn:Es.
  - assert (Hu : skel_used k = true) by (unfold skel_used; destruct k; [lia|exact Es]).
    destruct (Hskel c k Hk Hu) as (V & Z & HV & HZ). unfold skel_r in *. destruct k; [lia|]. cbn [Nat.eqb] in *.
    exists V, Z. split; auto.
  - exists (fun b j => if (b =? j)%nat then 1 else 0), (fun j b => if (j =? b)%nat then 1 else 0).
    change (mc (Bk k)) with (length (Sk k)). split.
    + intros i j Hi Hj. rewrite (bsum_single K Rth _ j); auto.
      * rewrite Nat.eqb_refl. ring.
      * intros b Hb Hne. destruct (Nat.eqb_spec b j); [contradiction|ring].
    + intros i b Hi Hb. rewrite (bsum_single K Rth _ b); auto.
      * rewrite Nat.eqb_refl. ring.
      * intros j Hj Hne. destruct (Nat.eqb_spec j b); [contradiction|ring].
Qed.

(* the interface vector after one more core *)
Lemma Phi_snoc cs G p v c : length p = length cs -> (c < cr2 G)%nat ->
  Phi K (cs ++ [G]) (p ++ [v]) c = bsum (cr1 G) (fun a => Phi K cs p a * cget K G a v c).
Proof.
  intros L Hc. unfold Phi. rewrite run_app by auto. cbn [run]. now rewrite nth_vstep.
Qed.

(* multi-indices of the first k+1 modes / of the modes from k on *)
Lemma inb_firstn_S k p' : (k < d)%nat -> inb (firstn (S k) ns) p' ->
  exists p v, p' = p ++ [v] /\ inb (firstn k ns) p /\ (v < nk k)%nat.
Proof. intros Hk H. rewrite firstn_S_nth in H by auto. now apply inb_snoc_inv. Qed.
Lemma inb_skipn_cons k v s : (k < d)%nat -> (v < nk k)%nat -> inb (skipn (S k) ns) s -> inb (skipn k ns) (v :: s).
Proof. intros Hk Hv H. rewrite (skipn_nth_S ns k Hk). now constructor. Qed.
Lemma inb_firstn_len k p : (k <= d)%nat -> inb (firstn k ns) p -> length p = k.
Proof. intros Hk H. apply inb_length in H. rewrite firstn_length in H. lia. Qed.

(* ---- the invariant of the loop ---- *)
Definition Inv_ex (k : nat) (s : @st T) : Prop :=
  let cs := cores s in let r := cr2 (last cs dcore) in
  length cs = k /\
  (exists R : nat -> list nat -> T, forall p s', inb (firstn k ns) p -> inb (skipn k ns) s' ->
      F (p ++ s') = bsum r (fun a => Phi K cs p a * R a s')) /\
  (exists Z : nat -> nat -> T, forall p a, inb (firstn k ns) p -> (a < r)%nat ->
      Phi K cs p a = bsum (length (Sk (k - 1))) (fun j => F (p ++ nth j (Sk (k - 1)) []) * Z j a)) /\
  (k = d -> forall p, inb ns p -> Phi K cs p O = F p).

Lemma Inv_base : exists s0, inc_first K svdo Y idx (nk O) e rcap = Ok s0 /\ Inv_ex 1%nat s0.
Proof.
  rewrite (inc_first_ok K svdo ns II idx idm PS Hlay Hd Hpos Y HYlen e rcap). eexists. split; [reflexivity|].
  assert (H0 : (0 < d)%nat) by lia.
  assert (Hu : skel_used O = true) by reflexivity.
  destruct (Hskel O O H0 Hu) as (V & Z & HV & HZ). unfold skel_r in HV, HZ. cbn [Nat.eqb] in HV, HZ.
  set (U := fst (matrix_skeleton K svdo O (Bk O) e rcap false GiveM)) in *.
  pose proof (lay_first _ _ _ _ _ Hlay) as EP.
  assert (LP : length (Pk O) = 1%nat) by now rewrite EP.
  destruct (Bk_dims O) as (Br & Bc). rewrite LP, Nat.mul_1_r in Br.
  assert (HB : forall v j, (v < nk O)%nat -> (j < length (Sk O))%nat -> mget K (Bk O) v j = F (v :: nth j (Sk O) [])).
  { intros v j Hv Hj. pose proof (Bk_F O v O j H0 Hv ltac:(lia) Hj) as H. rewrite LP, Nat.mul_1_r, Nat.add_0_r in H.
    rewrite H, EP. reflexivity. }
  unfold Inv_ex. cbn [cores last length]. cbn [cr2 mkcore].
  assert (HPhi : forall v a, (v < nk O)%nat -> (a < mc U)%nat ->
            Phi K [mkcore 1 (nk O) (mc U) (fun _ i b => mget K U i b)] [v] a = mget K U v a).
  { intros v a Hv Ha. unfold Phi. cbn [run]. rewrite nth_vstep by (cbn [cr2 mkcore]; auto).
    cbn [cr1 mkcore]. cbn [BigSum.bsum nth]. rewrite cget_mk by auto. ring. }
  assert (Hp1 : forall p, inb (firstn 1 ns) p -> exists v, p = [v] /\ (v < nk O)%nat).
  { intros p Hp. apply inb_firstn_S in Hp as (p0 & v & -> & Hp0 & Hv); auto. cbn [firstn] in Hp0.
    inversion Hp0; subst. exists v. auto. }
  split; [reflexivity|]. split; [|split].
  - destruct (HC 1%nat ltac:(lia) ltac:(lia)) as (C & HCv). cbn [Nat.sub] in HCv.
    exists (fun b s' => bsum (length (Sk O)) (fun j => V b j * C j s')). intros p s' Hp Hs.
    destruct (Hp1 p Hp) as (v & -> & Hv). rewrite HCv by auto.
    rewrite (sum_sum_l K Rth). apply bsum_ext; intros j Hj. f_equal. cbn [app]. rewrite <- HB by auto.
    rewrite HV by (rewrite ?Br, ?Bc; auto). apply bsum_ext; intros b Hb. now rewrite HPhi.
  - exists Z. intros p a Hp Ha. destruct (Hp1 p Hp) as (v & -> & Hv). rewrite HPhi by auto. cbn [Nat.sub].
    rewrite HZ by (rewrite ?Br; auto). rewrite Bc. apply bsum_ext; intros j Hj. cbn [app]. now rewrite HB.
  - intros E1. lia.
Qed.

Lemma skel_false_last k : k = (d - 1)%nat -> step_skel ns PS rcap k = false.
Proof.
  intros ->. unfold step_skel, step_r1. rewrite Nat.ltb_irrefl, (lay_last _ _ _ _ _ Hlay). reflexivity.
Qed.

Lemma Inv_step k s st1 : (1 <= k)%nat -> (k < d)%nat ->
  inc_step K svdo lstsq II Y idx idm ns d e rcap k s = Ok st1 -> incl (trace st1) (trace sfin) ->
  Inv_ex k s -> Inv_ex (S k) st1.
Proof.
  intros H1 Hk Es0 Hincl (L & (R & HR) & (Z & HZ) & _).
  destruct (inc_step_ok K svdo lstsq svd_rows ns II idx idm PS Hlay Hd Hpos Y HYlen e rcap k s H1 Hk L)
    as (st1' & A & b & Es & Ec & Etr & HAb).
  rewrite Es0 in Es. injection Es as <-.
  set (cs := cores s) in *. set (r0 := cr2 (last cs dcore)) in *.
  set (Y1 := step_Y1 K svdo ns idx PS Y e rcap (nsvd s) k) in *.
  set (r1 := mc Y1) in *.
  destruct (blockk _ _ _ _ _ Hlay k Hk) as (_ & _ & _ & HP & HS & HPi & HSj).
  assert (Hk1 : (k - 1 < d)%nat) by lia.
  destruct (blockk _ _ _ _ _ Hlay (k - 1)%nat Hk1) as (_ & _ & _ & _ & _ & _ & HSj').
  replace (S (k - 1)) with k in HSj' by lia.
  destruct (HA k H1 Hk) as (E & HE0).
  destruct (HC_all (S k) ltac:(lia) ltac:(lia)) as (C & HC0). replace (S k - 1)%nat with k in HC0 by lia.
  destruct (Y1_factor (nsvd s) k H1 Hk) as (V & Z' & HV & HZ'). fold Y1 in HV, HZ'. fold r1 in HV, HZ'.
  set (P := Pk k) in *. set (Sf := Sk k) in *.
  set (Pi := fun i => nth i P []). set (Sj := fun j => nth j Sf []).
  set (F1 := fun (p : list nat) (v : nat) (s' : list nat) => F (p ++ v :: s')).
  set (Y1f := fun v i c => mget K Y1 (v * length P + i) c).
  set (X := fun v a c => mget K (lstsq (nlsq s + v) (A v) (b v)) a c).
  set (R1 := fun a v s' => R a (v :: s')).
  assert (HEd : forall p a, inb (firstn k ns) p -> (a < r0)%nat ->
            Phi K cs p a = bsum (length P) (fun i => E p i * Phi K cs (Pi i) a)).
  { intros p a Hp Ha.
    apply (derive_E K Rth) with (okp := inb (firstn k ns)) (oks := inb (skipn k ns)) (r0 := r0)
      (nS := length (Sk (k - 1))) (F0 := fun p s' => F (p ++ s')) (Sj := fun j => nth j (Sk (k - 1)) []) (Z := Z); auto. }
  assert (HA1 : forall p v s', inb (firstn k ns) p -> (v < nk k)%nat -> inb (skipn (S k) ns) s' ->
            F1 p v s' = bsum (length P) (fun i => E p i * F1 (Pi i) v s')).
  { intros p v s' Hp Hv Hs. unfold F1. apply HE0; auto. now apply inb_skipn_cons. }
  assert (Ha1 : forall p v s', inb (firstn k ns) p -> (v < nk k)%nat -> inb (skipn (S k) ns) s' ->
            F1 p v s' = bsum r0 (fun a => Phi K cs p a * R1 a v s')).
  { intros p v s' Hp Hv Hs. unfold F1, R1. apply HR; auto. now apply inb_skipn_cons. }
  assert (Hf1 : forall v i j, (v < nk k)%nat -> (i < length P)%nat -> (j < length Sf)%nat ->
            F1 (Pi i) v (Sj j) = bsum r1 (fun c => Y1f v i c * V c j)).
  { intros v i j Hv Hi Hj. unfold F1, Y1f, Pi, Sj, P, Sf. rewrite <- Bk_F by auto. apply HV; auto using idx2_lt. }
  assert (Hf2 : forall v i c, (v < nk k)%nat -> (i < length P)%nat -> (c < r1)%nat ->
            Y1f v i c = bsum (length Sf) (fun j => F1 (Pi i) v (Sj j) * Z' j c)).
  { intros v i c Hv Hi Hc. unfold Y1f. rewrite HZ' by (auto using idx2_lt). apply bsum_ext; intros j Hj.
    unfold F1, Pi, Sj, P, Sf. now rewrite Bk_F. }
  assert (HX : forall v i c, (v < nk k)%nat -> (i < length P)%nat -> (c < r1)%nat ->
            bsum r0 (fun a => Phi K cs (Pi i) a * X v a c) = Y1f v i c).
  { intros v i c Hv Hi Hc. destruct (HAb v Hv) as (A1 & A2 & B1 & B2 & HAe & Hbe).
    assert (Hrows : mr (A v) = mr (b v)) by congruence.
    assert (Hin : In (CLsq (A v) (b v)) (trace sfin)).
    { apply Hincl. rewrite Etr. apply in_or_app. right. apply in_or_app. right. apply in_tab. exists v. auto. }
    pose proof (Hlsq (A v) (b v) Hin (nlsq s + v)%nat Hrows) as Hs. rewrite A1, A2, B2 in Hs.
    assert (Hcons : exists X0 : nat -> nat -> T, forall i0 j, (i0 < length P)%nat -> (j < r1)%nat ->
               bsum r0 (fun a => mget K (A v) i0 a * X0 a j) = mget K (b v) i0 j).
    { exists (fun a c' => bsum (length Sf) (fun j => R a (v :: Sj j) * Z' j c')). intros i0 j Hi0 Hj.
      rewrite Hbe by auto. change (mget K Y1 (v * length P + i0) j) with (Y1f v i0 j).
      transitivity (bsum r0 (fun a => Phi K cs (Pi i0) a * bsum (length Sf) (fun j0 => R1 a v (Sj j0) * Z' j0 j))).
      { apply bsum_ext; intros a Ha. now rewrite HAe. }
      exact (step_consistent K Rth (list nat) (list nat) (inb (firstn k ns)) (inb (skipn (S k) ns)) (nk k) r0 r1
               (length P) (length Sf) F1 (Phi K cs) Pi Sj HPi HSj R1 Ha1 Y1f Z' Hf2 v i0 j Hv Hi0 Hj). }
    specialize (Hs Hcons i c Hi Hc). rewrite Hbe in Hs by auto. unfold Y1f. rewrite <- Hs.
    apply bsum_ext; intros a Ha. rewrite HAe by auto. reflexivity. }
  assert (HC1 : forall p v s', inb (firstn k ns) p -> (v < nk k)%nat -> inb (skipn (S k) ns) s' ->
            F1 p v s' = bsum (length Sf) (fun j => F1 p v (Sj j) * C j s')).
  { intros p v s' Hp Hv Hs. unfold F1. specialize (HC0 (p ++ [v]) s').
    rewrite <- app_assoc in HC0. cbn [app] in HC0. rewrite HC0; auto.
    - apply bsum_ext; intros j Hj. now rewrite <- app_assoc.
    - rewrite firstn_S_nth by auto. apply inb_app; auto. repeat constructor; auto. }
  set (G := mkcore r0 (nk k) r1 (fun a v c => X v a c)) in *.
  assert (HPhi' : forall p v c, inb (firstn k ns) p -> (v < nk k)%nat -> (c < r1)%nat ->
            Phi K (cs ++ [G]) (p ++ [v]) c = Ph' K (list nat) r0 (Phi K cs) X p v c).
  { intros p v c Hp Hv Hc. rewrite Phi_snoc.
    - unfold Ph'. cbn [cr1 G mkcore]. apply bsum_ext; intros a Ha. unfold G. now rewrite cget_mk.
    - fold cs in L. rewrite L. apply inb_firstn_len; auto. lia.
    - exact Hc. }
  unfold Inv_ex. rewrite Ec. rewrite last_last. cbn [cr2 G mkcore]. cbv zeta.
  split; [rewrite app_length; cbn [length]; fold cs in L; lia|].
  replace (S k - 1)%nat with k by lia. fold Sf.
  split; [|split].
  - exists (fun c s' => bsum (length Sf) (fun j => V c j * C j s')). intros p' s' Hp' Hs'.
    destruct (inb_firstn_S k p' Hk Hp') as (p & v & -> & Hp & Hv).
    rewrite <- app_assoc. cbn [app]. change (F (p ++ v :: s')) with (F1 p v s').
    rewrite (step_a K Rth (list nat) (list nat) (inb (firstn k ns)) (inb (skipn (S k) ns)) (nk k) r0 r1 (length P)
               (length Sf) F1 (Phi K cs) Pi Sj HSj E HA1 HEd Y1f V Hf1 X HX C HC1 p v s' Hp Hv Hs').
    apply bsum_ext; intros c Hc. now rewrite HPhi'.
  - exists Z'. intros p' c Hp' Hc.
    destruct (inb_firstn_S k p' Hk Hp') as (p & v & -> & Hp & Hv).
    rewrite HPhi' by auto.
    rewrite (step_b K Rth (list nat) (list nat) (inb (firstn k ns)) (inb (skipn (S k) ns)) (nk k) r0 r1 (length P)
               (length Sf) F1 (Phi K cs) Pi Sj HSj E HA1 HEd Y1f Z' Hf2 X HX p v c Hp Hv Hc).
    apply bsum_ext; intros j Hj. unfold F1, Sj. now rewrite <- app_assoc.
  - intros Ed p' Hp'. rewrite <- (firstn_all ns) in Hp'. rewrite <- Ed in Hp'.
    destruct (inb_firstn_S k p' Hk Hp') as (p & v & -> & Hp & Hv).
    assert (Esk : step_skel ns PS rcap k = false) by (apply skel_false_last; lia).
    assert (EY1 : Y1 = Bk k) by (unfold Y1, step_Y1; now rewrite Esk).
    assert (ESf : Sf = [[]]) by (unfold Sf; replace k with (d - 1)%nat by lia; apply (lay_last _ _ _ _ _ Hlay)).
    assert (Er1 : r1 = 1%nat) by (unfold r1; rewrite EY1; change (mc (Bk k)) with (length Sf); now rewrite ESf).
    rewrite HPhi' by (auto; lia).
    rewrite (step_c K Rth (list nat) (list nat) (inb (firstn k ns)) (inb (skipn (S k) ns)) (nk k) r0 r1 (length P)
               (length Sf) F1 (Phi K cs) Pi Sj HSj E HA1 HEd Y1f X HX p v O Hp Hv).
    + unfold F1, Sj. now rewrite ESf.
    + lia.
    + rewrite ESf. simpl. lia.
    + intros i Hi. unfold Y1f, F1, Pi, Sj. rewrite EY1. apply Bk_F; auto.
Qed.

Lemma exact_loop j : (j <= d - 1)%nat -> forall s, reach K svdo lstsq ns II idx idm Y e rcap j s -> Inv_ex (S j) s.
Proof.
  induction j as [|j IH]; intros Hj s Hs.
  - destruct Inv_base as (s0 & E0 & H0). unfold reach, inc_loop in Hs. cbn [seq fold_left] in Hs.
    rewrite E0 in Hs. now injection Hs as <-.
  - apply reach_S_inv in Hs as Hs'. destruct Hs' as (s0 & Hr0 & Hstep).
    apply (Inv_step (S j) s0 s); auto; try lia.
    + apply (reach_incl K svdo lstsq ns II idx idm Y e rcap (d - 1 - S j) (S j) s sfin Hs).
      replace (S j + (d - 1 - S j))%nat with (d - 1)%nat by lia. exact Hfin.
    + apply IH; auto. lia.
Qed.

(* exact recovery, relative to the run: under the contract of svd (rows), the contract of lstsq on the systems of the
   run, the exactness of the skeleton steps and the interpolation hypotheses on the target, the tensor returned by
   svd_incomplete equals the target at every multi-index *)
Theorem incomplete_exact_run : forall i, inb ns i -> get K (cores sfin) i = F i.
Proof.
  pose proof (exact_loop (d - 1)%nat (le_n _) sfin Hfin) as Hs.
  replace (S (d - 1)) with d in Hs by lia. destruct Hs as (_ & _ & _ & Hc). intros i Hi.
  unfold get. exact (Hc eq_refl i Hi).
Qed.
End Exact.

(* ------------------------------------------------------------------------------------------ *)
(* the same with the contract of lstsq assumed for every call *)
Section ExactGlobal.
Context {T : Type} (K : ops T).
Hypothesis Rth : rng K.
Variable svdo : nat -> mat T -> mat T * list T * mat T.
Variable lstsq : nat -> mat T -> mat T -> mat T.
Hypothesis svd_rows : forall c A, mr (fst (fst (svdo c A))) = mr A.
Hypothesis Hlsq : lstsq_solves K lstsq.
Variables (ns : list nat) (II : list (list nat)) (idx idm : list nat)
          (PS : list (list (list nat) * list (list nat))).
Hypothesis Hlay : layout ns II idx idm PS.
Hypothesis Hd : 2 <= length ns.
Hypothesis Hpos : Forall (fun n => (0 < n)%nat) ns.
Variable F : list nat -> T.
Variables (e : T) (rcap : Z).
Hypothesis Hskel : forall c k, (k < length ns)%nat -> skel_used ns PS rcap k = true ->
  skel_exact_at K svdo ns II idx PS F e rcap c k.
Hypothesis HA : forall k, (1 <= k)%nat -> (k < length ns)%nat -> HA_at K ns PS F k.
Hypothesis HC : forall k, (1 <= k)%nat -> (k < length ns)%nat -> HC_at K ns PS F k.

Theorem incomplete_exact :
  exists Yres, svd_incomplete K svdo lstsq II (map F II) idx idm e rcap = Ok Yres /\
    forall i, inb ns i -> get K Yres i = F i.
Proof.
  destruct (incomplete_runs K svdo lstsq svd_rows ns II idx idm PS Hlay Hd Hpos (map F II) (map_length F II) e rcap)
    as (sfin & Erun & Hreach).
  exists (cores sfin). split; [unfold svd_incomplete; now rewrite Erun|].
  apply (incomplete_exact_run K Rth svdo lstsq svd_rows ns II idx idm PS Hlay Hd Hpos F e rcap sfin Hreach); auto.
Qed.
Theorem incomplete_recovers : (1 <= rcap)%Z ->
  exists Yres, svd_incomplete K svdo lstsq II (map F II) idx idm e rcap = Ok Yres /\
    shape Yres = ns /\ chain 1%nat Yres 1%nat /\ Forall (fun G => (Z.of_nat (cr2 G) <= rcap)%Z) Yres /\
    forall i, inb ns i -> get K Yres i = F i.
Proof.
  intros Hr. destruct incomplete_exact as (Yres & E1 & Hex).
  destruct (incomplete_wf K svdo lstsq svd_rows ns II idx idm PS Hlay Hd Hpos (map F II) (map_length F II) e rcap Hr)
    as (Yres' & E2 & Hsh & Hch & Hrk).
  rewrite E1 in E2. injection E2 as <-. exists Yres. auto.
Qed.
End ExactGlobal.
