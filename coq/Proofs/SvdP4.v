(* Lemmas for C03, part 4: the rank rule (tail energy of the chosen size), and the error bound of TT-SVD at the reals. *)
From Coq Require Import List Arith Lia PeanoNat ZArith Bool Ring Reals Lra Psatz.
From TV Require Import Num.Ops Lin.Tab Lin.BigSum Lin.Mat TT.Chain Model.ActOne Model.Transformation
  Model.Svd Proofs.ActOneP Proofs.SvdP Proofs.SvdP2 Proofs.SvdP3.
Import ListNotations.

(* ---------------------------------------------------------------- the rank rule, any commutative ring *)
Section Rank.
Context {T : Type} (K : ops T).
Notation "0" := (o0 K). Notation "1" := (o1 K).
Infix "+" := (oadd K). Infix "*" := (omul K). Infix "-" := (osub K).
Notation bsum := (bsum K).
Hypothesis Rth : rng K.
Add Ring RrSvdP4 : Rth.

Lemma last_le_spec cs e2 : forall pos best, last_le K cs e2 pos best = best \/
  exists j, j < length cs /\ last_le K cs e2 pos best = S (pos + j) /\ oleb K (nth j cs 0) e2 = true.
Proof.
  induction cs as [|x cs IH]; intros pos best; cbn [last_le]; [left; reflexivity|].
  destruct (IH (S pos) (if oleb K x e2 then S pos else best)) as [H | (j & Hj & E & L)].
  - destruct (oleb K x e2) eqn:Ex.
    + right. exists O. cbn [length nth]. repeat split; [lia| rewrite H; f_equal; lia | exact Ex].
    + left. exact H.
  - right. exists (S j). cbn [length nth]. repeat split; [lia | rewrite E; f_equal; lia | exact L].
Qed.
Lemma cumsum_from_length l : forall acc, length (cumsum_from K acc l) = length l.
Proof. induction l as [|x l IH]; intros acc; cbn; [reflexivity|]. now rewrite IH. Qed.
Lemma cumsum_from_nth l : forall acc j, j < length l ->
  nth j (cumsum_from K acc l) 0 = acc + bsum (S j) (fun i => nth i l 0).
Proof.
  induction l as [|x l IH]; intros acc j Hj; cbn [length] in Hj; [lia|]. cbn [cumsum_from].
  destruct j as [|j].
  - cbn. ring.
  - cbn [nth]. rewrite IH by lia. rewrite (bsum_S_l K Rth (S j)). cbn [nth]. ring.
Qed.

(* sum of the entries from position q on *)
Definition tailx (x : list T) (q : nat) : T := bsum (length x - q) (fun k => nth (q + k) x 0).
Lemma cumsum_rev_tail x j : j < length x -> bsum (S j) (fun i => nth i (rev x) 0) = tailx x (length x - S j).
Proof.
  intros Hj. unfold tailx. replace (length x - (length x - S j))%nat with (S j) by lia.
  rewrite (bsum_rev K Rth (S j) (fun k => nth (length x - S j + k) x 0)).
  apply bsum_ext; intros i Hi. rewrite rev_nth by lia. f_equal. lia.
Qed.
Lemma dlen_spec x e2 : dlen K x e2 = O \/
  exists j, j < length x /\ dlen K x e2 = S j /\ oleb K (tailx x (length x - S j)) e2 = true.
Proof.
  unfold dlen. destruct (last_le_spec (cumsum K (rev x)) e2 O O) as [H | (j & Hj & E & L)]; [left; exact H|].
  unfold cumsum in *. rewrite cumsum_from_length, rev_length in Hj. right. exists j. repeat split; auto.
  rewrite cumsum_from_nth in L by (rewrite rev_length; exact Hj). rewrite cumsum_rev_tail in L by exact Hj.
  replace (0 + tailx x (length x - S j)) with (tailx x (length x - S j)) in L by ring. exact L.
Qed.
Lemma tailx_sq s q : tailx (map (fun x => x * x) s) q = tail K s q.
Proof.
  unfold tailx, tail. rewrite map_length. apply bsum_ext; intros k Hk.
  rewrite (nth_indep _ 0 (0 * 0)) by (rewrite map_length; lia).
  pose proof (map_nth (fun x => x * x) s 0 (q + k)) as M. cbv beta in M. exact M.
Qed.
End Rank.

(* ---------------------------------------------------------------- at the reals *)
Local Open Scope R_scope.

(* the instance (own copy, so that this cone does not depend on another property's files) *)
Definition Rleb (a b : R) : bool := if Rle_dec a b then true else false.
Definition Rltb (a b : R) : bool := if Rlt_dec a b then true else false.
Definition Reqb (a b : R) : bool := if Req_EM_T a b then true else false.
Definition OR : ops R :=
  mkops R 0 1 Rplus Rmult Rminus Ropp Rdiv sqrt Rabs Rleb Rltb Reqb IZR (powerRZ 2).
Lemma OR_rng : rng OR. Proof. exact RTheory. Qed.
Lemma Rleb_true a b : Rleb a b = true <-> a <= b.
Proof. unfold Rleb. destruct (Rle_dec a b); split; auto; discriminate. Qed.
Lemma Rleb_false a b : Rleb a b = false <-> b < a.
Proof. unfold Rleb. destruct (Rle_dec a b); split; try discriminate; auto; lra. Qed.

Lemma bsumR_nonneg n f : (forall i, (i < n)%nat -> 0 <= f i) -> 0 <= bsum OR n f.
Proof. induction n as [|n IH]; intros H; cbn; [lra|]. specialize (IH ltac:(intros; apply H; lia)). specialize (H n ltac:(lia)). lra. Qed.
Lemma bsumR_term_le n f i : (forall i, (i < n)%nat -> 0 <= f i) -> (i < n)%nat -> f i <= bsum OR n f.
Proof.
  induction n as [|n IH]; intros H Hi; [lia|]. cbn [bsum OR oadd].
  pose proof (bsumR_nonneg n f ltac:(intros; apply H; lia)) as P. pose proof (H n ltac:(lia)) as Pn.
  destruct (Nat.eq_dec i n) as [->|Hne]; [lra|]. specialize (IH ltac:(intros; apply H; lia) ltac:(lia)). lra.
Qed.
Lemma msumR_nonneg ns : forall f, (forall idx, inb ns idx -> 0 <= f idx) -> 0 <= msum OR ns f.
Proof.
  induction ns as [|n ns IH]; intros f H; cbn [msum].
  - apply H. constructor.
  - apply bsumR_nonneg. intros i Hi. apply IH. intros idx Hidx. apply H. constructor; auto.
Qed.
Lemma msumR_zero ns : forall f, (forall idx, inb ns idx -> 0 <= f idx) -> msum OR ns f <= 0 ->
  forall idx, inb ns idx -> f idx = 0.
Proof.
  induction ns as [|n ns IH]; intros f H Hs idx Hidx; inversion Hidx; subst; cbn [msum] in Hs.
  - specialize (H [] Hidx). lra.
  - apply (IH (fun idx => f (x :: idx))); auto.
    + intros idx' Hi'. apply H. constructor; auto.
    + pose proof (bsumR_term_le n (fun i => msum OR ns (fun idx => f (i :: idx))) x) as P.
      cbv beta in P. refine (Rle_trans _ _ _ (P _ _) Hs); auto.
      intros i Hi. apply msumR_nonneg. intros idx' Hi'. apply H. constructor; auto.
Qed.

(* tail energy of the size chosen by the rank rule, when the cap does not bind *)
Definition cap_free_at (x : list R) (e2 : R) (rcap : Z) : Prop :=
  (Z.of_nat (length x) - Z.of_nat (dlen OR x e2) <= rcap)%Z.
Lemma rank_select_tail x e2 rcap : (1 <= length x)%nat -> Forall (fun v => 0 <= v) x -> 0 <= e2 ->
  cap_free_at x e2 rcap -> tailx OR x (rank_select OR x e2 rcap) <= e2.
Proof.
  intros Hl Hx He Hc. unfold cap_free_at in Hc.
  assert (Hn : forall i, 0 <= nth i x 0).
  { intros i. destruct (Nat.lt_ge_cases i (length x)) as [H|H].
    - rewrite Forall_forall in Hx. apply Hx. now apply nth_In.
    - rewrite nth_overflow by lia. lra. }
  destruct (dlen_spec OR OR_rng x e2) as [Hd | (j & Hj & Hd & L)].
  - assert (E : rank_select OR x e2 rcap = length x) by (unfold rank_select; rewrite Hd in *; lia).
    rewrite E. unfold tailx. rewrite Nat.sub_diag. cbn. exact He.
  - apply Rleb_true in L. destruct (Nat.eq_dec (length x) (S j)) as [El|Hne].
    + assert (E : rank_select OR x e2 rcap = 1%nat) by (unfold rank_select; rewrite Hd in *; lia).
      rewrite E. rewrite El, Nat.sub_diag in L. refine (Rle_trans _ _ _ _ L).
      assert (X : tailx OR x 0 = nth 0 x 0 + tailx OR x 1).
      { unfold tailx. rewrite El. replace (S j - 0)%nat with (S j) by lia. replace (S j - 1)%nat with j by lia.
        rewrite (bsum_S_l OR OR_rng j). reflexivity. }
      rewrite X. pose proof (Hn O). lra.
    + assert (E : rank_select OR x e2 rcap = (length x - S j)%nat) by (unfold rank_select; rewrite Hd in *; lia).
      rewrite E. exact L.
Qed.

Section ErrorR.
Variable svdo : nat -> mat R -> mat R * list R * mat R.
Variables (e : R) (rcap : Z).

(* the rank cap does not bind at any step of the run *)
Definition cap_free := sweep_fold OR svdo e rcap
  (fun _ _ s _ rest => cap_free_at (map (fun x => x * x) s) (e * e) rcap /\ rest) True.

Lemma step_tail s : (1 <= length s)%nat -> cap_free_at (map (fun x => x * x) s) (e * e) rcap ->
  tail OR s (sel_rank OR s e rcap) <= e * e.
Proof.
  intros Hl Hc. rewrite <- (tailx_sq OR). unfold sel_rank.
  apply (rank_select_tail (map (fun x : R => omul OR x x) s) (omul OR e e) rcap).
  - now rewrite map_length.
  - apply Forall_forall. intros v Hv. apply in_map_iff in Hv as (y & <- & _). cbn. nra.
  - cbn. nra.
  - exact Hc.
Qed.

Lemma tails_bound : forall ns k0 Zm q, calls_ok OR svdo e rcap k0 Zm q ns -> cap_free k0 Zm q ns ->
  0 <= tails OR svdo e rcap k0 Zm q ns <= INR (length ns - 1) * (e * e).
Proof.
  induction ns as [|k ns IH]; intros k0 Zm q Hok Hcf.
  - cbn. lra.
  - destruct ns as [|k' ns]; [cbn; lra|].
    destruct (svdo k0 (step_mat OR Zm q k)) as [[U s] V] eqn:E.
    unfold calls_ok in Hok. rewrite (sweep_fold_cons OR svdo e rcap _ _ _ _ _ _ _ _ _ _ _ E) in Hok.
    unfold cap_free in Hcf. rewrite (sweep_fold_cons OR svdo e rcap _ _ _ _ _ _ _ _ _ _ _ E) in Hcf.
    unfold tails. rewrite (sweep_fold_cons OR svdo e rcap _ _ _ _ _ _ _ _ _ _ _ E).
    destruct Hok as [HA Hok]. destruct Hcf as [Hc Hcf].
    specialize (IH (S k0) _ _ Hok Hcf). unfold tails in IH.
    pose proof (step_tail s ltac:(destruct HA as (L & _); exact L) Hc) as B.
    assert (P : 0 <= tail OR s (sel_rank OR s e rcap)).
    { unfold tail. apply bsumR_nonneg. intros i Hi. cbn. nra. }
    replace (length (k :: k' :: ns) - 1)%nat with (S (length (k' :: ns) - 1)) by (cbn; lia).
    rewrite S_INR. cbn [OR oadd] in *. nra.
Qed.

(* svd_error, squared form, for every shape with positive mode sizes *)
Theorem svd_error_sq ns data : ns <> [] -> Forall (fun n => (0 < n)%nat) ns ->
  calls_ok OR svdo e rcap 0 (mkmat 1 (prodn ns) (fun _ j => nth j data 0)) 1 ns ->
  cap_free 0 (mkmat 1 (prodn ns) (fun _ j => nth j data 0)) 1 ns ->
  msum OR ns (fun idx => (nth (cpos ns idx 0) data 0 - get OR (svd OR svdo ns data e rcap) idx) *
                         (nth (cpos ns idx 0) data 0 - get OR (svd OR svdo ns data e rcap) idx))
  = tails OR svdo e rcap 0 (mkmat 1 (prodn ns) (fun _ j => nth j data 0)) 1 ns /\
  tails OR svdo e rcap 0 (mkmat 1 (prodn ns) (fun _ j => nth j data 0)) 1 ns <= INR (length ns - 1) * (e * e).
Proof.
  intros Hne Hpos Hok Hcf. split; [|now apply tails_bound].
  set (Zm := mkmat 1 (prodn ns) (fun _ j => nth j data 0)) in *.
  rewrite <- (loop_err OR OR_rng svdo e rcap ns 0%nat Zm 1%nat Hne Hpos ltac:(lia) eq_refl eq_refl Hok).
  unfold err2, svd. fold (prodn ns). fold Zm. cbn [bsum]. cbn [OR oadd o0]. rewrite Rplus_0_l.
  apply msum_ext; auto. intros idx Hidx. destruct (cpos_acc ns idx 0%nat Hidx) as [_ P].
  assert (X : mget OR Zm 0 (cpos ns idx 0) - dget OR (svd_loop OR svdo 0 Zm 1 ns e rcap) idx 1 0 0 =
              nth (cpos ns idx 0) data 0 - get OR (svd_loop OR svdo 0 Zm 1 ns e rcap) idx).
  { unfold Zm at 1. rewrite mget_mk by (auto; lia). reflexivity. }
  cbn [OR omul osub] in *. rewrite X. reflexivity.
Qed.

(* svd_error: the Frobenius error itself *)
Theorem svd_error ns data : ns <> [] -> Forall (fun n => (0 < n)%nat) ns -> 0 <= e ->
  calls_ok OR svdo e rcap 0 (mkmat 1 (prodn ns) (fun _ j => nth j data 0)) 1 ns ->
  cap_free 0 (mkmat 1 (prodn ns) (fun _ j => nth j data 0)) 1 ns ->
  sqrt (msum OR ns (fun idx => (nth (cpos ns idx 0) data 0 - get OR (svd OR svdo ns data e rcap) idx) *
                               (nth (cpos ns idx 0) data 0 - get OR (svd OR svdo ns data e rcap) idx)))
  <= e * sqrt (INR (length ns - 1)).
Proof.
  intros Hne Hpos He Hok Hcf. destruct (svd_error_sq ns data Hne Hpos Hok Hcf) as [E B]. rewrite E.
  refine (Rle_trans _ _ _ (sqrt_le_1_alt _ _ B) _).
  rewrite sqrt_mult_alt by apply pos_INR. rewrite sqrt_square by exact He. right. ring.
Qed.

(* svd_exact: if nothing of non-zero energy is discarded, every entry is reproduced exactly *)
Theorem svd_exact ns data : ns <> [] -> Forall (fun n => (0 < n)%nat) ns ->
  calls_ok OR svdo e rcap 0 (mkmat 1 (prodn ns) (fun _ j => nth j data 0)) 1 ns ->
  tails OR svdo e rcap 0 (mkmat 1 (prodn ns) (fun _ j => nth j data 0)) 1 ns = 0 ->
  forall idx, inb ns idx -> get OR (svd OR svdo ns data e rcap) idx = nth (cpos ns idx 0) data 0.
Proof.
  intros Hne Hpos Hok Ht idx Hidx.
  set (Zm := mkmat 1 (prodn ns) (fun _ j => nth j data 0)) in *.
  pose proof (loop_err OR OR_rng svdo e rcap ns 0%nat Zm 1%nat Hne Hpos ltac:(lia) eq_refl eq_refl Hok) as L.
  rewrite Ht in L. unfold err2 in L. cbn [bsum] in L. cbn [OR oadd o0] in L. rewrite Rplus_0_l in L.
  match type of L with msum OR ns ?f = 0 => pose proof (msumR_zero ns f) as Z end. cbv beta in Z.
  specialize (Z ltac:(intros; exact (Rle_0_sqr _)) ltac:(rewrite L; lra) idx Hidx).
  destruct (cpos_acc ns idx 0%nat Hidx) as [_ P].
  assert (X1 : mget OR Zm 0 (cpos ns idx 0) = nth (cpos ns idx 0) data 0)
    by (unfold Zm; rewrite mget_mk by (auto; lia); reflexivity).
  assert (X2 : dget OR (svd_loop OR svdo 0 Zm 1 ns e rcap) idx 1 0 0 = get OR (svd OR svdo ns data e rcap) idx)
    by reflexivity.
  rewrite X1, X2 in Z. cbn [OR omul osub] in Z. pose proof (Rsqr_0_uniq _ Z) as Z'. lra.
Qed.
(* e = 0 and no binding cap: nothing of non-zero energy is discarded *)
Lemma tails_zero ns k0 Zm q : e = 0 -> calls_ok OR svdo e rcap k0 Zm q ns -> cap_free k0 Zm q ns ->
  tails OR svdo e rcap k0 Zm q ns = 0.
Proof. intros He Hok Hcf. pose proof (tails_bound ns k0 Zm q Hok Hcf) as B.
  assert (X : INR (length ns - 1) * (e * e) = 0) by (rewrite He; ring). lra. Qed.

(* a cap that is at least the number of entries never binds *)
Lemma cap_free_all : forall ns k0 Zm q, Forall (fun n => (0 < n)%nat) ns -> (0 < q)%nat -> mr Zm = q ->
  mc Zm = prodn ns -> calls_ok OR svdo e rcap k0 Zm q ns -> (Z.of_nat (prodn ns) <= rcap)%Z -> cap_free k0 Zm q ns.
Proof.
  induction ns as [|k ns IH]; intros k0 Zm q Hpos Hq HmrZ HmcZ Hok Hr; [exact I|].
  pose proof (Forall_inv Hpos) as Hk. pose proof (Forall_inv_tail Hpos) as Hpos'. cbv beta in Hk.
  destruct ns as [|k' ns]; [exact I|].
  assert (HN : (0 < prodn (k' :: ns))%nat) by now apply prodn_pos.
  assert (Hle : (prodn (k' :: ns) <= prodn (k :: k' :: ns))%nat).
  { change (prodn (k :: k' :: ns)) with (k * prodn (k' :: ns))%nat. nia. }
  destruct (step_mat_dims OR Zm q k (prodn (k' :: ns)) HmrZ HmcZ Hq Hk) as [HmrA HmcA].
  destruct (svdo k0 (step_mat OR Zm q k)) as [[U s] V] eqn:E.
  unfold calls_ok in Hok. rewrite (sweep_fold_cons OR svdo e rcap _ _ _ _ _ _ _ _ _ _ _ E) in Hok.
  destruct Hok as [HA Hok].
  unfold cap_free. rewrite (sweep_fold_cons OR svdo e rcap _ _ _ _ _ _ _ _ _ _ _ E). split.
  - unfold cap_free_at. rewrite map_length. destruct HA as (_ & _ & _ & _ & _ & _ & _ & _ & Ls).
    rewrite HmcA in Ls. lia.
  - assert (Hq' : (1 <= sel_rank OR s e rcap <= length s)%nat).
    { destruct HA as (L & _). pose proof (sel_rank_bounds OR s e rcap) as B. lia. }
    destruct (skel_dims OR _ U s V _ HA Hq') as (_ & _ & D3 & D4).
    apply IH; auto; try lia. unfold next_Z. rewrite D4. exact HmcA.
Qed.

(* the reading "for every routine meeting the contract": default cap (at least the number of entries) *)
Theorem svd_error_contract ns data : ns <> [] -> Forall (fun n => (0 < n)%nat) ns -> 0 <= e ->
  (forall k A, (0 < mr A)%nat -> (0 < mc A)%nat -> let '(U, s, V) := svdo k A in svd_ok OR A U s V) ->
  (Z.of_nat (prodn ns) <= rcap)%Z ->
  sqrt (msum OR ns (fun idx => (nth (cpos ns idx 0) data 0 - get OR (svd OR svdo ns data e rcap) idx) *
                               (nth (cpos ns idx 0) data 0 - get OR (svd OR svdo ns data e rcap) idx)))
  <= e * sqrt (INR (length ns - 1)).
Proof.
  intros Hne Hpos He Hall Hr.
  assert (Hok : calls_ok OR svdo e rcap 0 (mkmat 1 (prodn ns) (fun _ j => nth j data 0)) 1 ns).
  { apply calls_ok_all; auto. }
  apply svd_error; auto. apply cap_free_all; auto.
Qed.
End ErrorR.

(* ---------------------------------------------------------------- non-vacuity: a concrete run meeting the hypotheses *)
Definition exU : mat R := mk_mat 2 2 [[3/5; -4/5]; [4/5; 3/5]].
Definition exV : mat R := mk_mat 2 2 [[1; 0]; [0; 1]].
Definition exs : list R := [2; 1].
Definition ex_data : list R := [6/5; -4/5; 8/5; 3/5].
Definition ex_svdo (k : nat) (A : mat R) : mat R * list R * mat R := (exU, exs, exV).
Lemma svd_error_hyps_example :
  calls_ok OR ex_svdo (1/2) 10 0 (mkmat 1 (prodn [2; 2]%nat) (fun _ j => nth j ex_data 0)) 1 [2; 2]%nat /\
  cap_free ex_svdo (1/2) 10 0 (mkmat 1 (prodn [2; 2]%nat) (fun _ j => nth j ex_data 0)) 1 [2; 2]%nat.
Proof.
  split.
  - unfold calls_ok. rewrite (sweep_fold_cons OR ex_svdo _ _ _ _ _ _ _ _ _ _ exU exs exV eq_refl). split; [|exact I].
    unfold svd_ok. cbn [length exs]. repeat split; try (cbn; lia).
    + intros i j Hi Hj. cbn in Hi, Hj. destruct i as [|[|i]]; destruct j as [|[|j]]; try lia; cbn; field.
    + intros c c' Hc Hc'. destruct c as [|[|c]]; destruct c' as [|[|c']]; try lia; cbn; field.
    + intros c c' Hc Hc'. destruct c as [|[|c]]; destruct c' as [|[|c']]; try lia; cbn; field.
  - unfold cap_free. rewrite (sweep_fold_cons OR ex_svdo _ _ _ _ _ _ _ _ _ _ exU exs exV eq_refl). split; [|exact I].
    unfold cap_free_at. rewrite map_length. cbn [length exs]. lia.
Qed.
