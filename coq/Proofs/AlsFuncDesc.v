(* C07, part 8: als_func: the functional TT is linear in one whole core with the row the code forms; the objective
   as a function of one core is the ridge objective the code solves; at R: descent and per-core optimality. *)
From Coq Require Import List Arith Lia Ring PeanoNat Bool Permutation Reals Lra.
From TV Require Import Num.Ops Lin.Tab Lin.BigSum Lin.Solve TT.Chain Model.Als Model.AlsFunc
  Proofs.AlsLin Proofs.AlsSim Proofs.AlsTop Proofs.AlsDesc Proofs.AlsFuncP Proofs.AlsFuncSim.
Import ListNotations.

Section FLin.
Context {T : Type} (K : ops T).
Notation "0" := (o0 K). Notation "1" := (o1 K).
Infix "+" := (oadd K). Infix "*" := (omul K). Infix "-" := (osub K).
Hypothesis Rth : rng K.
Add Ring RrAlsFuncDesc : Rth.

(* a core as a vector, in the order of the code's reshape: ((a*n + i)*r2 + b) *)
Definition cvec (X : core T) : list T :=
  tab (cr1 X * cn X * cr2 X) (fun c => cget K X (c / cr2 X / cn X) ((c / cr2 X) mod cn X) (c mod cr2 X)).

Lemma idx3 a i b n r2 : i < n -> b < r2 ->
  ((a * n + i) * r2 + b) mod r2 = b /\ (((a * n + i) * r2 + b) / r2) mod n = i /\ ((a * n + i) * r2 + b) / r2 / n = a.
Proof.
  intros Hi Hb. destruct (divmod_lin (a * n + i) b r2 Hb) as [E1 E2].
  destruct (divmod_lin a i n Hi) as [E3 E4]. rewrite E2, E1, E3, E4. auto.
Qed.
Lemma idx3_lt a i b r1 n r2 : a < r1 -> i < n -> b < r2 -> (a * n + i) * r2 + b < r1 * n * r2.
Proof.
  intros Ha Hi Hb. assert (H1 : a * n + i < r1 * n) by nia.
  assert (H2 : (a * n + i) * r2 + r2 <= r1 * n * r2) by (replace ((a * n + i) * r2 + r2)%nat with ((S (a * n + i)) * r2)%nat by ring; apply Nat.mul_le_mono_r; lia).
  lia.
Qed.
Lemma idx3_inv c n r2 : 0 < n -> 0 < r2 -> ((c / r2 / n * n + (c / r2) mod n) * r2 + c mod r2)%nat = c.
Proof.
  intros Hn H2. pose proof (Nat.div_mod c r2 ltac:(lia)) as E1. pose proof (Nat.div_mod (c / r2) n ltac:(lia)) as E2.
  remember (c / r2) as q. remember (c mod r2) as m. remember (q / n) as a. remember (q mod n) as i.
  rewrite E1, E2. ring.
Qed.
Lemma bsum_prod3 r1 n r2 (f : nat -> T) :
  bsum K (r1 * n * r2) f = bsum K r1 (fun a => bsum K n (fun i => bsum K r2 (fun b => f ((a * n + i) * r2 + b)%nat))).
Proof. rewrite bsum_prod by auto. rewrite bsum_prod by auto. reflexivity. Qed.

Lemma frobc_cvec X : frobc K X = dot K (cr1 X * cn X * cr2 X) (cvec X) (cvec X).
Proof.
  unfold frobc, dot. rewrite bsum_prod3 by auto. apply bsum_ext; intros a Ha. apply bsum_ext; intros i Hi.
  apply bsum_ext; intros b Hb. unfold cvec. rewrite nth_tab by (now apply idx3_lt).
  destruct (idx3 a i b (cn X) (cr2 X) Hi Hb) as (-> & -> & ->). reflexivity.
Qed.
Lemma cvec_put_core Q x c : c < cr1 Q * cn Q * cr2 Q -> nth c (cvec (put_core K Q x)) 0 = nth c x 0.
Proof.
  intros Hc. unfold cvec, put_core. cbn [cr1 cn cr2 mkcore]. rewrite nth_tab by auto.
  assert (H2 : 0 < cr2 Q) by (destruct (cr2 Q); lia). assert (Hn : 0 < cn Q) by (destruct (cn Q); lia).
  assert (Hq : c / cr2 Q < cr1 Q * cn Q) by (apply Nat.div_lt_upper_bound; lia).
  rewrite cget_mk.
  - f_equal. now apply idx3_inv.
  - apply Nat.div_lt_upper_bound; lia.
  - apply Nat.mod_upper_bound; lia.
  - apply Nat.mod_upper_bound; lia.
Qed.

(* the slice-row of the effective one-slice core against the code's row for the whole core *)
Lemma kron_hcore X l h r :
  dot K (cr1 X * cr2 X) (kron_row K (cr1 X) (cr2 X) l r) (svec K (hcore K X h) O)
  = dot K (cr1 X * cn X * cr2 X) (frow K (cr1 X) (cn X) (cr2 X) l h r) (cvec X).
Proof.
  unfold dot. rewrite bsum_prod3, bsum_prod by auto. apply bsum_ext; intros a Ha.
  transitivity (bsum K (cr2 X) (fun b => bsum K (cn X) (fun i => nth b r 0 * nth a l 0 * nth i h 0 * cget K X a i b))).
  - apply bsum_ext; intros b Hb. assert (Hab : a * cr2 X + b < cr1 X * cr2 X) by nia.
    unfold kron_row, svec. change (cr1 (hcore K X h)) with (cr1 X). change (cr2 (hcore K X h)) with (cr2 X).
    rewrite !nth_tab by auto.
    destruct (divmod_lin a b (cr2 X) Hb) as [-> ->].
    unfold hcore. rewrite cget_mk by (auto; lia). rewrite <- bsum_mul_l by auto. apply bsum_ext; intros i Hi. ring.
  - rewrite bsum_swap by auto. apply bsum_ext; intros i Hi. apply bsum_ext; intros b Hb.
    assert (Hc : (a * cn X + i) * cr2 X + b < cr1 X * cn X * cr2 X) by (now apply idx3_lt).
    unfold frow, cvec. rewrite !nth_tab by auto.
    destruct (idx3 a i b (cn X) (cr2 X) Hi Hb) as (-> & -> & ->). reflexivity.
Qed.

Lemma hchain_wfo (Y : list (core T)) : forall r rl hs, chain r Y rl -> length hs = length Y ->
  wfo r (hchain K Y hs) (repeat O (length Y)) rl.
Proof.
  induction Y as [|G Y IH]; intros r rl [|h hs] C L; cbn [length] in L; try discriminate.
  - exact C.
  - destruct C as [C1 C2]. change (hchain K (G :: Y) (h :: hs)) with (hcore K G h :: hchain K Y hs).
    cbn [length repeat wfo]. split; [exact C1|]. split; [cbn; lia|].
    change (cr2 (hcore K G h)) with (cr2 G). apply IH; auto.
Qed.

(* fget is linear in core k, with the row the code forms *)
Lemma fget_lin Y hs k X : k < length Y -> chain 1 Y 1 -> length hs = length Y -> dims X = dims (nth k Y dcore) ->
  fget K (upd k X Y) hs
  = dot K (cr1 X * cn X * cr2 X) (frow K (cr1 X) (cn X) (cr2 X) (flvec K Y hs k) (nth k hs []) (frvec K Y hs k)) (cvec X).
Proof.
  intros Hk C L D. apply dims_eq in D. destruct D as (D1 & D2 & D3).
  unfold fget. rewrite hchain_upd, upd_length.
  set (Cn := hchain K Y hs). set (z := repeat O (length Y)).
  assert (LC : length Cn = length Y) by (apply hchain_length; auto).
  assert (W : wfo 1%nat Cn z 1%nat) by (apply hchain_wfo; auto).
  destruct (wfo_split Cn _ _ _ k W ltac:(lia)) as (L1 & W1 & I1 & W2).
  assert (EN : nth k Cn dcore = hcore K (nth k Y dcore) (nth k hs [])) by (apply nth_hchain; auto).
  rewrite EN in W1, W2. cbn [cr1 cr2 hcore mkcore] in W1, W2.
  rewrite (upd_split k _ Cn) by lia.
  rewrite (split_nth k z O) by (unfold z; rewrite repeat_length; lia).
  unfold z at 2. rewrite nth_repeat_O.
  rewrite (get_slice K Rth).
  - change (cr1 (hcore K X (nth k hs []))) with (cr1 X). change (cr2 (hcore K X (nth k hs []))) with (cr2 X).
    rewrite kron_hcore. reflexivity.
  - exact L1.
  - change (cr1 (hcore K X (nth k hs []))) with (cr1 X). rewrite D1. exact W1.
  - change (cn (hcore K X (nth k hs []))) with 1%nat. lia.
  - change (cr2 (hcore K X (nth k hs []))) with (cr2 X). rewrite D3. exact W2.
Qed.

(* the objective as a function of core k = the ridge objective the code solves + a term without core k *)
Lemma fJ_decomp lamb H y Y k X : k < length Y -> chain 1 Y 1 -> Hwf H (length Y) (length y) ->
  dims X = dims (nth k Y dcore) ->
  fJobj K lamb H y (upd k X Y)
  = Jrows K (cr1 X * cn X * cr2 X) lamb (frows K (cr1 X) (cn X) (cr2 X) (fzref K H y Y k)) (cvec X) + Jrest K lamb Y k.
Proof.
  intros Hk C W D. unfold fJobj, Jrows, Jrest. rewrite (upd_split k X Y Hk).
  rewrite map_app, lsum_app by auto. cbn [map lsum]. rewrite <- (upd_split k X Y Hk).
  rewrite (frobc_cvec X).
  assert (E : lsum K (map (fun s => sq K (fget K (upd k X Y) (hrows H s) - nth s y 0)) (seq 0 (length y)))
            = lsum K (map (fun row => rw row * sq K (dot K (cr1 X * cn X * cr2 X) (ra row) (cvec X) - ry row))
                          (frows K (cr1 X) (cn X) (cr2 X) (fzref K H y Y k)))).
  { unfold frows, fzref. rewrite !map_map. apply lsum_map_ext. intros s _.
    unfold frow_of, rw, ry, ra. cbn [fst snd].
    rewrite (fget_lin Y (hrows H s) k X Hk C) by (rewrite ?hrows_length; destruct W; auto).
    rewrite nth_hrows. ring. }
  rewrite E. ring.
Qed.
End FLin.

(* ------------------------------------------------------------------ order, at R *)
Local Open Scope R_scope.
Section FDescR.
Variable solve : list (list R) -> list R -> list R.
Hypothesis solve_ok : spd_solver solve.
Variable lamb : R.
Hypothesis Hlamb : 0 < lamb.

Lemma frows_W r1 n r2 Z : Wrows (frows ORa r1 n r2 Z).
Proof.
  intros row Hr. unfold frows in Hr. apply in_map_iff in Hr. destruct Hr as (z & <- & _).
  unfold frow_of, rw. cbn. lra.
Qed.

Lemma ref_fstep_eq y H Y k :
  ref_fstep ORa solve lamb y H Y k = upd k (fopt_coreZ ORa solve lamb (nth k Y dcore) (fzref ORa H y Y k)) Y.
Proof. reflexivity. Qed.

(* core_optimal': the updated core minimises the objective over ALL cores of that shape, the other cores fixed *)
Lemma ref_fstep_optimal y H Y k X : (k < length Y)%nat -> chain 1%nat Y 1%nat -> Hwf H (length Y) (length y) ->
  dims X = dims (nth k Y dcore) ->
  fJobj ORa lamb H y (ref_fstep ORa solve lamb y H Y k) <= fJobj ORa lamb H y (upd k X Y).
Proof.
  intros Hk C W D. rewrite ref_fstep_eq.
  set (Q := nth k Y dcore) in *. set (Z := fzref ORa H y Y k).
  rewrite (fJ_decomp ORa ORa_rng lamb H y Y k _ Hk C W (eq_refl : dims (fopt_coreZ ORa solve lamb Q Z) = dims Q)).
  rewrite (fJ_decomp ORa ORa_rng lamb H y Y k X Hk C W D).
  apply dims_eq in D. destruct D as (D1 & D2 & D3). rewrite D1, D2, D3.
  change (cr1 (fopt_coreZ ORa solve lamb Q Z)) with (cr1 Q). change (cn (fopt_coreZ ORa solve lamb Q Z)) with (cn Q).
  change (cr2 (fopt_coreZ ORa solve lamb Q Z)) with (cr2 Q).
  set (p := (cr1 Q * cn Q * cr2 Q)%nat). set (rows := frows ORa (cr1 Q) (cn Q) (cr2 Q) Z).
  assert (L : Jrows ORa p lamb rows (cvec ORa (fopt_coreZ ORa solve lamb Q Z)) <= Jrows ORa p lamb rows (cvec ORa X)).
  { unfold fopt_coreZ, fopt_sol. fold rows. fold p.
    rewrite (Jrows_ext ORa p lamb rows _ (lstsq ORa solve p lamb rows)) by (intros a Ha; now apply cvec_put_core).
    apply (ridge_min lamb Hlamb); [apply frows_W|]. apply (lstsq_solves solve solve_ok lamb Hlamb). apply frows_W. }
  apply (Rplus_le_compat_r (Jrest ORa lamb Y k)) in L. exact L.
Qed.
(* descends', one core update *)
Lemma ref_fstep_descent y H Y k : (k < length Y)%nat -> chain 1%nat Y 1%nat -> Hwf H (length Y) (length y) ->
  fJobj ORa lamb H y (ref_fstep ORa solve lamb y H Y k) <= fJobj ORa lamb H y Y.
Proof.
  intros Hk C W.
  replace (fJobj ORa lamb H y Y) with (fJobj ORa lamb H y (upd k (nth k Y dcore) Y)) by now rewrite upd_nth_same.
  now apply ref_fstep_optimal.
Qed.

Lemma ref_ffold_dims y H l Y : map dims (fold_left (ref_fstep ORa solve lamb y H) l Y) = map dims Y.
Proof. revert Y; induction l as [|k l IH]; intros Y; simpl; auto. now rewrite IH, ref_fstep_dims. Qed.
Lemma ref_fsweep_dims y H Y : map dims (ref_fsweep ORa solve lamb y H Y) = map dims Y.
Proof. unfold ref_fsweep. now rewrite !ref_ffold_dims. Qed.
Lemma iter_ref_fsweep_dims y H Y n : map dims (Nat.iter n (ref_fsweep ORa solve lamb y H) Y) = map dims Y.
Proof.
  induction n as [|n IH]; [reflexivity|].
  change (Nat.iter (S n) (ref_fsweep ORa solve lamb y H) Y) with (ref_fsweep ORa solve lamb y H (Nat.iter n (ref_fsweep ORa solve lamb y H) Y)).
  now rewrite ref_fsweep_dims.
Qed.

Lemma ref_ffold_descent y H l : forall Y, (forall k, In k l -> (k < length Y)%nat) -> chain 1%nat Y 1%nat ->
  Hwf H (length Y) (length y) ->
  fJobj ORa lamb H y (fold_left (ref_fstep ORa solve lamb y H) l Y) <= fJobj ORa lamb H y Y.
Proof.
  induction l as [|k l IH]; intros Y Hl C W; cbn [fold_left]; [apply Rle_refl|].
  assert (D := ref_fstep_dims ORa solve lamb y H Y k).
  eapply Rle_trans; [apply IH | apply ref_fstep_descent]; auto.
  - intros k' Hk'. rewrite (dims_length _ _ D). apply Hl. now right.
  - eapply dims_chain; [symmetry; exact D | exact C].
  - now rewrite (dims_length _ _ D).
  - apply Hl. now left.
Qed.
Lemma ref_fsweep_descent y H Y : chain 1%nat Y 1%nat -> Hwf H (length Y) (length y) ->
  fJobj ORa lamb H y (ref_fsweep ORa solve lamb y H Y) <= fJobj ORa lamb H y Y.
Proof.
  intros C W. unfold ref_fsweep.
  assert (D := ref_ffold_dims y H (seq 0 (length Y - 1)) Y).
  eapply Rle_trans; [apply ref_ffold_descent | apply ref_ffold_descent]; auto.
  - intros k Hk. rewrite <- in_rev in Hk. apply in_seq in Hk. rewrite (dims_length _ _ D). lia.
  - eapply dims_chain; [symmetry; exact D | exact C].
  - now rewrite (dims_length _ _ D).
  - intros k Hk. apply in_seq in Hk. lia.
Qed.

(* descends': the objective after n+1 sweeps of the code is at most the objective after n sweeps *)
Lemma als_func_descent y H A0 n : chain 1%nat A0 1%nat -> Hwf H (length A0) (length y) ->
  fJobj ORa lamb H y (fY (Nat.iter (S n) (fsweep ORa solve lamb y H) (finit_st ORa H y A0)))
  <= fJobj ORa lamb H y (fY (Nat.iter n (fsweep ORa solve lamb y H) (finit_st ORa H y A0))).
Proof.
  intros C W. rewrite !(als_func_cores_ref ORa solve lamb H y A0 _ C W).
  change (Nat.iter (S n) (ref_fsweep ORa solve lamb y H) A0)
    with (ref_fsweep ORa solve lamb y H (Nat.iter n (ref_fsweep ORa solve lamb y H) A0)).
  assert (D := iter_ref_fsweep_dims y H A0 n).
  apply ref_fsweep_descent.
  - eapply dims_chain; [symmetry; exact D | exact C].
  - now rewrite (dims_length _ _ D).
Qed.
(* the core updated last (core 1) of what als_func returns is at the exact minimiser, d >= 2 *)
Lemma als_func_last_core_optimal y H A0 n X : chain 1%nat A0 1%nat -> Hwf H (length A0) (length y) ->
  (2 <= length A0)%nat -> dims X = dims (nth 1 A0 dcore) ->
  let Yn := fY (Nat.iter (S n) (fsweep ORa solve lamb y H) (finit_st ORa H y A0)) in
  fJobj ORa lamb H y Yn <= fJobj ORa lamb H y (upd 1 X Yn).
Proof.
  intros C W Hd D Yn. unfold Yn. rewrite (als_func_cores_ref ORa solve lamb H y A0 _ C W).
  change (Nat.iter (S n) (ref_fsweep ORa solve lamb y H) A0)
    with (ref_fsweep ORa solve lamb y H (Nat.iter n (ref_fsweep ORa solve lamb y H) A0)).
  set (Y' := Nat.iter n (ref_fsweep ORa solve lamb y H) A0).
  assert (D' : map dims Y' = map dims A0) by apply iter_ref_fsweep_dims.
  unfold ref_fsweep. rewrite (dims_length _ _ D').
  destruct (length A0) as [|[|m]] eqn:EL; try lia.
  replace (S (S m) - 1)%nat with (S m) by lia.
  change (seq 1 (S m)) with (1%nat :: seq 2 m). cbn [rev]. rewrite fold_left_snoc.
  set (Y'' := fold_left (ref_fstep ORa solve lamb y H) (rev (seq 2 m)) (fold_left (ref_fstep ORa solve lamb y H) (seq 0 (S m)) Y')).
  assert (D'' : map dims Y'' = map dims A0) by (unfold Y''; now rewrite !ref_ffold_dims).
  rewrite ref_fstep_eq at 2. rewrite upd_upd.
  apply ref_fstep_optimal.
  - rewrite (dims_length _ _ D''). lia.
  - eapply dims_chain; [symmetry; exact D'' | exact C].
  - rewrite (dims_length _ _ D''), EL. exact W.
  - rewrite D. symmetry. apply nth_dims_eq. exact D''.
Qed.
End FDescR.

(* ------------------------------------------------------------------ the hypotheses of the order theorems are satisfiable *)
Definition exY : list (core R) := [mk_core 1 2 1 [[[1]; [1]]]; mk_core 1 2 1 [[[1]; [1]]]].
Definition exS : list (@sample R) := [Smp [0; 0]%nat 1 1; Smp [1; 0]%nat 2 1; Smp [1; 1]%nat 3 1].
Definition exH : list (list (list R)) := [[[1; 0]; [1; 1]; [1; 2]]; [[1; 0]; [1; 1]; [1; 2]]].
Definition exy : list R := [1; 2; 3].
Lemma hyps_example :
  chain 1%nat exY 1%nat /\ Sok exS exY /\ Wok exS /\ covered exS 1 (cn (nth 1 exY dcore)) /\ (2 <= length exY)%nat /\
  Hwf exH (length exY) (length exy).
Proof.
  split; [cbn; auto|]. split.
  { intros sm [<-|[<-|[<-|[]]]]; cbn; repeat split; lia. }
  split.
  { intros sm [<-|[<-|[<-|[]]]]; cbn; lra. }
  split.
  { intros i Hi. cbn in Hi. destruct i as [|[|i]]; [| |lia].
    - exists (Smp [0; 0]%nat 1 1). split; [now left | reflexivity].
    - exists (Smp [1; 1]%nat 3 1). split; [right; right; now left | reflexivity]. }
  split; [cbn; lia|]. split; [reflexivity|].
  intros k Hk. cbn in Hk. destruct k as [|[|k]]; [reflexivity | reflexivity | lia].
Qed.
