(* Lemmas about Model/Tensors.v, part 2: _vector_index_prepare / _vector_index_expand, vector_delta, matrix_delta. *)
From Coq Require Import List Arith Lia PeanoNat ZArith Bool Ring.
From TV Require Import Num.Ops Lin.Tab Lin.BigSum TT.Chain Model.Tensors Proofs.TensorsP.
Import ListNotations.

(* little-endian binary digits of a position: the multi-index of entry j of a QTT vector of length 2^q *)
Definition zbit (j : Z) (k : nat) : nat := if Z.testbit j (Z.of_nat k) then 1 else 0.
Definition zbits (q : nat) (j : Z) : list nat := tab q (zbit j).
(* multi-index of entry (a, b) of a QTT matrix: the pair of digits (c, r) is the mode index 2*c + r
   (C-order position in the (2,2) middle axes of the 4-D core) *)
Definition zbits2 (q : nat) (a b : Z) : list nat := tab q (fun k => 2 * zbit a k + zbit b k).

Lemma zbit_lt j k : zbit j k < 2.
Proof. unfold zbit. destruct (Z.testbit _ _); lia. Qed.
Lemma zbits_length q j : length (zbits q j) = q. Proof. apply tab_length. Qed.
Lemma zbits_inb q j : inb (repeat 2 q) (zbits q j).
Proof.
  unfold inb, zbits. revert j. induction q; intros j; [constructor|].
  rewrite tab_cons. cbn [repeat]. constructor; [apply zbit_lt|].
  rewrite (tab_ext q _ (zbit (j / 2))); [apply IHq|]. intros k Hk. unfold zbit.
  rewrite Nat2Z.inj_succ, <- Z.div2_bits by lia. reflexivity.
Qed.
Lemma zbits2_inb q a b : inb (repeat 4 q) (zbits2 q a b).
Proof.
  unfold inb, zbits2. revert a b. induction q; intros a b; [constructor|].
  rewrite tab_cons. cbn [repeat]. constructor; [pose proof (zbit_lt a O); pose proof (zbit_lt b O); lia|].
  rewrite (tab_ext q _ (fun k => 2 * zbit (a / 2) k + zbit (b / 2) k)); [apply IHq|]. intros k Hk. unfold zbit.
  rewrite !Nat2Z.inj_succ, <- !Z.div2_bits by lia. reflexivity.
Qed.
(* positions below 2^q with the same q digits are equal *)
Lemma zbit_inj q a b : (0 <= a < 2 ^ Z.of_nat q)%Z -> (0 <= b < 2 ^ Z.of_nat q)%Z ->
  (forall k, k < q -> zbit a k = zbit b k) -> a = b.
Proof.
  intros Ha Hb H. apply Z.bits_inj'. intros n Hn.
  destruct (Z.lt_ge_cases n (Z.of_nat q)) as [Hlt|Hge].
  - specialize (H (Z.to_nat n)). unfold zbit in H. rewrite Z2Nat.id in H by lia.
    destruct (Z.testbit a n), (Z.testbit b n); auto; specialize (H ltac:(lia)); discriminate.
  - rewrite <- (Z.mod_small a (2 ^ Z.of_nat q)), <- (Z.mod_small b (2 ^ Z.of_nat q)) by lia.
    rewrite !Z.mod_pow2_bits_high by lia. reflexivity.
Qed.

Lemma combine_map_same {A B C} (f : A -> B) (g : A -> C) l :
  combine (map f l) (map g l) = map (fun x => (f x, g x)) l.
Proof. induction l; simpl; congruence. Qed.

(* ---------- _vector_index_prepare ---------- *)
Lemma prepare_ok q i : (- 2 ^ Z.of_nat q <= i < 2 ^ Z.of_nat q)%Z ->
  vector_index_prepare q i = Ok (i mod 2 ^ Z.of_nat q)%Z.
Proof.
  intros H. unfold vector_index_prepare. cbv zeta.
  destruct (Z.leb_spec (2 ^ Z.of_nat q) i); [lia|]. destruct (Z.ltb_spec i (- 2 ^ Z.of_nat q)); [lia|]. cbn [orb].
  f_equal. destruct (Z.leb_spec 0 i).
  - now rewrite Z.mod_small by lia.
  - apply (Z.mod_unique i (2 ^ Z.of_nat q) (-1)); lia.
Qed.
Lemma prepare_err q i : (i < - 2 ^ Z.of_nat q \/ 2 ^ Z.of_nat q <= i)%Z -> vector_index_prepare q i = Err ValueError.
Proof.
  intros H. unfold vector_index_prepare. cbv zeta.
  destruct (Z.leb_spec (2 ^ Z.of_nat q) i); [reflexivity|]. destruct (Z.ltb_spec i (- 2 ^ Z.of_nat q)); [reflexivity|lia].
Qed.
(* whatever comes out of prepare is a non-negative in-range position: the negative branch of expand is dead *)
Lemma prepare_range q i i' : vector_index_prepare q i = Ok i' -> (0 <= i' < 2 ^ Z.of_nat q)%Z.
Proof.
  unfold vector_index_prepare. cbv zeta.
  destruct (Z.leb_spec (2 ^ Z.of_nat q) i); [discriminate|]. destruct (Z.ltb_spec i (- 2 ^ Z.of_nat q)); [discriminate|].
  cbn [orb]. intros E. injection E as <-. destruct (Z.leb_spec 0 i); lia.
Qed.

(* ---------- _vector_index_expand ---------- *)
(* int(i / 2) is the exact quotient below 2^53 *)
Lemma py_half_exact i : (0 <= i < 2 ^ 53)%Z -> py_half i = (i / 2)%Z.
Proof.
  intros H. unfold py_half. cbv zeta.
  assert (Z.log2 i < 53)%Z.
  { destruct (Z.eq_dec i 0) as [->|]; [simpl; lia|]. apply Z.log2_lt_pow2; lia. }
  destruct (Z.leb_spec (Z.log2 i - 52) 0); [reflexivity|lia].
Qed.
Lemma expand_loop_exact q : forall i, (0 <= i < 2 ^ 53)%Z ->
  expand_loop q i = (zbits q i, (i / 2 ^ Z.of_nat q)%Z).
Proof.
  induction q; intros i H.
  - cbn [expand_loop]. unfold zbits. rewrite tab_0. f_equal. simpl. now rewrite Z.div_1_r.
  - cbn [expand_loop]. rewrite py_half_exact by auto.
    rewrite IHq by (split; [apply Z.div_pos; lia|apply Z.div_lt_upper_bound; lia]).
    unfold zbits. rewrite tab_cons. f_equal.
    + f_equal.
      * unfold zbit. change (Z.of_nat 0) with 0%Z. rewrite <- Z.bit0_mod. destruct (Z.testbit i 0); reflexivity.
      * apply tab_ext. intros k Hk. unfold zbit.
        rewrite Nat2Z.inj_succ, <- Z.div2_bits by lia. reflexivity.
    + rewrite Nat2Z.inj_succ, Z.pow_succ_r by lia. rewrite Z.div_div by lia. reflexivity.
Qed.
Lemma expand_ok q i : q <= 53 -> (0 <= i < 2 ^ Z.of_nat q)%Z -> vector_index_expand q i = Ok (zbits q i).
Proof.
  intros Hq H. unfold vector_index_expand. destruct (Z.ltb_spec i 0); [lia|].
  assert (2 ^ Z.of_nat q <= 2 ^ 53)%Z by (apply Z.pow_le_mono_r; lia).
  rewrite expand_loop_exact by lia. rewrite Z.div_small by lia. reflexivity.
Qed.

Section TensorsQttP.
Context {T : Type} (K : ops T).
Notation "0" := (o0 K). Notation "1" := (o1 K).
Infix "+" := (oadd K). Infix "*" := (omul K). Infix "-" := (osub K).
Hypothesis Rth : rng K.
Add Ring RrTensorsQttP : Rth.

(* a chain of one-hot cores of mode size n whose last core carries v *)
Lemma onehot_last_spec (n : nat) (F : nat -> core T) (ind : list nat) v :
  ind <> [] ->
  (forall b, b < n -> cr1 (F b) = 1%nat /\ cn (F b) = n /\ cr2 (F b) = 1%nat /\
                      forall j, j < n -> cget K (F b) O j O = if j =? b then 1 else 0) ->
  Forall (fun b => b < n) ind ->
  let Y := map_last (fun G => cset K G O (last ind O) O v) (map F ind) in
  shp (repeat n (length ind)) Y /\
  forall k j, k < length ind -> j < n ->
    ent K Y k j = if j =? nth k ind O then (if k =? (length ind - 1)%nat then v else 1) else 0.
Proof.
  intros Hne HF Hind Y.
  assert (HN : forall k, k < length ind -> nth k ind O < n).
  { intros k Hk. rewrite Forall_forall in Hind. apply Hind, nth_In, Hk. }
  assert (HY : forall k, k < length ind -> nth k Y dm =
            if k =? (length ind - 1)%nat then cset K (F (nth k ind O)) O (last ind O) O v else F (nth k ind O)).
  { intros k Hk. unfold Y. rewrite nth_map_last by (now rewrite map_length).
    rewrite map_length. rewrite (nth_map' _ _ O) by auto. reflexivity. }
  assert (HL : last ind O = nth (length ind - 1)%nat ind O).
  { clear - Hne. induction ind as [|a [|b l] IH]; [congruence|reflexivity|].
    change (last (a :: b :: l) O) with (last (b :: l) O). rewrite IH by discriminate.
    cbn [length]. replace (S (S (length l)) - 1)%nat with (S (S (length l) - 1))%nat by lia. reflexivity. }
  split.
  - split. + unfold Y. now rewrite map_last_length, map_length, repeat_length.
    + rewrite repeat_length. intros k Hk. rewrite HY by auto.
      rewrite nth_repeat_lt by auto.
      destruct (HF _ (HN k Hk)) as (A & B & C & _). destruct (k =? _); auto.
  - intros k j Hk Hj. unfold ent. rewrite HY by auto.
    destruct (HF _ (HN k Hk)) as (A & B & C & D).
    destruct (Nat.eqb_spec k (length ind - 1)%nat) as [->|Hne'].
    + rewrite cget_cset by lia. cbn [Nat.eqb andb]. rewrite andb_true_r, HL, D by auto.
      destruct (j =? _); reflexivity.
    + now apply D.
Qed.

Lemma bit_core_spec b : b < 2 ->
  cr1 (bit_core K b) = 1%nat /\ cn (bit_core K b) = 2%nat /\ cr2 (bit_core K b) = 1%nat /\
  forall j, j < 2 -> cget K (bit_core K b) O j O = if j =? b then 1 else 0.
Proof.
  intros Hb. repeat split. intros j Hj. unfold bit_core. rewrite cget_cset by (simpl; lia).
  cbn [Nat.eqb andb]. rewrite andb_true_r. destruct (j =? b); [reflexivity|]. apply cget_cfull; lia.
Qed.

(* ---------- vector_delta ---------- *)
Lemma vector_delta_denote q i v : (1 <= q <= 53)%nat -> (- 2 ^ Z.of_nat q <= i < 2 ^ Z.of_nat q)%Z ->
  exists Y, vector_delta K q i v = Ok Y /\ shp (repeat 2 q) Y /\
    forall j, (0 <= j < 2 ^ Z.of_nat q)%Z ->
      get K Y (zbits q j) = if (j =? i mod 2 ^ Z.of_nat q)%Z then v else 0.
Proof.
  intros Hq Hi. unfold vector_delta. rewrite prepare_ok by auto. cbn [rbind].
  set (pos := (i mod 2 ^ Z.of_nat q)%Z).
  assert (Hpos : (0 <= pos < 2 ^ Z.of_nat q)%Z) by (apply Z.mod_pos_bound; lia).
  rewrite expand_ok by (auto; lia). cbn [rbind].
  assert (Hne : zbits q pos <> []).
  { intros E. apply (f_equal (@length nat)) in E. rewrite zbits_length in E. simpl in E. lia. }
  destruct (zbits q pos) as [|b0 l0] eqn:EZ; [congruence|]. rewrite <- EZ in *. clear b0 l0 EZ.
  destruct (onehot_last_spec 2 (bit_core K) (zbits q pos) v Hne bit_core_spec) as (HS & HE).
  { apply Forall_forall. intros b Hb. apply in_tab in Hb as (k & _ & ->). apply zbit_lt. }
  rewrite zbits_length in *.
  eexists; split; [reflexivity|]. split; [exact HS|]. intros j Hj.
  set (Y := map_last _ _) in *.
  assert (HE' : forall k t, k < length (repeat 2 q) -> t < nth k (repeat 2 q) O ->
            ent K Y k t = if t =? zbit pos k then (if k =? (q - 1)%nat then v else 1) else 0).
  { intros k t Hk Ht. rewrite repeat_length in Hk. rewrite nth_repeat_lt in Ht by auto.
    rewrite HE by auto. unfold zbits. now rewrite nth_tab. }
  destruct (Z.eqb_spec j pos) as [->|Hne'].
  - rewrite (onehot_hit K Rth _ _ _ _ _ HS (zbits_inb q pos) HE').
    + rewrite repeat_length. apply bprod_last_only; auto. lia.
    + rewrite repeat_length. intros k Hk. unfold zbits. now rewrite nth_tab.
  - destruct (all_or_ex (fun k => zbit j k = zbit pos k) (fun k => zbit j k <> zbit pos k) q) as [A|(k & Hk & A)].
    + intros k _. destruct (Nat.eq_dec (zbit j k) (zbit pos k)); auto.
    + exfalso. apply Hne'. eapply zbit_inj; eauto.
    + apply (onehot_miss K Rth _ _ _ _ _ k HS (zbits_inb q j) HE'); [now rewrite repeat_length|].
      unfold zbits. now rewrite nth_tab.
Qed.
Lemma vector_delta_out_of_range q i v : (i < - 2 ^ Z.of_nat q \/ 2 ^ Z.of_nat q <= i)%Z ->
  vector_delta K q i v = Err ValueError.
Proof. intros H. unfold vector_delta. now rewrite prepare_err. Qed.

(* ---------- matrix_delta ---------- *)
Lemma bit2_core_spec m : m < 4 ->
  cr1 (cset K (cfull 1%nat 4%nat 1%nat 0) O m O 1) = 1%nat /\ cn (cset K (cfull 1%nat 4%nat 1%nat 0) O m O 1) = 4%nat /\
  cr2 (cset K (cfull 1%nat 4%nat 1%nat 0) O m O 1) = 1%nat /\
  forall j, j < 4 -> cget K (cset K (cfull 1%nat 4%nat 1%nat 0) O m O 1) O j O = if j =? m then 1 else 0.
Proof.
  intros Hb. repeat split. intros j Hj. rewrite cget_cset by (simpl; lia).
  cbn [Nat.eqb andb]. rewrite andb_true_r. destruct (j =? m); [reflexivity|]. apply cget_cfull; lia.
Qed.
Lemma matrix_delta_denote q i j v : (1 <= q <= 53)%nat ->
  (- 2 ^ Z.of_nat q <= i < 2 ^ Z.of_nat q)%Z -> (- 2 ^ Z.of_nat q <= j < 2 ^ Z.of_nat q)%Z ->
  exists Y, matrix_delta K q i j v = Ok Y /\ shp (repeat 4 q) Y /\
    forall a b, (0 <= a < 2 ^ Z.of_nat q)%Z -> (0 <= b < 2 ^ Z.of_nat q)%Z ->
      get K Y (zbits2 q a b) = if ((a =? i mod 2 ^ Z.of_nat q) && (b =? j mod 2 ^ Z.of_nat q))%Z then v else 0.
Proof.
  intros Hq Hi Hj. unfold matrix_delta. rewrite !prepare_ok by auto. cbn [rbind].
  set (pi := (i mod 2 ^ Z.of_nat q)%Z). set (pj := (j mod 2 ^ Z.of_nat q)%Z).
  assert (Hpi : (0 <= pi < 2 ^ Z.of_nat q)%Z) by (apply Z.mod_pos_bound; lia).
  assert (Hpj : (0 <= pj < 2 ^ Z.of_nat q)%Z) by (apply Z.mod_pos_bound; lia).
  rewrite !expand_ok by (auto; lia). cbn [rbind].
  (* the list of mode indices 2*c + r *)
  assert (EM : map (fun cr => bit2_core K (fst cr) (snd cr)) (combine (zbits q pi) (zbits q pj)) =
               map (fun m => cset K (cfull 1%nat 4%nat 1%nat 0) O m O 1) (zbits2 q pi pj)).
  { unfold zbits, zbits2, tab. rewrite combine_map_same, !map_map. reflexivity. }
  assert (EL : (2 * last (zbits q pi) O + last (zbits q pj) O)%nat = last (zbits2 q pi pj) O).
  { destruct q as [|q']; [lia|]. unfold zbits, zbits2. rewrite !tab_S, !last_last. reflexivity. }
  assert (Hne : zbits2 q pi pj <> []).
  { intros E. apply (f_equal (@length nat)) in E. unfold zbits2 in E. rewrite tab_length in E. simpl in E. lia. }
  destruct (zbits q pi) as [|b0 l0] eqn:EZ.
  { apply (f_equal (@length nat)) in EZ. rewrite zbits_length in EZ. simpl in EZ. lia. }
  rewrite <- EZ in *. clear b0 l0 EZ. rewrite EM, EL.
  destruct (onehot_last_spec 4 (fun m => cset K (cfull 1%nat 4%nat 1%nat 0) O m O 1) (zbits2 q pi pj) v Hne bit2_core_spec) as (HS & HE).
  { apply Forall_forall. intros m Hm. apply in_tab in Hm as (k & _ & ->).
    pose proof (zbit_lt pi k); pose proof (zbit_lt pj k); lia. }
  assert (HLen : length (zbits2 q pi pj) = q) by apply tab_length. rewrite HLen in *.
  eexists; split; [reflexivity|]. split; [exact HS|]. intros a b Ha Hb.
  set (Y := map_last _ _) in *.
  assert (HE' : forall k t, k < length (repeat 4 q) -> t < nth k (repeat 4 q) O ->
            ent K Y k t = if t =? (2 * zbit pi k + zbit pj k)%nat then (if k =? (q - 1)%nat then v else 1) else 0).
  { intros k t Hk Ht. rewrite repeat_length in Hk. rewrite nth_repeat_lt in Ht by auto.
    rewrite HE by auto. unfold zbits2. now rewrite nth_tab. }
  destruct (Z.eqb_spec a pi) as [->|Hna]; [destruct (Z.eqb_spec b pj) as [->|Hnb]|]; cbn [andb].
  - rewrite (onehot_hit K Rth _ _ _ _ _ HS (zbits2_inb q pi pj) HE').
    + rewrite repeat_length. apply bprod_last_only; auto. lia.
    + rewrite repeat_length. intros k Hk. unfold zbits2. now rewrite nth_tab.
  - destruct (all_or_ex (fun k => zbit b k = zbit pj k) (fun k => zbit b k <> zbit pj k) q) as [A|(k & Hk & A)].
    + intros k _. destruct (Nat.eq_dec (zbit b k) (zbit pj k)); auto.
    + exfalso. apply Hnb. eapply zbit_inj; eauto.
    + apply (onehot_miss K Rth _ _ _ _ _ k HS (zbits2_inb q pi b) HE'); [now rewrite repeat_length|].
      unfold zbits2. rewrite nth_tab by auto. lia.
  - destruct (all_or_ex (fun k => zbit a k = zbit pi k) (fun k => zbit a k <> zbit pi k) q) as [A|(k & Hk & A)].
    + intros k _. destruct (Nat.eq_dec (zbit a k) (zbit pi k)); auto.
    + exfalso. apply Hna. eapply zbit_inj; eauto.
    + apply (onehot_miss K Rth _ _ _ _ _ k HS (zbits2_inb q a b) HE'); [now rewrite repeat_length|].
      unfold zbits2. rewrite nth_tab by auto.
      pose proof (zbit_lt a k); pose proof (zbit_lt pi k); pose proof (zbit_lt b k); pose proof (zbit_lt pj k). lia.
Qed.
Lemma matrix_delta_out_of_range q i j v :
  (i < - 2 ^ Z.of_nat q \/ 2 ^ Z.of_nat q <= i \/ j < - 2 ^ Z.of_nat q \/ 2 ^ Z.of_nat q <= j)%Z ->
  matrix_delta K q i j v = Err ValueError.
Proof.
  intros H. unfold matrix_delta.
  destruct (Z.lt_ge_cases i (- 2 ^ Z.of_nat q)); [now rewrite prepare_err by lia|].
  destruct (Z.lt_ge_cases i (2 ^ Z.of_nat q)); [|now rewrite prepare_err by lia].
  rewrite (prepare_ok q i) by lia. cbn [rbind]. now rewrite prepare_err by lia.
Qed.
End TensorsQttP.
