(* Lemmas about Model/Tensors.v, part 4: rand_custom / rand / rand_norm layout, rand_stab. *)
From Coq Require Import List Arith Lia PeanoNat ZArith Bool Ring.
From TV Require Import Num.Ops Lin.Tab Lin.BigSum TT.Chain Model.Tensors Proofs.TensorsP.
Import ListNotations.

(* ---------- carrier independent: sums of sizes, slices ---------- *)
Fixpoint nsum (k : nat) (f : nat -> nat) : nat := match k with O => O | S k' => nsum k' f + f k' end.
Lemma nsum_ext k f g : (forall j, j < k -> f j = g j) -> nsum k f = nsum k g.
Proof. induction k; simpl; intros H; auto. rewrite IHk, H; auto. Qed.
Lemma nsum_S_l k f : nsum (S k) f = f O + nsum k (fun j => f (S j)).
Proof. induction k; [simpl; lia|]. change (nsum (S (S k)) f) with (nsum (S k) f + f (S k)). rewrite IHk. simpl. lia. Qed.
Lemma nsum_le k d f : k <= d -> nsum k f <= nsum d f.
Proof. induction 1; simpl; lia. Qed.
Lemma cumsum_nth l : forall acc k, k <= length l ->
  nth k (cumsum_from acc l) O = acc + nsum k (fun j => nth j l O).
Proof.
  induction l as [|x l IH]; intros acc k Hk.
  - simpl in Hk. replace k with O by lia. simpl. lia.
  - destruct k as [|k]; [simpl; lia|]. cbn [cumsum_from nth]. rewrite IH by (simpl in Hk; lia).
    rewrite nsum_S_l. cbn [nth]. lia.
Qed.
Lemma nth_skipn {A} (l : list A) n i d : nth i (skipn n l) d = nth (n + i) l d.
Proof. revert l; induction n; intros [|x l]; simpl; auto. destruct i; reflexivity. Qed.
Lemma nth_firstn {A} (l : list A) n i d : i < n -> nth i (firstn n l) d = nth i l d.
Proof. revert l i; induction n; intros [|x l] [|i] H; simpl; auto; try lia. apply IHn. lia. Qed.
Lemma slice_length {A} (l : list A) lo hi : hi <= length l -> length (slice l lo hi) = hi - lo.
Proof. intros H. unfold slice. rewrite firstn_length, skipn_length. lia. Qed.
Lemma nth_slice {A} (l : list A) lo hi t d : t < hi - lo -> nth t (slice l lo hi) d = nth (lo + t) l d.
Proof. intros H. unfold slice. rewrite nth_firstn by auto. apply nth_skipn. Qed.
Lemma fortran_pos_lt a i b r n r' : a < r -> i < n -> b < r' -> a + r * (i + n * b) < r * n * r'.
Proof.
  intros Ha Hi Hb. assert (i + n * b + 1 <= n * r') by nia.
  assert (r * (i + n * b + 1) <= r * (n * r')) by (apply Nat.mul_le_mono_l; auto). nia.
Qed.
Lemma sequenceR_tab {A} d : forall (F : nat -> result A) (G : nat -> A),
  (forall k, k < d -> F k = Ok (G k)) -> sequenceR (tab d F) = Ok (tab d G).
Proof.
  induction d; intros F G H; [reflexivity|]. rewrite !tab_cons. cbn [sequenceR]. rewrite H by lia. cbn [rbind].
  rewrite (IHd _ (fun k => G (S k))) by (intros; apply H; lia). reflexivity.
Qed.
(* scalar rank argument *)
Lemma rank_profile_scalar d x : 1 <= d ->
  length (rank_profile d (inl x)) = S d /\ nth O (rank_profile d (inl x)) O = 1 /\
  nth d (rank_profile d (inl x)) O = 1 /\ forall k, 1 <= k < d -> nth k (rank_profile d (inl x)) O = x.
Proof.
  intros Hd. cbn [rank_profile]. repeat split.
  - cbn [length]. rewrite app_length, repeat_length. simpl. lia.
  - destruct d; [lia|]. cbn [nth]. rewrite app_nth2; rewrite repeat_length; [|lia].
    replace (d - (S d - 1)) with O by lia. reflexivity.
  - intros k Hk. destruct k; [lia|]. cbn [nth]. rewrite app_nth1 by (rewrite repeat_length; lia).
    apply nth_repeat_lt. lia.
Qed.

Section TensorsRandP.
Context {T : Type} (K : ops T).
Notation "0" := (o0 K). Notation "1" := (o1 K).
Infix "+" := (oadd K). Infix "*" := (omul K). Infix "-" := (osub K).

(* chains given core by core *)
Lemma wfo_nth (Y : list (core T)) : forall (rs : nat -> nat) idx, length idx = length Y ->
  (forall k, k < length Y -> cr1 (nth k Y dm) = rs k /\ cr2 (nth k Y dm) = rs (S k) /\ nth k idx O < cn (nth k Y dm)) ->
  wfo (rs O) Y idx (rs (length Y)).
Proof.
  induction Y as [|G Y IH]; intros rs [|i idx] HL H; simpl in HL; try discriminate; [reflexivity|].
  cbn [wfo length]. destruct (H O) as (A & B & C); [simpl; lia|]. cbn [nth] in A, B, C.
  repeat split; auto. rewrite B. apply (IH (fun k => rs (S k))); [lia|].
  intros k Hk. apply (H (S k)). simpl. lia.
Qed.

(* ---------- rand_custom ---------- *)
Section Layout.
Variable ns : list nat.
Variable r : nat + list nat.
Variable f : nat -> list T.
Local Notation d := (length ns).
Local Notation rs := (rank_profile d r).
Definition csize (k : nat) : nat := (nth k ns O * nth k rs O * nth (S k) rs O)%nat.
Definition coff (k : nat) : nat := nsum k csize.
Hypothesis Hf : length (f (coff d)) = coff d.       (* generator contract: f(size) returns size values *)

Lemma rand_custom_eq :
  rand_custom K ns r f = Ok (tab d (fun k =>
    mkcore (nth k rs O) (nth k ns O) (nth (S k) rs O)
      (fun a i b => nth (a + nth k rs O * (i + nth k ns O * b))%nat (slice (f (coff d)) (coff k) (coff (S k))) 0))).
Proof.
  unfold rand_custom. cbv zeta.
  assert (HP : forall k, k <= d -> (nth k (cumsum_from 1%nat (tab d csize)) O - 1)%nat = coff k).
  { intros k Hk. rewrite cumsum_nth by (now rewrite tab_length). unfold coff.
    rewrite (nsum_ext k _ csize) by (intros; apply nth_tab; lia). lia. }
  fold csize. change (tab d (fun k => csize k)) with (tab d csize).
  apply sequenceR_tab. intros k Hk. rewrite !HP by lia. unfold reshape_F.
  assert (coff (S k) <= coff d) by (apply nsum_le; lia).
  rewrite slice_length by lia. change (coff (S k)) with (coff k + csize k)%nat.
  replace (coff k + csize k - coff k)%nat with (csize k) by lia.
  unfold csize at 1. replace (nth k rs O * nth k ns O * nth (S k) rs O)%nat with (nth k ns O * nth k rs O * nth (S k) rs O)%nat by lia.
  now rewrite Nat.eqb_refl.
Qed.

(* the layout: core_k[a, i, b] = flat[off_k + a + r_k (i + n_k b)] *)
Lemma rand_custom_layout : exists Y, rand_custom K ns r f = Ok Y /\ length Y = d /\
  forall k, k < d ->
    cr1 (nth k Y dm) = nth k rs O /\ cn (nth k Y dm) = nth k ns O /\ cr2 (nth k Y dm) = nth (S k) rs O /\
    forall a i b, a < nth k rs O -> i < nth k ns O -> b < nth (S k) rs O ->
      (coff k + a + nth k rs O * (i + nth k ns O * b) < coff d)%nat /\
      cget K (nth k Y dm) a i b = nth (coff k + a + nth k rs O * (i + nth k ns O * b))%nat (f (coff d)) 0.
Proof.
  rewrite rand_custom_eq. eexists; split; [reflexivity|]. split; [apply tab_length|].
  intros k Hk. rewrite nth_tab by auto. repeat split.
  - pose proof (fortran_pos_lt a i b _ _ _ H H0 H1).
    assert (coff (S k) <= coff d) by (apply nsum_le; lia). change (coff (S k)) with (coff k + csize k)%nat in *.
    unfold csize in *. nia.
  - rewrite cget_mk by auto. rewrite nth_slice.
    + f_equal. lia.
    + pose proof (fortran_pos_lt a i b _ _ _ H H0 H1). change (coff (S k)) with (coff k + csize k)%nat. unfold csize. nia.
Qed.
End Layout.

(* consequences: well-formed, requested shape and rank profile, every entry is a drawn value *)
Lemma rand_custom_wf ns r f idx : length (f (coff ns r (length ns))) = coff ns r (length ns) -> inb ns idx ->
  exists Y, rand_custom K ns r f = Ok Y /\
    wfo (nth O (rank_profile (length ns) r) O) Y idx (nth (length ns) (rank_profile (length ns) r) O) /\
    shape Y = ns /\ map (@cr1 T) Y = firstn (length ns) (tab (S (length ns)) (fun k => nth k (rank_profile (length ns) r) O)) /\
    map (@cr2 T) Y = tab (length ns) (fun k => nth (S k) (rank_profile (length ns) r) O).
Proof.
  intros Hf HI. destruct (rand_custom_layout ns r f Hf) as (Y & E & HL & H).
  exists Y. split; [exact E|]. split; [|split; [|split]].
  - rewrite <- HL at 2. apply (wfo_nth Y (fun k => nth k (rank_profile (length ns) r) O)).
    + rewrite HL. apply (inb_length _ _ HI).
    + intros k Hk. rewrite HL in Hk. destruct (H k Hk) as (A & B & C & _). repeat split; auto.
      rewrite B. apply inb_nth; auto.
  - unfold shape. apply (list_eq_nth O); [now rewrite map_length|]. rewrite map_length. intros k Hk.
    rewrite (nth_map' _ _ dm) by auto. apply H. lia.
  - apply (list_eq_nth O).
    + rewrite map_length, firstn_length, tab_length. lia.
    + rewrite map_length. intros k Hk. rewrite (nth_map' _ _ dm) by auto. rewrite nth_firstn by lia.
      rewrite nth_tab by lia. apply H. lia.
  - apply (list_eq_nth O); [now rewrite map_length, tab_length|]. rewrite map_length. intros k Hk.
    rewrite (nth_map' _ _ dm) by auto. rewrite nth_tab by lia. apply H. lia.
Qed.
Lemma rand_custom_entries ns r f (P : T -> Prop) :
  length (f (coff ns r (length ns))) = coff ns r (length ns) -> Forall P (f (coff ns r (length ns))) ->
  exists Y, rand_custom K ns r f = Ok Y /\
    forall k a i b, k < length ns -> a < cr1 (nth k Y dm) -> i < cn (nth k Y dm) -> b < cr2 (nth k Y dm) ->
      P (cget K (nth k Y dm) a i b).
Proof.
  intros Hf HP. destruct (rand_custom_layout ns r f Hf) as (Y & E & HL & H).
  exists Y. split; [exact E|]. intros k a i b Hk Ha Hi Hb. destruct (H k Hk) as (A & B & C & D).
  rewrite A in Ha. rewrite B in Hi. rewrite C in Hb. destruct (D a i b Ha Hi Hb) as (Hlt & ->).
  rewrite Forall_forall in HP. apply HP, nth_In. now rewrite Hf.
Qed.

(* rand / rand_norm: the range / distribution of the entries is the generator's *)
Lemma rand_entries ns r a b uniform (P : T -> Prop) : let N := coff ns r (length ns) in
  length (uniform a b N) = N -> Forall P (uniform a b N) ->
  exists Y, rand K ns r a b uniform = Ok Y /\
    forall k x i y, k < length ns -> x < cr1 (nth k Y dm) -> i < cn (nth k Y dm) -> y < cr2 (nth k Y dm) ->
      P (cget K (nth k Y dm) x i y).
Proof. exact (rand_custom_entries ns r (fun size => uniform a b size) P). Qed.
Lemma rand_norm_entries ns r m s normal (P : T -> Prop) : let N := coff ns r (length ns) in
  length (normal m s N) = N -> Forall P (normal m s N) ->
  exists Y, rand_norm K ns r m s normal = Ok Y /\
    forall k x i y, k < length ns -> x < cr1 (nth k Y dm) -> i < cn (nth k Y dm) -> y < cr2 (nth k Y dm) ->
      P (cget K (nth k Y dm) x i y).
Proof. exact (rand_custom_entries ns r (fun size => normal m s size) P). Qed.

(* ---------- rand_stab ---------- *)
Hypothesis Rth : rng K.
Add Ring RrTensorsRandP : Rth.

Lemma rand_stab_cores ns r noise normal : let d := length ns in let rs := rank_profile d r in
  length (rand_stab K ns r noise normal) = d /\
  forall k, k < d ->
    let G := nth k (rand_stab K ns r noise normal) dm in
    cr1 G = nth k rs O /\ cn G = nth k ns O /\ cr2 G = nth (S k) rs O /\
    forall a p b, a < nth k rs O -> p < nth k ns O -> b < nth (S k) rs O ->
      cget K G a p b = normal k 0 noise (nth k rs O, nth k ns O, nth (S k) rs O) a p b + eye K a b.
Proof.
  intros d rs. unfold rand_stab. cbv zeta. split; [apply tab_length|]. intros k Hk.
  rewrite nth_tab by auto. repeat split. intros a p b Ha Hp Hb. now rewrite cget_mk.
Qed.

(* a chain of rectangular identities maps the first unit vector to the first unit vector *)
Lemma run_eye (Y : list (core T)) : forall r idx rl, wfo r Y idx rl -> (1 <= r)%nat ->
  Forall (fun G => (1 <= cr2 G)%nat /\
                   forall a i b, a < cr1 G -> i < cn G -> b < cr2 G -> cget K G a i b = eye K a b) Y ->
  run K (evec K r O) Y idx = evec K rl O.
Proof.
  induction Y as [|G Y IH]; intros r [|i idx] rl HW Hr HF; simpl in HW; try tauto.
  - now subst.
  - destruct HW as (A & B & C). inversion HF as [|? ? (H1 & HG) HF']; subst. cbn [run].
    replace (vstep K (evec K (cr1 G) O) G i) with (evec K (cr2 G) O); [apply IH; auto|].
    unfold vstep, evec. apply tab_ext. intros b Hb.
    rewrite (bsum_single K Rth (cr1 G) O);
      [|lia|intros a Ha Hne; rewrite nth_tab by auto; destruct (Nat.eqb_spec a O); [contradiction|ring]].
    rewrite nth_tab by lia. rewrite HG by (auto; lia). unfold eye. cbn [Nat.eqb].
    destruct b; cbn [Nat.eqb]; ring.
Qed.
(* with zero noise the stable random tensor is all ones, in any dimension *)
Lemma rand_stab_ones ns r noise normal idx : let d := length ns in let rs := rank_profile d r in
  (forall k a p b, normal k 0 noise (nth k rs O, nth k ns O, nth (S k) rs O) a p b = 0) ->
  nth O rs O = 1%nat -> nth d rs O = 1%nat -> (forall k, k <= d -> (1 <= nth k rs O)%nat) -> inb ns idx ->
  wf 1%nat (rand_stab K ns r noise normal) idx /\ get K (rand_stab K ns r noise normal) idx = 1.
Proof.
  intros d rs Hz H0 Hd Hpos HI.
  destruct (rand_stab_cores ns r noise normal) as (HL & HC). fold d rs in HL, HC.
  set (Y := rand_stab K ns r noise normal) in *.
  assert (HW : wfo 1%nat Y idx 1%nat).
  { rewrite <- H0 at 1. rewrite <- Hd. rewrite <- HL. apply (wfo_nth Y (fun k => nth k rs O)).
    - rewrite HL. apply (inb_length _ _ HI).
    - intros k Hk. rewrite HL in Hk. destruct (HC k Hk) as (A & B & C & _). repeat split; auto.
      rewrite B. apply inb_nth; auto. }
  split; [now apply wf_wfo|].
  unfold get. change [1] with (evec K 1%nat O). rewrite (run_eye Y 1%nat idx 1%nat HW); [reflexivity|lia|].
  apply Forall_forall. intros G HG. apply (In_nth _ _ dm) in HG as (k & Hk & <-). rewrite HL in Hk.
  destruct (HC k Hk) as (A & B & C & D). split.
  - rewrite C. apply Hpos. lia.
  - intros a i b Ha Hi Hb. rewrite D by lia. rewrite Hz. ring.
Qed.
(* the same under the generator contract normal(0, s) = s * standard normal *)
Lemma rand_stab_zero_noise ns r noise normal g idx : let d := length ns in let rs := rank_profile d r in
  (forall k sz a p b, normal k 0 noise sz a p b = noise * g k sz a p b) -> noise = 0 ->
  nth O rs O = 1%nat -> nth d rs O = 1%nat -> (forall k, k <= d -> (1 <= nth k rs O)%nat) -> inb ns idx ->
  wf 1%nat (rand_stab K ns r noise normal) idx /\ get K (rand_stab K ns r noise normal) idx = 1.
Proof.
  intros d rs Hg Hn. apply rand_stab_ones. intros k a p b. rewrite Hg, Hn. ring.
Qed.
End TensorsRandP.
