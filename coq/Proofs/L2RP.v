(* Cauchy-Schwarz and the triangle (Minkowski) inequality for finite sums at the reals, stated once for an abstract
   positive linear functional [S] on functions I -> R that only looks at its argument on a domain [P];
   instances: bsum over i < n, msum over in-range multi-indices, iterated sums (products of functionals);
   the Frobenius norm of a contraction  sum_c X[p, c] T[c, q]  is <= |X|_F |T|_F. *)
From Coq Require Import List Arith Lia PeanoNat Reals Lra.
From TV Require Import Num.Ops Lin.Tab Lin.BigSum TT.Chain Proofs.StabRP Proofs.TruncP2.
Import ListNotations.
Local Open Scope R_scope.

Record posfun {I : Type} (P : I -> Prop) (S : (I -> R) -> R) : Prop := {
  pf_add : forall f g, S (fun i => f i + g i) = S f + S g;
  pf_scal : forall c f, S (fun i => c * f i) = c * S f;
  pf_mono : forall f g, (forall i, P i -> f i <= g i) -> S f <= S g }.

Section PosFun.
Context {I : Type} (P : I -> Prop) (S : (I -> R) -> R).
Hypothesis HS : posfun P S.

Lemma pf_ext f g : (forall i, P i -> f i = g i) -> S f = S g.
Proof. intros H. apply Rle_antisym; apply (pf_mono P S HS); intros i Hi; rewrite (H i Hi); lra. Qed.
Lemma pf_zero : S (fun _ => 0) = 0.
Proof.
  rewrite (pf_ext (fun _ => 0) (fun i => 0 * 0)) by (intros; ring). rewrite (pf_scal P S HS 0 (fun _ => 0)). ring.
Qed.
Lemma pf_nonneg f : (forall i, P i -> 0 <= f i) -> 0 <= S f.
Proof. intros H. rewrite <- pf_zero. apply (pf_mono P S HS). exact H. Qed.
Lemma pf_sq_nonneg u : 0 <= S (fun i => u i * u i).
Proof. apply pf_nonneg. intros i _. exact (Rle_0_sqr (u i)). Qed.
(* S commutes with finite sums *)
Lemma pf_bsum r (F : nat -> I -> R) : S (fun i => bsum OR r (fun c => F c i)) = bsum OR r (fun c => S (fun i => F c i)).
Proof.
  induction r as [|r IH]; cbn [bsum].
  - exact pf_zero.
  - change (S (fun i => bsum OR r (fun c => F c i) + F r i) = bsum OR r (fun c => S (fun i => F c i)) + S (fun i => F r i)).
    rewrite (pf_add P S HS). now rewrite IH.
Qed.

Lemma pf_cauchy u v :
  S (fun i => u i * v i) * S (fun i => u i * v i) <= S (fun i => u i * u i) * S (fun i => v i * v i).
Proof.
  set (A := S (fun i => u i * u i)). set (B := S (fun i => v i * v i)). set (C := S (fun i => u i * v i)).
  assert (HQ : forall t, 0 <= A + 2 * t * C + t * t * B).
  { intros t. replace (A + 2 * t * C + t * t * B) with (S (fun i => (u i + t * v i) * (u i + t * v i))).
    - apply pf_nonneg. intros i _. exact (Rle_0_sqr (u i + t * v i)).
    - rewrite (pf_ext _ (fun i => u i * u i + ((2 * t) * (u i * v i) + (t * t) * (v i * v i)))) by (intros; ring).
      rewrite (pf_add P S HS), (pf_add P S HS), (pf_scal P S HS), (pf_scal P S HS). unfold A, B, C. ring. }
  assert (HB : 0 <= B) by apply pf_sq_nonneg.
  destruct (Req_dec B 0) as [EB|NB].
  - assert (EC : C = 0).
    { destruct (Req_dec C 0) as [E|NC]; [exact E|exfalso].
      specialize (HQ (- (A + 1) / (2 * C))). rewrite EB in HQ.
      assert (X : 2 * (- (A + 1) / (2 * C)) * C = - (A + 1)) by (field; exact NC). lra. }
    rewrite EC, EB. lra.
  - specialize (HQ (- C / B)).
    assert (X : A + 2 * (- C / B) * C + (- C / B) * (- C / B) * B = A - C * C / B) by (field; exact NB).
    rewrite X in HQ. assert (Y : C * C / B * B = C * C) by (field; exact NB). nra.
Qed.

Lemma pf_minkowski u v :
  sqrt (S (fun i => (u i + v i) * (u i + v i))) <= sqrt (S (fun i => u i * u i)) + sqrt (S (fun i => v i * v i)).
Proof.
  set (A := S (fun i => u i * u i)). set (B := S (fun i => v i * v i)). set (C := S (fun i => u i * v i)).
  assert (HA : 0 <= A) by apply pf_sq_nonneg. assert (HB : 0 <= B) by apply pf_sq_nonneg.
  pose proof (pf_cauchy u v) as CS. fold A B C in CS.
  assert (E : S (fun i => (u i + v i) * (u i + v i)) = A + 2 * C + B).
  { rewrite (pf_ext _ (fun i => u i * u i + (2 * (u i * v i) + v i * v i))) by (intros; ring).
    rewrite (pf_add P S HS), (pf_add P S HS), (pf_scal P S HS). unfold A, B, C. ring. }
  rewrite E. set (a := sqrt A). set (b := sqrt B).
  assert (Ha : 0 <= a) by apply sqrt_pos. assert (Hb : 0 <= b) by apply sqrt_pos.
  assert (Ea : a * a = A) by (apply sqrt_sqrt; exact HA). assert (Eb : b * b = B) by (apply sqrt_sqrt; exact HB).
  assert (HC : C <= a * b).
  { destruct (Rle_lt_dec C (a * b)) as [H|H]; [exact H|exfalso].
    assert (0 <= a * b) by nra. assert (a * b * (a * b) < C * C) by nra.
    assert (a * b * (a * b) = A * B) by (rewrite <- Ea, <- Eb; ring). lra. }
  rewrite <- (sqrt_square (a + b)) by lra. apply sqrt_le_1_alt. nra.
Qed.
End PosFun.

(* ---------- instances ---------- *)
Lemma posfun_bsum n : posfun (fun i => (i < n)%nat) (fun f => bsum OR n f).
Proof.
  split.
  - intros f g. exact (bsum_add OR OR_rng n f g).
  - intros c f. exact (bsum_mul_l OR OR_rng n c f).
  - intros f g H. apply bsumR_le. exact H.
Qed.
Lemma msumR_le_inb ns : forall f g, (forall idx, inb ns idx -> f idx <= g idx) -> msum OR ns f <= msum OR ns g.
Proof.
  induction ns as [|n ns IH]; intros f g H; cbn [msum].
  - apply H. constructor.
  - apply bsumR_le. intros i Hi. apply IH. intros idx Hidx. apply H. constructor; auto.
Qed.
Lemma posfun_msum ns : posfun (inb ns) (fun f => msum OR ns f).
Proof.
  split.
  - intros f g. exact (msum_add OR OR_rng ns f g).
  - intros c f. exact (msum_mul_l OR OR_rng ns c f).
  - intros f g H. apply msumR_le_inb. exact H.
Qed.
Lemma posfun_prod {I J} (Pp : I -> Prop) Sp (Pq : J -> Prop) Sq : posfun Pp Sp -> posfun Pq Sq ->
  posfun (fun pq => Pp (fst pq) /\ Pq (snd pq)) (fun f => Sp (fun p => Sq (fun q => f (p, q)))).
Proof.
  intros Hp Hq. split.
  - intros f g. rewrite <- (pf_add Pp Sp Hp). apply (pf_ext Pp Sp Hp). intros p _. apply (pf_add Pq Sq Hq).
  - intros c f. rewrite <- (pf_scal Pp Sp Hp). apply (pf_ext Pp Sp Hp). intros p _. apply (pf_scal Pq Sq Hq).
  - intros f g H. apply (pf_mono Pp Sp Hp). intros p Hpp. apply (pf_mono Pq Sq Hq). intros q Hqq. apply H. split; assumption.
Qed.

(* ---------- the Frobenius norm of a contraction over a bond of size r ---------- *)
Lemma pf_contract {I J} (Pp : I -> Prop) Sp (Pq : J -> Prop) Sq (r : nat) (X : I -> nat -> R) (T : nat -> J -> R) :
  posfun Pp Sp -> posfun Pq Sq ->
  Sp (fun p => Sq (fun q => bsum OR r (fun c => X p c * T c q) * bsum OR r (fun c => X p c * T c q))) <=
  Sp (fun p => bsum OR r (fun c => X p c * X p c)) * bsum OR r (fun c => Sq (fun q => T c q * T c q)).
Proof.
  intros Hp Hq. set (N := bsum OR r (fun c => Sq (fun q => T c q * T c q))).
  apply Rle_trans with (Sp (fun p => N * bsum OR r (fun c => X p c * X p c))).
  - apply (pf_mono Pp Sp Hp). intros p _.
    apply Rle_trans with (Sq (fun q => bsum OR r (fun c => X p c * X p c) * bsum OR r (fun c => T c q * T c q))).
    + apply (pf_mono Pq Sq Hq). intros q _.
      exact (pf_cauchy _ _ (posfun_bsum r) (fun c => X p c) (fun c => T c q)).
    + rewrite (pf_scal Pq Sq Hq). rewrite (pf_bsum Pq Sq Hq r (fun c q => T c q * T c q)). fold N. lra.
  - rewrite (pf_scal Pp Sp Hp). lra.
Qed.

Lemma sqrt_mult_le a b x y : 0 <= a -> 0 <= b -> sqrt a <= x -> sqrt b <= y -> sqrt (a * b) <= x * y.
Proof.
  intros Ha Hb Hx Hy. rewrite sqrt_mult by assumption.
  pose proof (sqrt_pos a). pose proof (sqrt_pos b). nra.
Qed.
