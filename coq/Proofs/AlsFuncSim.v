(* C07, part 7: als_func: interface invariant, als_func = reference semantics without interface state, restart.
   Reference semantics: for sample s the functional TT is the chain [hchain Y (hrows H s)] of one-slice cores
   sum_i H[k][s,i] * Y[k][:, i, :]; interface vectors are its partial products. *)
From Coq Require Import List Arith Lia Ring PeanoNat Bool Permutation.
From TV Require Import Num.Ops Lin.Tab Lin.BigSum Lin.Solve TT.Chain Model.Als Model.AlsFunc
  Proofs.AlsLin Proofs.AlsSim Proofs.AlsTop Proofs.AlsFuncP.
Import ListNotations.

Lemma map_upd {A B} (f : A -> B) k x (l : list A) : map f (upd k x l) = upd k (f x) (map f l).
Proof. revert k; induction l as [|y l IH]; intros [|k]; simpl; auto. f_equal. apply IH. Qed.
Lemma nth_repeat_O k d : nth k (repeat O d) O = O.
Proof. revert k; induction d as [|d IH]; intros [|k]; simpl; auto. Qed.
Lemma combine3_map {A B C D E} (f : A -> B) (g : A -> C) (h : A -> D) (i : A -> E) (l : list A) :
  combine (map f l) (combine (map g l) (combine (map h l) (map i l))) = map (fun x => (f x, (g x, (h x, i x)))) l.
Proof. rewrite !combine_map_map. reflexivity. Qed.
Lemma map_nth_seq {A} (l : list A) d : map (fun s => nth s l d) (seq 0 (length l)) = l.
Proof. apply (tab_nth d l). Qed.

Section FSim.
Context {T : Type} (K : ops T).
Notation "0" := (o0 K). Notation "1" := (o1 K).
Variable solve : list (list T) -> list T -> list T.
Variable lamb : T.

(* ------------------------------------------------------------------ reference semantics *)
Definition flvec (Y : list (core T)) (hs : list (list T)) (k : nat) : list T := lvec K (hchain K Y hs) k (repeat O (length Y)).
Definition frvec (Y : list (core T)) (hs : list (list T)) (k : nat) : list T := rvec K (hchain K Y hs) k (repeat O (length Y)).
Definition fzref (H : list (list (list T))) (y : list T) (Y : list (core T)) (k : nat) : list (@fzipped T) :=
  map (fun s => (nth s y 0, (flvec Y (hrows H s) k, (frvec Y (hrows H s) k, nth s (nth k H []) []))))
      (seq 0 (length y)).
Definition ref_fstep (y : list T) (H : list (list (list T))) (Y : list (core T)) (k : nat) : list (core T) :=
  upd k (fopt_coreZ K solve lamb (nth k Y dcore) (fzref H y Y k)) Y.
Definition ref_fsweep (y : list T) (H : list (list (list T))) (Y : list (core T)) : list (core T) :=
  let d := length Y in
  fold_left (ref_fstep y H) (rev (seq 1 (d - 1))) (fold_left (ref_fstep y H) (seq 0 (d - 1)) Y).

(* the basis data is rectangular: d matrices with m rows *)
Definition Hwf (H : list (list (list T))) (d m : nat) : Prop := length H = d /\ forall k, k < d -> length (nth k H []) = m.

Lemma hchain_upd k G Y : forall hs, hchain K (upd k G Y) hs = upd k (hcore K G (nth k hs [])) (hchain K Y hs).
Proof.
  unfold hchain. revert k; induction Y as [|G0 Y IH]; intros k hs.
  - destruct k; reflexivity.
  - destruct hs as [|h hs]; [destruct k; reflexivity|]. destruct k as [|k]; cbn [upd combine map nth]; [reflexivity|].
    f_equal. apply IH.
Qed.
Lemma hchain_length Y hs : length hs = length Y -> length (hchain K Y hs) = length Y.
Proof. intros E. unfold hchain. rewrite map_length, combine_length. lia. Qed.
Lemma nth_hchain Y hs k : k < length Y -> length hs = length Y ->
  nth k (hchain K Y hs) dcore = hcore K (nth k Y dcore) (nth k hs []).
Proof.
  intros Hk E. unfold hchain.
  rewrite (nth_map_lt (fun Gh => hcore K (fst Gh) (snd Gh)) (combine Y hs) k (dcore, []) dcore)
    by (rewrite combine_length; lia).
  rewrite combine_nth by auto. reflexivity.
Qed.
Lemma hrows_length (H : list (list (list T))) s : length (hrows H s) = length H.
Proof. apply map_length. Qed.
Lemma nth_hrows (H : list (list (list T))) s k : nth k (hrows H s) [] = nth s (nth k H []) [].
Proof.
  unfold hrows. destruct (Nat.lt_ge_cases k (length H)) as [Hk|Hk].
  - rewrite (nth_map_lt (fun Hk => nth s Hk []) H k [] []) by exact Hk. reflexivity.
  - rewrite (nth_overflow (map _ H)) by (rewrite map_length; exact Hk). rewrite (nth_overflow H) by exact Hk. now destruct s.
Qed.

Lemma flvec_upd Y hs k k' G : k' <= k -> flvec (upd k G Y) hs k' = flvec Y hs k'.
Proof. intros. unfold flvec. rewrite hchain_upd, upd_length. now apply lvec_upd. Qed.
Lemma frvec_upd Y hs k k' G : k <= k' -> frvec (upd k G Y) hs k' = frvec Y hs k'.
Proof. intros. unfold frvec. rewrite hchain_upd, upd_length. now apply rvec_upd. Qed.
Lemma flvec_succ Y hs k : k < length Y -> length hs = length Y ->
  flvec Y hs (S k) = vstep K (flvec Y hs k) (hcore K (nth k Y dcore) (nth k hs [])) O.
Proof.
  intros Hk E. unfold flvec. rewrite lvec_succ by (rewrite ?hchain_length, ?repeat_length; auto).
  now rewrite nth_hchain, nth_repeat_O by auto.
Qed.
Lemma frvec_pred Y hs k : 1 <= k -> k < length Y -> length hs = length Y ->
  frvec Y hs (pred k) = rstep K (hcore K (nth k Y dcore) (nth k hs [])) O (frvec Y hs k).
Proof.
  intros H1 Hk E. unfold frvec. rewrite rvec_pred by (rewrite ?hchain_length, ?repeat_length; auto).
  now rewrite nth_hchain, nth_repeat_O by auto.
Qed.

Definition FLok H (y : list T) Y (L : list (list (list T))) k' := nth k' L [] = map (fun s => flvec Y (hrows H s) k') (seq 0 (length y)).
Definition FRok H (y : list T) Y (R : list (list (list T))) k' := nth k' R [] = map (fun s => frvec Y (hrows H s) k') (seq 0 (length y)).
Record FInv H (y : list T) (d : nat) (s : @fstate T) (k : nat) : Prop := {
  finv_len : length (fY s) = d; finv_lenL : length (fL s) = d; finv_lenR : length (fR s) = d;
  finv_L : forall k', k' <= k -> k' < d -> FLok H y (fY s) (fL s) k';
  finv_R : forall k', k <= k' -> k' < d -> FRok H y (fY s) (fR s) k' }.

Lemma fzip_ref H y Y k d L R : Hwf H d (length y) -> k < d ->
  nth k L [] = map (fun s => flvec Y (hrows H s) k) (seq 0 (length y)) ->
  nth k R [] = map (fun s => frvec Y (hrows H s) k) (seq 0 (length y)) ->
  fzip y (nth k L []) (nth k R []) (nth k H []) = fzref H y Y k.
Proof.
  intros [_ HH] Hk -> ->. unfold fzip, fzref.
  transitivity (combine (map (fun s => nth s y 0) (seq 0 (length y)))
    (combine (map (fun s => flvec Y (hrows H s) k) (seq 0 (length y)))
      (combine (map (fun s => frvec Y (hrows H s) k) (seq 0 (length y)))
               (map (fun s => nth s (nth k H []) []) (seq 0 (length y)))))).
  - f_equal; [symmetry; apply map_nth_seq|]. f_equal. f_equal. rewrite <- (HH k Hk). symmetry. apply map_nth_seq.
  - apply combine3_map.
Qed.
Lemma flupdate_map H (y : list T) k d G (f : nat -> list T) : Hwf H d (length y) -> k < d ->
  flupdate K G (nth k H []) (map f (seq 0 (length y)))
  = map (fun s => vstep K (f s) (hcore K G (nth s (nth k H []) [])) O) (seq 0 (length y)).
Proof.
  intros [_ HH] Hk. unfold flupdate.
  assert (Eh : nth k H [] = map (fun s => nth s (nth k H []) []) (seq 0 (length y)))
    by (rewrite <- (HH k Hk); symmetry; apply map_nth_seq).
  rewrite Eh at 1. rewrite combine_map_map, map_map. reflexivity.
Qed.
Lemma frupdate_map H (y : list T) k d G (f : nat -> list T) : Hwf H d (length y) -> k < d ->
  frupdate K G (nth k H []) (map f (seq 0 (length y)))
  = map (fun s => rstep K (hcore K G (nth s (nth k H []) [])) O (f s)) (seq 0 (length y)).
Proof.
  intros [_ HH] Hk. unfold frupdate.
  assert (Eh : nth k H [] = map (fun s => nth s (nth k H []) []) (seq 0 (length y)))
    by (rewrite <- (HH k Hk); symmetry; apply map_nth_seq).
  rewrite Eh at 1. rewrite combine_map_map, map_map. reflexivity.
Qed.

Lemma ffwd_step_sim H y d s k : FInv H y d s k -> S k < d -> Hwf H d (length y) ->
  fY (ffwd_step K solve lamb y H s k) = ref_fstep y H (fY s) k /\ FInv H y d (ffwd_step K solve lamb y H s k) (S k).
Proof.
  intros I Hk W. destruct I as [l1 l2 l3 IL IR].
  assert (HZ : fzip y (nth k (fL s) []) (nth k (fR s) []) (nth k H []) = fzref H y (fY s) k)
    by (apply (fzip_ref H y (fY s) k d); auto; [lia | apply IL; lia | apply IR; lia]).
  unfold ffwd_step, fopt_core. rewrite HZ. split; [reflexivity|].
  set (G := fopt_coreZ K solve lamb (nth k (fY s) dcore) (fzref H y (fY s) k)).
  constructor; cbn [fY fL fR]; rewrite ?upd_length; auto.
  - intros k' Hk' Hd. unfold FLok. destruct (Nat.eq_dec k' (S k)) as [->|Hne].
    + rewrite nth_upd_eq by lia. rewrite (IL k) by lia. rewrite (flupdate_map H y k d) by (auto; lia).
      apply map_ext. intros sm.
      rewrite flvec_succ by (rewrite ?upd_length, ?hrows_length; destruct W; lia). rewrite nth_upd_eq by lia.
      rewrite flvec_upd by lia. now rewrite nth_hrows.
    + rewrite nth_upd_neq by auto. rewrite (IL k') by lia.
      apply map_ext. intros sm. now rewrite flvec_upd by lia.
  - intros k' Hk' Hd. unfold FRok. rewrite (IR k') by lia.
    apply map_ext. intros sm. now rewrite frvec_upd by lia.
Qed.
Lemma fbwd_step_sim H y d s k : FInv H y d s k -> 1 <= k -> k < d -> Hwf H d (length y) ->
  fY (fbwd_step K solve lamb y H s k) = ref_fstep y H (fY s) k /\ FInv H y d (fbwd_step K solve lamb y H s k) (pred k).
Proof.
  intros I H1 Hk W. destruct I as [l1 l2 l3 IL IR].
  assert (HZ : fzip y (nth k (fL s) []) (nth k (fR s) []) (nth k H []) = fzref H y (fY s) k)
    by (apply (fzip_ref H y (fY s) k d); auto; [apply IL; lia | apply IR; lia]).
  unfold fbwd_step, fopt_core. rewrite HZ. split; [reflexivity|].
  set (G := fopt_coreZ K solve lamb (nth k (fY s) dcore) (fzref H y (fY s) k)).
  constructor; cbn [fY fL fR]; rewrite ?upd_length; auto.
  - intros k' Hk' Hd. unfold FLok. rewrite (IL k') by lia.
    apply map_ext. intros sm. now rewrite flvec_upd by lia.
  - intros k' Hk' Hd. unfold FRok. destruct (Nat.eq_dec k' (pred k)) as [->|Hne].
    + rewrite nth_upd_eq by lia. rewrite (IR k) by lia. rewrite (frupdate_map H y k d) by auto.
      apply map_ext. intros sm.
      rewrite frvec_pred by (rewrite ?upd_length, ?hrows_length; destruct W; lia). rewrite nth_upd_eq by lia.
      rewrite frvec_upd by lia. now rewrite nth_hrows.
    + rewrite nth_upd_neq by auto. rewrite (IR k') by lia.
      apply map_ext. intros sm. now rewrite frvec_upd by lia.
Qed.

Lemma ffwd_fold_sim H y d : Hwf H d (length y) -> forall n s k, FInv H y d s k -> k + n <= d - 1 ->
  fY (fold_left (ffwd_step K solve lamb y H) (seq k n) s) = fold_left (ref_fstep y H) (seq k n) (fY s)
  /\ FInv H y d (fold_left (ffwd_step K solve lamb y H) (seq k n) s) (k + n).
Proof.
  intros W. induction n as [|n IH]; intros s k I Hn; simpl.
  - rewrite Nat.add_0_r. auto.
  - destruct (ffwd_step_sim H y d s k I) as [E I']; [lia | auto |].
    destruct (IH _ (S k) I') as [E2 I2]; [lia|]. rewrite E2, E. split; [reflexivity|].
    replace (k + S n) with (S k + n) by lia. exact I2.
Qed.
Lemma fbwd_fold_sim H y d : Hwf H d (length y) -> forall n s, FInv H y d s n -> n <= d - 1 ->
  fY (fold_left (fbwd_step K solve lamb y H) (rev (seq 1 n)) s)
  = fold_left (ref_fstep y H) (rev (seq 1 n)) (fY s)
  /\ FInv H y d (fold_left (fbwd_step K solve lamb y H) (rev (seq 1 n)) s) O.
Proof.
  intros W. induction n as [|n IH]; intros s I Hn.
  - simpl. auto.
  - rewrite rev_seq_S. cbn [fold_left].
    destruct (fbwd_step_sim H y d s (S n) I) as [E I']; [lia | lia | auto |].
    destruct (IH _ I') as [E2 I2]; [lia|]. rewrite E2, E. auto.
Qed.
Lemma fsweep_sim H y d s : Hwf H d (length y) -> FInv H y d s O ->
  fY (fsweep K solve lamb y H s) = ref_fsweep y H (fY s) /\ FInv H y d (fsweep K solve lamb y H s) O.
Proof.
  intros W I. unfold fsweep, ref_fsweep. rewrite (finv_len _ _ _ _ _ I).
  destruct (ffwd_fold_sim H y d W (d - 1) s O I) as [E I1]; [lia|].
  destruct (fbwd_fold_sim H y d W (d - 1) _ I1) as [E2 I2]; [lia|].
  rewrite E2, E. auto.
Qed.
Lemma iter_fsweep_sim H y d s n : Hwf H d (length y) -> FInv H y d s O ->
  fY (Nat.iter n (fsweep K solve lamb y H) s) = Nat.iter n (ref_fsweep y H) (fY s)
  /\ FInv H y d (Nat.iter n (fsweep K solve lamb y H) s) O.
Proof.
  intros W I. induction n as [|n [E I']]; [simpl; auto|].
  change (Nat.iter (S n) (fsweep K solve lamb y H) s) with (fsweep K solve lamb y H (Nat.iter n (fsweep K solve lamb y H) s)).
  change (Nat.iter (S n) (ref_fsweep y H) (fY s)) with (ref_fsweep y H (Nat.iter n (ref_fsweep y H) (fY s))).
  destruct (fsweep_sim H y d _ W I') as [E2 I2]. rewrite E2, E. auto.
Qed.

(* ------------------------------------------------------------------ the initial state *)
Lemma finit_inv H y Y : chain 1 Y 1 -> Hwf H (length Y) (length y) -> FInv H y (length Y) (finit_st K H y Y) O.
Proof.
  intros C W. set (d := length Y). unfold finit_st. fold d.
  set (Yr0 := map (fun G => repeat (repeat 1 (cr2 G)) (length y)) Y).
  set (stp := fun Yr k => upd (pred k) (frupdate K (nth k Y dcore) (nth k H []) (nth k Yr [])) Yr).
  assert (F : forall n Yr, n <= d - 1 -> length Yr = d ->
              (forall k', n <= k' -> k' < d -> FRok H y Y Yr k') ->
              length (fold_left stp (rev (seq 1 n)) Yr) = d /\
              forall k', k' < d -> FRok H y Y (fold_left stp (rev (seq 1 n)) Yr) k').
  { induction n as [|n IH]; intros Yr Hn HL HR.
    - simpl. split; auto. intros; apply HR; lia.
    - rewrite rev_seq_S. cbn [fold_left]. apply IH; [lia | unfold stp; now rewrite upd_length |].
      intros k' Hk' Hd. unfold FRok, stp. cbn [pred]. destruct (Nat.eq_dec k' n) as [->|Hne].
      + rewrite nth_upd_eq by lia. rewrite (HR (S n)) by lia. rewrite (frupdate_map H y (S n) d) by (auto; lia).
        apply map_ext. intros sm. symmetry. rewrite <- nth_hrows.
        apply (frvec_pred Y (hrows H sm) (S n)); rewrite ?hrows_length; destruct W; fold d; lia.
      + rewrite nth_upd_neq by auto. apply HR; lia. }
  destruct (F (d - 1) Yr0) as [FL FR]; [lia | unfold Yr0; now rewrite map_length | |].
  { intros k' Hk' Hd. assert (k' = d - 1) by lia. subst k'. unfold FRok, Yr0.
    rewrite (nth_map_lt _ Y (d - 1) dcore) by (fold d; lia). unfold d. rewrite (chain_last Y 1%nat 1%nat C) by (intros ->; simpl in *; lia).
    rewrite <- (seq_length (length y) 0) at 1. rewrite repeat_map.
    apply map_ext. intros sm. unfold frvec, rvec.
    replace (S (length Y - 1)) with (length Y) by (fold d; lia).
    rewrite skipn_all2 by (rewrite hchain_length; rewrite ?hrows_length; destruct W; auto). reflexivity. }
  constructor; cbn [fY fL fR]; auto.
  - now rewrite map_length.
  - intros k' Hk' Hd. assert (k' = O) by lia. subst k'. unfold FLok.
    destruct Y as [|G Y']; [simpl in *; lia|]. simpl in C. destruct C as [C1 _]. cbn [map nth]. rewrite C1.
    rewrite <- (seq_length (length y) 0) at 1. rewrite repeat_map. reflexivity.
Qed.

Lemma ref_fstep_dims y H Y k : map dims (ref_fstep y H Y k) = map dims Y.
Proof. unfold ref_fstep. apply map_upd_same with (d := dcore). reflexivity. Qed.

(* cores after n sweeps of the code from a fresh start = n reference sweeps *)
Lemma als_func_cores_ref H y Y n : chain 1 Y 1 -> Hwf H (length Y) (length y) ->
  fY (Nat.iter n (fsweep K solve lamb y H) (finit_st K H y Y)) = Nat.iter n (ref_fsweep y H) Y.
Proof. intros C W. apply (iter_fsweep_sim H y (length Y) (finit_st K H y Y) n W (finit_inv H y Y C W)). Qed.

(* restart at the level of sweeps *)
Lemma fsweeps_restart H y Y a b : chain 1 Y 1 -> Hwf H (length Y) (length y) ->
  fY (Nat.iter (a + b) (fsweep K solve lamb y H) (finit_st K H y Y))
  = fY (Nat.iter b (fsweep K solve lamb y H) (finit_st K H y (fY (Nat.iter a (fsweep K solve lamb y H) (finit_st K H y Y))))).
Proof.
  intros C W.
  set (sa := Nat.iter a (fsweep K solve lamb y H) (finit_st K H y Y)).
  assert (D : map dims (fY sa) = map dims Y) by apply iter_fsweep_dims.
  assert (Ca : chain 1 (fY sa) 1) by (eapply dims_chain; [symmetry; exact D | exact C]).
  assert (Wa : Hwf H (length (fY sa)) (length y)) by (rewrite (dims_length _ _ D); exact W).
  rewrite (als_func_cores_ref H y Y (a + b) C W), (als_func_cores_ref H y _ b Ca Wa).
  unfold sa. rewrite (als_func_cores_ref H y Y a C W). rewrite Nat.add_comm. apply iter_plus.
Qed.
(* restart of als_func as a whole: nswp = a + b equals nswp = a, then a fresh call on the result with nswp = b *)
Section FRestart.
Variable acc : nat -> list (core T) -> list (core T) -> T.
Variable accv : nat -> list (core T) -> T.
Lemma als_func_restart H y A0 a b fuel Ya ia : chain 1 A0 1 -> Hwf H (length A0) (length y) ->
  1 <= a -> 1 <= b -> a + b <= fuel ->
  als_func K solve acc accv H y A0 (Some a) None None lamb fuel = Ok (Ya, ia) ->
  exists Yab i1 i2, als_func K solve acc accv H y A0 (Some (a + b)) None None lamb fuel = Ok (Yab, i1) /\
                    als_func K solve acc accv H y Ya (Some b) None None lamb fuel = Ok (Yab, i2) /\
                    i_nswp ia = a /\ i_nswp i1 = a + b /\ i_nswp i2 = b.
Proof.
  intros C W A1 B1 Hf E.
  destruct (als_func_nswp K solve lamb acc accv H y A0 a fuel ltac:(lia)) as (ec & ev & Ha). rewrite Ha in E.
  replace (Nat.max 1 a) with a in E by lia. inversion E; subst Ya ia. clear E.
  destruct (als_func_nswp K solve lamb acc accv H y A0 (a + b) fuel ltac:(lia)) as (ec1 & ev1 & Hab).
  destruct (als_func_nswp K solve lamb acc accv H y (fY (Nat.iter a (fsweep K solve lamb y H) (finit_st K H y A0))) b fuel ltac:(lia))
    as (ec2 & ev2 & Hb).
  replace (Nat.max 1 (a + b)) with (a + b) in Hab by lia. replace (Nat.max 1 b) with b in Hb by lia.
  eexists; eexists; eexists. split; [exact Hab|]. split.
  - rewrite Hb. f_equal. f_equal. symmetry. now apply fsweeps_restart.
  - cbn. auto.
Qed.
End FRestart.
End FSim.
