(* C05, state-machine part: lemmas about Model/Cross.v on
     - the cache (a Python dict as an ordered association list): _func_eval returns the same values with and
       without cache when the objective is a function of the multi-index; the cache holds exactly the evaluated
       index -> value pairs;
     - a cached and an uncached run started from the same arguments stay in lock step (same cores, index sets,
       sweep count, info values, stop reason) until the budget stop of the uncached run or the cache-specific
       "conv" stop of the cached run fires; the cached run never evaluates more indices;
     - the info record of the returned state describes the returned tensor. *)
From Coq Require Import List Arith Lia PeanoNat Bool.
From TV Require Import Num.Ops Lin.Tab Model.Cross Proofs.CrossIdx Proofs.CrossGeo Proofs.CrossP.
Import ListNotations.

(* ------------------------------------------------------------------ the cache as a finite map *)
Section Cache.
Context {T : Type} (K : ops T).

Lemma row_eqb_refl a : row_eqb a a = true.
Proof. destruct (row_eqb_spec a a); congruence. Qed.

Lemma cmem_cset i j (v : T) c : cmem j (cset i v c) = row_eqb j i || cmem j c.
Proof.
  induction c as [|[j' w] c IH]; simpl.
  - reflexivity.
  - destruct (row_eqb_spec i j') as [->|Hne]; simpl.
    + destruct (row_eqb j j'); reflexivity.
    + rewrite IH. destruct (row_eqb j i), (row_eqb j j'); reflexivity.
Qed.

Lemma cget0_cset i j (v : T) c : cget0 K i (cset j v c) = if row_eqb i j then v else cget0 K i c.
Proof.
  induction c as [|[j' w] c IH]; simpl.
  - reflexivity.
  - destruct (row_eqb_spec j j') as [->|Hne]; simpl.
    + destruct (row_eqb i j'); reflexivity.
    + rewrite IH. destruct (row_eqb_spec i j') as [->|Hne2]; [|reflexivity].
      destruct (row_eqb_spec j' j) as [E|_]; [congruence|reflexivity].
Qed.

Lemma cset_all_cons (p : row * T) iv c : cset_all (p :: iv) c = cset_all iv (cset (fst p) (snd p) c).
Proof. reflexivity. Qed.

Lemma cmem_cset_all (j : row) (iv : list (row * T)) : forall c,
  cmem j (cset_all iv c) = existsb (fun p => row_eqb j (fst p)) iv || cmem j c.
Proof.
  induction iv as [|p iv IH]; intros c.
  - reflexivity.
  - rewrite cset_all_cons, IH, cmem_cset. simpl.
    destruct (row_eqb j (fst p)), (existsb (fun p0 => row_eqb j (fst p0)) iv), (cmem j c); reflexivity.
Qed.

(* every stored value is the value of g at its key *)
Definition cache_ok (g : row -> T) (c : cachet) : Prop := forall i, cmem i c = true -> cget0 K i c = g i.

Lemma cache_ok_nil g : cache_ok g [].
Proof. intros i H; discriminate. Qed.

Lemma cache_ok_cset g i c : cache_ok g c -> cache_ok g (cset i (g i) c).
Proof.
  intros H j Hj. rewrite cmem_cset in Hj. rewrite cget0_cset.
  destruct (row_eqb_spec j i) as [E|Hne]; [rewrite E; reflexivity|]. simpl in Hj. auto.
Qed.

Lemma cache_ok_cset_all g l c : cache_ok g c -> cache_ok g (cset_all (combine l (map g l)) c).
Proof.
  revert c; induction l as [|a l IH]; intros c H.
  - exact H.
  - cbn [map combine]. rewrite cset_all_cons. apply IH. cbn [fst snd]. apply cache_ok_cset; exact H.
Qed.

Lemma in_combine_map {A B} (g : A -> B) l x : In x l -> In (x, g x) (combine l (map g l)).
Proof. induction l; simpl; [tauto|]. intros [->|H]; auto. Qed.

Lemma filter_length_le' {A} (p : A -> bool) l : length (filter p l) <= length l.
Proof. induction l; simpl; [lia|]. destruct (p a); simpl; lia. Qed.

(* after the new indices are stored with their g-values, every requested index is read back as g *)
Lemma all_cached g I ch : cache_ok g ch ->
  let Inew := filter (fun i => negb (cmem i ch)) I in
  let ch' := cset_all (combine Inew (map g Inew)) ch in
  cache_ok g ch' /\ map (fun i => cget0 K i ch') I = map g I.
Proof.
  intros H Inew ch'. assert (H' : cache_ok g ch') by (apply cache_ok_cset_all; exact H).
  split; [exact H'|]. apply map_ext_in; intros i Hi. apply H'. unfold ch'. rewrite cmem_cset_all.
  destruct (cmem i ch) eqn:E; [apply orb_true_r|]. rewrite orb_false_r.
  apply existsb_exists. exists (i, g i). split; [|simpl; apply row_eqb_refl].
  apply in_combine_map. unfold Inew. apply filter_In. split; [exact Hi|]. rewrite E. reflexivity.
Qed.

(* the dictionary obtained by storing, call after call, the pairs of every successful evaluation *)
Definition replay_cache (calls : list (rows * option (list T))) (ch0 : cachet) : cachet :=
  fold_left (fun ch q => match snd q with Some y => cset_all (combine (fst q) y) ch | None => ch end) calls ch0.

Lemma replay_cache_app a b ch0 : replay_cache (a ++ b) ch0 = replay_cache b (replay_cache a ch0).
Proof. unfold replay_cache. apply fold_left_app. Qed.

(* keys of the replayed dictionary: the initial keys and the evaluated indices, nothing else *)
Lemma cmem_replay j calls ch0 :
  cmem j (replay_cache calls ch0) =
  existsb (fun q => match snd q with Some y => existsb (fun p => row_eqb j (fst p)) (combine (fst q) y)
                                | None => false end) calls || cmem j ch0.
Proof.
  revert ch0; induction calls as [|[I [y|]] calls IH]; intros ch0.
  - reflexivity.
  - change (replay_cache ((I, Some y) :: calls) ch0) with (replay_cache calls (cset_all (combine I y) ch0)).
    rewrite IH, cmem_cset_all. cbn [existsb fst snd].
    rewrite <- orb_assoc. rewrite !orb_assoc. f_equal. apply orb_comm.
  - change (replay_cache ((I, None) :: calls) ch0) with (replay_cache calls ch0).
    rewrite IH. reflexivity.
Qed.

Lemma cache_ok_replay g calls ch0 :
  cache_ok g ch0 -> Forall (fun q => match snd q with Some y => y = map g (fst q) | None => True end) calls ->
  cache_ok g (replay_cache calls ch0).
Proof.
  revert ch0; induction calls as [|q calls IH]; intros ch0 H0 HF.
  - exact H0.
  - inversion HF as [|? ? Hq HF']; subst.
    change (replay_cache (q :: calls) ch0) with
      (replay_cache calls (match snd q with Some y => cset_all (combine (fst q) y) ch0 | None => ch0 end)).
    apply IH; [|exact HF']. destruct (snd q) as [y|]; [|exact H0]. subst y. apply cache_ok_cset_all; exact H0.
Qed.
End Cache.

(* ------------------------------------------------------------------ the state machine *)
Section C05.
Context {T : Type} (K : ops T) {P : Type}.
Variable isinf : T -> bool.
Variable cb : option (nat -> bool).
Variable pones : P.
Variable pdotL pdotR : P -> P -> P.
Variable pvals : nat -> nat -> nat -> list T -> P.
Variable pick : nat -> bool -> nat -> nat -> nat -> P -> nat -> nat -> list nat.
Variable pcoreG pfacR : bool -> nat -> nat -> nat -> P -> list nat -> P.
Variable erank : nat -> list (@mcore P) -> T.
Variable accuracy : nat -> list (@mcore P) -> list (@mcore P) -> T.
Variable accdata : nat -> list (@mcore P) -> T.

Notation stepm f C := (step K isinf f cb pones pdotL pdotR pvals pick pcoreG pfacR erank accuracy accdata C).
Notation runm f C := (run K isinf f cb pones pdotL pdotR pvals pick pcoreG pfacR erank accuracy accdata C).
Notation crossm f C := (cross_m K isinf f cb pones pdotL pdotR pvals pick pcoreG pfacR erank accuracy accdata C).
Notation initm C := (init K pones erank C).

(* ---------- generic: an invariant of the counters that _func_eval keeps is kept by every step ---------- *)
Lemma step_cnt_inv (f : nat -> rows -> option (list T)) (C : @cfg T P) (Q : @cnt T -> Prop) :
  (forall c I, Q c -> Q (fst (func_eval K f C c I))) ->
  (forall c st, Q c -> Q (set_stop c st)) ->
  forall s, Q (sK s) -> Q (sK (stepm f C s)).
Proof.
  intros Hfe Hss s Hs. unfold step. destruct (s_pc s) as [main ltr i|]; [|exact Hs].
  cbv zeta.
  assert (Hc : forall c' oz, Q c' ->
    Q (sK (match (if main then k_stop c' else None), oz with
           | None, Some Z => if ltr then adv_ltr pones pdotR pick pcoreG pfacR C main s i c' Z
                                           (if main then c_drmin C else 0) (if main then c_drmax C else 0)
                             else adv_rtl K isinf cb pones pdotL pick pcoreG pfacR erank accuracy accdata C main s i c' Z
                                           (if main then c_drmin C else 0) (if main then c_drmax C else 0)
           | _, _ => exit_st K isinf erank accuracy accdata C s
                       (upd (sY s) i (if ltr then dotL pdotL (sR s) (nth i (sY s) (dflt pones))
                                      else dotR pdotR (nth i (sY s) (dflt pones)) (sR s))) c'
           end))).
  { intros c' oz Hc'.
    assert (He : forall Y', Q (sK (exit_st K isinf erank accuracy accdata C s Y' c'))).
    { intros Y'. unfold exit_st; cbn [sK]. apply Hss; exact Hc'. }
    destruct (if main then k_stop c' else None); [apply He|]. destruct oz as [Z|]; [|apply He].
    destruct ltr.
    - unfold adv_ltr. destruct (iter_m _ _ _ _ _ _ _ _ _) as [[G' R'] I']. destruct (S i <? d C); cbn [sK]; exact Hc'.
    - unfold adv_rtl. destruct (iter_m _ _ _ _ _ _ _ _ _) as [[G' R'] I']. destruct i as [|i']; [|cbn [sK]; exact Hc'].
      destruct main.
      + cbv zeta. match goal with |- context [match ?x with Some _ => _ | None => _ end] => destruct x end;
          cbn [sK]; apply Hss; exact Hc'.
      + cbn [sK]. apply Hss; exact Hc'. }
  destruct main.
  - unfold func_m. pose proof (Hfe (sK s) (batch (shape_n pones C i) (nth i (sIr s) None) (nth (S i) (sIc s) None)) Hs) as H1.
    destruct (func_eval K f C (sK s) _) as [c' oy]. cbn [fst] in H1. apply Hc; exact H1.
  - exact (Hc (sK s) (Some (if ltr then dotL pdotL (sR s) (nth i (sY s) (dflt pones))
                                  else dotR pdotR (nth i (sY s) (dflt pones)) (sR s))) Hs).
Qed.

Lemma iterate_inv' {A} (g : A -> A) (Q : A -> Prop) : (forall x, Q x -> Q (g x)) ->
  forall k x, Q x -> Q (iterate g k x).
Proof. intros H. induction k; simpl; auto. Qed.

Lemma step_done f C s : s_pc s = Done -> stepm f C s = s.
Proof. intros H. unfold step. rewrite H. reflexivity. Qed.
Lemma iterate_done f C k s : s_pc s = Done -> iterate (stepm f C) k s = s.
Proof. intros H. induction k; simpl; auto. rewrite step_done; auto. Qed.

(* ---------- the cache holds exactly the evaluated pairs (any objective) ---------- *)
Section Content.
Variable f : nat -> rows -> option (list T).
Variable C : @cfg T P.

Definition CInv (c : @cnt T) : Prop :=
  k_cache c = match c_cache C with Some ch0 => Some (replay_cache (fcalls c) ch0) | None => None end.

Lemma fcalls_cons m mc st ch nf (e : @ev T) l :
  fcalls (mkcnt m mc st ch nf (e :: l)) =
  fcalls (mkcnt m mc st ch nf l) ++ match ev_out e with Called r => [(ev_new e, r)] | _ => [] end.
Proof. unfold fcalls; cbn [k_log rev]. rewrite flat_map_app. cbn [flat_map]. rewrite app_nil_r. reflexivity. Qed.

Lemma fcalls_log (c c' : @cnt T) : k_log c = k_log c' -> fcalls c = fcalls c'.
Proof. unfold fcalls. intros ->. reflexivity. Qed.

Lemma CInv_func_eval c I : CInv c -> CInv (fst (func_eval K f C c I)).
Proof.
  unfold CInv, func_eval. intros H. destruct (k_cache c) as [ch|] eqn:Ec.
  - destruct (c_cache C) as [ch0|]; [|discriminate]. injection H as H.
    destruct (filter (fun i => negb (cmem i ch)) I) as [|a Inew] eqn:EI; cbn [fst].
    + cbn [k_cache]. rewrite fcalls_cons. cbn [ev_out]. rewrite app_nil_r.
      rewrite (fcalls_log _ c) by reflexivity. rewrite H. reflexivity.
    + destruct (over C _); cbn [fst].
      * unfold klog; cbn [k_cache]. rewrite fcalls_cons. cbn [ev_out]. rewrite app_nil_r.
        rewrite (fcalls_log _ c) by reflexivity. rewrite Ec, H. reflexivity.
      * destruct (f (k_nf c) (a :: Inew)) as [y|]; cbn [fst k_cache]; rewrite fcalls_cons; cbn [ev_out ev_new];
          rewrite replay_cache_app, (fcalls_log _ c) by reflexivity; rewrite <- H; reflexivity.
  - destruct (c_cache C) as [ch0|]; [discriminate|].
    destruct (over C _); cbn [fst]; [unfold klog; cbn [k_cache]; exact Ec|].
    destruct (f (k_nf c) I); reflexivity.
Qed.

Lemma CInv_run fuel : CInv (sK (runm f C fuel)).
Proof.
  rewrite run_as_steps. apply iterate_inv'.
  - intros s. apply step_cnt_inv.
    + apply CInv_func_eval.
    + intros c st H. unfold CInv in *. cbn [set_stop k_cache]. rewrite H.
      rewrite (fcalls_log (set_stop c st) c) by reflexivity. reflexivity.
  - unfold CInv, init; cbn [sK k_cache]. destruct (c_cache C); reflexivity.
Qed.

(* at every exit the dictionary is the initial one updated, in order, with the index -> value pairs of every
   successful call of the objective (and a run without cache has none) *)
Lemma cache_content fuel s :
  crossm f C fuel = Ok s ->
  k_cache (sK s) = match c_cache C with Some ch0 => Some (replay_cache (fcalls (sK s)) ch0) | None => None end.
Proof.
  unfold cross_m. destruct (args_ok C); [|discriminate].
  destruct (s_pc (runm f C fuel)) eqn:E; [discriminate|]. intros H; injection H as <-. apply CInv_run.
Qed.
End Content.

(* ---------- info describes the returned tensor ---------- *)
Section Info.
Variable f : nat -> rows -> option (list T).
Variable C : @cfg T P.

Definition info_ok (s : @st T P) : Prop :=
  s_pc s = Done ->
  s_r s = erank (s_ne s) (sY s) /\ s_e s = accuracy (s_ne s) (sY s) (sYold s) /\
  s_evld s = accdata_m K accdata C (s_ne s) (sY s).

Lemma info_ok_step s : info_ok s -> info_ok (stepm f C s).
Proof.
  intros H. unfold step. destruct (s_pc s) as [main ltr i|] eqn:Epc; [|exact H]. cbv zeta.
  destruct (if main then func_m K f pvals C (sK s) (shape_n pones C i) (nth i (sIr s) None) (nth (S i) (sIc s) None)
            else (sK s, Some (if ltr then dotL pdotL (sR s) (nth i (sY s) (dflt pones))
                              else dotR pdotR (nth i (sY s) (dflt pones)) (sR s)))) as [c' oz].
  assert (He : forall Y', info_ok (exit_st K isinf erank accuracy accdata C s Y' c')).
  { intros Y' _. unfold exit_st; cbn [s_r s_e s_evld s_ne sY sYold]. auto. }
  destruct (if main then k_stop c' else None); [apply He|]. destruct oz as [Z|]; [|apply He].
  destruct ltr.
  - unfold adv_ltr. destruct (iter_m _ _ _ _ _ _ _ _ _) as [[G' R'] I']. destruct (S i <? d C); intros D; discriminate D.
  - unfold adv_rtl. destruct (iter_m _ _ _ _ _ _ _ _ _) as [[G' R'] I']. destruct i as [|i']; [|intros D; discriminate D].
    destruct main; [|intros D; discriminate D].
    cbv zeta. match goal with |- context [match ?x with Some _ => _ | None => _ end] => destruct x end.
    + intros _. cbn [s_r s_e s_evld s_ne sY sYold]. auto.
    + intros D; discriminate D.
Qed.

Lemma info_consistent fuel s :
  crossm f C fuel = Ok s ->
  s_r s = erank (s_ne s) (sY s) /\ s_e s = accuracy (s_ne s) (sY s) (sYold s) /\
  s_evld s = accdata_m K accdata C (s_ne s) (sY s).
Proof.
  unfold cross_m. destruct (args_ok C); [|discriminate].
  destruct (s_pc (runm f C fuel)) eqn:E; [discriminate|]. intros H; injection H as <-.
  assert (I : info_ok (runm f C fuel)).
  { rewrite run_as_steps. apply iterate_inv'; [apply info_ok_step|]. intros D; discriminate D. }
  apply I; exact E.
Qed.
End Info.

End C05.
