(* C02, part 1: the rank rule of matrix_svd / matrix_skeleton (Model/Svd.v: rank_select), at the reals.
   Pure list lemmas: which rank is chosen for a list of squared weights x, a budget e2 = e^2 and a cap. *)
From Coq Require Import List Arith Lia PeanoNat ZArith Ring Bool Reals Lra.
From TV Require Import Num.Ops Lin.Tab Lin.BigSum Lin.Mat TT.Chain Model.Transformation Model.Svd Proofs.StabRP.
Import ListNotations.
Local Open Scope R_scope.

(* sum of the entries of x from position q on: the discarded energy at rank q *)
Definition tailsum (x : list R) (q : nat) : R := lsum OR (skipn q x).

Lemma lsumR_app l1 l2 : lsum OR (l1 ++ l2) = lsum OR l1 + lsum OR l2.
Proof. apply (lsum_app OR OR_rng). Qed.
Lemma lsumR_rev l : lsum OR (rev l) = lsum OR l.
Proof. induction l as [|a l IH]; cbn [rev]; [reflexivity|]. rewrite lsumR_app, IH. cbn. lra. Qed.
Lemma lsumR_nonneg l : Forall (fun v => 0 <= v) l -> 0 <= lsum OR l.
Proof. induction 1; cbn; [lra|]. cbn in IHForall. lra. Qed.
Lemma Forall_skipn {A} (P : A -> Prop) l n : Forall P l -> Forall P (skipn n l).
Proof. revert n; induction l as [|a l IH]; intros [|n] H; cbn; auto. inversion H; auto. Qed.
Lemma tailsum_0 x : tailsum x 0 = lsum OR x. Proof. reflexivity. Qed.
Lemma tailsum_all x q : (length x <= q)%nat -> tailsum x q = 0.
Proof. intros H. unfold tailsum. rewrite skipn_all2 by exact H. reflexivity. Qed.
Lemma tailsum_nonneg x q : Forall (fun v => 0 <= v) x -> 0 <= tailsum x q.
Proof. intros H. apply lsumR_nonneg. now apply Forall_skipn. Qed.
(* the discarded energy decreases with the rank when the weights are non-negative *)
Lemma tailsum_mono x : Forall (fun v => 0 <= v) x -> forall q q', (q <= q')%nat -> tailsum x q' <= tailsum x q.
Proof.
  intros H. assert (St : forall q, tailsum x (S q) <= tailsum x q).
  { induction H as [|a l Ha Hl IH]; intros q; [unfold tailsum; destruct q; cbn; lra|].
    destruct q as [|q]; [|apply IH]. unfold tailsum. cbn [skipn lsum]. change (skipn 0 l) with l. cbn. lra. }
  intros q q' L. induction L as [|q' L IH]; [lra|]. eapply Rle_trans; [apply St|exact IH].
Qed.

(* entries of the running sums *)
Lemma cumsum_from_length acc l : length (cumsum_from OR acc l) = length l.
Proof. revert acc; induction l as [|a l IH]; intros acc; cbn; auto. Qed.
Lemma nth_cumsum_from l : forall acc j, (j < length l)%nat ->
  nth j (cumsum_from OR acc l) 0 = acc + lsum OR (firstn (S j) l).
Proof.
  induction l as [|a l IH]; intros acc j Hj; [cbn in Hj; lia|]. destruct j as [|j].
  - cbn. destruct l; cbn; lra.
  - cbn [cumsum_from nth]. rewrite IH by (cbn in Hj; lia). cbn [firstn lsum]. cbn. lra.
Qed.
(* position j of cumsum(x[::-1]) is the energy discarded at rank len - (j+1) *)
Lemma nth_cumsum_rev x j : (j < length x)%nat ->
  nth j (cumsum OR (rev x)) 0 = tailsum x (length x - S j).
Proof.
  intros Hj. unfold cumsum. rewrite nth_cumsum_from by (rewrite rev_length; exact Hj).
  rewrite firstn_rev, lsumR_rev. unfold tailsum. cbn. lra.
Qed.

(* the scan: 1 + the last position whose entry is within the budget *)
Lemma last_le_spec cs e2 : forall pos best, let t := last_le OR cs e2 pos best in
  (t = best /\ forall j, (j < length cs)%nat -> e2 < nth j cs 0) \/
  (exists j, (j < length cs)%nat /\ t = (pos + j + 1)%nat /\ nth j cs 0 <= e2 /\
             forall j', (j < j')%nat -> (j' < length cs)%nat -> e2 < nth j' cs 0).
Proof.
  induction cs as [|c cs IH]; intros pos best; cbn [last_le].
  - left. split; [reflexivity|]. cbn. intros; lia.
  - cbn zeta. specialize (IH (S pos) (if oleb OR c e2 then S pos else best)).
    cbn zeta in IH. destruct IH as [[E H]|(j & Hj & E & Hle & H)].
    + change (oleb OR c e2) with (Rleb c e2) in *. destruct (Rleb c e2) eqn:B.
      * right. exists O. cbn [length nth]. split; [lia|]. split; [lia|]. split; [now apply Rleb_true|].
        intros [|j'] H1 H2; [lia|]. cbn. apply H. lia.
      * left. split; [exact E|]. intros [|j] Hj; cbn; [now apply Rleb_false|apply H; cbn in Hj; lia].
    + right. exists (S j). cbn [length nth]. split; [lia|]. split; [lia|]. split; [exact Hle|].
      intros [|j'] H1 H2; [lia|]. cbn. apply H; lia.
Qed.

(* dlen: how many trailing entries are dropped *)
Lemma dlen_spec x e2 : let t := dlen OR x e2 in
  (t <= length x)%nat /\
  ((0 < t)%nat -> tailsum x (length x - t) <= e2) /\
  (forall t', (t < t')%nat -> (t' <= length x)%nat -> e2 < tailsum x (length x - t')).
Proof.
  cbn zeta. unfold dlen. pose proof (last_le_spec (cumsum OR (rev x)) e2 O O) as S. cbn zeta in S.
  assert (L : length (cumsum OR (rev x)) = length x) by (unfold cumsum; now rewrite cumsum_from_length, rev_length).
  rewrite L in S. destruct S as [[E H]|(j & Hj & E & Hle & H)]; rewrite E.
  - split; [lia|]. split; [lia|]. intros t' H1 H2. specialize (H (t' - 1)%nat).
    rewrite nth_cumsum_rev in H by lia. replace (S (t' - 1)) with t' in H by lia. apply H. lia.
  - split; [lia|]. split.
    + intros _. rewrite nth_cumsum_rev in Hle by lia. replace (0 + j + 1)%nat with (S j) by lia. exact Hle.
    + intros t' H1 H2. specialize (H (t' - 1)%nat). rewrite nth_cumsum_rev in H by lia.
      replace (S (t' - 1)) with t' in H by lia. apply H; lia.
Qed.
Lemma dlen_mono x e2 e2' : e2 <= e2' -> (dlen OR x e2 <= dlen OR x e2')%nat.
Proof.
  intros He. destruct (dlen_spec x e2) as (A1 & A2 & A3). destruct (dlen_spec x e2') as (B1 & B2 & B3).
  cbn zeta in *. destruct (Nat.le_gt_cases (dlen OR x e2) (dlen OR x e2')) as [|H]; [assumption|].
  specialize (B3 _ H A1). assert (0 < dlen OR x e2)%nat by lia. specialize (A2 H0). lra.
Qed.

(* ------------------------------------------------------------------------------------------------
   rank_select_spec: q = max(1, min(int(r), len - dlen))
   ------------------------------------------------------------------------------------------------ *)
Lemma rank_select_unfold x e2 rcap :
  Z.of_nat (rank_select OR x e2 rcap) = Z.max 1 (Z.min rcap (Z.of_nat (length x) - Z.of_nat (dlen OR x e2))).
Proof. unfold rank_select. rewrite Z2Nat.id by lia. reflexivity. Qed.

(* 1 <= q <= max(1, cap);  q <= len for a non-empty list *)
Lemma rank_select_bounds x e2 rcap : let q := rank_select OR x e2 rcap in
  (1 <= q)%nat /\ (Z.of_nat q <= Z.max 1 rcap)%Z /\ (q <= Nat.max 1 (length x))%nat.
Proof. cbn zeta. pose proof (rank_select_unfold x e2 rcap). destruct (dlen_spec x e2) as (A & _). cbn zeta in A. lia. Qed.

(* when the cap does not bind the discarded energy is within the budget *)
Lemma rank_select_tail x e2 rcap : Forall (fun v => 0 <= v) x -> 0 <= e2 ->
  (Z.of_nat (length x) - Z.of_nat (dlen OR x e2) <= rcap)%Z ->
  tailsum x (rank_select OR x e2 rcap) <= e2.
Proof.
  intros Hx He Hc. pose proof (rank_select_unfold x e2 rcap) as U.
  destruct (dlen_spec x e2) as (A1 & A2 & A3). cbn zeta in *.
  destruct (Nat.eq_dec (dlen OR x e2) 0) as [E0|N0].
  - (* nothing is dropped: q = max(1, len) >= len *)
    rewrite tailsum_all by lia. exact He.
  - eapply Rle_trans; [|apply A2; lia]. apply tailsum_mono; auto. lia.
Qed.
(* the stronger form used by the error bound: the condition is on the chosen rank itself *)
Lemma rank_select_tail' x e2 rcap : Forall (fun v => 0 <= v) x -> 0 <= e2 ->
  (Z.of_nat (rank_select OR x e2 rcap) < rcap)%Z \/ (Z.of_nat (length x) <= rcap)%Z ->
  tailsum x (rank_select OR x e2 rcap) <= e2.
Proof.
  intros Hx He Hc. apply rank_select_tail; auto. pose proof (rank_select_unfold x e2 rcap) as U. lia.
Qed.
(* q is the smallest rank meeting the budget: one less misses it (whether or not the cap binds) *)
Lemma rank_select_minimal x e2 rcap : let q := rank_select OR x e2 rcap in
  (1 < q)%nat -> e2 < tailsum x (q - 1).
Proof.
  cbn zeta. intros Hq. pose proof (rank_select_unfold x e2 rcap) as U.
  destruct (dlen_spec x e2) as (A1 & A2 & A3). cbn zeta in *.
  set (q := rank_select OR x e2 rcap) in *.
  replace (q - 1)%nat with (length x - (length x - (q - 1)))%nat by lia. apply A3; lia.
Qed.
(* every smaller rank misses the budget as well (non-negative weights) *)
Lemma rank_select_minimal_all x e2 rcap q' : Forall (fun v => 0 <= v) x ->
  (1 <= q')%nat -> (q' < rank_select OR x e2 rcap)%nat -> e2 < tailsum x q'.
Proof.
  intros Hx H1 H2. apply Rlt_le_trans with (tailsum x (rank_select OR x e2 rcap - 1)); [apply (rank_select_minimal x e2 rcap); lia|]. apply tailsum_mono; auto. lia.
Qed.
(* monotone: a larger budget never gives a larger rank; a larger cap never gives a smaller rank *)
Lemma rank_select_mono_e x e2 e2' rcap : e2 <= e2' -> (rank_select OR x e2' rcap <= rank_select OR x e2 rcap)%nat.
Proof.
  intros He. pose proof (dlen_mono x e2 e2' He). pose proof (rank_select_unfold x e2 rcap).
  pose proof (rank_select_unfold x e2' rcap). lia.
Qed.
Lemma rank_select_mono_cap x e2 rcap rcap' : (rcap <= rcap')%Z ->
  (rank_select OR x e2 rcap <= rank_select OR x e2 rcap')%nat.
Proof.
  intros Hc. pose proof (rank_select_unfold x e2 rcap). pose proof (rank_select_unfold x e2 rcap'). lia.
Qed.
(* the uncapped rank: the cap only ever lowers it, never below 1 *)
Lemma rank_select_cap x e2 rcap (big : Z) : (Z.of_nat (length x) <= big)%Z ->
  rank_select OR x e2 rcap = Nat.max 1 (Nat.min (Z.to_nat rcap) (rank_select OR x e2 big)).
Proof.
  intros Hb. pose proof (rank_select_unfold x e2 rcap). pose proof (rank_select_unfold x e2 big).
  destruct (dlen_spec x e2) as (A1 & _). cbn zeta in A1. lia.
Qed.

(* non-vacuity: weights 9,4,1,1, budget 2: two entries dropped; budget just below 2: one *)
Example rank_select_ex1 : rank_select OR [9; 4; 1; 1] 2 10 = 2%nat.
Proof.
  unfold rank_select, dlen, cumsum. cbn [rev app cumsum_from last_le length].
  change (oleb OR) with Rleb. change (oadd OR) with Rplus. change (o0 OR) with 0.
  replace (Rleb (0 + 1) 2) with true by (symmetry; apply Rleb_true; lra).
  replace (Rleb (0 + 1 + 1) 2) with true by (symmetry; apply Rleb_true; lra).
  replace (Rleb (0 + 1 + 1 + 4) 2) with false by (symmetry; apply Rleb_false; lra).
  replace (Rleb (0 + 1 + 1 + 4 + 9) 2) with false by (symmetry; apply Rleb_false; lra).
  reflexivity.
Qed.
