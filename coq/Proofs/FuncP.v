(* Ring-generic lemmas about Model/Func.v (C12): the Chebyshev recurrence, mode-wise linear maps on TT-cores,
   func_get / func_gets / func_sum as multi-index sums. *)
From Coq Require Import List Arith Lia Ring PeanoNat ZArith Bool.
From TV Require Import Num.Ops Lin.Tab Lin.BigSum Lin.Mat TT.Chain Model.Func.
Import ListNotations.

Section FuncP.
Context {T : Type} (K : ops T).
Notation "0" := (o0 K). Notation "1" := (o1 K).
Infix "+" := (oadd K). Infix "*" := (omul K). Infix "-" := (osub K). Infix "/" := (odiv K).
Notation ftwo := (ftwo K).
Hypothesis Rth : rng K.
Add Ring RrFuncP : Rth.

(* ---------------------------------------------------------------- func_basis: the three-term recurrence *)
Lemma cheb_aux_length x m t0 t1 : length (cheb_aux K x m t0 t1) = m.
Proof. revert t0 t1; induction m; intros; cbn [cheb_aux length]; auto. Qed.
Lemma func_basis1_length x m : length (func_basis1 K x m) = m.
Proof. apply cheb_aux_length. Qed.
(* the k-th entry does not depend on how many entries are computed *)
Lemma cheb_aux_nth x : forall m m' k t0 t1, k < m -> k < m' ->
  nth k (cheb_aux K x m t0 t1) 0 = nth k (cheb_aux K x m' t0 t1) 0.
Proof.
  induction m; intros m' k t0 t1 H H'; [lia|]. destruct m'; [lia|]. cbn [cheb_aux].
  destruct k; [reflexivity|]. cbn [nth]. apply IHm; lia.
Qed.
Lemma nth_func_basis1 x m k : k < m -> nth k (func_basis1 K x m) 0 = chebT K x k.
Proof. intros H. unfold chebT, func_basis1. apply cheb_aux_nth; lia. Qed.
Lemma cheb_aux_shift x : forall m k t0 t1, S k < m ->
  nth (S k) (cheb_aux K x m t0 t1) 0 = nth k (cheb_aux K x (pred m) t1 (ftwo * x * t1 - t0)) 0.
Proof. intros m k t0 t1 H. destruct m; [lia|]. reflexivity. Qed.
Lemma chebT_0 x : chebT K x 0 = 1. Proof. reflexivity. Qed.
Lemma chebT_1 x : chebT K x 1 = x. Proof. reflexivity. Qed.
(* general position: entries k, k+1, k+2 of any run of the recurrence are related by it *)
Lemma cheb_aux_rec x : forall k m t0 t1, S (S k) < m ->
  nth (S (S k)) (cheb_aux K x m t0 t1) 0 =
  ftwo * x * nth (S k) (cheb_aux K x m t0 t1) 0 - nth k (cheb_aux K x m t0 t1) 0.
Proof.
  induction k; intros m t0 t1 H.
  - destruct m as [|[|[|m]]]; try lia. reflexivity.
  - destruct m; [lia|]. cbn [cheb_aux]. cbn [nth]. apply IHk. lia.
Qed.
Lemma chebT_SS x k : chebT K x (S (S k)) = ftwo * x * chebT K x (S k) - chebT K x k.
Proof.
  unfold chebT, func_basis1.
  rewrite (cheb_aux_nth x (S (S k)) (S (S (S k))) (S k)) by lia.
  rewrite (cheb_aux_nth x (S k) (S (S (S k))) k) by lia.
  apply cheb_aux_rec. lia.
Qed.
End FuncP.
