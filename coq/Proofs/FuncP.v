(* Ring-generic lemmas about Model/Func.v (C12): the Chebyshev recurrence, mode-wise linear maps on TT-cores,
   func_get / func_gets / func_sum as multi-index sums. *)
From Coq Require Import List Arith Lia Ring PeanoNat ZArith Bool.
From TV Require Import Num.Ops Lin.Tab Lin.BigSum Lin.Mat TT.Chain Model.Func.
Import ListNotations.

Section FuncP.
Context {T : Type} (K : ops T).
Notation "0" := (o0 K). Notation "1" := (o1 K).
Infix "+" := (oadd K). Infix "*" := (omul K). Infix "-" := (osub K). Infix "/" := (odiv K).
Notation ftwo := (ftwo K).
Hypothesis Rth : rng K.
Add Ring RrFuncP : Rth.

(* ---------------------------------------------------------------- func_basis: the three-term recurrence *)
Lemma cheb_aux_length x m t0 t1 : length (cheb_aux K x m t0 t1) = m.
Proof. revert t0 t1; induction m; intros; cbn [cheb_aux length]; auto. Qed.
Lemma func_basis1_length x m : length (func_basis1 K x m) = m.
Proof. apply cheb_aux_length. Qed.
(* the k-th entry does not depend on how many entries are computed *)
Lemma cheb_aux_nth x : forall m m' k t0 t1, k < m -> k < m' ->
  nth k (cheb_aux K x m t0 t1) 0 = nth k (cheb_aux K x m' t0 t1) 0.
Proof.
  induction m; intros m' k t0 t1 H H'; [lia|]. destruct m'; [lia|]. cbn [cheb_aux].
  destruct k; [reflexivity|]. cbn [nth]. apply IHm; lia.
Qed.
Lemma nth_func_basis1 x m k : k < m -> nth k (func_basis1 K x m) 0 = chebT K x k.
Proof. intros H. unfold chebT, func_basis1. apply cheb_aux_nth; lia. Qed.
Lemma cheb_aux_shift x : forall m k t0 t1, S k < m ->
  nth (S k) (cheb_aux K x m t0 t1) 0 = nth k (cheb_aux K x (pred m) t1 (ftwo * x * t1 - t0)) 0.
Proof. intros m k t0 t1 H. destruct m; [lia|]. reflexivity. Qed.
Lemma chebT_0 x : chebT K x 0 = 1. Proof. reflexivity. Qed.
Lemma chebT_1 x : chebT K x 1 = x. Proof. reflexivity. Qed.
(* general position: entries k, k+1, k+2 of any run of the recurrence are related by it *)
Lemma cheb_aux_rec x : forall k m t0 t1, S (S k) < m ->
  nth (S (S k)) (cheb_aux K x m t0 t1) 0 =
  ftwo * x * nth (S k) (cheb_aux K x m t0 t1) 0 - nth k (cheb_aux K x m t0 t1) 0.
Proof.
  induction k; intros m t0 t1 H.
  - destruct m as [|[|[|m]]]; try lia. reflexivity.
  - destruct m; [lia|]. cbn [cheb_aux]. cbn [nth]. apply IHk. lia.
Qed.
Lemma chebT_SS x k : chebT K x (S (S k)) = ftwo * x * chebT K x (S k) - chebT K x k.
Proof.
  unfold chebT, func_basis1.
  rewrite (cheb_aux_nth x (S (S k)) (S (S (S k))) (S k)) by lia.
  rewrite (cheb_aux_nth x (S k) (S (S (S k))) k) by lia.
  apply cheb_aux_rec. lia.
Qed.

(* ---------------------------------------------------------------- multi-index sums: a few more lemmas *)
Lemma msum_bsum_swap ns n (f : list nat -> nat -> T) :
  msum K ns (fun idx => bsum K n (fun j => f idx j)) = bsum K n (fun j => msum K ns (fun idx => f idx j)).
Proof.
  revert f; induction ns as [|m ns IH]; intros f; cbn [msum]; [reflexivity|].
  rewrite (bsum_ext K m _ (fun i => bsum K n (fun j => msum K ns (fun idx => f (i :: idx) j)))).
  2:{ intros i Hi. apply IH. }
  apply bsum_swap; auto.
Qed.
Lemma msum_swap ns ms (f : list nat -> list nat -> T) :
  msum K ns (fun i => msum K ms (fun j => f i j)) = msum K ms (fun j => msum K ns (fun i => f i j)).
Proof.
  revert f; induction ms as [|m ms IH]; intros f; cbn [msum]; [reflexivity|].
  rewrite msum_bsum_swap. apply bsum_ext; intros j Hj. apply IH.
Qed.
Lemma msum_mul_r ns c f : msum K ns (fun idx => f idx * c) = msum K ns f * c.
Proof.
  rewrite (msum_ext K ns _ (fun idx => c * f idx)) by (intros; ring).
  rewrite msum_mul_l by auto. ring.
Qed.
Lemma inb_length ns idx : inb ns idx -> length idx = length ns.
Proof. unfold inb. intros H. induction H; cbn [length]; auto. Qed.
Lemma inb_cons n ns i idx : inb (n :: ns) (i :: idx) <-> i < n /\ inb ns idx.
Proof. unfold inb. split; [intros H; inversion H; auto | intros [A B]; constructor; auto]. Qed.
Lemma inb_nth ns idx k : inb ns idx -> k < length ns -> nth k idx O < nth k ns O.
Proof.
  unfold inb. intros H; revert k; induction H; intros k Hk; cbn [length] in Hk; [lia|].
  destruct k; cbn [nth]; auto. apply IHForall2. lia.
Qed.

(* product over the dimensions of matrix entries:  prod_k M_k[i_k, j_k] *)
Fixpoint mprod (Ms : list (nat -> nat -> T)) (idx jdx : list nat) : T :=
  match Ms, idx, jdx with
  | M :: Ms', i :: idx', j :: jdx' => M i j * mprod Ms' idx' jdx'
  | _, _, _ => 1
  end.
Lemma mprod_ext Ms Ms' ns ms idx jdx : inb ns idx -> inb ms jdx ->
  Forall2 (fun M M' => True) Ms Ms' ->
  (forall k i j, i < nth k ns O -> j < nth k ms O -> nth k Ms (fun _ _ => 0) i j = nth k Ms' (fun _ _ => 0) i j) ->
  mprod Ms idx jdx = mprod Ms' idx jdx.
Proof.
  intros Hi Hj HF; revert ns ms idx jdx Hi Hj.
  induction HF as [|M M' Ms Ms' _ HF IH]; intros ns ms idx jdx Hi Hj H; [reflexivity|].
  destruct idx as [|i idx]; [reflexivity|]. destruct jdx as [|j jdx]; [reflexivity|].
  destruct ns as [|n ns]; [inversion Hi|]. destruct ms as [|m ms]; [inversion Hj|].
  apply inb_cons in Hi as [Hi Hi']. apply inb_cons in Hj as [Hj Hj']. cbn [mprod].
  pose proof (H O i j) as H0. cbn [nth] in H0. rewrite H0 by auto. f_equal.
  apply (IH ns ms); auto. intros k i' j' A B. apply (H (S k)); auto.
Qed.
(* sum over all multi-indices of a product of per-dimension factors = product of the 1-D sums *)
Fixpoint sprod (ns : list nat) (fs : list (nat -> T)) : T :=
  match ns, fs with
  | n :: ns', f :: fs' => bsum K n f * sprod ns' fs'
  | _, _ => 1
  end.
Fixpoint lprod (fs : list (nat -> T)) (idx : list nat) : T :=
  match fs, idx with
  | f :: fs', i :: idx' => f i * lprod fs' idx'
  | _, _ => 1
  end.
Lemma msum_lprod ns : forall fs, length fs = length ns -> msum K ns (lprod fs) = sprod ns fs.
Proof.
  induction ns as [|n ns IH]; intros [|f fs] L; cbn [length] in L; try discriminate; cbn [msum sprod lprod]; auto.
  rewrite (bsum_ext K n _ (fun i => f i * sprod ns fs)).
  2:{ intros i Hi. rewrite msum_mul_l by auto. rewrite IH by lia. reflexivity. }
  rewrite bsum_mul_r by auto. reflexivity.
Qed.
(* Kronecker delta in every dimension picks one term *)
Definition delta (i j : nat) : T := if Nat.eqb i j then 1 else 0.
Fixpoint dprod (idx jdx : list nat) : T :=
  match idx, jdx with
  | i :: idx', j :: jdx' => delta i j * dprod idx' jdx'
  | _, _ => 1
  end.
Lemma msum_dprod ns : forall idx (c : list nat -> T), inb ns idx ->
  msum K ns (fun jdx => dprod idx jdx * c jdx) = c idx.
Proof.
  induction ns as [|n ns IH]; intros idx c H.
  - inversion H; subst. cbn [msum dprod]. ring.
  - destruct idx as [|i idx]; [inversion H|]. apply inb_cons in H as [Hi H]. cbn [msum].
    rewrite (bsum_single K Rth n i); auto.
    + cbn [dprod]. unfold delta. rewrite Nat.eqb_refl.
      rewrite (msum_ext K ns _ (fun jdx => dprod idx jdx * c (i :: jdx))) by (intros; ring).
      apply (IH idx (fun jdx => c (i :: jdx))); auto.
    + intros j Hj Hne. rewrite (msum_ext K ns _ (fun _ => 0)); [apply msum_0; auto|].
      intros jdx _. cbn [dprod]. unfold delta.
      destruct (Nat.eqb_spec i j); [congruence|ring].
Qed.

(* ---------------------------------------------------------------- mode-wise linear maps on TT-cores *)
(* the core with the m x n matrix M applied to the mode axis:  G'[a, j, b] = sum_i M[j, i] G[a, i, b] *)
Definition cmode (m : nat) (M : nat -> nat -> T) (G : core T) : core T :=
  mkcore (cr1 G) m (cr2 G) (fun a j b => bsum K (cn G) (fun i => M j i * cget K G a i b)).
Fixpoint tmode (Ms : list (nat * (nat -> nat -> T))) (Y : list (core T)) : list (core T) :=
  match Ms, Y with
  | mM :: Ms', G :: Y' => cmode (fst mM) (snd mM) G :: tmode Ms' Y'
  | _, _ => []
  end.
Lemma mkcore_ext r1 n r2 f g : (forall a i b, a < r1 -> i < n -> b < r2 -> f a i b = g a i b) ->
  mkcore (T:=T) r1 n r2 f = mkcore r1 n r2 g.
Proof.
  intros H. unfold mkcore. f_equal. apply tab_ext; intros a Ha. apply tab_ext; intros i Hi.
  apply tab_ext; intros b Hb. auto.
Qed.
Lemma chain_tmode Ms : forall Y r rl, length Ms = length Y -> chain r Y rl -> chain r (tmode Ms Y) rl.
Proof.
  induction Ms as [|mM Ms IH]; intros [|G Y] r rl L H; cbn [length] in L; try discriminate; cbn [tmode chain] in *; auto.
  destruct H as [A B]. split; [exact A|]. apply IH; [lia|exact B].
Qed.
Lemma shape_tmode Ms : forall Y, length Ms = length Y -> shape (tmode Ms Y) = map fst Ms.
Proof.
  induction Ms as [|mM Ms IH]; intros [|G Y] L; cbn [length] in L; try discriminate; cbn [tmode shape map]; auto.
  f_equal. apply IH. lia.
Qed.
(* a run is linear in the entering vector *)
Lemma run_lincomb Y idx r rl n (al : nat -> T) (u : nat -> list T) w b :
  wfo r Y idx rl -> length w = r -> (forall j, j < n -> length (u j) = r) ->
  (forall c, c < r -> nth c w 0 = bsum K n (fun j => al j * nth c (u j) 0)) -> b < rl ->
  nth b (run K w Y idx) 0 = bsum K n (fun j => al j * nth b (run K (u j) Y idx) 0).
Proof.
  intros W Lw Lu Hw Hb.
  rewrite (run_decomp K Rth Y w idx r rl W Lw b Hb).
  rewrite (bsum_ext K n _ (fun j => bsum K r (fun c => al j * nth c (u j) 0 * dget K Y idx r c b))).
  2:{ intros j Hj. rewrite (run_decomp K Rth Y (u j) idx r rl W (Lu j Hj) b Hb).
      rewrite <- bsum_mul_l by auto. apply bsum_ext; intros c Hc. ring. }
  rewrite bsum_swap by auto. apply bsum_ext; intros c Hc. rewrite Hw by auto.
  rewrite <- bsum_mul_r by auto. reflexivity.
Qed.
Lemma vstep_cmode v m M G i c : i < m -> c < cr2 G ->
  nth c (vstep K v (cmode m M G) i) 0 = bsum K (cn G) (fun j => M i j * nth c (vstep K v G j) 0).
Proof.
  intros Hi Hc. rewrite nth_vstep by (unfold cmode; rewrite cr2_mk; auto).
  unfold cmode at 1. rewrite cr1_mk.
  rewrite (bsum_ext K (cr1 G) _ (fun a => bsum K (cn G) (fun j => M i j * (nth a v 0 * cget K G a j c)))).
  2:{ intros a Ha. unfold cmode. rewrite cget_mk by auto. rewrite <- bsum_mul_l by auto.
      apply bsum_ext; intros j Hj. ring. }
  rewrite bsum_swap by auto. apply bsum_ext; intros j Hj. rewrite nth_vstep by auto.
  rewrite bsum_mul_l by auto. reflexivity.
Qed.
(* modewise_linear: entries of the transformed TT-tensor are the mode-wise transformed entries *)
Lemma run_tmode : forall Y Ms v idx r rl b,
  chain r Y rl -> length Ms = length Y -> length v = r -> inb (map fst Ms) idx -> b < rl ->
  nth b (run K v (tmode Ms Y) idx) 0 =
  msum K (shape Y) (fun jdx => mprod (map snd Ms) idx jdx * nth b (run K v Y jdx) 0).
Proof.
  induction Y as [|G Y IH]; intros [|[m M] Ms] v idx r rl b HC L Lv Hidx Hb; cbn [length] in L; try discriminate.
  - inversion Hidx; subst. cbn [tmode run shape map msum mprod]. ring.
  - destruct idx as [|i idx]; [inversion Hidx|]. cbn [map fst] in Hidx. apply inb_cons in Hidx as [Hi Hidx].
    cbn [chain] in HC. destruct HC as [HC1 HC].
    cbn [tmode run fst snd shape map msum].
    assert (Lw : length (vstep K v (cmode m M G) i) = cr2 G) by (rewrite vstep_length; reflexivity).
    rewrite (IH Ms _ idx (cr2 G) rl b HC ltac:(lia) Lw Hidx Hb).
    rewrite (msum_ext K (shape Y) _ (fun jdx => bsum K (cn G) (fun j =>
               mprod (M :: map snd Ms) (i :: idx) (j :: jdx) * nth b (run K (vstep K v G j) Y jdx) 0))).
    2:{ intros jdx Hj.
        rewrite (run_lincomb Y jdx (cr2 G) rl (cn G) (fun j => M i j) (fun j => vstep K v G j)); auto.
        - rewrite <- bsum_mul_l by auto. apply bsum_ext; intros j Hjj. cbn [mprod]. ring.
        - apply wfo_chain_inb. split; auto.
        - intros j _. apply vstep_length.
        - intros c Hc. apply vstep_cmode; auto. }
    rewrite msum_bsum_swap. reflexivity.
Qed.
Theorem modewise_linear Y Ms idx :
  chain 1 Y 1 -> length Ms = length Y -> inb (map fst Ms) idx ->
  get K (tmode Ms Y) idx = msum K (shape Y) (fun jdx => mprod (map snd Ms) idx jdx * get K Y jdx).
Proof. intros HC L Hi. unfold get. apply (run_tmode Y Ms [1] idx 1 1 O); auto. Qed.

(* product over the dimensions of entries of a size-indexed family of square matrices *)
Fixpoint gprod (F : nat -> nat -> nat -> T) (ns idx jdx : list nat) : T :=
  match ns, idx, jdx with
  | n :: ns', i :: idx', j :: jdx' => F n i j * gprod F ns' idx' jdx'
  | _, _, _ => 1
  end.
Lemma mprod_map F ns : forall idx jdx, mprod (map F ns) idx jdx = gprod F ns idx jdx.
Proof.
  induction ns as [|n ns IH]; intros [|i idx] [|j jdx]; cbn [map mprod gprod]; auto. now rewrite IH.
Qed.
Lemma msum_gprod_comp F G ns : forall idx kdx, length idx = length ns -> length kdx = length ns ->
  msum K ns (fun jdx => gprod F ns idx jdx * gprod G ns jdx kdx) =
  gprod (fun n i k => bsum K n (fun j => F n i j * G n j k)) ns idx kdx.
Proof.
  induction ns as [|n ns IH]; intros [|i idx] [|k kdx] L1 L2; cbn [length] in *; try discriminate.
  - cbn [msum gprod]. ring.
  - cbn [msum gprod].
    rewrite (bsum_ext K n _ (fun j => F n i j * G n j k *
               gprod (fun n i k => bsum K n (fun j => F n i j * G n j k)) ns idx kdx)).
    2:{ intros j Hj. rewrite <- (IH idx kdx) by lia. rewrite <- msum_mul_l by auto.
        apply msum_ext; intros jdx _. ring. }
    rewrite bsum_mul_r by auto. reflexivity.
Qed.
Lemma msum_gprod_delta F ns : forall idx (c : list nat -> T), inb ns idx ->
  (forall n i j, In n ns -> i < n -> j < n -> F n i j = delta i j) ->
  msum K ns (fun jdx => gprod F ns idx jdx * c jdx) = c idx.
Proof.
  induction ns as [|n ns IH]; intros idx c H HF.
  - inversion H; subst. cbn [msum gprod]. ring.
  - destruct idx as [|i idx]; [inversion H|]. apply inb_cons in H as [Hi H]. cbn [msum].
    rewrite (bsum_single K Rth n i); auto.
    + cbn [gprod]. rewrite HF by (auto; left; auto). unfold delta. rewrite Nat.eqb_refl.
      rewrite (msum_ext K ns _ (fun jdx => gprod F ns idx jdx * c (i :: jdx))) by (intros; ring).
      apply (IH idx (fun jdx => c (i :: jdx))); auto. intros; apply HF; auto. right; auto.
    + intros j Hj Hne. rewrite (msum_ext K ns _ (fun _ => 0)); [apply msum_0; auto|].
      intros jdx _. cbn [gprod]. rewrite HF by (auto; left; auto). unfold delta.
      destruct (Nat.eqb_spec i j); [congruence|ring].
Qed.
Lemma gprod_ext F G ns : forall idx jdx, inb ns idx -> inb ns jdx ->
  (forall n i j, In n ns -> i < n -> j < n -> F n i j = G n i j) -> gprod F ns idx jdx = gprod G ns idx jdx.
Proof.
  induction ns as [|n ns IH]; intros [|i idx] [|j jdx] Hi Hj H; cbn [gprod]; auto.
  apply inb_cons in Hi as [Hi Hi']. apply inb_cons in Hj as [Hj Hj'].
  rewrite H by (auto; left; auto). f_equal. apply IH; auto. intros; apply H; auto. right; auto.
Qed.

(* two mode-wise maps whose 1-D matrices compose to the identity compose to the identity *)
Lemma msum_two_maps F G ns idx (c : list nat -> T) : inb ns idx ->
  (forall n i k, In n ns -> i < n -> k < n -> bsum K n (fun j => F n i j * G n j k) = delta i k) ->
  msum K ns (fun jdx => gprod F ns idx jdx * msum K ns (fun m => gprod G ns jdx m * c m)) = c idx.
Proof.
  intros Hi HFG. pose proof (inb_length _ _ Hi) as Li.
  rewrite (msum_ext K ns _ (fun jdx => msum K ns (fun m => gprod F ns idx jdx * gprod G ns jdx m * c m))).
  2:{ intros jdx Hj. rewrite <- msum_mul_l by auto. apply msum_ext; intros; ring. }
  rewrite msum_swap.
  rewrite (msum_ext K ns _ (fun m => gprod (fun n i k => bsum K n (fun j => F n i j * G n j k)) ns idx m * c m)).
  2:{ intros m Hm. pose proof (inb_length _ _ Hm) as Lm. rewrite <- msum_gprod_comp by auto.
      rewrite <- msum_mul_r. apply msum_ext; intros; ring. }
  apply msum_gprod_delta; auto.
Qed.
Lemma chain_map_cores (f : core T -> core T) : (forall G, cr1 (f G) = cr1 G /\ cr2 (f G) = cr2 G) ->
  forall Y r rl, chain r Y rl -> chain r (map f Y) rl.
Proof.
  intros Hf. induction Y as [|G Y IH]; intros r rl H; cbn [map chain] in *; auto.
  destruct H as [A B]. destruct (Hf G) as [E1 E2]. rewrite E1, E2. split; auto.
Qed.
Lemma shape_map_cores (f : core T -> core T) : (forall G, cn (f G) = cn G) -> forall Y, shape (map f Y) = shape Y.
Proof. intros Hf Y. unfold shape. rewrite map_map. apply map_ext. auto. Qed.
Lemma Forall_shape (P : nat -> Prop) (Y : list (core T)) : Forall P (shape Y) <-> Forall (fun G => P (cn G)) Y.
Proof. unfold shape. rewrite Forall_map. tauto. Qed.

(* a map over the cores that is a mode-wise matrix, core by core *)
Lemma map_tmode (f : core T -> core T) (M : nat -> nat -> nat -> T) Y :
  (forall G, In G Y -> f G = cmode (cn G) (M (cn G)) G) ->
  map f Y = tmode (map (fun G => (cn G, M (cn G))) Y) Y.
Proof.
  induction Y as [|G Y IH]; intros H; cbn [map tmode fst snd]; auto. f_equal.
  - apply H. left; auto.
  - apply IH. intros; apply H. right; auto.
Qed.
Lemma get_map_cmode (f : core T -> core T) (M : nat -> nat -> nat -> T) Y idx :
  (forall G, In G Y -> f G = cmode (cn G) (M (cn G)) G) -> chain 1 Y 1 -> inb (shape Y) idx ->
  get K (map f Y) idx = msum K (shape Y) (fun jdx => gprod M (shape Y) idx jdx * get K Y jdx).
Proof.
  intros H HC Hi. rewrite (map_tmode f M Y H). rewrite modewise_linear; auto.
  - apply msum_ext; intros jdx _. rewrite map_map. cbn [snd].
    change (map (fun x : core T => M (cn x)) Y) with (map (fun G => M (cn G)) Y).
    rewrite <- (map_map cn M). fold (shape Y). now rewrite mprod_map.
  - now rewrite map_length.
  - rewrite map_map. cbn [fst]. exact Hi.
Qed.

(* ================================================================ the model functions as mode-wise maps *)
Section Spec.
Variable cs : nat -> nat -> T.
Variable sn : nat -> nat -> T.
(* division is multiplication by the reciprocal (true in every field; at R and Qc) *)
Hypothesis Hdiv : forall x y, x / y = x * (1 / y).
Notation inv2 := (1 / ftwo).

(* ---------------------------------------------------------------- func_int *)
Definition wd (n k j : nat) : T :=
  if Nat.eqb j O then 1 else if Nat.eqb j (n - 1) then pm K k else ftwo * cs (n - 1) (j * k).
Definition hfac (n k : nat) : T := (if Nat.eqb k O then inv2 else 1) * (if Nat.eqb k (n - 1) then inv2 else 1).
(* the matrix of the Chebyshev coefficient transform for a grid of n points *)
Definition dmat (n k j : nat) : T := wd n k j * (1 / fnat K (n - 1)) * hfac n k.
Definition smat (n k j : nat) : T := ftwo * sn (n + 1) ((k + 1) * (j + 1)) * (1 / fnat K (n + 1)).

Lemma dct1_sum n x k : 2 <= n -> dct1 K cs n x k = bsum K n (fun j => wd n k j * x j).
Proof.
  intros Hn. destruct n as [|[|p]]; try lia. unfold dct1.
  replace (S (S p) - 2)%nat with p by lia. replace (S (S p) - 1)%nat with (S p) by lia.
  rewrite bsum_S_l by auto. cbn [bsum]. unfold wd. replace (S (S p) - 1)%nat with (S p) by lia.
  cbn [Nat.eqb]. rewrite Nat.eqb_refl.
  rewrite (bsum_ext K p (fun i => (if Nat.eqb i p then pm K k else ftwo * cs (S p) (S i * k)) * x (S i))
             (fun i => ftwo * (x (S i) * cs (S p) (S i * k)))).
  2:{ intros i Hi. destruct (Nat.eqb_spec i p); [lia|]. ring. }
  rewrite bsum_mul_l by auto. ring.
Qed.
Lemma halve_ends_mul n k v : halve_ends K n k v = v * hfac n k.
Proof.
  unfold halve_ends, hfac. destruct (Nat.eqb k O), (Nat.eqb k (n - 1));
    [rewrite (Hdiv (v / ftwo)), (Hdiv v) | rewrite (Hdiv v) | rewrite (Hdiv v) | ]; ring.
Qed.
Lemma int_core_cheb G : 2 <= cn G -> int_core K cs sn Cheb G = cmode (cn G) (dmat (cn G)) G.
Proof.
  intros Hn. unfold int_core, cmode. apply mkcore_ext; intros a k b Ha Hk Hb.
  rewrite halve_ends_mul, (Hdiv (dct1 K cs (cn G) _ k)), dct1_sum by auto. rewrite <- !bsum_mul_r by auto.
  apply bsum_ext; intros j Hj. unfold dmat. ring.
Qed.
Lemma int_core_sin G : int_core K cs sn Sin G = cmode (cn G) (smat (cn G)) G.
Proof.
  unfold int_core, cmode. apply mkcore_ext; intros a k b Ha Hk Hb.
  rewrite (Hdiv (dst1 K sn (cn G) _ k)). unfold dst1. rewrite <- bsum_mul_l, <- bsum_mul_r by auto.
  apply bsum_ext; intros j Hj. unfold smat. ring.
Qed.
Lemma func_int_cheb_ok Y : Forall (fun G => 2 <= cn G) Y -> func_int K cs sn Y Cheb = Ok (map (int_core K cs sn Cheb) Y).
Proof.
  intros H. unfold func_int. replace (forallb (fun G => 2 <=? cn G) Y) with true; auto.
  symmetry. apply forallb_forall. rewrite Forall_forall in H. intros G HG. apply Nat.leb_le. auto.
Qed.
Lemma func_int_cheb_err Y : ~ Forall (fun G => 2 <= cn G) Y -> func_int K cs sn Y Cheb = Err OtherError.
Proof.
  intros H. unfold func_int. destruct (forallb (fun G => 2 <=? cn G) Y) eqn:E; auto.
  exfalso. apply H. apply Forall_forall. intros G HG. rewrite forallb_forall in E. apply Nat.leb_le. auto.
Qed.
(* coefficients = mode-wise transform of the values *)
Lemma get_int_cheb Y idx : chain 1 Y 1 -> Forall (fun G => 2 <= cn G) Y -> inb (shape Y) idx ->
  get K (map (int_core K cs sn Cheb) Y) idx =
  msum K (shape Y) (fun jdx => gprod dmat (shape Y) idx jdx * get K Y jdx).
Proof.
  intros HC Hn Hi. apply get_map_cmode; auto. intros G HG. apply int_core_cheb.
  rewrite Forall_forall in Hn. auto.
Qed.
Lemma get_int_sin Y idx : chain 1 Y 1 -> inb (shape Y) idx ->
  get K (map (int_core K cs sn Sin) Y) idx =
  msum K (shape Y) (fun jdx => gprod smat (shape Y) idx jdx * get K Y jdx).
Proof. intros HC Hi. apply get_map_cmode; auto. intros G HG. apply int_core_sin. Qed.

(* linearity of the coefficient transform in the tensor entries *)
Lemma int_cheb_linear Y Y1 Y2 al be idx :
  chain 1 Y 1 -> chain 1 Y1 1 -> chain 1 Y2 1 -> shape Y1 = shape Y -> shape Y2 = shape Y ->
  Forall (fun n => 2 <= n) (shape Y) -> inb (shape Y) idx ->
  (forall jdx, inb (shape Y) jdx -> get K Y jdx = al * get K Y1 jdx + be * get K Y2 jdx) ->
  get K (map (int_core K cs sn Cheb) Y) idx =
  al * get K (map (int_core K cs sn Cheb) Y1) idx + be * get K (map (int_core K cs sn Cheb) Y2) idx.
Proof.
  intros C0 C1 C2 S1 S2 Hn Hi H.
  assert (F : forall Z : list (core T), shape Z = shape Y -> Forall (fun G => 2 <= cn G) Z).
  { intros Z SZ. apply Forall_forall. intros G HG. rewrite Forall_forall in Hn. apply Hn.
    rewrite <- SZ. unfold shape. now apply in_map. }
  rewrite (get_int_cheb Y idx) by auto.
  rewrite (get_int_cheb Y1 idx) by (auto; rewrite S1; auto).
  rewrite (get_int_cheb Y2 idx) by (auto; rewrite S2; auto). rewrite S1, S2.
  rewrite <- !msum_mul_l, <- msum_add by auto. apply msum_ext; intros jdx Hj. rewrite H by auto. ring.
Qed.

(* ---------------------------------------------------------------- polynomials in the Chebyshev basis *)
(* prod_k T_{m_k}(xi_k) and the polynomial with coefficient tensor c, at the (scaled) point xi *)
Fixpoint tprod (xi : list T) (m : list nat) : T :=
  match xi, m with
  | x :: xi', k :: m' => chebT K x k * tprod xi' m'
  | _, _ => 1
  end.
Definition polyv (ns : list nat) (c : list nat -> T) (xi : list T) : T :=
  msum K ns (fun m => c m * tprod xi m).
Lemma polyv_ext ns c c' xi : (forall m, inb ns m -> c m = c' m) -> polyv ns c xi = polyv ns c' xi.
Proof. intros H. apply msum_ext; intros m Hm. now rewrite H. Qed.

(* ---------------------------------------------------------------- func_gets *)
Definition nodeU (m j : nat) : T := ind_to_poi_cheb K cs j (fm1 K) 1 m.
Fixpoint nodesU (ms jdx : list nat) : list T :=
  match ms, jdx with
  | m :: ms', j :: jdx' => nodeU m j :: nodesU ms' jdx'
  | _, _ => []
  end.
Definition getsM (kind : fkind) (m : nat) : nat -> nat -> T :=
  fun j i => match kind with Cheb => chebT K (nodeU m j) i | Sin => sn (m + 1) ((j + 1) * (i + 1)) end.
Lemma gets_core_cmode kind G m : gets_core K cs sn kind G m = cmode m (getsM kind m) G.
Proof.
  unfold gets_core, cmode. apply mkcore_ext; intros a j b Ha Hj Hb. apply bsum_ext; intros i Hi.
  unfold gets_table, getsM. destruct kind.
  - rewrite nth_tab by auto. rewrite nth_func_basis1 by auto. unfold nodeU. ring.
  - rewrite nth_tab by auto. rewrite nth_tab by auto. ring.
Qed.
Fixpoint getsMs (kind : fkind) (A : list (core T)) (ms : list nat) : list (nat * (nat -> nat -> T)) :=
  match A, ms with
  | G :: A', m :: ms' => (m, getsM kind m) :: getsMs kind A' ms'
  | _, _ => []
  end.
Lemma func_gets_tmode kind : forall A ms, func_gets K cs sn A ms kind = tmode (getsMs kind A ms) A.
Proof.
  induction A as [|G A IH]; intros [|m ms]; cbn [func_gets getsMs tmode fst snd]; auto.
  rewrite gets_core_cmode, IH. reflexivity.
Qed.
Lemma getsMs_fst kind : forall A ms, length ms = length A -> map fst (getsMs kind A ms) = ms.
Proof.
  induction A as [|G A IH]; intros [|m ms] L; cbn [length] in L; try discriminate; cbn [getsMs map fst]; auto.
  f_equal. apply IH. lia.
Qed.
Lemma getsMs_length kind : forall A ms, length ms = length A -> length (getsMs kind A ms) = length A.
Proof.
  induction A as [|G A IH]; intros [|m ms] L; cbn [length] in L; try discriminate; cbn [getsMs length]; auto;
  try (f_equal; apply IH; lia).
Qed.
Lemma mprod_gets_cheb : forall A ms jdx idx, length ms = length A ->
  mprod (map snd (getsMs Cheb A ms)) jdx idx = tprod (nodesU ms jdx) idx.
Proof.
  induction A as [|G A IH]; intros [|m ms] jdx idx L; cbn [length] in L; try discriminate.
  - cbn [getsMs map mprod nodesU tprod]. reflexivity.
  - destruct jdx as [|j jdx]; [reflexivity|]. destruct idx as [|i idx]; [reflexivity|].
    cbn [getsMs map snd mprod nodesU tprod]. rewrite IH by lia. reflexivity.
Qed.
(* re-sampling: the entries of func_gets are the values of the polynomial with coefficients A at the nodes *)
Lemma get_gets_cheb A ms jdx : chain 1 A 1 -> length ms = length A -> inb ms jdx ->
  get K (func_gets K cs sn A ms Cheb) jdx = polyv (shape A) (get K A) (nodesU ms jdx).
Proof.
  intros HC L Hj. rewrite func_gets_tmode. rewrite modewise_linear; auto.
  - apply msum_ext; intros idx _. rewrite mprod_gets_cheb by auto. ring.
  - now apply getsMs_length.
  - rewrite getsMs_fst; auto.
Qed.
(* same-size grids: the matrix family of func_gets *)
Lemma mprod_gets_same kind : forall A jdx idx,
  mprod (map snd (getsMs kind A (shape A))) jdx idx = gprod (getsM kind) (shape A) jdx idx.
Proof.
  induction A as [|G A IH]; intros [|j jdx] [|i idx]; cbn [shape map getsMs mprod gprod snd]; auto.
  f_equal. apply IH.
Qed.
Lemma get_gets_same kind A jdx : chain 1 A 1 -> inb (shape A) jdx ->
  get K (func_gets K cs sn A (shape A) kind) jdx =
  msum K (shape A) (fun idx => gprod (getsM kind) (shape A) jdx idx * get K A idx).
Proof.
  intros HC Hj. assert (L : length (shape A) = length A) by (unfold shape; apply map_length).
  rewrite func_gets_tmode. rewrite modewise_linear; auto.
  - apply msum_ext; intros idx _. now rewrite mprod_gets_same.
  - now apply getsMs_length.
  - rewrite getsMs_fst; auto.
Qed.

(* ---------------------------------------------------------------- func_get *)
Fixpoint bprod (ts : list (list T)) (idx : list nat) : T :=
  match ts, idx with
  | t :: ts', i :: idx' => nth i t 0 * bprod ts' idx'
  | _, _ => 1
  end.
Definition rowMs (ts : list (list T)) : list (nat * (nat -> nat -> T)) :=
  map (fun t => (1%nat, fun (_ i : nat) => nth i t 0)) ts.
Lemma vstepb_cmode v G t : vstepb K v G t = vstep K v (cmode 1 (fun _ i => nth i t 0) G) O.
Proof.
  unfold vstepb, vstep. unfold cmode at 1. rewrite cr2_mk. apply tab_ext; intros q Hq.
  unfold cmode at 1. rewrite cr1_mk. apply bsum_ext; intros r Hr. f_equal.
  unfold cmode. rewrite cget_mk by auto. apply bsum_ext; intros j Hj. ring.
Qed.
Lemma runb_tmode : forall A ts v, length ts = length A ->
  runb K v A ts = run K v (tmode (rowMs ts) A) (map (fun _ => O) ts).
Proof.
  induction A as [|G A IH]; intros [|t ts] v L; cbn [length] in L; try discriminate; cbn [runb rowMs map tmode run fst snd]; auto.
  rewrite vstepb_cmode. apply IH. lia.
Qed.
Lemma mprod_rows : forall ts idx, mprod (map snd (rowMs ts)) (map (fun _ => O) ts) idx = bprod ts idx.
Proof.
  induction ts as [|t ts IH]; intros [|i idx]; cbn [rowMs map snd mprod bprod]; auto.
  f_equal. apply IH.
Qed.
Lemma inb_rows ts : inb (map fst (rowMs ts)) (map (fun _ => O) ts).
Proof. unfold inb. induction ts; cbn [rowMs map fst]; constructor; auto. Qed.
Lemma contract_basis_msum A ts : chain 1 A 1 -> length ts = length A ->
  contract_basis K A ts = msum K (shape A) (fun idx => bprod ts idx * get K A idx).
Proof.
  intros HC L. unfold contract_basis. rewrite runb_tmode by auto.
  change (nth O (run K [1] (tmode (rowMs ts) A) (map (fun _ => O) ts)) 0)
    with (get K (tmode (rowMs ts) A) (map (fun _ => O) ts)).
  rewrite modewise_linear; auto.
  - apply msum_ext; intros idx _. now rewrite mprod_rows.
  - unfold rowMs. now rewrite map_length.
  - apply inb_rows.
Qed.
Fixpoint scaled (x a b : list T) : list T :=
  match x, a, b with
  | xk :: x', ak :: a', bk :: b' => poi_scale_cheb K xk ak bk :: scaled x' a' b'
  | _, _, _ => []
  end.
Lemma bprod_basis_rows : forall A x a b idx, length x = length A -> length a = length A -> length b = length A ->
  inb (shape A) idx -> bprod (basis_rows K x A a b) idx = tprod (scaled x a b) idx.
Proof.
  induction A as [|G A IH]; intros [|xk x] [|ak a] [|bk b] idx Lx La Lb Hi; cbn [length] in *; try discriminate.
  - reflexivity.
  - destruct idx as [|i idx]; [inversion Hi|]. cbn [shape map] in Hi. apply inb_cons in Hi as [Hi Hi'].
    cbn [basis_rows bprod scaled tprod]. rewrite nth_func_basis1 by auto. rewrite IH; auto.
Qed.
Lemma basis_rows_length : forall A x a b, length x = length A -> length a = length A -> length b = length A ->
  length (basis_rows K x A a b) = length A.
Proof.
  induction A as [|G A IH]; intros [|xk x] [|ak a] [|bk b] Lx La Lb; cbn [length] in *; try discriminate; auto.
  cbn [basis_rows length]; try (f_equal; apply IH; lia).
Qed.
(* evaluation: inside the box func_get returns the polynomial with coefficient tensor A at the scaled point *)
Lemma func_get1_in tol x A a b z skip : chain 1 A 1 ->
  length x = length A -> length a = length A -> length b = length A ->
  skip && out_box K tol x a b = false ->
  func_get1 K tol x A a b z skip = polyv (shape A) (get K A) (scaled x a b).
Proof.
  intros HC Lx La Lb Hin. unfold func_get1, func_get1_rows. rewrite Hin.
  rewrite contract_basis_msum by (auto using basis_rows_length).
  apply msum_ext; intros idx Hi. rewrite bprod_basis_rows by auto. ring.
Qed.
Lemma func_get1_out tol x A a b z : out_box K tol x a b = true -> func_get1 K tol x A a b z true = z.
Proof. intros H. unfold func_get1, func_get1_rows. rewrite H. reflexivity. Qed.

(* ---------------------------------------------------------------- func_sum *)
Lemma bsum_even n (f : nat -> T) :
  bsum K ((n + 1) / 2) (fun t => f (2 * t)%nat) = bsum K n (fun i => if Nat.even i then f i else 0).
Proof.
  induction n as [|n IH]; [reflexivity|]. cbn [bsum]. rewrite <- IH. clear IH.
  destruct (Nat.even n) eqn:E.
  - apply Nat.even_spec in E. destruct E as [q ->].
    replace ((S (2 * q) + 1) / 2)%nat with (S q).
    2:{ replace (S (2 * q) + 1)%nat with ((1 + q) * 2)%nat by lia. now rewrite Nat.div_mul by lia. }
    replace ((2 * q + 1) / 2)%nat with q.
    2:{ apply (Nat.div_unique (2 * q + 1) 2 q 1); lia. }
    cbn [bsum]. reflexivity.
  - assert (O' : Nat.odd n = true) by (rewrite <- Nat.negb_even, E; reflexivity).
    apply Nat.odd_spec in O'. destruct O' as [q ->].
    replace ((S (2 * q + 1) + 1) / 2)%nat with (S q).
    2:{ apply (Nat.div_unique (S (2 * q + 1) + 1) 2 (S q) 1); lia. }
    replace ((2 * q + 1 + 1) / 2)%nat with (S q).
    2:{ replace (2 * q + 1 + 1)%nat with ((1 + q) * 2)%nat by lia. now rewrite Nat.div_mul by lia. }
    ring.
Qed.
(* the weight of the k-th coefficient in the integral: p[k/2] for even k, nothing for odd k *)
Definition wsum (kind : fkind) (i : nat) : T := if Nat.even i then sum_p K kind (i / 2) else 0.
Definition sumrow (kind : fkind) (ak bk : T) : nat -> nat -> T := fun _ i => wsum kind i * ((bk - ak) / ftwo).
Lemma sum_step_cmode kind v G ak bk :
  sum_step K kind v G ak bk = vstep K v (cmode 1 (sumrow kind ak bk) G) O.
Proof.
  unfold sum_step, vstep. unfold cmode at 1. rewrite cr2_mk. apply tab_ext; intros q Hq.
  unfold cmode at 1. rewrite cr1_mk. rewrite <- bsum_mul_r by auto. apply bsum_ext; intros r Hr.
  unfold cmode. rewrite cget_mk by auto.
  rewrite (bsum_ext K ((cn G + 1) / 2) _ (fun t => (fun i => sum_p K kind (i / 2) * cget K G r i q) (2 * t)%nat)).
  2:{ intros t Ht. cbv beta. rewrite (Nat.mul_comm 2 t), Nat.div_mul by lia. reflexivity. }
  rewrite (bsum_even (cn G) (fun i => sum_p K kind (i / 2) * cget K G r i q)).
  transitivity (nth r v 0 * (bsum K (cn G) (fun i => if Nat.even i then sum_p K kind (i / 2) * cget K G r i q else 0)
                             * ((bk - ak) / ftwo))); [ring|]. f_equal.
  rewrite <- bsum_mul_r by auto. apply bsum_ext; intros i Hi. unfold sumrow, wsum.
  destruct (Nat.even i); ring.
Qed.
Fixpoint sumMs (kind : fkind) (a b : list T) : list (nat * (nat -> nat -> T)) :=
  match a, b with
  | ak :: a', bk :: b' => (1%nat, sumrow kind ak bk) :: sumMs kind a' b'
  | _, _ => []
  end.
Lemma sum_run_tmode kind : forall A a b v, length a = length A -> length b = length A ->
  sum_run K kind v A a b = run K v (tmode (sumMs kind a b) A) (map (fun _ => O) a).
Proof.
  induction A as [|G A IH]; intros [|ak a] [|bk b] v La Lb; cbn [length] in *; try discriminate;
    cbn [sum_run sumMs map tmode run fst snd]; auto.
  rewrite sum_step_cmode. apply IH; lia.
Qed.
Fixpoint wprod (kind : fkind) (a b : list T) (idx : list nat) : T :=
  match a, b, idx with
  | ak :: a', bk :: b', i :: idx' => wsum kind i * ((bk - ak) / ftwo) * wprod kind a' b' idx'
  | _, _, _ => 1
  end.
Fixpoint vol (a b : list T) : T :=
  match a, b with ak :: a', bk :: b' => (bk - ak) / ftwo * vol a' b' | _, _ => 1 end.
Fixpoint wsprod (kind : fkind) (idx : list nat) : T :=
  match idx with i :: idx' => wsum kind i * wsprod kind idx' | [] => 1 end.
Lemma mprod_sum kind : forall a b idx, length b = length a ->
  mprod (map snd (sumMs kind a b)) (map (fun _ => O) a) idx = wprod kind a b idx.
Proof.
  induction a as [|ak a IH]; intros [|bk b] idx L; cbn [length] in L; try discriminate; [reflexivity|].
  destruct idx as [|i idx]; [reflexivity|]. cbn [sumMs map snd mprod wprod]. rewrite IH by lia. reflexivity.
Qed.
Lemma wprod_vol kind : forall a b idx, length b = length a -> length idx = length a ->
  wprod kind a b idx = vol a b * wsprod kind idx.
Proof.
  induction a as [|ak a IH]; intros [|bk b] [|i idx] L L'; cbn [length] in *; try discriminate;
    cbn [wprod vol wsprod]; [ring|]. rewrite IH by lia. ring.
Qed.
Lemma sumMs_props kind : forall a b, length b = length a ->
  length (sumMs kind a b) = length a /\ inb (map fst (sumMs kind a b)) (map (fun _ => O) a).
Proof.
  unfold inb. induction a as [|ak a IH]; intros [|bk b] L; cbn [length] in L; try discriminate; cbn [sumMs map fst length].
  - split; auto.
  - destruct (IH b ltac:(lia)) as [A B]. split; [lia|]. constructor; auto.
Qed.
(* func_sum = prod (b_k - a_k)/2 * sum over all coefficients of the weight product *)
Lemma func_sum_msum kind A a b : chain 1 A 1 -> length a = length A -> length b = length A ->
  func_sum K A a b kind = vol a b * msum K (shape A) (fun m => wsprod kind m * get K A m).
Proof.
  intros HC La Lb. unfold func_sum. rewrite sum_run_tmode by auto.
  change (nth O (run K [1] (tmode (sumMs kind a b) A) (map (fun _ => O) a)) 0)
    with (get K (tmode (sumMs kind a b) A) (map (fun _ => O) a)).
  destruct (sumMs_props kind a b ltac:(lia)) as [L1 L2].
  rewrite modewise_linear; auto; [|lia].
  rewrite <- msum_mul_l by auto. apply msum_ext; intros idx Hi.
  rewrite mprod_sum by lia. rewrite wprod_vol; [ring|lia|].
  apply inb_length in Hi. unfold shape in Hi. rewrite map_length in Hi. lia.
Qed.
End Spec.

(* ---------------------------------------------------------------- cores equal as functions inside their bounds *)
Definition ceq (G G' : core T) : Prop :=
  cr1 G = cr1 G' /\ cn G = cn G' /\ cr2 G = cr2 G' /\
  forall a i b, a < cr1 G -> i < cn G -> b < cr2 G -> cget K G a i b = cget K G' a i b.
Lemma run_ceq Y Y' : Forall2 ceq Y Y' -> forall v idx, inb (shape Y) idx -> run K v Y idx = run K v Y' idx.
Proof.
  induction 1 as [|G G' Y Y' (E1 & E2 & E3 & E) HF IH]; intros v idx Hi; [reflexivity|].
  destruct idx as [|i idx]; [inversion Hi|]. cbn [shape map] in Hi. apply inb_cons in Hi as [Hi Hi'].
  cbn [run]. replace (vstep K v G' i) with (vstep K v G i); [apply IH; auto|].
  unfold vstep. rewrite <- E1, <- E3. apply tab_ext; intros b Hb. apply bsum_ext; intros a Ha. now rewrite E.
Qed.
Lemma get_ceq Y Y' idx : Forall2 ceq Y Y' -> inb (shape Y) idx -> get K Y idx = get K Y' idx.
Proof. intros H Hi. unfold get. now rewrite (run_ceq Y Y' H). Qed.
Lemma ceq_shape Y Y' : Forall2 ceq Y Y' -> shape Y = shape Y'.
Proof. induction 1 as [|G G' Y Y' (E1 & E2 & E3 & E) HF IH]; cbn [shape map]; auto. f_equal; auto. Qed.

(* ---------------------------------------------------------------- func_int_general, given the lstsq contract *)
Section General.
Variable lstsq : nat -> mat T -> mat T -> mat T.
(* contract of scipy.linalg.lstsq (a minimiser of |H Q - M|) for call number k with arguments H, M:
   when the system is consistent the residual is zero (and the result has the right shape) *)
Definition lstsq_ok (k : nat) (H M : mat T) : Prop := mr M = mr H ->
  (exists Q0, mr Q0 = mc H /\ mc Q0 = mc M /\ meq K (mmul K H Q0) M) ->
  mr (lstsq k H M) = mc H /\ mc (lstsq k H M) = mc M /\ meq K (mmul K H (lstsq k H M)) M.
(* the right-hand side func_int_general builds from a core:  M = transpose(G, [1,0,2]).reshape(n, -1) *)
Definition gmat (G : core T) : mat T :=
  mkmat (cn G) (cr1 G * cr2 G) (fun i c => cget K G (c / cr2 G) i (c mod cr2 G)).

(* the mode fibres of G lie in the column space of H, with coefficient core C *)
Definition in_span (H : mat T) (G C : core T) : Prop :=
  mr H = cn G /\ cr1 C = cr1 G /\ cn C = mc H /\ cr2 C = cr2 G /\
  forall a i b, a < cr1 G -> i < cn G -> b < cr2 G ->
    cget K G a i b = bsum K (mc H) (fun j => mget K H i j * cget K C a j b).
(* full column rank, as left-cancellation *)
Definition full_col_rank (H : mat T) : Prop :=
  forall Q Q', mr Q = mc H -> mr Q' = mc H -> mc Q = mc Q' -> meq K (mmul K H Q) (mmul K H Q') -> meq K Q Q'.

Lemma divmod_idx a b r2 : b < r2 -> ((a * r2 + b) / r2 = a /\ (a * r2 + b) mod r2 = b)%nat.
Proof.
  intros Hb. split.
  - rewrite Nat.div_add_l by lia. rewrite Nat.div_small by lia. lia.
  - rewrite Nat.add_comm, Nat.mod_add by lia. apply Nat.mod_small; lia.
Qed.
Lemma general_core_fit k H G C : lstsq_ok k H (gmat G) -> in_span H G C ->
  let A := general_core K lstsq k H G in
  let M := mkmat (cn G) (cr1 G * cr2 G) (fun i c => cget K G (c / cr2 G) i (c mod cr2 G)) in
  cr1 A = cr1 G /\ cn A = mc H /\ cr2 A = cr2 G /\ mc (lstsq k H M) = (cr1 G * cr2 G)%nat /\
  meq K (mmul K H (lstsq k H M)) M.
Proof.
  intros Hok (E0 & E1 & E2 & E3 & E) A M.
  assert (S : mr (lstsq k H M) = mc H /\ mc (lstsq k H M) = mc M /\ meq K (mmul K H (lstsq k H M)) M).
  { apply Hok; [unfold gmat; rewrite mr_mk; auto|]. change (gmat G) with M.
    exists (mkmat (mc H) (cr1 G * cr2 G) (fun j c => cget K C (c / cr2 G) j (c mod cr2 G))).
    split; [apply mr_mk|]. split; [unfold M; now rewrite !mc_mk|].
    split; [unfold mmul, M; rewrite !mr_mk; auto|]. split; [unfold mmul, M; rewrite !mc_mk; auto|].
    intros i c Hi Hc. unfold mmul in Hi, Hc. rewrite mr_mk in Hi. rewrite mc_mk in Hc.
    unfold M. rewrite mc_mk in Hc. rewrite mget_mmul by (rewrite ?mc_mk; auto). rewrite mget_mk by (auto; lia).
    assert (Hr2 : 0 < cr2 G) by (destruct (cr2 G); lia).
    assert (c / cr2 G < cr1 G) by (apply Nat.div_lt_upper_bound; lia).
    assert (c mod cr2 G < cr2 G) by (apply Nat.mod_upper_bound; lia).
    rewrite E by (auto; lia). apply bsum_ext; intros j Hj. rewrite mget_mk by auto. reflexivity. }
  destruct S as (S1 & S2 & S3). unfold A, general_core. fold M. rewrite cr1_mk, cn_mk, cr2_mk.
  split; [reflexivity|]. split; [exact S1|]. split; [reflexivity|]. split; [|exact S3].
  unfold M in S2. rewrite mc_mk in S2. exact S2.
Qed.
(* the fitted coefficients reproduce the data at the sample points *)
Theorem general_core_reproduces k H G C : lstsq_ok k H (gmat G) -> in_span H G C ->
  ceq (cmode (mr H) (mget K H) (general_core K lstsq k H G)) G.
Proof.
  intros Hok HS. destruct (general_core_fit k H G C Hok HS) as (A1 & A2 & A3 & A4 & (M1 & M2 & M3)).
  destruct HS as (E0 & E1 & E2 & E3 & E).
  unfold ceq, cmode. rewrite cr1_mk, cn_mk, cr2_mk. rewrite A1, A3. repeat split; auto.
  intros a i b Ha Hi Hb. rewrite cget_mk by auto. rewrite A2.
  destruct (divmod_idx a b (cr2 G) Hb) as [D1 D2].
  assert (Hc : a * cr2 G + b < cr1 G * cr2 G) by nia.
  specialize (M3 i (a * cr2 G + b)%nat). unfold mmul in M3. rewrite mr_mk, mc_mk in M3.
  rewrite mget_mk in M3 by (auto; lia). rewrite mget_mk in M3 by (auto; lia).
  rewrite D1, D2 in M3. rewrite <- M3 by (auto; lia).
  apply bsum_ext; intros j Hj. unfold general_core. rewrite cget_mk; auto.
  unfold general_core in A2. rewrite cn_mk in A2. lia.
Qed.
(* with full column rank the fitted coefficients are the coefficients *)
Theorem general_core_exact k H G C : lstsq_ok k H (gmat G) -> in_span H G C -> full_col_rank H ->
  ceq (general_core K lstsq k H G) C.
Proof.
  intros Hok HS HF. destruct (general_core_fit k H G C Hok HS) as (A1 & A2 & A3 & A4 & HM).
  destruct HS as (E0 & E1 & E2 & E3 & E).
  set (M := mkmat (cn G) (cr1 G * cr2 G) (fun i c => cget K G (c / cr2 G) i (c mod cr2 G))) in *.
  set (Q0 := mkmat (mc H) (cr1 G * cr2 G) (fun j c => cget K C (c / cr2 G) j (c mod cr2 G))).
  assert (HQ0 : meq K (mmul K H Q0) M).
  { split; [unfold mmul, M; rewrite !mr_mk; auto|]. split; [unfold mmul, M, Q0; rewrite !mc_mk; auto|].
    intros i c Hi Hc. unfold mmul in Hi, Hc. rewrite mr_mk in Hi. rewrite mc_mk in Hc. unfold Q0 in Hc. rewrite mc_mk in Hc.
    rewrite mget_mmul by (unfold Q0; rewrite ?mc_mk; auto). unfold M. rewrite mget_mk by (auto; lia).
    assert (Hr2 : 0 < cr2 G) by (destruct (cr2 G); lia).
    assert (c / cr2 G < cr1 G) by (apply Nat.div_lt_upper_bound; lia).
    assert (c mod cr2 G < cr2 G) by (apply Nat.mod_upper_bound; lia).
    rewrite E by (auto; lia). apply bsum_ext; intros j Hj. unfold Q0. rewrite mget_mk by auto. reflexivity. }
  assert (A2' : mr (lstsq k H M) = mc H) by (unfold general_core in A2; fold M in A2; rewrite cn_mk in A2; exact A2).
  assert (HE : meq K (lstsq k H M) Q0).
  { apply HF; [exact A2' | unfold Q0; apply mr_mk | unfold Q0; rewrite mc_mk; exact A4
               | eapply meq_trans; [exact HM | apply meq_sym; exact HQ0]]. }
  destruct HE as (_ & _ & HE).
  unfold ceq. rewrite A1, A2, A3. repeat split; auto; try congruence.
  intros a j b Ha Hj Hb. unfold general_core. fold M. rewrite cget_mk by (auto; lia).
  assert (Hc : a * cr2 G + b < cr1 G * cr2 G) by nia.
  rewrite HE by lia. unfold Q0. rewrite mget_mk by auto.
  destruct (divmod_idx a b (cr2 G) Hb) as [D1 D2]. now rewrite D1, D2.
Qed.
(* TT level: data generated from a coefficient TT-tensor C through the basis matrices Hs *)
Lemma general_from_exact : (forall k H M, lstsq_ok k H M) ->
  forall Y Hs Cs k, Forall2 (fun HG C => in_span (fst HG) (snd HG) C /\ full_col_rank (fst HG)) (combine Hs Y) Cs ->
  length Hs = length Y -> Forall2 ceq (func_int_general_from K lstsq k Y Hs) Cs.
Proof.
  intros Hall. induction Y as [|G Y IH]; intros [|H Hs] Cs k HF L; cbn [length] in L; try discriminate; cbn [combine] in HF;
    cbn [func_int_general_from].
  - inversion HF; constructor.
  - inversion HF as [|? C ? Cs' [HS HR] HF']; subst. cbn [fst snd] in *. constructor.
    + apply general_core_exact; auto.
    + apply IH; auto.
Qed.
End General.
End FuncP.
