(* C02, part 2: the right-to-left sweep of truncate.
   [gsweep fact] is trunc_sweep with the matrix factorisation abstracted; [fact_ok] is the contract of one
   factorisation step (U V = M V^T V, V has orthonormal rows or is zero); [gsweep_spec] gives chain / shape / ranks
   and the error bound  |Zs - W|^2 <= (d-1) * delta^2  when no returned rank reaches the cap. *)
From Coq Require Import List Arith Lia Ring PeanoNat ZArith Bool Reals Lra.
From TV Require Import Num.Ops Lin.Tab Lin.BigSum Lin.Mat TT.Chain Model.Transformation Model.Svd
  Proofs.TransformationP Proofs.TransformationP2 Proofs.OrthP Proofs.OrthP2 Proofs.StabRP Proofs.TruncP Proofs.FrobP.
Import ListNotations.

(* ---------------------------------------------------------------------------------------------------
   the sweep with an abstract factorisation
   --------------------------------------------------------------------------------------------------- *)
Section GSweep.
Context {T : Type} (K : ops T).
Variable fact : nat -> mat T -> mat T * mat T.
Fixpoint gsweep (Zs : list (core T)) (k n : nat) : list (core T) :=
  match n with
  | O => Zs
  | S n' =>
      let G := nth k Zs dcore in
      let UV := fact k (unfoldR K G) in
      let Zs1 := upd Zs k (foldR K (cn G) (cr2 G) (snd UV)) in
      let Zs2 := upd Zs1 (k - 1) (core_mulR K (nth (k - 1) Zs1 dcore) (fst UV)) in
      gsweep Zs2 (k - 1) n'
  end.

Lemma upd_app1 {A} (l l' : list A) k v : k < length l -> upd (l ++ l') k v = upd l k v ++ l'.
Proof. revert k; induction l as [|x l IH]; intros [|k] H; cbn in *; try lia; auto. now rewrite IH by lia. Qed.
(* the sweep over the positions below the last core does not look at the last core *)
Lemma gsweep_app n : forall Zs k X, k < length Zs -> gsweep (Zs ++ [X]) k n = gsweep Zs k n ++ [X].
Proof.
  induction n as [|n IH]; intros Zs k X Hk; [reflexivity|]. cbn [gsweep]. cbv zeta.
  rewrite (app_nth1 Zs [X] dcore Hk). rewrite upd_app1 by exact Hk.
  rewrite app_nth1 by (rewrite upd_length; lia). rewrite upd_app1 by (rewrite upd_length; lia).
  apply IH. rewrite !upd_length. lia.
Qed.
(* one step on  P0 ++ [A; G] *)
Lemma gsweep_step P0 A G n : let k := S (length P0) in
  gsweep (P0 ++ [A; G]) k (S n) =
  gsweep (P0 ++ [core_mulR K A (fst (fact k (unfoldR K G)))] ++ [foldR K (cn G) (cr2 G) (snd (fact k (unfoldR K G)))])
         (length P0) n.
Proof.
  cbv zeta. cbn [gsweep]. cbv zeta. rewrite nth_mid2. rewrite upd_mid2.
  replace (S (length P0) - 1) with (length P0) by lia. rewrite nth_mid, upd_mid. reflexivity.
Qed.
End GSweep.

Lemma trunc_sweep_gsweep {T} (K : ops T) svdo eigh argsort e rcap (b : bool) n : forall Zs k,
  trunc_sweep K svdo eigh argsort Zs e rcap b k n =
  gsweep K (fun k M => if b then matrix_svd K eigh argsort k M e rcap
                       else matrix_skeleton K svdo k M e rcap false GiveL) Zs k n.
Proof.
  induction n as [|n IH]; intros Zs k; [reflexivity|]. cbn [trunc_sweep gsweep]. cbv beta zeta.
  destruct (if b then matrix_svd K eigh argsort k (unfoldR K (nth k Zs dcore)) e rcap
            else matrix_skeleton K svdo k (unfoldR K (nth k Zs dcore)) e rcap false GiveL) as [U V].
  cbn [fst snd]. apply IH.
Qed.

(* ---------------------------------------------------------------------------------------------------
   the contract of one factorisation step, and what one step does to the distance (any commutative ring)
   --------------------------------------------------------------------------------------------------- *)
Section StepAlg.
Context {T : Type} (K : ops T).
Notation "0" := (o0 K). Notation "1" := (o1 K).
Infix "+" := (oadd K). Infix "*" := (omul K). Infix "-" := (osub K).
Hypothesis Rth : rng K.
Add Ring RrStepAlg : Rth.
Local Notation bsum := (bsum K). Local Notation msum := (msum K). Local Notation mget := (mget K).
Local Notation cget := (cget K).

Definition rows_orth (V : mat T) : Prop := forall c c', c < mr V -> c' < mr V ->
  bsum (mc V) (fun t => mget V c t * mget V c' t) = if Nat.eqb c c' then 1 else 0.
Definition rows_zero (V : mat T) : Prop := forall c t, c < mr V -> t < mc V -> mget V c t = 0.
(* rows pairwise orthogonal, each row of norm 1 or zero (a zero row belongs to a retained zero singular value) *)
Definition rows_porth (V : mat T) : Prop :=
  (forall c c', c < mr V -> c' < mr V -> c <> c' -> bsum (mc V) (fun t => mget V c t * mget V c' t) = 0) /\
  (forall c, c < mr V -> bsum (mc V) (fun t => mget V c t * mget V c t) = 1 \/ (forall t, t < mc V -> mget V c t = 0)).
Lemma rows_orth_porth V : rows_orth V -> rows_porth V.
Proof.
  intros H. split.
  - intros c c' Hc Hc' Hne. rewrite H by auto. destruct (Nat.eqb_spec c c'); [contradiction|reflexivity].
  - intros c Hc. left. rewrite H by auto. now rewrite Nat.eqb_refl.
Qed.
Lemma rows_zero_porth V : rows_zero V -> rows_porth V.
Proof.
  intros H. split.
  - intros c c' Hc Hc' _. apply bsum_0'; auto. intros t Ht. rewrite (H c t) by auto. ring.
  - intros c Hc. right. intros t Ht. now apply H.
Qed.
Record fact_ok (M U V : mat T) : Prop := {
  fo_ru : mr U = mr M;
  fo_cv : mc V = mc M;
  fo_q : mr V = mc U;
  (* U V = M V^T V *)
  fo_uv : forall a t, a < mr M -> t < mc M ->
     bsum (mc U) (fun c => mget U a c * mget V c t) =
     bsum (mc M) (fun t' => mget M a t' * bsum (mc U) (fun c => mget V c t' * mget V c t));
  fo_orth : rows_porth V
}.
(* (M - U V) V^T = 0 *)
Lemma fact_EVt M U V : fact_ok M U V -> forall a c, a < mr M -> c < mc U ->
  bsum (mc M) (fun t => (mget M a t - bsum (mc U) (fun c' => mget U a c' * mget V c' t)) * mget V c t) = 0.
Proof.
  intros [ru cv fq uv [HO HN]] a c Ha Hc.
  set (g := fun t' t => bsum (mc U) (fun c' => mget V c' t' * mget V c' t)).
  assert (G1 : forall t', t' < mc M -> bsum (mc M) (fun t => g t' t * mget V c t) = mget V c t').
  { intros t' Ht'. unfold g.
    rewrite (bsum_ext K (mc M) _ (fun t => bsum (mc U) (fun c' => mget V c' t' * (mget V c' t * mget V c t)))).
    2:{ intros t Ht. rewrite <- bsum_mul_r by auto. apply bsum_ext; intros c' Hc'. ring. }
    rewrite bsum_swap by auto.
    rewrite (bsum_ext K (mc U) _ (fun c' => mget V c' t' * bsum (mc M) (fun t => mget V c' t * mget V c t))).
    2:{ intros c' Hc'. now rewrite bsum_mul_l by auto. }
    rewrite (bsum_single K Rth (mc U) c); auto.
    + rewrite <- cv. destruct (HN c) as [E1|EZ]; [lia| |].
      * rewrite E1. ring.
      * rewrite (EZ t') by lia. ring.
    + intros c' Hc' Hne. rewrite <- cv. rewrite HO by lia. ring. }
  assert (Y : bsum (mc M) (fun t => bsum (mc U) (fun c' => mget U a c' * mget V c' t) * mget V c t) =
              bsum (mc M) (fun t => mget M a t * mget V c t)).
  { rewrite (bsum_ext K (mc M) _ (fun t => bsum (mc M) (fun t' => mget M a t' * (g t' t * mget V c t)))).
    2:{ intros t Ht. rewrite uv by auto. rewrite <- bsum_mul_r by auto. apply bsum_ext; intros t' Ht'. unfold g. ring. }
    rewrite bsum_swap by auto. apply bsum_ext; intros t' Ht'. rewrite bsum_mul_l by auto. now rewrite G1 by auto. }
  rewrite (bsum_ext K (mc M) _ (fun t => mget M a t * mget V c t -
             bsum (mc U) (fun c' => mget U a c' * mget V c' t) * mget V c t)) by (intros; ring).
  rewrite bsum_sub by auto. rewrite Y. ring.
Qed.

(* one step: Zs = P ++ [G],  W = W' ++ [fold V],  P' = P with its last core multiplied by U *)
Lemma step_dist P0 A G W' U V :
  let P := P0 ++ [A] in let M := unfoldR K G in let Vc := foldR K (cn G) (cr2 G) V in
  let P' := P0 ++ [core_mulR K A U] in
  chain 1 P (cr1 G) -> Forall (lorth K) P -> fact_ok M U V -> shape W' = shape P -> length W' = length P ->
  dist2o K (P ++ [G]) (W' ++ [Vc]) (cr2 G) = res2 K M U V +
    msum (shape P) (fun iL => bsum (mc U) (fun c =>
      bsum (mc V) (fun t => mget V c t * mget V c t) * sq K (oget K P' iL c - oget K W' iL c))).
Proof.
  cbv zeta. intros C HL FO SW LW.
  pose proof (fact_EVt _ _ _ FO) as EVt. destruct FO as [ru cv fq uv ort].
  cbn [unfoldR mr mc mkmat] in ru, cv, EVt, uv.
  assert (SP' : shape (P0 ++ [core_mulR K A U]) = shape (P0 ++ [A])).
  { rewrite !shape_app. reflexivity. }
  (* the distance as a sum over (iL, t) *)
  assert (D : dist2o K ((P0 ++ [A]) ++ [G]) (W' ++ [foldR K (cn G) (cr2 G) V]) (cr2 G) =
    msum (shape (P0 ++ [A])) (fun iL => bsum (cn G * cr2 G) (fun t =>
      sq K (bsum (cr1 G) (fun b => oget K (P0 ++ [A]) iL b * mget (unfoldR K G) b t) -
            bsum (mc U) (fun c => oget K W' iL c * mget V c t))))).
  { unfold dist2o. rewrite shape_app. cbn [shape map]. fold (shape (P0 ++ [A])). rewrite (msum_snoc K).
    apply msum_ext; intros iL HiL. rewrite <- (bsum_jb K Rth (cn G) (cr2 G)).
    apply bsum_ext; intros j Hj. apply bsum_ext; intros b Hb.
    assert (L1 : length iL = length (P0 ++ [A])) by (rewrite (inb_length _ _ HiL); apply map_length).
    rewrite (oget_snoc K (P0 ++ [A]) G iL j b L1 Hb).
    rewrite (oget_snoc K W' _ iL j b) by (cbn; congruence).
    cbn [foldR cr1 mkcore]. rewrite fq. f_equal. f_equal.
    - apply bsum_ext; intros a Ha. now rewrite (mget_unfoldR K) by auto.
    - apply bsum_ext; intros c Hc. now rewrite (cget_foldR K) by (auto; lia). }
  rewrite D.
  rewrite (pyth_abs K Rth (shape (P0 ++ [A])) (cr1 G) (mc U) (cn G * cr2 G)
             (oget K (P0 ++ [A])) (oget K W') (mget (unfoldR K G)) (mget U) (mget V)).
  2:{ intros b b' Hb Hb'. apply (gram_oget K Rth _ _ C HL); auto. }
  2:{ intros b c Hb Hc. apply EVt; auto. }
  f_equal. apply msum_ext; intros iL HiL.
  rewrite (pyth_bb_gen K Rth).
  2:{ intros c c' Hc Hc' Hne. rewrite <- cv. apply (proj1 ort); lia. }
  assert (EA : cr2 A = cr1 G).
  { destruct (chain_app_inv _ _ _ _ C) as (r0 & _ & CA). cbn [chain] in CA. tauto. }
  apply bsum_ext; intros c Hc. rewrite cv. f_equal. f_equal. f_equal. symmetry. rewrite <- EA. apply (oget_mulR K Rth); auto.
Qed.
End StepAlg.

(* ---------------------------------------------------------------------------------------------------
   the sweep at the reals
   --------------------------------------------------------------------------------------------------- *)
Local Open Scope R_scope.

Lemma sqR_nonneg x : 0 <= sq OR x. Proof. unfold sq. cbn. nra. Qed.
Lemma bsumR_nonneg' n f : (forall i, (i < n)%nat -> 0 <= f i) -> 0 <= bsum OR n f.
Proof. induction n; cbn; intros H; [lra|]. specialize (IHn (fun i Hi => H i (Nat.lt_lt_succ_r _ _ Hi))). specialize (H n (Nat.lt_succ_diag_r n)). cbn in IHn. lra. Qed.
Lemma msumR_nonneg ns : forall f, (forall idx, 0 <= f idx) -> 0 <= msum OR ns f.
Proof. induction ns as [|n ns IH]; intros f H; cbn [msum]; [apply H|]. apply bsumR_nonneg'. intros i _. apply IH. intros; apply H. Qed.
Lemma bsumR_le n f g : (forall i, (i < n)%nat -> f i <= g i) -> bsum OR n f <= bsum OR n g.
Proof. induction n; cbn; intros H; [lra|]. specialize (IHn (fun i Hi => H i (Nat.lt_lt_succ_r _ _ Hi))). specialize (H n (Nat.lt_succ_diag_r n)). cbn in IHn. lra. Qed.
Lemma msumR_le ns : forall f g, (forall idx, f idx <= g idx) -> msum OR ns f <= msum OR ns g.
Proof. induction ns as [|n ns IH]; intros f g H; cbn [msum]; [apply H|]. apply bsumR_le. intros i _. apply IH. intros; apply H. Qed.
Lemma dist2o_nonneg Y W rl : 0 <= dist2o OR Y W rl.
Proof. unfold dist2o. apply msumR_nonneg. intros idx. apply bsumR_nonneg'. intros b _. apply sqR_nonneg. Qed.
Lemma res2_nonneg M U V : 0 <= res2 OR M U V.
Proof. unfold res2. apply bsumR_nonneg'. intros a _. apply bsumR_nonneg'. intros t _. apply sqR_nonneg. Qed.

Lemma snoc2 {A} (l : list A) m : length l = S (S m) -> exists P0 a g, l = (P0 ++ [a]) ++ [g] /\ length P0 = m.
Proof.
  intros H. destruct (split_at l m) as (Pre & x & y & Suf & -> & L); [lia|].
  rewrite app_length in H. cbn in H. destruct Suf; [|cbn in H; lia].
  exists Pre, x, y. split; [now rewrite <- app_assoc|exact L].
Qed.

Section SweepR.
Variable fact : nat -> mat R -> mat R * mat R.
Variable delta2 : R.
Variable rcap : Z.
(* what a factorisation routine has to deliver for every (non-empty) matrix it is applied to *)
Definition fact_contract : Prop := forall k M, (1 <= mr M)%nat -> (1 <= mc M)%nat ->
  let U := fst (fact k M) in let V := snd (fact k M) in
  fact_ok OR M U V /\ (1 <= mc U)%nat /\ (mc U <= mr M)%nat /\ (mc U <= mc M)%nat /\ (Z.of_nat (mc U) <= Z.max 1 rcap)%Z /\
  ((Z.of_nat (mc U) < rcap)%Z -> res2 OR M U V <= delta2).
Hypothesis Hfact : fact_contract.
Hypothesis Hdelta : 0 <= delta2.

Definition posdims (Zs : list (core R)) : Prop := forall k, (k < length Zs)%nat ->
  (1 <= cr1 (nth k Zs dcore))%nat /\ (1 <= cn (nth k Zs dcore))%nat /\ (1 <= cr2 (nth k Zs dcore))%nat.

Theorem gsweep_spec m : forall (Zs : list (core R)) rl, length Zs = S m -> chain 1 Zs rl -> posdims Zs ->
  (forall i, (i < m)%nat -> lorth OR (nth i Zs dcore)) ->
  let W := gsweep OR fact Zs m m in
  length W = S m /\ chain 1 W rl /\ shape W = shape Zs /\
  (forall k, (1 <= k <= m)%nat ->
     (1 <= cr1 (nth k W dcore))%nat /\ (cr1 (nth k W dcore) <= cr1 (nth k Zs dcore))%nat /\
     (cr1 (nth k W dcore) <= cn (nth k Zs dcore) * cr2 (nth k W dcore))%nat /\
     (Z.of_nat (cr1 (nth k W dcore)) <= Z.max 1 rcap)%Z) /\
  ((forall k, (1 <= k <= m)%nat -> (Z.of_nat (cr1 (nth k W dcore)) < rcap)%Z) ->
   dist2o OR Zs W rl <= INR m * delta2).
Proof.
  induction m as [|m IH]; intros Zs rl LZ C PD HL; cbv zeta.
  - cbn [gsweep]. repeat split; auto; try (intros; lia).
    intros _. rewrite (dist2o_refl OR OR_rng). cbn. lra.
  - destruct (snoc2 Zs m LZ) as (P0 & A & G & -> & LP0).
    (* shape-level facts of the input *)
    destruct (chain_app_inv _ _ _ _ C) as (rm & CP & CG). cbn [chain] in CG. destruct CG as (<- & <-).
    assert (LP : length (P0 ++ [A]) = S m) by (rewrite app_length; cbn; lia).
    assert (PDG : (1 <= cr1 G)%nat /\ (1 <= cn G)%nat /\ (1 <= cr2 G)%nat).
    { specialize (PD (S m)). rewrite app_nth2 in PD by lia. rewrite LP, Nat.sub_diag in PD. apply PD.
      rewrite app_length. cbn. lia. }
    (* the step *)
    rewrite <- app_assoc. cbn [app]. rewrite <- LP0. rewrite (gsweep_step OR fact P0 A G (length P0)). cbv zeta.
    set (M := unfoldR OR G). set (U := fst (fact (S (length P0)) M)). set (V := snd (fact (S (length P0)) M)).
    destruct (Hfact (S (length P0)) M) as (FO & Q1 & Q2 & Q2' & Q3 & Q4).
    { cbn. lia. } { cbn. nia. }
    fold U in FO, Q1, Q2, Q2', Q3, Q4. fold V in FO, Q4. cbn [M unfoldR mr mc mkmat] in Q2, Q2'.
    set (Vc := foldR OR (cn G) (cr2 G) V). set (P' := P0 ++ [core_mulR OR A U]).
    rewrite app_assoc. fold P'.
    assert (LP' : length P' = S m) by (unfold P'; rewrite app_length; cbn; lia).
    rewrite (gsweep_app OR fact (length P0) P' (length P0) Vc) by lia.
    change (P0 ++ [A; G]) with (P0 ++ ([A] ++ [G])). rewrite (app_assoc P0 [A] [G]).
    (* the induction hypothesis on P' *)
    destruct (chain_app_inv _ _ _ _ CP) as (r0 & CP0 & CA). cbn [chain] in CA. destruct CA as (EA1 & EA2).
    assert (CP' : chain 1 P' (mc U)).
    { unfold P'. eapply chain_app; [exact CP0|]. cbn [chain core_mulR cr1 cr2 mkcore]. auto. }
    assert (NP' : forall i, (i < length P0)%nat -> nth i P' dcore = nth i ((P0 ++ [A]) ++ [G]) dcore).
    { intros i Hi. unfold P'. rewrite <- app_assoc. now rewrite !app_nth1 by lia. }
    assert (PD' : posdims P').
    { intros k Hk. rewrite LP' in Hk. destruct (Nat.eq_dec k (length P0)) as [->|Hne].
      - unfold P'. rewrite nth_mid. cbn [core_mulR cr1 cn cr2 mkcore].
        specialize (PD (length P0)). rewrite <- app_assoc in PD. cbn [app] in PD. rewrite nth_mid in PD.
        destruct PD as (p1 & p2 & p3); [rewrite app_length; cbn; lia|]. repeat split; auto.
      - rewrite NP' by lia. apply PD. rewrite !app_length. cbn. lia. }
    destruct (IH P' (mc U)) as (LW & CW & SW & RW & EW); [lia|exact CP'|exact PD'| |].
    { intros i Hi. rewrite LP0 in NP'. rewrite NP' by lia. apply HL. lia. }
    rewrite <- LP0 in *. set (W' := gsweep OR fact P' (length P0) (length P0)) in *.
    destruct FO as [ru cv fq uv ort]. cbn [M unfoldR mr mc mkmat] in ru, cv.
    assert (SP' : shape P' = shape (P0 ++ [A])) by (unfold P'; rewrite !shape_app; reflexivity).
    split; [rewrite app_length; cbn; lia|]. split; [|split; [|split]].
    + eapply chain_app; [exact CW|]. cbn [chain Vc foldR cr1 cr2 mkcore]. auto.
    + rewrite (shape_app W'), (shape_app (P0 ++ [A])), SW, SP'. reflexivity.
    + intros k Hk. destruct (Nat.eq_dec k (S (length P0))) as [->|Hne].
      * rewrite !app_nth2 by lia. rewrite LW, LP, Nat.sub_diag. cbn [nth Vc foldR cr1 cn cr2 mkcore].
        rewrite fq. repeat split; auto; lia.
      * rewrite app_nth1 by lia. destruct (RW k) as (w1 & w2 & w3 & w4); [lia|]. repeat split; auto.
        -- etransitivity; [exact w2|]. destruct (Nat.eq_dec k (length P0)) as [->|Hne2].
           ++ unfold P'. rewrite nth_mid. rewrite <- app_assoc. cbn [app]. rewrite nth_mid. reflexivity.
           ++ rewrite NP' by lia. lia.
        -- etransitivity; [exact w3|]. apply Nat.mul_le_mono_r. apply Nat.eq_le_incl.
           destruct (Nat.eq_dec k (length P0)) as [->|Hne2].
           ++ unfold P'. rewrite nth_mid. rewrite <- app_assoc. cbn [app]. rewrite nth_mid. reflexivity.
           ++ rewrite NP' by lia. reflexivity.
    + intros Hcap.
      assert (Hq : (Z.of_nat (mc U) < rcap)%Z).
      { specialize (Hcap (S (length P0))). rewrite app_nth2 in Hcap by lia. rewrite LW, Nat.sub_diag in Hcap.
        cbn [nth Vc foldR cr1 mkcore] in Hcap. rewrite fq in Hcap. apply Hcap. lia. }
      assert (HE : dist2o OR P' W' (mc U) <= INR (length P0) * delta2).
      { apply EW. intros k Hk. specialize (Hcap k). rewrite app_nth1 in Hcap by lia. apply Hcap. lia. }
      assert (FL : Forall (lorth OR) (P0 ++ [A])).
      { apply Forall_forall. intros x Hx. destruct (In_nth _ x dcore Hx) as (i & Hi & <-).
        rewrite <- (app_nth1 (P0 ++ [A]) [G] dcore Hi). apply HL. lia. }
      pose proof (step_dist OR OR_rng P0 A G W' U V) as DO. cbv zeta in DO. fold M Vc P' in DO.
      rewrite DO; auto; [|constructor; auto|congruence|lia].
      specialize (Q4 Hq).
      replace (INR (S (length P0))) with (INR (length P0) + 1) by (rewrite S_INR; lra).
      assert (LE : msum OR (shape (P0 ++ [A])) (fun iL => bsum OR (mc U) (fun c =>
                     omul OR (bsum OR (mc V) (fun t => omul OR (mget OR V c t) (mget OR V c t)))
                             (sq OR (osub OR (oget OR P' iL c) (oget OR W' iL c))))) <= dist2o OR P' W' (mc U)).
      { unfold dist2o. rewrite SP'. apply msumR_le. intros iL. apply bsumR_le. intros c Hc.
        pose proof (sqR_nonneg (osub OR (oget OR P' iL c) (oget OR W' iL c))) as SQ.
        destruct (proj2 ort c) as [E1|EZ]; [lia| |].
        - rewrite E1. change (1 * sq OR (osub OR (oget OR P' iL c) (oget OR W' iL c)) <= sq OR (osub OR (oget OR P' iL c) (oget OR W' iL c))). lra.
        - rewrite (bsum_0' OR OR_rng) by (intros t Ht; rewrite (EZ t Ht); cbn; lra).
          change (0 * sq OR (osub OR (oget OR P' iL c) (oget OR W' iL c)) <= sq OR (osub OR (oget OR P' iL c) (oget OR W' iL c))). lra. }
      match goal with |- oadd OR ?a ?b <= _ => change (a + b <= (INR (length P0) + 1) * delta2) end. lra.
Qed.
End SweepR.
