(* Lemmas for C03, part 3 (any commutative ring): induction over the TT-SVD sweep.
   err2 = squared Frobenius distance between the dense remainder and the tensor denoted by the produced cores;
   tails = sum of the tail energies discarded by the truncated factorisations of the run;  err2 = tails. *)
From Coq Require Import List Arith Lia PeanoNat ZArith Bool Ring.
From TV Require Import Num.Ops Lin.Tab Lin.BigSum Lin.Mat TT.Chain Model.ActOne Model.Transformation
  Model.Svd Proofs.ActOneP Proofs.SvdP Proofs.SvdP2.
Import ListNotations.

Section Loop.
Context {T : Type} (K : ops T).
Notation "0" := (o0 K). Notation "1" := (o1 K).
Infix "+" := (oadd K). Infix "*" := (omul K). Infix "-" := (osub K).
Notation sqr x := (omul K x x).
Notation bsum := (bsum K).
Hypothesis Rth : rng K.
Add Ring RrSvdP3 : Rth.

Variable svdo : nat -> mat T -> mat T * list T * mat T.
Variables (e : T) (rcap : Z).

(* the remainder handed to the next step (give_to = 'r': the singular values travel with it) *)
Definition next_Z (s : list T) (V : mat T) : mat T :=
  mmul K (diagl K (firstn (sel_rank K s e rcap) s)) (mtaker K V (sel_rank K s e rcap)).

(* a quantity accumulated over the LAPACK calls the sweep actually makes *)
Fixpoint sweep_fold {R : Type} (f : mat T -> mat T -> list T -> mat T -> R -> R) (b : R)
  (k0 : nat) (Zm : mat T) (q : nat) (ns : list nat) : R :=
  match ns with
  | [] => b
  | k :: ns' =>
    match ns' with
    | [] => b
    | _ :: _ =>
      let A := step_mat K Zm q k in
      let '(U, s, V) := svdo k0 A in
      f A U s V (sweep_fold f b (S k0) (next_Z s V) (sel_rank K s e rcap) ns')
    end
  end.
Lemma sweep_fold_cons {R} (f : mat T -> mat T -> list T -> mat T -> R -> R) b k0 Zm q k k' ns U s V :
  svdo k0 (step_mat K Zm q k) = (U, s, V) ->
  sweep_fold f b k0 Zm q (k :: k' :: ns) =
  f (step_mat K Zm q k) U s V (sweep_fold f b (S k0) (next_Z s V) (sel_rank K s e rcap) (k' :: ns)).
Proof. intros E. cbn [sweep_fold]. rewrite E. reflexivity. Qed.

(* every recorded answer meets the contract;  sum of the discarded tail energies *)
Definition calls_ok := sweep_fold (fun A U s V rest => svd_ok K A U s V /\ rest) True.
Definition tails := sweep_fold (fun _ _ s _ rest => tail K s (sel_rank K s e rcap) + rest) 0.

Definition err2 (Zm : mat T) (q : nat) (ns : list nat) (Y : list (core T)) : T :=
  bsum q (fun a => msum K ns (fun idx => sqr (mget K Zm a (cpos ns idx 0) - dget K Y idx q a 0))).

Lemma dget_cons G Y' i idx r a b rl : cr1 G = r -> a < r -> i < cn G -> wfo (cr2 G) Y' idx rl -> b < rl ->
  dget K (G :: Y') (i :: idx) r a b = bsum (cr2 G) (fun c => cget K G a i c * dget K Y' idx (cr2 G) c b).
Proof.
  intros Hr Ha Hi W Hb. subst r. unfold dget at 1. cbn [run].
  rewrite (run_decomp K Rth Y' (vstep K (evec K (cr1 G) a) G i) idx (cr2 G) rl W (vstep_length K _ _ _) b Hb).
  apply bsum_ext; intros c Hc. f_equal.
  rewrite nth_vstep by auto. rewrite (bsum_single K Rth (cr1 G) a); auto.
  - rewrite nth_evec, Nat.eqb_refl by auto. ring.
  - intros a' Ha' Hne. rewrite nth_evec by auto. destruct (Nat.eqb_spec a' a); [contradiction|ring].
Qed.

Lemma prodn_pos ns : Forall (fun n => 0 < n) ns -> 0 < prodn ns.
Proof. induction 1; cbn; [lia|]. fold (prodn l). nia. Qed.

Lemma step_mat_dims Zm q k N : mr Zm = q -> mc Zm = (k * N)%nat -> 0 < q -> 0 < k ->
  mr (step_mat K Zm q k) = (q * k)%nat /\ mc (step_mat K Zm q k) = N.
Proof.
  intros H1 H2 Hq Hk. unfold step_mat, reshapeC. cbn [mr mc mkmat]. split; [reflexivity|].
  rewrite H1, H2. replace (q * (k * N))%nat with (N * (q * k))%nat by lia. apply Nat.div_mul. nia.
Qed.
Lemma step_mat_get Zm q k N a i p : mr Zm = q -> mc Zm = (k * N)%nat -> 0 < q -> 0 < k -> a < q -> i < k -> p < N ->
  mget K (step_mat K Zm q k) (a * k + i) p = mget K Zm a (i * N + p).
Proof.
  intros H1 H2 Hq Hk Ha Hi Hp. destruct (step_mat_dims Zm q k N H1 H2 Hq Hk) as [_ E].
  unfold step_mat in *. unfold reshapeC at 1. cbn [mc reshapeC mkmat] in E.
  rewrite mget_mk by (try rewrite E; nia). rewrite E, H2.
  replace ((a * k + i) * N + p)%nat with (a * (k * N) + (i * N + p))%nat by lia.
  destruct (divmod_mk a (i * N + p) (k * N)) as [D M]; [nia|]. rewrite D, M. reflexivity.
Qed.

Theorem loop_err : forall ns k0 Zm q, ns <> [] -> Forall (fun n => 0 < n) ns -> 0 < q ->
  mr Zm = q -> mc Zm = prodn ns -> calls_ok k0 Zm q ns ->
  err2 Zm q ns (svd_loop K svdo k0 Zm q ns e rcap) = tails k0 Zm q ns.
Proof.
  induction ns as [|k ns IH]; intros k0 Zm q Hne Hpos Hq HmrZ HmcZ Hok; [contradiction|].
  pose proof (Forall_inv Hpos) as Hk. pose proof (Forall_inv_tail Hpos) as Hpos'. cbv beta in Hk.
  destruct ns as [|k' ns].
  - (* last core: the remainder itself *)
    cbn [svd_loop tails sweep_fold]. unfold err2. apply bsum_0'; auto. intros a Ha.
    cbn [msum]. apply bsum_0'; auto. intros i Hi. cbn [cpos].
    rewrite (dget_cons _ [] i [] q a 0%nat 1%nat) by (cbn; auto; lia).
    rewrite cr2_mk. cbn [BigSum.bsum]. rewrite cget_mk by lia.
    unfold dget. cbn [run]. rewrite nth_evec by lia. cbn [Nat.eqb].
    unfold reshapeC. rewrite mget_mk by auto. rewrite HmcZ. cbn [prodn fold_right]. rewrite Nat.mul_1_r.
    destruct (divmod_mk a i k Hi) as [D M]. rewrite D, M. rewrite Nat.mul_0_l, Nat.add_0_l. ring.
  - set (ns' := k' :: ns) in *.
    assert (HN : 0 < prodn ns') by now apply prodn_pos.
    assert (HmcZ' : mc Zm = (k * prodn ns')%nat) by exact HmcZ.
    destruct (svdo k0 (step_mat K Zm q k)) as [[U s] V] eqn:E.
    unfold calls_ok in Hok. unfold ns' in Hok. rewrite (sweep_fold_cons _ _ _ _ _ _ _ _ _ _ _ E) in Hok. fold ns' in Hok.
    destruct Hok as [HA Hrest]. fold calls_ok in Hrest.
    unfold tails. unfold ns' at 3. rewrite (sweep_fold_cons _ _ _ _ _ _ _ _ _ _ _ E). fold ns'. fold tails.
    unfold ns' at 2. rewrite svd_loop_cons, (skeleton_R K svdo _ _ _ _ _ _ _ E). fold ns'.
    change (mc (mtakec K U (sel_rank K s e rcap))) with (sel_rank K s e rcap).
    fold (next_Z s V).
    set (A := step_mat K Zm q k) in *. set (q' := sel_rank K s e rcap) in *.
    destruct (step_mat_dims Zm q k (prodn ns') HmrZ HmcZ' Hq Hk) as [HmrA HmcA]. fold A in HmrA, HmcA.
    assert (Hq' : 1 <= q' <= length s).
    { destruct HA as (L & _). pose proof (sel_rank_bounds K s e rcap) as B. fold q' in B. lia. }
    destruct (skel_dims K A U s V q' HA Hq') as (D1 & D2 & D3 & D4).
    change (mmul K (diagl K (firstn q' s)) (mtaker K V q')) with (next_Z s V) in D3, D4.
    set (Zr := next_Z s V) in *. set (G := mtakec K U q') in *.
    set (Y' := svd_loop K svdo (S k0) Zr q' ns' e rcap).
    assert (IHY : err2 Zr q' ns' Y' = tails (S k0) Zr q' ns').
    { apply IH; [discriminate|exact Hpos'|lia|exact D3|rewrite D4; exact HmcA|exact Hrest]. }
    destruct (svd_loop_wf K svdo e rcap ns' (S k0) Zr q' ltac:(discriminate)) as (C1 & C2 & _). fold Y' in C1, C2.
    rewrite <- IHY.
    pose (R := resid K A U s V q').
    pose (Dp := fun c idx => mget K Zr c (cpos ns' idx 0) - dget K Y' idx q' c 0).
    (* 1. rows (a, i) of the remainder = rows of the unfolded matrix; split into residual + G * (Zr - D') *)
    transitivity (bsum (q * k) (fun r => msum K ns' (fun idx =>
                    sqr (R r (cpos ns' idx 0) + bsum q' (fun c => mget K G r c * Dp c idx))))).
    { unfold err2. rewrite bsum_prod by auto. apply bsum_ext; intros a Ha. cbn [msum].
      apply bsum_ext; intros i Hi. apply msum_ext; auto. intros idx Hidx.
      destruct (cpos_acc ns' idx (0 * k + i) Hidx) as [P1 P2]. cbn [cpos]. rewrite P1.
      rewrite Nat.mul_0_l, Nat.add_0_l.
      rewrite <- (step_mat_get Zm q k (prodn ns') a i (cpos ns' idx 0)) by auto. fold A.
      rewrite (dget_cons _ Y' i idx q a 0%nat 1%nat); [|reflexivity|auto|rewrite cn_mk; auto| |lia].
      2:{ rewrite cr2_mk. apply wfo_chain_inb. split; [exact C1|]. rewrite C2. exact Hidx. }
      rewrite cr2_mk. f_equal.
      - unfold R, resid, Dp.
        rewrite (bsum_ext K q' (fun c => mget K G (a * k + i) c * (mget K Zr c (cpos ns' idx 0) - dget K Y' idx q' c 0))
                   (fun c => mget K G (a * k + i) c * mget K Zr c (cpos ns' idx 0) - mget K G (a * k + i) c * dget K Y' idx q' c 0))
          by (intros; ring).
        rewrite bsum_sub by auto.
        rewrite (bsum_ext K q' (fun c => cget K (mkcore q k q' (fun a0 i0 c0 => mget K G (a0 * k + i0) c0)) a i c * dget K Y' idx q' c 0)
                   (fun c => mget K G (a * k + i) c * dget K Y' idx q' c 0))
          by (intros c Hc; rewrite cget_mk by auto; reflexivity).
        change (mmul K (diagl K (firstn q' s)) (mtaker K V q')) with Zr. change (mtakec K U q') with G. ring.
      - unfold R, resid, Dp.
        rewrite (bsum_ext K q' (fun c => mget K G (a * k + i) c * (mget K Zr c (cpos ns' idx 0) - dget K Y' idx q' c 0))
                   (fun c => mget K G (a * k + i) c * mget K Zr c (cpos ns' idx 0) - mget K G (a * k + i) c * dget K Y' idx q' c 0))
          by (intros; ring).
        rewrite bsum_sub by auto.
        rewrite (bsum_ext K q' (fun c => cget K (mkcore q k q' (fun a0 i0 c0 => mget K G (a0 * k + i0) c0)) a i c * dget K Y' idx q' c 0)
                   (fun c => mget K G (a * k + i) c * dget K Y' idx q' c 0))
          by (intros c Hc; rewrite cget_mk by auto; reflexivity).
        change (mmul K (diagl K (firstn q' s)) (mtaker K V q')) with Zr. change (mtakec K U q') with G. ring. }
    (* 2. per column: Pythagoras *)
    rewrite msum_bsum_swap by auto.
    transitivity (msum K ns' (fun idx => bsum (mr A) (fun r => sqr (R r (cpos ns' idx 0))) + bsum q' (fun c => sqr (Dp c idx)))).
    { apply msum_ext; auto. intros idx Hidx. destruct (cpos_acc ns' idx 0%nat Hidx) as [_ P2].
      rewrite <- HmrA. apply (pyth_vec K Rth (mget K G) (mr A) q').
      - exact (skel_G_orth K A U s V q' HA Hq').
      - intros c Hc. apply (skel_G_resid0 K Rth A U s V q' HA Hq'); auto. lia. }
    rewrite msum_add by auto. f_equal.
    + rewrite (msum_cpos K Rth ns' (fun p => bsum (mr A) (fun r => sqr (R r p))) 0%nat).
      rewrite <- HmcA. rewrite <- (skel_resid_frob K Rth A U s V q' HA Hq').
      apply bsum_ext; intros p Hp. rewrite Nat.mul_0_l, Nat.add_0_l. reflexivity.
    + unfold err2. rewrite msum_bsum_swap by auto. reflexivity.
Qed.

(* an oracle that meets the contract on every non-empty matrix meets it on the calls of every run *)
Lemma calls_ok_all :
  (forall k A, 0 < mr A -> 0 < mc A -> let '(U, s, V) := svdo k A in svd_ok K A U s V) ->
  forall ns k0 Zm q, Forall (fun n => 0 < n) ns -> 0 < q -> mr Zm = q -> mc Zm = prodn ns -> calls_ok k0 Zm q ns.
Proof.
  intros Hall. induction ns as [|k ns IH]; intros k0 Zm q Hpos Hq HmrZ HmcZ; [exact I|].
  pose proof (Forall_inv Hpos) as Hk. pose proof (Forall_inv_tail Hpos) as Hpos'. cbv beta in Hk.
  destruct ns as [|k' ns]; [exact I|].
  assert (HN : 0 < prodn (k' :: ns)) by now apply prodn_pos.
  destruct (step_mat_dims Zm q k (prodn (k' :: ns)) HmrZ HmcZ Hq Hk) as [HmrA HmcA].
  pose proof (Hall k0 (step_mat K Zm q k) ltac:(rewrite HmrA; nia) ltac:(rewrite HmcA; exact HN)) as HA.
  destruct (svdo k0 (step_mat K Zm q k)) as [[U s] V] eqn:E.
  unfold calls_ok. rewrite (sweep_fold_cons _ _ _ _ _ _ _ _ _ _ _ E). split; [exact HA|].
  assert (Hq' : 1 <= sel_rank K s e rcap <= length s).
  { destruct HA as (L & _). pose proof (sel_rank_bounds K s e rcap) as B. lia. }
  destruct (skel_dims K _ U s V _ HA Hq') as (_ & _ & D3 & D4).
  apply IH; auto; try lia. unfold next_Z. rewrite D4. exact HmcA.
Qed.
End Loop.
